import DarkluaModel.C07.VisitEqs
import DarkluaModel.C07.Cover
/-!
# The visitor preserves well-formedness

`wf_block`: if every hook of `P` returns well-formed nodes (and the kind-specific expression hooks
keep the constructor of the node, so that prefixes stay prefixes, call statements stay calls, …),
then `Visitor.visitBlock P …` maps well-formed blocks to well-formed blocks — with ANY fuel.
Needed to chain the rules (`all_lowered_is_51`).
-/
namespace DarkluaModel.C07
open DarkluaModel.Rules Visitor

/-- the constructor of an expression -/
def ctor : Expr → Nat
  | .nil => 0 | .true => 1 | .false => 2 | .vararg => 3 | .num _ => 4 | .str _ => 5 | .var _ => 6
  | .paren _ => 7 | .un .. => 8 | .bin .. => 9 | .call .. => 10 | .field .. => 11 | .index .. => 12
  | .fn _ => 13 | .table _ => 14 | .ifx .. => 15 | .interp _ => 16 | .cast .. => 17 | .inst .. => 18

theorem isPrefix_of_ctor {a b : Expr} (h : ctor a = ctor b) : isPrefix a = isPrefix b := by
  cases a <;> cases b <;> simp_all [ctor, isPrefix]
theorem isVariable_of_ctor {a b : Expr} (h : ctor a = ctor b) : isVariable a = isVariable b := by
  cases a <;> cases b <;> simp_all [ctor, isVariable]
theorem isCall_of_ctor {a b : Expr} (h : ctor a = ctor b) : isCall a = isCall b := by
  cases a <;> cases b <;> simp_all [ctor, isCall]

structure WfHooks {σ : Type} (P : Processor σ) : Prop where
  block : ∀ b s, wfB b = true → wfB (P.block b s).1 = true
  afterBlock : ∀ b s, wfB b = true → wfB (P.afterBlock b s).1 = true
  scope_id : ∀ b e s, (P.scope b e s).1 = (b, e)
  stmt : ∀ st s, wfS st = true → wfS (P.stmt st s).1 = true
  stmtNode : ∀ st s, wfS st = true → wfS (P.stmtNode st s).1 = true
  afterStmtNode : ∀ st s, wfS st = true → wfS (P.afterStmtNode st s).1 = true
  last : ∀ l s, wfL l = true → wfL (P.last l s).1 = true
  expr : ∀ e s, wfE e = true → wfE (P.expr e s).1 = true
  pref : ∀ e s, isPrefix e = true → wfE e = true → isPrefix (P.pref e s).1 = true ∧ wfE (P.pref e s).1 = true
  target_id : ∀ e s, (P.target e s).1 = e
  node : ∀ e s, wfE e = true → wfE (P.node e s).1 = true ∧ ctor (P.node e s).1 = ctor e
  afterNode : ∀ e s, wfE e = true → wfE (P.afterNode e s).1 = true ∧ ctor (P.afterNode e s).1 = ctor e
  ty_id : ∀ t s, (P.ty t s).1 = t
  insertLocal_id : ∀ n e s, (P.insertLocal n e s).1 = (n, e)

section
variable {σ : Type} (P : Processor σ) (sc : Bool)

structure WLevel (n : Nat) : Prop where
  ty : ∀ t s, wfTy t = true → wfTy (visitTy P sc n t s).1 = true
  expr : ∀ e s, wfE e = true → wfE (visitExpr P sc n e s).1 = true
  pref : ∀ e s, isPrefix e = true → wfE e = true →
    isPrefix (visitPrefix P sc n e s).1 = true ∧ wfE (visitPrefix P sc n e s).1 = true
  target : ∀ e s, isVariable e = true → wfE e = true →
    isVariable (visitTarget P sc n e s).1 = true ∧ wfE (visitTarget P sc n e s).1 = true
  entry : ∀ e s, wfEntry e = true → wfEntry (visitEntry P sc n e s).1 = true
  seg : ∀ e s, wfSeg e = true → wfSeg (visitSeg P sc n e s).1 = true
  node : ∀ e s, wfE e = true → wfE (visitNode P sc n e s).1 = true ∧ ctor (visitNode P sc n e s).1 = ctor e
  fnbody : ∀ hs body s, wfF body = true → wfF (visitFnBody P sc n hs body s).1 = true
  stmt : ∀ st s, wfS st = true → wfS (visitStmt P sc n st s).1 = true
  last : ∀ l s, wfL l = true → wfL (visitLast P sc n l s).1 = true
  block : ∀ pushes b s, wfB b = true → wfB (visitBlock P sc n pushes b s).1 = true

structure WLists (n : Nat) : Prop where
  tys : ∀ ts s, wfTys ts = true → wfTys (mapS (visitTy P sc n) ts s).1 = true
  oty : ∀ t s, wfOTy t = true → wfOTy (optS (visitTy P sc n) t s).1 = true
  exprs : ∀ es s, wfEs es = true → wfEs (mapS (visitExpr P sc n) es s).1 = true
  oexpr : ∀ e s, wfOE e = true → wfOE (optS (visitExpr P sc n) e s).1 = true
  args : ∀ k es s, argsOk k es = true → k ≠ .tuple → wfEs es = true →
    argsOk k (mapS (visitNode P sc n) es s).1 = true ∧ wfEs (mapS (visitNode P sc n) es s).1 = true
  targets : ∀ es s, wfTargets es = true → wfTargets (mapS (visitTarget P sc n) es s).1 = true
  entries : ∀ es s, wfEntries es = true → wfEntries (mapS (visitEntry P sc n) es s).1 = true
  segs : ∀ es s, wfSegs es = true → wfSegs (mapS (visitSeg P sc n) es s).1 = true
  pairs : ∀ ps s, wfPairs ps = true →
    wfPairs (mapS (fun (p : Expr × Expr) st =>
      (((visitExpr P sc n p.1 st).1, (visitExpr P sc n p.2 (visitExpr P sc n p.1 st).2).1),
        (visitExpr P sc n p.2 (visitExpr P sc n p.1 st).2).2)) ps s).1 = true
  tnames : ∀ ns s, wfTNs ns = true → wfTNs (mapS (tnameTy (visitTy P sc n)) ns s).1 = true
  tname : ∀ t s, wfTN t = true → wfTN (tnameTy (visitTy P sc n) t s).1 = true
  branches : ∀ bs s, wfBranches bs = true →
    wfBranches (mapS (fun (p : Expr × Block) st =>
      (((visitExpr P sc n p.1 st).1,
          (visitBlock P sc n true p.2 (P.scope p.2 none (visitExpr P sc n p.1 st).2).2).1),
        (visitBlock P sc n true p.2 (P.scope p.2 none (visitExpr P sc n p.1 st).2).2).2)) bs s).1 = true
  oelse : ∀ b s, wfOB b = true →
    wfOB (optS (fun blk st => visitBlock P sc n true blk (P.scope blk none st).2) b s).1 = true
  stmts : ∀ ss s, wfSs ss = true → wfSs (mapS (visitStmt P sc n) ss s).1 = true
  olast : ∀ l s, wfOL l = true → wfOL (optS (visitLast P sc n) l s).1 = true

set_option linter.unusedSimpArgs false
set_option linter.unusedVariables false

theorem wf_tnameInsert (f : String → σ → String × σ) :
    ∀ ns s, wfTNs (mapS (tnameInsert f) ns s).1 = wfTNs ns := by
  intro ns
  induction ns with
  | nil => intro s; simp [mapS]
  | cons t ts ih =>
    intro s
    cases t with
    | mk n ty => simp only [mapS, tnameInsert, wfTNs, wfTN, ih]

theorem wf_tnameInsert1 (f : String → σ → String × σ) (t : TName) (s : σ) :
    wfTN (tnameInsert f t s).1 = wfTN t := by
  cases t; simp [tnameInsert, wfTN]

theorem wf_insertLocals (h : WfHooks P) :
    ∀ ns vs s, wfTNs (insertLocals P ns vs s).1.1 = wfTNs ns ∧ wfEs (insertLocals P ns vs s).1.2 = wfEs vs := by
  intro ns
  induction ns with
  | nil => intro vs s; simp [insertLocals]
  | cons t ts ih =>
    intro vs s
    cases t with
    | mk n ty =>
      cases vs with
      | nil => simp only [insertLocals, wfTNs, wfTN, wfEs, ih, and_self]
      | cons v vs =>
        have h1 := h.insertLocal_id n (some v) s
        simp only [insertLocals, wfTNs, wfTN, wfEs, h1, Option.getD_some, ih, and_self]

theorem wargs_single (k : ArgKind) (es : List Expr) (ha : argsOk k es = true) (hk : k ≠ .tuple) :
    ∃ e, es = [e] ∧ ((k = .str ∧ ctor e = 5) ∨ (k = .tbl ∧ ctor e = 14)) := by
  cases k with
  | tuple => exact absurd rfl hk
  | str =>
    match es, ha with
    | [.str b], _ => exact ⟨_, rfl, Or.inl ⟨rfl, rfl⟩⟩
  | tbl =>
    match es, ha with
    | [.table b], _ => exact ⟨_, rfl, Or.inr ⟨rfl, rfl⟩⟩

theorem argsOk_of_ctor (k : ArgKind) (e e' : Expr) (h : ctor e' = ctor e)
    (hk : (k = .str ∧ ctor e = 5) ∨ (k = .tbl ∧ ctor e = 14)) : argsOk k [e'] = true := by
  rcases hk with ⟨rfl, hc⟩ | ⟨rfl, hc⟩ <;> cases e' <;> simp_all [ctor, argsOk]

theorem wlists_of_level (h : WfHooks P) (n : Nat) (L : WLevel P sc n) : WLists P sc n := by
  have Lty := L.ty
  have Lexpr := L.expr
  have Ltarget := L.target
  have Lentry := L.entry
  have Lseg := L.seg
  have Lstmt := L.stmt
  have Llast := L.last
  have Lblock := L.block
  have hSc := h.scope_id
  refine ⟨?_, ?_, ?_, ?_, ?_, ?_, ?_, ?_, ?_, ?_, ?_, ?_, ?_, ?_, ?_⟩
  · intro ts
    induction ts with
    | nil => intro s; simp [mapS, wfTys]
    | cons t ts ih => intro s hw; simp only [wfTys, Bool.and_eq_true] at hw; simp only [mapS, wfTys]; grind
  · intro t s hw
    cases t with
    | none => simp [optS, wfOTy]
    | some t => simp only [wfOTy] at hw; simp only [optS, wfOTy]; grind
  · intro es
    induction es with
    | nil => intro s; simp [mapS, wfEs]
    | cons t ts ih => intro s hw; simp only [wfEs, Bool.and_eq_true] at hw; simp only [mapS, wfEs]; grind
  · intro t s hw
    cases t with
    | none => simp [optS, wfOE]
    | some t => simp only [wfOE] at hw; simp only [optS, wfOE]; grind
  · intro k es s ha hk hw
    obtain ⟨e, rfl, hkind⟩ := wargs_single k es ha hk
    simp only [wfEs, Bool.and_true] at hw
    obtain ⟨a, b⟩ := L.node e s hw
    simp only [mapS, wfEs, a, Bool.and_true, and_true]
    exact argsOk_of_ctor k e _ b hkind
  · intro es
    induction es with
    | nil => intro s; simp [mapS, wfTargets]
    | cons t ts ih => intro s hw; simp only [wfTargets, Bool.and_eq_true] at hw; simp only [mapS, wfTargets]; grind
  · intro es
    induction es with
    | nil => intro s; simp [mapS, wfEntries]
    | cons t ts ih => intro s hw; simp only [wfEntries, Bool.and_eq_true] at hw; simp only [mapS, wfEntries]; grind
  · intro es
    induction es with
    | nil => intro s; simp [mapS, wfSegs]
    | cons t ts ih => intro s hw; simp only [wfSegs, Bool.and_eq_true] at hw; simp only [mapS, wfSegs]; grind
  · intro es
    induction es with
    | nil => intro s; simp [mapS, wfPairs]
    | cons t ts ih =>
      intro s hw; obtain ⟨a, b⟩ := t
      simp only [wfPairs, Bool.and_eq_true] at hw; simp only [mapS, wfPairs]; grind
  · intro es
    induction es with
    | nil => intro s; simp [mapS, wfTNs]
    | cons t ts ih =>
      intro s hw
      cases t with
      | mk nm ty =>
        cases ty with
        | none =>
          simp only [wfTNs, wfTN, wfOTy, Bool.and_eq_true] at hw
          simp only [mapS, tnameTy, optS, wfTNs, wfTN, wfOTy]; grind
        | some ty =>
          simp only [wfTNs, wfTN, wfOTy, Bool.and_eq_true] at hw
          simp only [mapS, tnameTy, optS, wfTNs, wfTN, wfOTy]; grind
  · intro t s hw
    cases t with
    | mk nm ty =>
      cases ty with
      | none => simp [tnameTy, optS, wfTN, wfOTy]
      | some ty => simp only [wfTN, wfOTy] at hw; simp only [tnameTy, optS, wfTN, wfOTy]; grind
  · intro es
    induction es with
    | nil => intro s; simp [mapS, wfBranches]
    | cons t ts ih =>
      intro s hw; obtain ⟨a, b⟩ := t
      simp only [wfBranches, Bool.and_eq_true] at hw; simp only [mapS, wfBranches]; grind
  · intro t s hw
    cases t with
    | none => simp [optS, wfOB]
    | some t => simp only [wfOB] at hw; simp only [optS, wfOB]; grind
  · intro es
    induction es with
    | nil => intro s; simp [mapS, wfSs]
    | cons t ts ih => intro s hw; simp only [wfSs, Bool.and_eq_true] at hw; simp only [mapS, wfSs]; grind
  · intro t s hw
    cases t with
    | none => simp [optS, wfOL]
    | some t => simp only [wfOL] at hw; simp only [optS, wfOL]; grind

theorem wlevel_zero : WLevel P sc 0 := by
  refine ⟨?_, ?_, ?_, ?_, ?_, ?_, ?_, ?_, ?_, ?_, ?_⟩ <;> intros <;>
    simp_all [visitTy, visitExpr, visitPrefix, visitTarget, visitEntry, visitSeg, visitNode, visitFnBody, visitStmt,
      visitLast, visitBlock]

theorem wsucc_node (h : WfHooks P) (n : Nat) (L : WLevel P sc n) (LL : WLists P sc n) :
    ∀ e s, wfE e = true → wfE (visitNode P sc (n + 1) e s).1 = true ∧ ctor (visitNode P sc (n + 1) e s).1 = ctor e := by
  intro e s hw
  by_cases hl : isLeafE e = true
  · rw [visitNode_leaf P sc n e s hl]; exact ⟨hw, rfl⟩
  · have hl : isLeafE e = false := by simpa using hl
    obtain ⟨nw, nc⟩ := h.node e s hw
    rcases h2 : P.node e s with ⟨e1, s1⟩
    rw [h2] at nw nc
    simp only at nw nc
    have Lexpr := L.expr
    have Lpref := L.pref
    have Lfn := L.fnbody
    have Lty := L.ty
    have Lexprs := LL.exprs
    have Largs := LL.args
    have Lentries := LL.entries
    have Lsegs := LL.segs
    have Lpairs := LL.pairs
    have Ltys := LL.tys
    cases e1 with
    | nil | «true» | «false» | vararg | num _ | str _ | var _ =>
      rw [visitNode_noKids P sc n e s s1 hl _ rfl h2]
      exact ⟨(h.afterNode _ _ nw).1, (h.afterNode _ _ nw).2.trans nc⟩
    | call f m k args =>
      cases k with
      | tuple =>
        rw [visitNode_call_tuple P sc n e s s1 hl f m args h2]
        refine (fun hX => ⟨(h.afterNode _ _ hX).1, (h.afterNode _ _ hX).2.trans ?_⟩) ?_
        · simp only [wfE, Bool.and_eq_true, argsOk] at nw ⊢; grind
        · exact nc
      | str =>
        rw [visitNode_call_other P sc n e s s1 hl f m .str (by simp) args h2]
        refine (fun hX => ⟨(h.afterNode _ _ hX).1, (h.afterNode _ _ hX).2.trans ?_⟩) ?_
        · simp only [wfE, Bool.and_eq_true] at nw ⊢
          have := Largs .str args (visitPrefix P sc n f s1).2 nw.1.2 (by simp) nw.2
          grind
        · exact nc
      | tbl =>
        rw [visitNode_call_other P sc n e s s1 hl f m .tbl (by simp) args h2]
        refine (fun hX => ⟨(h.afterNode _ _ hX).1, (h.afterNode _ _ hX).2.trans ?_⟩) ?_
        · simp only [wfE, Bool.and_eq_true] at nw ⊢
          have := Largs .tbl args (visitPrefix P sc n f s1).2 nw.1.2 (by simp) nw.2
          grind
        · exact nc
    | bin op l r =>
      rw [visitNode_bin P sc n e s s1 hl op l r h2]
      refine (fun hX => ⟨(h.afterNode _ _ hX).1, (h.afterNode _ _ hX).2.trans ?_⟩) ?_
      · simp only [wfE, Bool.and_eq_true] at nw ⊢; grind
      · exact nc
    | field x name =>
      rw [visitNode_field P sc n e s s1 hl x name h2]
      refine (fun hX => ⟨(h.afterNode _ _ hX).1, (h.afterNode _ _ hX).2.trans ?_⟩) ?_
      · simp only [wfE, Bool.and_eq_true] at nw ⊢; grind
      · exact nc
    | index x k =>
      rw [visitNode_index P sc n e s s1 hl x k h2]
      refine (fun hX => ⟨(h.afterNode _ _ hX).1, (h.afterNode _ _ hX).2.trans ?_⟩) ?_
      · simp only [wfE, Bool.and_eq_true] at nw ⊢; grind
      · exact nc
    | fn body =>
      rw [visitNode_fn P sc n e s s1 hl body h2]
      refine (fun hX => ⟨(h.afterNode _ _ hX).1, (h.afterNode _ _ hX).2.trans ?_⟩) ?_
      · simp only [wfE, Bool.and_eq_true] at nw ⊢; grind
      · exact nc
    | ifx c t elifs el =>
      rw [visitNode_ifx P sc n e s s1 hl c t elifs el h2]
      refine (fun hX => ⟨(h.afterNode _ _ hX).1, (h.afterNode _ _ hX).2.trans ?_⟩) ?_
      · simp only [wfE, Bool.and_eq_true] at nw ⊢; grind
      · exact nc
    | paren x =>
      rw [visitNode_paren P sc n e s s1 hl x h2]
      refine (fun hX => ⟨(h.afterNode _ _ hX).1, (h.afterNode _ _ hX).2.trans ?_⟩) ?_
      · simp only [wfE, Bool.and_eq_true] at nw ⊢; grind
      · exact nc
    | un op x =>
      rw [visitNode_un P sc n e s s1 hl op x h2]
      refine (fun hX => ⟨(h.afterNode _ _ hX).1, (h.afterNode _ _ hX).2.trans ?_⟩) ?_
      · simp only [wfE, Bool.and_eq_true] at nw ⊢; grind
      · exact nc
    | interp segs =>
      rw [visitNode_interp P sc n e s s1 hl segs h2]
      refine (fun hX => ⟨(h.afterNode _ _ hX).1, (h.afterNode _ _ hX).2.trans ?_⟩) ?_
      · simp only [wfE, Bool.and_eq_true] at nw ⊢; grind
      · exact nc
    | table entries =>
      rw [visitNode_table P sc n e s s1 hl entries h2]
      refine (fun hX => ⟨(h.afterNode _ _ hX).1, (h.afterNode _ _ hX).2.trans ?_⟩) ?_
      · simp only [wfE, Bool.and_eq_true] at nw ⊢; grind
      · exact nc
    | cast x ty =>
      rw [visitNode_cast P sc n e s s1 hl x ty h2]
      refine (fun hX => ⟨(h.afterNode _ _ hX).1, (h.afterNode _ _ hX).2.trans ?_⟩) ?_
      · simp only [wfE, Bool.and_eq_true] at nw ⊢; grind
      · exact nc
    | inst x tys =>
      rw [visitNode_inst P sc n e s s1 hl x tys h2]
      refine (fun hX => ⟨(h.afterNode _ _ hX).1, (h.afterNode _ _ hX).2.trans ?_⟩) ?_
      · simp only [wfE, Bool.and_eq_true] at nw ⊢; grind
      · exact nc

theorem wsucc_expr (h : WfHooks P) (n : Nat) (L : WLevel P sc n) :
    ∀ e s, wfE e = true → wfE (visitExpr P sc (n + 1) e s).1 = true := by
  intro e s hw
  rw [visitExpr_eq]
  exact (L.node _ _ (h.expr e s hw)).1

theorem wsucc_pref (h : WfHooks P) (n : Nat) (L : WLevel P sc n) :
    ∀ e s, isPrefix e = true → wfE e = true →
      isPrefix (visitPrefix P sc (n + 1) e s).1 = true ∧ wfE (visitPrefix P sc (n + 1) e s).1 = true := by
  intro e s hp hw
  rw [visitPrefix_eq]
  obtain ⟨a, b⟩ := h.pref e s hp hw
  obtain ⟨c, d⟩ := L.node _ (P.pref e s).2 b
  exact ⟨by rw [isPrefix_of_ctor d]; exact a, c⟩

theorem wsucc_target (h : WfHooks P) (n : Nat) (L : WLevel P sc n) :
    ∀ e s, isVariable e = true → wfE e = true →
      isVariable (visitTarget P sc (n + 1) e s).1 = true ∧ wfE (visitTarget P sc (n + 1) e s).1 = true := by
  intro e s hp hw
  rw [visitTarget_eq, h.target_id]
  obtain ⟨c, d⟩ := L.node e (P.target e s).2 hw
  exact ⟨by rw [isVariable_of_ctor d]; exact hp, c⟩

theorem wsucc_entry (n : Nat) (L : WLevel P sc n) :
    ∀ e s, wfEntry e = true → wfEntry (visitEntry P sc (n + 1) e s).1 = true := by
  intro e s hw
  have Lexpr := L.expr
  cases e <;> (simp only [wfEntry, Bool.and_eq_true] at hw; simp only [visitEntry, wfEntry]; grind)

theorem wsucc_seg (n : Nat) (L : WLevel P sc n) :
    ∀ e s, wfSeg e = true → wfSeg (visitSeg P sc (n + 1) e s).1 = true := by
  intro e s hw
  have Lexpr := L.expr
  cases e <;> (simp only [wfSeg] at hw; simp only [visitSeg, wfSeg]; all_goals grind)

theorem wsucc_ty (h : WfHooks P) (n : Nat) (L : WLevel P sc n) (LL : WLists P sc n) :
    ∀ t s, wfTy t = true → wfTy (visitTy P sc (n + 1) t s).1 = true := by
  intro t s hw
  have ht := h.ty_id t s
  rcases h2 : P.ty t s with ⟨t1, s1⟩
  rw [h2] at ht
  simp only at ht
  subst ht
  cases t1 with
  | mk tag kids =>
    simp only [wfTy] at hw
    rw [visitTy_mk P sc n _ s s1 tag kids h2]; simp only [wfTy]; exact LL.tys _ _ hw
  | typeof e =>
    simp only [wfTy] at hw
    rw [visitTy_typeof P sc n _ s s1 e h2]; simp only [wfTy]; exact L.expr _ _ hw

theorem wsucc_last (h : WfHooks P) (n : Nat) (LL : WLists P sc n) :
    ∀ l s, wfL l = true → wfL (visitLast P sc (n + 1) l s).1 = true := by
  intro l s hw
  have hl := h.last l s hw
  rcases h2 : P.last l s with ⟨l1, s1⟩
  rw [h2] at hl
  cases l1 with
  | ret es =>
    simp only [wfL] at hl
    rw [visitLast_ret P sc n _ s s1 es h2]; simp only [wfL]; exact LL.exprs _ _ hl
  | brk => rw [visitLast_other P sc n _ s s1 .brk (Or.inl rfl) h2]; simp [wfL]
  | cont => rw [visitLast_other P sc n _ s s1 .cont (Or.inr rfl) h2]; simp [wfL]

theorem wsucc_block (h : WfHooks P) (n : Nat) (LL : WLists P sc n) :
    ∀ pushes b s, wfB b = true → wfB (visitBlock P sc (n + 1) pushes b s).1 = true := by
  intro pushes b s hw
  have hb := h.block b (if (sc && pushes) = true then P.push s else s) hw
  rcases h2 : P.block b (if (sc && pushes) = true then P.push s else s) with ⟨b1, s1⟩
  rw [h2] at hb
  cases b1 with
  | mk stmts last =>
    simp only [wfB, Bool.and_eq_true] at hb
    rw [visitBlock_eq P sc n pushes b s stmts last s1 h2]
    apply h.afterBlock
    simp only [wfB, Bool.and_eq_true]
    exact ⟨LL.stmts _ _ hb.1, LL.olast _ _ hb.2⟩

theorem wsucc_fnbody (h : WfHooks P) (n : Nat) (L : WLevel P sc n) (LL : WLists P sc n) :
    ∀ hs body s, wfF body = true → wfF (visitFnBody P sc (n + 1) hs body s).1 = true := by
  intro hs body s hw
  have Lblock := L.block
  have Ltnames := LL.tnames
  have Loty := LL.oty
  have Hins := wf_tnameInsert (σ := σ)
  cases body with
  | mk params variadic varTy ret generics attrs blk =>
    simp only [wfF, Bool.and_eq_true] at hw
    cases sc with
    | true =>
      rw [visitFnBody_scoped]
      simp only [h.scope_id, wfF, Hins, Bool.and_eq_true]
      grind
    | false =>
      rw [visitFnBody_default]
      simp only [h.scope_id, wfF, Bool.and_eq_true]
      grind
theorem wsucc_stmt_assign {n : Nat}
    (h : WfHooks P) (L : WLevel P sc n) (LL : WLists P sc n) (st st1 : Stmt) (s s1 s2 : σ)
    (h1 : P.stmt st s = (st1, s1)) (hcs : isCallStmt st1 = false)
    (ts vs : List Expr) (h2 : P.stmtNode st1 s1 = (.assign ts vs, s2)) (g : wfS (.assign ts vs) = true) :
    wfS (visitStmt P sc (n + 1) st s).1 = true := by
  have Lexpr := L.expr
  have Ltarget := L.target
  have Lblock := L.block
  have Lfn := L.fnbody
  have Lty := L.ty
  have Lexprs := LL.exprs
  have Ltargets := LL.targets
  have Ltnames := LL.tnames
  have Ltname := LL.tname
  have Loty := LL.oty
  have Loexpr := LL.oexpr
  have Lbranches := LL.branches
  have Loelse := LL.oelse
  have Hins := wf_tnameInsert (σ := σ)
  have Hins1 := wf_tnameInsert1 (σ := σ)
  have Hloc := wf_insertLocals P h
  have hSc := h.scope_id
  simp only [wfS, Bool.and_eq_true] at g
  rw [visitStmt_assign P sc n st st1 s s1 s2 h1 hcs ts vs h2]
  apply h.afterStmtNode
  simp only [hSc, wfS, Bool.and_eq_true]
  grind

theorem wsucc_stmt_cassign {n : Nat}
    (h : WfHooks P) (L : WLevel P sc n) (LL : WLists P sc n) (st st1 : Stmt) (s s1 s2 : σ)
    (h1 : P.stmt st s = (st1, s1)) (hcs : isCallStmt st1 = false)
    (op : BinOp) (t v : Expr) (h2 : P.stmtNode st1 s1 = (.cassign op t v, s2)) (g : wfS (.cassign op t v) = true) :
    wfS (visitStmt P sc (n + 1) st s).1 = true := by
  have Lexpr := L.expr
  have Ltarget := L.target
  have Lblock := L.block
  have Lfn := L.fnbody
  have Lty := L.ty
  have Lexprs := LL.exprs
  have Ltargets := LL.targets
  have Ltnames := LL.tnames
  have Ltname := LL.tname
  have Loty := LL.oty
  have Loexpr := LL.oexpr
  have Lbranches := LL.branches
  have Loelse := LL.oelse
  have Hins := wf_tnameInsert (σ := σ)
  have Hins1 := wf_tnameInsert1 (σ := σ)
  have Hloc := wf_insertLocals P h
  have hSc := h.scope_id
  simp only [wfS, Bool.and_eq_true] at g
  rw [visitStmt_cassign P sc n st st1 s s1 s2 h1 hcs op t v h2]
  apply h.afterStmtNode
  simp only [hSc, wfS, Bool.and_eq_true]
  grind

theorem wsucc_stmt_doBlock {n : Nat}
    (h : WfHooks P) (L : WLevel P sc n) (LL : WLists P sc n) (st st1 : Stmt) (s s1 s2 : σ)
    (h1 : P.stmt st s = (st1, s1)) (hcs : isCallStmt st1 = false)
    (b : Block) (h2 : P.stmtNode st1 s1 = (.doBlock b, s2)) (g : wfS (.doBlock b) = true) :
    wfS (visitStmt P sc (n + 1) st s).1 = true := by
  have Lexpr := L.expr
  have Ltarget := L.target
  have Lblock := L.block
  have Lfn := L.fnbody
  have Lty := L.ty
  have Lexprs := LL.exprs
  have Ltargets := LL.targets
  have Ltnames := LL.tnames
  have Ltname := LL.tname
  have Loty := LL.oty
  have Loexpr := LL.oexpr
  have Lbranches := LL.branches
  have Loelse := LL.oelse
  have Hins := wf_tnameInsert (σ := σ)
  have Hins1 := wf_tnameInsert1 (σ := σ)
  have Hloc := wf_insertLocals P h
  have hSc := h.scope_id
  simp only [wfS, Bool.and_eq_true] at g
  rw [visitStmt_do P sc n st st1 s s1 s2 h1 hcs b h2]
  apply h.afterStmtNode
  simp only [hSc, wfS, Bool.and_eq_true]
  grind

theorem wsucc_stmt_while {n : Nat}
    (h : WfHooks P) (L : WLevel P sc n) (LL : WLists P sc n) (st st1 : Stmt) (s s1 s2 : σ)
    (h1 : P.stmt st s = (st1, s1)) (hcs : isCallStmt st1 = false)
    (c : Expr) (b : Block) (h2 : P.stmtNode st1 s1 = (.while_ c b, s2)) (g : wfS (.while_ c b) = true) :
    wfS (visitStmt P sc (n + 1) st s).1 = true := by
  have Lexpr := L.expr
  have Ltarget := L.target
  have Lblock := L.block
  have Lfn := L.fnbody
  have Lty := L.ty
  have Lexprs := LL.exprs
  have Ltargets := LL.targets
  have Ltnames := LL.tnames
  have Ltname := LL.tname
  have Loty := LL.oty
  have Loexpr := LL.oexpr
  have Lbranches := LL.branches
  have Loelse := LL.oelse
  have Hins := wf_tnameInsert (σ := σ)
  have Hins1 := wf_tnameInsert1 (σ := σ)
  have Hloc := wf_insertLocals P h
  have hSc := h.scope_id
  simp only [wfS, Bool.and_eq_true] at g
  rw [visitStmt_while P sc n st st1 s s1 s2 h1 hcs c b h2]
  apply h.afterStmtNode
  simp only [hSc, wfS, Bool.and_eq_true]
  grind

theorem wsucc_stmt_ifs {n : Nat}
    (h : WfHooks P) (L : WLevel P sc n) (LL : WLists P sc n) (st st1 : Stmt) (s s1 s2 : σ)
    (h1 : P.stmt st s = (st1, s1)) (hcs : isCallStmt st1 = false)
    (branches : List (Expr × Block)) (els : Option Block) (h2 : P.stmtNode st1 s1 = (.ifs branches els, s2)) (g : wfS (.ifs branches els) = true) :
    wfS (visitStmt P sc (n + 1) st s).1 = true := by
  have Lexpr := L.expr
  have Ltarget := L.target
  have Lblock := L.block
  have Lfn := L.fnbody
  have Lty := L.ty
  have Lexprs := LL.exprs
  have Ltargets := LL.targets
  have Ltnames := LL.tnames
  have Ltname := LL.tname
  have Loty := LL.oty
  have Loexpr := LL.oexpr
  have Lbranches := LL.branches
  have Loelse := LL.oelse
  have Hins := wf_tnameInsert (σ := σ)
  have Hins1 := wf_tnameInsert1 (σ := σ)
  have Hloc := wf_insertLocals P h
  have hSc := h.scope_id
  simp only [wfS, Bool.and_eq_true] at g
  rw [visitStmt_ifs P sc n st st1 s s1 s2 h1 hcs branches els h2]
  apply h.afterStmtNode
  simp only [hSc, wfS, Bool.and_eq_true]
  grind

theorem wsucc_stmt_typeDecl {n : Nat}
    (h : WfHooks P) (L : WLevel P sc n) (LL : WLists P sc n) (st st1 : Stmt) (s s1 s2 : σ)
    (h1 : P.stmt st s = (st1, s1)) (hcs : isCallStmt st1 = false)
    (ex : Bool) (name : String) (ty : Ty) (h2 : P.stmtNode st1 s1 = (.typeDecl ex name ty, s2)) (g : wfS (.typeDecl ex name ty) = true) :
    wfS (visitStmt P sc (n + 1) st s).1 = true := by
  have Lexpr := L.expr
  have Ltarget := L.target
  have Lblock := L.block
  have Lfn := L.fnbody
  have Lty := L.ty
  have Lexprs := LL.exprs
  have Ltargets := LL.targets
  have Ltnames := LL.tnames
  have Ltname := LL.tname
  have Loty := LL.oty
  have Loexpr := LL.oexpr
  have Lbranches := LL.branches
  have Loelse := LL.oelse
  have Hins := wf_tnameInsert (σ := σ)
  have Hins1 := wf_tnameInsert1 (σ := σ)
  have Hloc := wf_insertLocals P h
  have hSc := h.scope_id
  simp only [wfS, Bool.and_eq_true] at g
  rw [visitStmt_typeDecl P sc n st st1 s s1 s2 h1 hcs ex name ty h2]
  apply h.afterStmtNode
  simp only [hSc, wfS, Bool.and_eq_true]
  grind

theorem wsucc_stmt_gfor {n : Nat}
    (h : WfHooks P) (L : WLevel P sc n) (LL : WLists P sc n) (st st1 : Stmt) (s s1 s2 : σ)
    (h1 : P.stmt st s = (st1, s1)) (hcs : isCallStmt st1 = false)
    (names : List TName) (values : List Expr) (body : Block) (h2 : P.stmtNode st1 s1 = (.gfor names values body, s2)) (g : wfS (.gfor names values body) = true) :
    wfS (visitStmt P sc (n + 1) st s).1 = true := by
  have Lexpr := L.expr
  have Ltarget := L.target
  have Lblock := L.block
  have Lfn := L.fnbody
  have Lty := L.ty
  have Lexprs := LL.exprs
  have Ltargets := LL.targets
  have Ltnames := LL.tnames
  have Ltname := LL.tname
  have Loty := LL.oty
  have Loexpr := LL.oexpr
  have Lbranches := LL.branches
  have Loelse := LL.oelse
  have Hins := wf_tnameInsert (σ := σ)
  have Hins1 := wf_tnameInsert1 (σ := σ)
  have Hloc := wf_insertLocals P h
  have hSc := h.scope_id
  simp only [wfS, Bool.and_eq_true] at g
  cases sc with
  | true =>
    rw [visitStmt_gfor_scoped P n st st1 s s1 s2 h1 hcs names values body h2]
    apply h.afterStmtNode
    simp only [hSc, wfS, Hins, Hins1, Bool.and_eq_true]
    grind
  | false =>
    rw [visitStmt_gfor_default P n st st1 s s1 s2 h1 hcs names values body h2]
    apply h.afterStmtNode
    simp only [hSc, wfS, Bool.and_eq_true]
    grind

theorem wsucc_stmt_nfor {n : Nat}
    (h : WfHooks P) (L : WLevel P sc n) (LL : WLists P sc n) (st st1 : Stmt) (s s1 s2 : σ)
    (h1 : P.stmt st s = (st1, s1)) (hcs : isCallStmt st1 = false)
    (name : TName) (start stop : Expr) (step : Option Expr) (body : Block) (h2 : P.stmtNode st1 s1 = (.nfor name start stop step body, s2)) (g : wfS (.nfor name start stop step body) = true) :
    wfS (visitStmt P sc (n + 1) st s).1 = true := by
  have Lexpr := L.expr
  have Ltarget := L.target
  have Lblock := L.block
  have Lfn := L.fnbody
  have Lty := L.ty
  have Lexprs := LL.exprs
  have Ltargets := LL.targets
  have Ltnames := LL.tnames
  have Ltname := LL.tname
  have Loty := LL.oty
  have Loexpr := LL.oexpr
  have Lbranches := LL.branches
  have Loelse := LL.oelse
  have Hins := wf_tnameInsert (σ := σ)
  have Hins1 := wf_tnameInsert1 (σ := σ)
  have Hloc := wf_insertLocals P h
  have hSc := h.scope_id
  simp only [wfS, Bool.and_eq_true] at g
  cases sc with
  | true =>
    rw [visitStmt_nfor_scoped P n st st1 s s1 s2 h1 hcs name start stop step body h2]
    apply h.afterStmtNode
    simp only [hSc, wfS, Hins, Hins1, Bool.and_eq_true]
    grind
  | false =>
    rw [visitStmt_nfor_default P n st st1 s s1 s2 h1 hcs name start stop step body h2]
    apply h.afterStmtNode
    simp only [hSc, wfS, Bool.and_eq_true]
    grind

theorem wsucc_stmt_localAssign {n : Nat}
    (h : WfHooks P) (L : WLevel P sc n) (LL : WLists P sc n) (st st1 : Stmt) (s s1 s2 : σ)
    (h1 : P.stmt st s = (st1, s1)) (hcs : isCallStmt st1 = false)
    (kind : LocalKind) (names : List TName) (values : List Expr) (h2 : P.stmtNode st1 s1 = (.localAssign kind names values, s2)) (g : wfS (.localAssign kind names values) = true) :
    wfS (visitStmt P sc (n + 1) st s).1 = true := by
  have Lexpr := L.expr
  have Ltarget := L.target
  have Lblock := L.block
  have Lfn := L.fnbody
  have Lty := L.ty
  have Lexprs := LL.exprs
  have Ltargets := LL.targets
  have Ltnames := LL.tnames
  have Ltname := LL.tname
  have Loty := LL.oty
  have Loexpr := LL.oexpr
  have Lbranches := LL.branches
  have Loelse := LL.oelse
  have Hins := wf_tnameInsert (σ := σ)
  have Hins1 := wf_tnameInsert1 (σ := σ)
  have Hloc := wf_insertLocals P h
  have hSc := h.scope_id
  simp only [wfS, Bool.and_eq_true] at g
  cases sc with
  | true =>
    rw [visitStmt_local_scoped P n st st1 s s1 s2 h1 hcs kind names values h2]
    apply h.afterStmtNode
    simp only [hSc, wfS, Hins, Hins1, Bool.and_eq_true]
    grind
  | false =>
    rw [visitStmt_local_default P n st st1 s s1 s2 h1 hcs kind names values h2]
    apply h.afterStmtNode
    simp only [hSc, wfS, Bool.and_eq_true]
    grind

theorem wsucc_stmt_localFn {n : Nat}
    (h : WfHooks P) (L : WLevel P sc n) (LL : WLists P sc n) (st st1 : Stmt) (s s1 s2 : σ)
    (h1 : P.stmt st s = (st1, s1)) (hcs : isCallStmt st1 = false)
    (kind : LocalKind) (name : String) (body : FnBody) (h2 : P.stmtNode st1 s1 = (.localFn kind name body, s2)) (g : wfS (.localFn kind name body) = true) :
    wfS (visitStmt P sc (n + 1) st s).1 = true := by
  have Lexpr := L.expr
  have Ltarget := L.target
  have Lblock := L.block
  have Lfn := L.fnbody
  have Lty := L.ty
  have Lexprs := LL.exprs
  have Ltargets := LL.targets
  have Ltnames := LL.tnames
  have Ltname := LL.tname
  have Loty := LL.oty
  have Loexpr := LL.oexpr
  have Lbranches := LL.branches
  have Loelse := LL.oelse
  have Hins := wf_tnameInsert (σ := σ)
  have Hins1 := wf_tnameInsert1 (σ := σ)
  have Hloc := wf_insertLocals P h
  have hSc := h.scope_id
  simp only [wfS, Bool.and_eq_true] at g
  cases sc with
  | true =>
    cases body with
    | mk params variadic varTy ret generics attrs blk =>
      simp only [wfF, Bool.and_eq_true] at g
      rw [visitStmt_localFn_scoped P n st st1 s s1 s2 h1 hcs kind name params variadic varTy ret generics attrs blk h2]
      apply h.afterStmtNode
      simp only [hSc, wfS, wfF, Hins, Hins1, Bool.and_eq_true]
      grind
  | false =>
    rw [visitStmt_localFn_default P n st st1 s s1 s2 h1 hcs kind name body h2]
    apply h.afterStmtNode
    simp only [hSc, wfS, Bool.and_eq_true]
    grind

theorem wsucc_stmt_repeat {n : Nat}
    (h : WfHooks P) (L : WLevel P sc n) (LL : WLists P sc n) (st st1 : Stmt) (s s1 s2 : σ)
    (h1 : P.stmt st s = (st1, s1)) (hcs : isCallStmt st1 = false)
    (body : Block) (cond : Expr) (h2 : P.stmtNode st1 s1 = (.repeat_ body cond, s2)) (g : wfS (.repeat_ body cond) = true) :
    wfS (visitStmt P sc (n + 1) st s).1 = true := by
  have Lexpr := L.expr
  have Ltarget := L.target
  have Lblock := L.block
  have Lfn := L.fnbody
  have Lty := L.ty
  have Lexprs := LL.exprs
  have Ltargets := LL.targets
  have Ltnames := LL.tnames
  have Ltname := LL.tname
  have Loty := LL.oty
  have Loexpr := LL.oexpr
  have Lbranches := LL.branches
  have Loelse := LL.oelse
  have Hins := wf_tnameInsert (σ := σ)
  have Hins1 := wf_tnameInsert1 (σ := σ)
  have Hloc := wf_insertLocals P h
  have hSc := h.scope_id
  simp only [wfS, Bool.and_eq_true] at g
  cases sc with
  | true =>
    rw [visitStmt_repeat_scoped P n st st1 s s1 s2 h1 hcs body cond h2]
    apply h.afterStmtNode
    simp only [hSc, wfS, Hins, Hins1, Bool.and_eq_true]
    grind
  | false =>
    rw [visitStmt_repeat_default P n st st1 s s1 s2 h1 hcs body cond h2]
    apply h.afterStmtNode
    simp only [hSc, wfS, Bool.and_eq_true]
    grind

theorem wsucc_stmt_function {n : Nat}
    (h : WfHooks P) (L : WLevel P sc n) (LL : WLists P sc n) (st st1 : Stmt) (s s1 s2 : σ)
    (h1 : P.stmt st s = (st1, s1)) (hcs : isCallStmt st1 = false)
    (name : List String) (m : Option String) (body : FnBody)
    (h2 : P.stmtNode st1 s1 = (.function name m body, s2)) (g : wfS (.function name m body) = true) :
    wfS (visitStmt P sc (n + 1) st s).1 = true := by
  cases name with
  | nil => simp [wfS] at g
  | cons root path =>
    cases sc with
    | true =>
      have Lexpr := L.expr
      have Ltarget := L.target
      have Lblock := L.block
      have Lfn := L.fnbody
      have Lty := L.ty
      have Lexprs := LL.exprs
      have Ltargets := LL.targets
      have Ltnames := LL.tnames
      have Ltname := LL.tname
      have Loty := LL.oty
      have Loexpr := LL.oexpr
      have Lbranches := LL.branches
      have Loelse := LL.oelse
      have Hins := wf_tnameInsert (σ := σ)
      have Hins1 := wf_tnameInsert1 (σ := σ)
      have Hloc := wf_insertLocals P h
      have hSc := h.scope_id
      simp only [wfS, Bool.and_eq_true] at g

      rw [visitStmt_function_scoped P n st st1 s s1 s2 h1 hcs root path m body h2]
      apply h.afterStmtNode
      simp only [hSc, wfS, Bool.and_eq_true]
      grind
    | false =>
      cases body with
      | mk params variadic varTy ret generics attrs blk =>
        have Lexpr := L.expr
        have Ltarget := L.target
        have Lblock := L.block
        have Lfn := L.fnbody
        have Lty := L.ty
        have Lexprs := LL.exprs
        have Ltargets := LL.targets
        have Ltnames := LL.tnames
        have Ltname := LL.tname
        have Loty := LL.oty
        have Loexpr := LL.oexpr
        have Lbranches := LL.branches
        have Loelse := LL.oelse
        have Hins := wf_tnameInsert (σ := σ)
        have Hins1 := wf_tnameInsert1 (σ := σ)
        have Hloc := wf_insertLocals P h
        have hSc := h.scope_id
        simp only [wfS, Bool.and_eq_true] at g

        simp only [wfF, Bool.and_eq_true] at g
        rw [visitStmt_function_default P n st st1 s s1 s2 h1 hcs root path m params variadic varTy ret generics attrs blk h2]
        apply h.afterStmtNode
        simp only [hSc, wfS, wfF, Bool.and_eq_true]
        grind

theorem wsucc_stmt_typeFn {n : Nat}
    (h : WfHooks P) (L : WLevel P sc n) (LL : WLists P sc n) (st st1 : Stmt) (s s1 s2 : σ)
    (h1 : P.stmt st s = (st1, s1)) (hcs : isCallStmt st1 = false)
    (ex : Bool) (name : String) (body : FnBody)
    (h2 : P.stmtNode st1 s1 = (.typeFn ex name body, s2)) (g : wfS (.typeFn ex name body) = true) :
    wfS (visitStmt P sc (n + 1) st s).1 = true := by
  cases body with
  | mk params variadic varTy ret generics attrs blk =>
    have Lexpr := L.expr
    have Ltarget := L.target
    have Lblock := L.block
    have Lfn := L.fnbody
    have Lty := L.ty
    have Lexprs := LL.exprs
    have Ltargets := LL.targets
    have Ltnames := LL.tnames
    have Ltname := LL.tname
    have Loty := LL.oty
    have Loexpr := LL.oexpr
    have Lbranches := LL.branches
    have Loelse := LL.oelse
    have Hins := wf_tnameInsert (σ := σ)
    have Hins1 := wf_tnameInsert1 (σ := σ)
    have Hloc := wf_insertLocals P h
    have hSc := h.scope_id
    simp only [wfS, Bool.and_eq_true] at g

    simp only [wfF, Bool.and_eq_true] at g
    cases sc with
    | true =>
      rw [visitStmt_typeFn_scoped P n st st1 s s1 s2 h1 hcs ex name params variadic varTy ret generics attrs blk h2]
      apply h.afterStmtNode
      simp only [hSc, wfS, wfF, Hins, Bool.and_eq_true]
      grind
    | false =>
      rw [visitStmt_typeFn_default P n st st1 s s1 s2 h1 hcs ex name params variadic varTy ret generics attrs blk h2]
      apply h.afterStmtNode
      simp only [hSc, wfS, wfF, Bool.and_eq_true]
      grind

theorem wsucc_stmt (h : WfHooks P) (n : Nat) (L : WLevel P sc n) (LL : WLists P sc n) :
    ∀ st s, wfS st = true → wfS (visitStmt P sc (n + 1) st s).1 = true := by
  intro st s hw
  have a := h.stmt st s hw
  rcases h1 : P.stmt st s with ⟨st1, s1⟩
  rw [h1] at a
  simp only at a
  by_cases hcs : isCallStmt st1 = true
  · cases st1 <;> simp [isCallStmt] at hcs
    rename_i cl
    simp only [wfS, Bool.and_eq_true] at a
    rw [visitStmt_call P sc n st s s1 cl h1]
    obtain ⟨x, y⟩ := L.node cl s1 a.2
    simp only [wfS, Bool.and_eq_true]
    exact ⟨by rw [isCall_of_ctor y]; exact a.1, x⟩
  · have hcs : isCallStmt st1 = false := by simpa using hcs
    have d' := h.stmtNode st1 s1 a
    rcases h2 : P.stmtNode st1 s1 with ⟨st2, s2⟩
    rw [h2] at d'
    simp only at d'
    cases st2 with
    | callStmt c => rw [visitStmt_other P sc n st st1 s s1 s2 h1 hcs c h2]; exact h.afterStmtNode _ _ d'
    | assign ts vs => exact wsucc_stmt_assign P sc h L LL st st1 s s1 s2 h1 hcs ts vs h2 d'
    | cassign op t v => exact wsucc_stmt_cassign P sc h L LL st st1 s s1 s2 h1 hcs op t v h2 d'
    | doBlock b => exact wsucc_stmt_doBlock P sc h L LL st st1 s s1 s2 h1 hcs b h2 d'
    | function name m body => exact wsucc_stmt_function P sc h L LL st st1 s s1 s2 h1 hcs name m body h2 d'
    | gfor names values body => exact wsucc_stmt_gfor P sc h L LL st st1 s s1 s2 h1 hcs names values body h2 d'
    | nfor name a b step body => exact wsucc_stmt_nfor P sc h L LL st st1 s s1 s2 h1 hcs name a b step body h2 d'
    | ifs branches els => exact wsucc_stmt_ifs P sc h L LL st st1 s s1 s2 h1 hcs branches els h2 d'
    | localAssign kind names values => exact wsucc_stmt_localAssign P sc h L LL st st1 s s1 s2 h1 hcs kind names values h2 d'
    | localFn kind name body => exact wsucc_stmt_localFn P sc h L LL st st1 s s1 s2 h1 hcs kind name body h2 d'
    | repeat_ body cond => exact wsucc_stmt_repeat P sc h L LL st st1 s s1 s2 h1 hcs body cond h2 d'
    | while_ c b => exact wsucc_stmt_while P sc h L LL st st1 s s1 s2 h1 hcs c b h2 d'
    | typeDecl ex name ty => exact wsucc_stmt_typeDecl P sc h L LL st st1 s s1 s2 h1 hcs ex name ty h2 d'
    | typeFn ex name body => exact wsucc_stmt_typeFn P sc h L LL st st1 s s1 s2 h1 hcs ex name body h2 d'

theorem wlevel_all (h : WfHooks P) : ∀ n, WLevel P sc n := by
  intro n
  induction n with
  | zero => exact wlevel_zero P sc
  | succ n ih =>
    have LL := wlists_of_level P sc h n ih
    exact ⟨wsucc_ty P sc h n ih LL, wsucc_expr P sc h n ih, wsucc_pref P sc h n ih, wsucc_target P sc h n ih,
      wsucc_entry P sc n ih, wsucc_seg P sc n ih, wsucc_node P sc h n ih LL, wsucc_fnbody P sc h n ih LL,
      wsucc_stmt P sc h n ih LL, wsucc_last P sc h n LL, wsucc_block P sc h n LL⟩

/-- **The visitor preserves well-formedness** (any fuel). -/
theorem wf_block (h : WfHooks P) (n : Nat) (pushes : Bool) (b : Block) (s : σ) (hw : wfB b = true) :
    wfB (visitBlock P sc n pushes b s).1 = true :=
  (wlevel_all P sc h n).block pushes b s hw
end
end DarkluaModel.C07
