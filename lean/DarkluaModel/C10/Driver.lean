import DarkluaModel.Util.Sexp
/-! Line-protocol handlers for property C10 (stub: nothing modelled yet). -/
namespace DarkluaModel.C10

def handle (op : String) (_args : List String) : String :=
  "unknown-op " ++ op

end DarkluaModel.C10
