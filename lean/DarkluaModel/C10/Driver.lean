import DarkluaModel.Util.Sexp
import DarkluaModel.C10.Model
import DarkluaModel.C10.Spec
/-!
Line-protocol handlers for property C10.

`c10.run (req (in P) (out P) (lua n*) (univ P*) (init (f P c)*) (hashes (h k n)*)
              (T (e k (fs (c|n)*) P (ok c)|err (deps P*))*) (hist op*))`
runs `Model.start`, then `Model.step` per operation (the same definitions `Thm.lean` is about),
and answers `(run (steps s*) (h10 ok|F10|…) (fresh t))` with one `s` per `process`:
`(ok (tree (f P c)*) (succ n) (errs n) (ext P*))` or `panic` / `hang`.
`T` is the table measured by the harness on the real code, keyed by configuration, the
contents of the universe paths, and the source path. A missing entry yields the sentinel
content `tmiss` which the driver reports as an error.
-/
namespace DarkluaModel.C10

open DarkluaModel (Sexp)

def tmiss : Content := 4000000000

def path? (s : Sexp) : Option Path :=
  match s with
  | .list (.atom "p" :: comps) => comps.mapM Sexp.nat?
  | _ => none

def pathSx (p : Path) : Sexp := .list (.atom "p" :: p.map fun n => .atom (toString n))

def field (tag : String) : List Sexp → Option (List Sexp)
  | [] => none
  | .list (.atom t :: rest) :: more => if t == tag then some rest else field tag more
  | _ :: more => field tag more

structure TEntry where
  cfg : Cfg
  fsKey : List (Option Content)
  path : Path
  res : TRes

def optContent? (s : Sexp) : Option (Option Content) :=
  match s with
  | .atom "n" => some none
  | s => s.nat?.map some

def tentry? (s : Sexp) : Option TEntry :=
  match s with
  | .list [.atom "e", k, .list (.atom "fs" :: fs), p, out, .list (.atom "deps" :: deps)] => do
    let k ← k.nat?
    let fs ← fs.mapM optContent?
    let p ← path? p
    let out ← match out with
      | .atom "err" => some none
      | .list [.atom "ok", c] => c.nat?.map some
      | _ => none
    let deps ← deps.mapM path?
    pure { cfg := k, fsKey := fs, path := p, res := { out := out, deps := deps } }
  | _ => none

def fileEntry? (s : Sexp) : Option (Path × Content) :=
  match s with
  | .list [.atom "f", p, c] => do pure (← path? p, ← c.nat?)
  | _ => none

def hashEntry? (s : Sexp) : Option (Cfg × Nat) :=
  match s with
  | .list [.atom "h", k, n] => do pure (← k.nat?, ← n.nat?)
  | _ => none

def op? (s : Sexp) : Option Op :=
  match s with
  | .list [.atom "edit", p, c] => do pure (.edit (← path? p) (← c.nat?))
  | .list [.atom "add", p, c] => do pure (.add (← path? p) (← c.nat?))
  | .list [.atom "rm", p] => do pure (.removeFile (← path? p))
  | .list [.atom "rmdir", p] => do pure (.removeDir (← path? p))
  | .list [.atom "cfg", k] => do pure (.setConfig (← k.nat?))
  | .atom "collect" => some .collectWork
  | .atom "process" => some .process
  | _ => none

def mkParams (sentinel : Content) (input output : Path) (lua : List Nat) (univ : List Path)
    (hashes : List (Cfg × Nat)) (table : List TEntry) : Params :=
  { T := fun cfg fs p =>
      let key := univ.map fs
      match table.find? (fun e => e.cfg == cfg && e.path == p && e.fsKey == key) with
      | some e => e.res
      | none => { out := some sentinel, deps := [] }
    configHash := fun k => match hashes.find? (fun e => e.1 == k) with
      | some e => e.2
      | none => 1000000 + k
    input := input
    output := output
    isLua := fun p => match p.getLast? with
      | some c => lua.contains c
      | none => false }

def regionName : Region → String
  | .F12 => "F12" | .F13 => "F13" | .E => "E" | .X => "X"

def insertSorted (e : Path × Content) : List (Path × Content) → List (Path × Content)
  | [] => [e]
  | x :: xs => if compareOfLessAndEq e.1 x.1 == .lt then e :: x :: xs else x :: insertSorted e xs

def treeSx (P : Params) (fs : Fs) : Sexp :=
  let files := (fs.filter fun e => startsWith e.1 P.output).foldr insertSorted []
  .list (.atom "tree" :: files.map fun e => .list [.atom "f", pathSx e.1, .atom (toString e.2)])

def obsSx (P : Params) (st : State) : Sexp :=
  .list [.atom "ok", treeSx P st.fs,
    .list [.atom "succ", .atom (toString (successCount st))],
    .list [.atom "errs", .atom (toString (errorCount st))],
    .list (.atom "ext" :: (externalKeys st).map pathSx)]

/-- walk the operations with the model's `step`, collecting one observation per `process`
and the first excluded region (`regionOf`, the monitor behind `H10`). -/
def walk (P : Params) (fuel : Nat) : State → Cfg → List (Region × Nat) → Nat → List Op → List Sexp →
    List Sexp × List (Region × Nat) × Option State
  | st, _, reg, _, [], acc => (acc.reverse, reg.reverse, some st)
  | st, last, reg, k, op :: ops, acc =>
    let reg' := match regionOf P last st op with
      | some r => (r, k) :: reg
      | none => reg
    match step P fuel st op with
    | .ok st' =>
      let acc' := if op == .process then obsSx P st' :: acc else acc
      walk P fuel st' (nextLast last st' op) reg' (k + 1) ops acc'
    | .panic => ((Sexp.atom "panic" :: acc).reverse, reg'.reverse, none)
    | .hang => ((Sexp.atom "hang" :: acc).reverse, reg'.reverse, none)

def containsTmiss (fs : Fs) : Bool := fs.any fun e => e.2 ≥ tmiss

def runReqWith (sentinel : Content) (req : Sexp) : String :=
  match req with
  | .list (.atom "req" :: fields) =>
    let parsed : Option (Params × Fs × List Op) := do
      let input ← (← field "in" fields).head? >>= path?
      let output ← (← field "out" fields).head? >>= path?
      let lua ← (← field "lua" fields).mapM Sexp.nat?
      let univ ← (← field "univ" fields).mapM path?
      let init ← (← field "init" fields).mapM fileEntry?
      let hashes ← (← field "hashes" fields).mapM hashEntry?
      let table ← (← field "T" fields).mapM tentry?
      let hist ← (← field "hist" fields).mapM op?
      pure (mkParams sentinel input output lua univ hashes table, init, hist)
    match parsed with
    | none => "bad-request"
    | some (P, init, hist) =>
      -- the harness closes every history with `process` itself
      match start P defaultFuel init 0 with
      | .ok st0 =>
        let (steps, reg, final) := walk P defaultFuel st0 0 [] 0 hist []
        let missing := match final with
          | some st => containsTmiss st.fs
          | none => false
        if missing || containsTmiss st0.fs then "tmiss"
        else
          let h10 := match reg with
            | r :: _ => [Sexp.atom (regionName r.1), Sexp.atom (toString r.2)]
            | [] => [Sexp.atom "ok"]
          let hits := reg.map fun r => Sexp.atom (regionName r.1 ++ "@" ++ toString r.2)
          -- cross-check with the definition the theorems use
          let h10def := match hist.getLast? with
            | some .process => H10 P defaultFuel init 0 hist.dropLast
            | _ => H10 P defaultFuel init 0 hist
          let consistent := (h10def == reg.isEmpty) || hist.getLast? != some .process
          let fresh := match final with
            | some st =>
              let keys := ((st.fs ++ init).map (·.1)).filter fun q => startsWith q P.output
              let ok := keys.all fun q => alookup st.fs q == freshOut P st.cfg init st.fs q
              if ok then "same" else "differs"
            | none => "none"
          if !consistent then "h10-inconsistent"
          else toString (Sexp.list [.atom "run", .list (.atom "steps" :: steps),
            .list (.atom "h10" :: h10), .list (.atom "hits" :: hits), .list [.atom "fresh", .atom fresh]])
      | .panic => "(run (steps panic) (h10 ok) (fresh none))"
      | .hang => "(run (steps hang) (h10 ok) (fresh none))"
  | _ => "bad-request"

/-- A table miss anywhere (also inside the H10 monitor) changes the answer with the sentinel. -/
def runReq (req : Sexp) : String :=
  let a := runReqWith tmiss req
  let b := runReqWith (tmiss + 1) req
  if a == b then a else "tmiss"

def handle (op : String) (args : List String) : String :=
  match op with
  | "run" =>
    match Sexp.parse (" ".intercalate args) with
    | some req => runReq req
    | none => "bad-sexp"
  | "genloop" =>
    -- `c10.genloop total acc pending d1 d2 …` : how does the loop's counter logic end within these passes?
    match args.mapM String.toNat? with
    | some (total :: acc :: pending :: ds) =>
      (match genLoop total acc pending ds with
        | .exits => "exits" | .errors => "errors" | .running => "running")
    | _ => "bad-request"
  | "h10" =>
    -- the hypothesis of `worker_refines_fresh_partial` alone: `true` / `false` (same request as `run`;
    -- the history is taken WITHOUT its closing `process`, which `H10` appends itself)
    match Sexp.parse (" ".intercalate args) with
    | some (.list (.atom "req" :: fields)) =>
      let parsed : Option (Params × Fs × List Op) := do
        let input ← (← field "in" fields).head? >>= path?
        let output ← (← field "out" fields).head? >>= path?
        let lua ← (← field "lua" fields).mapM Sexp.nat?
        let univ ← (← field "univ" fields).mapM path?
        let init ← (← field "init" fields).mapM fileEntry?
        let hashes ← (← field "hashes" fields).mapM hashEntry?
        let table ← (← field "T" fields).mapM tentry?
        let hist ← (← field "hist" fields).mapM op?
        pure (mkParams tmiss input output lua univ hashes table, init, hist)
      match parsed with
      | some (P, init, hist) =>
        let h := if hist.getLast? == some .process then hist.dropLast else hist
        toString (H10 P defaultFuel init 0 h)
      | none => "bad-request"
    | _ => "bad-sexp"
  | _ => "unknown-op " ++ op

end DarkluaModel.C10
