import DarkluaModel.C10.Model
import DarkluaModel.C10.Spec
/-!
# C10 — helper lemmas (core only)
-/
namespace DarkluaModel.C10

/-! ### the work loop makes progress: one pass finishes every pending item -/

theorem passNodes_doneCount (P : Params) (cfg : Cfg) (nodes : List (Option Item)) :
    ∀ (i : Nat) (fs : Fs) (ext : List (Path × Nat)) (dc : Nat),
      (passNodes P cfg nodes i fs ext dc).2.2.2 = dc + notDoneCount nodes := by
  induction nodes with
  | nil => intro i fs ext dc; simp [passNodes, notDoneCount]
  | cons o r ih =>
    intro i fs ext dc
    cases o with
    | none =>
      simp only [passNodes]
      rw [ih]
      simp [notDoneCount]
    | some it =>
      simp only [passNodes]
      rw [ih]
      by_cases hd : it.status.isDone = true
      · simp [notDoneCount, hd]
      · simp [notDoneCount, hd]; omega

theorem workLoop_no_hang (P : Params) (fuel : Nat) (st : State) :
    workLoop P (notDoneCount st.nodes) (fuel + 1) st ≠ .hang := by
  simp only [workLoop]
  rw [passNodes_doneCount]
  simp

theorem processTree_no_hang (P : Params) (fuel : Nat) (st : State) :
    processTree P (fuel + 1) st ≠ .hang := by
  unfold processTree
  simp only
  split
  · simp
  · have h := workLoop_no_hang P fuel (configStep P st)
    generalize workLoop P (notDoneCount (configStep P st).nodes) (fuel + 1) (configStep P st) = o at h
    cases o with
    | ok st2 => simp
    | panic => simp
    | hang => exact absurd rfl h

theorem step_no_hang (P : Params) (fuel : Nat) (st : State) (op : Op) :
    step P (fuel + 1) st op ≠ .hang := by
  cases op with
  | edit p c => simp only [step]; cases sourceChanged _ p <;> simp [ofOpt]
  | add p c => simp [step]
  | removeFile p => simp only [step]; cases removeSource _ p <;> simp [ofOpt]
  | removeDir p => simp only [step]; cases removeSource _ p <;> simp [ofOpt]
  | setConfig k => simp [step]
  | collectWork => simp [step]
  | process => simp only [step]; exact processTree_no_hang P fuel _

theorem runOps_no_hang (P : Params) (fuel : Nat) (ops : List Op) :
    ∀ o : Outcome, o ≠ .hang → runOps P (fuel + 1) o ops ≠ .hang := by
  induction ops with
  | nil => intro o h; cases o <;> simp_all [runOps]
  | cons op ops ih =>
    intro o h
    cases o with
    | ok st => simp only [runOps]; exact ih _ (step_no_hang P fuel st op)
    | panic => simp [runOps]
    | hang => exact absurd rfl h

end DarkluaModel.C10
