import DarkluaModel.C10.Model
import DarkluaModel.C10.Spec
/-!
# C10 — helper lemmas (core only)
-/
namespace DarkluaModel.C10

/-! ### the work loop makes progress: one pass finishes every pending item -/

theorem passNodes_doneCount (P : Params) (cfg : Cfg) (nodes : List (Option Item)) :
    ∀ (i : Nat) (fs : Fs) (ext : List (Path × Nat)) (dc : Nat),
      (passNodes P cfg nodes i fs ext dc).2.2.2 = dc + notDoneCount nodes := by
  induction nodes with
  | nil => intro i fs ext dc; simp [passNodes, notDoneCount]
  | cons o r ih =>
    intro i fs ext dc
    cases o with
    | none =>
      simp only [passNodes]
      rw [ih]
      simp [notDoneCount]
    | some it =>
      simp only [passNodes]
      rw [ih]
      by_cases hd : it.status.isDone = true
      · simp [notDoneCount, hd]
      · simp [notDoneCount, hd]; omega

theorem workLoop_no_hang (P : Params) (fuel : Nat) (st : State) :
    workLoop P (notDoneCount st.nodes) (fuel + 1) st ≠ .hang := by
  simp only [workLoop]
  rw [passNodes_doneCount]
  simp

theorem processTree_no_hang (P : Params) (fuel : Nat) (st : State) :
    processTree P (fuel + 1) st ≠ .hang := by
  unfold processTree
  simp only
  split
  · simp
  · have h := workLoop_no_hang P fuel (configStep P st)
    generalize workLoop P (notDoneCount (configStep P st).nodes) (fuel + 1) (configStep P st) = o at h
    cases o with
    | ok st2 => simp
    | panic => simp
    | hang => exact absurd rfl h

theorem step_no_hang (P : Params) (fuel : Nat) (st : State) (op : Op) :
    step P (fuel + 1) st op ≠ .hang := by
  cases op with
  | edit p c => simp only [step]; cases sourceChanged _ p <;> simp [ofOpt]
  | add p c => simp [step]
  | removeFile p => simp only [step]; cases removeSource _ p <;> simp [ofOpt]
  | removeDir p => simp only [step]; cases removeSource _ p <;> simp [ofOpt]
  | setConfig k => simp [step]
  | collectWork => simp [step]
  | process => simp only [step]; exact processTree_no_hang P fuel _

theorem runOps_no_hang (P : Params) (fuel : Nat) (ops : List Op) :
    ∀ o : Outcome, o ≠ .hang → runOps P (fuel + 1) o ops ≠ .hang := by
  induction ops with
  | nil => intro o h; cases o <;> simp_all [runOps]
  | cons op ops ih =>
    intro o h
    cases o with
    | ok st => simp only [runOps]; exact ih _ (step_no_hang P fuel st op)
    | panic => simp [runOps]
    | hang => exact absurd rfl h

/-! ### association lists, links -/

theorem alookup_aerase {β : Type} (m : List (Path × β)) (k q : Path) :
    alookup (aerase m k) q = if q = k then none else alookup m q := by
  induction m with
  | nil => simp [aerase, alookup]
  | cons e r ih =>
    obtain ⟨a, b⟩ := e
    unfold aerase at ih ⊢
    by_cases h : a = k
    · subst h
      simp only [List.filter, beq_self_eq_true, Bool.not_true]
      rw [ih]
      by_cases hq : q = a
      · simp [hq]
      · have : ¬ a = q := fun h => hq h.symm
        simp [hq, alookup, this]
    · have hb : (a == k) = false := by simp [h]
      simp only [List.filter, hb, Bool.not_false]
      simp only [alookup]
      rw [ih]
      by_cases haq : a = q
      · subst haq; simp [h]
      · simp [haq]

theorem alookup_ainsert {β : Type} (m : List (Path × β)) (k q : Path) (v : β) :
    alookup (ainsert m k v) q = if q = k then some v else alookup m q := by
  unfold ainsert
  simp only [alookup]
  rw [alookup_aerase]
  by_cases h : k = q
  · subst h; simp
  · have : ¬ q = k := fun h' => h h'.symm
    simp [h, this]

theorem mem_unlink (ext : List (Path × Nat)) (d : Path) (i : Nat) (e : Path × Nat) :
    e ∈ unlink ext d i ↔ e ∈ ext ∧ ¬ (e.1 = d ∧ e.2 = i) := by
  simp [unlink]; grind

theorem mem_link (ext : List (Path × Nat)) (d : Path) (i : Nat) (e : Path × Nat) :
    e ∈ link ext d i ↔ e ∈ ext ∨ e = (d, i) := by
  unfold link
  split
  · rename_i h
    simp at h
    constructor
    · intro h'; exact Or.inl h'
    · rintro (h' | h')
      · exact h'
      · subst h'; exact h
  · simp; grind

theorem mem_unlinkAll (ds : List Path) : ∀ (ext : List (Path × Nat)) (i : Nat) (e : Path × Nat),
    e ∈ unlinkAll ext i ds ↔ e ∈ ext ∧ ¬ (e.2 = i ∧ e.1 ∈ ds) := by
  induction ds with
  | nil => intro ext i e; simp [unlinkAll]
  | cons d ds ih =>
    intro ext i e
    simp only [unlinkAll]
    rw [ih, mem_unlink]
    simp only [List.mem_cons]
    grind

theorem mem_linkAll (ds : List Path) : ∀ (ext : List (Path × Nat)) (i : Nat) (e : Path × Nat),
    e ∈ linkAll ext i ds ↔ e ∈ ext ∨ (e.2 = i ∧ e.1 ∈ ds) := by
  induction ds with
  | nil => intro ext i e; simp [linkAll]
  | cons d ds ih =>
    intro ext i e
    simp only [linkAll]
    rw [ih, mem_link]
    simp only [List.mem_cons]
    constructor
    · rintro ((h | h) | h)
      · exact Or.inl h
      · subst h; exact Or.inr ⟨rfl, Or.inl rfl⟩
      · exact Or.inr ⟨h.1, Or.inr h.2⟩
    · rintro (h | ⟨h1, h2 | h2⟩)
      · exact Or.inl (Or.inl h)
      · left; right; cases e; simp_all
      · exact Or.inr ⟨h1, h2⟩


theorem alookup_some_mem {β : Type} (m : List (Path × β)) (k : Path) (v : β) :
    alookup m k = some v → (k, v) ∈ m := by
  induction m with
  | nil => simp [alookup]
  | cons e r ih =>
    obtain ⟨a, b⟩ := e
    simp only [alookup]
    split
    · rename_i h; subst h; intro h; simp at h; subst h; simp
    · intro h; simp [ih h]

theorem alookup_none_not_mem {β : Type} (m : List (Path × β)) (k : Path) :
    alookup m k = none → ∀ v, (k, v) ∉ m := by
  induction m with
  | nil => simp
  | cons e r ih =>
    obtain ⟨a, b⟩ := e
    simp only [alookup]
    split
    · simp
    · rename_i h; intro hn v hm
      simp at hm
      rcases hm with hm | hm
      · exact h hm.1.symm
      · exact ih hn v hm

theorem alookup_isSome_iff {β : Type} (m : List (Path × β)) (k : Path) :
    (alookup m k).isSome = true ↔ ∃ v, (k, v) ∈ m := by
  constructor
  · intro h
    cases hl : alookup m k with
    | none => simp [hl] at h
    | some v => exact ⟨v, alookup_some_mem m k v hl⟩
  · rintro ⟨v, hv⟩
    cases hl : alookup m k with
    | none => exact absurd hv (alookup_none_not_mem m k hl v)
    | some v => simp

/-- slot accessor on the node list -/
def nodeAt (nodes : List (Option Item)) (i : Nat) : Option Item :=
  match nodes[i]? with
  | some (some it) => some it
  | _ => none

theorem item?_eq (st : State) (i : Nat) : st.item? i = nodeAt st.nodes i := rfl

theorem nodeAt_lt {nodes : List (Option Item)} {i : Nat} {it : Item} :
    nodeAt nodes i = some it → i < nodes.length := by
  unfold nodeAt
  intro h
  by_cases hi : i < nodes.length
  · exact hi
  · simp [List.getElem?_eq_none (Nat.le_of_not_lt hi)] at h

theorem nodeAt_set (nodes : List (Option Item)) (i j : Nat) (x : Option Item) :
    nodeAt (nodes.set i x) j = if j = i then (if i < nodes.length then x else none) else nodeAt nodes j := by
  unfold nodeAt
  rw [List.getElem?_set]
  by_cases h : i = j
  · subst h
    by_cases hl : i < nodes.length
    · simp [hl]; cases x <;> rfl
    · simp [hl]
  · have : ¬ j = i := fun h' => h h'.symm
    simp [h, this]

theorem nodeAt_append (nodes : List (Option Item)) (j : Nat) (x : Option Item) :
    nodeAt (nodes ++ [x]) j = if j = nodes.length then x else nodeAt nodes j := by
  unfold nodeAt
  by_cases h : j < nodes.length
  · rw [List.getElem?_append_left h]
    have : ¬ j = nodes.length := by omega
    simp [this]
  · by_cases h2 : j = nodes.length
    · subst h2
      simp
      cases x <;> rfl
    · have h3 : nodes.length < j := by omega
      have : (nodes ++ [x])[j]? = none := by
        apply List.getElem?_eq_none; simp; omega
      rw [this]
      have : nodes[j]? = none := List.getElem?_eq_none (by omega)
      simp [this, h2]


/-- The invariant of the worker between operations. `last` is the configuration of the last
pass (ghost). -/
structure Inv (P : Params) (init : Fs) (last : Cfg) (st : State) : Prop where
  nm_fun : ∀ p i j, (p, i) ∈ st.nodeMap → (p, j) ∈ st.nodeMap → i = j
  nm_item : ∀ p i, (p, i) ∈ st.nodeMap →
    ∃ it, st.item? i = some it ∧ it.source = p ∧ it.output = outPath P p
  item_nm : ∀ i it, st.item? i = some it → (it.source, i) ∈ st.nodeMap
  free_ok : ∀ i, i ∈ st.free → i < st.nodes.length ∧ st.item? i = none
  free_nodup : st.free.Nodup
  src_in : ∀ p i, (p, i) ∈ st.nodeMap →
    startsWith p P.input = true ∧ P.isLua p = true ∧ (alookup st.fs p).isSome = true
  ext_sub : ∀ d i, (d, i) ∈ st.extDeps → ∃ it, st.item? i = some it ∧ d ∈ it.deps
  ext_sup : ∀ i it, st.item? i = some it → it.status.isDone = true → ∀ d, d ∈ it.deps → (d, i) ∈ st.extDeps
  ns_deps : ∀ i it, st.item? i = some it → it.status = .notStarted → it.deps = []
  done_ok : ∀ i it ok, st.item? i = some it → it.status = .done ok →
    (∀ d, d ∈ it.deps ↔ d ∈ (P.T last (alookup st.fs) it.source).deps) ∧
    ok = (P.T last (alookup st.fs) it.source).out.isSome ∧
    alookup st.fs it.output = (P.T last (alookup st.fs) it.source).out
  out_other : ∀ q, startsWith q P.output = true →
    (∃ i it, st.item? i = some it ∧ it.output = q) ∨ q ∈ st.removeFiles ∨ alookup st.fs q = alookup init q
  rm_src : ∀ q, q ∈ st.removeFiles → ∃ p, P.isLua p = true ∧ startsWith p P.input = true ∧ q = outPath P p

/-- every source on disk has a work item (what `collect_work` establishes) -/
def Synced (P : Params) (st : State) : Prop :=
  ∀ p, (alookup st.fs p).isSome = true → startsWith p P.input = true → P.isLua p = true →
    ∃ i, (p, i) ∈ st.nodeMap

/-! ### restart_work -/

def restartedState (st : State) (i : Nat) (it : Item) : State :=
  { st with extDeps := unlinkAll st.extDeps i it.deps, nodes := st.nodes.set i (some it.reset) }

theorem restartWork_spec {st : State} {i : Nat} {it : Item} (h : st.item? i = some it) :
    restartWork st i = some (restartedState st i it) := by
  simp [restartWork, h, restartedState]

theorem restartWork_inv {P : Params} {init : Fs} {last : Cfg} {st st' : State} {i : Nat}
    (hI : Inv P init last st) (h : restartWork st i = some st') :
    Inv P init last st' ∧ st'.fs = st.fs ∧ st'.nodeMap = st.nodeMap ∧ st'.removeFiles = st.removeFiles
    ∧ st'.cfg = st.cfg ∧ st'.hasCreated = st.hasCreated ∧ st'.free = st.free
    ∧ st'.nodes.length = st.nodes.length
    ∧ (∀ j, st'.item? j = if j = i then (st.item? i).map Item.reset else st.item? j)
    ∧ (∀ d j, (d, j) ∈ st'.extDeps ↔ (d, j) ∈ st.extDeps ∧ j ≠ i) := by
  cases hit : st.item? i with
  | none => simp [restartWork, hit] at h
  | some it =>
    rw [restartWork_spec hit] at h
    simp only [Option.some.injEq] at h
    subst h
    have hlt : i < st.nodes.length := nodeAt_lt hit
    have hitem : ∀ j, (restartedState st i it).item? j = if j = i then some it.reset else st.item? j := by
      intro j
      simp only [item?_eq, restartedState, nodeAt_set, hlt, if_true]
    have hext : ∀ d j, (d, j) ∈ (restartedState st i it).extDeps ↔ (d, j) ∈ st.extDeps ∧ j ≠ i := by
      intro d j
      simp only [restartedState]
      rw [mem_unlinkAll]
      constructor
      · rintro ⟨h1, h2⟩
        refine ⟨h1, ?_⟩
        intro hji
        subst hji
        obtain ⟨it', h3, h4⟩ := hI.ext_sub d j h1
        rw [hit] at h3
        simp at h3; subst h3
        exact h2 ⟨rfl, h4⟩
      · rintro ⟨h1, h2⟩
        exact ⟨h1, fun h3 => h2 h3.1⟩
    refine ⟨?_, rfl, rfl, rfl, rfl, rfl, rfl, by simp [restartedState], ?_, hext⟩
    · constructor
      · exact hI.nm_fun
      · intro p k hk
        obtain ⟨it', h1, h2, h3⟩ := hI.nm_item p k hk
        rw [hitem]
        by_cases hki : k = i
        · subst hki
          rw [hit] at h1; simp at h1; subst h1
          exact ⟨it.reset, by simp, h2, h3⟩
        · exact ⟨it', by simp [hki, h1], h2, h3⟩
      · intro k it' hk
        rw [hitem] at hk
        by_cases hki : k = i
        · subst hki
          simp at hk; subst hk
          exact hI.item_nm k it hit
        · simp [hki] at hk
          exact hI.item_nm k it' hk
      · intro k hk
        have := hI.free_ok k hk
        refine ⟨by simpa [restartedState] using this.1, ?_⟩
        rw [hitem]
        by_cases hki : k = i
        · subst hki; rw [hit] at this; simp at this
        · simp [hki, this.2]
      · exact hI.free_nodup
      · exact hI.src_in
      · intro d k hk
        rw [hext] at hk
        obtain ⟨it', h1, h2⟩ := hI.ext_sub d k hk.1
        exact ⟨it', by rw [hitem]; simp [hk.2, h1], h2⟩
      · intro k it' hk hd d hdm
        rw [hitem] at hk
        by_cases hki : k = i
        · subst hki; simp at hk; subst hk; simp [Item.reset, Status.isDone] at hd
        · simp [hki] at hk
          rw [hext]
          exact ⟨hI.ext_sup k it' hk hd d hdm, hki⟩
      · intro k it' hk hs
        rw [hitem] at hk
        by_cases hki : k = i
        · subst hki; simp at hk; subst hk; rfl
        · simp [hki] at hk; exact hI.ns_deps k it' hk hs
      · intro k it' ok hk hs
        rw [hitem] at hk
        by_cases hki : k = i
        · subst hki; simp at hk; subst hk; simp [Item.reset] at hs
        · simp [hki] at hk; exact hI.done_ok k it' ok hk hs
      · intro q hq
        rcases hI.out_other q hq with ⟨k, it', h1, h2⟩ | h | h
        · left
          by_cases hki : k = i
          · subst hki
            rw [hit] at h1; simp at h1; subst h1
            exact ⟨k, it.reset, by rw [hitem]; simp, h2⟩
          · exact ⟨k, it', by rw [hitem]; simp [hki, h1], h2⟩
        · exact Or.inr (Or.inl h)
        · exact Or.inr (Or.inr h)
      · exact hI.rm_src
    · intro j
      rw [hitem]
      rfl


/-- what restarting leaves untouched -/
structure Frame (st st' : State) : Prop where
  fs : st'.fs = st.fs
  nodeMap : st'.nodeMap = st.nodeMap
  removeFiles : st'.removeFiles = st.removeFiles
  cfg : st'.cfg = st.cfg
  hasCreated : st'.hasCreated = st.hasCreated
  free : st'.free = st.free
  lastHash : st'.lastHash = st.lastHash
  len : st'.nodes.length = st.nodes.length

theorem Frame.refl (st : State) : Frame st st := ⟨rfl, rfl, rfl, rfl, rfl, rfl, rfl, rfl⟩

theorem Frame.trans {a b c : State} (h1 : Frame a b) (h2 : Frame b c) : Frame a c :=
  ⟨h2.fs.trans h1.fs, h2.nodeMap.trans h1.nodeMap, h2.removeFiles.trans h1.removeFiles,
   h2.cfg.trans h1.cfg, h2.hasCreated.trans h1.hasCreated, h2.free.trans h1.free,
   h2.lastHash.trans h1.lastHash, h2.len.trans h1.len⟩

theorem restartWork_frame {st st' : State} {i : Nat} (h : restartWork st i = some st') : Frame st st' := by
  cases hit : st.item? i with
  | none => simp [restartWork, hit] at h
  | some it =>
    rw [restartWork_spec hit] at h
    simp only [Option.some.injEq] at h
    subst h
    exact ⟨rfl, rfl, rfl, rfl, rfl, rfl, rfl, by simp [restartedState]⟩

theorem reset_reset (it : Item) : it.reset.reset = it.reset := rfl

theorem restartAll_inv {P : Params} {init : Fs} {last : Cfg} (is : List Nat) :
    ∀ (st : State), Inv P init last st → (∀ i, i ∈ is → (st.item? i).isSome = true) →
    ∃ st', restartAll st is = some st' ∧ Inv P init last st' ∧ Frame st st'
      ∧ (∀ j, st'.item? j = if j ∈ is then (st.item? j).map Item.reset else st.item? j)
      ∧ (∀ d j, (d, j) ∈ st'.extDeps ↔ (d, j) ∈ st.extDeps ∧ j ∉ is) := by
  induction is with
  | nil => intro st hI _; exact ⟨st, rfl, hI, Frame.refl st, by simp, by simp⟩
  | cons i is ih =>
    intro st hI hocc
    have hi := hocc i (by simp)
    cases hit : st.item? i with
    | none => simp [hit] at hi
    | some it =>
      have hspec := restartWork_spec hit
      obtain ⟨hI1, _, _, _, _, _, _, _, hitem1, hext1⟩ := restartWork_inv hI hspec
      have hfr1 := restartWork_frame hspec
      have hocc1 : ∀ k, k ∈ is → ((restartedState st i it).item? k).isSome = true := by
        intro k hk
        rw [hitem1]
        have := hocc k (by simp [hk])
        by_cases hki : k = i
        · subst hki; simp [hit]
        · simp [hki, this]
      obtain ⟨st', h1, h2, h3, h4, h5⟩ := ih _ hI1 hocc1
      refine ⟨st', ?_, h2, hfr1.trans h3, ?_, ?_⟩
      · simp only [restartAll, hspec]; exact h1
      · intro j
        rw [h4, hitem1]
        by_cases hji : j = i
        · subst hji
          simp [hit]
          by_cases hm : j ∈ is <;> simp [hm, reset_reset]
        · by_cases hm : j ∈ is <;> simp [hji, hm]
      · intro d j
        rw [h5, hext1]
        simp only [List.mem_cons]
        grind


def withFs (st : State) (f : Fs) : State := { st with fs := f }

theorem restartWork_withFs (st : State) (f : Fs) (i : Nat) :
    restartWork (withFs st f) i = (restartWork st i).map (withFs · f) := by
  unfold restartWork
  have : (withFs st f).item? i = st.item? i := rfl
  rw [this]
  cases st.item? i <;> rfl

theorem restartAll_withFs (f : Fs) (is : List Nat) : ∀ (st : State),
    restartAll (withFs st f) is = (restartAll st is).map (withFs · f) := by
  induction is with
  | nil => intro st; rfl
  | cons i is ih =>
    intro st
    simp only [restartAll, restartWork_withFs]
    cases restartWork st i with
    | none => rfl
    | some st1 => simp only [Option.map]; exact ih st1

theorem updateExt_withFs (st : State) (f : Fs) (p : Path) :
    updateExternalDependencies (withFs st f) p = (updateExternalDependencies st p).map (withFs · f) := by
  unfold updateExternalDependencies
  exact restartAll_withFs f _ st

theorem sourceChanged_withFs (st : State) (f : Fs) (p : Path) :
    sourceChanged (withFs st f) p = (sourceChanged st p).map (withFs · f) := by
  unfold sourceChanged
  have h1 : (withFs st f).nodeMap = st.nodeMap := rfl
  simp only [h1]
  cases alookup st.nodeMap p with
  | some i =>
    simp only [restartWork_withFs]
    cases restartWork st i with
    | none => rfl
    | some st1 => simp only [Option.map]; exact updateExt_withFs st1 f p
  | none =>
    simp only [restartAll_withFs]
    cases restartAll st _ with
    | none => rfl
    | some st1 => simp only [Option.map]; exact updateExt_withFs st1 f p

theorem mem_extOf (ext : List (Path × Nat)) (p : Path) (j : Nat) : j ∈ extOf ext p ↔ (p, j) ∈ ext := by
  unfold extOf
  simp only [List.mem_map, List.mem_filter, beq_iff_eq]
  constructor
  · rintro ⟨⟨a, b⟩, ⟨h1, h2⟩, h3⟩
    simp at h2 h3; subst h2; subst h3; exact h1
  · intro h; exact ⟨(p, j), ⟨h, rfl⟩, rfl⟩

theorem updateExt_inv {P : Params} {init : Fs} {last : Cfg} {st : State} (p : Path)
    (hI : Inv P init last st) :
    ∃ st', updateExternalDependencies st p = some st' ∧ Inv P init last st' ∧ Frame st st'
      ∧ (∀ j, st'.item? j = st.item? j ∨ st'.item? j = (st.item? j).map Item.reset)
      ∧ (∀ d j, (d, j) ∈ st'.extDeps → (d, j) ∈ st.extDeps)
      ∧ (∀ j, (p, j) ∉ st'.extDeps) := by
  unfold updateExternalDependencies
  have hocc : ∀ i, i ∈ extOf st.extDeps p → (st.item? i).isSome = true := by
    intro i hi
    rw [mem_extOf] at hi
    obtain ⟨it, h1, _⟩ := hI.ext_sub p i hi
    simp [h1]
  obtain ⟨st', h1, h2, h3, h4, h5⟩ := restartAll_inv _ st hI hocc
  refine ⟨st', h1, h2, h3, ?_, ?_, ?_⟩
  · intro j; rw [h4]; by_cases hm : j ∈ extOf st.extDeps p <;> simp [hm]
  · intro d j h; exact ((h5 d j).1 h).1
  · intro j h
    have := (h5 p j).1 h
    exact this.2 ((mem_extOf _ _ _).2 this.1)

/-- `source_changed` never panics on a state satisfying the invariant; afterwards no item is
linked to `path` any more and the item of `path` itself (if any) is pending. -/
theorem sourceChanged_inv {P : Params} {init : Fs} {last : Cfg} {st : State} (p : Path)
    (hI : Inv P init last st) :
    ∃ st', sourceChanged st p = some st' ∧ Inv P init last st' ∧ Frame st st'
      ∧ (∀ j, st'.item? j = st.item? j ∨ st'.item? j = (st.item? j).map Item.reset)
      ∧ (∀ j, (p, j) ∉ st'.extDeps)
      ∧ (∀ i, (p, i) ∈ st.nodeMap → st'.item? i = (st.item? i).map Item.reset) := by
  unfold sourceChanged
  cases hl : alookup st.nodeMap p with
  | some i =>
    have hmem := alookup_some_mem _ _ _ hl
    obtain ⟨it, hit, _, _⟩ := hI.nm_item p i hmem
    have hspec := restartWork_spec hit
    obtain ⟨hI1, _, _, _, _, _, _, _, hitem1, hext1⟩ := restartWork_inv hI hspec
    have hfr1 := restartWork_frame hspec
    obtain ⟨st', h1, h2, h3, h4, h5, h6⟩ := updateExt_inv p hI1
    refine ⟨st', ?_, h2, hfr1.trans h3, ?_, h6, ?_⟩
    · simp only [hspec]; exact h1
    · intro j
      rcases h4 j with h | h <;> rw [h, hitem1] <;> by_cases hji : j = i
      · subst hji; right; simp [hit]
      · left; simp [hji]
      · subst hji; right; simp [hit, reset_reset]
      · right; simp [hji]
    · intro k hk
      have := hI.nm_fun p i k hmem hk
      subst this
      rcases h4 i with h | h <;> rw [h, hitem1] <;> simp [hit, reset_reset]
  | none =>
    have hocc : ∀ i, i ∈ (st.nodeMap.filter fun e => startsWith e.1 p).map (·.2) → (st.item? i).isSome = true := by
      intro i hi
      simp only [List.mem_map, List.mem_filter] at hi
      obtain ⟨⟨a, b⟩, ⟨h1, _⟩, h3⟩ := hi
      simp at h3; subst h3
      obtain ⟨it, h4, _⟩ := hI.nm_item a b h1
      simp [h4]
    obtain ⟨st1, g1, g2, g3, g4, g5⟩ := restartAll_inv _ st hI hocc
    obtain ⟨st', h1, h2, h3, h4, h5, h6⟩ := updateExt_inv p g2
    refine ⟨st', ?_, h2, g3.trans h3, ?_, h6, ?_⟩
    · simp only [g1]; exact h1
    · intro j
      rcases h4 j with h | h <;> rw [h, g4] <;>
        by_cases hm : j ∈ (st.nodeMap.filter fun e => startsWith e.1 p).map (·.2) <;> simp [hm]
      cases st.item? j <;> simp [reset_reset]
    · intro k hk
      exact absurd hk (alookup_none_not_mem _ _ hl k)


theorem nodeAt_mem {nodes : List (Option Item)} {j : Nat} {it : Item} (h : nodeAt nodes j = some it) :
    some it ∈ nodes := by
  unfold nodeAt at h
  cases hg : nodes[j]? with
  | none => simp [hg] at h
  | some o =>
    cases o with
    | none => simp [hg] at h
    | some it' =>
      simp [hg] at h; subst h
      exact List.mem_of_getElem? hg

theorem Inv.item_out {P : Params} {init : Fs} {last : Cfg} {st : State} (hI : Inv P init last st)
    {j : Nat} {it : Item} (hj : st.item? j = some it) : it.output = outPath P it.source := by
  obtain ⟨it', h1, _, h3⟩ := hI.nm_item _ _ (hI.item_nm j it hj)
  rw [hj] at h1; simp at h1; subst h1; exact h3

/-- `Inv` plus: when nothing was created since the last `collect_work`, every source has an item -/
def Good (P : Params) (init : Fs) (last : Cfg) (st : State) : Prop :=
  Inv P init last st ∧ (st.hasCreated = false → Synced P st) ∧ st.lastHash = some (P.configHash last)

theorem startsWith_output_of_input {P : Params} {init : Fs} (hWF : WF P init) {p : Path}
    (h : startsWith p P.input = true) : startsWith p P.output = false := by
  have h1 := hWF.sepIn
  have h2 := hWF.sepOut
  simp only [startsWith] at *
  cases h3 : P.output.isPrefixOf p with
  | false => rfl
  | true =>
    rw [List.isPrefixOf_iff_prefix] at h h3
    rcases List.prefix_or_prefix_of_prefix h h3 with h4 | h4
    · have := List.isPrefixOf_iff_prefix.2 h4; rw [this] at h2; cases h2
    · have := List.isPrefixOf_iff_prefix.2 h4; rw [this] at h1; cases h1

theorem outPath_startsWith (P : Params) (p : Path) : startsWith (outPath P p) P.output = true := by
  simp [startsWith, outPath, List.isPrefixOf_iff_prefix]

theorem step_edit_good {P : Params} {init : Fs} {last : Cfg} {st : State} {fuel : Nat} (p : Path) (c : Content)
    (hWF : WF P init) (hG : Good P init last st) (hreg : regionOfWrite P last st p c false = none) :
    ∃ st', step P fuel st (.edit p c) = .ok st' ∧ Good P init last st' ∧ st'.cfg = st.cfg := by
  obtain ⟨hI, hS, hH⟩ := hG
  -- the monitor's verdict
  unfold regionOfWrite at hreg
  have hpo : startsWith p P.output = false := by
    cases h : startsWith p P.output with
    | false => rfl
    | true => simp [h] at hreg
  simp only [hpo, Bool.false_eq_true, if_false, Bool.not_false, Bool.true_and, Bool.false_or] at hreg
  have hnew : ¬ ((alookup st.fs p).isNone = true ∧ startsWith p P.input = true ∧ P.isLua p = true) := by
    intro h; simp [h.1, h.2.1, h.2.2] at hreg
  have hstale : (alookup st.fs p).isNone = true → staleAfter P last st (ainsert st.fs p c) = false := by
    intro h
    cases h2 : staleAfter P last st (ainsert st.fs p c) with
    | false => rfl
    | true =>
      simp only [h, h2, Bool.and_self, if_true] at hreg
      split at hreg <;> cases hreg
  obtain ⟨st1, h1, hI1, hfr, hitem, hnolink, hself⟩ := sourceChanged_inv p hI
  refine ⟨withFs st1 (ainsert st.fs p c), ?_, ⟨?_, ?_, hfr.lastHash.trans hH⟩, hfr.cfg⟩
  · show ofOpt (sourceChanged (withFs st (ainsert st.fs p c)) p) = _
    rw [sourceChanged_withFs, h1]; rfl
  · -- the invariant after the write
    have hfs : ∀ q, alookup (ainsert st.fs p c) q = if q = p then some c else alookup st1.fs q := by
      intro q; rw [alookup_ainsert, hfr.fs]
    have hdone : ∀ j it, st1.item? j = some it → it.status.isDone = true → st.item? j = some it := by
      intro j it hj hd
      rcases hitem j with h | h
      · rw [← h]; exact hj
      · rw [h] at hj
        cases hsj : st.item? j with
        | none => simp [hsj] at hj
        | some it0 => simp [hsj] at hj; subst hj; simp [Item.reset, Status.isDone] at hd
    have hT : ∀ j it, st1.item? j = some it → it.status.isDone = true →
        P.T last (alookup (ainsert st.fs p c)) it.source = P.T last (alookup st1.fs) it.source := by
      intro j it hj hd
      have hj0 := hdone j it hj hd
      rw [hfr.fs]
      by_cases hex : (alookup st.fs p).isNone = true
      · have hs := hstale hex
        unfold staleAfter at hs
        rw [List.any_eq_false] at hs
        have := hs (some it) (nodeAt_mem hj0)
        simp only [hd, Bool.true_and, Bool.not_eq_true', decide_eq_false_iff_not, Decidable.not_not] at this
        simpa using this
      · have hsrc : (it.source, j) ∈ st.nodeMap := hI.item_nm j it hj0
        obtain ⟨hin, _, _⟩ := hI.src_in _ _ hsrc
        apply hWF.depSound last (alookup st.fs) (alookup (ainsert st.fs p c)) it.source
          (startsWith_output_of_input hWF hin)
        intro q hq
        rw [alookup_ainsert] at hq
        by_cases hqp : q = p
        · subst hqp
          right
          refine ⟨?_, ?_, ?_⟩
          · intro hqs
            have := hself j (hqs ▸ hsrc)
            rw [hj, hj0] at this
            simp at this
            rw [this] at hd
            simp [Item.reset, Status.isDone] at hd
          · intro hmem
            cases hst : it.status with
            | notStarted => rw [hst] at hd; simp [Status.isDone] at hd
            | done ok =>
              have hd0 := (hI.done_ok j it ok hj0 hst).1 q
              have hmem' : q ∈ it.deps := hd0.2 hmem
              have := hI1.ext_sup j it hj hd q hmem'
              exact hnolink j this
          · intro hn; simp [hn] at hex
        · simp [hqp] at hq
    have houtne : ∀ j it, st1.item? j = some it → it.output ≠ p := by
      intro j it hj hop
      rw [hI1.item_out hj] at hop
      have := outPath_startsWith P it.source
      rw [hop, hpo] at this; cases this
    constructor
    · exact hI1.nm_fun
    · exact hI1.nm_item
    · exact hI1.item_nm
    · exact hI1.free_ok
    · exact hI1.free_nodup
    · intro q i hq
      obtain ⟨h1, h2, h3⟩ := hI1.src_in q i hq
      refine ⟨h1, h2, ?_⟩
      show (alookup (ainsert st.fs p c) q).isSome = true
      rw [hfs]; by_cases hqp : q = p <;> simp [hqp, h3]
    · exact hI1.ext_sub
    · exact hI1.ext_sup
    · exact hI1.ns_deps
    · intro j it ok hj hs
      have hd : it.status.isDone = true := by rw [hs]; rfl
      show (∀ d, d ∈ it.deps ↔ d ∈ (P.T last (alookup (ainsert st.fs p c)) it.source).deps) ∧
        ok = (P.T last (alookup (ainsert st.fs p c)) it.source).out.isSome ∧
        alookup (ainsert st.fs p c) it.output = (P.T last (alookup (ainsert st.fs p c)) it.source).out
      rw [hT j it hj hd, hfs]
      simp only [houtne j it hj, if_false]
      exact hI1.done_ok j it ok hj hs
    · intro q hq
      rcases hI1.out_other q hq with h | h | h
      · exact Or.inl h
      · exact Or.inr (Or.inl h)
      · right; right
        show alookup (ainsert st.fs p c) q = _
        rw [hfs]
        have : q ≠ p := by intro hqp; rw [hqp, hpo] at hq; cases hq
        simp [this, h]
    · exact hI1.rm_src
  · intro hc
    have hc0 : st.hasCreated = false := by rw [← hfr.hasCreated]; exact hc
    intro q hq hin hlua
    have hq' : (alookup (ainsert st.fs p c) q).isSome = true := hq
    rw [alookup_ainsert] at hq'
    have hnm : (withFs st1 (ainsert st.fs p c)).nodeMap = st.nodeMap := hfr.nodeMap
    rw [hnm]
    by_cases hqp : q = p
    · subst hqp
      cases hex : alookup st.fs q with
      | none => exact absurd ⟨by simp [hex], hin, hlua⟩ hnew
      | some c0 => exact hS hc0 q (by simp [hex]) hin hlua
    · simp [hqp] at hq'
      exact hS hc0 q hq' hin hlua


end DarkluaModel.C10
