import DarkluaModel.C10.Model
import DarkluaModel.C10.Spec
/-!
# C10 — helper lemmas (core only)
-/
namespace DarkluaModel.C10

/-! ### the work loop makes progress: one pass finishes every pending item -/

theorem passNodes_doneCount (P : Params) (cfg : Cfg) (nodes : List (Option Item)) :
    ∀ (i : Nat) (fs : Fs) (ext : List (Path × Nat)) (dc : Nat),
      (passNodes P cfg nodes i fs ext dc).2.2.2 = dc + notDoneCount nodes := by
  induction nodes with
  | nil => intro i fs ext dc; simp [passNodes, notDoneCount]
  | cons o r ih =>
    intro i fs ext dc
    cases o with
    | none =>
      simp only [passNodes]
      rw [ih]
      simp [notDoneCount]
    | some it =>
      simp only [passNodes]
      rw [ih]
      by_cases hd : it.status.isDone = true
      · simp [notDoneCount, hd]
      · simp [notDoneCount, hd]; omega

theorem workLoop_no_hang (P : Params) (fuel : Nat) (st : State) :
    workLoop P (notDoneCount st.nodes) (fuel + 1) 0 st ≠ .hang := by
  simp only [workLoop]
  rw [passNodes_doneCount]
  simp

theorem processTree_no_hang (P : Params) (fuel : Nat) (st : State) :
    processTree P (fuel + 1) st ≠ .hang := by
  unfold processTree
  simp only
  split
  · simp
  · have h := workLoop_no_hang P fuel (configStep P st)
    generalize workLoop P (notDoneCount (configStep P st).nodes) (fuel + 1) 0 (configStep P st) = o at h
    cases o with
    | finished st2 => simp
    | stalled st2 => simp
    | hang => exact absurd rfl h

theorem step_no_hang (P : Params) (fuel : Nat) (st : State) (op : Op) :
    step P (fuel + 1) st op ≠ .hang := by
  cases op with
  | edit p c => simp only [step]; cases sourceChanged _ p <;> simp [ofOpt]
  | add p c => simp [step]
  | removeFile p => simp only [step]; cases removeSource _ p <;> simp [ofOpt]
  | removeDir p => simp only [step]; cases removeSource _ p <;> simp [ofOpt]
  | setConfig k => simp [step]
  | collectWork => simp [step]
  | process => simp only [step]; exact processTree_no_hang P fuel _

theorem runOps_no_hang (P : Params) (fuel : Nat) (ops : List Op) :
    ∀ o : Outcome, o ≠ .hang → runOps P (fuel + 1) o ops ≠ .hang := by
  induction ops with
  | nil => intro o h; cases o <;> simp_all [runOps]
  | cons op ops ih =>
    intro o h
    cases o with
    | ok st => simp only [runOps]; exact ih _ (step_no_hang P fuel st op)
    | panic => simp [runOps]
    | hang => exact absurd rfl h

/-! ### association lists, links -/

theorem alookup_aerase {β : Type} (m : List (Path × β)) (k q : Path) :
    alookup (aerase m k) q = if q = k then none else alookup m q := by
  induction m with
  | nil => simp [aerase, alookup]
  | cons e r ih =>
    obtain ⟨a, b⟩ := e
    unfold aerase at ih ⊢
    by_cases h : a = k
    · subst h
      simp only [List.filter, beq_self_eq_true, Bool.not_true]
      rw [ih]
      by_cases hq : q = a
      · simp [hq]
      · have : ¬ a = q := fun h => hq h.symm
        simp [hq, alookup, this]
    · have hb : (a == k) = false := by simp [h]
      simp only [List.filter, hb, Bool.not_false]
      simp only [alookup]
      rw [ih]
      by_cases haq : a = q
      · subst haq; simp [h]
      · simp [haq]

theorem alookup_ainsert {β : Type} (m : List (Path × β)) (k q : Path) (v : β) :
    alookup (ainsert m k v) q = if q = k then some v else alookup m q := by
  unfold ainsert
  simp only [alookup]
  rw [alookup_aerase]
  by_cases h : k = q
  · subst h; simp
  · have : ¬ q = k := fun h' => h h'.symm
    simp [h, this]

theorem mem_unlink (ext : List (Path × Nat)) (d : Path) (i : Nat) (e : Path × Nat) :
    e ∈ unlink ext d i ↔ e ∈ ext ∧ ¬ (e.1 = d ∧ e.2 = i) := by
  simp [unlink]; grind

theorem mem_link (ext : List (Path × Nat)) (d : Path) (i : Nat) (e : Path × Nat) :
    e ∈ link ext d i ↔ e ∈ ext ∨ e = (d, i) := by
  unfold link
  split
  · rename_i h
    simp at h
    constructor
    · intro h'; exact Or.inl h'
    · rintro (h' | h')
      · exact h'
      · subst h'; exact h
  · simp; grind

theorem mem_unlinkAll (ds : List Path) : ∀ (ext : List (Path × Nat)) (i : Nat) (e : Path × Nat),
    e ∈ unlinkAll ext i ds ↔ e ∈ ext ∧ ¬ (e.2 = i ∧ e.1 ∈ ds) := by
  induction ds with
  | nil => intro ext i e; simp [unlinkAll]
  | cons d ds ih =>
    intro ext i e
    simp only [unlinkAll]
    rw [ih, mem_unlink]
    simp only [List.mem_cons]
    grind

theorem mem_linkAll (ds : List Path) : ∀ (ext : List (Path × Nat)) (i : Nat) (e : Path × Nat),
    e ∈ linkAll ext i ds ↔ e ∈ ext ∨ (e.2 = i ∧ e.1 ∈ ds) := by
  induction ds with
  | nil => intro ext i e; simp [linkAll]
  | cons d ds ih =>
    intro ext i e
    simp only [linkAll]
    rw [ih, mem_link]
    simp only [List.mem_cons]
    constructor
    · rintro ((h | h) | h)
      · exact Or.inl h
      · subst h; exact Or.inr ⟨rfl, Or.inl rfl⟩
      · exact Or.inr ⟨h.1, Or.inr h.2⟩
    · rintro (h | ⟨h1, h2 | h2⟩)
      · exact Or.inl (Or.inl h)
      · left; right; cases e; simp_all
      · exact Or.inr ⟨h1, h2⟩


theorem alookup_some_mem {β : Type} (m : List (Path × β)) (k : Path) (v : β) :
    alookup m k = some v → (k, v) ∈ m := by
  induction m with
  | nil => simp [alookup]
  | cons e r ih =>
    obtain ⟨a, b⟩ := e
    simp only [alookup]
    split
    · rename_i h; subst h; intro h; simp at h; subst h; simp
    · intro h; simp [ih h]

theorem alookup_none_not_mem {β : Type} (m : List (Path × β)) (k : Path) :
    alookup m k = none → ∀ v, (k, v) ∉ m := by
  induction m with
  | nil => simp
  | cons e r ih =>
    obtain ⟨a, b⟩ := e
    simp only [alookup]
    split
    · simp
    · rename_i h; intro hn v hm
      simp at hm
      rcases hm with hm | hm
      · exact h hm.1.symm
      · exact ih hn v hm

theorem alookup_isSome_iff {β : Type} (m : List (Path × β)) (k : Path) :
    (alookup m k).isSome = true ↔ ∃ v, (k, v) ∈ m := by
  constructor
  · intro h
    cases hl : alookup m k with
    | none => simp [hl] at h
    | some v => exact ⟨v, alookup_some_mem m k v hl⟩
  · rintro ⟨v, hv⟩
    cases hl : alookup m k with
    | none => exact absurd hv (alookup_none_not_mem m k hl v)
    | some v => simp

/-- slot accessor on the node list -/
def nodeAt (nodes : List (Option Item)) (i : Nat) : Option Item :=
  match nodes[i]? with
  | some (some it) => some it
  | _ => none

theorem item?_eq (st : State) (i : Nat) : st.item? i = nodeAt st.nodes i := rfl

theorem nodeAt_lt {nodes : List (Option Item)} {i : Nat} {it : Item} :
    nodeAt nodes i = some it → i < nodes.length := by
  unfold nodeAt
  intro h
  by_cases hi : i < nodes.length
  · exact hi
  · simp [List.getElem?_eq_none (Nat.le_of_not_lt hi)] at h

theorem nodeAt_set (nodes : List (Option Item)) (i j : Nat) (x : Option Item) :
    nodeAt (nodes.set i x) j = if j = i then (if i < nodes.length then x else none) else nodeAt nodes j := by
  unfold nodeAt
  rw [List.getElem?_set]
  by_cases h : i = j
  · subst h
    by_cases hl : i < nodes.length
    · simp [hl]; cases x <;> rfl
    · simp [hl]
  · have : ¬ j = i := fun h' => h h'.symm
    simp [h, this]

theorem nodeAt_append (nodes : List (Option Item)) (j : Nat) (x : Option Item) :
    nodeAt (nodes ++ [x]) j = if j = nodes.length then x else nodeAt nodes j := by
  unfold nodeAt
  by_cases h : j < nodes.length
  · rw [List.getElem?_append_left h]
    have : ¬ j = nodes.length := by omega
    simp [this]
  · by_cases h2 : j = nodes.length
    · subst h2
      simp
      cases x <;> rfl
    · have h3 : nodes.length < j := by omega
      have : (nodes ++ [x])[j]? = none := by
        apply List.getElem?_eq_none; simp; omega
      rw [this]
      have : nodes[j]? = none := List.getElem?_eq_none (by omega)
      simp [this, h2]


/-- The invariant of the worker between operations. `last` is the configuration of the last
pass (ghost). -/
structure Inv (P : Params) (init : Fs) (last : Cfg) (st : State) : Prop where
  nm_fun : ∀ p i j, (p, i) ∈ st.nodeMap → (p, j) ∈ st.nodeMap → i = j
  nm_item : ∀ p i, (p, i) ∈ st.nodeMap →
    ∃ it, st.item? i = some it ∧ it.source = p ∧ it.output = outPath P p
  item_nm : ∀ i it, st.item? i = some it → (it.source, i) ∈ st.nodeMap
  free_ok : ∀ i, i ∈ st.free → i < st.nodes.length ∧ st.item? i = none
  free_nodup : st.free.Nodup
  src_in : ∀ p i, (p, i) ∈ st.nodeMap →
    startsWith p P.input = true ∧ P.isLua p = true ∧ (alookup st.fs p).isSome = true
  ext_sub : ∀ d i, (d, i) ∈ st.extDeps → ∃ it, st.item? i = some it ∧ d ∈ it.deps
  ext_sup : ∀ i it, st.item? i = some it → it.status.isDone = true → ∀ d, d ∈ it.deps → (d, i) ∈ st.extDeps
  ns_deps : ∀ i it, st.item? i = some it → it.status = .notStarted → it.deps = []
  done_ok : ∀ i it ok, st.item? i = some it → it.status = .done ok →
    (∀ d, d ∈ it.deps ↔ d ∈ (P.T last (alookup st.fs) it.source).deps) ∧
    ok = (P.T last (alookup st.fs) it.source).out.isSome ∧
    alookup st.fs it.output = (P.T last (alookup st.fs) it.source).out
  out_other : ∀ q, startsWith q P.output = true →
    (∃ i it, st.item? i = some it ∧ it.output = q) ∨ q ∈ st.removeFiles ∨ alookup st.fs q = alookup init q
  rm_src : ∀ q, q ∈ st.removeFiles → ∃ p, P.isLua p = true ∧ startsWith p P.input = true ∧ q = outPath P p
  rm_noitem : ∀ q, q ∈ st.removeFiles → ∀ j it, st.item? j = some it → it.output ≠ q

/-- every source on disk has a work item (what `collect_work` establishes) -/
def Synced (P : Params) (st : State) : Prop :=
  ∀ p, (alookup st.fs p).isSome = true → startsWith p P.input = true → P.isLua p = true →
    ∃ i, (p, i) ∈ st.nodeMap

/-! ### restart_work -/

def restartedState (st : State) (i : Nat) (it : Item) : State :=
  { st with extDeps := unlinkAll st.extDeps i it.deps, nodes := st.nodes.set i (some it.reset) }

theorem restartWork_spec {st : State} {i : Nat} {it : Item} (h : st.item? i = some it) :
    restartWork st i = some (restartedState st i it) := by
  simp [restartWork, h, restartedState]

theorem restartWork_inv {P : Params} {init : Fs} {last : Cfg} {st st' : State} {i : Nat}
    (hI : Inv P init last st) (h : restartWork st i = some st') :
    Inv P init last st' ∧ st'.fs = st.fs ∧ st'.nodeMap = st.nodeMap ∧ st'.removeFiles = st.removeFiles
    ∧ st'.cfg = st.cfg ∧ st'.hasCreated = st.hasCreated ∧ st'.free = st.free
    ∧ st'.nodes.length = st.nodes.length
    ∧ (∀ j, st'.item? j = if j = i then (st.item? i).map Item.reset else st.item? j)
    ∧ (∀ d j, (d, j) ∈ st'.extDeps ↔ (d, j) ∈ st.extDeps ∧ j ≠ i) := by
  cases hit : st.item? i with
  | none => simp [restartWork, hit] at h
  | some it =>
    rw [restartWork_spec hit] at h
    simp only [Option.some.injEq] at h
    subst h
    have hlt : i < st.nodes.length := nodeAt_lt hit
    have hitem : ∀ j, (restartedState st i it).item? j = if j = i then some it.reset else st.item? j := by
      intro j
      simp only [item?_eq, restartedState, nodeAt_set, hlt, if_true]
    have hext : ∀ d j, (d, j) ∈ (restartedState st i it).extDeps ↔ (d, j) ∈ st.extDeps ∧ j ≠ i := by
      intro d j
      simp only [restartedState]
      rw [mem_unlinkAll]
      constructor
      · rintro ⟨h1, h2⟩
        refine ⟨h1, ?_⟩
        intro hji
        subst hji
        obtain ⟨it', h3, h4⟩ := hI.ext_sub d j h1
        rw [hit] at h3
        simp at h3; subst h3
        exact h2 ⟨rfl, h4⟩
      · rintro ⟨h1, h2⟩
        exact ⟨h1, fun h3 => h2 h3.1⟩
    refine ⟨?_, rfl, rfl, rfl, rfl, rfl, rfl, by simp [restartedState], ?_, hext⟩
    · constructor
      · exact hI.nm_fun
      · intro p k hk
        obtain ⟨it', h1, h2, h3⟩ := hI.nm_item p k hk
        rw [hitem]
        by_cases hki : k = i
        · subst hki
          rw [hit] at h1; simp at h1; subst h1
          exact ⟨it.reset, by simp, h2, h3⟩
        · exact ⟨it', by simp [hki, h1], h2, h3⟩
      · intro k it' hk
        rw [hitem] at hk
        by_cases hki : k = i
        · subst hki
          simp at hk; subst hk
          exact hI.item_nm k it hit
        · simp [hki] at hk
          exact hI.item_nm k it' hk
      · intro k hk
        have := hI.free_ok k hk
        refine ⟨by simpa [restartedState] using this.1, ?_⟩
        rw [hitem]
        by_cases hki : k = i
        · subst hki; rw [hit] at this; simp at this
        · simp [hki, this.2]
      · exact hI.free_nodup
      · exact hI.src_in
      · intro d k hk
        rw [hext] at hk
        obtain ⟨it', h1, h2⟩ := hI.ext_sub d k hk.1
        exact ⟨it', by rw [hitem]; simp [hk.2, h1], h2⟩
      · intro k it' hk hd d hdm
        rw [hitem] at hk
        by_cases hki : k = i
        · subst hki; simp at hk; subst hk; simp [Item.reset, Status.isDone] at hd
        · simp [hki] at hk
          rw [hext]
          exact ⟨hI.ext_sup k it' hk hd d hdm, hki⟩
      · intro k it' hk hs
        rw [hitem] at hk
        by_cases hki : k = i
        · subst hki; simp at hk; subst hk; rfl
        · simp [hki] at hk; exact hI.ns_deps k it' hk hs
      · intro k it' ok hk hs
        rw [hitem] at hk
        by_cases hki : k = i
        · subst hki; simp at hk; subst hk; simp [Item.reset] at hs
        · simp [hki] at hk; exact hI.done_ok k it' ok hk hs
      · intro q hq
        rcases hI.out_other q hq with ⟨k, it', h1, h2⟩ | h | h
        · left
          by_cases hki : k = i
          · subst hki
            rw [hit] at h1; simp at h1; subst h1
            exact ⟨k, it.reset, by rw [hitem]; simp, h2⟩
          · exact ⟨k, it', by rw [hitem]; simp [hki, h1], h2⟩
        · exact Or.inr (Or.inl h)
        · exact Or.inr (Or.inr h)
      · exact hI.rm_src
      · intro q hq k it' hk
        rw [hitem] at hk
        by_cases hki : k = i
        · subst hki; simp at hk; subst hk
          exact hI.rm_noitem q hq k it hit
        · simp [hki] at hk; exact hI.rm_noitem q hq k it' hk
    · intro j
      rw [hitem]
      rfl


/-- what restarting leaves untouched -/
structure Frame (st st' : State) : Prop where
  fs : st'.fs = st.fs
  nodeMap : st'.nodeMap = st.nodeMap
  removeFiles : st'.removeFiles = st.removeFiles
  cfg : st'.cfg = st.cfg
  hasCreated : st'.hasCreated = st.hasCreated
  free : st'.free = st.free
  lastHash : st'.lastHash = st.lastHash
  len : st'.nodes.length = st.nodes.length

theorem Frame.refl (st : State) : Frame st st := ⟨rfl, rfl, rfl, rfl, rfl, rfl, rfl, rfl⟩

theorem Frame.trans {a b c : State} (h1 : Frame a b) (h2 : Frame b c) : Frame a c :=
  ⟨h2.fs.trans h1.fs, h2.nodeMap.trans h1.nodeMap, h2.removeFiles.trans h1.removeFiles,
   h2.cfg.trans h1.cfg, h2.hasCreated.trans h1.hasCreated, h2.free.trans h1.free,
   h2.lastHash.trans h1.lastHash, h2.len.trans h1.len⟩

theorem restartWork_frame {st st' : State} {i : Nat} (h : restartWork st i = some st') : Frame st st' := by
  cases hit : st.item? i with
  | none => simp [restartWork, hit] at h
  | some it =>
    rw [restartWork_spec hit] at h
    simp only [Option.some.injEq] at h
    subst h
    exact ⟨rfl, rfl, rfl, rfl, rfl, rfl, rfl, by simp [restartedState]⟩

theorem reset_reset (it : Item) : it.reset.reset = it.reset := rfl

theorem restartAll_inv {P : Params} {init : Fs} {last : Cfg} (is : List Nat) :
    ∀ (st : State), Inv P init last st → (∀ i, i ∈ is → (st.item? i).isSome = true) →
    ∃ st', restartAll st is = some st' ∧ Inv P init last st' ∧ Frame st st'
      ∧ (∀ j, st'.item? j = if j ∈ is then (st.item? j).map Item.reset else st.item? j)
      ∧ (∀ d j, (d, j) ∈ st'.extDeps ↔ (d, j) ∈ st.extDeps ∧ j ∉ is) := by
  induction is with
  | nil => intro st hI _; exact ⟨st, rfl, hI, Frame.refl st, by simp, by simp⟩
  | cons i is ih =>
    intro st hI hocc
    have hi := hocc i (by simp)
    cases hit : st.item? i with
    | none => simp [hit] at hi
    | some it =>
      have hspec := restartWork_spec hit
      obtain ⟨hI1, _, _, _, _, _, _, _, hitem1, hext1⟩ := restartWork_inv hI hspec
      have hfr1 := restartWork_frame hspec
      have hocc1 : ∀ k, k ∈ is → ((restartedState st i it).item? k).isSome = true := by
        intro k hk
        rw [hitem1]
        have := hocc k (by simp [hk])
        by_cases hki : k = i
        · subst hki; simp [hit]
        · simp [hki, this]
      obtain ⟨st', h1, h2, h3, h4, h5⟩ := ih _ hI1 hocc1
      refine ⟨st', ?_, h2, hfr1.trans h3, ?_, ?_⟩
      · simp only [restartAll, hspec]; exact h1
      · intro j
        rw [h4, hitem1]
        by_cases hji : j = i
        · subst hji
          simp [hit]
          by_cases hm : j ∈ is <;> simp [hm, reset_reset]
        · by_cases hm : j ∈ is <;> simp [hji, hm]
      · intro d j
        rw [h5, hext1]
        simp only [List.mem_cons]
        grind


def withFs (st : State) (f : Fs) : State := { st with fs := f }

theorem restartWork_withFs (st : State) (f : Fs) (i : Nat) :
    restartWork (withFs st f) i = (restartWork st i).map (withFs · f) := by
  unfold restartWork
  have : (withFs st f).item? i = st.item? i := rfl
  rw [this]
  cases st.item? i <;> rfl

theorem restartAll_withFs (f : Fs) (is : List Nat) : ∀ (st : State),
    restartAll (withFs st f) is = (restartAll st is).map (withFs · f) := by
  induction is with
  | nil => intro st; rfl
  | cons i is ih =>
    intro st
    simp only [restartAll, restartWork_withFs]
    cases restartWork st i with
    | none => rfl
    | some st1 => simp only [Option.map]; exact ih st1

theorem updateExt_withFs (st : State) (f : Fs) (p : Path) :
    updateExternalDependencies (withFs st f) p = (updateExternalDependencies st p).map (withFs · f) := by
  unfold updateExternalDependencies
  exact restartAll_withFs f _ st

theorem sourceChanged_withFs (st : State) (f : Fs) (p : Path) :
    sourceChanged (withFs st f) p = (sourceChanged st p).map (withFs · f) := by
  unfold sourceChanged
  have h1 : (withFs st f).nodeMap = st.nodeMap := rfl
  simp only [h1]
  cases alookup st.nodeMap p with
  | some i =>
    simp only [restartWork_withFs]
    cases restartWork st i with
    | none => rfl
    | some st1 => simp only [Option.map]; exact updateExt_withFs st1 f p
  | none =>
    simp only [restartAll_withFs]
    cases restartAll st _ with
    | none => rfl
    | some st1 => simp only [Option.map]; exact updateExt_withFs st1 f p

theorem mem_extOf (ext : List (Path × Nat)) (p : Path) (j : Nat) : j ∈ extOf ext p ↔ (p, j) ∈ ext := by
  unfold extOf
  simp only [List.mem_map, List.mem_filter, beq_iff_eq]
  constructor
  · rintro ⟨⟨a, b⟩, ⟨h1, h2⟩, h3⟩
    simp at h2 h3; subst h2; subst h3; exact h1
  · intro h; exact ⟨(p, j), ⟨h, rfl⟩, rfl⟩

theorem updateExt_inv {P : Params} {init : Fs} {last : Cfg} {st : State} (p : Path)
    (hI : Inv P init last st) :
    ∃ st', updateExternalDependencies st p = some st' ∧ Inv P init last st' ∧ Frame st st'
      ∧ (∀ j, st'.item? j = st.item? j ∨ st'.item? j = (st.item? j).map Item.reset)
      ∧ (∀ d j, (d, j) ∈ st'.extDeps → (d, j) ∈ st.extDeps)
      ∧ (∀ j, (p, j) ∉ st'.extDeps) := by
  unfold updateExternalDependencies
  have hocc : ∀ i, i ∈ extOf st.extDeps p → (st.item? i).isSome = true := by
    intro i hi
    rw [mem_extOf] at hi
    obtain ⟨it, h1, _⟩ := hI.ext_sub p i hi
    simp [h1]
  obtain ⟨st', h1, h2, h3, h4, h5⟩ := restartAll_inv _ st hI hocc
  refine ⟨st', h1, h2, h3, ?_, ?_, ?_⟩
  · intro j; rw [h4]; by_cases hm : j ∈ extOf st.extDeps p <;> simp [hm]
  · intro d j h; exact ((h5 d j).1 h).1
  · intro j h
    have := (h5 p j).1 h
    exact this.2 ((mem_extOf _ _ _).2 this.1)

/-- `source_changed` never panics on a state satisfying the invariant; afterwards no item is
linked to `path` any more and the item of `path` itself (if any) is pending. -/
theorem sourceChanged_inv {P : Params} {init : Fs} {last : Cfg} {st : State} (p : Path)
    (hI : Inv P init last st) :
    ∃ st', sourceChanged st p = some st' ∧ Inv P init last st' ∧ Frame st st'
      ∧ (∀ j, st'.item? j = st.item? j ∨ st'.item? j = (st.item? j).map Item.reset)
      ∧ (∀ j, (p, j) ∉ st'.extDeps)
      ∧ (∀ i, (p, i) ∈ st.nodeMap → st'.item? i = (st.item? i).map Item.reset) := by
  unfold sourceChanged
  cases hl : alookup st.nodeMap p with
  | some i =>
    have hmem := alookup_some_mem _ _ _ hl
    obtain ⟨it, hit, _, _⟩ := hI.nm_item p i hmem
    have hspec := restartWork_spec hit
    obtain ⟨hI1, _, _, _, _, _, _, _, hitem1, hext1⟩ := restartWork_inv hI hspec
    have hfr1 := restartWork_frame hspec
    obtain ⟨st', h1, h2, h3, h4, h5, h6⟩ := updateExt_inv p hI1
    refine ⟨st', ?_, h2, hfr1.trans h3, ?_, h6, ?_⟩
    · simp only [hspec]; exact h1
    · intro j
      rcases h4 j with h | h <;> rw [h, hitem1] <;> by_cases hji : j = i
      · subst hji; right; simp [hit]
      · left; simp [hji]
      · subst hji; right; simp [hit, reset_reset]
      · right; simp [hji]
    · intro k hk
      have := hI.nm_fun p i k hmem hk
      subst this
      rcases h4 i with h | h <;> rw [h, hitem1] <;> simp [hit, reset_reset]
  | none =>
    have hocc : ∀ i, i ∈ (st.nodeMap.filter fun e => startsWith e.1 p).map (·.2) → (st.item? i).isSome = true := by
      intro i hi
      simp only [List.mem_map, List.mem_filter] at hi
      obtain ⟨⟨a, b⟩, ⟨h1, _⟩, h3⟩ := hi
      simp at h3; subst h3
      obtain ⟨it, h4, _⟩ := hI.nm_item a b h1
      simp [h4]
    obtain ⟨st1, g1, g2, g3, g4, g5⟩ := restartAll_inv _ st hI hocc
    obtain ⟨st', h1, h2, h3, h4, h5, h6⟩ := updateExt_inv p g2
    refine ⟨st', ?_, h2, g3.trans h3, ?_, h6, ?_⟩
    · simp only [g1]; exact h1
    · intro j
      rcases h4 j with h | h <;> rw [h, g4] <;>
        by_cases hm : j ∈ (st.nodeMap.filter fun e => startsWith e.1 p).map (·.2) <;> simp [hm]
      cases st.item? j <;> simp [reset_reset]
    · intro k hk
      exact absurd hk (alookup_none_not_mem _ _ hl k)


theorem nodeAt_mem {nodes : List (Option Item)} {j : Nat} {it : Item} (h : nodeAt nodes j = some it) :
    some it ∈ nodes := by
  unfold nodeAt at h
  cases hg : nodes[j]? with
  | none => simp [hg] at h
  | some o =>
    cases o with
    | none => simp [hg] at h
    | some it' =>
      simp [hg] at h; subst h
      exact List.mem_of_getElem? hg

theorem Inv.item_out {P : Params} {init : Fs} {last : Cfg} {st : State} (hI : Inv P init last st)
    {j : Nat} {it : Item} (hj : st.item? j = some it) : it.output = outPath P it.source := by
  obtain ⟨it', h1, _, h3⟩ := hI.nm_item _ _ (hI.item_nm j it hj)
  rw [hj] at h1; simp at h1; subst h1; exact h3

/-- `Inv` plus: when nothing was created since the last `collect_work`, every source has an item -/
def Good (P : Params) (init : Fs) (last : Cfg) (st : State) : Prop :=
  Inv P init last st ∧ (st.hasCreated = false → Synced P st) ∧ st.lastHash = some (P.configHash last)

theorem startsWith_output_of_input {P : Params} {init : Fs} (hWF : WF P init) {p : Path}
    (h : startsWith p P.input = true) : startsWith p P.output = false := by
  have h1 := hWF.sepIn
  have h2 := hWF.sepOut
  simp only [startsWith] at *
  cases h3 : P.output.isPrefixOf p with
  | false => rfl
  | true =>
    rw [List.isPrefixOf_iff_prefix] at h h3
    rcases List.prefix_or_prefix_of_prefix h h3 with h4 | h4
    · have := List.isPrefixOf_iff_prefix.2 h4; rw [this] at h2; cases h2
    · have := List.isPrefixOf_iff_prefix.2 h4; rw [this] at h1; cases h1

theorem outPath_startsWith (P : Params) (p : Path) : startsWith (outPath P p) P.output = true := by
  simp [startsWith, outPath, List.isPrefixOf_iff_prefix]

theorem step_edit_good {P : Params} {init : Fs} {last : Cfg} {st : State} {fuel : Nat} (p : Path) (c : Content)
    (hWF : WF P init) (hG : Good P init last st) (hreg : regionOfWrite P last st p c false = none) :
    ∃ st', step P fuel st (.edit p c) = .ok st' ∧ Good P init last st' ∧ st'.cfg = st.cfg := by
  obtain ⟨hI, hS, hH⟩ := hG
  -- the monitor's verdict
  unfold regionOfWrite at hreg
  have hpo : startsWith p P.output = false := by
    cases h : startsWith p P.output with
    | false => rfl
    | true => simp [h] at hreg
  simp only [hpo, Bool.false_eq_true, if_false, Bool.not_false, Bool.true_and, Bool.false_or] at hreg
  have hnew : ¬ ((alookup st.fs p).isNone = true ∧ startsWith p P.input = true ∧ P.isLua p = true) := by
    intro h; simp [h.1, h.2.1, h.2.2] at hreg
  have hstale : (alookup st.fs p).isNone = true → staleAfter P last st (ainsert st.fs p c) = false := by
    intro h
    cases h2 : staleAfter P last st (ainsert st.fs p c) with
    | false => rfl
    | true =>
      simp only [h, h2, Bool.and_self, if_true] at hreg
      split at hreg <;> cases hreg
  obtain ⟨st1, h1, hI1, hfr, hitem, hnolink, hself⟩ := sourceChanged_inv p hI
  refine ⟨withFs st1 (ainsert st.fs p c), ?_, ⟨?_, ?_, hfr.lastHash.trans hH⟩, hfr.cfg⟩
  · show ofOpt (sourceChanged (withFs st (ainsert st.fs p c)) p) = _
    rw [sourceChanged_withFs, h1]; rfl
  · -- the invariant after the write
    have hfs : ∀ q, alookup (ainsert st.fs p c) q = if q = p then some c else alookup st1.fs q := by
      intro q; rw [alookup_ainsert, hfr.fs]
    have hdone : ∀ j it, st1.item? j = some it → it.status.isDone = true → st.item? j = some it := by
      intro j it hj hd
      rcases hitem j with h | h
      · rw [← h]; exact hj
      · rw [h] at hj
        cases hsj : st.item? j with
        | none => simp [hsj] at hj
        | some it0 => simp [hsj] at hj; subst hj; simp [Item.reset, Status.isDone] at hd
    have hT : ∀ j it, st1.item? j = some it → it.status.isDone = true →
        P.T last (alookup (ainsert st.fs p c)) it.source = P.T last (alookup st1.fs) it.source := by
      intro j it hj hd
      have hj0 := hdone j it hj hd
      rw [hfr.fs]
      by_cases hex : (alookup st.fs p).isNone = true
      · have hs := hstale hex
        unfold staleAfter at hs
        rw [List.any_eq_false] at hs
        have := hs (some it) (nodeAt_mem hj0)
        simp only [hd, Bool.true_and, Bool.not_eq_true', decide_eq_false_iff_not, Decidable.not_not] at this
        simpa using this
      · have hsrc : (it.source, j) ∈ st.nodeMap := hI.item_nm j it hj0
        obtain ⟨hin, _, _⟩ := hI.src_in _ _ hsrc
        apply hWF.depSound last (alookup st.fs) (alookup (ainsert st.fs p c)) it.source
          (startsWith_output_of_input hWF hin)
        intro q hq
        rw [alookup_ainsert] at hq
        by_cases hqp : q = p
        · subst hqp
          right
          refine ⟨?_, ?_, ?_⟩
          · intro hqs
            have := hself j (hqs ▸ hsrc)
            rw [hj, hj0] at this
            simp at this
            rw [this] at hd
            simp [Item.reset, Status.isDone] at hd
          · intro hmem
            cases hst : it.status with
            | notStarted => rw [hst] at hd; simp [Status.isDone] at hd
            | done ok =>
              have hd0 := (hI.done_ok j it ok hj0 hst).1 q
              have hmem' : q ∈ it.deps := hd0.2 hmem
              have := hI1.ext_sup j it hj hd q hmem'
              exact hnolink j this
          · intro hn; simp [hn] at hex
        · simp [hqp] at hq
    have houtne : ∀ j it, st1.item? j = some it → it.output ≠ p := by
      intro j it hj hop
      rw [hI1.item_out hj] at hop
      have := outPath_startsWith P it.source
      rw [hop, hpo] at this; cases this
    constructor
    · exact hI1.nm_fun
    · exact hI1.nm_item
    · exact hI1.item_nm
    · exact hI1.free_ok
    · exact hI1.free_nodup
    · intro q i hq
      obtain ⟨h1, h2, h3⟩ := hI1.src_in q i hq
      refine ⟨h1, h2, ?_⟩
      show (alookup (ainsert st.fs p c) q).isSome = true
      rw [hfs]; by_cases hqp : q = p <;> simp [hqp, h3]
    · exact hI1.ext_sub
    · exact hI1.ext_sup
    · exact hI1.ns_deps
    · intro j it ok hj hs
      have hd : it.status.isDone = true := by rw [hs]; rfl
      show (∀ d, d ∈ it.deps ↔ d ∈ (P.T last (alookup (ainsert st.fs p c)) it.source).deps) ∧
        ok = (P.T last (alookup (ainsert st.fs p c)) it.source).out.isSome ∧
        alookup (ainsert st.fs p c) it.output = (P.T last (alookup (ainsert st.fs p c)) it.source).out
      rw [hT j it hj hd, hfs]
      simp only [houtne j it hj, if_false]
      exact hI1.done_ok j it ok hj hs
    · intro q hq
      rcases hI1.out_other q hq with h | h | h
      · exact Or.inl h
      · exact Or.inr (Or.inl h)
      · right; right
        show alookup (ainsert st.fs p c) q = _
        rw [hfs]
        have : q ≠ p := by intro hqp; rw [hqp, hpo] at hq; cases hq
        simp [this, h]
    · exact hI1.rm_src
    · exact hI1.rm_noitem
  · intro hc
    have hc0 : st.hasCreated = false := by rw [← hfr.hasCreated]; exact hc
    intro q hq hin hlua
    have hq' : (alookup (ainsert st.fs p c) q).isSome = true := hq
    rw [alookup_ainsert] at hq'
    have hnm : (withFs st1 (ainsert st.fs p c)).nodeMap = st.nodeMap := hfr.nodeMap
    rw [hnm]
    by_cases hqp : q = p
    · subst hqp
      cases hex : alookup st.fs q with
      | none => exact absurd ⟨by simp [hex], hin, hlua⟩ hnew
      | some c0 => exact hS hc0 q (by simp [hex]) hin hlua
    · simp [hqp] at hq'
      exact hS hc0 q hq' hin hlua


/-! ### insert_source / collect_work -/

theorem addNode_cases (st : State) (it : Item) :
    (∃ i rest, st.free = i :: rest ∧
      addNode st it = ({ st with nodes := st.nodes.set i (some it), free := rest }, i)) ∨
    (st.free = [] ∧ addNode st it = ({ st with nodes := st.nodes ++ [some it] }, st.nodes.length)) := by
  unfold addNode
  cases st.free with
  | nil => right; exact ⟨rfl, rfl⟩
  | cons i rest => left; exact ⟨i, rest, rfl, rfl⟩

theorem insertSource_inv {P : Params} {init : Fs} {last : Cfg} {st : State} {p : Path}
    (hI : Inv P init last st) (hnone : alookup st.nodeMap p = none)
    (hin : startsWith p P.input = true) (hlua : P.isLua p = true) (hex : (alookup st.fs p).isSome = true) :
    Inv P init last (insertSource P st p) ∧ (insertSource P st p).fs = st.fs
    ∧ (∀ q, q ∈ (insertSource P st p).removeFiles → q ∈ st.removeFiles) ∧ (insertSource P st p).cfg = st.cfg
    ∧ (insertSource P st p).hasCreated = st.hasCreated ∧ (insertSource P st p).lastHash = st.lastHash
    ∧ (∃ i, (insertSource P st p).nodeMap = (p, i) :: st.nodeMap) := by
  let it : Item := { source := p, output := outPath P p, status := .notStarted, deps := [] }
  have hnm : ∀ k, (p, k) ∉ st.nodeMap := alookup_none_not_mem _ _ hnone
  -- both allocation cases lead to a state described by: slot `i` was vacant and now holds `it`
  have key : ∀ (st' : State) (i : Nat), st.item? i = none →
      (∀ j, st'.item? j = if j = i then some it else st.item? j) →
      st'.nodeMap = (p, i) :: st.nodeMap → st'.fs = st.fs → st'.extDeps = st.extDeps →
      (∀ q, q ∈ st'.removeFiles ↔ q ∈ st.removeFiles ∧ q ≠ outPath P p) →
      (∀ k, k ∈ st'.free → k < st'.nodes.length ∧ st.item? k = none ∧ k ≠ i) → st'.free.Nodup →
      Inv P init last st' := by
    intro st' i hvac hitem hmap hfs hext hrm hfree hnd
    constructor
    · intro q a b ha hb
      rw [hmap] at ha hb
      simp only [List.mem_cons, Prod.mk.injEq] at ha hb
      rcases ha with ⟨h1, h2⟩ | ha <;> rcases hb with ⟨h3, h4⟩ | hb
      · rw [h2, h4]
      · subst h1; exact absurd hb (hnm b)
      · subst h3; exact absurd ha (hnm a)
      · exact hI.nm_fun q a b ha hb
    · intro q k hk
      rw [hmap] at hk
      simp only [List.mem_cons, Prod.mk.injEq] at hk
      rcases hk with ⟨h1, h2⟩ | hk
      · subst h1; subst h2
        exact ⟨it, by rw [hitem]; simp, rfl, rfl⟩
      · obtain ⟨it', h1, h2, h3⟩ := hI.nm_item q k hk
        have hki : k ≠ i := by intro h; subst h; rw [hvac] at h1; cases h1
        exact ⟨it', by rw [hitem]; simp [hki, h1], h2, h3⟩
    · intro k it' hk
      rw [hitem] at hk
      rw [hmap]
      by_cases hki : k = i
      · subst hki; simp at hk; subst hk; simp [it]
      · simp [hki] at hk
        exact List.mem_cons_of_mem _ (hI.item_nm k it' hk)
    · intro k hk
      obtain ⟨h1, h2, h3⟩ := hfree k hk
      exact ⟨h1, by rw [hitem]; simp [h3, h2]⟩
    · exact hnd
    · intro q k hk
      rw [hmap] at hk
      simp only [List.mem_cons, Prod.mk.injEq] at hk
      rw [hfs]
      rcases hk with ⟨h1, _⟩ | hk
      · subst h1; exact ⟨hin, hlua, hex⟩
      · exact hI.src_in q k hk
    · intro d k hk
      rw [hext] at hk
      obtain ⟨it', h1, h2⟩ := hI.ext_sub d k hk
      have hki : k ≠ i := by intro h; subst h; rw [hvac] at h1; cases h1
      exact ⟨it', by rw [hitem]; simp [hki, h1], h2⟩
    · intro k it' hk hd d hdm
      rw [hitem] at hk
      rw [hext]
      by_cases hki : k = i
      · subst hki; simp at hk; subst hk; simp [it, Status.isDone] at hd
      · simp [hki] at hk; exact hI.ext_sup k it' hk hd d hdm
    · intro k it' hk hs
      rw [hitem] at hk
      by_cases hki : k = i
      · subst hki; simp at hk; subst hk; rfl
      · simp [hki] at hk; exact hI.ns_deps k it' hk hs
    · intro k it' ok hk hs
      rw [hitem] at hk
      rw [hfs]
      by_cases hki : k = i
      · subst hki; simp at hk; subst hk; simp [it] at hs
      · simp [hki] at hk; exact hI.done_ok k it' ok hk hs
    · intro q hq
      rw [hfs]
      rcases hI.out_other q hq with ⟨k, it', h1, h2⟩ | h | h
      · left
        have hki : k ≠ i := by intro h; subst h; rw [hvac] at h1; cases h1
        exact ⟨k, it', by rw [hitem]; simp [hki, h1], h2⟩
      · by_cases hqo : q = outPath P p
        · exact Or.inl ⟨i, it, by rw [hitem]; simp, hqo.symm⟩
        · exact Or.inr (Or.inl ((hrm q).2 ⟨h, hqo⟩))
      · exact Or.inr (Or.inr h)
    · intro q hq; exact hI.rm_src q ((hrm q).1 hq).1
    · intro q hq k it' hk
      rw [hitem] at hk
      by_cases hki : k = i
      · subst hki; simp at hk; subst hk
        exact fun h => ((hrm q).1 hq).2 h.symm
      · simp [hki] at hk; exact hI.rm_noitem q ((hrm q).1 hq).1 k it' hk
  have hfiltiff : ∀ q, q ∈ (st.removeFiles.filter fun q => !(q == outPath P p)) ↔
      q ∈ st.removeFiles ∧ q ≠ outPath P p := by
    intro q; simp [List.mem_filter]
  have hfilt : ∀ q, q ∈ (st.removeFiles.filter fun q => !(q == outPath P p)) → q ∈ st.removeFiles :=
    fun q hq => ((hfiltiff q).1 hq).1
  rcases addNode_cases st it with ⟨i, rest, hfree, hadd⟩ | ⟨hfree, hadd⟩
  · have hi := hI.free_ok i (by simp [hfree])
    have hnd := hI.free_nodup
    rw [hfree] at hnd
    have heq : insertSource P st p =
        { st with nodes := st.nodes.set i (some it), free := rest, nodeMap := (p, i) :: st.nodeMap,
                  removeFiles := st.removeFiles.filter fun q => !(q == outPath P p) } := by
      show (let (st', i) := addNode st it; ({ st' with nodeMap := (p, i) :: st'.nodeMap, removeFiles := st'.removeFiles.filter fun q => !(q == outPath P p) } : State)) = _
      rw [hadd]
    rw [heq]
    refine ⟨?_, rfl, hfilt, rfl, rfl, rfl, ⟨i, rfl⟩⟩
    apply key _ i hi.2
    · intro j; simp only [item?_eq, nodeAt_set, hi.1, if_true]
    · rfl
    · rfl
    · rfl
    · exact hfiltiff
    · intro k hk
      have hk' : k ∈ rest := hk
      have := hI.free_ok k (by simp [hfree, hk'])
      refine ⟨by simpa using this.1, this.2, ?_⟩
      intro hki; subst hki
      exact (List.nodup_cons.1 hnd).1 hk'
    · exact (List.nodup_cons.1 hnd).2
  · have heq : insertSource P st p =
        { st with nodes := st.nodes ++ [some it], nodeMap := (p, st.nodes.length) :: st.nodeMap,
                  removeFiles := st.removeFiles.filter fun q => !(q == outPath P p) } := by
      show (let (st', i) := addNode st it; ({ st' with nodeMap := (p, i) :: st'.nodeMap, removeFiles := st'.removeFiles.filter fun q => !(q == outPath P p) } : State)) = _
      rw [hadd]
    rw [heq]
    refine ⟨?_, rfl, hfilt, rfl, rfl, rfl, ⟨st.nodes.length, rfl⟩⟩
    apply key _ st.nodes.length
    · simp [item?_eq, nodeAt]
    · intro j; simp only [item?_eq, nodeAt_append]
    · rfl
    · rfl
    · rfl
    · exact hfiltiff
    · intro k hk
      have hk' : k ∈ st.free := hk
      simp [hfree] at hk'
    · show st.free.Nodup
      simp [hfree]

/-- what `collect_work` leaves untouched -/
structure CFrame (st st' : State) : Prop where
  fs : st'.fs = st.fs
  removeFiles : ∀ q, q ∈ st'.removeFiles → q ∈ st.removeFiles
  cfg : st'.cfg = st.cfg
  hasCreated : st'.hasCreated = st.hasCreated
  lastHash : st'.lastHash = st.lastHash
  mono : ∀ e, e ∈ st.nodeMap → e ∈ st'.nodeMap

theorem addSourceIfMissing_inv {P : Params} {init : Fs} {last : Cfg} {st : State} {p : Path}
    (hI : Inv P init last st)
    (hin : startsWith p P.input = true) (hlua : P.isLua p = true) (hex : (alookup st.fs p).isSome = true) :
    Inv P init last (addSourceIfMissing P st p) ∧ CFrame st (addSourceIfMissing P st p)
    ∧ ∃ i, (p, i) ∈ (addSourceIfMissing P st p).nodeMap := by
  unfold addSourceIfMissing
  cases hl : alookup st.nodeMap p with
  | some i => exact ⟨hI, ⟨rfl, fun _ h => h, rfl, rfl, rfl, fun e h => h⟩, i, alookup_some_mem _ _ _ hl⟩
  | none =>
    obtain ⟨h1, h2, h3, h4, h5, h6, i, h7⟩ := insertSource_inv hI hl hin hlua hex
    refine ⟨h1, ⟨h2, h3, h4, h5, h6, ?_⟩, i, ?_⟩
    · intro e he; rw [h7]; exact List.mem_cons_of_mem _ he
    · rw [h7]; simp

theorem foldl_addSource_inv {P : Params} {init : Fs} {last : Cfg} (ps : List Path) :
    ∀ (st : State), Inv P init last st →
      (∀ p, p ∈ ps → startsWith p P.input = true ∧ P.isLua p = true ∧ (alookup st.fs p).isSome = true) →
      Inv P init last (ps.foldl (addSourceIfMissing P) st) ∧ CFrame st (ps.foldl (addSourceIfMissing P) st)
      ∧ ∀ p, p ∈ ps → ∃ i, (p, i) ∈ (ps.foldl (addSourceIfMissing P) st).nodeMap := by
  induction ps with
  | nil => intro st hI _; exact ⟨hI, ⟨rfl, fun _ h => h, rfl, rfl, rfl, fun e h => h⟩, by simp⟩
  | cons p ps ih =>
    intro st hI hps
    obtain ⟨h1, h2, h3⟩ := hps p (by simp)
    obtain ⟨g1, g2, i, g3⟩ := addSourceIfMissing_inv hI h1 h2 h3
    have hps' : ∀ q, q ∈ ps → startsWith q P.input = true ∧ P.isLua q = true ∧
        (alookup (addSourceIfMissing P st p).fs q).isSome = true := by
      intro q hq; rw [g2.fs]; exact hps q (by simp [hq])
    obtain ⟨k1, k2, k3⟩ := ih _ g1 hps'
    simp only [List.foldl]
    refine ⟨k1, ⟨k2.fs.trans g2.fs, fun q hq => g2.removeFiles q (k2.removeFiles q hq), k2.cfg.trans g2.cfg,
      k2.hasCreated.trans g2.hasCreated, k2.lastHash.trans g2.lastHash, fun e he => k2.mono e (g2.mono e he)⟩, ?_⟩
    intro q hq
    simp only [List.mem_cons] at hq
    rcases hq with hq | hq
    · subst hq; exact ⟨i, k2.mono _ g3⟩
    · exact k3 q hq

theorem mem_sourcesOf (P : Params) (fs : Fs) (p : Path) :
    p ∈ sourcesOf P fs ↔ (alookup fs p).isSome = true ∧ startsWith p P.input = true ∧ P.isLua p = true := by
  unfold sourcesOf
  simp only [List.mem_filter, List.mem_map, Bool.and_eq_true]
  rw [alookup_isSome_iff]
  constructor
  · rintro ⟨⟨⟨a, b⟩, h1, h2⟩, h3, h4⟩
    simp at h2; subst h2
    exact ⟨⟨b, h1⟩, h3, h4⟩
  · rintro ⟨⟨v, hv⟩, h3, h4⟩
    exact ⟨⟨(p, v), hv, rfl⟩, h3, h4⟩

theorem collectWork_inv {P : Params} {init : Fs} {last : Cfg} {st : State} (hI : Inv P init last st) :
    Inv P init last (collectWork P st) ∧ CFrame st (collectWork P st) ∧ Synced P (collectWork P st) := by
  unfold collectWork
  have hps : ∀ p, p ∈ sourcesOf P st.fs →
      startsWith p P.input = true ∧ P.isLua p = true ∧ (alookup st.fs p).isSome = true := by
    intro p hp
    rw [mem_sourcesOf] at hp
    exact ⟨hp.2.1, hp.2.2, hp.1⟩
  obtain ⟨h1, h2, h3⟩ := foldl_addSource_inv (sourcesOf P st.fs) st hI hps
  refine ⟨h1, h2, ?_⟩
  intro p hp hin hlua
  rw [h2.fs] at hp
  exact h3 p ((mem_sourcesOf P st.fs p).2 ⟨hp, hin, hlua⟩)


/-! ### the small steps: setConfig, collectWork, add -/

theorem step_setConfig_good {P : Params} {init : Fs} {last : Cfg} {st : State} {fuel : Nat} (k : Cfg)
    (hG : Good P init last st) :
    ∃ st', step P fuel st (.setConfig k) = .ok st' ∧ Good P init last st' := by
  obtain ⟨hI, hS, hH⟩ := hG
  refine ⟨{ st with cfg := k }, rfl, ⟨?_, hS, hH⟩⟩
  exact ⟨hI.nm_fun, hI.nm_item, hI.item_nm, hI.free_ok, hI.free_nodup, hI.src_in, hI.ext_sub, hI.ext_sup,
    hI.ns_deps, hI.done_ok, hI.out_other, hI.rm_src, hI.rm_noitem⟩

theorem step_collectWork_good {P : Params} {init : Fs} {last : Cfg} {st : State} {fuel : Nat}
    (hG : Good P init last st) :
    ∃ st', step P fuel st .collectWork = .ok st' ∧ Good P init last st' := by
  obtain ⟨hI, hS, hH⟩ := hG
  obtain ⟨h1, h2, h3⟩ := collectWork_inv hI
  exact ⟨collectWork P st, rfl, h1, fun _ => h3, h2.lastHash.trans hH⟩

theorem step_add_good {P : Params} {init : Fs} {last : Cfg} {st : State} {fuel : Nat} (p : Path) (c : Content)
    (hG : Good P init last st) (hreg : regionOfWrite P last st p c true = none) :
    ∃ st', step P fuel st (.add p c) = .ok st' ∧ Good P init last st' := by
  obtain ⟨hI, hS, hH⟩ := hG
  unfold regionOfWrite at hreg
  have hpo : startsWith p P.output = false := by
    cases h : startsWith p P.output with
    | false => rfl
    | true => simp [h] at hreg
  simp only [hpo, Bool.false_eq_true, if_false, Bool.not_true, Bool.false_and, Bool.true_or, Bool.true_and] at hreg
  have hstale : staleAfter P last st (ainsert st.fs p c) = false := by
    cases h2 : staleAfter P last st (ainsert st.fs p c) with
    | false => rfl
    | true => simp [h2] at hreg
  refine ⟨{ st with fs := ainsert st.fs p c, hasCreated := true }, rfl, ⟨?_, ?_, hH⟩⟩
  · have hT : ∀ j it, st.item? j = some it → it.status.isDone = true →
        P.T last (alookup (ainsert st.fs p c)) it.source = P.T last (alookup st.fs) it.source := by
      intro j it hj hd
      unfold staleAfter at hstale
      rw [List.any_eq_false] at hstale
      have := hstale (some it) (nodeAt_mem hj)
      simp only [hd, Bool.true_and, Bool.not_eq_true', decide_eq_false_iff_not, Decidable.not_not] at this
      simpa using this
    have houtne : ∀ j it, st.item? j = some it → it.output ≠ p := by
      intro j it hj hop
      rw [hI.item_out hj] at hop
      have := outPath_startsWith P it.source
      rw [hop, hpo] at this; cases this
    constructor
    · exact hI.nm_fun
    · exact hI.nm_item
    · exact hI.item_nm
    · exact hI.free_ok
    · exact hI.free_nodup
    · intro q i hq
      obtain ⟨h1, h2, h3⟩ := hI.src_in q i hq
      refine ⟨h1, h2, ?_⟩
      show (alookup (ainsert st.fs p c) q).isSome = true
      rw [alookup_ainsert]; by_cases hqp : q = p <;> simp [hqp, h3]
    · exact hI.ext_sub
    · exact hI.ext_sup
    · exact hI.ns_deps
    · intro j it ok hj hs
      have hd : it.status.isDone = true := by rw [hs]; rfl
      show (∀ d, d ∈ it.deps ↔ d ∈ (P.T last (alookup (ainsert st.fs p c)) it.source).deps) ∧
        ok = (P.T last (alookup (ainsert st.fs p c)) it.source).out.isSome ∧
        alookup (ainsert st.fs p c) it.output = (P.T last (alookup (ainsert st.fs p c)) it.source).out
      rw [hT j it hj hd, alookup_ainsert]
      simp only [houtne j it hj, if_false]
      exact hI.done_ok j it ok hj hs
    · intro q hq
      rcases hI.out_other q hq with h | h | h
      · exact Or.inl h
      · exact Or.inr (Or.inl h)
      · right; right
        show alookup (ainsert st.fs p c) q = _
        rw [alookup_ainsert]
        have : q ≠ p := by intro hqp; rw [hqp, hpo] at hq; cases hq
        simp [this, h]
    · exact hI.rm_src
    · exact hI.rm_noitem
  · intro h; cases h


/-! ### one pass of the work loop -/

/-- the result of `T` for an item, on the file system the pass started from -/
def tOf (P : Params) (cfg : Cfg) (fs0 : Fs) (it : Item) : TRes := P.T cfg (alookup fs0) it.source

/-- what a pass makes of an item -/
def advOf (P : Params) (cfg : Cfg) (fs0 : Fs) (it : Item) : Item :=
  if it.status.isDone then it
  else { it with status := .done (tOf P cfg fs0 it).out.isSome, deps := it.deps ++ (tOf P cfg fs0 it).deps }

def distinctOutputs (nodes : List (Option Item)) : Prop :=
  nodes.Pairwise fun a b => ∀ x y, a = some x → b = some y → x.output ≠ y.output

theorem advanceWork_eq {P : Params} {cfg : Cfg} {fs fs0 : Fs} {it : Item}
    (hT : P.T cfg (alookup fs) it.source = P.T cfg (alookup fs0) it.source) (hnd : it.status.isDone = false) :
    (advanceWork P cfg fs it).1 = advOf P cfg fs0 it ∧
    (advanceWork P cfg fs it).2 = match (tOf P cfg fs0 it).out with
      | some c => ainsert fs it.output c
      | none => fs := by
  unfold advanceWork advOf tOf
  simp only [hT, hnd, Bool.false_eq_true, if_false]
  cases (P.T cfg (alookup fs0) it.source).out <;> simp

theorem passNodes_spec {P : Params} {cfg : Cfg} {fs0 : Fs}
    (hDS : ∀ (fs : Fs) (it : Item), startsWith it.source P.output = false →
      (∀ q, startsWith q P.output = false → alookup fs q = alookup fs0 q) →
      P.T cfg (alookup fs) it.source = P.T cfg (alookup fs0) it.source)
    (nodes : List (Option Item)) :
    ∀ (i : Nat) (fs : Fs) (ext : List (Path × Nat)) (dc : Nat),
      (∀ q, startsWith q P.output = false → alookup fs q = alookup fs0 q) →
      (∀ it, some it ∈ nodes → startsWith it.source P.output = false ∧ startsWith it.output P.output = true) →
      distinctOutputs nodes →
      (passNodes P cfg nodes i fs ext dc).1 = nodes.map (Option.map (advOf P cfg fs0))
      ∧ (∀ q, startsWith q P.output = false → alookup (passNodes P cfg nodes i fs ext dc).2.1 q = alookup fs0 q)
      ∧ (∀ q, (∀ it, some it ∈ nodes → it.status.isDone = false → (tOf P cfg fs0 it).out.isSome = true →
            it.output ≠ q) → alookup (passNodes P cfg nodes i fs ext dc).2.1 q = alookup fs q)
      ∧ (∀ it c, some it ∈ nodes → it.status.isDone = false → (tOf P cfg fs0 it).out = some c →
            alookup (passNodes P cfg nodes i fs ext dc).2.1 it.output = some c)
      ∧ (∀ d j, (d, j) ∈ (passNodes P cfg nodes i fs ext dc).2.2.1 ↔
            (d, j) ∈ ext ∨ ∃ k it, nodes[k]? = some (some it) ∧ j = i + k ∧ d ∈ (advOf P cfg fs0 it).deps) := by
  induction nodes with
  | nil =>
    intro i fs ext dc hag _ _
    simp [passNodes]
    exact hag
  | cons o r ih =>
    intro i fs ext dc hag hsrc hpw
    have hsrc' : ∀ it, some it ∈ r → startsWith it.source P.output = false ∧ startsWith it.output P.output = true :=
      fun it h => hsrc it (List.mem_cons_of_mem _ h)
    have hpw' : distinctOutputs r := (List.pairwise_cons.1 hpw).2
    cases o with
    | none =>
      obtain ⟨h1, h2, h3, h4, h5⟩ := ih (i + 1) fs ext dc hag hsrc' hpw'
      simp only [passNodes]
      refine ⟨by simp [h1], h2, ?_, ?_, ?_⟩
      · intro q hq
        exact h3 q (fun it hm => hq it (List.mem_cons_of_mem _ hm))
      · intro it c hm
        simp only [List.mem_cons] at hm
        rcases hm with hm | hm
        · cases hm
        · exact h4 it c hm
      · intro d j
        rw [h5]
        constructor
        · rintro (h | ⟨k, it, hk, hj, hd⟩)
          · exact Or.inl h
          · exact Or.inr ⟨k + 1, it, by simpa using hk, by omega, hd⟩
        · rintro (h | ⟨k, it, hk, hj, hd⟩)
          · exact Or.inl h
          · cases k with
            | zero => simp at hk
            | succ k => exact Or.inr ⟨k, it, by simpa using hk, by omega, hd⟩
    | some it =>
      have hit := hsrc it (by simp)
      by_cases hd : it.status.isDone = true
      · -- already done: untouched, links refreshed
        have hadv : advOf P cfg fs0 it = it := by simp [advOf, hd]
        obtain ⟨h1, h2, h3, h4, h5⟩ := ih (i + 1) fs (linkAll ext i it.deps) dc hag hsrc' hpw'
        simp only [passNodes, hd, if_true]
        refine ⟨by simp [h1, hadv], h2, ?_, ?_, ?_⟩
        · intro q hq
          exact h3 q (fun it' hm => hq it' (List.mem_cons_of_mem _ hm))
        · intro it' c hm hnd
          simp only [List.mem_cons] at hm
          rcases hm with hm | hm
          · simp at hm; subst hm; rw [hd] at hnd; cases hnd
          · exact h4 it' c hm hnd
        · intro d j
          rw [h5, mem_linkAll]
          constructor
          · rintro ((h | ⟨hj, hdm⟩) | ⟨k, it', hk, hj, hdm⟩)
            · exact Or.inl h
            · exact Or.inr ⟨0, it, by simp, by simpa using hj, by rw [hadv]; exact hdm⟩
            · exact Or.inr ⟨k + 1, it', by simpa using hk, by omega, hdm⟩
          · rintro (h | ⟨k, it', hk, hj, hdm⟩)
            · exact Or.inl (Or.inl h)
            · cases k with
              | zero =>
                simp at hk; subst hk
                rw [hadv] at hdm
                exact Or.inl (Or.inr ⟨by simpa using hj, hdm⟩)
              | succ k => exact Or.inr ⟨k, it', by simpa using hk, by omega, hdm⟩
      · -- pending: advanced with T on the current file system, which agrees with fs0 outside the output folder
        have hnd : it.status.isDone = false := by simpa using hd
        have hT := hDS fs it hit.1 hag
        obtain ⟨ha1, ha2⟩ := advanceWork_eq hT hnd
        have hag' : ∀ q, startsWith q P.output = false →
            alookup (advanceWork P cfg fs it).2 q = alookup fs0 q := by
          intro q hq
          rw [ha2]
          cases (tOf P cfg fs0 it).out with
          | none => exact hag q hq
          | some c =>
            simp only
            rw [alookup_ainsert]
            have : q ≠ it.output := by intro h; rw [h, hit.2] at hq; cases hq
            simp [this, hag q hq]
        obtain ⟨h1, h2, h3, h4, h5⟩ :=
          ih (i + 1) (advanceWork P cfg fs it).2 (linkAll ext i (advanceWork P cfg fs it).1.deps) (dc + 1) hag' hsrc' hpw'
        simp only [passNodes, hnd, Bool.false_eq_true, if_false]
        refine ⟨by rw [h1, ha1]; rfl, h2, ?_, ?_, ?_⟩
        · intro q hq
          rw [h3 q (fun it' hm => hq it' (List.mem_cons_of_mem _ hm)), ha2]
          cases hout : (tOf P cfg fs0 it).out with
          | none => rfl
          | some c =>
            simp only
            rw [alookup_ainsert]
            have := hq it (by simp) hnd (by simp [hout])
            simp [this.symm]
        · intro it' c hm hnd' hout
          simp only [List.mem_cons] at hm
          rcases hm with hm | hm
          · simp at hm; subst hm
            -- nothing later writes to this output
            rw [h3]
            · rw [ha2, hout]; simp [alookup_ainsert]
            · intro it2 hm2 _ _
              have := (List.pairwise_cons.1 hpw).1 (some it2) hm2 it' it2 rfl rfl
              exact fun h => this h.symm
          · exact h4 it' c hm hnd' hout
        · intro d j
          rw [h5, mem_linkAll, ha1]
          constructor
          · rintro ((h | ⟨hj, hdm⟩) | ⟨k, it', hk, hj, hdm⟩)
            · exact Or.inl h
            · exact Or.inr ⟨0, it, by simp, by simpa using hj, hdm⟩
            · exact Or.inr ⟨k + 1, it', by simpa using hk, by omega, hdm⟩
          · rintro (h | ⟨k, it', hk, hj, hdm⟩)
            · exact Or.inl (Or.inl h)
            · cases k with
              | zero =>
                simp at hk; subst hk
                exact Or.inl (Or.inr ⟨by simpa using hj, hdm⟩)
              | succ k => exact Or.inr ⟨k, it', by simpa using hk, by omega, hdm⟩


/-! ### reset, configuration step, clean_files -/

theorem nodeAt_map (f : Item → Item) (nodes : List (Option Item)) (j : Nat) :
    nodeAt (nodes.map (Option.map f)) j = (nodeAt nodes j).map f := by
  unfold nodeAt
  rw [List.getElem?_map]
  cases nodes[j]? with
  | none => rfl
  | some o => cases o <;> rfl

def AllDone (st : State) : Prop := ∀ j it, st.item? j = some it → it.status.isDone = true

theorem reset_inv {P : Params} {init : Fs} {last last' : Cfg} {st : State} (hI : Inv P init last st) :
    Inv P init last' (reset st) := by
  have hitem : ∀ j, (reset st).item? j = (st.item? j).map Item.reset := by
    intro j; simp only [item?_eq, reset, nodeAt_map]
  constructor
  · exact hI.nm_fun
  · intro p i hp
    obtain ⟨it, h1, h2, h3⟩ := hI.nm_item p i hp
    exact ⟨it.reset, by rw [hitem, h1]; rfl, h2, h3⟩
  · intro i it hi
    rw [hitem] at hi
    cases h : st.item? i with
    | none => simp [h] at hi
    | some it0 => simp [h] at hi; subst hi; exact hI.item_nm i it0 h
  · intro i hi
    have := hI.free_ok i hi
    exact ⟨by simpa [reset] using this.1, by rw [hitem, this.2]; rfl⟩
  · exact hI.free_nodup
  · exact hI.src_in
  · intro d i h; simp [reset] at h
  · intro i it hi hd
    rw [hitem] at hi
    cases h : st.item? i with
    | none => simp [h] at hi
    | some it0 => simp [h] at hi; subst hi; simp [Item.reset, Status.isDone] at hd
  · intro i it hi _
    rw [hitem] at hi
    cases h : st.item? i with
    | none => simp [h] at hi
    | some it0 => simp [h] at hi; subst hi; rfl
  · intro i it ok hi hs
    rw [hitem] at hi
    cases h : st.item? i with
    | none => simp [h] at hi
    | some it0 => simp [h] at hi; subst hi; simp [Item.reset] at hs
  · intro q hq
    rcases hI.out_other q hq with ⟨k, it', h1, h2⟩ | h | h
    · exact Or.inl ⟨k, it'.reset, by rw [hitem, h1]; rfl, h2⟩
    · exact Or.inr (Or.inl h)
    · exact Or.inr (Or.inr h)
  · exact hI.rm_src
  · intro q hq i it hi
    rw [hitem] at hi
    cases h : st.item? i with
    | none => simp [h] at hi
    | some it0 => simp [h] at hi; subst hi; exact hI.rm_noitem q hq i it0 h

theorem inv_of_eq_fields {P : Params} {init : Fs} {last : Cfg} {st st' : State} (hI : Inv P init last st)
    (h1 : st'.fs = st.fs) (h2 : st'.nodes = st.nodes) (h3 : st'.free = st.free) (h4 : st'.nodeMap = st.nodeMap)
    (h5 : st'.extDeps = st.extDeps) (h6 : st'.removeFiles = st.removeFiles) : Inv P init last st' := by
  have hitem : ∀ j, st'.item? j = st.item? j := by intro j; simp only [item?_eq, h2]
  constructor
  · rw [h4]; exact hI.nm_fun
  · intro p i; rw [h4, hitem]; exact hI.nm_item p i
  · intro i it; rw [h4, hitem]; exact hI.item_nm i it
  · intro i; rw [h3, h2, hitem]; exact hI.free_ok i
  · rw [h3]; exact hI.free_nodup
  · intro p i; rw [h4, h1]; exact hI.src_in p i
  · intro d i; rw [h5, hitem]; exact hI.ext_sub d i
  · intro i it; rw [h5, hitem]; exact hI.ext_sup i it
  · intro i it; rw [hitem]; exact hI.ns_deps i it
  · intro i it ok; rw [hitem, h1]; exact hI.done_ok i it ok
  · intro q hq
    rw [h6, h1]
    rcases hI.out_other q hq with ⟨k, it', h1', h2'⟩ | h | h
    · exact Or.inl ⟨k, it', by rw [hitem]; exact h1', h2'⟩
    · exact Or.inr (Or.inl h)
    · exact Or.inr (Or.inr h)
  · rw [h6]; exact hI.rm_src
  · intro q hq j it; rw [hitem]; rw [h6] at hq; exact hI.rm_noitem q hq j it

/-- the state after the configuration check: results now belong to the current configuration -/
theorem configStep_inv {P : Params} {init : Fs} {last : Cfg} {st : State} (hI : Inv P init last st)
    (hh : st.lastHash = some (P.configHash last) ∨ (st.lastHash = none ∧ last = st.cfg))
    (hF13 : ¬ (st.lastHash = some (P.configHash st.cfg) ∧ st.cfg ≠ last)) :
    Inv P init st.cfg (configStep P st) ∧ (configStep P st).fs = st.fs ∧ (configStep P st).nodeMap = st.nodeMap
    ∧ (configStep P st).removeFiles = st.removeFiles ∧ (configStep P st).cfg = st.cfg
    ∧ (configStep P st).hasCreated = st.hasCreated
    ∧ (configStep P st).lastHash = some (P.configHash st.cfg) := by
  unfold configStep
  rcases hh with hh | ⟨hh, hl⟩
  · simp only [hh]
    by_cases hc : P.configHash st.cfg = P.configHash last
    · have hcl : st.cfg = last := by
        apply Classical.byContradiction
        intro hne
        exact hF13 ⟨by rw [hh, hc], hne⟩
      simp only [hc, bne_self_eq_false, Bool.false_eq_true, if_false]
      refine ⟨?_, by first | trivial | rfl, by first | trivial | rfl, by first | trivial | rfl, by first | trivial | rfl, by first | trivial | rfl, by first | trivial | rfl⟩
      rw [hcl]
      exact inv_of_eq_fields hI rfl rfl rfl rfl rfl rfl
    · have : (P.configHash st.cfg != P.configHash last) = true := by simp [hc]
      simp only [this, if_true]
      refine ⟨?_, by first | trivial | rfl, by first | trivial | rfl, by first | trivial | rfl, by first | trivial | rfl, by first | trivial | rfl, by first | trivial | rfl⟩
      exact reset_inv (inv_of_eq_fields hI rfl rfl rfl rfl rfl rfl)
  · simp only [hh, Bool.false_eq_true, if_false]
    refine ⟨?_, by first | trivial | rfl, by first | trivial | rfl, by first | trivial | rfl, by first | trivial | rfl, by first | trivial | rfl, by first | trivial | rfl⟩
    rw [← hl]
    exact inv_of_eq_fields hI rfl rfl rfl rfl rfl rfl

/-! `Source::remove` on memory resources only ever deletes paths at or below its argument -/

theorem alookup_filter_not {β : Type} (m : List (Path × β)) (f : Path → Bool) (q : Path) :
    alookup (m.filter fun e => !(f e.1)) q = if f q then none else alookup m q := by
  induction m with
  | nil => simp [alookup]
  | cons e r ih =>
    obtain ⟨a, b⟩ := e
    by_cases hfa : f a = true
    · simp only [List.filter, hfa, Bool.not_true]
      rw [ih]
      by_cases hfq : f q = true
      · simp [hfq]
      · have : a ≠ q := by intro h; subst h; exact hfq hfa
        simp [hfq, alookup, this]
    · have hfa' : f a = false := by simpa using hfa
      simp only [List.filter, hfa', Bool.not_false, alookup]
      rw [ih]
      by_cases haq : a = q
      · subst haq; simp [hfa']
      · simp [haq]

theorem fsRemove_lookup (fs : Fs) (q q' : Path) :
    alookup (fsRemove fs q) q' = alookup fs q' ∨
      (alookup (fsRemove fs q) q' = none ∧ startsWith q' q = true) := by
  unfold fsRemove
  split
  · rw [alookup_aerase]
    by_cases h : q' = q
    · right; subst h; simp [startsWith]
    · left; simp [h]
  · split
    · rw [alookup_filter_not _ (fun p => startsWith p q)]
      by_cases h : startsWith q' q = true
      · right; simp [h]
      · left; simp [h]
    · left; rfl

theorem fsRemove_self (fs : Fs) (q : Path) : alookup (fsRemove fs q) q = none := by
  unfold fsRemove
  split
  · rw [alookup_aerase]; simp
  · rename_i h
    have hn : alookup fs q = none := by
      cases h' : alookup fs q with
      | none => rfl
      | some v => simp [h'] at h
    split
    · rw [alookup_filter_not _ (fun p => startsWith p q)]; simp [startsWith]
    · exact hn

theorem foldl_fsRemove_lookup (qs : List Path) : ∀ (fs : Fs) (q' : Path),
    alookup (qs.foldl fsRemove fs) q' = alookup fs q' ∨
      (alookup (qs.foldl fsRemove fs) q' = none ∧ ∃ q, q ∈ qs ∧ startsWith q' q = true) := by
  induction qs with
  | nil => intro fs q'; left; rfl
  | cons q qs ih =>
    intro fs q'
    simp only [List.foldl]
    rcases ih (fsRemove fs q) q' with h | ⟨h1, q2, h2, h3⟩
    · rcases fsRemove_lookup fs q q' with g | ⟨g1, g2⟩
      · left; rw [h, g]
      · right; exact ⟨by rw [h, g1], q, by simp, g2⟩
    · right; exact ⟨h1, q2, by simp [h2], h3⟩

theorem foldl_fsRemove_none (qs : List Path) : ∀ (fs : Fs) (q' : Path), alookup fs q' = none →
    alookup (qs.foldl fsRemove fs) q' = none := by
  intro fs q' h
  rcases foldl_fsRemove_lookup qs fs q' with g | ⟨g, _⟩
  · rw [g, h]
  · exact g

theorem foldl_fsRemove_self (qs : List Path) : ∀ (fs : Fs) (q : Path), q ∈ qs →
    alookup (qs.foldl fsRemove fs) q = none := by
  induction qs with
  | nil => intro fs q h; cases h
  | cons a qs ih =>
    intro fs q hq
    simp only [List.foldl]
    simp only [List.mem_cons] at hq
    rcases hq with hq | hq
    · subst hq
      exact foldl_fsRemove_none qs _ _ (fsRemove_self fs q)
    · exact ih _ q hq


/-! ### `process`: one pass finishes everything and re-establishes the invariant -/

theorem nodeAt_eq_some_iff (nodes : List (Option Item)) (j : Nat) (it : Item) :
    nodeAt nodes j = some it ↔ nodes[j]? = some (some it) := by
  unfold nodeAt
  cases nodes[j]? with
  | none => simp
  | some o => cases o <;> simp

theorem mem_nodeAt {nodes : List (Option Item)} {it : Item} (h : some it ∈ nodes) :
    ∃ j, nodeAt nodes j = some it := by
  obtain ⟨j, hj⟩ := List.mem_iff_getElem?.1 h
  exact ⟨j, (nodeAt_eq_some_iff nodes j it).2 hj⟩

theorem notDoneCount_zero {nodes : List (Option Item)} (h : notDoneCount nodes = 0) :
    ∀ j it, nodeAt nodes j = some it → it.status.isDone = true := by
  intro j it hj
  unfold notDoneCount at h
  have hnil := List.eq_nil_of_length_eq_zero h
  have hm := nodeAt_mem hj
  have := List.filter_eq_nil_iff.1 hnil (some it) hm
  simpa using this

theorem outPath_inj {P : Params} {p p' : Path} (hp : startsWith p P.input = true)
    (hp' : startsWith p' P.input = true) (h : outPath P p = outPath P p') : p = p' := by
  unfold outPath at h
  have h1 := List.append_cancel_left h
  simp only [startsWith, List.isPrefixOf_iff_prefix] at hp hp'
  obtain ⟨t, ht⟩ := hp
  obtain ⟨t', ht'⟩ := hp'
  subst ht; subst ht'
  simp at h1
  rw [h1]

theorem Inv.item_src {P : Params} {init : Fs} {last : Cfg} {st : State} (hI : Inv P init last st)
    {j : Nat} {it : Item} (hj : st.item? j = some it) :
    startsWith it.source P.input = true ∧ P.isLua it.source = true ∧ (alookup st.fs it.source).isSome = true :=
  hI.src_in _ _ (hI.item_nm j it hj)

theorem Inv.outputs_inj {P : Params} {init : Fs} {last : Cfg} {st : State} (hI : Inv P init last st)
    {j k : Nat} {a b : Item} (hj : st.item? j = some a) (hk : st.item? k = some b)
    (h : a.output = b.output) : j = k := by
  rw [hI.item_out hj, hI.item_out hk] at h
  have hs := outPath_inj (hI.item_src hj).1 (hI.item_src hk).1 h
  have h1 := hI.item_nm j a hj
  have h2 := hI.item_nm k b hk
  rw [hs] at h1
  exact hI.nm_fun _ _ _ h1 h2

theorem Inv.distinct {P : Params} {init : Fs} {last : Cfg} {st : State} (hI : Inv P init last st) :
    distinctOutputs st.nodes := by
  unfold distinctOutputs
  rw [List.pairwise_iff_getElem]
  intro i j hi hj hij x y hx hy hout
  have h1 : st.item? i = some x := by
    rw [item?_eq, nodeAt_eq_some_iff, List.getElem?_eq_getElem hi, hx]
  have h2 : st.item? j = some y := by
    rw [item?_eq, nodeAt_eq_some_iff, List.getElem?_eq_getElem hj, hy]
  have := hI.outputs_inj h1 h2 hout
  omega

theorem advOf_source (P : Params) (cfg : Cfg) (fs0 : Fs) (it : Item) : (advOf P cfg fs0 it).source = it.source := by
  unfold advOf; split <;> rfl
theorem advOf_output (P : Params) (cfg : Cfg) (fs0 : Fs) (it : Item) : (advOf P cfg fs0 it).output = it.output := by
  unfold advOf; split <;> rfl
theorem advOf_done (P : Params) (cfg : Cfg) (fs0 : Fs) (it : Item) : (advOf P cfg fs0 it).status.isDone = true := by
  unfold advOf; split
  · assumption
  · rfl
theorem advOf_deps_mono (P : Params) (cfg : Cfg) (fs0 : Fs) (it : Item) (d : Path) (h : d ∈ it.deps) :
    d ∈ (advOf P cfg fs0 it).deps := by
  unfold advOf; split
  · exact h
  · simp [h]

/-- the state after one pass -/
def passState (P : Params) (st : State) : State :=
  let res := passNodes P st.cfg st.nodes 0 st.fs st.extDeps 0
  { st with nodes := res.1, fs := res.2.1, extDeps := res.2.2.1 }

theorem depSound_pass {P : Params} {init : Fs} (hWF : WF P init) (cfg : Cfg) (fs0 fs : Fs) (p : Path)
    (hp : startsWith p P.output = false)
    (hag : ∀ q, startsWith q P.output = false → alookup fs q = alookup fs0 q) :
    P.T cfg (alookup fs) p = P.T cfg (alookup fs0) p := by
  apply hWF.depSound cfg (alookup fs0) (alookup fs) p hp
  intro q hq
  left
  cases h : startsWith q P.output with
  | true => rfl
  | false => exact absurd (hag q h).symm hq

theorem pass_inv {P : Params} {init : Fs} {st : State} (hWF : WF P init) (hI : Inv P init st.cfg st)
    (hE : ∀ j it, st.item? j = some it → it.status.isDone = false →
      (P.T st.cfg (alookup st.fs) it.source).out = none → alookup st.fs it.output = none) :
    Inv P init st.cfg (passState P st) ∧ AllDone (passState P st)
    ∧ (∀ q, startsWith q P.output = false → alookup (passState P st).fs q = alookup st.fs q)
    ∧ (∀ j, (passState P st).item? j = (st.item? j).map (advOf P st.cfg st.fs)) := by
  have hsrcs : ∀ it, some it ∈ st.nodes →
      startsWith it.source P.output = false ∧ startsWith it.output P.output = true := by
    intro it hm
    obtain ⟨j, hj⟩ := mem_nodeAt hm
    have hj' : st.item? j = some it := hj
    refine ⟨startsWith_output_of_input hWF (hI.item_src hj').1, ?_⟩
    rw [hI.item_out hj']; exact outPath_startsWith P _
  obtain ⟨h1, h2, h3, h4, h5⟩ := passNodes_spec (P := P) (cfg := st.cfg) (fs0 := st.fs)
    (fun fs it hp hag => depSound_pass hWF st.cfg st.fs fs it.source hp hag)
    st.nodes 0 st.fs st.extDeps 0 (fun _ _ => rfl) hsrcs hI.distinct
  have hitem : ∀ j, (passState P st).item? j = (st.item? j).map (advOf P st.cfg st.fs) := by
    intro j
    show nodeAt (passNodes P st.cfg st.nodes 0 st.fs st.extDeps 0).1 j = _
    rw [h1, nodeAt_map]; rfl
  have hfs : (passState P st).fs = (passNodes P st.cfg st.nodes 0 st.fs st.extDeps 0).2.1 := rfl
  have hext : ∀ d j, (d, j) ∈ (passState P st).extDeps ↔
      (d, j) ∈ st.extDeps ∨ ∃ it, st.item? j = some it ∧ d ∈ (advOf P st.cfg st.fs it).deps := by
    intro d j
    show (d, j) ∈ (passNodes P st.cfg st.nodes 0 st.fs st.extDeps 0).2.2.1 ↔ _
    rw [h5]
    constructor
    · rintro (h | ⟨k, it, hk, hj, hd⟩)
      · exact Or.inl h
      · have : j = k := by omega
        subst this
        exact Or.inr ⟨it, (nodeAt_eq_some_iff _ _ _).2 hk, hd⟩
    · rintro (h | ⟨it, hj, hd⟩)
      · exact Or.inl h
      · exact Or.inr ⟨j, it, (nodeAt_eq_some_iff _ _ _).1 hj, by omega, hd⟩
  -- T seen from the new file system
  have hTnew : ∀ j it, st.item? j = some it →
      P.T st.cfg (alookup (passState P st).fs) it.source = P.T st.cfg (alookup st.fs) it.source := by
    intro j it hj
    exact depSound_pass hWF st.cfg st.fs _ it.source
      (startsWith_output_of_input hWF (hI.item_src hj).1) (by rw [hfs]; exact h2)
  -- the output of an item after the pass
  have hout : ∀ j it, st.item? j = some it →
      alookup (passState P st).fs it.output =
        if it.status.isDone then alookup st.fs it.output
        else (match (tOf P st.cfg st.fs it).out with | some c => some c | none => alookup st.fs it.output) := by
    intro j it hj
    rw [hfs]
    have hother : ∀ it', some it' ∈ st.nodes → it' ≠ it → it'.output ≠ it.output := by
      intro it' hm hne hoo
      obtain ⟨k, hk⟩ := mem_nodeAt hm
      have := hI.outputs_inj (show st.item? k = some it' from hk) hj hoo
      subst this
      rw [show st.item? k = some it' from hk] at hj
      simp at hj; exact hne hj
    by_cases hd : it.status.isDone = true
    · simp only [hd, if_true]
      apply h3
      intro it' hm hnd _
      by_cases heq : it' = it
      · subst heq; rw [hd] at hnd; cases hnd
      · exact hother it' hm heq
    · have hnd : it.status.isDone = false := by simpa using hd
      simp only [hnd, Bool.false_eq_true, if_false]
      cases hc : (tOf P st.cfg st.fs it).out with
      | some c => exact h4 it c (nodeAt_mem hj) hnd hc
      | none =>
        simp only
        apply h3
        intro it' hm _ hsome
        by_cases heq : it' = it
        · subst heq; rw [hc] at hsome; cases hsome
        · exact hother it' hm heq
  refine ⟨?_, ?_, by rw [hfs]; exact h2, hitem⟩
  · constructor
    · exact hI.nm_fun
    · intro p i hp
      obtain ⟨it, g1, g2, g3⟩ := hI.nm_item p i hp
      exact ⟨advOf P st.cfg st.fs it, by rw [hitem, g1]; rfl, by rw [advOf_source]; exact g2,
        by rw [advOf_output]; exact g3⟩
    · intro i it hi
      rw [hitem] at hi
      cases h : st.item? i with
      | none => simp [h] at hi
      | some it0 =>
        simp [h] at hi; subst hi
        rw [advOf_source]; exact hI.item_nm i it0 h
    · intro i hi
      have := hI.free_ok i hi
      refine ⟨?_, by rw [hitem, this.2]; rfl⟩
      show i < (passNodes P st.cfg st.nodes 0 st.fs st.extDeps 0).1.length
      rw [h1]; simpa using this.1
    · exact hI.free_nodup
    · intro p i hp
      obtain ⟨g1, g2, g3⟩ := hI.src_in p i hp
      refine ⟨g1, g2, ?_⟩
      rw [hfs, h2 p (startsWith_output_of_input hWF g1)]; exact g3
    · intro d i hdi
      rw [hext] at hdi
      rcases hdi with h | ⟨it, hj, hd⟩
      · obtain ⟨it, g1, g2⟩ := hI.ext_sub d i h
        exact ⟨advOf P st.cfg st.fs it, by rw [hitem, g1]; rfl, advOf_deps_mono _ _ _ _ _ g2⟩
      · exact ⟨advOf P st.cfg st.fs it, by rw [hitem, hj]; rfl, hd⟩
    · intro i it hi _ d hd
      rw [hitem] at hi
      cases h : st.item? i with
      | none => simp [h] at hi
      | some it0 =>
        simp [h] at hi; subst hi
        rw [hext]; exact Or.inr ⟨it0, h, hd⟩
    · intro i it hi hs
      rw [hitem] at hi
      cases h : st.item? i with
      | none => simp [h] at hi
      | some it0 =>
        simp [h] at hi; subst hi
        have := advOf_done P st.cfg st.fs it0
        rw [hs] at this; cases this
    · intro i it ok hi hs
      rw [hitem] at hi
      cases h : st.item? i with
      | none => simp [h] at hi
      | some it0 =>
        simp [h] at hi; subst hi
        rw [advOf_source, advOf_output, hTnew i it0 h, hout i it0 h]
        by_cases hd : it0.status.isDone = true
        · have hadv : advOf P st.cfg st.fs it0 = it0 := by simp [advOf, hd]
          rw [hadv] at hs ⊢
          simp only [hd, if_true]
          exact hI.done_ok i it0 ok h hs
        · have hnd : it0.status.isDone = false := by simpa using hd
          have hns : it0.status = .notStarted := by
            cases hst : it0.status with
            | notStarted => rfl
            | done b => rw [hst] at hnd; cases hnd
          have hdeps := hI.ns_deps i it0 h hns
          have hadv : advOf P st.cfg st.fs it0 =
              { it0 with status := .done (tOf P st.cfg st.fs it0).out.isSome,
                         deps := it0.deps ++ (tOf P st.cfg st.fs it0).deps } := by
            simp [advOf, hnd]
          rw [hadv] at hs ⊢
          simp only [hnd, Bool.false_eq_true, if_false, hdeps, List.nil_append]
          simp only [Status.done.injEq] at hs
          refine ⟨fun d => Iff.rfl, hs.symm, ?_⟩
          show _ = (tOf P st.cfg st.fs it0).out
          cases hc : (tOf P st.cfg st.fs it0).out with
          | some c => rfl
          | none => exact hE i it0 h hnd hc
    · intro q hq
      by_cases hex : ∃ j it, st.item? j = some it ∧ it.output = q
      · obtain ⟨j, it, g1, g2⟩ := hex
        exact Or.inl ⟨j, advOf P st.cfg st.fs it, by rw [hitem, g1]; rfl, by rw [advOf_output]; exact g2⟩
      · rcases hI.out_other q hq with h | h | h
        · exact absurd h hex
        · exact Or.inr (Or.inl h)
        · right; right
          rw [hfs, h3 q]
          · exact h
          · intro it hm _ _ hoq
            obtain ⟨j, hj⟩ := mem_nodeAt hm
            exact hex ⟨j, it, hj, hoq⟩
    · exact hI.rm_src
    · intro q hq i it hi
      rw [hitem] at hi
      cases h : st.item? i with
      | none => simp [h] at hi
      | some it0 =>
        simp [h] at hi; subst hi
        rw [advOf_output]; exact hI.rm_noitem q hq i it0 h
  · intro j it hj
    rw [hitem] at hj
    cases h : st.item? j with
    | none => simp [h] at hj
    | some it0 => simp [h] at hj; subst hj; exact advOf_done _ _ _ _


/-! ### clean_files and the whole `process` -/

theorem initClean_none {P : Params} {init : Fs} (hWF : WF P init) {p q' : Path}
    (hlua : P.isLua p = true) (hin : startsWith p P.input = true) (hq : startsWith q' (outPath P p) = true) :
    alookup init q' = none := by
  cases h : alookup init q' with
  | none => rfl
  | some c =>
    exfalso
    have hm := alookup_some_mem _ _ _ h
    have hic := hWF.initClean
    unfold InitClean at hic
    rw [List.all_eq_true] at hic
    have := hic (q', c) hm
    simp only [Bool.or_eq_true, Bool.not_eq_true'] at this
    have hqo : startsWith q' P.output = true := by
      simp only [startsWith, List.isPrefixOf_iff_prefix] at hq ⊢
      exact List.IsPrefix.trans (by simp [outPath]) hq
    rcases this with h1 | h1
    · rw [hqo] at h1; cases h1
    · rw [List.all_eq_true] at h1
      simp only [startsWith, List.isPrefixOf_iff_prefix] at hq
      obtain ⟨t, ht⟩ := hq
      have hlen : (outPath P p).length < q'.length + 1 := by rw [← ht]; simp; omega
      have h2 := h1 (outPath P p).length (List.mem_range.2 hlen)
      have htake : q'.take (outPath P p).length = outPath P p := by rw [← ht]; simp
      rw [htake] at h2
      simp only [Bool.or_eq_true, Bool.not_eq_true'] at h2
      rcases h2 with h2 | h2
      · rw [outPath_startsWith] at h2; cases h2
      · have hp : P.input ++ (outPath P p).drop P.output.length = p := by
          simp only [outPath, List.drop_left']
          simp only [startsWith, List.isPrefixOf_iff_prefix] at hin
          obtain ⟨t', ht'⟩ := hin
          rw [← ht']; simp
        rw [hp, hlua] at h2; cases h2

theorem cleanFiles_inv {P : Params} {init : Fs} {last : Cfg} {st : State} (hWF : WF P init)
    (hI : Inv P init last st)
    (hsep : ∀ q, q ∈ st.removeFiles → ∀ j it, st.item? j = some it → startsWith it.output q = false) :
    Inv P init last (cleanFiles st) ∧ (cleanFiles st).removeFiles = []
    ∧ (∀ q, startsWith q P.output = false → alookup (cleanFiles st).fs q = alookup st.fs q)
    ∧ (∀ j, (cleanFiles st).item? j = st.item? j) := by
  have hitem : ∀ j, (cleanFiles st).item? j = st.item? j := fun _ => rfl
  have hfs : (cleanFiles st).fs = st.removeFiles.foldl fsRemove st.fs := rfl
  -- paths that are not at or below a queued output keep their content
  have hkeep : ∀ q', (∀ q, q ∈ st.removeFiles → startsWith q' q = false) →
      alookup (cleanFiles st).fs q' = alookup st.fs q' := by
    intro q' hq'
    rw [hfs]
    rcases foldl_fsRemove_lookup st.removeFiles st.fs q' with h | ⟨_, q, h1, h2⟩
    · exact h
    · rw [hq' q h1] at h2; cases h2
  have hrmout : ∀ q, q ∈ st.removeFiles → startsWith q P.output = true := by
    intro q hq
    obtain ⟨p, _, _, h3⟩ := hI.rm_src q hq
    rw [h3]; exact outPath_startsWith P p
  have hnotout : ∀ q', startsWith q' P.output = false → ∀ q, q ∈ st.removeFiles → startsWith q' q = false := by
    intro q' hq' q hq
    cases h : startsWith q' q with
    | false => rfl
    | true =>
      have h1 := hrmout q hq
      simp only [startsWith, List.isPrefixOf_iff_prefix] at h h1 hq'
      have := List.IsPrefix.trans h1 h
      simp only [← List.isPrefixOf_iff_prefix] at this
      rw [this] at hq'; cases hq'
  refine ⟨?_, rfl, fun q hq => hkeep q (hnotout q hq), hitem⟩
  constructor
  · exact hI.nm_fun
  · exact hI.nm_item
  · exact hI.item_nm
  · exact hI.free_ok
  · exact hI.free_nodup
  · intro p i hp
    obtain ⟨g1, g2, g3⟩ := hI.src_in p i hp
    refine ⟨g1, g2, ?_⟩
    rw [hkeep p (hnotout p (startsWith_output_of_input hWF g1))]; exact g3
  · exact hI.ext_sub
  · exact hI.ext_sup
  · exact hI.ns_deps
  · intro j it ok hj hs
    have hsrc := hI.item_src hj
    have hT : P.T last (alookup (cleanFiles st).fs) it.source = P.T last (alookup st.fs) it.source := by
      apply depSound_pass hWF last st.fs _ it.source (startsWith_output_of_input hWF hsrc.1)
      intro q hq; exact hkeep q (hnotout q hq)
    rw [hT, hkeep it.output (fun q hq => hsep q hq j it hj)]
    exact hI.done_ok j it ok hj hs
  · intro q' hq'
    rcases hI.out_other q' hq' with h | h | h
    · exact Or.inl h
    · right; right
      rw [hfs, foldl_fsRemove_self _ _ _ h]
      obtain ⟨p, g1, g2, g3⟩ := hI.rm_src q' h
      rw [initClean_none hWF g1 g2 (by rw [g3]; simp [startsWith])]
    · right; right
      rcases foldl_fsRemove_lookup st.removeFiles st.fs q' with g | ⟨g1, q, g2, g3⟩
      · rw [hfs, g, h]
      · rw [hfs, g1]
        obtain ⟨p, k1, k2, k3⟩ := hI.rm_src q g2
        rw [initClean_none hWF k1 k2 (by rw [← k3]; exact g3)]
  · intro q hq; cases hq
  · intro q hq; cases hq


/-- what holds right after a `process` that stayed inside `H10` -/
structure Settled (P : Params) (init : Fs) (st : State) : Prop where
  inv : Inv P init st.cfg st
  synced : Synced P st
  allDone : AllDone st
  noRemove : st.removeFiles = []
  created : st.hasCreated = false
  hash : st.lastHash = some (P.configHash st.cfg)

theorem strictlyUnder_false_of {q p : Path} (h : strictlyUnder q p = false) (hne : q ≠ p) :
    startsWith q p = false := by
  unfold strictlyUnder at h
  simp only [Bool.and_eq_false_iff, bne_eq_false_iff_eq] at h
  rcases h with h | h
  · exact absurd h hne
  · exact h

theorem any_false_item {st : State} {f : Option Item → Bool} (h : st.nodes.any f = false)
    {j : Nat} {it : Item} (hj : st.item? j = some it) : f (some it) = false := by
  rw [List.any_eq_false] at h
  have := h (some it) (nodeAt_mem hj)
  simpa using this

/-- `process` from a state satisfying the invariant (after `collect_work` when needed), outside
the excluded regions: no panic, no hang, and the result is settled. -/
theorem processTree_settled {P : Params} {init : Fs} {last : Cfg} {st : State} (hWF : WF P init)
    (hI : Inv P init last st) (hS : Synced P st) (hc : st.hasCreated = false)
    (hh : st.lastHash = some (P.configHash last) ∨ (st.lastHash = none ∧ last = st.cfg))
    (hF13 : ¬ (st.lastHash = some (P.configHash st.cfg) ∧ st.cfg ≠ last))
    (hunder : ∀ q, q ∈ (configStep P st).removeFiles →
      ∀ j it, (configStep P st).item? j = some it → strictlyUnder it.output q = false)
    (hE : ∀ j it, (configStep P st).item? j = some it →
      it.status.isDone = false →
      (P.T (configStep P st).cfg (alookup (configStep P st).fs) it.source).out = none →
      alookup (configStep P st).fs it.output = none) :
    ∃ st', processTree P 1 st = .ok st' ∧ Settled P init st' ∧ st'.cfg = st.cfg := by
  obtain ⟨h1, h2, h3, h4, h5, h6, h7⟩ := configStep_inv hI hh hF13
  have hS1 : Synced P (configStep P st) := by
    intro p hp hin hlua
    rw [h2] at hp; rw [h3]; exact hS p hp hin hlua
  have hsep : ∀ q, q ∈ (configStep P st).removeFiles →
      ∀ j it, (configStep P st).item? j = some it → startsWith it.output q = false :=
    fun q hq j it hj => strictlyUnder_false_of (hunder q hq j it hj) (h1.rm_noitem q hq j it hj)
  unfold processTree
  simp only
  by_cases ht : notDoneCount (configStep P st).nodes = 0
  · simp only [ht, if_true]
    have hIc : Inv P init (configStep P st).cfg (configStep P st) := by rw [h5]; exact h1
    obtain ⟨k1, k2, k3, k4⟩ := cleanFiles_inv hWF hIc hsep
    refine ⟨cleanFiles (configStep P st), rfl, ⟨k1, ?_, ?_, k2, ?_, ?_⟩, h5⟩
    · intro p hp hin hlua
      rw [k3 p (startsWith_output_of_input hWF hin)] at hp
      exact hS1 p hp hin hlua
    · intro j it hj; rw [k4] at hj; exact notDoneCount_zero ht j it hj
    · show (configStep P st).hasCreated = false
      rw [h6]; exact hc
    · show (configStep P st).lastHash = some (P.configHash (configStep P st).cfg)
      rw [h7, h5]
  · simp only [ht, if_false]
    have hloop : workLoop P (notDoneCount (configStep P st).nodes) 1 0 (configStep P st)
        = .finished (passState P (configStep P st)) := by
      simp only [workLoop]
      rw [passNodes_doneCount]
      simp [passState]
    rw [hloop]
    simp only
    have hIc : Inv P init (configStep P st).cfg (configStep P st) := by rw [h5]; exact h1
    obtain ⟨g1, g2, g3, g4⟩ := pass_inv hWF hIc hE
    have hsep2 : ∀ q, q ∈ (passState P (configStep P st)).removeFiles → ∀ j it,
        (passState P (configStep P st)).item? j = some it → startsWith it.output q = false := by
      intro q hq j it hj
      rw [g4] at hj
      cases hcs : (configStep P st).item? j with
      | none => simp [hcs] at hj
      | some it0 =>
        simp [hcs] at hj; subst hj
        rw [advOf_output]
        exact hsep q hq j it0 hcs
    obtain ⟨k1, k2, k3, k4⟩ := cleanFiles_inv hWF g1 hsep2
    refine ⟨cleanFiles (passState P (configStep P st)), rfl, ⟨?_, ?_, ?_, k2, ?_, ?_⟩, ?_⟩
    · exact k1
    · intro p hp hin hlua
      have hpo := startsWith_output_of_input hWF hin
      rw [k3 p hpo, g3 p hpo] at hp
      exact hS1 p hp hin hlua
    · intro j it hj; rw [k4] at hj; exact g2 j it hj
    · show (configStep P st).hasCreated = false
      rw [h6]; exact hc
    · show (configStep P st).lastHash = some (P.configHash (configStep P st).cfg)
      rw [h7, h5]
    · exact h5

/-! ### a settled state shows exactly the outputs of a from-scratch run -/

theorem alookup_append {β : Type} (a b : List (Path × β)) (q : Path) :
    alookup (a ++ b) q = match alookup a q with | some v => some v | none => alookup b q := by
  induction a with
  | nil => simp [alookup]
  | cons e r ih =>
    obtain ⟨k, v⟩ := e
    simp only [List.cons_append, alookup]
    split
    · rfl
    · exact ih

theorem alookup_filter {β : Type} (m : List (Path × β)) (f : Path → Bool) (q : Path) :
    alookup (m.filter fun e => f e.1) q = if f q then alookup m q else none := by
  have := alookup_filter_not m (fun p => !(f p)) q
  simp only [Bool.not_not] at this
  rw [this]
  cases f q <;> simp

theorem alookup_freshFs (P : Params) (init final : Fs) (q : Path) :
    alookup (freshFs P init final) q = if startsWith q P.output then alookup init q else alookup final q := by
  unfold freshFs
  rw [alookup_append, alookup_filter_not final (fun p => startsWith p P.output),
    alookup_filter init (fun p => startsWith p P.output)]
  cases h : startsWith q P.output with
  | true => simp
  | false =>
    simp only [Bool.false_eq_true, if_false]
    cases alookup final q <;> rfl

theorem settled_final {P : Params} {init : Fs} {st : State} (hWF : WF P init) (hS : Settled P init st) :
    ∀ q, startsWith q P.output = true → alookup st.fs q = freshOut P st.cfg init st.fs q := by
  intro q hq
  have hI := hS.inv
  -- T on the from-scratch file system = T on the worker's file system
  have hT : ∀ p, startsWith p P.input = true →
      P.T st.cfg (alookup (freshFs P init st.fs)) p = P.T st.cfg (alookup st.fs) p := by
    intro p hp
    apply depSound_pass hWF st.cfg st.fs _ p (startsWith_output_of_input hWF hp)
    intro q' hq'
    rw [alookup_freshFs, hq']; rfl
  have hsrc : ∀ p, p ∈ sourcesOf P (freshFs P init st.fs) ↔ p ∈ sourcesOf P st.fs := by
    intro p
    rw [mem_sourcesOf, mem_sourcesOf, alookup_freshFs]
    constructor
    · rintro ⟨h1, h2, h3⟩
      rw [startsWith_output_of_input hWF h2] at h1
      exact ⟨h1, h2, h3⟩
    · rintro ⟨h1, h2, h3⟩
      rw [startsWith_output_of_input hWF h2]
      exact ⟨h1, h2, h3⟩
  unfold freshOut
  simp only
  rw [alookup_freshFs, hq]
  simp only [if_true]
  cases hf : (sourcesOf P (freshFs P init st.fs)).find? (fun p => outPath P p == q) with
  | some p =>
    simp only
    have hpm := List.mem_of_find?_eq_some hf
    have hpq : outPath P p = q := by
      have := List.find?_some hf
      simpa using this
    rw [hsrc, mem_sourcesOf] at hpm
    obtain ⟨i, hi⟩ := hS.synced p hpm.1 hpm.2.1 hpm.2.2
    obtain ⟨it, g1, g2, g3⟩ := hI.nm_item p i hi
    have hd := hS.allDone i it g1
    cases hst : it.status with
    | notStarted => rw [hst] at hd; cases hd
    | done ok =>
      obtain ⟨_, k2, k3⟩ := hI.done_ok i it ok g1 hst
      rw [g2] at k3 k2
      rw [g3, hpq] at k3
      rw [hT p hpm.2.1, k3]
      cases hout : (P.T st.cfg (alookup st.fs) p).out with
      | some c => rfl
      | none =>
        simp only
        rw [initClean_none hWF hpm.2.2 hpm.2.1 (by rw [hpq]; simp [startsWith])]
  | none =>
    simp only
    rcases hI.out_other q hq with ⟨j, it, g1, g2⟩ | h | h
    · exfalso
      have hsrcit := hI.item_src g1
      have hm : it.source ∈ sourcesOf P (freshFs P init st.fs) := by
        rw [hsrc, mem_sourcesOf]; exact ⟨hsrcit.2.2, hsrcit.1, hsrcit.2.1⟩
      have := List.find?_eq_none.1 hf it.source hm
      rw [← hI.item_out g1, g2] at this
      simp at this
    · rw [hS.noRemove] at h; cases h
    · exact h


/-! ### remove_source -/

theorem removeNode_withFs (st : State) (f : Fs) (i : Nat) :
    removeNode (withFs st f) i = ((withFs (removeNode st i).1 f), (removeNode st i).2) := by
  unfold removeNode
  have : (withFs st f).item? i = st.item? i := rfl
  rw [this]
  cases st.item? i <;> rfl

theorem removeNodes_withFs (f : Fs) (is : List Nat) : ∀ (st : State),
    removeNodes (withFs st f) is = (removeNodes st is).map (withFs · f) := by
  induction is with
  | nil => intro st; rfl
  | cons i is ih =>
    intro st
    simp only [removeNodes]
    have hi : (withFs st f).item? i = st.item? i := rfl
    rw [hi]
    cases st.item? i with
    | none => exact ih st
    | some it =>
      simp only
      rw [restartWork_withFs]
      cases restartWork st i with
      | none => rfl
      | some st1 =>
        simp only [Option.map, removeNode_withFs]
        exact ih { (removeNode st1 i).1 with removeFiles := st1.removeFiles ++ [it.output] }

theorem updateExtAll_withFs (f : Fs) (ds : List Path) : ∀ (st : State),
    updateExternalDependenciesAll (withFs st f) ds = (updateExternalDependenciesAll st ds).map (withFs · f) := by
  induction ds with
  | nil => intro st; rfl
  | cons d ds ih =>
    intro st
    simp only [updateExternalDependenciesAll, updateExt_withFs]
    cases updateExternalDependencies st d with
    | none => rfl
    | some st1 => simp only [Option.map]; exact ih st1

/-- the two branches of `remove_source`, before the dependants are restarted -/
def removeFileBranch (st : State) (p : Path) (i : Nat) (it : Item) : Option State :=
  match restartWork { st with removeFiles := st.removeFiles ++ [it.output] } i with
  | some st2 => some { (removeNode st2 i).1 with nodeMap := aerase (removeNode st2 i).1.nodeMap p }
  | none => none

def removeDirBranch (st : State) (p : Path) : Option State :=
  removeNodes { st with nodeMap := st.nodeMap.filter fun e => !(startsWith e.1 p) }
    ((st.nodeMap.filter fun e => startsWith e.1 p).map (·.2))

def removeBranches (st : State) (p : Path) : Option State :=
  match alookup st.nodeMap p with
  | some i =>
    match st.item? i with
    | some it => removeFileBranch st p i it
    | none => none
  | none => removeDirBranch st p

/-- the keys of `external_dependencies` at or below `p` -/
def keysBelow (st : State) (p : Path) : List Path := (st.extDeps.map (·.1)).filter fun d => startsWith d p

theorem removeSource_eq (st : State) (p : Path) :
    removeSource st p = match removeBranches st p with
      | some st' => updateExternalDependenciesAll st' (keysBelow st' p)
      | none => none := by
  unfold removeSource removeBranches removeFileBranch removeDirBranch keysBelow
  cases alookup st.nodeMap p with
  | some i =>
    simp only
    cases st.item? i with
    | none => rfl
    | some it =>
      simp only
      cases restartWork { st with removeFiles := st.removeFiles ++ [it.output] } i <;> rfl
  | none => rfl

theorem removeFileBranch_withFs (st : State) (f : Fs) (p : Path) (i : Nat) (it : Item) :
    removeFileBranch (withFs st f) p i it = (removeFileBranch st p i it).map (withFs · f) := by
  unfold removeFileBranch
  have heq : ({ withFs st f with removeFiles := (withFs st f).removeFiles ++ [it.output] } : State)
      = withFs { st with removeFiles := st.removeFiles ++ [it.output] } f := rfl
  rw [heq, restartWork_withFs]
  cases restartWork { st with removeFiles := st.removeFiles ++ [it.output] } i with
  | none => rfl
  | some st2 =>
    simp only [Option.map, removeNode_withFs]
    rfl

theorem removeDirBranch_withFs (st : State) (f : Fs) (p : Path) :
    removeDirBranch (withFs st f) p = (removeDirBranch st p).map (withFs · f) := by
  unfold removeDirBranch
  have heq : ({ withFs st f with nodeMap := (withFs st f).nodeMap.filter fun e => !(startsWith e.1 p) } : State)
      = withFs { st with nodeMap := st.nodeMap.filter fun e => !(startsWith e.1 p) } f := rfl
  rw [heq, removeNodes_withFs]
  rfl

theorem removeBranches_withFs (st : State) (f : Fs) (p : Path) :
    removeBranches (withFs st f) p = (removeBranches st p).map (withFs · f) := by
  unfold removeBranches
  have h1 : (withFs st f).nodeMap = st.nodeMap := rfl
  have h2 : ∀ i, (withFs st f).item? i = st.item? i := fun _ => rfl
  rw [h1]
  cases alookup st.nodeMap p with
  | some i =>
    simp only [h2]
    cases st.item? i with
    | none => rfl
    | some it => exact removeFileBranch_withFs st f p i it
  | none => exact removeDirBranch_withFs st f p

theorem removeSource_withFs (st : State) (f : Fs) (p : Path) :
    removeSource (withFs st f) p = (removeSource st p).map (withFs · f) := by
  rw [removeSource_eq, removeSource_eq, removeBranches_withFs]
  cases removeBranches st p with
  | none => rfl
  | some st' =>
    simp only [Option.map]
    have : keysBelow (withFs st' f) p = keysBelow st' p := rfl
    rw [this]
    exact updateExtAll_withFs f _ st'

/-- effect of `removeNodes` (the directory branch's loop over the collected indices) -/
theorem removeNodes_spec (is : List Nat) : ∀ (st : State),
    (∀ k, k ∈ st.free → st.item? k = none) → st.free.Nodup →
    ∃ st', removeNodes st is = some st'
    ∧ (∀ j, st'.item? j = if j ∈ is then none else st.item? j)
    ∧ (∀ k, k ∈ st'.free ↔ k ∈ st.free ∨ (k ∈ is ∧ (st.item? k).isSome = true))
    ∧ st'.free.Nodup ∧ st'.nodes.length = st.nodes.length
    ∧ (∀ q, q ∈ st'.removeFiles ↔ q ∈ st.removeFiles ∨ ∃ k it, k ∈ is ∧ st.item? k = some it ∧ it.output = q)
    ∧ st'.fs = st.fs
    ∧ (∀ d k, (d, k) ∈ st'.extDeps ↔
        (d, k) ∈ st.extDeps ∧ ¬ (k ∈ is ∧ ∃ it, st.item? k = some it ∧ d ∈ it.deps))
    ∧ st'.nodeMap = st.nodeMap ∧ st'.cfg = st.cfg
    ∧ st'.hasCreated = st.hasCreated ∧ st'.lastHash = st.lastHash := by
  induction is with
  | nil => intro st _ hnd; exact ⟨st, rfl, by simp, by simp, hnd, rfl, by simp, rfl, by simp, rfl, rfl, rfl, rfl⟩
  | cons i is ih =>
    intro st hfree hnd
    cases hit : st.item? i with
    | none =>
      obtain ⟨st', h0, h1, h2, h3, h4, h5, h6, h7, h8⟩ := ih st hfree hnd
      refine ⟨st', by simp only [removeNodes, hit]; exact h0, ?_, ?_, h3, h4, ?_, h6, ?_, h8⟩
      · intro j; rw [h1]
        by_cases hj : j = i
        · subst hj; simp [hit]
        · simp [hj]
      · intro k; rw [h2]
        constructor
        · rintro (h | ⟨ha, hb⟩)
          · exact Or.inl h
          · exact Or.inr ⟨by simp [ha], hb⟩
        · rintro (h | ⟨ha, hb⟩)
          · exact Or.inl h
          · simp only [List.mem_cons] at ha
            rcases ha with ha | ha
            · subst ha; simp [hit] at hb
            · exact Or.inr ⟨ha, hb⟩
      · intro q; rw [h5]
        constructor
        · rintro (h | ⟨k, it, ha, hb, hc⟩)
          · exact Or.inl h
          · exact Or.inr ⟨k, it, by simp [ha], hb, hc⟩
        · rintro (h | ⟨k, it, ha, hb, hc⟩)
          · exact Or.inl h
          · simp only [List.mem_cons] at ha
            rcases ha with ha | ha
            · subst ha; rw [hit] at hb; cases hb
            · exact Or.inr ⟨k, it, ha, hb, hc⟩
      · intro d k; rw [h7]
        simp only [List.mem_cons]
        constructor
        · rintro ⟨g1, g2⟩
          refine ⟨g1, ?_⟩
          rintro ⟨hk | hk, it, g3, g4⟩
          · subst hk; rw [hit] at g3; cases g3
          · exact g2 ⟨hk, it, g3, g4⟩
        · rintro ⟨g1, g2⟩
          exact ⟨g1, fun ⟨hk, it, g3, g4⟩ => g2 ⟨Or.inr hk, it, g3, g4⟩⟩
    | some it =>
      have hlt : i < st.nodes.length := nodeAt_lt hit
      let st1 : State := { st with nodes := (st.nodes.set i (some it.reset)).set i none, free := i :: st.free,
                                   extDeps := unlinkAll st.extDeps i it.deps,
                                   removeFiles := st.removeFiles ++ [it.output] }
      have hstep : removeNodes st (i :: is) = removeNodes st1 is := by
        have hitB : (restartedState st i it).item? i = some it.reset := by
          simp only [item?_eq, restartedState, nodeAt_set, hlt, if_true]
        simp only [removeNodes, hit, restartWork_spec hit, removeNode, hitB]
        rfl
      rw [hstep]
      have hitem1 : ∀ j, st1.item? j = if j = i then none else st.item? j := by
        intro j
        simp only [item?_eq, st1, nodeAt_set, List.length_set, hlt, if_true]
        by_cases hj : j = i <;> simp [hj]
      have hinot : i ∉ st.free := by
        intro h; have := hfree i h; rw [hit] at this; cases this
      have hfree1 : ∀ k, k ∈ st1.free → st1.item? k = none := by
        intro k hk
        rw [hitem1]
        by_cases hki : k = i
        · simp [hki]
        · simp only [hki, if_false]
          have : k ∈ i :: st.free := hk
          simp only [List.mem_cons, hki, false_or] at this
          exact hfree k this
      have hnd1 : st1.free.Nodup := List.nodup_cons.2 ⟨hinot, hnd⟩
      obtain ⟨st', h0, h1, h2, h3, h4, h5, h6, h7, h8, h9, h10, h11⟩ := ih st1 hfree1 hnd1
      refine ⟨st', h0, ?_, ?_, h3, by rw [h4]; simp [st1], ?_, h6, ?_, h8, h9, h10, h11⟩
      · intro j; rw [h1, hitem1]
        by_cases hj : j = i
        · subst hj; simp
        · simp [hj]
      · intro k; rw [h2, hitem1]
        show k ∈ i :: st.free ∨ _ ↔ _
        simp only [List.mem_cons]
        by_cases hki : k = i
        · subst hki; simp [hit]
        · simp [hki]
      · intro q; rw [h5]
        show q ∈ st.removeFiles ++ [it.output] ∨ _ ↔ _
        simp only [List.mem_append, List.mem_cons]
        constructor
        · rintro ((h | h) | ⟨k, it', ha, hb, hc⟩)
          · exact Or.inl h
          · have h' : q = it.output := by simpa using h
            exact Or.inr ⟨i, it, Or.inl rfl, hit, h'.symm⟩
          · rw [hitem1] at hb
            by_cases hki : k = i
            · simp [hki] at hb
            · simp only [hki, if_false] at hb
              exact Or.inr ⟨k, it', Or.inr ha, hb, hc⟩
        · rintro (h | ⟨k, it', ha, hb, hc⟩)
          · exact Or.inl (Or.inl h)
          · by_cases hki : k = i
            · subst hki; rw [hit] at hb; simp at hb; subst hb
              exact Or.inl (Or.inr (by simp [hc.symm]))
            · rcases ha with ha | ha
              · exact absurd ha hki
              · exact Or.inr ⟨k, it', ha, by rw [hitem1]; simp [hki, hb], hc⟩
      · intro d k; rw [h7]
        show (d, k) ∈ unlinkAll st.extDeps i it.deps ∧ _ ↔ _
        rw [mem_unlinkAll]
        have hk1 := hitem1 k
        by_cases hki : k = i
        · subst hki
          have hk2 : st1.item? k = none := by rw [hk1]; simp
          constructor
          · rintro ⟨⟨g1, g2⟩, _⟩
            refine ⟨g1, ?_⟩
            rintro ⟨_, it', g3, g4⟩
            rw [hit] at g3; simp at g3; subst g3
            exact g2 ⟨rfl, g4⟩
          · rintro ⟨g1, g2⟩
            refine ⟨⟨g1, fun g3 => g2 ⟨List.mem_cons_self, it, hit, g3.2⟩⟩, ?_⟩
            rintro ⟨_, it', g3, _⟩
            rw [hk2] at g3; cases g3
        · have hk2 : st1.item? k = st.item? k := by rw [hk1]; simp [hki]
          rw [hk2]
          constructor
          · rintro ⟨⟨g1, _⟩, g2⟩
            refine ⟨g1, ?_⟩
            rintro ⟨hk, it', g3, g4⟩
            simp only [List.mem_cons] at hk
            rcases hk with hk | hk
            · exact hki hk
            · exact g2 ⟨hk, it', g3, g4⟩
          · rintro ⟨g1, g2⟩
            exact ⟨⟨g1, fun g3 => hki g3.1⟩, fun ⟨hk, it', g3, g4⟩ => g2 ⟨List.mem_cons_of_mem _ hk, it', g3, g4⟩⟩

/-- vacating a set `R` of slots that nothing links to keeps the invariant (same file system) -/
theorem vacate_inv {P : Params} {init : Fs} {last : Cfg} {st st' : State} (R : Nat → Prop)
    (hI : Inv P init last st)
    (hR : ∀ j, R j → st'.item? j = none) (hnR : ∀ j, ¬ R j → st'.item? j = st.item? j)
    (hmap : ∀ e, e ∈ st'.nodeMap ↔ e ∈ st.nodeMap ∧ ¬ R e.2)
    (hfree : ∀ k, k ∈ st'.free ↔ k ∈ st.free ∨ (R k ∧ (st.item? k).isSome = true))
    (hnd : st'.free.Nodup) (hlen : st'.nodes.length = st.nodes.length)
    (hrm : ∀ q, q ∈ st'.removeFiles ↔ q ∈ st.removeFiles ∨ ∃ k it, R k ∧ st.item? k = some it ∧ it.output = q)
    (hfs : st'.fs = st.fs)
    (hext : ∀ d k, (d, k) ∈ st'.extDeps ↔ (d, k) ∈ st.extDeps ∧ ¬ R k) :
    Inv P init last st' := by
  constructor
  · intro p i j hi hj
    exact hI.nm_fun p i j ((hmap _).1 hi).1 ((hmap _).1 hj).1
  · intro p i hp
    obtain ⟨h1, h2⟩ := (hmap _).1 hp
    obtain ⟨it, g1, g2, g3⟩ := hI.nm_item p i h1
    exact ⟨it, by rw [hnR i h2]; exact g1, g2, g3⟩
  · intro i it hi
    by_cases hr : R i
    · rw [hR i hr] at hi; cases hi
    · rw [hnR i hr] at hi
      exact (hmap _).2 ⟨hI.item_nm i it hi, hr⟩
  · intro k hk
    rcases (hfree k).1 hk with h | ⟨h1, h2⟩
    · have := hI.free_ok k h
      refine ⟨by rw [hlen]; exact this.1, ?_⟩
      by_cases hr : R k
      · exact hR k hr
      · rw [hnR k hr]; exact this.2
    · refine ⟨?_, hR k h1⟩
      cases h : st.item? k with
      | none => simp [h] at h2
      | some it => rw [hlen]; exact nodeAt_lt h
  · exact hnd
  · intro p i hp
    rw [hfs]; exact hI.src_in p i ((hmap _).1 hp).1
  · intro d i hdi
    rw [hext] at hdi
    obtain ⟨it, g1, g2⟩ := hI.ext_sub d i hdi.1
    exact ⟨it, by rw [hnR i hdi.2]; exact g1, g2⟩
  · intro i it hi hd d hdm
    by_cases hr : R i
    · rw [hR i hr] at hi; cases hi
    · rw [hnR i hr] at hi; rw [hext]; exact ⟨hI.ext_sup i it hi hd d hdm, hr⟩
  · intro i it hi hs
    by_cases hr : R i
    · rw [hR i hr] at hi; cases hi
    · rw [hnR i hr] at hi; exact hI.ns_deps i it hi hs
  · intro i it ok hi hs
    by_cases hr : R i
    · rw [hR i hr] at hi; cases hi
    · rw [hnR i hr] at hi; rw [hfs]; exact hI.done_ok i it ok hi hs
  · intro q hq
    rcases hI.out_other q hq with ⟨k, it, g1, g2⟩ | h | h
    · by_cases hr : R k
      · exact Or.inr (Or.inl ((hrm q).2 (Or.inr ⟨k, it, hr, g1, g2⟩)))
      · exact Or.inl ⟨k, it, by rw [hnR k hr]; exact g1, g2⟩
    · exact Or.inr (Or.inl ((hrm q).2 (Or.inl h)))
    · right; right; rw [hfs]; exact h
  · intro q hq
    rcases (hrm q).1 hq with h | ⟨k, it, _, g1, g2⟩
    · exact hI.rm_src q h
    · have := hI.item_src g1
      exact ⟨it.source, this.2.1, this.1, by rw [← g2]; exact hI.item_out g1⟩
  · intro q hq j it hj
    by_cases hr : R j
    · rw [hR j hr] at hj; cases hj
    · rw [hnR j hr] at hj
      rcases (hrm q).1 hq with h | ⟨k, it', g0, g1, g2⟩
      · exact hI.rm_noitem q h j it hj
      · intro hout
        have := hI.outputs_inj hj g1 (hout.trans g2.symm)
        subst this
        exact hr g0

theorem mem_aerase {β : Type} (m : List (Path × β)) (k : Path) (e : Path × β) :
    e ∈ aerase m k ↔ e ∈ m ∧ e.1 ≠ k := by
  simp [aerase]

/-- closed form of the file branch's result -/
def fileBranchState (st : State) (p : Path) (i : Nat) (it : Item) : State :=
  { st with nodes := (st.nodes.set i (some it.reset)).set i none, free := i :: st.free,
            nodeMap := aerase st.nodeMap p, extDeps := unlinkAll st.extDeps i it.deps,
            removeFiles := st.removeFiles ++ [it.output] }

theorem removeFileBranch_eq {st : State} {p : Path} {i : Nat} {it : Item} (hit : st.item? i = some it) :
    removeFileBranch st p i it = some (fileBranchState st p i it) := by
  have hlt : i < st.nodes.length := nodeAt_lt hit
  have hitA : State.item? { st with removeFiles := st.removeFiles ++ [it.output] } i = some it := hit
  unfold removeFileBranch
  rw [restartWork_spec hitA]
  simp only
  have hitB : (restartedState { st with removeFiles := st.removeFiles ++ [it.output] } i it).item? i
      = some it.reset := by
    simp only [item?_eq, restartedState, nodeAt_set, hlt, if_true]
  simp only [removeNode, hitB]
  rfl

/-- the file branch of `remove_source` -/
theorem removeFileBranch_inv {P : Params} {init : Fs} {last : Cfg} {st : State} {p : Path} {i : Nat} {it : Item}
    (hI : Inv P init last st) (hl : alookup st.nodeMap p = some i) (hit : st.item? i = some it) :
    ∃ st', removeFileBranch st p i it = some st' ∧ Inv P init last st' ∧ st'.fs = st.fs ∧ st'.cfg = st.cfg
      ∧ st'.hasCreated = st.hasCreated ∧ st'.lastHash = st.lastHash
      ∧ (∀ e, e ∈ st'.nodeMap ↔ e ∈ st.nodeMap ∧ e.1 ≠ p)
      ∧ (∀ j it', st'.item? j = some it' → st.item? j = some it')
      ∧ (∀ d k, (d, k) ∈ st'.extDeps → (d, k) ∈ st.extDeps) := by
  have hmem := alookup_some_mem _ _ _ hl
  have hsrc : it.source = p := by
    obtain ⟨it', g1, g2, _⟩ := hI.nm_item p i hmem
    rw [hit] at g1; simp at g1; subst g1; exact g2
  have hlt : i < st.nodes.length := nodeAt_lt hit
  have hCitem : ∀ j, (fileBranchState st p i it).item? j = if j = i then none else st.item? j := by
    intro j
    simp only [item?_eq, fileBranchState, nodeAt_set, List.length_set, hlt, if_true]
    by_cases hj : j = i <;> simp [hj]
  have hCext : ∀ d k, (d, k) ∈ (fileBranchState st p i it).extDeps ↔ (d, k) ∈ st.extDeps ∧ k ≠ i := by
    intro d k
    show (d, k) ∈ unlinkAll st.extDeps i it.deps ↔ _
    rw [mem_unlinkAll]
    constructor
    · rintro ⟨h1, h2⟩
      refine ⟨h1, ?_⟩
      intro hki; subst hki
      obtain ⟨it', g1, g2⟩ := hI.ext_sub d k h1
      rw [hit] at g1; simp at g1; subst g1
      exact h2 ⟨rfl, g2⟩
    · rintro ⟨h1, h2⟩; exact ⟨h1, fun h3 => h2 h3.1⟩
  have hinot : i ∉ st.free := by
    intro h; have := (hI.free_ok i h).2; rw [hit] at this; cases this
  have hIC : Inv P init last (fileBranchState st p i it) := by
    apply vacate_inv (fun k => k = i) hI
    · intro j hj; rw [hCitem]; simp [hj]
    · intro j hj; rw [hCitem]; simp [hj]
    · intro e
      show e ∈ aerase st.nodeMap p ↔ _
      rw [mem_aerase]
      constructor
      · rintro ⟨h1, h2⟩
        refine ⟨h1, ?_⟩
        intro h3
        obtain ⟨it', g1, g2, _⟩ := hI.nm_item e.1 e.2 h1
        rw [h3, hit] at g1; simp at g1; subst g1
        exact h2 (g2.symm.trans hsrc)
      · rintro ⟨h1, h2⟩
        refine ⟨h1, ?_⟩
        intro h3
        have : (p, e.2) ∈ st.nodeMap := by rw [← h3]; exact h1
        exact h2 (hI.nm_fun p e.2 i this hmem)
    · intro k
      show k ∈ i :: st.free ↔ _
      simp only [List.mem_cons]
      constructor
      · rintro (h | h)
        · exact Or.inr ⟨h, by rw [h, hit]; rfl⟩
        · exact Or.inl h
      · rintro (h | ⟨h, _⟩)
        · exact Or.inr h
        · exact Or.inl h
    · exact List.nodup_cons.2 ⟨hinot, hI.free_nodup⟩
    · simp [fileBranchState]
    · intro q
      show q ∈ st.removeFiles ++ [it.output] ↔ _
      simp only [List.mem_append, List.mem_cons, List.not_mem_nil, or_false]
      constructor
      · rintro (h | h)
        · exact Or.inl h
        · exact Or.inr ⟨i, it, rfl, hit, h.symm⟩
      · rintro (h | ⟨k, it', h1, h2, h3⟩)
        · exact Or.inl h
        · subst h1; rw [hit] at h2; simp at h2; subst h2; exact Or.inr h3.symm
    · rfl
    · intro d k; exact hCext d k
  refine ⟨_, removeFileBranch_eq hit, hIC, rfl, rfl, rfl, rfl, ?_, ?_, ?_⟩
  · intro e
    show e ∈ aerase st.nodeMap p ↔ _
    rw [mem_aerase]
  · intro j it' hj
    rw [hCitem] at hj
    by_cases hji : j = i
    · simp [hji] at hj
    · simpa [hji] using hj
  · intro d k h; exact ((hCext d k).1 h).1


/-- the directory branch of `remove_source` (fixed: the removed items are unregistered first) -/
theorem removeDirBranch_inv {P : Params} {init : Fs} {last : Cfg} {st : State} {p : Path}
    (hI : Inv P init last st) :
    ∃ stC, removeDirBranch st p = some stC ∧ Inv P init last stC ∧ stC.fs = st.fs
      ∧ stC.cfg = st.cfg ∧ stC.hasCreated = st.hasCreated ∧ stC.lastHash = st.lastHash
      ∧ (∀ e, e ∈ stC.nodeMap ↔ e ∈ st.nodeMap ∧ startsWith e.1 p = false)
      ∧ (∀ j it', stC.item? j = some it' → st.item? j = some it')
      ∧ (∀ d k, (d, k) ∈ stC.extDeps → (d, k) ∈ st.extDeps) := by
  let removed := (st.nodeMap.filter fun e => startsWith e.1 p).map (·.2)
  let st1 : State := { st with nodeMap := st.nodeMap.filter fun e => !(startsWith e.1 p) }
  have hfree1 : ∀ k, k ∈ st1.free → st1.item? k = none := fun k hk => (hI.free_ok k hk).2
  obtain ⟨stC, h0, h1, h2, h3, h4, h5, h6, h7, h8, h9, h10, h11⟩ :=
    removeNodes_spec removed st1 hfree1 hI.free_nodup
  have hres : removeDirBranch st p = some stC := h0
  have hmemR : ∀ k, k ∈ removed ↔ ∃ q, (q, k) ∈ st.nodeMap ∧ startsWith q p = true := by
    intro k
    simp only [removed, List.mem_map, List.mem_filter]
    constructor
    · rintro ⟨⟨a, b⟩, ⟨g1, g2⟩, g3⟩
      simp at g3; subst g3; exact ⟨a, g1, g2⟩
    · rintro ⟨q, g1, g2⟩; exact ⟨(q, k), ⟨g1, g2⟩, rfl⟩
  have hmapiff : ∀ e, e ∈ stC.nodeMap ↔ e ∈ st.nodeMap ∧ startsWith e.1 p = false := by
    intro e
    rw [h8]
    show e ∈ st.nodeMap.filter (fun e => !(startsWith e.1 p)) ↔ _
    simp [List.mem_filter]
  have hsameKey : ∀ e, e ∈ st.nodeMap → (e.2 ∈ removed ↔ startsWith e.1 p = true) := by
    intro e he
    rw [hmemR]
    constructor
    · rintro ⟨q, g1, g2⟩
      obtain ⟨it1, a1, a2, _⟩ := hI.nm_item q e.2 g1
      obtain ⟨it2, b1, b2, _⟩ := hI.nm_item e.1 e.2 he
      rw [a1] at b1; simp at b1; subst b1
      rw [← b2, a2]; exact g2
    · intro h; exact ⟨e.1, he, h⟩
  have hextiff : ∀ d k, (d, k) ∈ stC.extDeps ↔ (d, k) ∈ st.extDeps ∧ ¬ k ∈ removed := by
    intro d k
    rw [h7]
    show (d, k) ∈ st.extDeps ∧ _ ↔ _
    constructor
    · rintro ⟨g1, g2⟩
      refine ⟨g1, ?_⟩
      intro hk
      obtain ⟨it, g3, g4⟩ := hI.ext_sub d k g1
      exact g2 ⟨hk, it, g3, g4⟩
    · rintro ⟨g1, g2⟩
      exact ⟨g1, fun g3 => g2 g3.1⟩
  have hIC : Inv P init last stC := by
    apply vacate_inv (fun k => k ∈ removed) hI
    · intro j hj; rw [h1]; simp [hj]
    · intro j hj; rw [h1]; simp [hj]; rfl
    · intro e
      rw [hmapiff]
      constructor
      · rintro ⟨g1, g2⟩
        refine ⟨g1, ?_⟩
        intro g3
        rw [(hsameKey e g1).1 g3] at g2; cases g2
      · rintro ⟨g1, g2⟩
        refine ⟨g1, ?_⟩
        cases h : startsWith e.1 p with
        | false => rfl
        | true => exact absurd ((hsameKey e g1).2 h) g2
    · intro k; rw [h2]; rfl
    · exact h3
    · rw [h4]
    · intro q; rw [h5]; rfl
    · rw [h6]
    · exact hextiff
  refine ⟨stC, hres, hIC, h6, h9, h10, h11, hmapiff, ?_, ?_⟩
  · intro j it' hj
    rw [h1] at hj
    by_cases hm : j ∈ removed
    · simp [hm] at hj
    · simp only [hm, if_false] at hj; exact hj
  · intro d k h
    exact ((hextiff d k).1 h).1

/-- `update_external_dependencies` for a list of keys: afterwards nothing is linked to any of them -/
theorem updateExtAll_inv {P : Params} {init : Fs} {last : Cfg} (ds : List Path) :
    ∀ (st : State), Inv P init last st →
    ∃ st', updateExternalDependenciesAll st ds = some st' ∧ Inv P init last st' ∧ Frame st st'
      ∧ (∀ d j, (d, j) ∈ st'.extDeps → (d, j) ∈ st.extDeps)
      ∧ (∀ d j, d ∈ ds → (d, j) ∉ st'.extDeps) := by
  induction ds with
  | nil => intro st hI; exact ⟨st, rfl, hI, Frame.refl st, fun _ _ h => h, by simp⟩
  | cons d ds ih =>
    intro st hI
    obtain ⟨st1, a1, a2, a3, _, a5, a6⟩ := updateExt_inv d hI
    obtain ⟨st', b1, b2, b3, b4, b5⟩ := ih st1 a2
    refine ⟨st', by simp only [updateExternalDependenciesAll, a1]; exact b1, b2, a3.trans b3,
      fun x j h => a5 x j (b4 x j h), ?_⟩
    intro x j hx h
    simp only [List.mem_cons] at hx
    rcases hx with hx | hx
    · subst hx; exact a6 j (b4 x j h)
    · exact b5 x j hx h

/-- deleting the files at or below `p` from the file system, once nothing depends on them -/
theorem fsRemoveTree_inv {P : Params} {init : Fs} {last : Cfg} {st : State} {p : Path} (hWF : WF P init)
    (hI : Inv P init last st)
    (hkeys : ∀ q k, (q, k) ∈ st.nodeMap → startsWith q p = false)
    (hpo : startsWith p P.output = false) (hop : startsWith P.output p = false)
    (hdeps : ∀ q k, startsWith q p = true → (alookup st.fs q).isSome = true → (q, k) ∉ st.extDeps) :
    Inv P init last (withFs st (fsRemoveTree st.fs p)) := by
  have hfs : ∀ q, alookup (fsRemoveTree st.fs p) q = if startsWith q p then none else alookup st.fs q := by
    intro q
    exact alookup_filter_not st.fs (fun x => startsWith x p) q
  have hout : ∀ q, startsWith q P.output = true → startsWith q p = false := by
    intro q hq
    cases h : startsWith q p with
    | false => rfl
    | true =>
      exfalso
      simp only [startsWith, List.isPrefixOf_iff_prefix] at hq h hpo hop
      rcases List.prefix_or_prefix_of_prefix hq h with g | g
      · have := List.isPrefixOf_iff_prefix.2 g; rw [this] at hpo; cases hpo
      · have := List.isPrefixOf_iff_prefix.2 g; rw [this] at hop; cases hop
  constructor
  · exact hI.nm_fun
  · exact hI.nm_item
  · exact hI.item_nm
  · exact hI.free_ok
  · exact hI.free_nodup
  · intro q k hq
    obtain ⟨g1, g2, g3⟩ := hI.src_in q k hq
    refine ⟨g1, g2, ?_⟩
    show (alookup (fsRemoveTree st.fs p) q).isSome = true
    rw [hfs, hkeys q k hq]; simpa using g3
  · exact hI.ext_sub
  · exact hI.ext_sup
  · exact hI.ns_deps
  · intro j it ok hj hs
    have hd : it.status.isDone = true := by rw [hs]; rfl
    have hsrc := hI.item_src hj
    have hT : P.T last (alookup (fsRemoveTree st.fs p)) it.source = P.T last (alookup st.fs) it.source := by
      apply hWF.depSound last (alookup st.fs) _ it.source (startsWith_output_of_input hWF hsrc.1)
      intro q hq
      rw [hfs] at hq
      by_cases hqp : startsWith q p = true
      · right
        simp only [hqp, if_true] at hq
        have hsome : (alookup st.fs q).isSome = true := by
          cases h : alookup st.fs q with
          | none => exact absurd h hq
          | some v => rfl
        refine ⟨?_, ?_, hq⟩
        · intro h
          have := hkeys it.source j (hI.item_nm j it hj)
          rw [← h, hqp] at this; cases this
        · intro hm
          have hm' : q ∈ it.deps := ((hI.done_ok j it ok hj hs).1 q).2 hm
          exact hdeps q j hqp hsome (hI.ext_sup j it hj hd q hm')
      · simp [hqp] at hq
    show (∀ d, d ∈ it.deps ↔ d ∈ (P.T last (alookup (fsRemoveTree st.fs p)) it.source).deps) ∧
      ok = (P.T last (alookup (fsRemoveTree st.fs p)) it.source).out.isSome ∧
      alookup (fsRemoveTree st.fs p) it.output = (P.T last (alookup (fsRemoveTree st.fs p)) it.source).out
    rw [hT, hfs, hout it.output (by rw [hI.item_out hj]; exact outPath_startsWith P _)]
    simp only [Bool.false_eq_true, if_false]
    exact hI.done_ok j it ok hj hs
  · intro q hq
    rcases hI.out_other q hq with h | h | h
    · exact Or.inl h
    · exact Or.inr (Or.inl h)
    · right; right
      show alookup (fsRemoveTree st.fs p) q = _
      rw [hfs, hout q hq]; simpa using h
  · exact hI.rm_src
  · exact hI.rm_noitem


theorem any_false_mem {α : Type} {l : List α} {f : α → Bool} (h : l.any f = false) {x : α} (hx : x ∈ l) :
    f x = false := by
  rw [List.any_eq_false] at h
  simpa using h x hx

/-- `remove_source` (file or directory event) keeps the invariant (outside region X) -/
theorem removeStep_good {P : Params} {init : Fs} {last : Cfg} {st : State} (p : Path)
    (hWF : WF P init) (hG : Good P init last st) (hreg : regionOfRemove P st p = none) :
    ∃ st', ofOpt (removeSource { st with fs := fsRemoveTree st.fs p } p) = .ok st' ∧ Good P init last st' := by
  obtain ⟨hI, hS, hH⟩ := hG
  unfold regionOfRemove at hreg
  have hpo : startsWith p P.output = false := by
    cases h : startsWith p P.output with
    | false => rfl
    | true => simp [h] at hreg
  have hop : startsWith P.output p = false := by
    cases h : startsWith P.output p with
    | false => rfl
    | true => simp [h] at hreg
  simp only [hpo, hop, Bool.or_self, Bool.false_eq_true, if_false] at hreg
  -- both branches: a state `stC` with the invariant, the sources at or below `p` gone
  have hbr : ∃ stC, removeBranches st p = some stC ∧ Inv P init last stC ∧ stC.fs = st.fs
      ∧ stC.hasCreated = st.hasCreated ∧ stC.lastHash = st.lastHash
      ∧ (∀ e, e ∈ stC.nodeMap ↔ e ∈ st.nodeMap ∧ startsWith e.1 p = false) := by
    unfold removeBranches
    cases hl : alookup st.nodeMap p with
    | some i =>
      rw [hl] at hreg
      simp only at hreg
      have hX : st.nodeMap.any (fun e => strictlyUnder e.1 p) = false := by
        cases h : st.nodeMap.any (fun e => strictlyUnder e.1 p) with
        | false => rfl
        | true => rw [h] at hreg; simp at hreg
      obtain ⟨it, hit, _, _⟩ := hI.nm_item p i (alookup_some_mem _ _ _ hl)
      obtain ⟨stC, g1, g2, g3, g4, g5, g6, g7, g8, g9⟩ := removeFileBranch_inv hI hl hit
      simp only [hit]
      refine ⟨stC, g1, g2, g3, g5, g6, ?_⟩
      intro e
      rw [g7]
      constructor
      · rintro ⟨h1, h2⟩
        exact ⟨h1, strictlyUnder_false_of (any_false_mem hX h1) h2⟩
      · rintro ⟨h1, h2⟩
        refine ⟨h1, ?_⟩
        intro h3
        have : startsWith e.1 p = true := by rw [h3]; simp [startsWith]
        rw [this] at h2; cases h2
    | none =>
      obtain ⟨stC, g1, g2, g3, g4, g5, g6, g7, _, _⟩ := removeDirBranch_inv (p := p) hI
      exact ⟨stC, g1, g2, g3, g5, g6, g7⟩
  obtain ⟨stC, c1, c2, c3, c4, c5, c6⟩ := hbr
  obtain ⟨stD, d1, d2, d3, d5, d6⟩ := updateExtAll_inv (keysBelow stC p) stC c2
  have hrs : removeSource st p = some stD := by
    rw [removeSource_eq, c1]; exact d1
  have hstep : removeSource { st with fs := fsRemoveTree st.fs p } p = some (withFs stD (fsRemoveTree st.fs p)) := by
    have := removeSource_withFs st (fsRemoveTree st.fs p) p
    rw [hrs] at this
    exact this
  have hfsD : stD.fs = st.fs := d3.fs.trans c3
  refine ⟨withFs stD (fsRemoveTree st.fs p), by rw [hstep]; rfl, ⟨?_, ?_, ?_⟩⟩
  · rw [← hfsD]
    apply fsRemoveTree_inv hWF d2
    · intro q k hq
      rw [d3.nodeMap] at hq
      exact ((c6 (q, k)).1 hq).2
    · exact hpo
    · exact hop
    · intro q k hq _ hmem
      have hC : (q, k) ∈ stC.extDeps := d5 q k hmem
      have hkey : q ∈ keysBelow stC p := by
        unfold keysBelow
        simp only [List.mem_filter, List.mem_map]
        exact ⟨⟨(q, k), hC, rfl⟩, hq⟩
      exact d6 q k hkey hmem
  · intro hc
    have hc0 : st.hasCreated = false := by
      rw [← c4, ← d3.hasCreated]; exact hc
    intro q hq hin hlua
    have hq' : (alookup (fsRemoveTree st.fs p) q).isSome = true := hq
    have hlk : alookup (fsRemoveTree st.fs p) q = if startsWith q p then none else alookup st.fs q :=
      alookup_filter_not st.fs (fun x => startsWith x p) q
    rw [hlk] at hq'
    cases hqp : startsWith q p with
    | true => simp [hqp] at hq'
    | false =>
      simp only [hqp, Bool.false_eq_true, if_false] at hq'
      obtain ⟨i, hi⟩ := hS hc0 q hq' hin hlua
      refine ⟨i, ?_⟩
      show (q, i) ∈ stD.nodeMap
      rw [d3.nodeMap, c6]
      exact ⟨hi, hqp⟩
  · show stD.lastHash = _
    rw [d3.lastHash, c5]; exact hH

theorem step_removeFile_good {P : Params} {init : Fs} {last : Cfg} {st : State} {fuel : Nat} (p : Path)
    (hWF : WF P init) (hG : Good P init last st) (hreg : regionOfRemove P st p = none) :
    ∃ st', step P fuel st (.removeFile p) = .ok st' ∧ Good P init last st' :=
  removeStep_good p hWF hG hreg

theorem step_removeDir_good {P : Params} {init : Fs} {last : Cfg} {st : State} {fuel : Nat} (p : Path)
    (hWF : WF P init) (hG : Good P init last st) (hreg : regionOfRemove P st p = none) :
    ∃ st', step P fuel st (.removeDir p) = .ok st' ∧ Good P init last st' :=
  removeStep_good p hWF hG hreg


/-! ### the `process` step, the first run, and whole sessions -/

theorem Settled.good {P : Params} {init : Fs} {st : State} (h : Settled P init st) : Good P init st.cfg st :=
  ⟨h.inv, fun _ => h.synced, h.hash⟩

theorem preProcess_facts {P : Params} {init : Fs} {last : Cfg} {st : State} (hG : Good P init last st) :
    Inv P init last (preProcess P st) ∧ Synced P (preProcess P st) ∧ (preProcess P st).hasCreated = false
    ∧ (preProcess P st).lastHash = st.lastHash ∧ (preProcess P st).cfg = st.cfg := by
  obtain ⟨hI, hS, hH⟩ := hG
  unfold preProcess
  cases hc : st.hasCreated with
  | false =>
    simp only [Bool.false_eq_true, if_false]
    exact ⟨hI, hS hc, hc, by first | trivial | rfl, by first | trivial | rfl⟩
  | true =>
    simp only [if_true]
    obtain ⟨h1, h2, h3⟩ := collectWork_inv hI
    refine ⟨inv_of_eq_fields h1 rfl rfl rfl rfl rfl rfl, ?_, by first | trivial | rfl, h2.lastHash, h2.cfg⟩
    intro p hp hin hlua
    exact h3 p hp hin hlua

theorem regionAfterConfig_none {P : Params} {st1 : State} (h : regionAfterConfig P st1 = none) :
    outputUnder st1 = false ∧ failsOverOutput P st1 = false := by
  unfold regionAfterConfig at h
  cases hC : outputUnder st1 with
  | true => rw [hC] at h; simp at h
  | false =>
    cases hD : failsOverOutput P st1 with
    | true => rw [hC, hD] at h; simp at h
    | false => exact ⟨rfl, rfl⟩

theorem step_process_settled {P : Params} {init : Fs} {last : Cfg} {st : State} (hWF : WF P init)
    (hG : Good P init last st) (hreg : regionOfProcess P last st = none) :
    ∃ st', step P 1 st .process = .ok st' ∧ Settled P init st' ∧ st'.cfg = st.cfg := by
  obtain ⟨p1, p2, p3, p4, p5⟩ := preProcess_facts hG
  have hH := hG.2.2
  unfold regionOfProcess at hreg
  simp only at hreg
  have hA : ((preProcess P st).lastHash == some (P.configHash (preProcess P st).cfg) && (preProcess P st).cfg != last) = false := by
    cases h : ((preProcess P st).lastHash == some (P.configHash (preProcess P st).cfg) && (preProcess P st).cfg != last) with
    | false => rfl
    | true => rw [h] at hreg; simp at hreg
  have hF13 : ¬ ((preProcess P st).lastHash = some (P.configHash (preProcess P st).cfg) ∧ (preProcess P st).cfg ≠ last) := by
    rintro ⟨h1, h2⟩
    have : ((preProcess P st).lastHash == some (P.configHash (preProcess P st).cfg) && (preProcess P st).cfg != last) = true := by
      simp [h1, h2]
    rw [this] at hA; cases hA
  rw [hA] at hreg
  simp only [Bool.false_eq_true, if_false] at hreg
  obtain ⟨hC, hD⟩ := regionAfterConfig_none hreg
  have hres := processTree_settled (P := P) (init := init) (last := last) (st := preProcess P st) hWF p1 p2 p3
    (Or.inl (p4.trans hH)) hF13
    (by
      intro q hq j it hj
      unfold outputUnder at hC
      have c1 := any_false_item (any_false_mem hC hq) hj
      simpa using c1)
    (by
      intro j it hj hnd hout
      unfold failsOverOutput at hD
      have d1 := any_false_item hD hj
      simp only [hnd, hout, Bool.not_false, Option.isNone_none, Bool.and_self, Bool.true_and] at d1
      cases hlk : alookup (configStep P (preProcess P st)).fs it.output with
      | none => rfl
      | some v => rw [hlk] at d1; simp at d1)
  obtain ⟨st', h1, h2, h3⟩ := hres
  exact ⟨st', h1, h2, h3.trans p5⟩

/-- the first run (`darklua_core::process` on a fresh `WorkerTree`) -/
theorem start_settled {P : Params} {init : Fs} (cfg : Cfg) (hWF : WF P init) :
    ∃ st, start P 1 init cfg = .ok st ∧ Settled P init st ∧ st.cfg = cfg := by
  let st1 : State := { State.empty init cfg with outputStructure := snapshotOutputStructure P init }
  have hI1 : Inv P init cfg st1 := by
    constructor
    · intro p i j h; cases h
    · intro p i h; cases h
    · intro i it h; simp [st1, State.empty, State.item?] at h
    · intro i h; cases h
    · exact List.nodup_nil
    · intro p i h; cases h
    · intro d i h; cases h
    · intro i it h; simp [st1, State.empty, State.item?] at h
    · intro i it h; simp [st1, State.empty, State.item?] at h
    · intro i it ok h; simp [st1, State.empty, State.item?] at h
    · intro q _; right; right; rfl
    · intro q h; cases h
    · intro q h; cases h
  obtain ⟨c1, c2, c3⟩ := collectWork_inv hI1
  have hres := processTree_settled (P := P) (init := init) (last := cfg) (st := collectWork P st1) hWF c1 c3
    (by rw [c2.hasCreated]; rfl) (Or.inr ⟨by rw [c2.lastHash]; rfl, by rw [c2.cfg]; rfl⟩)
    (by rintro ⟨h, _⟩; rw [c2.lastHash] at h; cases h)
    (by
      intro q hq
      obtain ⟨_, _, _, g4, _⟩ := configStep_inv c1
        (Or.inr ⟨by rw [c2.lastHash]; rfl, by rw [c2.cfg]; rfl⟩)
        (by rintro ⟨h, _⟩; rw [c2.lastHash] at h; cases h)
      rw [g4] at hq; cases (c2.removeFiles q hq))
    (by
      intro j it hj _ _
      obtain ⟨g1, g2, _, _, _⟩ := configStep_inv c1
        (Or.inr ⟨by rw [c2.lastHash]; rfl, by rw [c2.cfg]; rfl⟩)
        (by rintro ⟨h, _⟩; rw [c2.lastHash] at h; cases h)
      rw [g2, c2.fs]
      have hsrc := g1.item_src hj
      show alookup init it.output = none
      exact initClean_none hWF hsrc.2.1 hsrc.1 (by rw [g1.item_out hj]; simp [startsWith]))
  obtain ⟨st', h1, h2, h3⟩ := hres
  exact ⟨st', h1, h2, h3.trans c2.cfg⟩

theorem getLast?_cons_process {op : Op} {ops : List Op} (h : (op :: ops).getLast? = some .process) :
    (ops = [] ∧ op = .process) ∨ ops.getLast? = some .process := by
  cases ops with
  | nil => left; simpa using h
  | cons a b => right; simpa [List.getLast?_cons_cons] using h

/-- every operation outside the excluded regions keeps `Good`; a `process` ends settled -/
theorem runOps_good {P : Params} {init : Fs} (hWF : WF P init) (ops : List Op) :
    ∀ (st : State) (last : Cfg), Good P init last st → firstRegion P 1 st last ops = none →
      ∃ st' last', runOps P 1 (.ok st) ops = .ok st' ∧ Good P init last' st'
        ∧ (ops.getLast? = some .process → Settled P init st') := by
  induction ops with
  | nil => intro st last hG _; exact ⟨st, last, rfl, hG, by simp⟩
  | cons op ops ih =>
    intro st last hG hfr
    simp only [firstRegion] at hfr
    cases hro : regionOf P last st op with
    | some r => rw [hro] at hfr; cases hfr
    | none =>
      rw [hro] at hfr
      simp only at hfr
      -- the step succeeds and keeps `Good` for the updated ghost
      have hstep : ∃ st1, step P 1 st op = .ok st1 ∧ Good P init (nextLast last st1 op) st1
          ∧ (op = .process → Settled P init st1) := by
        cases op with
        | edit p c =>
          obtain ⟨st1, h1, h2, _⟩ := step_edit_good p c hWF hG hro
          exact ⟨st1, h1, h2, by intro h; cases h⟩
        | add p c =>
          obtain ⟨st1, h1, h2⟩ := step_add_good p c hG hro
          exact ⟨st1, h1, h2, by intro h; cases h⟩
        | removeFile p =>
          obtain ⟨st1, h1, h2⟩ := step_removeFile_good p hWF hG hro
          exact ⟨st1, h1, h2, by intro h; cases h⟩
        | removeDir p =>
          obtain ⟨st1, h1, h2⟩ := step_removeDir_good p hWF hG hro
          exact ⟨st1, h1, h2, by intro h; cases h⟩
        | setConfig k =>
          obtain ⟨st1, h1, h2⟩ := step_setConfig_good k hG
          exact ⟨st1, h1, h2, by intro h; cases h⟩
        | collectWork =>
          obtain ⟨st1, h1, h2⟩ := step_collectWork_good hG
          exact ⟨st1, h1, h2, by intro h; cases h⟩
        | process =>
          obtain ⟨st1, h1, h2, _⟩ := step_process_settled hWF hG hro
          exact ⟨st1, h1, h2.good, fun _ => h2⟩
      obtain ⟨st1, s1, s2, s3⟩ := hstep
      rw [s1] at hfr
      simp only at hfr
      obtain ⟨st', last', r1, r2, r3⟩ := ih st1 _ s2 hfr
      refine ⟨st', last', ?_, r2, ?_⟩
      · simp only [runOps, s1]; exact r1
      · intro hl
        rcases getLast?_cons_process hl with ⟨h1, h2⟩ | h
        · subst h1
          simp only [runOps] at r1
          cases r1
          exact s3 h2
        · exact r3 h


/-! ### the generalised counter logic (finding F26, fixed) -/

theorem genLoop_terminates (total : Nat) (ds : List Nat) : ∀ acc pending, pending < ds.length →
    genLoop total acc pending ds ≠ .running := by
  induction ds with
  | nil => intro _ _ h; simp at h
  | cons d ds ih =>
    intro acc pending h
    simp only [genLoop]
    split
    · simp
    · split
      · simp
      · rename_i h1 h2
        apply ih
        simp only [List.length_cons] at h
        omega

end DarkluaModel.C10
