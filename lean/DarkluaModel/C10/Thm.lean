import DarkluaModel.C10.Model
import DarkluaModel.C10.Spec
import DarkluaModel.C10.Lemmas
import DarkluaModel.C10.Witness
/-!
# C10 — incremental reprocessing equals processing from scratch: the property theorems

All statements are about `Model.run` / `Model.step` / `Model.processTree`, the definitions the
line-protocol driver executes (`Driver.lean: runReq`).
-/
namespace DarkluaModel.C10

/-- Full-strength statement: for every well-formed project and EVERY history. -/
def worker_refines_fresh_full : Prop :=
  ∀ (P : Params) (init : Fs) (cfg : Cfg) (h : List Op), WF P init → Refines P init cfg h

/-- It is false of the code as it is. Independent counterexamples (`Witness.lean`), each
evaluated in the model by the kernel:
F12 (failed require not retried), F13 (filter-only configuration
change), E/F25 (stale output of a source that now fails). -/
theorem worker_refines_fresh_full_false : ¬ worker_refines_fresh_full := by
  intro h
  exact witness_F13_not_refines (h wP wInit 0 hF13 wWF)

theorem full_false_F12 : ¬ Refines wP wInit12 0 hF12 := witness_F12_not_refines
theorem full_false_F13 : ¬ Refines wP wInit 0 hF13 := witness_F13_not_refines
theorem full_false_E : ¬ Refines wP wInit 0 hE := witness_E_not_refines

/-- the counterexamples are well-formed projects (the hypotheses of the full statement hold) -/
example : WF wP wInit ∧ WF wP wInit12 := ⟨wWF, wWF12⟩

/-- **Partial theorem, proved for every well-formed project and every history inside `H10`**
(`H10 = sessionRegion … = none`: the decidable monitor `regionOf` never fires — i.e. the
history never (F12) creates a file that changes the result of a finished item, (F13) changes the configuration without changing its hash,
(E) lets an item fail over an existing output, (X) leaves the watcher protocol):
no step panics or hangs and after the closing `process` the output folder equals the
from-scratch run (`freshOut`): regenerated outputs, outputs of removed sources deleted, foreign
files kept. Proof: invariant `Inv`/`Good` (`Lemmas.lean`) preserved by every operation
(`runOps_good`), established by the first run (`start_settled`), and `settled_final`.
Nothing is restricted besides `H10` and `WF` (bundling included: `T` may depend on its
reported dependencies). -/
theorem worker_refines_fresh_partial (P : Params) (init : Fs) (cfg : Cfg) (h : List Op)
    (hWF : WF P init) (hH : H10 P defaultFuel init cfg h = true) : Refines P init cfg h := by
  obtain ⟨st0, hs, hset, hcfg⟩ := start_settled cfg hWF
  have hreg : firstRegion P 1 st0 cfg (h ++ [.process]) = none := by
    have : sessionRegion P 1 init cfg h = none := by
      unfold H10 at hH
      cases hsr : sessionRegion P defaultFuel init cfg h with
      | none => exact hsr
      | some r => rw [hsr] at hH; cases hH
    unfold sessionRegion at this
    rw [hs] at this
    exact this
  have hG : Good P init cfg st0 := by
    have := hset.good
    rw [hcfg] at this
    exact this
  obtain ⟨st', last', hr, _, hfin⟩ := runOps_good hWF (h ++ [.process]) st0 cfg hG hreg
  have hsettled := hfin (by simp)
  unfold Refines run
  show (match runOps P 1 (start P 1 init cfg) (h ++ [.process]) with
    | .ok st => ∀ q, startsWith q P.output = true → alookup st.fs q = freshOut P st.cfg init st.fs q
    | _ => False)
  rw [hs, hr]
  exact settled_final hWF hsettled

/-- non-vacuity: a ten-operation history (edits of a source and of a bundle dependency, a
file and a directory removal, additions, a configuration change, intermediate passes) lies
inside `H10`, so the theorem applies to it -/
example : Refines wP wInit 0 hGood :=
  worker_refines_fresh_partial wP wInit 0 hGood wWF hGood_inside

/-- regression (F11, fixed in /repo): `removeFile a` followed by the closing `process`, with
nothing else pending, now deletes `out/a` — the former counterexample refines the fresh run -/
example : Refines wP wInit 0 hF11 :=
  worker_refines_fresh_partial wP wInit 0 hF11 wWF hF11_inside

/-- regression (F11b, fixed in /repo): remove + re-create of a source before the next pass -/
example : Refines wP wInit 0 hF11b :=
  worker_refines_fresh_partial wP wInit 0 hF11b wWF hF11b_inside

/-- regression (F10/F10b, fixed in /repo): removing the folder of a bundle entry and then
editing its dependency neither panics nor leaves anything stale -/
example : Refines wP wInit 0 hF10 :=
  worker_refines_fresh_partial wP wInit 0 hF10 wWF hF10_inside

/-- `no_loop`: `process` terminates on EVERY state — with one unit of fuel the work loop never
reports `hang`; the progress argument is `passNodes_doneCount`: a pass finishes every
pending item, so `done_count == total_not_done` after the first pass. (Relies on the
modelled fact that `advance_work` never leaves an item `InProgress`, i.e. that no built-in
rule overrides `Rule::require_content`; for rules that do, see `on_hold_terminates`.) -/
theorem no_loop (P : Params) (fuel : Nat) (st : State) : processTree P (fuel + 1) st ≠ .hang :=
  processTree_no_hang P fuel st

/-- no watch session hangs, whatever the history -/
theorem no_loop_run (P : Params) (fuel : Nat) (init : Fs) (cfg : Cfg) (h : List Op) :
    run P (fuel + 1) init cfg h ≠ .hang := by
  unfold run
  apply runOps_no_hang
  unfold start
  exact processTree_no_hang P fuel _

/-- The loop's counter logic when items CAN be put on hold (a user-defined rule overriding
`Rule::require_content`), after the fix of F26 (`genLoop`: finished items counted across
passes, a pass that finishes nothing ends with an error): whatever numbers of items finish
in the successive passes, the loop has ended — `break` or error — within `pending + 1`
passes. Before the fix (`done_count` reset every pass but compared with the total computed
once) the loop could never exit once a pass finished some but not all items. -/
theorem on_hold_terminates (total acc pending : Nat) (ds : List Nat) (h : pending < ds.length) :
    genLoop total acc pending ds ≠ .running :=
  genLoop_terminates total ds acc pending h

/-- non-vacuity and regression: all items in the first pass exits; the former hang (one of
two items on hold for ever: passes finishing 1, 0, …) now ends with an error in pass 2;
items finishing over several passes exit -/
example : genLoop 2 0 2 [2] = .exits ∧ genLoop 2 0 2 [1, 0, 0] = .errors
    ∧ genLoop 3 0 3 [1, 1, 1, 0] = .exits := by decide

/-- non-vacuity: a state with pending work on which `process` really runs the loop -/
example : ∃ st, processTree wP 1 wPending = .ok st ∧ notDoneCount wPending.nodes = 3 ∧ notDoneCount st.nodes = 0 := by
  refine ⟨_, rfl, ?_, ?_⟩ <;> decide

end DarkluaModel.C10
