import DarkluaModel.C10.Model
import DarkluaModel.C10.Spec
import DarkluaModel.C10.Lemmas
import DarkluaModel.C10.Witness
/-!
# C10 — incremental reprocessing equals processing from scratch: the property theorems

All statements are about `Model.run` / `Model.step` / `Model.processTree`, the definitions the
line-protocol driver executes (`Driver.lean: runReq`).
-/
namespace DarkluaModel.C10

/-- Full-strength statement: for every well-formed project and EVERY history. -/
def worker_refines_fresh_full : Prop :=
  ∀ (P : Params) (init : Fs) (cfg : Cfg) (h : List Op), WF P init → Refines P init cfg h

/-- It is false of the code as it is. Six independent counterexamples (`Witness.lean`), each
evaluated in the model by the kernel:
F10 (panic), F11 (stale output of a removed source), F11b (fresh output deleted after
remove + re-create), F12 (failed require not retried), F13 (filter-only configuration
change), E/F25 (stale output of a source that now fails). -/
theorem worker_refines_fresh_full_false : ¬ worker_refines_fresh_full := by
  intro h
  exact witness_F10_not_refines (h wP wInit 0 hF10 wWF)

theorem full_false_F11 : ¬ Refines wP wInit 0 hF11 := witness_F11_not_refines
theorem full_false_F11b : ¬ Refines wP wInit 0 hF11b := witness_F11b_not_refines
theorem full_false_F12 : ¬ Refines wP wInit12 0 hF12 := witness_F12_not_refines
theorem full_false_F13 : ¬ Refines wP wInit 0 hF13 := witness_F13_not_refines
theorem full_false_E : ¬ Refines wP wInit 0 hE := witness_E_not_refines

/-- the counterexamples are well-formed projects (the hypotheses of the full statement hold) -/
example : WF wP wInit ∧ WF wP wInit12 := ⟨wWF, wWF12⟩

/-- `no_loop`: `process` terminates on EVERY state — with one unit of fuel the work loop never
reports `hang`; the progress argument is `passNodes_doneCount`: a pass finishes every
pending item, so `done_count == total_not_done` after the first pass. (Relies on the
modelled fact that `advance_work` never leaves an item `InProgress`, i.e. that no rule
overrides `Rule::require_content`; checked by the correspondence.) -/
theorem no_loop (P : Params) (fuel : Nat) (st : State) : processTree P (fuel + 1) st ≠ .hang :=
  processTree_no_hang P fuel st

/-- no watch session hangs, whatever the history -/
theorem no_loop_run (P : Params) (fuel : Nat) (init : Fs) (cfg : Cfg) (h : List Op) :
    run P (fuel + 1) init cfg h ≠ .hang := by
  unfold run
  apply runOps_no_hang
  unfold start
  exact processTree_no_hang P fuel _

/-- non-vacuity: a state with pending work on which `process` really runs the loop -/
example : ∃ st, processTree wP 1 wPending = .ok st ∧ notDoneCount wPending.nodes = 3 ∧ notDoneCount st.nodes = 0 := by
  refine ⟨_, rfl, ?_, ?_⟩ <;> decide

end DarkluaModel.C10
