import DarkluaModel.C10.Model
/-!
# C10 — reference: what a run from scratch leaves in the output folder

Independent of the worker model: uses only the parameter `T`, the path mapping and the
source filter (types and `outPath`/`sourcesOf` come from `Model.lean`; none of the worker
logic — node map, slots, restart, clean — is used).
-/
namespace DarkluaModel.C10

/-- the file system a from-scratch run starts from: the final inputs (everything outside the
output folder) and what was in the output folder before the very first run (foreign files). -/
def freshFs (P : Params) (init final : Fs) : Fs :=
  (final.filter fun e => !(startsWith e.1 P.output)) ++ (init.filter fun e => startsWith e.1 P.output)

/-- content of path `q` after a from-scratch run with configuration `cfg`: the transformation
of the source mapped to `q` when it succeeds; otherwise what was there before. -/
def freshOut (P : Params) (cfg : Cfg) (init final : Fs) (q : Path) : Option Content :=
  let fs0 := freshFs P init final
  match (sourcesOf P fs0).find? (fun p => outPath P p == q) with
  | some p =>
    match (P.T cfg (alookup fs0) p).out with
    | some c => some c
    | none => alookup fs0 q
  | none => alookup fs0 q

/-- The property for one watch session: no step panics or hangs, and after the closing
`process` every path of the output folder holds exactly what a from-scratch run over the
final inputs and configuration leaves there (`freshOut`: regenerated outputs, no outputs of
removed sources, foreign files kept). -/
def Refines (P : Params) (init : Fs) (cfg : Cfg) (h : List Op) : Prop :=
  match run P defaultFuel init cfg h with
  | .ok st => ∀ q, startsWith q P.output = true → alookup st.fs q = freshOut P st.cfg init st.fs q
  | _ => False

/-! ### what is assumed of the parameters (the trusted description of `T`) -/

/-- `T` reads its source and the files it reports as dependencies: editing or deleting any
OTHER file that exists, or changing anything inside the output folder, does not change the
result (success or failure) for a source outside the output folder. Creating a file is
deliberately not covered: a failed or shadowed `require` probes paths it does not report. -/
def DepSound (P : Params) : Prop :=
  ∀ (cfg : Cfg) (fs fs' : Path → Option Content) (p : Path), startsWith p P.output = false →
    (∀ q, fs q ≠ fs' q →
      startsWith q P.output = true ∨ (q ≠ p ∧ q ∉ (P.T cfg fs p).deps ∧ fs q ≠ none)) →
    P.T cfg fs' p = P.T cfg fs p

/-- files present in the output folder before the first run are foreign: none sits at or
below a path where a source's output would go -/
def InitClean (P : Params) (init : Fs) : Bool :=
  init.all fun e => !(startsWith e.1 P.output) ||
    (List.range (e.1.length + 1)).all fun n =>
      !(startsWith (e.1.take n) P.output) || !(P.isLua (P.input ++ (e.1.take n).drop P.output.length))

/-- well-formed project: input and output folders are disjoint, `T` is dependency-sound, the
output folder holds only foreign files at the start -/
structure WF (P : Params) (init : Fs) : Prop where
  sepIn : startsWith P.input P.output = false
  sepOut : startsWith P.output P.input = false
  depSound : DepSound P
  initClean : InitClean P init = true

end DarkluaModel.C10
