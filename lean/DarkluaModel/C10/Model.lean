/-!
# C10 — model of `WorkerTree` (src/frontend/worker_tree.rs) as `--watch` drives it

Import-free. Mirrors the Rust as it is (defects included):

* `State` mirrors `struct WorkerTree` over memory resources:
  `graph : StableDiGraph<WorkItem,()>`      ↦ `nodes : List (Option Item)` (slot `i` = `NodeIndex(i)`,
                                               `none` = vacant) + `free` (petgraph's free list, LIFO reuse)
  `node_map : HashMap<PathBuf,NodeIndex>`   ↦ `nodeMap : List (Path × Nat)` (association list)
  `external_dependencies : HashMap<PathBuf,HashSet<NodeIndex>>`
                                            ↦ `extDeps : List (Path × Nat)` — the *relation* `(path, index)`;
                                               a key with an empty set and a missing key are the same thing for
                                               every reader in worker_tree.rs (`iter_external_dependencies`
                                               filters empty containers)
  `remove_files`, `last_configuration_hash`, `output_structure` ↦ same names
  the memory `Resources`                    ↦ `fs : List (Path × Content)`
  plus the two pieces of `FileWatcher` state that matter: the current configuration `cfg`
  (what `build_options` yields) and `hasCreated` (local flag of `process_events`).
* The graph never has edges: edges are only added from `required_content()`, which is fed by
  `Rule::require_content`, whose only implementation is the trait default `Vec::new()`
  (src/rules/mod.rs). So `Dfs` from a node visits exactly that node, `toposort` is any
  enumeration of the occupied slots, and `advance_work` always ends in `Done`.
* The per-file transformation (parse, bundle, rules, generate) is the PARAMETER `T`;
  `configHash` (xxh3 of the serde_json serialisation) is a parameter too.
* `none` / `Outcome.panic` where Rust panics (`expect("node index should exist")`, or the
  `FixedBitSet` bound check inside `Dfs::next` for an index past `node_bound`).
* Only the directory-input / directory-output branch of `collect_work` is modelled (the one
  `darklua process --watch src out` takes); `is_empty_directory` is `false` on memory
  resources, so the ancestor pruning loop of `clean_files` never removes anything there.
-/
namespace DarkluaModel.C10

abbrev Path := List Nat
abbrev Content := Nat
abbrev Cfg := Nat
abbrev Fs := List (Path × Content)

/-! ### association lists -/

def alookup {β : Type} : List (Path × β) → Path → Option β
  | [], _ => none
  | (a, b) :: r, k => if a = k then some b else alookup r k

def aerase {β : Type} (m : List (Path × β)) (k : Path) : List (Path × β) :=
  m.filter fun e => !(e.1 == k)

def ainsert {β : Type} (m : List (Path × β)) (k : Path) (v : β) : List (Path × β) :=
  (k, v) :: aerase m k

/-- `Path::starts_with` (component-wise prefix) -/
def startsWith (p pre : Path) : Bool := pre.isPrefixOf p

/-! ### parameters -/

/-- result of processing one file: `out = none` is `WorkStatus::Done(Err _)`; `deps` are the
paths passed to `Context::add_file_dependency` (recorded even when the item fails). -/
structure TRes where
  out : Option Content
  deps : List Path
  deriving DecidableEq, Repr

structure Params where
  T : Cfg → (Path → Option Content) → Path → TRes
  configHash : Cfg → Nat
  input : Path
  output : Path
  /-- `Resources::collect_work` extension filter (`lua` / `luau`) -/
  isLua : Path → Bool

/-! ### work items (src/frontend/work_item.rs) -/

inductive Status where
  | notStarted
  | done (ok : Bool)
  deriving DecidableEq, Repr

def Status.isDone : Status → Bool
  | .notStarted => false
  | .done _ => true

structure Item where
  source : Path
  output : Path
  status : Status
  /-- `external_file_dependencies` (a set; duplicates in the list are immaterial) -/
  deps : List Path
  deriving DecidableEq, Repr

/-- `WorkItem::reset` -/
def Item.reset (it : Item) : Item := { it with status := .notStarted, deps := [] }

structure State where
  fs : Fs
  nodes : List (Option Item)
  free : List Nat
  nodeMap : List (Path × Nat)
  extDeps : List (Path × Nat)
  removeFiles : List Path
  lastHash : Option Nat
  outputStructure : Option (List Path)
  cfg : Cfg
  hasCreated : Bool
  deriving Repr

inductive Outcome where
  | ok (st : State)
  | panic
  | hang
  deriving Repr

def State.empty (fs : Fs) (cfg : Cfg) : State :=
  { fs := fs, nodes := [], free := [], nodeMap := [], extDeps := [], removeFiles := [],
    lastHash := none, outputStructure := none, cfg := cfg, hasCreated := false }

/-- `graph.node_weight(i)` -/
def State.item? (st : State) (i : Nat) : Option Item :=
  match st.nodes[i]? with
  | some (some it) => some it
  | _ => none

/-! ### graph primitives (petgraph `StableGraph`) -/

/-- `StableGraph::add_node`: reuse the most recently freed slot, else append. -/
def addNode (st : State) (it : Item) : State × Nat :=
  match st.free with
  | i :: rest => ({ st with nodes := st.nodes.set i (some it), free := rest }, i)
  | [] => ({ st with nodes := st.nodes ++ [some it] }, st.nodes.length)

/-- `StableGraph::remove_node`: `None` (no effect) on a vacant slot, no panic. -/
def removeNode (st : State) (i : Nat) : State × Option Item :=
  match st.item? i with
  | some it => ({ st with nodes := st.nodes.set i none, free := i :: st.free }, some it)
  | none => (st, none)

/-! ### worker_tree.rs -/

/-- remove the pair `(d, i)`: `container.remove(&node_index)` -/
def unlink (ext : List (Path × Nat)) (d : Path) (i : Nat) : List (Path × Nat) :=
  ext.filter fun e => !(e.1 == d && e.2 == i)

/-- `container.insert(node_index)` when absent -/
def link (ext : List (Path × Nat)) (d : Path) (i : Nat) : List (Path × Nat) :=
  if ext.contains (d, i) then ext else (d, i) :: ext

def unlinkAll (ext : List (Path × Nat)) (i : Nat) : List Path → List (Path × Nat)
  | [] => ext
  | d :: ds => unlinkAll (unlink ext d i) i ds

def linkAll (ext : List (Path × Nat)) (i : Nat) : List Path → List (Path × Nat)
  | [] => ext
  | d :: ds => linkAll (link ext d i) i ds

/-- `WorkerTree::restart_work`. The DFS visits `node_index` only (no edges). Panics when the
slot is vacant (`expect("node index should exist")`) or past the bound (`FixedBitSet::put`). -/
def restartWork (st : State) (i : Nat) : Option State :=
  match st.item? i with
  | some it =>
    some { st with extDeps := unlinkAll st.extDeps i it.deps, nodes := st.nodes.set i (some it.reset) }
  | none => none

def restartAll (st : State) : List Nat → Option State
  | [] => some st
  | i :: is =>
    match restartWork st i with
    | some st' => restartAll st' is
    | none => none

/-- indices linked to `path` in `external_dependencies` -/
def extOf (ext : List (Path × Nat)) (path : Path) : List Nat :=
  (ext.filter fun e => e.1 == path).map (·.2)

/-- `WorkerTree::update_external_dependencies` -/
def updateExternalDependencies (st : State) (path : Path) : Option State :=
  restartAll st (extOf st.extDeps path)

/-- `WorkerTree::source_changed` -/
def sourceChanged (st : State) (path : Path) : Option State :=
  let r :=
    match alookup st.nodeMap path with
    | some i => restartWork st i
    | none => restartAll st ((st.nodeMap.filter fun e => startsWith e.1 path).map (·.2))
  match r with
  | some st' => updateExternalDependencies st' path
  | none => none

/-- the loop of the directory branch of `remove_source` (after the fix of F10): each collected
node is restarted (which unregisters it from `external_dependencies`) and then removed;
`contains_node` guards against a repeated index. -/
def removeNodes (st : State) : List Nat → Option State
  | [] => some st
  | i :: is =>
    match st.item? i with
    | none => removeNodes st is
    | some it =>
      match restartWork st i with
      | some st1 =>
        -- `is_in_place` is false: outputs live under the output folder
        removeNodes { (removeNode st1 i).1 with removeFiles := st1.removeFiles ++ [it.output] } is
      | none => none

/-- `update_external_dependencies` for each of the given keys, in turn -/
def updateExternalDependenciesAll (st : State) : List Path → Option State
  | [] => some st
  | d :: ds =>
    match updateExternalDependencies st d with
    | some st' => updateExternalDependenciesAll st' ds
    | none => none

/-- `WorkerTree::remove_source`. After the fix of F10/F10b the dependants of the removed path
AND of every recorded dependency below it are restarted (the keys of `external_dependencies`
that `starts_with(path)`, collected first). -/
def removeSource (st : State) (path : Path) : Option State :=
  let r : Option State :=
    match alookup st.nodeMap path with
    | some i =>
      match st.item? i with
      | some it =>
        let st1 := { st with removeFiles := st.removeFiles ++ [it.output] }
        match restartWork st1 i with
        | some st2 =>
          let st3 := (removeNode st2 i).1
          some { st3 with nodeMap := aerase st3.nodeMap path }
        | none => none
      | none => none
    | none =>
      let removed := (st.nodeMap.filter fun e => startsWith e.1 path).map (·.2)
      let st1 := { st with nodeMap := st.nodeMap.filter fun e => !(startsWith e.1 path) }
      removeNodes st1 removed
  match r with
  | some st' =>
    updateExternalDependenciesAll st' ((st'.extDeps.map (·.1)).filter fun d => startsWith d path)
  | none => none

/-- output path of a source: `output.join(source.strip_prefix(input))` -/
def outPath (P : Params) (p : Path) : Path := P.output ++ p.drop P.input.length

/-- `WorkerTree::insert_source` (a re-inserted source takes its output off the deletion queue) -/
def insertSource (P : Params) (st : State) (p : Path) : State :=
  let (st', i) := addNode st { source := p, output := outPath P p, status := .notStarted, deps := [] }
  -- fix of F11b: `self.remove_files.retain(|path| path != output)`
  { st' with nodeMap := (p, i) :: st'.nodeMap,
             removeFiles := st'.removeFiles.filter fun q => !(q == outPath P p) }

/-- `WorkerTree::add_source_if_missing` -/
def addSourceIfMissing (P : Params) (st : State) (p : Path) : State :=
  match alookup st.nodeMap p with
  | some _ => st
  | none => insertSource P st p

/-- the sources `Resources::collect_work(input)` yields -/
def sourcesOf (P : Params) (fs : Fs) : List Path :=
  (fs.map (·.1)).filter fun p => startsWith p P.input && P.isLua p

/-- `WorkerTree::collect_work` (directory input, `Some(output)`) -/
def collectWork (P : Params) (st : State) : State :=
  (sourcesOf P st.fs).foldl (addSourceIfMissing P) st

/-- `WorkerTree::reset` -/
def reset (st : State) : State :=
  { st with nodes := st.nodes.map (·.map Item.reset), extDeps := [] }

/-- `Worker::advance_work` on a `NotStarted` item: `T` then `resources.write(output)` on success. -/
def advanceWork (P : Params) (cfg : Cfg) (fs : Fs) (it : Item) : Item × Fs :=
  let r := P.T cfg (alookup fs) it.source
  match r.out with
  | some c => ({ it with status := .done true, deps := it.deps ++ r.deps }, ainsert fs it.output c)
  | none => ({ it with status := .done false, deps := it.deps ++ r.deps }, fs)

/-- one pass of the work loop over the slots in index order; returns the new slots, file
system, external dependencies and `done_count`. -/
def passNodes (P : Params) (cfg : Cfg) :
    List (Option Item) → Nat → Fs → List (Path × Nat) → Nat →
      List (Option Item) × Fs × List (Path × Nat) × Nat
  | [], _, fs, ext, dc => ([], fs, ext, dc)
  | none :: r, i, fs, ext, dc =>
    let res := passNodes P cfg r (i + 1) fs ext dc
    (none :: res.1, res.2)
  | some it :: r, i, fs, ext, dc =>
    let adv := if it.status.isDone then (it, fs, dc) else
      let a := advanceWork P cfg fs it
      (a.1, a.2, dc + 1)
    let ext1 := linkAll ext i adv.1.deps
    let res := passNodes P cfg r (i + 1) adv.2.1 ext1 adv.2.2
    (some adv.1 :: res.1, res.2)

def notDoneCount (nodes : List (Option Item)) : Nat :=
  (nodes.filter fun o => match o with | some it => !it.status.isDone | none => false).length

/-- `Source::remove` for memory resources -/
def fsRemove (fs : Fs) (p : Path) : Fs :=
  if (alookup fs p).isSome then aerase fs p
  else if fs.any (fun e => e.1 != p && startsWith e.1 p) then fs.filter fun e => !(startsWith e.1 p)
  else fs

/-- `WorkerTree::clean_files` (memory resources: no directory pruning) -/
def cleanFiles (st : State) : State :=
  { st with fs := st.removeFiles.foldl fsRemove st.fs, removeFiles := [] }

/-- how the `'work_loop` ends -/
inductive LoopEnd where
  /-- every pending item finished (`break`) -/
  | finished (st : State)
  /-- a pass finished nothing and the graph has no cycle to report: `process` returns an error
  (fix of F26); the worker keeps its state -/
  | stalled (st : State)
  | hang

/-- the `'work_loop` of `WorkerTree::process` (after the fix of F26): the finished items are
counted across passes (`acc`); the loop ends when `acc` reaches `total_not_done`, and stops
with an error after a pass in which nothing finished. (The graph has no edges here, so the
cycle check can never fire.) -/
def workLoop (P : Params) (total : Nat) : Nat → Nat → State → LoopEnd
  | 0, _, _ => .hang
  | fuel + 1, acc, st =>
    let res := passNodes P st.cfg st.nodes 0 st.fs st.extDeps 0
    let st' := { st with nodes := res.1, fs := res.2.1, extDeps := res.2.2.1 }
    if acc + res.2.2.2 = total then .finished st'
    else if res.2.2.2 = 0 then .stalled st'
    else workLoop P total fuel (acc + res.2.2.2) st'

/-- `WorkerTree::has_configuration_changed` followed by `reset` -/
def configStep (P : Params) (st : State) : State :=
  let h := P.configHash st.cfg
  let changed := match st.lastHash with
    | some last => h != last
    | none => false
  let st1 := { st with lastHash := some h }
  if changed then reset st1 else st1

/-- `WorkerTree::process` -/
def processTree (P : Params) (fuel : Nat) (st : State) : Outcome :=
  let st1 := configStep P st
  let total := notDoneCount st1.nodes
  if total = 0 then .ok (cleanFiles st1)   -- early return, after `clean_files` (fix of F11)
  else
    match workLoop P total fuel 0 st1 with
    | .finished st2 => .ok (cleanFiles st2)
    | .stalled st2 => .ok st2   -- `Err(..)` is returned before `clean_files`; the watcher logs it
    | .hang => .hang

/-! ### the counter logic of the work loop when items can be put on hold

`process` computes `total_not_done` once. Since the fix of F26 the finished items are counted
across passes and a pass that finishes nothing ends the loop with an error. `genLoop total
acc pending ds` replays that logic for passes in which `ds = [d₁, d₂, …]` items finish (each
`dₖ` capped by what is still pending). With the built-in rules every pending item finishes in
the first pass (`passNodes_doneCount`); a user-defined rule overriding
`Rule::require_content` can put items on hold. -/
inductive LoopVerdict where
  | exits | errors | running
  deriving DecidableEq, Repr

def genLoop (total : Nat) : Nat → Nat → List Nat → LoopVerdict
  | _, _, [] => .running
  | acc, pending, d :: ds =>
    let d' := min d pending
    if acc + d' = total then .exits
    else if d' = 0 then .errors
    else genLoop total (acc + d') (pending - d') ds

/-! ### the watcher level (src/cli/utils/file_watcher.rs: `process_events`, `run_worker_tree`) -/

inductive Op where
  /-- Modify(Data) on a source or on a dependency: write + `source_changed` -/
  | edit (p : Path) (c : Content)
  /-- Create: write; `collect_work` runs at the end of the batch -/
  | add (p : Path) (c : Content)
  /-- Remove(File): delete + `remove_source` -/
  | removeFile (p : Path)
  /-- Remove(Folder): delete everything below + `remove_source` (one event for the folder) -/
  | removeDir (d : Path)
  | setConfig (k : Cfg)
  | collectWork
  /-- end of a debounced batch: `collect_work` if something was created, then `process` -/
  | process
  deriving DecidableEq, Repr

def ofOpt : Option State → Outcome
  | some st => .ok st
  | none => .panic

def fsRemoveTree (fs : Fs) (p : Path) : Fs := fs.filter fun e => !(startsWith e.1 p)

/-- the state `process` works on: `collect_work` first when a file was created -/
def preProcess (P : Params) (st : State) : State :=
  if st.hasCreated then { collectWork P st with hasCreated := false } else st

def step (P : Params) (fuel : Nat) (st : State) : Op → Outcome
  | .edit p c => ofOpt (sourceChanged { st with fs := ainsert st.fs p c } p)
  | .add p c => .ok { st with fs := ainsert st.fs p c, hasCreated := true }
  | .removeFile p => ofOpt (removeSource { st with fs := fsRemoveTree st.fs p } p)
  | .removeDir d => ofOpt (removeSource { st with fs := fsRemoveTree st.fs d } d)
  | .setConfig k => .ok { st with cfg := k }
  | .collectWork => .ok (collectWork P st)
  | .process => processTree P fuel (preProcess P st)

/-- `WorkerTree::snapshot_output_structure`. On memory resources `Resources::exists(location)`
is "`location` is a file key", so for an output *folder* the snapshot is never taken
(`output_structure` stays `None`) and `clean_files` skips the ancestor pruning altogether. -/
def snapshotOutputStructure (P : Params) (fs : Fs) : Option (List Path) :=
  match (alookup fs P.output).isSome && fs.any (fun e => e.1 != P.output && startsWith e.1 P.output) with
  | true => some ((fs.map (·.1)).filter fun p => startsWith p P.output)
  | false => none

/-- `darklua_core::process` (src/frontend/mod.rs) as `FileWatcher::start` calls it first:
snapshot of the output structure, `collect_work`, `process`. -/
def start (P : Params) (fuel : Nat) (fs : Fs) (cfg : Cfg) : Outcome :=
  let st0 := State.empty fs cfg
  let st1 := { st0 with outputStructure := snapshotOutputStructure P fs }
  processTree P fuel (collectWork P st1)

def runOps (P : Params) (fuel : Nat) : Outcome → List Op → Outcome
  | .ok st, op :: ops => runOps P fuel (step P fuel st op) ops
  | o, _ => o

/-- A whole watch session: first run, the history, and the closing `process`. -/
def run (P : Params) (fuel : Nat) (fs : Fs) (cfg : Cfg) (h : List Op) : Outcome :=
  runOps P fuel (start P fuel fs cfg) (h ++ [.process])

/-- fuel that always suffices (see `no_loop`) -/
def defaultFuel : Nat := 1

/-! ### public observers used by the correspondence -/

def successCount (st : State) : Nat :=
  (st.nodes.filter fun o => match o with | some it => it.status == .done true | none => false).length

def errorCount (st : State) : Nat :=
  (st.nodes.filter fun o => match o with | some it => it.status == .done false | none => false).length

/-- `iter_external_dependencies`: keys with a non-empty container -/
def externalKeys (st : State) : List Path := (st.extDeps.map (·.1)).eraseDups

end DarkluaModel.C10

namespace DarkluaModel.C10

/-! ### the decidable hypothesis `H10`: histories that stay outside the defective regions

A monitor that runs next to the model. `last` is a ghost: the configuration of the last
pass that ran (`process` does not store it, only its hash). -/

inductive Region where
  /-- a file is created whose absence shaped the result of a finished item (failed `require`):
  nothing links the item to the path it did not find -/
  | F12
  /-- the configuration changed but its hash did not (rule filters are not serialised) -/
  | F13
  /-- an item that fails while an earlier output of it exists: the stale output is kept -/
  | E
  /-- outside the modelled protocol: an event path inside the output folder, a Modify event
  for a source that does not exist, a source path that is also a directory, a queued output
  path that is a directory -/
  | X
  deriving DecidableEq, Repr

def strictlyUnder (q p : Path) : Bool := q != p && startsWith q p

def regionOfRemove (P : Params) (st : State) (p : Path) : Option Region :=
  if startsWith p P.output || startsWith P.output p then some .X
  else match alookup st.nodeMap p with
  | some _ => if st.nodeMap.any (fun e => strictlyUnder e.1 p) then some .X else none
  | none => none

/-- does some finished item see a different result when `fs` becomes `fs'`? -/
def staleAfter (P : Params) (last : Cfg) (st : State) (fs' : Fs) : Bool :=
  st.nodes.any fun o => match o with
    | some it => it.status.isDone &&
        !(decide (P.T last (alookup fs') it.source = P.T last (alookup st.fs) it.source))
    | none => false

def regionOfWrite (P : Params) (last : Cfg) (st : State) (p : Path) (c : Content) (isAdd : Bool) :
    Option Region :=
  if startsWith p P.output then some .X
  else if !isAdd && (alookup st.fs p).isNone && startsWith p P.input && P.isLua p then some .X
  else if (isAdd || (alookup st.fs p).isNone) && staleAfter P last st (ainsert st.fs p c)
  then some .F12 else none

/-- a current item's output lies strictly below a queued output path (X) -/
def outputUnder (st : State) : Bool :=
  st.removeFiles.any fun q => st.nodes.any fun o =>
    match o with | some it => strictlyUnder it.output q | none => false

/-- a pending item fails while a file sits at its output path (E) -/
def failsOverOutput (P : Params) (st : State) : Bool :=
  st.nodes.any fun o => match o with
    | some it => !it.status.isDone && (P.T st.cfg (alookup st.fs) it.source).out.isNone
        && (alookup st.fs it.output).isSome
    | none => false

/-- the checks on the state after the configuration step -/
def regionAfterConfig (P : Params) (st1 : State) : Option Region :=
  if outputUnder st1 then some .X
  else if failsOverOutput P st1 then some .E
  else none

def regionOfProcess (P : Params) (last : Cfg) (st : State) : Option Region :=
  let st0 := preProcess P st
  if st0.lastHash == some (P.configHash st0.cfg) && st0.cfg != last then some .F13
  else regionAfterConfig P (configStep P st0)

def regionOf (P : Params) (last : Cfg) (st : State) : Op → Option Region
  | .edit p c => regionOfWrite P last st p c false
  | .add p c => regionOfWrite P last st p c true
  | .removeFile p => regionOfRemove P st p
  | .removeDir d => regionOfRemove P st d
  | .setConfig _ => none
  | .collectWork => none
  | .process => regionOfProcess P last st

/-- ghost update: after a pass the results belong to the current configuration -/
def nextLast (last : Cfg) (st' : State) : Op → Cfg
  | .process => st'.cfg
  | _ => last

/-- first excluded region a list of operations meets from `st` (none = stays inside `H10`) -/
def firstRegion (P : Params) (fuel : Nat) : State → Cfg → List Op → Option Region
  | _, _, [] => none
  | st, last, op :: ops =>
    match regionOf P last st op with
    | some r => some r
    | none =>
      match step P fuel st op with
      | .ok st' => firstRegion P fuel st' (nextLast last st' op) ops
      | _ => none

/-- first excluded region of a whole session (first run, history, closing `process`) -/
def sessionRegion (P : Params) (fuel : Nat) (fs : Fs) (cfg : Cfg) (h : List Op) : Option Region :=
  match start P fuel fs cfg with
  | .ok st => firstRegion P fuel st cfg (h ++ [.process])
  | _ => none

/-- `H10`: the session meets no excluded region. -/
def H10 (P : Params) (fuel : Nat) (fs : Fs) (cfg : Cfg) (h : List Op) : Bool :=
  (sessionRegion P fuel fs cfg h).isNone

end DarkluaModel.C10
