import DarkluaModel.C10.Model
import DarkluaModel.C10.Spec
/-!
# C10 — concrete counterexamples to the full statement, evaluated in the model

A four-file project: plain source `A`, bundle entry `ENTRY` (in its own folder) whose output
depends on the external file `DEP`, a late file `NEW`, one foreign file in the output folder.
Configurations 0/1 differ visibly (different hash), 2 differs from 0 only in a rule filter
(same hash — what F22 does to the serialisation).
-/
namespace DarkluaModel.C10

def wA : Path := [0, 10]
def wENTRY : Path := [0, 2, 11]
def wDIR : Path := [0, 2]
def wDEP : Path := [3]
def wNEW : Path := [0, 12]
def wFOREIGN : Path := [1, 9]
def wC : Path := [0, 4, 10]
def wSUB : Path := [0, 4]

def wT : Cfg → (Path → Option Content) → Path → TRes := fun cfg fs p =>
  if p = wENTRY then
    match fs wENTRY, fs wDEP with
    | some c, some d => ⟨some (1000 + 100 * cfg + 10 * c + d), [wDEP]⟩
    | _, _ => ⟨none, []⟩
  else
    match fs p with
    | some c => if c = 99 then ⟨none, []⟩ else ⟨some (100 * cfg + c), []⟩
    | none => ⟨none, []⟩

def wP : Params :=
  { T := wT
    configHash := fun k => if k = 2 then 0 else k
    input := [0]
    output := [1]
    isLua := fun p => match p.getLast? with
      | some c => c == 10 || c == 11 || c == 12
      | none => false }

def wInit : Fs := [(wA, 1), (wENTRY, 2), (wDEP, 3), (wFOREIGN, 7), (wC, 6)]
/-- the dependency is missing at the start: the entry fails from the first run on -/
def wInit12 : Fs := [(wA, 1), (wENTRY, 2), (wFOREIGN, 7)]

def hF10 : List Op := [.removeDir wDIR, .edit wDEP 4]
def hF11 : List Op := [.removeFile wA]
def hF11b : List Op := [.removeFile wA, .add wA 5]
def hF12 : List Op := [.add wDEP 3]
def hF13 : List Op := [.setConfig 2]
def hE : List Op := [.edit wA 99]
/-- a non-trivial history inside `H10` -/
def hGood : List Op :=
  [.edit wA 5, .edit wDEP 4, .process, .removeFile wA, .add wNEW 6, .setConfig 1, .process,
   .removeDir wSUB, .edit wNEW 8, .add wA 4]

/-- Bool test: the session ends without panic and differs from the fresh run at `q` -/
def differsAt (P : Params) (init : Fs) (cfg : Cfg) (h : List Op) (q : Path) : Bool :=
  match run P defaultFuel init cfg h with
  | .ok st => startsWith q P.output && !(decide (alookup st.fs q = freshOut P st.cfg init st.fs q))
  | _ => false

def panics (P : Params) (init : Fs) (cfg : Cfg) (h : List Op) : Bool :=
  match run P defaultFuel init cfg h with
  | .panic => true
  | _ => false

theorem not_refines_of_differsAt {P : Params} {init : Fs} {cfg : Cfg} {h : List Op} {q : Path}
    (hd : differsAt P init cfg h q = true) : ¬ Refines P init cfg h := by
  unfold differsAt at hd
  unfold Refines
  cases hr : run P defaultFuel init cfg h with
  | ok st =>
    rw [hr] at hd
    simp only [Bool.and_eq_true, Bool.not_eq_true', decide_eq_false_iff_not] at hd
    intro hall
    exact hd.2 (hall q hd.1)
  | panic => simp
  | hang => simp

theorem not_refines_of_panics {P : Params} {init : Fs} {cfg : Cfg} {h : List Op}
    (hp : panics P init cfg h = true) : ¬ Refines P init cfg h := by
  unfold panics at hp
  unfold Refines
  cases hr : run P defaultFuel init cfg h with
  | ok st => rw [hr] at hp; simp at hp
  | panic => simp
  | hang => simp

/-- F10 is fixed in /repo (the directory branch unregisters the removed items and restarts the
dependants of everything below the folder): the former panic witness now lies inside `H10` -/
theorem hF10_inside : H10 wP 1 wInit 0 hF10 = true := by decide
/-- F11 is fixed in /repo (`process` runs `clean_files` before its early return): the former
counterexample now lies inside `H10` -/
theorem hF11_inside : H10 wP 1 wInit 0 hF11 = true := by decide
/-- F11b is fixed in /repo (`insert_source` takes the output off `remove_files`) -/
theorem hF11b_inside : H10 wP 1 wInit 0 hF11b = true := by decide
theorem witness_F12_not_refines : ¬ Refines wP wInit12 0 hF12 :=
  not_refines_of_differsAt (q := [1, 2, 11]) (by decide)
theorem witness_F13_not_refines : ¬ Refines wP wInit 0 hF13 :=
  not_refines_of_differsAt (q := [1, 10]) (by decide)
theorem witness_E_not_refines : ¬ Refines wP wInit 0 hE :=
  not_refines_of_differsAt (q := [1, 10]) (by decide)

/-- each counterexample sits in the region named after it, and `hGood` is inside `H10` -/
theorem witness_regions :
    sessionRegion wP 1 wInit12 0 hF12 = some .F12
    ∧ sessionRegion wP 1 wInit 0 hF13 = some .F13 ∧ sessionRegion wP 1 wInit 0 hE = some .E := by
  decide

/-! ### the witness project is well-formed -/

theorem wDepSound : DepSound wP := by
  intro cfg fs fs' p hp hq
  have key : ∀ q, startsWith q wP.output = false → (q = p ∨ fs q = none ∨ q ∈ (wP.T cfg fs p).deps) →
      fs' q = fs q := by
    intro q hqo hcase
    apply Classical.byContradiction
    intro hne
    have := hq q (fun h => hne h.symm)
    rcases this with h | ⟨h1, h2, h3⟩
    · rw [hqo] at h; cases h
    · rcases hcase with h | h | h
      · exact h1 h
      · exact h3 h
      · exact h2 h
  show wT cfg fs' p = wT cfg fs p
  by_cases hpe : p = wENTRY
  · subst hpe
    have h1 : fs' wENTRY = fs wENTRY := key wENTRY (by decide) (Or.inl rfl)
    cases hE : fs wENTRY with
    | none => simp [wT, h1, hE]
    | some c =>
      cases hD : fs wDEP with
      | none =>
        have h2 : fs' wDEP = fs wDEP := key wDEP (by decide) (Or.inr (Or.inl hD))
        simp [wT, h1, h2, hE, hD]
      | some d =>
        have hmem : wDEP ∈ (wP.T cfg fs wENTRY).deps := by
          show wDEP ∈ (wT cfg fs wENTRY).deps
          simp [wT, hE, hD]
        have h2 : fs' wDEP = fs wDEP := key wDEP (by decide) (Or.inr (Or.inr hmem))
        simp [wT, h1, h2, hE, hD]
  · have h1 : fs' p = fs p := key p hp (Or.inl rfl)
    simp [wT, hpe, h1]

theorem wWF : WF wP wInit := ⟨by decide, by decide, wDepSound, by decide⟩
theorem wWF12 : WF wP wInit12 := ⟨by decide, by decide, wDepSound, by decide⟩

theorem hGood_inside : H10 wP 1 wInit 0 hGood = true := by decide

/-- a state with three pending items (for the non-vacuity example of `no_loop`) -/
def wPending : State :=
  collectWork wP (State.empty wInit 0)

end DarkluaModel.C10


