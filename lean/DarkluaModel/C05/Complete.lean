import DarkluaModel.C05.Graph
/-!
C05 helper lemmas: completeness of cycle detection — if the walk reports no cycle, the files it
finished (defined or gave up on) are ranked so that every require goes down in rank.
-/
namespace DarkluaModel.C05

variable {P : Type} [DecidableEq P]

/-- files the walk is done with: defined (cached) or failed (skipped) -/
def St.finished (st : St P) : List P := st.cache.map (·.1) ++ st.skip

def HasCyc (st : St P) : Prop := ∃ ps, Err.cyclic ps ∈ st.errors

/-- finished files are closed under requires and strictly ranked along them -/
def Nice (G : Graph P) (st : St P) : Prop :=
  ∃ rk : P → Nat, ∀ p, p ∈ st.finished → ∀ q, Edge G p q → q ∈ st.finished ∧ rk q < rk p

def FreshF (stack : List P) (st : St P) : Prop := ∀ x ∈ stack, x ∉ st.finished

def Ready (G : Graph P) (q : P) (st : St P) : Prop := ∀ q', Edge G q q' → q' ∈ st.finished

theorem lookup_none_not_mem {α : Type} (p : P) (l : List (P × α)) (h : lookup p l = none) : p ∉ l.map (·.1) := by
  induction l with
  | nil => simp
  | cons e l ih =>
    obtain ⟨k, v⟩ := e
    simp only [lookup] at h
    split at h
    · cases h
    · rename_i hk
      simp only [List.map_cons, List.mem_cons, not_or]
      exact ⟨fun e => hk e.symm, ih h⟩

theorem lookup_some_mem {α : Type} (p : P) (l : List (P × α)) (v : α) (h : lookup p l = some v) : p ∈ l.map (·.1) := by
  induction l with
  | nil => simp [lookup] at h
  | cons e l ih =>
    obtain ⟨k, w⟩ := e
    simp only [lookup] at h
    split at h
    · rename_i hk; subst hk; simp
    · simp only [List.map_cons, List.mem_cons]; exact Or.inr (ih h)

def listMax (f : P → Nat) : List P → Nat
  | [] => 0
  | x :: xs => max (f x) (listMax f xs)

theorem le_listMax (f : P → Nat) (l : List P) (x : P) (h : x ∈ l) : f x ≤ listMax f l := by
  induction l with
  | nil => cases h
  | cons y l ih =>
    simp only [listMax]
    rcases List.mem_cons.mp h with h | h
    · subst h; omega
    · have := ih h; omega

/-- finishing one more file whose requires are all finished keeps the ranking -/
theorem nice_add (G : Graph P) (st st' : St P) (q : P) (h : Nice G st)
    (hfin : ∀ x, x ∈ st'.finished ↔ x = q ∨ x ∈ st.finished)
    (hq : q ∉ st.finished) (hready : Ready G q st) : Nice G st' := by
  obtain ⟨rk, hrk⟩ := h
  refine ⟨fun x => if x = q then listMax rk st.finished + 1 else rk x, ?_⟩
  intro p hp y hy
  rcases (hfin p).mp hp with hpq | hp
  · subst hpq
    have hyf := hready y hy
    have hyq : ¬ y = p := fun e => hq (e ▸ hyf)
    refine ⟨(hfin y).mpr (Or.inr hyf), ?_⟩
    simp only [hyq, if_false, if_true]
    have := le_listMax rk st.finished y hyf
    omega
  · have hpq : ¬ p = q := fun e => hq (e ▸ hp)
    have := hrk p hp y hy
    have hyq : ¬ y = q := fun e => hq (e ▸ this.1)
    refine ⟨(hfin y).mpr (Or.inr this.1), ?_⟩
    simp only [hpq, hyq, if_false]
    exact this.2

/-- the disjunction carried through the walk -/
def D (G : Graph P) (stack : List P) (st : St P) : Prop := HasCyc st ∨ (Nice G st ∧ FreshF stack st)

/-- contract of `inline_require` on `q` for the completeness argument -/
def InlSpecC (G : Graph P) (stack : List P) (inl : P → St P → Except (Err P) Nat × St P) (q : P) : Prop :=
  ∀ st, D G stack st → q ∉ st.skip →
    HasCyc (inl q st).2 ∨ (∃ ps, (inl q st).1 = .error (.cyclic ps)) ∨
    (Nice G (inl q st).2 ∧ FreshF stack (inl q st).2 ∧ (∀ x, x ∈ st.finished → x ∈ (inl q st).2.finished) ∧
      (∀ i, (inl q st).1 = .ok i → q ∈ (inl q st).2.finished) ∧
      (∀ e, (inl q st).1 = .error e → Ready G q (inl q st).2 ∧ q ∉ (inl q st).2.finished ∧ q ∉ stack))

theorem hasCyc_mono {st : St P} (h : HasCyc st) (errs : List (Err P)) (c : List (P × Nat)) (sk : List P)
    (d : List (P × List (Option Nat))) : HasCyc ⟨c, sk, d, st.errors ++ errs⟩ := by
  obtain ⟨ps, hps⟩ := h
  exact ⟨ps, List.mem_append_left _ hps⟩

theorem mem_finished_skip_cons (st : St P) (p x : P) (errs : List (Err P)) :
    x ∈ ({ st with errors := errs, skip := p :: st.skip } : St P).finished ↔ x = p ∨ x ∈ st.finished := by
  simp only [St.finished, List.mem_append, List.mem_cons]
  constructor
  · rintro (h | h | h)
    · exact Or.inr (Or.inl h)
    · exact Or.inl h
    · exact Or.inr (Or.inr h)
  · rintro (h | h | h)
    · exact Or.inr (Or.inl h)
    · exact Or.inl h
    · exact Or.inr (Or.inr h)

theorem mem_finished_cache_cons (st : St P) (p x : P) (i : Nat) (d : List (P × List (Option Nat))) :
    x ∈ ({ st with defs := d, cache := (p, i) :: st.cache } : St P).finished ↔ x = p ∨ x ∈ st.finished := by
  simp only [St.finished, List.map_cons, List.mem_append, List.mem_cons]
  constructor
  · rintro ((h | h) | h)
    · exact Or.inl h
    · exact Or.inr (Or.inl h)
    · exact Or.inr (Or.inr h)
  · rintro (h | h | h)
    · exact Or.inl (Or.inl h)
    · exact Or.inl (Or.inr h)
    · exact Or.inr h

/-- what one step of the walk on a site whose active file target is `tgt` establishes -/
def Step (G : Graph P) (stack : List P) (st st' : St P) (tgt : Option P) : Prop :=
  HasCyc st' ∨ (Nice G st' ∧ FreshF stack st' ∧ (∀ x, x ∈ st.finished → x ∈ st'.finished) ∧
    ∀ q, tgt = some q → q ∈ st'.finished)

def activeTarget (isEntry : Bool) (s : Site P) : Option P :=
  if (isEntry && s.shadowed) = false then
    match s.target with
    | .file q => some q
    | _ => none
  else none

theorem tryInline_specC (G : Graph P) (stack : List P)
    (inl : P → St P → Except (Err P) Nat × St P) (isEntry : Bool) (s : Site P)
    (hinl : ∀ q, activeTarget isEntry s = some q → InlSpecC G stack inl q)
    (st : St P) (h : D G stack st) :
    Step G stack st (tryInline inl isEntry s st).2 (activeTarget isEntry s) := by
  have same : ∀ (tgt : Option P), tgt = none → Step G stack st st tgt := by
    intro tgt ht
    rcases h with h | h
    · exact Or.inl h
    · exact Or.inr ⟨h.1, h.2, fun _ hx => hx, fun q hq => by rw [ht] at hq; cases hq⟩
  unfold tryInline
  split
  · rename_i hsh
    exact same _ (by simp [activeTarget, hsh])
  · rename_i hsh
    have hsh' : (isEntry && s.shadowed) = false := by simpa using hsh
    split
    · rename_i ht
      exact same _ (by simp [activeTarget, hsh', ht])
    · rename_i q0 ht
      rcases h with h | h
      · exact Or.inl (hasCyc_mono h _ _ _ _)
      · exact Or.inr ⟨h.1, h.2, fun _ hx => hx, fun q hq => by simp [activeTarget, hsh', ht] at hq⟩
    · rename_i p ht
      have hat : activeTarget isEntry s = some p := by simp [activeTarget, hsh', ht]
      rw [hat]
      split
      · rename_i hsk
        have hp : p ∈ st.finished := List.mem_append_right _ (by simpa using hsk)
        rcases h with h | h
        · exact Or.inl h
        · exact Or.inr ⟨h.1, h.2, fun _ hx => hx, fun q hq => by cases hq; exact hp⟩
      · rename_i hsk
        have hsk' : p ∉ st.skip := by simpa using hsk
        have hs := hinl p hat st h hsk'
        split
        · rename_i i st' heq
          rw [heq] at hs
          rcases hs with hs | ⟨ps, hs⟩ | hs
          · exact Or.inl hs
          · cases hs
          · exact Or.inr ⟨hs.1, hs.2.1, hs.2.2.1, fun q hq => by cases hq; exact hs.2.2.2.1 i rfl⟩
        · rename_i e st' heq
          rw [heq] at hs
          rcases hs with hs | ⟨ps, hs⟩ | hs
          · exact Or.inl (hasCyc_mono hs _ _ _ _)
          · simp at hs; subst hs
            exact Or.inl ⟨ps, by simp⟩
          · obtain ⟨hn, hf, hm, _, he⟩ := hs
            obtain ⟨hr, hq, hst⟩ := he e rfl
            refine Or.inr ⟨?_, ?_, ?_, ?_⟩
            · exact nice_add G st' _ p hn (fun x => mem_finished_skip_cons st' p x _) hq hr
            · intro x hx hxf
              rcases (mem_finished_skip_cons st' p x _).mp hxf with hxp | hxf
              · subst hxp; exact hst hx
              · exact hf x hx hxf
            · intro x hx
              exact (mem_finished_skip_cons st' p x _).mpr (Or.inr (hm x hx))
            · intro q' hq'; cases hq'
              exact (mem_finished_skip_cons st' p p _).mpr (Or.inl rfl)

/-- errors are only ever appended -/
def ErrPre (st st' : St P) : Prop := ∃ l, st'.errors = st.errors ++ l

theorem ErrPre.refl (st : St P) : ErrPre st st := ⟨[], by simp⟩
theorem ErrPre.trans {a b c : St P} (h1 : ErrPre a b) (h2 : ErrPre b c) : ErrPre a c := by
  obtain ⟨l1, h1⟩ := h1; obtain ⟨l2, h2⟩ := h2
  exact ⟨l1 ++ l2, by rw [h2, h1, List.append_assoc]⟩
theorem ErrPre.hasCyc {a b : St P} (h : ErrPre a b) (hc : HasCyc a) : HasCyc b := by
  obtain ⟨l, hl⟩ := h; obtain ⟨ps, hps⟩ := hc
  exact ⟨ps, by rw [hl]; exact List.mem_append_left _ hps⟩

theorem tryInline_errPre (inl : P → St P → Except (Err P) Nat × St P) (isEntry : Bool) (s : Site P)
    (hinl : ∀ q st, ErrPre st (inl q st).2) (st : St P) : ErrPre st (tryInline inl isEntry s st).2 := by
  unfold tryInline
  split
  · exact ErrPre.refl _
  · split
    · exact ErrPre.refl _
    · exact ⟨_, rfl⟩
    · rename_i p _
      split
      · exact ErrPre.refl _
      · have := hinl p st
        split
        · rename_i i st' heq; rw [heq] at this; exact this
        · rename_i e st' heq; rw [heq] at this
          exact this.trans ⟨[e], rfl⟩

theorem visit_errPre (inl : P → St P → Except (Err P) Nat × St P) (isEntry : Bool) (sites : List (Site P))
    (hinl : ∀ q st, ErrPre st (inl q st).2) (st : St P) : ErrPre st (visit inl isEntry sites st).2 := by
  induction sites generalizing st with
  | nil => exact ErrPre.refl _
  | cons s rest ih =>
    simp only [visit]
    exact (tryInline_errPre inl isEntry s hinl st).trans (ih _)

theorem inlineRequire_errPre (G : Graph P) (n : Nat) : ∀ stack p st, ErrPre st (inlineRequire G n stack p st).2 := by
  induction n with
  | zero => intro stack p st; exact ErrPre.refl _
  | succ n ih =>
    intro stack p st
    unfold inlineRequire
    split
    · exact ErrPre.refl _
    · split
      · exact ErrPre.refl _
      · split
        · exact ErrPre.refl _
        · exact ErrPre.refl _
        · exact ErrPre.refl _
        · exact ⟨[], by simp⟩
        · rename_i sites ret _
          have hv := visit_errPre (inlineRequire G n (stack ++ [p])) true sites (ih (stack ++ [p])) st
          split
          · exact hv
          · exact hv
          · obtain ⟨l, hl⟩ := hv; exact ⟨l, hl⟩

def Steps (G : Graph P) (stack : List P) (isEntry : Bool) (sites : List (Site P)) (st st' : St P) : Prop :=
  HasCyc st' ∨ (Nice G st' ∧ FreshF stack st' ∧ (∀ x, x ∈ st.finished → x ∈ st'.finished) ∧
    ∀ s ∈ sites, ∀ q, activeTarget isEntry s = some q → q ∈ st'.finished)

theorem visit_specC (G : Graph P) (stack : List P)
    (inl : P → St P → Except (Err P) Nat × St P) (isEntry : Bool) (sites : List (Site P))
    (hpre : ∀ q st, ErrPre st (inl q st).2)
    (hinl : ∀ s ∈ sites, ∀ q, activeTarget isEntry s = some q → InlSpecC G stack inl q)
    (st : St P) (h : D G stack st) :
    Steps G stack isEntry sites st (visit inl isEntry sites st).2 := by
  induction sites generalizing st with
  | nil =>
    rcases h with h | h
    · exact Or.inl h
    · exact Or.inr ⟨h.1, h.2, fun _ hx => hx, fun s hs => by cases hs⟩
  | cons s rest ih =>
    simp only [visit]
    have h1 := tryInline_specC G stack inl isEntry s (hinl s List.mem_cons_self) st h
    rcases h1 with h1 | h1
    · exact Or.inl ((visit_errPre inl isEntry rest hpre _).hasCyc h1)
    · have h2 := ih (fun s' hs' => hinl s' (List.mem_cons_of_mem _ hs')) _ (Or.inr ⟨h1.1, h1.2.1⟩)
      rcases h2 with h2 | h2
      · exact Or.inl h2
      · refine Or.inr ⟨h2.1, h2.2.1, fun x hx => h2.2.2.1 x (h1.2.2.1 x hx), ?_⟩
        intro s' hs' q hq
        rcases List.mem_cons.mp hs' with hs' | hs'
        · subst hs'; exact h2.2.2.1 q (h1.2.2.2 q hq)
        · exact h2.2.2.2 s' hs' q hq

theorem edge_of_get {G : Graph P} {q : P} {sites : List (Site P)} {ret : RetShape}
    (hget : G.get q = some (.lua sites ret)) (q' : P) (he : Edge G q q') :
    ∃ s ∈ sites, s.shadowed = false ∧ s.target = .file q' := by
  obtain ⟨sites', ret', hg, s, hs, hsh, ht⟩ := he
  rw [hget] at hg; cases hg
  exact ⟨s, hs, hsh, ht⟩

theorem inlineRequire_specC (G : Graph P) (n : Nat) :
    ∀ stack q, free G stack < n → InlSpecC G stack (inlineRequire G n stack) q := by
  induction n with
  | zero => intro stack q h; omega
  | succ n ih =>
    intro stack q hfree st hD hqskip
    rcases hD with hc | ⟨hn, hf⟩
    · exact Or.inl ((inlineRequire_errPre G (n + 1) stack q st).hasCyc hc)
    · unfold inlineRequire
      split
      · rename_i i hi
        refine Or.inr (Or.inr ⟨hn, hf, fun _ hx => hx, ?_, fun e he => by simp at he⟩)
        intro j _
        exact List.mem_append_left _ (lookup_some_mem q st.cache i hi)
      · rename_i hnone
        have hqfin : q ∉ st.finished := by
          intro h
          rcases List.mem_append.mp h with h | h
          · exact lookup_none_not_mem q st.cache hnone h
          · exact hqskip h
        split
        · rename_i i hi
          exact Or.inr (Or.inl ⟨_, rfl⟩)
        · rename_i hidx
          have hqstack : q ∉ stack := indexOf?_none_not_mem q stack hidx
          have noedge : ∀ m, G.get q = some m → (∀ sites ret, m ≠ .lua sites ret) → Ready G q st := by
            intro m hm hne q' ⟨sites, ret, hg, _⟩
            rw [hm] at hg; cases hg
            exact absurd rfl (hne sites ret)
          split
          · rename_i hget
            refine Or.inr (Or.inr ⟨hn, hf, fun _ hx => hx, fun i hi => by simp at hi, ?_⟩)
            intro e _
            refine ⟨?_, hqfin, hqstack⟩
            intro q' ⟨sites, ret, hg, _⟩; rw [hget] at hg; cases hg
          · rename_i hget
            refine Or.inr (Or.inr ⟨hn, hf, fun _ hx => hx, fun i hi => by simp at hi, ?_⟩)
            intro e _
            exact ⟨noedge _ hget (by intro _ _ h; cases h), hqfin, hqstack⟩
          · rename_i hget
            refine Or.inr (Or.inr ⟨hn, hf, fun _ hx => hx, fun i hi => by simp at hi, ?_⟩)
            intro e _
            exact ⟨noedge _ hget (by intro _ _ h; cases h), hqfin, hqstack⟩
          · rename_i hget
            -- data file: defined, no requires
            have hready := noedge _ hget (by intro _ _ h; cases h)
            refine Or.inr (Or.inr ⟨?_, ?_, ?_, ?_, fun e he => by simp at he⟩)
            · exact nice_add G st _ q hn (fun x => mem_finished_cache_cons st q x _ _) hqfin hready
            · intro x hx hxf
              rcases (mem_finished_cache_cons st q x _ _).mp hxf with h | h
              · subst h; exact hqstack hx
              · exact hf x hx h
            · intro x hx; exact (mem_finished_cache_cons st q x _ _).mpr (Or.inr hx)
            · intro i _; exact (mem_finished_cache_cons st q q _ _).mpr (Or.inl rfl)
          · rename_i sites ret hget
            have hf' : FreshF (stack ++ [q]) st := by
              intro x hx
              rcases List.mem_append.mp hx with hx | hx
              · exact hf x hx
              · have : x = q := by simpa using hx
                subst this; exact hqfin
            have hfree' : free G (stack ++ [q]) < n := by
              have := free_lt G stack q _ hqstack hget
              omega
            have hv := visit_specC G (stack ++ [q]) (inlineRequire G n (stack ++ [q])) true sites
              (inlineRequire_errPre G n (stack ++ [q]))
              (fun s _ q' _ => ih (stack ++ [q]) q' hfree') st (Or.inr ⟨hn, hf'⟩)
            rcases hv with hv | ⟨hn1, hf1, hm1, hdone⟩
            · -- a cycle was reported below: it stays reported whatever happens next
              split
              · exact Or.inl hv
              · exact Or.inl hv
              · obtain ⟨ps, hps⟩ := hv; exact Or.inl ⟨ps, hps⟩
            · have hfs : FreshF stack (visit (inlineRequire G n (stack ++ [q])) true sites st).2 :=
                fun x hx => hf1 x (List.mem_append_left _ hx)
              have hq1 : q ∉ (visit (inlineRequire G n (stack ++ [q])) true sites st).2.finished :=
                hf1 q (by simp)
              have hready : Ready G q (visit (inlineRequire G n (stack ++ [q])) true sites st).2 := by
                intro q' he
                obtain ⟨s, hs, hsh, ht⟩ := edge_of_get hget q' he
                exact hdone s hs q' (by simp [activeTarget, hsh, ht])
              split
              · exact Or.inr (Or.inr ⟨hn1, hfs, hm1, fun i hi => by simp at hi, fun e _ => ⟨hready, hq1, hqstack⟩⟩)
              · exact Or.inr (Or.inr ⟨hn1, hfs, hm1, fun i hi => by simp at hi, fun e _ => ⟨hready, hq1, hqstack⟩⟩)
              · refine Or.inr (Or.inr ⟨?_, ?_, ?_, ?_, fun e he => by simp at he⟩)
                · exact nice_add G _ _ q hn1 (fun x => mem_finished_cache_cons _ q x _ _) hq1 hready
                · intro x hx hxf
                  rcases (mem_finished_cache_cons _ q x _ _).mp hxf with h | h
                  · subst h; exact hqstack hx
                  · exact hfs x hx h
                · intro x hx; exact (mem_finished_cache_cons _ q x _ _).mpr (Or.inr (hm1 x hx))
                · intro i _; exact (mem_finished_cache_cons _ q q _ _).mpr (Or.inl rfl)

end DarkluaModel.C05
