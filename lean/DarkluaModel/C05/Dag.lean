import DarkluaModel.C05.Graph
/-!
C05 helper lemmas: the state invariant of the inlining walk (definitions are emitted in
dependency order, one per file).
-/
namespace DarkluaModel.C05

variable {P : Type} [DecidableEq P]

def St.paths (st : St P) : List P := st.defs.map (·.1)

structure Inv (G : Graph P) (R : P → Prop) (st : St P) : Prop where
  cache_def : ∀ (p : P) (i : Nat), lookup p st.cache = some i → st.paths[i]? = some p
  def_cache : ∀ (i : Nat) (p : P), st.paths[i]? = some p → lookup p st.cache = some i
  rank : ∀ (i : Nat) (p : P), st.paths[i]? = some p → ∀ q, Edge G p q → q ∈ st.skip ∨ ∃ j : Nat, j < i ∧ st.paths[j]? = some q
  reach : ∀ (i : Nat) (p : P), st.paths[i]? = some p → R p
  skipErr : st.skip ≠ [] → st.errors ≠ []

def Ext (st st' : St P) : Prop :=
  (∀ (i : Nat) (p : P), st.paths[i]? = some p → st'.paths[i]? = some p) ∧ (∀ q, q ∈ st.skip → q ∈ st'.skip)

def Done (q : P) (st : St P) : Prop := q ∈ st.skip ∨ ∃ j : Nat, st.paths[j]? = some q

def Fresh (stack : List P) (st : St P) : Prop := ∀ x ∈ stack, lookup x st.cache = none

theorem Ext.refl (st : St P) : Ext st st := ⟨fun _ _ h => h, fun _ h => h⟩

theorem Ext.trans {a b c : St P} (h1 : Ext a b) (h2 : Ext b c) : Ext a c :=
  ⟨fun i p h => h2.1 i p (h1.1 i p h), fun q h => h2.2 q (h1.2 q h)⟩

theorem Done.mono {q : P} {a b : St P} (h : Done q a) (e : Ext a b) : Done q b := by
  rcases h with h | ⟨j, hj⟩
  · exact Or.inl (e.2 q h)
  · exact Or.inr ⟨j, e.1 j q hj⟩

/-- adding an error (and possibly a skipped path) keeps the invariant -/
theorem Inv.addError {G : Graph P} {R : P → Prop} {st : St P} (h : Inv G R st) (e : Err P) (sk : List P)
    (hsk : ∀ q, q ∈ st.skip → q ∈ sk) :
    Inv G R { st with errors := st.errors ++ [e], skip := sk } where
  cache_def := h.cache_def
  def_cache := h.def_cache
  rank := fun i p hp q hq => by
    rcases h.rank i p hp q hq with hs | hj
    · exact Or.inl (hsk q hs)
    · exact Or.inr hj
  reach := h.reach
  skipErr := fun _ => by simp

/-- appending the definition of `p` -/
theorem Inv.addDef {G : Graph P} {R : P → Prop} {st : St P} (h : Inv G R st) (p : P) (ds : List (Option Nat))
    (hnone : lookup p st.cache = none) (hR : R p) (hdone : ∀ q, Edge G p q → Done q st) :
    Inv G R { st with defs := st.defs ++ [(p, ds)], cache := (p, st.defs.length) :: st.cache } := by
  have hlen : st.paths.length = st.defs.length := by simp [St.paths]
  have hpaths : ({ st with defs := st.defs ++ [(p, ds)], cache := (p, st.defs.length) :: st.cache } : St P).paths
      = st.paths ++ [p] := by simp [St.paths]
  have hnotin : ∀ i : Nat, st.paths[i]? ≠ some p := fun i hi => by
    have := h.def_cache i p hi; rw [hnone] at this; cases this
  have hget : ∀ (i : Nat) (x : P), (st.paths ++ [p])[i]? = some x →
      (i < st.paths.length ∧ st.paths[i]? = some x) ∨ (i = st.paths.length ∧ x = p) := by
    intro i x hx
    by_cases hi : i < st.paths.length
    · rw [List.getElem?_append_left hi] at hx; exact Or.inl ⟨hi, hx⟩
    · have hi' : st.paths.length ≤ i := by omega
      rw [List.getElem?_append_right hi'] at hx
      cases hd : i - st.paths.length with
      | zero => rw [hd] at hx; simp at hx; exact Or.inr ⟨by omega, hx.symm⟩
      | succ k => rw [hd] at hx; simp at hx
  have hold : ∀ (i : Nat) (x : P), st.paths[i]? = some x → (st.paths ++ [p])[i]? = some x := by
    intro i x hx
    have hi : i < st.paths.length := by
      by_cases hi : i < st.paths.length
      · exact hi
      · have : st.paths[i]? = none := by simp; omega
        rw [this] at hx; cases hx
    rw [List.getElem?_append_left hi]; exact hx
  refine ⟨?_, ?_, ?_, ?_, h.skipErr⟩
  · intro x i hx
    rw [hpaths]
    simp only [lookup] at hx
    split at hx
    · rename_i hpx; simp at hx; subst hx; subst hpx
      rw [← hlen, List.getElem?_append_right (Nat.le_refl _)]; simp
    · exact hold i x (h.cache_def x i hx)
  · intro i x hx
    rw [hpaths] at hx
    rcases hget i x hx with ⟨_, hx'⟩ | ⟨hi, hxp⟩
    · have hne : ¬ p = x := fun hpx => hnotin i (hpx ▸ hx')
      simp only [lookup, hne, if_false]
      exact h.def_cache i x hx'
    · subst hxp; simp [lookup, hi, hlen]
  · intro i x hx q hq
    rw [hpaths] at hx ⊢
    rcases hget i x hx with ⟨_, hx'⟩ | ⟨hi, hxp⟩
    · rcases h.rank i x hx' q hq with hs | ⟨j, hj, hjq⟩
      · exact Or.inl hs
      · exact Or.inr ⟨j, hj, hold j q hjq⟩
    · subst hxp
      rcases hdone q hq with hs | ⟨j, hjq⟩
      · exact Or.inl hs
      · refine Or.inr ⟨j, ?_, hold j q hjq⟩
        have : j < st.paths.length := by
          by_cases hj : j < st.paths.length
          · exact hj
          · have : st.paths[j]? = none := by simp; omega
            rw [this] at hjq; cases hjq
        omega
  · intro i x hx
    rw [hpaths] at hx
    rcases hget i x hx with ⟨_, hx'⟩ | ⟨_, hxp⟩
    · exact h.reach i x hx'
    · subst hxp; exact hR

/-- what `inline_require` on `q` must guarantee (relative to the `require_stack`) -/
def InlSpec (G : Graph P) (R : P → Prop) (stack : List P) (inl : P → St P → Except (Err P) Nat × St P) (q : P) : Prop :=
  ∀ st, Inv G R st → Fresh stack st →
    Inv G R (inl q st).2 ∧ Ext st (inl q st).2 ∧ Fresh stack (inl q st).2 ∧
    (∀ i, (inl q st).1 = .ok i → (inl q st).2.paths[i]? = some q)

/-- the site is one the walk acts on -/
def Active (isEntry : Bool) (s : Site P) : Prop := (isEntry && s.shadowed) = false

theorem tryInline_spec (G : Graph P) (R : P → Prop) (stack : List P)
    (inl : P → St P → Except (Err P) Nat × St P) (isEntry : Bool) (s : Site P)
    (hinl : ∀ q, s.target = .file q → Active isEntry s → InlSpec G R stack inl q)
    (st : St P) (hI : Inv G R st) (hF : Fresh stack st) :
    Inv G R (tryInline inl isEntry s st).2 ∧ Ext st (tryInline inl isEntry s st).2 ∧
    Fresh stack (tryInline inl isEntry s st).2 ∧
    (∀ q, s.target = .file q → Active isEntry s → Done q (tryInline inl isEntry s st).2) := by
  unfold tryInline
  split
  · rename_i hsh
    refine ⟨hI, Ext.refl _, hF, ?_⟩
    intro q _ ha; simp [Active] at ha; simp at hsh
    exact absurd hsh.2 (by simpa using ha hsh.1)
  · rename_i hsh
    have ha : Active isEntry s := by simpa [Active] using hsh
    split
    · rename_i ht
      exact ⟨hI, Ext.refl _, hF, fun q hq _ => by rw [ht] at hq; cases hq⟩
    · rename_i q0 ht
      exact ⟨hI.addError _ _ (fun _ h => h), ⟨fun _ _ h => h, fun _ h => h⟩, hF,
        fun q hq _ => by rw [ht] at hq; cases hq⟩
    · rename_i p ht
      split
      · rename_i hsk
        refine ⟨hI, Ext.refl _, hF, ?_⟩
        intro q hq _
        rw [ht] at hq; cases hq
        exact Or.inl (by simpa using hsk)
      · have hs := hinl p ht ha st hI hF
        split
        · rename_i i st' heq
          rw [heq] at hs
          refine ⟨hs.1, hs.2.1, hs.2.2.1, ?_⟩
          intro q hq _
          rw [ht] at hq; cases hq
          exact Or.inr ⟨i, hs.2.2.2 i rfl⟩
        · rename_i e st' heq
          rw [heq] at hs
          refine ⟨hs.1.addError e (p :: st'.skip) (fun _ h => List.mem_cons_of_mem _ h), ?_, hs.2.2.1, ?_⟩
          · exact ⟨hs.2.1.1, fun q h => List.mem_cons_of_mem _ (hs.2.1.2 q h)⟩
          · intro q hq _
            rw [ht] at hq; cases hq
            exact Or.inl List.mem_cons_self

theorem visit_spec (G : Graph P) (R : P → Prop) (stack : List P)
    (inl : P → St P → Except (Err P) Nat × St P) (isEntry : Bool) (sites : List (Site P))
    (hinl : ∀ s ∈ sites, ∀ q, s.target = .file q → Active isEntry s → InlSpec G R stack inl q)
    (st : St P) (hI : Inv G R st) (hF : Fresh stack st) :
    Inv G R (visit inl isEntry sites st).2 ∧ Ext st (visit inl isEntry sites st).2 ∧
    Fresh stack (visit inl isEntry sites st).2 ∧
    (∀ s ∈ sites, ∀ q, s.target = .file q → Active isEntry s → Done q (visit inl isEntry sites st).2) := by
  induction sites generalizing st with
  | nil => exact ⟨hI, Ext.refl _, hF, fun s hs => by cases hs⟩
  | cons s rest ih =>
    simp only [visit]
    have h1 := tryInline_spec G R stack inl isEntry s (hinl s List.mem_cons_self) st hI hF
    have h2 := ih (fun s' hs' => hinl s' (List.mem_cons_of_mem _ hs')) _ h1.1 h1.2.2.1
    refine ⟨h2.1, h1.2.1.trans h2.2.1, h2.2.2.1, ?_⟩
    intro s' hs' q hq ha
    rcases List.mem_cons.mp hs' with hs' | hs'
    · subst hs'; exact (h1.2.2.2 q hq ha).mono h2.2.1
    · exact h2.2.2.2 s' hs' q hq ha

theorem fresh_snoc {stack : List P} {p : P} {st : St P} (h : Fresh (stack ++ [p]) st) :
    Fresh stack st ∧ lookup p st.cache = none :=
  ⟨fun x hx => h x (List.mem_append_left _ hx), h p (by simp)⟩

theorem inlineRequire_spec (G : Graph P) (R : P → Prop) (hR : ∀ p q, R p → Edge G p q → R q) (n : Nat) :
    ∀ stack p, R p → InlSpec G R stack (inlineRequire G n stack) p := by
  induction n with
  | zero =>
    intro stack p _ st hI hF
    exact ⟨hI, Ext.refl _, hF, fun i h => by simp [inlineRequire] at h⟩
  | succ n ih =>
    intro stack p hRp st hI hF
    unfold inlineRequire
    split
    · rename_i i hi
      exact ⟨hI, Ext.refl _, hF, fun j hj => by simp at hj; subst hj; exact hI.cache_def p i hi⟩
    · rename_i hnone
      split
      · exact ⟨hI, Ext.refl _, hF, fun j hj => by simp at hj⟩
      · rename_i hidx
        split
        · exact ⟨hI, Ext.refl _, hF, fun j hj => by simp at hj⟩
        · exact ⟨hI, Ext.refl _, hF, fun j hj => by simp at hj⟩
        · exact ⟨hI, Ext.refl _, hF, fun j hj => by simp at hj⟩
        · rename_i hget
          -- data file: a definition without edges
          have hnoedge : ∀ q, Edge G p q → Done q st := by
            intro q ⟨sites, ret, hg, _⟩; rw [hget] at hg; cases hg
          refine ⟨hI.addDef p [] hnone hRp hnoedge, ?_, ?_, ?_⟩
          · refine ⟨?_, fun _ h => h⟩
            intro i x hx
            have hi : i < st.paths.length := by
              by_cases hi : i < st.paths.length
              · exact hi
              · have : st.paths[i]? = none := by simp; omega
                rw [this] at hx; cases hx
            simp only [St.paths, List.map_append] at hx ⊢
            rw [List.getElem?_append_left (by simpa [St.paths] using hi)]; exact hx
          · intro x hx
            have hxp : ¬ p = x := by
              intro h; subst h
              exact (indexOf?_none_not_mem _ stack hidx) hx
            simp only [lookup, hxp, if_false]; exact hF x hx
          · intro j hj
            simp at hj; subst hj
            simp [St.paths]
        · rename_i sites ret hget
          have hF' : Fresh (stack ++ [p]) st := by
            intro x hx
            rcases List.mem_append.mp hx with hx | hx
            · exact hF x hx
            · have : x = p := by simpa using hx
              subst this; exact hnone
          have hv := visit_spec G R (stack ++ [p]) (inlineRequire G n (stack ++ [p])) true sites
            (fun s hs q hq ha => ih (stack ++ [p]) q
              (hR p q hRp ⟨sites, ret, hget, s, hs, by simpa [Active] using ha, hq⟩)) st hI hF'
          have hfr := fresh_snoc hv.2.2.1
          split
          · exact ⟨hv.1, hv.2.1, hfr.1, fun j hj => by simp at hj⟩
          · exact ⟨hv.1, hv.2.1, hfr.1, fun j hj => by simp at hj⟩
          · have hdone : ∀ q, Edge G p q →
                Done q (visit (inlineRequire G n (stack ++ [p])) true sites st).2 := by
              intro q ⟨sites', ret', hg, s, hs, hsh, hq⟩
              rw [hget] at hg; cases hg
              exact hv.2.2.2 s hs q hq (by simp [Active, hsh])
            refine ⟨hv.1.addDef p _ hfr.2 hRp hdone, ?_, ?_, ?_⟩
            · refine ⟨?_, fun q h => hv.2.1.2 q h⟩
              intro i x hx
              have hx' := hv.2.1.1 i x hx
              have hi : i < (visit (inlineRequire G n (stack ++ [p])) true sites st).2.paths.length := by
                by_cases hi : i < (visit (inlineRequire G n (stack ++ [p])) true sites st).2.paths.length
                · exact hi
                · have : (visit (inlineRequire G n (stack ++ [p])) true sites st).2.paths[i]? = none := by
                    simp; omega
                  rw [this] at hx'; cases hx'
              simp only [St.paths, List.map_append] at hx' ⊢
              rw [List.getElem?_append_left (by simpa [St.paths] using hi)]; exact hx'
            · intro x hx
              have hxp : ¬ p = x := by
                intro h; subst h
                exact (indexOf?_none_not_mem _ stack hidx) hx
              simp only [lookup, hxp, if_false]; exact hfr.1 x hx
            · intro j hj
              simp at hj; subst hj
              simp [St.paths]

end DarkluaModel.C05
