import DarkluaModel.C05.Model
/-!
C05 helper lemmas about the inlining walk (`inlineRequire`, `visit`, `tryInline`).
-/
namespace DarkluaModel.C05

variable {P : Type} [DecidableEq P]

/-- every collected error satisfies `E` -/
def ErrsSat (E : Err P → Prop) (st : St P) : Prop := ∀ e ∈ st.errors, E e

/-- what an `inline_require`-like function must guarantee for `visit` to preserve `ErrsSat E` -/
def InlOk (E : Err P → Prop) (inl : P → St P → Except (Err P) Nat × St P) (q : P) : Prop :=
  ∀ st, ErrsSat E st → ErrsSat E (inl q st).2 ∧ ∀ e, (inl q st).1 = .error e → E e

theorem tryInline_errs (E : Err P → Prop)
    (inl : P → St P → Except (Err P) Nat × St P) (isEntry : Bool) (s : Site P)
    (hnf : ∀ q, s.target = .notFound q → (isEntry && s.shadowed) = false → E (.notFound q))
    (hinl : ∀ q, s.target = .file q → (isEntry && s.shadowed) = false → InlOk E inl q) (st : St P)
    (h : ErrsSat E st) :
    ErrsSat E (tryInline inl isEntry s st).2 := by
  unfold tryInline
  split
  · exact h
  · rename_i hsh
    have hsh' : (isEntry && s.shadowed) = false := by simpa using hsh
    split
    · exact h
    · intro e he
      simp at he
      rcases he with he | he
      · exact h e he
      · rename_i q0 hq0
        subst he; exact hnf _ hq0 hsh'
    · rename_i p hp
      split
      · exact h
      · have := hinl p hp hsh' st h
        split
        · rename_i i st' heq
          rw [heq] at this
          exact this.1
        · rename_i e st' heq
          rw [heq] at this
          intro e' he'
          simp at he'
          rcases he' with he' | he'
          · exact this.1 e' he'
          · subst he'; exact this.2 _ rfl

theorem visit_errs (E : Err P → Prop)
    (inl : P → St P → Except (Err P) Nat × St P) (isEntry : Bool) (sites : List (Site P))
    (hnf : ∀ s ∈ sites, ∀ q, s.target = .notFound q → (isEntry && s.shadowed) = false → E (.notFound q))
    (hinl : ∀ s ∈ sites, ∀ q, s.target = .file q → (isEntry && s.shadowed) = false → InlOk E inl q) (st : St P)
    (h : ErrsSat E st) :
    ErrsSat E (visit inl isEntry sites st).2 := by
  induction sites generalizing st with
  | nil => exact h
  | cons s rest ih =>
    simp only [visit]
    apply ih
    · intro s' hs'; exact hnf s' (List.mem_cons_of_mem _ hs')
    · intro s' hs'; exact hinl s' (List.mem_cons_of_mem _ hs')
    · exact tryInline_errs E inl isEntry s (hnf s List.mem_cons_self) (hinl s List.mem_cons_self) st h

/-- Generic invariant of the walk: `Cond n stack p` is what the caller knows when it calls
`inlineRequire G n stack p`. -/
theorem inlineRequire_errs (G : Graph P) (E : Err P → Prop) (Cond : Nat → List P → P → Prop)
    (cnode : ∀ n stack p, Cond (n + 1) stack p → indexOf? p stack = none →
      (G.get p = none → E (.missing p)) ∧ (G.get p = some .parseError → E (.parse p)) ∧
      (G.get p = some .badExtension → E (.badExtension p)) ∧
      (∀ sites, G.get p = some (.lua sites .noReturn) → E (.noReturn p)) ∧
      (∀ sites, G.get p = some (.lua sites .many) → E (.manyReturn p)) ∧
      (∀ sites ret, G.get p = some (.lua sites ret) → ∀ s ∈ sites, s.shadowed = false → ∀ q, s.target = .notFound q →
        E (.notFound q)))
    (c0 : ∀ stack p, Cond 0 stack p → E .fuel)
    (c1 : ∀ n stack p i, Cond (n + 1) stack p → indexOf? p stack = some i → E (.cyclic (stack.drop i ++ [p])))
    (c2 : ∀ n stack p sites ret, Cond (n + 1) stack p → indexOf? p stack = none →
      G.get p = some (.lua sites ret) → ∀ s ∈ sites, s.shadowed = false → ∀ q, s.target = .file q →
        Cond n (stack ++ [p]) q)
    (n : Nat) : ∀ stack p, Cond n stack p → InlOk E (inlineRequire G n stack) p := by
  induction n with
  | zero =>
    intro stack p hc st h
    exact ⟨h, fun e he => by simp [inlineRequire] at he; subst he; exact c0 stack p hc⟩
  | succ n ih =>
    intro stack p hc st h
    unfold inlineRequire
    split
    · exact ⟨h, fun e he => by simp at he⟩
    · split
      · rename_i i hi
        exact ⟨h, fun e he => by simp at he; subst he; exact c1 n stack p i hc hi⟩
      · rename_i hidx
        have hn := cnode n stack p hc hidx
        split
        · rename_i hget
          exact ⟨h, fun e he => by simp at he; subst he; exact hn.1 hget⟩
        · rename_i hget
          exact ⟨h, fun e he => by simp at he; subst he; exact hn.2.1 hget⟩
        · rename_i hget
          exact ⟨h, fun e he => by simp at he; subst he; exact hn.2.2.1 hget⟩
        · exact ⟨h, fun e he => by simp at he⟩
        · rename_i sites ret hget
          have hv : ErrsSat E (visit (inlineRequire G n (stack ++ [p])) true sites st).2 :=
            visit_errs E _ true sites
              (fun s hs q hq ha => hn.2.2.2.2.2 sites ret hget s hs (by simpa using ha) q hq)
              (fun s hs q hq ha => ih (stack ++ [p]) q
                (c2 n stack p sites ret hc hidx hget s hs (by simpa using ha) q hq)) st h
          split
          · exact ⟨hv, fun e he => by simp at he; subst he; exact hn.2.2.2.1 sites hget⟩
          · exact ⟨hv, fun e he => by simp at he; subst he; exact hn.2.2.2.2.1 sites hget⟩
          · exact ⟨hv, fun e he => by simp at he⟩

/-! ### an invariant of the emitted definitions -/

/-- every emitted definition `(path, decisions)` satisfies `Q` -/
def DefsSat (Q : P → List (Option Nat) → Prop) (st : St P) : Prop := ∀ pd ∈ st.defs, Q pd.1 pd.2

theorem tryInline_defs (Q : P → List (Option Nat) → Prop) (inl : P → St P → Except (Err P) Nat × St P) (isEntry : Bool)
    (s : Site P) (hinl : ∀ q st, DefsSat Q st → DefsSat Q (inl q st).2) (st : St P) (h : DefsSat Q st) :
    DefsSat Q (tryInline inl isEntry s st).2 := by
  unfold tryInline
  split
  · exact h
  · split
    · exact h
    · exact h
    · rename_i p _
      split
      · exact h
      · have := hinl p st h
        split
        · rename_i i st' heq; rw [heq] at this; exact this
        · rename_i e st' heq; rw [heq] at this; exact this

theorem visit_defs (Q : P → List (Option Nat) → Prop) (inl : P → St P → Except (Err P) Nat × St P) (isEntry : Bool)
    (sites : List (Site P)) (hinl : ∀ q st, DefsSat Q st → DefsSat Q (inl q st).2) (st : St P) (h : DefsSat Q st) :
    DefsSat Q (visit inl isEntry sites st).2 := by
  induction sites generalizing st with
  | nil => exact h
  | cons s rest ih =>
    simp only [visit]
    exact ih _ (tryInline_defs Q inl isEntry s hinl st h)

theorem inlineRequire_defs (G : Graph P) (Q : P → List (Option Nat) → Prop)
    (hdata : ∀ p, G.get p = some .data → Q p [])
    (hlua : ∀ p sites ret (inl : P → St P → Except (Err P) Nat × St P) st, G.get p = some (.lua sites ret) →
      Q p (visit inl true sites st).1)
    (n : Nat) : ∀ stack p st, DefsSat Q st → DefsSat Q (inlineRequire G n stack p st).2 := by
  induction n with
  | zero => intro stack p st h; exact h
  | succ n ih =>
    intro stack p st h
    unfold inlineRequire
    split
    · exact h
    · split
      · exact h
      · split
        · exact h
        · exact h
        · exact h
        · rename_i hget
          intro pd hpd
          simp at hpd
          rcases hpd with hpd | hpd
          · exact h pd hpd
          · subst hpd; exact hdata p hget
        · rename_i sites ret hget
          have hv := visit_defs Q (inlineRequire G n (stack ++ [p])) true sites (ih (stack ++ [p])) st h
          split
          · exact hv
          · exact hv
          · intro pd hpd
            simp at hpd
            rcases hpd with hpd | hpd
            · exact hv pd hpd
            · subst hpd; exact hlua p sites _ _ st hget

/-! ### the graph relations -/

/-- `p` has an unshadowed call site resolving to `q` (what the walk follows inside a module) -/
def Edge (G : Graph P) (p q : P) : Prop :=
  ∃ sites ret, G.get p = some (.lua sites ret) ∧ ∃ s ∈ sites, s.shadowed = false ∧ s.target = .file q

/-- the files the entry requires through an unshadowed call -/
def Root (entrySites : List (Site P)) (q : P) : Prop :=
  ∃ s ∈ entrySites, s.shadowed = false ∧ s.target = .file q

inductive Reach (G : Graph P) (entrySites : List (Site P)) : P → Prop where
  | root {q : P} (h : Root entrySites q) : Reach G entrySites q
  | step {p q : P} (hp : Reach G entrySites p) (he : Edge G p q) : Reach G entrySites q

def IsPath (G : Graph P) : List P → Prop
  | a :: b :: rest => Edge G a b ∧ IsPath G (b :: rest)
  | _ => True

theorem isPath_snoc (G : Graph P) (l : List P) (a b : P) (h : IsPath G (l ++ [a])) (e : Edge G a b) :
    IsPath G (l ++ [a] ++ [b]) := by
  induction l with
  | nil => exact ⟨e, trivial⟩
  | cons x l ih =>
    cases l with
    | nil => exact ⟨h.1, e, trivial⟩
    | cons y l => exact ⟨h.1, ih h.2⟩

theorem isPath_tail (G : Graph P) (x : P) (l : List P) (h : IsPath G (x :: l)) : IsPath G l := by
  cases l with
  | nil => trivial
  | cons y l => exact h.2

theorem isPath_drop (G : Graph P) (l : List P) (i : Nat) (h : IsPath G l) : IsPath G (l.drop i) := by
  induction i generalizing l with
  | zero => simpa using h
  | succ i ih =>
    cases l with
    | nil => trivial
    | cons x l => simpa using ih l (isPath_tail G x l h)

theorem indexOf?_some_drop (p : P) (l : List P) (i : Nat) (h : indexOf? p l = some i) :
    ∃ t, l.drop i = p :: t := by
  induction l generalizing i with
  | nil => simp [indexOf?] at h
  | cons x l ih =>
    simp only [indexOf?] at h
    split at h
    · rename_i hx; simp at h; subst h; subst hx; exact ⟨l, rfl⟩
    · cases hr : indexOf? p l with
      | none => simp [hr] at h
      | some j =>
        simp [hr] at h; subst h
        obtain ⟨t, ht⟩ := ih j hr
        exact ⟨t, by simpa using ht⟩

theorem indexOf?_none_not_mem (p : P) (l : List P) (h : indexOf? p l = none) : p ∉ l := by
  induction l with
  | nil => simp
  | cons x l ih =>
    simp only [indexOf?] at h
    split at h
    · simp at h
    · rename_i hx
      cases hr : indexOf? p l with
      | none => simp; exact ⟨fun e => hx e.symm, ih hr⟩
      | some j => simp [hr] at h

/-- a reported cycle is genuine: it starts and ends with the same file, consecutive files
require one another, and every file on it satisfies `R` -/
def GoodCycle (G : Graph P) (R : P → Prop) (ps : List P) : Prop :=
  IsPath G ps ∧ (∃ c mid, ps = c :: mid ++ [c]) ∧ ∀ x ∈ ps, R x

/-! ### fuel -/

def free : Graph P → List P → Nat
  | [], _ => 0
  | (k, _) :: G, stack => (if k ∈ stack then 0 else 1) + free G stack

theorem free_nil (G : Graph P) : free G [] = G.length := by
  induction G with
  | nil => rfl
  | cons e G ih => obtain ⟨k, m⟩ := e; simp [free, ih]; omega

theorem free_le (G : Graph P) (stack : List P) (p : P) : free G (stack ++ [p]) ≤ free G stack := by
  induction G with
  | nil => simp [free]
  | cons e G ih =>
    obtain ⟨k, m⟩ := e
    have : (if k ∈ stack ++ [p] then 0 else 1) ≤ (if k ∈ stack then 0 else 1) := by
      split <;> split <;> simp_all
    simp only [free]; omega

theorem free_lt (G : Graph P) (stack : List P) (p : P) (m : Module P) (hp : p ∉ stack) (hg : G.get p = some m) :
    free G (stack ++ [p]) < free G stack := by
  induction G with
  | nil => simp [Graph.get] at hg
  | cons e G ih =>
    obtain ⟨k, m'⟩ := e
    simp only [Graph.get] at hg
    have hle := free_le G stack p
    by_cases hk : k = p
    · subst hk
      have h1 : (if k ∈ stack ++ [k] then 0 else 1) = 0 := by simp
      have h2 : (if k ∈ stack then 0 else 1) = 1 := by simp [hp]
      simp only [free, h1, h2]; omega
    · simp only [hk, if_false] at hg
      have := ih hg
      have : (if k ∈ stack ++ [p] then 0 else 1) ≤ (if k ∈ stack then 0 else 1) := by
        split <;> split <;> simp_all
      simp only [free]; omega

end DarkluaModel.C05
