import DarkluaModel.C05.OneModule
/-!
C05: the call-site leaf of the one-module bundle — `M.a()` (bundle) against `__ref_require("a")` (reference) —
in the context `bcx`. Unary symbolic execution of the reference `require`, then the relational proof.
-/
namespace DarkluaModel.C05
open Sem Sem.HeapU
variable {N : NumOps}

/-- the closure of the reference `require` -/
def reqClosure : Closure N := ⟨refRequireFn, envR3, []⟩

def envReq (cn cb : Nat) : Env N := ⟨("box", cb) :: ("name", cn) :: envR3, []⟩

/-! ### levels 0 and 1: both sides time out -/

theorem acc_timeout1 (ρ : ExtOracle N) (M a : String) (locals : List (String × Nat)) (σ : State N) :
    callClosure ρ 1 (accClosure M a locals) [] σ = .timeout := by
  simp [callClosure, accClosure, accFn, cachedBlock, bindLocals, execB, execSs, execS, evalEs, evalE, indexVal, Res.bind]

theorem req_timeout1 (ρ : ExtOracle N) (args : List (Val N)) (σ : State N) :
    callClosure ρ 1 (reqClosure (N := N)) args σ = .timeout := by
  simp [callClosure, reqClosure, refRequireFn, bindLocals, execB, execSs, execS, evalEs, evalE, indexVal, Res.bind]

/-- body of the reference `require` -/
def refReqBody : Block :=
  .mk
    [ .localAssign .loc [.mk "box" none] [.index (.var "__ref_loaded") (.var "name")],
      .ifs [(.bin .eq (.var "box") .nil,
        .mk [ .assign [.var "box"]
                [.table [.named "value" (.paren (.call (.index (.var "__ref_modules") (.var "name")) none .tuple []))]],
              .assign [.index (.var "__ref_loaded") (.var "name")] [.var "box"] ] none)] none ]
    (some (.ret [.field (.var "box") "value"]))

def envName (cn : Nat) : Env N := ⟨("name", cn) :: envR3, []⟩
def envBox (cn cb : Nat) : Env N := ⟨("box", cb) :: ("name", cn) :: envR3, []⟩

theorem callClosure_req (ρ : ExtOracle N) (n : Nat) (v : Val N) (σ : State N) :
    callClosure ρ (n + 1) (reqClosure (N := N)) [v] σ =
      match execB (callClosure ρ n) ρ n (envName σ.cells.length) refReqBody (σ.allocCell v).2 with
      | .ok (.ret vs) σ2 => .ok vs σ2
      | .ok _ σ2 => .ok [] σ2
      | .err v σ2 => .err v σ2
      | .timeout => .timeout := by
  rfl

/-! ### level ≥ 2, the box exists: the reference `require` returns its content -/

theorem reqBody_hit (call : CallFn N) (ρ : ExtOracle N) (k : Nat) (a : List UInt8) (cn tL tb : Nat) (w : Val N) (σ : State N)
    (hn : σ.getCell cn = .str a) (h0 : σ.getCell 0 = .tbl tL) (hbox : σ.rawGet tL (.str a) = .tbl tb)
    (hval : σ.rawGet tb (strVal "value") = w) (hw : w ≠ .nil ∨ (σ.getTable tb).mt = none) :
    execB call ρ (k + 1) (envName cn) refReqBody σ = .ok (.ret [w]) (σ.allocCell (.tbl tb)).2 := by
  have g0 : (σ.allocCell (.tbl tb)).2.getCell 0 = .tbl tL := getCell_allocCell σ _ _ _ h0 (by simp)
  have gb : (σ.allocCell (.tbl tb)).2.getCell σ.cells.length = .tbl tb := getCell_allocCell_new σ _
  simp [refReqBody, envName, execB, execSs, execS, evalEs, evalE, indexVal, Res.bind,
    lookupVar, lookupAssoc, envR3, TName.name, first, hn, h0, hbox, bindLocals, execBranches, gb, binopVal, rawEq,
    Val.truthy, execLast, hval]
  cases w with
  | nil =>
    have hmt : (σ.getTable tb).mt = none := by
      cases hw with
      | inl h => exact absurd rfl h
      | inr h => exact h
    simp [State.metamethod, State.metaOf, hmt]
  | _ => simp

/-! ### level ≥ 2, the slot is empty: the reference `require` runs the module and boxes its first value -/

theorem rawGet_allocTable_empty (σ : State N) (t : Nat) (k : Val N) :
    (σ.allocTable { entries := [], mt := none }).2.rawGet t k = σ.rawGet t k := by
  unfold State.rawGet
  rw [getTable_allocTable_empty]

/-- state after the reference `require` loaded the module: the body ran (`σb`), its first value is boxed -/
def afterReqMiss (σb : State N) (cb tbx tL : Nat) (a : List UInt8) (v0 : Val N) : State N :=
  ((σb.rawSet tbx (strVal "value") v0).setCell cb (.tbl tbx)).rawSet tL (.str a) (.tbl tbx)

theorem reqBody_miss (call : CallFn N) (ρ : ExtOracle N) (k : Nat) (a : List UInt8) (cn tL tMods fid : Nat)
    (clo : Closure N) (vs : List (Val N)) (σ σb : State N)
    (hn : σ.getCell cn = .str a) (h0 : σ.getCell 0 = .tbl tL) (h1 : σ.getCell 1 = .tbl tMods)
    (hbox : σ.rawGet tL (.str a) = .nil) (hmt : (σ.getTable tL).mt = none)
    (hmod : σ.rawGet tMods (.str a) = .fn fid) (hclo : σ.closures[fid]? = some clo)
    (hrun : call clo [] ((σ.allocCell .nil).2.allocTable { entries := [], mt := none }).2 = .ok vs σb)
    (fcells : σ.cells.length < σb.cells.length)
    (ftables : σ.tables.length < σb.tables.length)
    (fboxT : σb.getTable σ.tables.length = { entries := [], mt := none })
    (fn : σb.getCell cn = .str a) (f0 : σb.getCell 0 = .tbl tL)
    (fmt : (σb.getTable tL).mt = none)
    (htL : tL < σ.tables.length) :
    execB call ρ (k + 1) (envName cn) refReqBody σ
      = .ok (.ret [first vs]) (afterReqMiss σb σ.cells.length σ.tables.length tL a (first vs)) := by
  have hcb0 : σ.cells.length ≠ 0 := by
    intro h; rw [← h] at h0; simp [State.getCell] at h0
  have hcbn : σ.cells.length ≠ cn := by
    intro h; rw [← h] at hn; simp [State.getCell] at hn
  have htLne : σ.tables.length ≠ tL := by omega
  have e1 : execS call ρ (k + 1) (envName cn)
      (.localAssign .loc [.mk "box" none] [.index (.var "__ref_loaded") (.var "name")]) σ
      = .ok (.next (envBox cn σ.cells.length)) (σ.allocCell .nil).2 := by
    simp [execS, evalEs, evalE, envName, envBox, lookupVar, lookupAssoc, envR3, h0, hn, indexVal, hbox, State.metamethod,
      State.metaOf, hmt, Res.bind, bindLocals, TName.name, first]
  have g1 : (σ.allocCell (.nil : Val N)).2.getCell 1 = .tbl tMods := getCell_allocCell σ _ _ _ h1 (by simp)
  have gn : (σ.allocCell (.nil : Val N)).2.getCell cn = .str a := getCell_allocCell σ _ _ _ hn (by simp)
  have e2 : execS call ρ (k + 1) (envBox cn σ.cells.length)
      (.assign [.var "box"]
        [.table [.named "value" (.paren (.call (.index (.var "__ref_modules") (.var "name")) none .tuple []))]])
      (σ.allocCell .nil).2
      = .ok (.next (envBox cn σ.cells.length))
          ((σb.rawSet σ.tables.length (strVal "value") (first vs)).setCell σ.cells.length (.tbl σ.tables.length)) := by
    have hlen : (σ.allocCell (Val.nil : Val N)).2.tables.length = σ.tables.length := rfl
    simp [execS, evalTargets, evalTarget, evalEs, evalE, evalEntries, Res.bind, envBox, lookupVar, lookupAssoc, envR3,
      g1, gn, first, indexVal, rawGet_allocTable_empty, hmod, callVal, hclo, hrun, storeTargets, storeTarget, assignVar, hlen]
  have e3 : execS call ρ (k + 1) (envBox cn σ.cells.length)
      (.assign [.index (.var "__ref_loaded") (.var "name")] [.var "box"])
      ((σb.rawSet σ.tables.length (strVal "value") (first vs)).setCell σ.cells.length (.tbl σ.tables.length))
      = .ok (.next (envBox cn σ.cells.length)) (afterReqMiss σb σ.cells.length σ.tables.length tL a (first vs)) := by
    generalize first vs = v0
    have q0 : ((σb.rawSet σ.tables.length (strVal "value") v0).setCell σ.cells.length (.tbl σ.tables.length)).getCell 0
        = .tbl tL := by rw [getCell_setCell_ne _ _ _ _ hcb0]; simpa using f0
    have qn : ((σb.rawSet σ.tables.length (strVal "value") v0).setCell σ.cells.length (.tbl σ.tables.length)).getCell cn
        = .str a := by rw [getCell_setCell_ne _ _ _ _ hcbn]; simpa using fn
    have qb : ((σb.rawSet σ.tables.length (strVal "value") v0).setCell σ.cells.length (.tbl σ.tables.length)).getCell
        σ.cells.length = .tbl σ.tables.length := getCell_setCell_same _ _ _ (by simpa using fcells)
    have qm : ((σb.rawSet σ.tables.length (strVal "value") v0).getTable tL).mt = none := by
      rw [getTable_rawSet_ne _ _ _ _ _ htLne]; exact fmt
    cases qs : (σb.rawSet σ.tables.length (strVal "value") v0).rawGet tL (.str a) <;>
    simp [execS, evalTargets, evalTarget, evalEs, evalE, Res.bind, envBox, lookupVar, lookupAssoc, envR3, q0, qn, qb,
      first, storeTargets, storeTarget, setIndexVal, qs, State.metamethod, State.metaOf, qm, afterReqMiss]
  have eblk := execB_two call ρ (k + 1) (envBox cn σ.cells.length) _ _ _ _ _ e2 e3
  have gb : (σ.allocCell (.nil : Val N)).2.getCell σ.cells.length = .nil := getCell_allocCell_new σ _
  have hlk : lookupVar (envBox cn σ.cells.length) "box" (σ.allocCell (.nil : Val N)).2 = .nil := by
    simp [lookupVar, envBox, lookupAssoc, gb]
  have e4 : execS call ρ (k + 1) (envBox cn σ.cells.length)
      (.ifs [(.bin .eq (.var "box") .nil,
        .mk [ .assign [.var "box"]
                [.table [.named "value" (.paren (.call (.index (.var "__ref_modules") (.var "name")) none .tuple []))]],
              .assign [.index (.var "__ref_loaded") (.var "name")] [.var "box"] ] none)] none)
      (σ.allocCell .nil).2
      = .ok (.next (envBox cn σ.cells.length)) (afterReqMiss σb σ.cells.length σ.tables.length tL a (first vs)) := by
    simp [execS, execBranches, evalE, hlk, binopVal, rawEq, Res.bind, first, Val.truthy, eblk]
  have hboxget : (σb.rawSet σ.tables.length (strVal "value") (first vs)).getTable σ.tables.length
      = { entries := rawSetEntries (strVal "value") (first vs) [], mt := none } := by
    simp only [State.rawSet]
    rw [getTable_setTable_same _ _ _ ftables, fboxT]
  have r1 : (afterReqMiss σb σ.cells.length σ.tables.length tL a (first vs)).getCell σ.cells.length = .tbl σ.tables.length := by
    simp only [afterReqMiss, getCell_rawSet]
    exact getCell_setCell_same _ _ _ (by simpa using fcells)
  have r2 : (afterReqMiss σb σ.cells.length σ.tables.length tL a (first vs)).rawGet σ.tables.length (strVal "value") = first vs := by
    simp only [afterReqMiss]
    rw [rawGet_rawSet_ne_table _ _ _ _ _ _ (Ne.symm htLne), rawGet_setCell]
    unfold State.rawGet
    rw [hboxget]
    exact rawGetEntries_rawSetEntries_nil _ _
  have r3 : ((afterReqMiss σb σ.cells.length σ.tables.length tL a (first vs)).getTable σ.tables.length).mt = none := by
    simp only [afterReqMiss]
    rw [getTable_rawSet_ne _ _ _ _ _ (Ne.symm htLne)]
    simp only [getTable_setCell, hboxget]
  have e5 : execLast call ρ (k + 1) (envBox cn σ.cells.length) (.ret [.field (.var "box") "value"])
      (afterReqMiss σb σ.cells.length σ.tables.length tL a (first vs))
      = .ok (.ret [first vs]) (afterReqMiss σb σ.cells.length σ.tables.length tL a (first vs)) := by
    generalize afterReqMiss σb σ.cells.length σ.tables.length tL a (first vs) = σ5 at r1 r2 r3
    generalize first vs = w at r2
    cases w with
    | nil =>
      simp [execLast, evalEs, evalE, Res.bind, envBox, lookupVar, lookupAssoc, r1, indexVal, r2, first,
        State.metamethod, State.metaOf, r3]
    | _ => simp [execLast, evalEs, evalE, Res.bind, envBox, lookupVar, lookupAssoc, r1, indexVal, r2, first]
  simp only [refReqBody, execB, execSs, Res.bind, e1]
  rw [e4]
  simp only []
  exact e5

/-- the module's run fails or times out: so does the reference `require` -/
theorem reqBody_miss_fail (call : CallFn N) (ρ : ExtOracle N) (k : Nat) (a : List UInt8) (cn tL tMods fid : Nat)
    (clo : Closure N) (σ : State N)
    (hn : σ.getCell cn = .str a) (h0 : σ.getCell 0 = .tbl tL) (h1 : σ.getCell 1 = .tbl tMods)
    (hbox : σ.rawGet tL (.str a) = .nil) (hmt : (σ.getTable tL).mt = none)
    (hmod : σ.rawGet tMods (.str a) = .fn fid) (hclo : σ.closures[fid]? = some clo) :
    (∀ e σb, call clo [] ((σ.allocCell .nil).2.allocTable { entries := [], mt := none }).2 = .err e σb →
      execB call ρ (k + 1) (envName cn) refReqBody σ = .err e σb) ∧
    (call clo [] ((σ.allocCell .nil).2.allocTable { entries := [], mt := none }).2 = .timeout →
      execB call ρ (k + 1) (envName cn) refReqBody σ = .timeout) := by
  have g1 : (σ.allocCell (.nil : Val N)).2.getCell 1 = .tbl tMods := getCell_allocCell σ _ _ _ h1 (by simp)
  have gn : (σ.allocCell (.nil : Val N)).2.getCell cn = .str a := getCell_allocCell σ _ _ _ hn (by simp)
  have gb : (σ.allocCell (.nil : Val N)).2.getCell σ.cells.length = .nil := getCell_allocCell_new σ _
  constructor
  · intro e σb hrun
    simp [refReqBody, execB, execSs, execS, execBranches, evalTargets, evalTarget, evalEs, evalE, evalEntries, Res.bind, envName,
      lookupVar, lookupAssoc, envR3, h0, hn, indexVal, hbox, State.metamethod, State.metaOf, hmt, bindLocals, TName.name,
      g1, gn, gb, first, rawGet_allocTable_empty, hmod, callVal, hclo, hrun, binopVal, rawEq, Val.truthy]
  · intro hrun
    simp [refReqBody, execB, execSs, execS, execBranches, evalTargets, evalTarget, evalEs, evalE, evalEntries, Res.bind, envName,
      lookupVar, lookupAssoc, envR3, h0, hn, indexVal, hbox, State.metamethod, State.metaOf, hmt, bindLocals, TName.name,
      g1, gn, gb, first, rawGet_allocTable_empty, hmod, callVal, hclo, hrun, binopVal, rawEq, Val.truthy]

/-! ### the accessor: `cached_miss` without the assumption that the slot is still empty after the body, and the
failing runs -/

theorem exec_store_slot' (call : CallFn N) (ρ : ExtOracle N) (k : Nat) (env : Env N) (M name : String)
    (cv cM tM tC : Nat) (x : Val N) (σ : State N)
    (hMv : M ≠ "v")
    (hM : lookupAssoc M env.locals = some cM)
    (hcell : σ.getCell cM = .tbl tM)
    (hcache : σ.rawGet tM (strVal "cache") = .tbl tC)
    (hmt : (σ.getTable tC).mt = none)
    (hv : σ.getCell cv = x) :
    execS call ρ (k + 1) (envV env cv) (.assign [.field (.field (.var M) "cache") name] [.var "v"]) σ
      = .ok (.next (envV env cv)) (σ.rawSet tC (strVal name) x) := by
  have hMv' : ("v" == M) = false := beq_eq_false_iff_ne.mpr (Ne.symm hMv)
  cases hslot : σ.rawGet tC (strVal name) <;>
  simp [execS, evalTargets, evalTarget, evalEs, evalE, Res.bind, envV, lookupVar, lookupAssoc, hMv', hM, hcell,
    indexVal, hcache, first, storeTargets, storeTarget, setIndexVal, hslot, State.metamethod, State.metaOf, hmt, hv] <;>
  simp [strVal]

theorem cached_miss' (call : CallFn N) (ρ : ExtOracle N) (k : Nat) (M name : String) (env : Env N)
    (cM tM tC cI fid : Nat) (clo : Closure N) (vs : List (Val N)) (σ σb : State N)
    (hMv : M ≠ "v")
    (hM : lookupAssoc M env.locals = some cM)
    (hI : lookupAssoc implName env.locals = some cI)
    (hcell : σ.getCell cM = .tbl tM)
    (hcache : σ.rawGet tM (strVal "cache") = .tbl tC)
    (hbox : σ.rawGet tC (strVal name) = .nil)
    (hmt : (σ.getTable tC).mt = none)
    (hcellI : σ.getCell cI = .fn fid)
    (hclo : σ.closures[fid]? = some clo)
    (hrun : call clo [] ((σ.allocCell .nil).2.allocTable { entries := [], mt := none }).2 = .ok vs σb)
    (fcells : σ.cells.length < σb.cells.length)
    (ftables : σ.tables.length < σb.tables.length)
    (fboxT : σb.getTable σ.tables.length = { entries := [], mt := none })
    (fM : σb.getCell cM = .tbl tM)
    (fcache : σb.rawGet tM (strVal "cache") = .tbl tC)
    (fmt : (σb.getTable tC).mt = none)
    (htC : tC < σ.tables.length) :
    execB call ρ (k + 1) env (cachedBlock M name) σ
      = .ok (.ret [first vs]) (afterMiss σb σ.cells.length σ.tables.length tC name (first vs)) := by
  have h1 := eval_slot_miss call ρ k env M name cM tM tC σ hM hcell hcache hbox hmt
  have hcMne : σ.cells.length ≠ cM := by
    intro h; rw [← h] at hcell; simp [State.getCell] at hcell
  have htM : tM < σ.tables.length := rawGet_ne_nil_lt σ tM _ _ hcache (by simp)
  have htMne : σ.tables.length ≠ tM := by omega
  have htCne : σ.tables.length ≠ tC := by omega
  have e1 := exec_local_v call ρ (k + 1) env _ _ σ h1
  have e2 := exec_box call ρ k env σ.cells.length cI fid clo vs (σ.allocCell .nil).2 σb hI
    (getCell_allocCell σ _ _ _ hcellI (by simp)) (by simpa using hclo) hrun
  have hlen : (σ.allocCell (Val.nil : Val N)).2.tables.length = σ.tables.length := rfl
  rw [hlen] at e2
  have e3 := exec_store_slot' call ρ k env M name σ.cells.length cM tM tC (.tbl σ.tables.length)
    ((σb.rawSet σ.tables.length (strVal "c") (first vs)).setCell σ.cells.length (.tbl σ.tables.length))
    hMv hM
    (by rw [getCell_setCell_ne _ _ _ _ hcMne]; simpa using fM)
    (by simp only [rawGet_setCell]; rw [rawGet_rawSet_ne_table _ _ _ _ _ _ htMne]; exact fcache)
    (by simp only [getTable_setCell]; rw [getTable_rawSet_ne _ _ _ _ _ htCne]; exact fmt)
    (getCell_setCell_same _ _ _ (by simpa using fcells))
  have eblk := execB_two call ρ (k + 1) (envV env σ.cells.length) _ _ _ _ _ e2 e3
  have e4 := exec_if_not_v call ρ k env σ.cells.length _ _ _ _ (getCell_allocCell_new σ (.nil : Val N)) eblk
  have hboxget : (σb.rawSet σ.tables.length (strVal "c") (first vs)).getTable σ.tables.length
      = { entries := rawSetEntries (strVal "c") (first vs) [], mt := none } := by
    simp only [State.rawSet]
    rw [getTable_setTable_same _ _ _ ftables, fboxT]
  have e5 := exec_return_vc call ρ k env σ.cells.length σ.tables.length (first vs)
    (afterMiss σb σ.cells.length σ.tables.length tC name (first vs))
    (by
      simp only [afterMiss, getCell_rawSet]
      exact getCell_setCell_same _ _ _ (by simpa using fcells))
    (by
      simp only [afterMiss]
      rw [rawGet_rawSet_ne_table _ _ _ _ _ _ (Ne.symm htCne)]
      rw [rawGet_setCell]
      unfold State.rawGet
      rw [hboxget]
      exact rawGetEntries_rawSetEntries_nil _ _)
    (Or.inr (by
      simp only [afterMiss]
      rw [getTable_rawSet_ne _ _ _ _ _ (Ne.symm htCne)]
      simp only [getTable_setCell, hboxget]))
  simp only [cachedBlock, execB, execSs, Res.bind, e1]
  rw [e4]
  simp only []
  exact e5

theorem cached_miss_fail (call : CallFn N) (ρ : ExtOracle N) (k : Nat) (M name : String) (env : Env N)
    (cM tM tC cI fid : Nat) (clo : Closure N) (σ : State N)
    (hM : lookupAssoc M env.locals = some cM)
    (hI : lookupAssoc implName env.locals = some cI)
    (hcell : σ.getCell cM = .tbl tM)
    (hcache : σ.rawGet tM (strVal "cache") = .tbl tC)
    (hbox : σ.rawGet tC (strVal name) = .nil)
    (hmt : (σ.getTable tC).mt = none)
    (hcellI : σ.getCell cI = .fn fid)
    (hclo : σ.closures[fid]? = some clo) :
    (∀ e σb, call clo [] ((σ.allocCell .nil).2.allocTable { entries := [], mt := none }).2 = .err e σb →
      execB call ρ (k + 1) env (cachedBlock M name) σ = .err e σb) ∧
    (call clo [] ((σ.allocCell .nil).2.allocTable { entries := [], mt := none }).2 = .timeout →
      execB call ρ (k + 1) env (cachedBlock M name) σ = .timeout) := by
  have h1 := eval_slot_miss call ρ k env M name cM tM tC σ hM hcell hcache hbox hmt
  have e1 := exec_local_v call ρ (k + 1) env _ _ σ h1
  have hI' : lookupAssoc "__modImpl" env.locals = some cI := hI
  have gI : (σ.allocCell (.nil : Val N)).2.getCell cI = .fn fid := getCell_allocCell σ _ _ _ hcellI (by simp)
  have gv : (σ.allocCell (.nil : Val N)).2.getCell σ.cells.length = .nil := getCell_allocCell_new σ _
  constructor
  · intro e σb hrun
    simp only [cachedBlock, execB, execSs, Res.bind, e1]
    simp [execS, execBranches, execB, execSs, evalTargets, evalTarget, evalEs, evalE, evalEntries, Res.bind, envV, lookupVar,
      lookupAssoc, implName, hI', gI, gv, first, callVal, hclo, hrun, unopVal, Val.truthy]
  · intro hrun
    simp only [cachedBlock, execB, execSs, Res.bind, e1]
    simp [execS, execBranches, execB, execSs, evalTargets, evalTarget, evalEs, evalE, evalEntries, Res.bind, envV, lookupVar,
      lookupAssoc, implName, hI', gI, gv, first, callVal, hclo, hrun, unopVal, Val.truthy]

theorem VRel.congr {β β' : Inj N} (ht : β'.t = β.t) (hf : β'.f = β.f) {v v' : Val N} (h : VRel β v v') :
    VRel β' v v' := by
  cases v <;> cases v' <;> simp only [VRel, ht, hf] at h ⊢ <;> exact h

/-! ### reading the heap -/

theorem getCell_of {σ : State N} {i : Nat} {v : Val N} (h : σ.cells[i]? = some v) : σ.getCell i = v := by
  simp [State.getCell, h]
theorem getTable_of {σ : State N} {i : Nat} {t : Table N} (h : σ.tables[i]? = some t) : σ.getTable i = t := by
  simp [State.getTable, h]
theorem rawGet_of {σ : State N} {i : Nat} {t : Table N} (h : σ.tables[i]? = some t) (k : Val N) :
    σ.rawGet i k = rawGetEntries k t.entries := by
  simp [State.rawGet, getTable_of h]
theorem lt_of_getElem? {α : Type} {l : List α} {i : Nat} {x : α} (h : l[i]? = some x) : i < l.length := by
  by_cases hi : i < l.length
  · exact hi
  · have : l[i]? = none := by simp; omega
    rw [this] at h; cases h

/-! ### the two call sites reduce to calls of the known closures -/

theorem eval_accessorCall_zero (call : CallFn N) (ρ : ExtOracle N) (env : Env N) (M a : String) (σ : State N) (tM : Nat)
    (hM : lookupVar env M σ = .tbl tM) : evalE call ρ 0 env (accessorCall M a) σ = .timeout := by
  simp [accessorCall, evalE, evalEs, Res.bind, hM, indexVal, first]

theorem eval_accessorCall (call : CallFn N) (ρ : ExtOracle N) (k : Nat) (env : Env N) (M a : String) (σ : State N)
    (tM fid : Nat) (clo : Closure N) (hM : lookupVar env M σ = .tbl tM) (hacc : σ.rawGet tM (strVal a) = .fn fid)
    (hclo : σ.closures[fid]? = some clo) :
    evalE call ρ (k + 1) env (accessorCall M a) σ = call clo [] σ := by
  simp [accessorCall, evalE, evalEs, Res.bind, hM, indexVal, hacc, first, callVal, hclo]

theorem eval_refCall_zero (call : CallFn N) (ρ : ExtOracle N) (env : Env N) (a : String) (σ : State N) :
    evalE call ρ 0 env (refCall a) σ = .timeout := by
  simp [refCall, evalE, evalEs, Res.bind, callVal, first]

theorem eval_refCall (call : CallFn N) (ρ : ExtOracle N) (k : Nat) (env : Env N) (a : String) (σ : State N)
    (fid : Nat) (clo : Closure N) (hR : lookupVar env "__ref_require" σ = .fn fid) (hclo : σ.closures[fid]? = some clo) :
    evalE call ρ (k + 1) env (refCall a) σ = call clo [.str (strToBytes a)] σ := by
  simp [refCall, evalE, evalEs, Res.bind, hR, first, callVal, hclo]

theorem callClosure_acc (ρ : ExtOracle N) (n : Nat) (M a : String) (locals : List (String × Nat)) (σ : State N) :
    callClosure ρ (n + 1) (accClosure M a locals) [] σ =
      match execB (callClosure ρ n) ρ n ⟨locals, []⟩ (cachedBlock M a) σ with
      | .ok (.ret vs) σ2 => .ok vs σ2
      | .ok _ σ2 => .ok [] σ2
      | .err v σ2 => .err v σ2
      | .timeout => .timeout := by
  rfl

theorem callClosure_body (ρ : ExtOracle N) (n : Nat) (B : Block) (locals : List (String × Nat)) (σ : State N) :
    callClosure ρ (n + 1) ⟨.mk [] false none none [] [] B, locals, []⟩ [] σ =
      wrapCtl (execB (callClosure ρ n) ρ n ⟨locals, []⟩ B σ) := by
  rfl

/-! ### the context without the invariant (for the sequence of writes that re-establishes it) -/

def bcxW (M : String) : Cx where
  W := [M, "__ref_require"]
  bindL := [(M, 0)]
  bindR := [("__ref_require", 2)]
  CF := fun _ ρ k call => call = callClosure ρ k

theorem srel_toW {Q : QRel} {M a : String} {BL BR : Block} {β : Inj N} {σ σ' : State N}
    (h : SRel Q (bcx M a BL BR) β σ σ') : SRel Q (bcxW M) β σ σ' where
  globals := h.globals
  trace := h.trace
  injC := h.injC
  injT := h.injT
  injF := h.injF
  cell := h.cell
  tbl := h.tbl
  clo := fun hab =>
    let ⟨c, c', h1, h2, hc⟩ := h.clo hab
    ⟨c, c', h1, h2, hc.varargs, let ⟨D, hq, he⟩ := hc.body; ⟨D, hq, he.rel, he.dw, he.wb⟩⟩
  strlib := h.strlib
  ginv := h.ginv
  finv := h.finv
  front := h.front
  pin := h.pin
  pinR := h.pinR
  pinT := h.pinT
  pinC := h.pinC
  pinTl := h.pinTl
  pinCl := h.pinCl
  inv := trivial

theorem srel_ofW {Q : QRel} {M a : String} {BL BR : Block} {β : Inj N} {σ σ' : State N}
    (h : SRel Q (bcxW M) β σ σ') (hI : (bcx M a BL BR).I N β σ σ') : SRel Q (bcx M a BL BR) β σ σ' where
  globals := h.globals
  trace := h.trace
  injC := h.injC
  injT := h.injT
  injF := h.injF
  cell := h.cell
  tbl := h.tbl
  clo := fun hab =>
    let ⟨c, c', h1, h2, hc⟩ := h.clo hab
    ⟨c, c', h1, h2, hc.varargs, let ⟨D, hq, he⟩ := hc.body; ⟨D, hq, he.rel, he.dw, he.wb⟩⟩
  strlib := h.strlib
  ginv := h.ginv
  finv := h.finv
  front := h.front
  pin := h.pin
  pinR := h.pinR
  pinT := h.pinT
  pinC := h.pinC
  pinTl := h.pinTl
  pinCl := h.pinCl
  inv := hI

/-- both caches are written in one step (no state in between satisfies the coupling) -/
theorem srel_privSetTableLR {Q : QRel} {cx : Cx} {β : Inj N} {σ σ' : State N} (h : SRel Q cx β σ σ') {a b : Nat}
    (hua : ∀ y, ¬ β.t a y) (hnpa : ∀ p ∈ β.pinTL, p.1 ≠ a) (hub : ∀ x, ¬ β.t x b) (hnpb : ∀ p ∈ β.pinTR, p.1 ≠ b)
    (t2 t2' : Table N) (hI : cx.I N β (σ.setTable a t2) (σ'.setTable b t2')) :
    SRel Q cx β (σ.setTable a t2) (σ'.setTable b t2') :=
  { h with
    pinTl := fun p hp => ⟨by simp only [State.setTable]; rw [getElem?_listSet_ne _ (hnpa p hp).symm]; exact (h.pinTl p hp).1,
      (h.pinTl p hp).2⟩
    pinT := fun p hp => ⟨by simp only [State.setTable]; rw [getElem?_listSet_ne _ (hnpb p hp).symm]; exact (h.pinT p hp).1,
      (h.pinT p hp).2⟩
    tbl := fun {x y} hxy => by
      obtain ⟨w, w', h1, h2, hw⟩ := h.tbl hxy
      have hne : a ≠ x := fun e => hua y (e ▸ hxy)
      have hne' : b ≠ y := fun e => hub x (e ▸ hxy)
      exact ⟨w, w', by simp only [State.setTable]; rw [getElem?_listSet_ne _ hne]; exact h1,
        by simp only [State.setTable]; rw [getElem?_listSet_ne _ hne']; exact h2, hw⟩
    ginv := by ginv_tac h
    finv := by finv_tac h
    front := by frontU_tac h
    inv := hI }

/-! ### content-pinned allocations in `bcx` (the invariant does not care about new objects) -/

section pins
variable {Q : QRel} {M a : String} {BL BR : Block} {β : Inj N} {σ σ' : State N}

theorem cache_lt (hI : LFacts M a BL β σ ∧ RFacts a BR β σ' ∧ Coupled a β σ σ') :
    4 < σ.tables.length ∧ 3 < σ'.tables.length := by
  rcases hI.2.2 with ⟨h1, h2⟩ | ⟨_, _, _, _, h1, _, _, _, h2, _⟩
  · exact ⟨lt_of_getElem? h1, lt_of_getElem? h2⟩
  · exact ⟨lt_of_getElem? h1, lt_of_getElem? h2⟩

theorem pinCellL (hs : SRel Q (bcx M a BL BR) β σ σ') (v : Val N) :
    ∃ β1, β.le β1 ∧ SRel Q (bcx M a BL BR) β1 (σ.allocCell v).2 σ' ∧ (σ.cells.length, v) ∈ β1.pinCL := by
  have hI : LFacts M a BL β σ ∧ RFacts a BR β σ' ∧ Coupled a β σ σ' := hs.inv
  refine ⟨_, hs.le_allocCellLeftPinned v, hs.allocCellLeftPinned v ?_, ?_⟩
  · exact inv_mono (hs.le_allocCellLeftPinned v).toExt (by frame_grow)
      (by simpa [Inj.repinCL, Inj.bump] using hI.1.np) (by simpa [Inj.repinCL, Inj.bump] using hI.2.1.np) hI
  · simp [Inj.repinCL]

theorem pinCellR (hs : SRel Q (bcx M a BL BR) β σ σ') (v : Val N) :
    ∃ β1, β.le β1 ∧ SRel Q (bcx M a BL BR) β1 σ (σ'.allocCell v).2 ∧ (σ'.cells.length, v) ∈ β1.pinCR := by
  have hI : LFacts M a BL β σ ∧ RFacts a BR β σ' ∧ Coupled a β σ σ' := hs.inv
  refine ⟨_, hs.le_allocCellRightPinned v, hs.allocCellRightPinned v ?_, ?_⟩
  · exact inv_mono (hs.le_allocCellRightPinned v).toExt (by frame_grow)
      (by simpa [Inj.repinC, Inj.bump] using hI.1.np) (by simpa [Inj.repinC, Inj.bump] using hI.2.1.np) hI
  · simp [Inj.repinC]

theorem pinTableL (hs : SRel Q (bcx M a BL BR) β σ σ') (t : Table N) :
    ∃ β1, β.le β1 ∧ SRel Q (bcx M a BL BR) β1 (σ.allocTable t).2 σ' ∧ (σ.tables.length, t) ∈ β1.pinTL := by
  have hI : LFacts M a BL β σ ∧ RFacts a BR β σ' ∧ Coupled a β σ σ' := hs.inv
  have hlt := (cache_lt hI).1
  refine ⟨_, hs.le_allocTableLeftPinned t, hs.allocTableLeftPinned t ?_, ?_⟩
  · refine inv_mono (hs.le_allocTableLeftPinned t).toExt (by frame_grow) ?_
      (by simpa [Inj.repinTL, Inj.bump] using hI.2.1.np) hI
    intro p hp
    simp only [Inj.repinTL, Inj.bump, List.mem_cons, List.mem_filter] at hp
    rcases hp with rfl | ⟨hp, _⟩
    · simp only []; omega
    · exact hI.1.np p hp
  · simp [Inj.repinTL]

theorem pinTableR (hs : SRel Q (bcx M a BL BR) β σ σ') (t : Table N) :
    ∃ β1, β.le β1 ∧ SRel Q (bcx M a BL BR) β1 σ (σ'.allocTable t).2 ∧ (σ'.tables.length, t) ∈ β1.pinTR := by
  have hI : LFacts M a BL β σ ∧ RFacts a BR β σ' ∧ Coupled a β σ σ' := hs.inv
  have hlt := (cache_lt hI).2
  refine ⟨_, hs.le_allocTableRightPinned t, hs.allocTableRightPinned t ?_, ?_⟩
  · refine inv_mono (hs.le_allocTableRightPinned t).toExt (by frame_grow)
      (by simpa [Inj.repinT, Inj.bump] using hI.1.np) ?_ hI
    intro p hp
    simp only [Inj.repinT, Inj.bump, List.mem_cons, List.mem_filter] at hp
    rcases hp with rfl | ⟨hp, _⟩
    · simp only []; omega
    · exact hI.2.1.np p hp
  · simp [Inj.repinT]

end pins

/-! ### the states after a cache miss, as lists -/

theorem afterMiss_facts (σb : State N) (cv tbx tC : Nat) (name : String) (v0 : Val N) (T : Table N)
    (hne : tbx ≠ tC) (hb : σb.tables[tbx]? = some ⟨[], none⟩) (hc : σb.tables[tC]? = some T) :
    (afterMiss σb cv tbx tC name v0).cells = listSet σb.cells cv (.tbl tbx) ∧
    (afterMiss σb cv tbx tC name v0).closures = σb.closures ∧
    (afterMiss σb cv tbx tC name v0).tables =
      listSet (listSet σb.tables tbx ⟨rawSetEntries (strVal "c") v0 [], none⟩) tC
        ⟨rawSetEntries (strVal name) (.tbl tbx) T.entries, T.mt⟩ := by
  refine ⟨rfl, rfl, ?_⟩
  simp only [afterMiss, State.rawSet, State.setTable, State.setCell, State.getTable]
  rw [hb, listSet_get_ne _ _ _ _ hne, hc]
  rfl

theorem afterReqMiss_facts (σb : State N) (cb tbx tL : Nat) (a : List UInt8) (v0 : Val N) (T : Table N)
    (hne : tbx ≠ tL) (hb : σb.tables[tbx]? = some ⟨[], none⟩) (hc : σb.tables[tL]? = some T) :
    (afterReqMiss σb cb tbx tL a v0).cells = listSet σb.cells cb (.tbl tbx) ∧
    (afterReqMiss σb cb tbx tL a v0).closures = σb.closures ∧
    (afterReqMiss σb cb tbx tL a v0).tables =
      listSet (listSet σb.tables tbx ⟨rawSetEntries (strVal "value") v0 [], none⟩) tL
        ⟨rawSetEntries (.str a) (.tbl tbx) T.entries, T.mt⟩ := by
  refine ⟨rfl, rfl, ?_⟩
  simp only [afterReqMiss, State.rawSet, State.setTable, State.setCell, State.getTable]
  rw [hb, listSet_get_ne _ _ _ _ hne, hc]
  rfl

/-- the environments the two module bodies run in -/
theorem envOK_body {M a : String} {BL BR : Block} {β : Inj N} (hMI : M ≠ implName)
    (hMr : M ≠ "__ref_require" ∧ M ≠ "__ref_modules" ∧ M ≠ "__ref_loaded") :
    EnvOK (bcx M a BL BR) β (D1 M) (⟨envLI M, []⟩ : Env N) ⟨envR3, []⟩ := by
  refine ⟨.nil, fun nm hnm => ?_, fun nm hnm => ?_, fun nm hnm => ?_⟩
  · have h0 : ¬ M = nm := fun e => hnm (by simp [D1, e])
    have h1 : ¬ "__ref_require" = nm := fun e => hnm (by simp [D1, ← e])
    have h2 : ¬ "__ref_modules" = nm := fun e => hnm (by simp [D1, ← e])
    have h3 : ¬ "__ref_loaded" = nm := fun e => hnm (by simp [D1, ← e])
    have h4 : ¬ implName = nm := fun e => hnm (by simp [D1, ← e])
    simp [lookupAssoc, envR3, envLI, h0, h1, h2, h3, h4, OptRel]
  · simp only [bcx, List.mem_cons, List.mem_nil_iff, or_false] at hnm
    rcases hnm with h | h <;> subst h <;> simp [D1]
  · have hw : nm = M ∨ nm = "__ref_require" := by simpa [D1] using hnm
    have hr1 : ¬ "__ref_require" = M := fun e => hMr.1 e.symm
    have hr2 : ¬ "__ref_modules" = M := fun e => hMr.2.1 e.symm
    have hr3 : ¬ "__ref_loaded" = M := fun e => hMr.2.2 e.symm
    have hi : ¬ implName = M := fun e => hMI e.symm
    rcases hw with h | h <;> subst h
    · simp [bcx, lookupAssoc, envR3, envLI, hr1, hr2, hr3, hi]
    · simp [bcx, lookupAssoc, envR3, envLI, hMr.1, implName]

/-! ### the leaf -/

theorem rawGet_tM {σ : State N} {a : String} (hac : bytesOf "cache" ≠ bytesOf a)
    (h : σ.tables[3]? = some ⟨[(strVal "cache", .tbl 4), (strVal a, .fn 1)], none⟩) :
    σ.rawGet 3 (strVal "cache") = .tbl 4 ∧ σ.rawGet 3 (strVal a) = .fn 1 := by
  have hne : ¬ "cache".toByteArray.toList = a.toByteArray.toList := by simpa [bytesOf] using hac
  rw [rawGet_of h, rawGet_of h]
  simp [rawGetEntries, rawEq, strVal, hne]

theorem leaf_sound (M a : String) (BL BR : Block) (hac : bytesOf "cache" ≠ bytesOf a)
    (hMv : M ≠ "v") (hMI : M ≠ implName) {Q : QRel} :
    SoundE Q (bcx M a BL BR) (D1 M) (accessorCall M a) (refCall a) := by
  intro N call ρ k env env' σ σ' β hp hs he
  have hcall : call = callClosure ρ k := hp.cf
  subst hcall
  obtain ⟨LF, RF, CP⟩ : LFacts M a BL β σ ∧ RFacts a BR β σ' ∧ Coupled a β σ σ' := hs.inv
  have hlM : lookupVar env M σ = .tbl 3 := by
    rw [he.lookupVarL (n := M) (c := 0) (by simp [D1]) (by simp [bcx, lookupAssoc]) σ]; exact getCell_of LF.c0
  have hlR : lookupVar env' "__ref_require" σ' = .fn 0 := by
    rw [he.lookupVarR (n := "__ref_require") (c := 2) (by simp [D1]) (by simp [bcx, lookupAssoc]) σ']; exact getCell_of RF.c2
  obtain ⟨hcache, hacc⟩ := rawGet_tM hac LF.tM
  cases k with
  | zero =>
    rw [eval_accessorCall_zero _ ρ env M a σ 3 hlM, eval_refCall_zero]
    exact HeapU.RRel.timeout
  | succ k1 =>
    rw [eval_accessorCall _ ρ k1 env M a σ 3 1 _ hlM hacc LF.f1, eval_refCall _ ρ k1 env' a σ' 0 _ hlR RF.f0]
    cases k1 with
    | zero =>
      rw [acc_timeout1]
      have := req_timeout1 ρ [.str (strToBytes a)] σ'
      simp only [reqClosure] at this
      rw [this]
      exact HeapU.RRel.timeout
    | succ m =>
      have hMloc : lookupAssoc M (envLI M) = some 0 := by
        have : ¬ implName = M := fun e => hMI e.symm
        simp [envLI, lookupAssoc, this]
      rcases CP with ⟨e4, e3⟩ | ⟨tb, tb', v, v', h1, h2, h3, h4, h5, h6, h7, h8, h9⟩
      · -- MISS: both caches are empty
        have hI0 : LFacts M a BL β σ ∧ RFacts a BR β σ' ∧ Coupled a β σ σ' := hs.inv
        have hIloc : lookupAssoc implName (envLI M) = some 1 := by simp [envLI, lookupAssoc]
        have hboxnil : σ.rawGet 4 (strVal a) = .nil := by rw [rawGet_of e4]; rfl
        have hmt4 : (σ.getTable 4).mt = none := by rw [getTable_of e4]
        -- the reference side, after binding `name`
        have hn : (σ'.allocCell (.str (strToBytes a))).2.getCell σ'.cells.length = .str (strToBytes a) :=
          getCell_allocCell_new σ' _
        have h0' : (σ'.allocCell (.str (strToBytes a))).2.getCell 0 = .tbl 3 :=
          getCell_allocCell σ' _ _ _ (getCell_of RF.c0) (by simp)
        have h1' : (σ'.allocCell (.str (strToBytes a))).2.getCell 1 = .tbl 4 :=
          getCell_allocCell σ' _ _ _ (getCell_of RF.c1) (by simp)
        have hbox' : (σ'.allocCell (.str (strToBytes a))).2.rawGet 3 (.str (strToBytes a)) = .nil := by
          simp only [rawGet_allocCell]; rw [rawGet_of e3]; rfl
        have hmt' : ((σ'.allocCell (.str (strToBytes a))).2.getTable 3).mt = none := by
          simp only [getTable_allocCell]; rw [getTable_of e3]
        have hmod' : (σ'.allocCell (.str (strToBytes a))).2.rawGet 4 (.str (strToBytes a)) = .fn 1 := by
          simp only [rawGet_allocCell]; rw [rawGet_of RF.tMods]; simp [rawGetEntries, rawEq, strVal, strToBytes]
        have hclo' : (σ'.allocCell (.str (strToBytes a))).2.closures[1]? = some ⟨.mk [] false none none [] [] BR, envR3, []⟩ := by
          simpa using RF.f1
        have hR' := callClosure_req ρ (m + 1) (.str (strToBytes a)) σ'
        simp only [reqClosure] at hR'
        rw [callClosure_acc, hR']
        -- pinned temporaries
        obtain ⟨β1, l1, s1, m1⟩ := pinCellL hs (.nil)
        obtain ⟨β2, l2, s2, m2⟩ := pinTableL s1 ⟨[], none⟩
        obtain ⟨β3, l3, s3, m3⟩ := pinCellR s2 (.str (strToBytes a))
        obtain ⟨β4, l4, s4, m4⟩ := pinCellR s3 (.nil)
        obtain ⟨β5, l5, s5, m5⟩ := pinTableR s4 ⟨[], none⟩
        have hle5 : β.le β5 := Inj.le_trans l1 (Inj.le_trans l2 (Inj.le_trans l3 (Inj.le_trans l4 l5)))
        -- the two module functions are related closures: call them through the handler of their level
        have hI5 : LFacts M a BL β5 _ ∧ RFacts a BR β5 _ ∧ Coupled a β5 _ _ := s5.inv
        have hCR : CRel Q (bcx M a BL BR) β5 (implClosure BL (envLI M)) ⟨.mk [] false none none [] [] BR, envR3, []⟩ := by
          obtain ⟨c, c', h1, h2, hc⟩ := s5.clo hI5.1.fr
          rw [hI5.1.f0] at h1; rw [hI5.2.1.f1] at h2
          cases h1; cases h2; exact hc
        have hcr : HeapU.RRel Q (bcx M a BL BR) β5 AVs
            (callClosure ρ (m + 1) (implClosure BL (envLI M)) []
              ((σ.allocCell .nil).2.allocTable { entries := [], mt := none }).2)
            (callClosure ρ (m + 1) ⟨.mk [] false none none [] [] BR, envR3, []⟩ []
              (((σ'.allocCell (.str (strToBytes a))).2.allocCell .nil).2.allocTable { entries := [], mt := none }).2) :=
          hp.lower (m + 1) (by omega) β5 _ _ [] [] _ _ hCR .nil s5
        have hLfail := cached_miss_fail (callClosure ρ (m + 1)) ρ m M a ⟨envLI M, []⟩ 0 3 4 1 0 (implClosure BL (envLI M)) σ
          hMloc hIloc (getCell_of LF.c0) hcache hboxnil hmt4 (getCell_of LF.c1) LF.f0
        have hRfail := reqBody_miss_fail (callClosure ρ (m + 1)) ρ m (strToBytes a) σ'.cells.length 3 4 1
          ⟨.mk [] false none none [] [] BR, envR3, []⟩ (σ'.allocCell (.str (strToBytes a))).2 hn h0' h1' hbox' hmt' hmod' hclo'
        generalize hcL : callClosure ρ (m + 1) (implClosure BL (envLI M)) []
              ((σ.allocCell .nil).2.allocTable { entries := [], mt := none }).2 = cL at hcr hLfail
        generalize hcR : callClosure ρ (m + 1) ⟨.mk [] false none none [] [] BR, envR3, []⟩ []
              (((σ'.allocCell (.str (strToBytes a))).2.allocCell .nil).2.allocTable { entries := [], mt := none }).2 = cR
              at hcr hRfail
        cases cL with
        | timeout =>
          cases cR with
          | timeout => rw [hLfail.2 rfl, hRfail.2 rfl]; exact HeapU.RRel.timeout
          | ok _ _ => simp [HeapU.RRel, bcx] at hcr
          | err _ _ => simp [HeapU.RRel, bcx] at hcr
        | err e σb =>
          cases cR with
          | timeout => simp [HeapU.RRel, bcx] at hcr
          | ok _ _ => simp [HeapU.RRel] at hcr
          | err e' σb' => rw [hLfail.1 e σb rfl, hRfail.1 e' σb' rfl]; exact RRel.mono hle5 hcr
        | ok vs σb =>
          cases cR with
          | timeout => simp [HeapU.RRel, bcx] at hcr
          | err _ _ => simp [HeapU.RRel] at hcr
          | ok vs' σb' =>
            obtain ⟨β6, l6, hvs, s6⟩ := hcr
            have hI6 : LFacts M a BL β6 σb ∧ RFacts a BR β6 σb' ∧ Coupled a β6 σb σb' := s6.inv
            have hlt := cache_lt hI0
            have ecb : (σ'.allocCell (.str (strToBytes a))).2.cells.length = σ'.cells.length + 1 := by
              simp [State.allocCell]
            -- the pinned temporaries survived the bodies
            have pCL : σb.cells[σ.cells.length]? = some .nil ∧ σ.cells.length < β6.cL ∧ ∀ y, ¬ β6.c σ.cells.length y :=
              s6.pinCl _ (l6.pinsCL _ (l5.pinsCL _ (l4.pinsCL _ (l3.pinsCL _ (l2.pinsCL _ m1)))))
            have pTL : σb.tables[σ.tables.length]? = some ⟨[], none⟩ ∧ σ.tables.length < β6.tL ∧
                ∀ y, ¬ β6.t σ.tables.length y :=
              s6.pinTl _ (l6.pinsTL _ (l5.pinsTL _ (l4.pinsTL _ (l3.pinsTL _ m2))))
            have pCRn : σb'.cells[σ'.cells.length]? = some (.str (strToBytes a)) ∧ σ'.cells.length < β6.cR ∧
                ∀ x, ¬ β6.c x σ'.cells.length :=
              s6.pinC _ (l6.pinsCR _ (l5.pinsCR _ (l4.pinsCR _ m3)))
            have pCRb : σb'.cells[(σ'.allocCell (.str (strToBytes a))).2.cells.length]? = some .nil ∧
                (σ'.allocCell (.str (strToBytes a))).2.cells.length < β6.cR ∧
                ∀ x, ¬ β6.c x (σ'.allocCell (.str (strToBytes a))).2.cells.length :=
              s6.pinC _ (l6.pinsCR _ (l5.pinsCR _ m4))
            have pTR : σb'.tables[σ'.tables.length]? = some ⟨[], none⟩ ∧ σ'.tables.length < β6.tR ∧
                ∀ x, ¬ β6.t x σ'.tables.length :=
              s6.pinT _ (l6.pinsTR _ m5)
            -- the caches after the bodies (whatever they hold, the store overwrites the slot)
            obtain ⟨T4, hT4, hT4e, hT4m⟩ : ∃ T : Table N, σb.tables[4]? = some T ∧
                rawSetEntries (strVal a) (.tbl σ.tables.length) T.entries = [(strVal a, .tbl σ.tables.length)] ∧
                T.mt = none := by
              rcases hI6.2.2 with ⟨h, _⟩ | ⟨tb, _, _, _, h, _⟩
              · exact ⟨_, h, by simp [rawSetEntries], rfl⟩
              · exact ⟨_, h, by simp [rawSetEntries, rawEq, strVal], rfl⟩
            obtain ⟨T3, hT3, hT3e, hT3m⟩ : ∃ T : Table N, σb'.tables[3]? = some T ∧
                rawSetEntries (.str (strToBytes a)) (.tbl σ'.tables.length) T.entries = [(strVal a, .tbl σ'.tables.length)] ∧
                T.mt = none := by
              rcases hI6.2.2 with ⟨_, h⟩ | ⟨_, tb', _, _, _, _, _, _, h, _⟩
              · exact ⟨_, h, by simp [rawSetEntries, strVal, strToBytes], rfl⟩
              · exact ⟨_, h, by simp [rawSetEntries, rawEq, strVal, strToBytes], rfl⟩
            -- both sides run to the end
            have hLm := cached_miss' (callClosure ρ (m + 1)) ρ m M a ⟨envLI M, []⟩ 0 3 4 1 0 (implClosure BL (envLI M)) vs σ σb
              hMv hMloc hIloc (getCell_of LF.c0) hcache hboxnil hmt4 (getCell_of LF.c1) LF.f0 hcL
              (lt_of_getElem? pCL.1) (lt_of_getElem? pTL.1) (getTable_of pTL.1) (getCell_of hI6.1.c0)
              (rawGet_tM hac hI6.1.tM).1 (by rw [getTable_of hT4]; exact hT4m) hlt.1
            have hRm := reqBody_miss (callClosure ρ (m + 1)) ρ m (strToBytes a) σ'.cells.length 3 4 1 _ vs'
              (σ'.allocCell (.str (strToBytes a))).2 σb' hn h0' h1' hbox' hmt' hmod' hclo' hcR
              (lt_of_getElem? pCRb.1) (lt_of_getElem? pTR.1) (getTable_of pTR.1) (getCell_of pCRn.1)
              (getCell_of hI6.2.1.c0) (by rw [getTable_of hT3]; exact hT3m) hlt.2
            rw [hLm, hRm]
            -- the writes, in the context without the invariant
            have w0 := srel_toW s6
            have w1 := w0.setPinnedTL (a := σ.tables.length) (lt_of_getElem? pTL.1) pTL.2.1 pTL.2.2
              { (σb.getTable σ.tables.length) with
                entries := rawSetEntries (strVal "c") (first vs) (σb.getTable σ.tables.length).entries } trivial
            have w2 := w1.setPinnedCL (a := σ.cells.length) (lt_of_getElem? pCL.1) pCL.2.1 pCL.2.2 (.tbl σ.tables.length) trivial
            have w3 := w2.setPinnedTR (b := σ'.tables.length) (lt_of_getElem? pTR.1) pTR.2.1 pTR.2.2
              { (σb'.getTable σ'.tables.length) with
                entries := rawSetEntries (strVal "value") (first vs') (σb'.getTable σ'.tables.length).entries } trivial
            have w4 := w3.setPinnedCR (b := (σ'.allocCell (.str (strToBytes a))).2.cells.length) (lt_of_getElem? pCRb.1)
              pCRb.2.1 pCRb.2.2 (.tbl σ'.tables.length) trivial
            have hnpL : ∀ p ∈ ((((β6.repinTL σ.tables.length
                { (σb.getTable σ.tables.length) with
                  entries := rawSetEntries (strVal "c") (first vs) (σb.getTable σ.tables.length).entries }).repinCL
                σ.cells.length (.tbl σ.tables.length)).repinT σ'.tables.length
                { (σb'.getTable σ'.tables.length) with
                  entries := rawSetEntries (strVal "value") (first vs') (σb'.getTable σ'.tables.length).entries }).repinC
                (σ'.allocCell (.str (strToBytes a))).2.cells.length (.tbl σ'.tables.length)).pinTL, p.1 ≠ 4 := by
              intro p hp
              simp only [Inj.repinC, Inj.repinT, Inj.repinCL, Inj.repinTL, List.mem_cons, List.mem_filter] at hp
              rcases hp with rfl | ⟨hp, _⟩
              · simp only []; omega
              · exact hI6.1.np p hp
            have hnpR : ∀ p ∈ ((((β6.repinTL σ.tables.length
                { (σb.getTable σ.tables.length) with
                  entries := rawSetEntries (strVal "c") (first vs) (σb.getTable σ.tables.length).entries }).repinCL
                σ.cells.length (.tbl σ.tables.length)).repinT σ'.tables.length
                { (σb'.getTable σ'.tables.length) with
                  entries := rawSetEntries (strVal "value") (first vs') (σb'.getTable σ'.tables.length).entries }).repinC
                (σ'.allocCell (.str (strToBytes a))).2.cells.length (.tbl σ'.tables.length)).pinTR, p.1 ≠ 3 := by
              intro p hp
              simp only [Inj.repinC, Inj.repinT, Inj.repinCL, Inj.repinTL, List.mem_cons, List.mem_filter] at hp
              rcases hp with rfl | ⟨hp, _⟩
              · simp only []; omega
              · exact hI6.2.1.np p hp
            have w5 : SRel Q (bcxW M) _ (afterMiss σb σ.cells.length σ.tables.length 4 a (first vs))
                (afterReqMiss σb' (σ'.allocCell (.str (strToBytes a))).2.cells.length σ'.tables.length 3 (strToBytes a) (first vs')) :=
              srel_privSetTableLR w4 (a := 4) (b := 3) hI6.1.pt.2.2 hnpL hI6.2.1.pt.2.1 hnpR _ _ trivial
            -- the invariant in the final states
            have hc2 : 1 < σ.cells.length := lt_of_getElem? LF.c1
            have hc3 : 2 < σ'.cells.length := lt_of_getElem? RF.c2
            have ht5 : 4 < σ'.tables.length := lt_of_getElem? RF.tMods
            obtain ⟨fLc, fLf, fLt⟩ := afterMiss_facts σb σ.cells.length σ.tables.length 4 a (first vs) T4 (by omega) pTL.1 hT4
            obtain ⟨fRc, fRf, fRt⟩ := afterReqMiss_facts σb' (σ'.allocCell (.str (strToBytes a))).2.cells.length σ'.tables.length 3
              (strToBytes a) (first vs') T3 (by omega) pTR.1 hT3
            have hIf : (bcx M a BL BR).I N ((((β6.repinTL σ.tables.length
                { (σb.getTable σ.tables.length) with
                  entries := rawSetEntries (strVal "c") (first vs) (σb.getTable σ.tables.length).entries }).repinCL
                σ.cells.length (.tbl σ.tables.length)).repinT σ'.tables.length
                { (σb'.getTable σ'.tables.length) with
                  entries := rawSetEntries (strVal "value") (first vs') (σb'.getTable σ'.tables.length).entries }).repinC
                (σ'.allocCell (.str (strToBytes a))).2.cells.length (.tbl σ'.tables.length))
                (afterMiss σb σ.cells.length σ.tables.length 4 a (first vs))
                (afterReqMiss σb' (σ'.allocCell (.str (strToBytes a))).2.cells.length σ'.tables.length 3 (strToBytes a) (first vs')) := by
              refine ⟨⟨?_, ?_, ?_, ?_, ?_, hI6.1.pc, hI6.1.pt, hnpL, hI6.1.fr⟩, ⟨?_, ?_, ?_, ?_, ?_, ?_, hI6.2.1.pc, hI6.2.1.pt, hnpR⟩,
                .inr ⟨σ.tables.length, σ'.tables.length, first vs, first vs', ?_, ?_, pTL.2.1, pTL.2.2, ?_, ?_, pTR.2.1, pTR.2.2, ?_⟩⟩
              · rw [fLc, listSet_get_ne _ _ _ _ (by omega)]; exact hI6.1.c0
              · rw [fLc, listSet_get_ne _ _ _ _ (by omega)]; exact hI6.1.c1
              · rw [fLt, listSet_get_ne _ _ _ _ (by omega), listSet_get_ne _ _ _ _ (by omega)]; exact hI6.1.tM
              · rw [fLf]; exact hI6.1.f0
              · rw [fLf]; exact hI6.1.f1
              · rw [fRc, listSet_get_ne _ _ _ _ (by omega)]; exact hI6.2.1.c0
              · rw [fRc, listSet_get_ne _ _ _ _ (by omega)]; exact hI6.2.1.c1
              · rw [fRc, listSet_get_ne _ _ _ _ (by omega)]; exact hI6.2.1.c2
              · rw [fRt, listSet_get_ne _ _ _ _ (by omega), listSet_get_ne _ _ _ _ (by omega)]; exact hI6.2.1.tMods
              · rw [fRf]; exact hI6.2.1.f0
              · rw [fRf]; exact hI6.2.1.f1
              · rw [fLt, listSet_get_same _ _ _ (by rw [listSet_length]; exact lt_of_getElem? hT4), hT4e, hT4m]
              · rw [fLt, listSet_get_ne _ _ _ _ (by omega), listSet_get_same _ _ _ (lt_of_getElem? pTL.1)]
              · rw [fRt, listSet_get_same _ _ _ (by rw [listSet_length]; exact lt_of_getElem? hT3), hT3e, hT3m]
              · rw [fRt, listSet_get_ne _ _ _ _ (by omega), listSet_get_same _ _ _ (lt_of_getElem? pTR.1)]
              · exact VRel.congr rfl rfl (VRel.first hvs)
            have hle6 : β.le β6 := Inj.le_trans hle5 l6
            refine ⟨((((β6.repinTL σ.tables.length
                { (σb.getTable σ.tables.length) with
                  entries := rawSetEntries (strVal "c") (first vs) (σb.getTable σ.tables.length).entries }).repinCL
                σ.cells.length (.tbl σ.tables.length)).repinT σ'.tables.length
                { (σb'.getTable σ'.tables.length) with
                  entries := rawSetEntries (strVal "value") (first vs') (σb'.getTable σ'.tables.length).entries }).repinC
                (σ'.allocCell (.str (strToBytes a))).2.cells.length (.tbl σ'.tables.length)), ?_,
              .cons (VRel.congr rfl rfl (VRel.first hvs)) .nil, srel_ofW w5 hIf⟩
            refine le_repinC (le_repinT (le_repinCL (le_repinTL hle6 _ ?_) _ ?_) _ ?_) _ ?_
            · intro p hp; have := (hs.pinTl p hp).2.1; have := hs.front.tL; omega
            · intro p hp; have := (hs.pinCl p hp).2.1; have := hs.front.cL; omega
            · intro p hp; have := (hs.pinT p hp).2.1; have := hs.front.tR; omega
            · intro p hp; have := (hs.pinC p hp).2.1; have := hs.front.cR; omega
      · -- HIT: both caches hold a box
        have hL := cached_hit (callClosure ρ (m + 1)) ρ m M a ⟨envLI M, []⟩ 0 3 4 tb v σ hMloc (getCell_of LF.c0) hcache
          (by rw [rawGet_of h1]; simp [rawGetEntries, rawEq, strVal])
          (by rw [rawGet_of h2]; exact rawGetEntries_rawSetEntries_nil _ _)
          (Or.inr (by rw [getTable_of h2]))
        rw [callClosure_acc, hL]
        have hR := reqBody_hit (callClosure ρ (m + 1)) ρ m (strToBytes a) σ'.cells.length 3 tb' v' (σ'.allocCell (.str (strToBytes a))).2
          (getCell_allocCell_new σ' _) (getCell_allocCell σ' _ _ _ (getCell_of RF.c0) (by simp))
          (by simp only [rawGet_allocCell]; rw [rawGet_of h5]; simp [rawGetEntries, rawEq, strVal, strToBytes])
          (by simp only [rawGet_allocCell]; rw [rawGet_of h6]; exact rawGetEntries_rawSetEntries_nil _ _)
          (Or.inr (by simp only [getTable_allocCell]; rw [getTable_of h6]))
        have hR' := callClosure_req ρ (m + 1) (.str (strToBytes a)) σ'
        simp only [reqClosure] at hR'
        rw [hR', hR]
        exact HeapU.RRel.ok (.cons h9 .nil) (((hs.allocCellLeft _).allocCellRight _).allocCellRight _)

end DarkluaModel.C05
