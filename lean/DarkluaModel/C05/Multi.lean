import DarkluaModel.C05.Leaf
/-!
C05: any number of bundled modules. The context `bcxN` generalises `bcx`: the invariant speaks about a list of
modules (name, the two bodies, the ids of their objects), the coupling of the two caches is per module name.
The call-site leaf is body-independent exactly as for one module (related closure pairs, `POK.lower`), so there is
no induction over the definition order and requires between modules (cycles included) need no extra argument.
-/
namespace DarkluaModel.C05
open Sem Sem.HeapU
variable {N : NumOps} {M : String}

/-- one bundled module on both sides -/
structure RMod where
  name : String
  bodyL : Block
  bodyR : Block
  /-- left: the cell of its `__modImpl` local, the closures of the wrapper and of the accessor -/
  cI : Nat
  implId : Nat
  accId : Nat
  /-- right: the closure of its module function -/
  modId : Nat

def envLIi (M : String) (cI : Nat) : List (String × Nat) := [(implName, cI), (M, 0)]

/-- the bundle's private objects -/
structure LFactsN (M : String) (ms : List RMod) (β : Inj N) (σ : State N) : Prop where
  c0 : σ.cells[0]? = some (.tbl 3)
  tM : ∃ T : Table N, σ.tables[3]? = some T ∧ rawGetEntries (strVal "cache") T.entries = .tbl 4 ∧
    ∀ m ∈ ms, rawGetEntries (strVal m.name) T.entries = .fn m.accId
  cell : ∀ m ∈ ms, σ.cells[m.cI]? = some (.fn m.implId) ∧ m.cI < β.cL ∧ ∀ b, ¬ β.c m.cI b
  impl : ∀ m ∈ ms, σ.closures[m.implId]? = some (implClosure m.bodyL (envLIi M m.cI))
  acc : ∀ m ∈ ms, σ.closures[m.accId]? = some (accClosure M m.name (envLIi M m.cI))
  /-- wrapper and reference module function are related closures -/
  fr : ∀ m ∈ ms, β.f m.implId m.modId
  pc : 0 < β.cL ∧ ∀ b, ¬ β.c 0 b
  pt : 5 ≤ β.tL ∧ (∀ b, ¬ β.t 3 b) ∧ (∀ b, ¬ β.t 4 b)
  np : ∀ p ∈ β.pinTL, p.1 ≠ 4

/-- the reference program's private objects -/
structure RFactsN (ms : List RMod) (β : Inj N) (σ' : State N) : Prop where
  c0 : σ'.cells[0]? = some (.tbl 3)
  c1 : σ'.cells[1]? = some (.tbl 4)
  c2 : σ'.cells[2]? = some (.fn 0)
  tMods : ∃ T : Table N, σ'.tables[4]? = some T ∧ ∀ m ∈ ms, rawGetEntries (strVal m.name) T.entries = .fn m.modId
  f0 : σ'.closures[0]? = some ⟨refRequireFn, envR3, []⟩
  mod : ∀ m ∈ ms, σ'.closures[m.modId]? = some ⟨.mk [] false none none [] [] m.bodyR, envR3, []⟩
  pc : 3 ≤ β.cR ∧ (∀ x, ¬ β.c x 0) ∧ (∀ x, ¬ β.c x 1) ∧ (∀ x, ¬ β.c x 2)
  pt : 5 ≤ β.tR ∧ (∀ x, ¬ β.t x 3) ∧ (∀ x, ¬ β.t x 4)
  np : ∀ p ∈ β.pinTR, p.1 ≠ 3

/-- one slot of the two caches: both empty, or both hold a private, unpinned box with related contents -/
def SlotN (β : Inj N) (σ σ' : State N) (x y : Val N) : Prop :=
  (x = .nil ∧ y = .nil) ∨
  ∃ (tb tb' : Nat) (v v' : Val N), x = .tbl tb ∧ y = .tbl tb' ∧
    σ.tables[tb]? = some ⟨rawSetEntries (strVal "c") v [], none⟩ ∧ tb ≠ 4 ∧ tb < β.tL ∧ (∀ b, ¬ β.t tb b) ∧
      (∀ p ∈ β.pinTL, p.1 ≠ tb) ∧
    σ'.tables[tb']? = some ⟨rawSetEntries (strVal "value") v' [], none⟩ ∧ tb' ≠ 3 ∧ tb' < β.tR ∧ (∀ a, ¬ β.t a tb') ∧
      (∀ p ∈ β.pinTR, p.1 ≠ tb') ∧
    VRel β v v'

/-- the two caches, slot by slot -/
def CoupledN (ms : List RMod) (β : Inj N) (σ σ' : State N) : Prop :=
  ∃ TC TL : Table N, σ.tables[4]? = some TC ∧ TC.mt = none ∧ σ'.tables[3]? = some TL ∧ TL.mt = none ∧
    ∀ m ∈ ms, SlotN β σ σ' (rawGetEntries (strVal m.name) TC.entries) (rawGetEntries (strVal m.name) TL.entries)

/-- new content pins lie beyond the old frontier -/
def PinsFresh (β β' : Inj N) : Prop :=
  (∀ p ∈ β'.pinTL, p ∈ β.pinTL ∨ β.tL ≤ p.1) ∧ (∀ p ∈ β'.pinTR, p ∈ β.pinTR ∨ β.tR ≤ p.1)

theorem unrelL {β β' : Inj N} (he : β.ext β') {x : Nat} (hx : x < β.tL) (hu : ∀ b, ¬ β.t x b) : ∀ b, ¬ β'.t x b :=
  fun b hb => by
    rcases he.freshT x b hb with h | h
    · exact hu b h
    · omega
theorem unrelR {β β' : Inj N} (he : β.ext β') {y : Nat} (hy : y < β.tR) (hu : ∀ a, ¬ β.t a y) : ∀ a, ¬ β'.t a y :=
  fun a hb => by
    rcases he.freshT a y hb with h | h
    · exact hu a h
    · omega
theorem unrelCL {β β' : Inj N} (he : β.ext β') {x : Nat} (hx : x < β.cL) (hu : ∀ b, ¬ β.c x b) : ∀ b, ¬ β'.c x b :=
  fun b hb => by
    rcases he.freshC x b hb with h | h
    · exact hu b h
    · omega
theorem unrelCR {β β' : Inj N} (he : β.ext β') {y : Nat} (hy : y < β.cR) (hu : ∀ a, ¬ β.c a y) : ∀ a, ¬ β'.c a y :=
  fun a hb => by
    rcases he.freshC a y hb with h | h
    · exact hu a h
    · omega

theorem npL {β β' : Inj N} (hp : PinsFresh β β') {x : Nat} (hx : x < β.tL) (h : ∀ p ∈ β.pinTL, p.1 ≠ x) :
    ∀ p ∈ β'.pinTL, p.1 ≠ x := fun p hp' => by
  rcases hp.1 p hp' with h1 | h1
  · exact h p h1
  · omega
theorem npR {β β' : Inj N} (hp : PinsFresh β β') {x : Nat} (hx : x < β.tR) (h : ∀ p ∈ β.pinTR, p.1 ≠ x) :
    ∀ p ∈ β'.pinTR, p.1 ≠ x := fun p hp' => by
  rcases hp.2 p hp' with h1 | h1
  · exact h p h1
  · omega

theorem lfactsN_stable {M : String} {ms : List RMod} {β β' : Inj N} {σ σ' s s' : State N} (he : β.ext β')
    (hp : PinsFresh β β') (hf : Frame β σ σ' s s') (h : LFactsN M ms β σ) : LFactsN M ms β' s := by
  obtain ⟨c0, ⟨T, hT, hTc, hTm⟩, cell, impl, acc, fr, ⟨pc1, pc2⟩, ⟨pt1, pt2, pt3⟩, np⟩ := h
  refine ⟨hf.cL 0 _ pc1 pc2 c0, ⟨T, hf.tL 3 _ (by omega) pt2 hT, hTc, hTm⟩, fun m hm => ?_, fun m hm => hf.fL _ _ (impl m hm),
    fun m hm => hf.fL _ _ (acc m hm), fun m hm => he.f _ _ (fr m hm),
    ⟨by have := he.front.1; omega, unrelCL he pc1 pc2⟩,
    ⟨by have := he.front.2.2.1; omega, unrelL he (by omega) pt2, unrelL he (by omega) pt3⟩, npL hp (by omega) np⟩
  obtain ⟨h1, h2, h3⟩ := cell m hm
  exact ⟨hf.cL _ _ h2 h3 h1, by have := he.front.1; omega, unrelCL he h2 h3⟩

theorem rfactsN_stable {ms : List RMod} {β β' : Inj N} {σ σ' s s' : State N} (he : β.ext β')
    (hp : PinsFresh β β') (hf : Frame β σ σ' s s') (h : RFactsN ms β σ') : RFactsN ms β' s' := by
  obtain ⟨c0, c1, c2, ⟨T, hT, hTm⟩, f0, mod, ⟨pc1, pc2, pc3, pc4⟩, ⟨pt1, pt2, pt3⟩, np⟩ := h
  exact ⟨hf.cR 0 _ (by omega) pc2 c0, hf.cR 1 _ (by omega) pc3 c1, hf.cR 2 _ (by omega) pc4 c2,
    ⟨T, hf.tR 4 _ (by omega) pt3 hT, hTm⟩, hf.fR 0 _ f0, fun m hm => hf.fR _ _ (mod m hm),
    ⟨by have := he.front.2.1; omega, unrelCR he (by omega) pc2, unrelCR he (by omega) pc3, unrelCR he (by omega) pc4⟩,
    ⟨by have := he.front.2.2.2.1; omega, unrelR he (by omega) pt2, unrelR he (by omega) pt3⟩, npR hp (by omega) np⟩

theorem slotN_stable {β β' : Inj N} {σ σ' s s' : State N} (he : β.ext β') (hp : PinsFresh β β')
    (hf : Frame β σ σ' s s') {x y : Val N} (h : SlotN β σ σ' x y) : SlotN β' s s' x y := by
  rcases h with h | ⟨tb, tb', v, v', h1, h2, h3, h4, h5, h6, h7, h8, h9, h10, h11, h12, h13⟩
  · exact .inl h
  · exact .inr ⟨tb, tb', v, v', h1, h2, hf.tL tb _ h5 h6 h3, h4, by have := he.front.2.2.1; omega, unrelL he h5 h6,
      npL hp h5 h7, hf.tR tb' _ h10 h11 h8, h9, by have := he.front.2.2.2.1; omega, unrelR he h10 h11, npR hp h10 h12,
      VRel.monoExt he h13⟩

theorem coupledN_stable {ms : List RMod} {β β' : Inj N} {σ σ' s s' : State N} (he : β.ext β') (hp : PinsFresh β β')
    (hf : Frame β σ σ' s s') (hl : 5 ≤ β.tL ∧ ∀ b, ¬ β.t 4 b) (hr : 5 ≤ β.tR ∧ ∀ x, ¬ β.t x 3)
    (h : CoupledN ms β σ σ') : CoupledN ms β' s s' := by
  obtain ⟨TC, TL, h1, h2, h3, h4, h5⟩ := h
  exact ⟨TC, TL, hf.tL 4 _ (by omega) hl.2 h1, h2, hf.tR 3 _ (by omega) hr.2 h3, h4,
    fun m hm => slotN_stable he hp hf (h5 m hm)⟩

theorem invN_mono {M : String} {ms : List RMod} {β β' : Inj N} {σ σ' s s' : State N} (he : β.ext β')
    (hp : PinsFresh β β') (hf : Frame β σ σ' s s')
    (hI : LFactsN M ms β σ ∧ RFactsN ms β σ' ∧ CoupledN ms β σ σ') :
    LFactsN M ms β' s ∧ RFactsN ms β' s' ∧ CoupledN ms β' s s' :=
  ⟨lfactsN_stable he hp hf hI.1, rfactsN_stable he hp hf hI.2.1,
    coupledN_stable he hp hf ⟨hI.1.pt.1, hI.1.pt.2.2⟩ ⟨hI.2.1.pt.1, hI.2.1.pt.2.1⟩ hI.2.2⟩

/-- the context of a bundle with the modules `ms` -/
def bcxN (M : String) (ms : List RMod) : Cx where
  W := [M, "__ref_require"]
  bindL := [(M, 0)]
  bindR := [("__ref_require", 2)]
  CF := fun _ ρ k call => call = callClosure ρ k
  I := fun _ β σ σ' => LFactsN M ms β σ ∧ RFactsN ms β σ' ∧ CoupledN ms β σ σ'
  stable := fun _ β β' σ σ' s s' he hp hf hI =>
    invN_mono he ⟨by rw [hp.1]; exact fun p h => .inl h, by rw [hp.2.2.1]; exact fun p h => .inl h⟩ hf hI

/-! ### dropping content pins -/

/-- the same relation with fewer content pins (a pin is an obligation of the state relation, never a resource) -/
theorem srel_pins {Q : QRel} {cx : Cx} {β : Inj N} {σ σ' : State N} (h : SRel Q cx β σ σ')
    (pTL pTR : List (Nat × Table N)) (hTL : ∀ p ∈ pTL, p ∈ β.pinTL) (hTR : ∀ p ∈ pTR, p ∈ β.pinTR)
    (hI : cx.I N { β with pinTL := pTL, pinTR := pTR } σ σ') :
    SRel Q cx { β with pinTL := pTL, pinTR := pTR } σ σ' := by
  have hle : ∀ {v v' : Val N}, VRel β v v' → VRel { β with pinTL := pTL, pinTR := pTR } v v' := VRel.congr rfl rfl
  exact {
    globals := Forall2.imp (fun _ _ hp => ⟨hp.1, hle hp.2⟩) h.globals
    trace := h.trace
    injC := h.injC
    injT := h.injT
    injF := h.injF
    cell := fun hab => let ⟨v, v', h1, h2, hv⟩ := h.cell hab; ⟨v, v', h1, h2, hle hv⟩
    tbl := fun hab => let ⟨v, v', h1, h2, hv⟩ := h.tbl hab
      ⟨v, v', h1, h2, Forall2.imp (fun _ _ he => ⟨hle he.1, hle he.2⟩) hv.entries, hv.mt⟩
    clo := fun hab => let ⟨c, c', h1, h2, hc⟩ := h.clo hab
      ⟨c, c', h1, h2, Forall2.imp (fun _ _ => hle) hc.varargs, let ⟨D, hq, he⟩ := hc.body; ⟨D, hq, he.rel, he.dw, he.wb⟩⟩
    strlib := h.strlib
    ginv := h.ginv
    finv := h.finv
    front := ⟨h.front.cL, h.front.cR, h.front.tL, h.front.tR, h.front.fL, h.front.fR⟩
    pin := h.pin
    pinR := h.pinR
    pinT := fun p hp => h.pinT p (hTR p hp)
    pinC := h.pinC
    pinTl := fun p hp => h.pinTl p (hTL p hp)
    pinCl := h.pinCl
    inv := hI }

theorem le_dropPins {β0 β1 : Inj N} (h : β0.le β1) (pTL pTR : List (Nat × Table N))
    (hTL : ∀ p ∈ β0.pinTL, p ∈ pTL) (hTR : ∀ p ∈ β0.pinTR, p ∈ pTR) :
    β0.le { β1 with pinTL := pTL, pinTR := pTR } :=
  ⟨h.c, h.t, h.f, h.front, h.freshC, h.freshT, h.freshF, h.pins, h.pinsR, hTR, h.pinsCR, hTL, h.pinsCL⟩

/-! ### to and from the context without the invariant -/

theorem srel_toWN {Q : QRel} {M : String} {ms : List RMod} {β : Inj N} {σ σ' : State N}
    (h : SRel Q (bcxN M ms) β σ σ') : SRel Q (bcxW M) β σ σ' where
  globals := h.globals
  trace := h.trace
  injC := h.injC
  injT := h.injT
  injF := h.injF
  cell := h.cell
  tbl := h.tbl
  clo := fun hab =>
    let ⟨c, c', h1, h2, hc⟩ := h.clo hab
    ⟨c, c', h1, h2, hc.varargs, let ⟨D, hq, he⟩ := hc.body; ⟨D, hq, he.rel, he.dw, he.wb⟩⟩
  strlib := h.strlib
  ginv := h.ginv
  finv := h.finv
  front := h.front
  pin := h.pin
  pinR := h.pinR
  pinT := h.pinT
  pinC := h.pinC
  pinTl := h.pinTl
  pinCl := h.pinCl
  inv := trivial

theorem srel_ofWN {Q : QRel} {M : String} {ms : List RMod} {β : Inj N} {σ σ' : State N}
    (h : SRel Q (bcxW M) β σ σ') (hI : (bcxN M ms).I N β σ σ') : SRel Q (bcxN M ms) β σ σ' where
  globals := h.globals
  trace := h.trace
  injC := h.injC
  injT := h.injT
  injF := h.injF
  cell := h.cell
  tbl := h.tbl
  clo := fun hab =>
    let ⟨c, c', h1, h2, hc⟩ := h.clo hab
    ⟨c, c', h1, h2, hc.varargs, let ⟨D, hq, he⟩ := hc.body; ⟨D, hq, he.rel, he.dw, he.wb⟩⟩
  strlib := h.strlib
  ginv := h.ginv
  finv := h.finv
  front := h.front
  pin := h.pin
  pinR := h.pinR
  pinT := h.pinT
  pinC := h.pinC
  pinTl := h.pinTl
  pinCl := h.pinCl
  inv := hI

/-! ### content-pinned allocations in `bcxN` -/

section pinsN
variable {Q : QRel} {M : String} {ms : List RMod} {β : Inj N} {σ σ' : State N}

theorem pinCellLN (hs : SRel Q (bcxN M ms) β σ σ') (v : Val N) :
    ∃ β1, β.le β1 ∧ SRel Q (bcxN M ms) β1 (σ.allocCell v).2 σ' ∧ (σ.cells.length, v) ∈ β1.pinCL := by
  have hI : LFactsN M ms β σ ∧ RFactsN ms β σ' ∧ CoupledN ms β σ σ' := hs.inv
  refine ⟨_, hs.le_allocCellLeftPinned v, hs.allocCellLeftPinned v ?_, ?_⟩
  · exact invN_mono (hs.le_allocCellLeftPinned v).toExt ⟨fun p hp => .inl hp, fun p hp => .inl hp⟩ (by frame_grow) hI
  · simp [Inj.repinCL]

theorem pinCellRN (hs : SRel Q (bcxN M ms) β σ σ') (v : Val N) :
    ∃ β1, β.le β1 ∧ SRel Q (bcxN M ms) β1 σ (σ'.allocCell v).2 ∧ (σ'.cells.length, v) ∈ β1.pinCR := by
  have hI : LFactsN M ms β σ ∧ RFactsN ms β σ' ∧ CoupledN ms β σ σ' := hs.inv
  refine ⟨_, hs.le_allocCellRightPinned v, hs.allocCellRightPinned v ?_, ?_⟩
  · exact invN_mono (hs.le_allocCellRightPinned v).toExt ⟨fun p hp => .inl hp, fun p hp => .inl hp⟩ (by frame_grow) hI
  · simp [Inj.repinC]

theorem pinTableLN (hs : SRel Q (bcxN M ms) β σ σ') (t : Table N) :
    ∃ β1, β.le β1 ∧ SRel Q (bcxN M ms) β1 (σ.allocTable t).2 σ' ∧ (σ.tables.length, t) ∈ β1.pinTL := by
  have hI : LFactsN M ms β σ ∧ RFactsN ms β σ' ∧ CoupledN ms β σ σ' := hs.inv
  refine ⟨_, hs.le_allocTableLeftPinned t, hs.allocTableLeftPinned t ?_, ?_⟩
  · refine invN_mono (hs.le_allocTableLeftPinned t).toExt ⟨fun p hp => ?_, fun p hp => .inl hp⟩ (by frame_grow) hI
    simp only [Inj.repinTL, Inj.bump, List.mem_cons, List.mem_filter] at hp
    rcases hp with rfl | ⟨hp, _⟩
    · exact .inr hs.front.tL
    · exact .inl hp
  · simp [Inj.repinTL]

theorem pinTableRN (hs : SRel Q (bcxN M ms) β σ σ') (t : Table N) :
    ∃ β1, β.le β1 ∧ SRel Q (bcxN M ms) β1 σ (σ'.allocTable t).2 ∧ (σ'.tables.length, t) ∈ β1.pinTR := by
  have hI : LFactsN M ms β σ ∧ RFactsN ms β σ' ∧ CoupledN ms β σ σ' := hs.inv
  refine ⟨_, hs.le_allocTableRightPinned t, hs.allocTableRightPinned t ?_, ?_⟩
  · refine invN_mono (hs.le_allocTableRightPinned t).toExt ⟨fun p hp => .inl hp, fun p hp => ?_⟩ (by frame_grow) hI
    simp only [Inj.repinT, Inj.bump, List.mem_cons, List.mem_filter] at hp
    rcases hp with rfl | ⟨hp, _⟩
    · exact .inr hs.front.tR
    · exact .inl hp
  · simp [Inj.repinT]

end pinsN

/-- a slot that is not touched survives the writes of a cache miss -/
theorem slotN_keep {β βf : Inj N} {σ σ' s s' : State N} {x y : Val N} (h : SlotN β σ σ' x y)
    (ht : βf.t = β.t) (hf : βf.f = β.f) (htL : βf.tL = β.tL) (htR : βf.tR = β.tR)
    (hpL : ∀ p ∈ βf.pinTL, p ∈ β.pinTL) (hpR : ∀ p ∈ βf.pinTR, p ∈ β.pinTR)
    (hL : ∀ tb T, tb ≠ 4 → (∀ p ∈ β.pinTL, p.1 ≠ tb) → σ.tables[tb]? = some T → s.tables[tb]? = some T)
    (hR : ∀ tb T, tb ≠ 3 → (∀ p ∈ β.pinTR, p.1 ≠ tb) → σ'.tables[tb]? = some T → s'.tables[tb]? = some T) :
    SlotN βf s s' x y := by
  rcases h with h | ⟨tb, tb', v, v', h1, h2, h3, h4, h5, h6, h7, h8, h9, h10, h11, h12, h13⟩
  · exact .inl h
  · exact .inr ⟨tb, tb', v, v', h1, h2, hL tb _ h4 h7 h3, h4, by rw [htL]; exact h5, by rw [ht]; exact h6,
      fun p hp => h7 p (hpL p hp), hR tb' _ h9 h12 h8, h9, by rw [htR]; exact h10, by rw [ht]; exact h11,
      fun p hp => h12 p (hpR p hp), VRel.congr ht hf h13⟩

theorem strVal_eq_of_bytes {a b : String} (h : bytesOf a = bytesOf b) : (strVal a : Val N) = strVal b := by
  simp only [strVal]; exact congrArg _ h

theorem rawGet_set_same_str (a : String) (v : Val N) (hv : v ≠ .nil) (es : List (Val N × Val N)) :
    rawGetEntries (strVal a) (rawSetEntries (strVal a) v es) = v :=
  rawGetEntries_rawSetEntries_same _ v hv es
theorem rawGet_set_other_str (a b : String) (hab : bytesOf a ≠ bytesOf b) (v : Val N) (hv : v ≠ .nil)
    (es : List (Val N × Val N)) :
    rawGetEntries (strVal b) (rawSetEntries (strVal a) v es) = rawGetEntries (strVal b) es :=
  rawGetEntries_rawSetEntries_other _ _ hab v hv es

/-! ### the leaf for module `m` of the list -/

theorem leaf_soundN (M : String) (ms : List RMod) (m : RMod) (hm : m ∈ ms)
    (hMv : M ≠ "v") (hMI : M ≠ implName) {Q : QRel} :
    SoundE Q (bcxN M ms) (D1 M) (accessorCall M m.name) (refCall m.name) := by
  intro N call ρ k env env' σ σ' β hp hs he
  have hcall : call = callClosure ρ k := hp.cf
  subst hcall
  obtain ⟨LF, RF, CP⟩ : LFactsN M ms β σ ∧ RFactsN ms β σ' ∧ CoupledN ms β σ σ' := hs.inv
  have hlM : lookupVar env M σ = .tbl 3 := by
    rw [he.lookupVarL (n := M) (c := 0) (by simp [D1]) (by simp [bcxN, lookupAssoc]) σ]; exact getCell_of LF.c0
  have hlR : lookupVar env' "__ref_require" σ' = .fn 0 := by
    rw [he.lookupVarR (n := "__ref_require") (c := 2) (by simp [D1]) (by simp [bcxN, lookupAssoc]) σ']; exact getCell_of RF.c2
  obtain ⟨TM, hTM, hTMc, hTMm⟩ := LF.tM
  have hcache : σ.rawGet 3 (strVal "cache") = .tbl 4 := by rw [rawGet_of hTM]; exact hTMc
  have hacc : σ.rawGet 3 (strVal m.name) = .fn m.accId := by rw [rawGet_of hTM]; exact hTMm m hm
  cases k with
  | zero =>
    rw [eval_accessorCall_zero _ ρ env M m.name σ 3 hlM, eval_refCall_zero]
    exact HeapU.RRel.timeout
  | succ k1 =>
    rw [eval_accessorCall _ ρ k1 env M m.name σ 3 m.accId _ hlM hacc (LF.acc m hm),
      eval_refCall _ ρ k1 env' m.name σ' 0 _ hlR RF.f0]
    cases k1 with
    | zero =>
      rw [acc_timeout1]
      have := req_timeout1 ρ [.str (strToBytes m.name)] σ'
      simp only [reqClosure] at this
      rw [this]
      exact HeapU.RRel.timeout
    | succ l =>
      have hMloc : lookupAssoc M (envLIi M m.cI) = some 0 := by
        have : ¬ implName = M := fun e => hMI e.symm
        simp [envLIi, lookupAssoc, this]
      obtain ⟨TC, TL, hTC, hTCm, hTL, hTLm, hslots⟩ := CP
      have hlt4 : 4 < σ.tables.length := lt_of_getElem? hTC
      have hlt3 : 3 < σ'.tables.length := lt_of_getElem? hTL
      rcases hslots m hm with ⟨e4, e3⟩ | ⟨tb, tb', v, v', h1, h2, h3, _, _, _, _, h8, _, _, _, _, h13⟩
      · -- MISS: both slots are empty
        have hIloc : lookupAssoc implName (envLIi M m.cI) = some m.cI := by simp [envLIi, lookupAssoc]
        have hboxnil : σ.rawGet 4 (strVal m.name) = .nil := by rw [rawGet_of hTC]; exact e4
        have hmt4 : (σ.getTable 4).mt = none := by rw [getTable_of hTC]; exact hTCm
        have hn : (σ'.allocCell (.str (strToBytes m.name))).2.getCell σ'.cells.length = .str (strToBytes m.name) :=
          getCell_allocCell_new σ' _
        have h0' : (σ'.allocCell (.str (strToBytes m.name))).2.getCell 0 = .tbl 3 :=
          getCell_allocCell σ' _ _ _ (getCell_of RF.c0) (by simp)
        have h1' : (σ'.allocCell (.str (strToBytes m.name))).2.getCell 1 = .tbl 4 :=
          getCell_allocCell σ' _ _ _ (getCell_of RF.c1) (by simp)
        have hbox' : (σ'.allocCell (.str (strToBytes m.name))).2.rawGet 3 (.str (strToBytes m.name)) = .nil := by
          simp only [rawGet_allocCell]; rw [rawGet_of hTL]; exact e3
        have hmt' : ((σ'.allocCell (.str (strToBytes m.name))).2.getTable 3).mt = none := by
          simp only [getTable_allocCell]; rw [getTable_of hTL]; exact hTLm
        have hmod' : (σ'.allocCell (.str (strToBytes m.name))).2.rawGet 4 (.str (strToBytes m.name)) = .fn m.modId := by
          obtain ⟨T, hT, hTm⟩ := RF.tMods
          simp only [rawGet_allocCell]; rw [rawGet_of hT]; exact hTm m hm
        have hclo' : (σ'.allocCell (.str (strToBytes m.name))).2.closures[m.modId]? =
            some ⟨.mk [] false none none [] [] m.bodyR, envR3, []⟩ := by
          simpa using RF.mod m hm
        have hR' := callClosure_req ρ (l + 1) (.str (strToBytes m.name)) σ'
        simp only [reqClosure] at hR'
        rw [callClosure_acc, hR']
        -- pinned temporaries
        obtain ⟨β1, l1, s1, m1⟩ := pinCellLN hs (.nil)
        obtain ⟨β2, l2, s2, m2⟩ := pinTableLN s1 ⟨[], none⟩
        obtain ⟨β3, l3, s3, m3⟩ := pinCellRN s2 (.str (strToBytes m.name))
        obtain ⟨β4, l4, s4, m4⟩ := pinCellRN s3 (.nil)
        obtain ⟨β5, l5, s5, m5⟩ := pinTableRN s4 ⟨[], none⟩
        have hle5 : β.le β5 := Inj.le_trans l1 (Inj.le_trans l2 (Inj.le_trans l3 (Inj.le_trans l4 l5)))
        -- the two module functions are related closures: call them through the handler of their level
        have hI5 : LFactsN M ms β5 _ ∧ RFactsN ms β5 _ ∧ CoupledN ms β5 _ _ := s5.inv
        have hCR : CRel Q (bcxN M ms) β5 (implClosure m.bodyL (envLIi M m.cI))
            ⟨.mk [] false none none [] [] m.bodyR, envR3, []⟩ := by
          obtain ⟨c, c', g1, g2, hc⟩ := s5.clo (hI5.1.fr m hm)
          rw [hI5.1.impl m hm] at g1; rw [hI5.2.1.mod m hm] at g2
          cases g1; cases g2; exact hc
        have hcr : HeapU.RRel Q (bcxN M ms) β5 AVs
            (callClosure ρ (l + 1) (implClosure m.bodyL (envLIi M m.cI)) []
              ((σ.allocCell .nil).2.allocTable { entries := [], mt := none }).2)
            (callClosure ρ (l + 1) ⟨.mk [] false none none [] [] m.bodyR, envR3, []⟩ []
              (((σ'.allocCell (.str (strToBytes m.name))).2.allocCell .nil).2.allocTable { entries := [], mt := none }).2) :=
          hp.lower (l + 1) (by omega) β5 _ _ [] [] _ _ hCR .nil s5
        have hLfail := cached_miss_fail (callClosure ρ (l + 1)) ρ l M m.name ⟨envLIi M m.cI, []⟩ 0 3 4 m.cI m.implId
          (implClosure m.bodyL (envLIi M m.cI)) σ
          hMloc hIloc (getCell_of LF.c0) hcache hboxnil hmt4 (getCell_of (LF.cell m hm).1) (LF.impl m hm)
        have hRfail := reqBody_miss_fail (callClosure ρ (l + 1)) ρ l (strToBytes m.name) σ'.cells.length 3 4 m.modId
          ⟨.mk [] false none none [] [] m.bodyR, envR3, []⟩ (σ'.allocCell (.str (strToBytes m.name))).2 hn h0' h1' hbox' hmt'
          hmod' hclo'
        generalize hcL : callClosure ρ (l + 1) (implClosure m.bodyL (envLIi M m.cI)) []
              ((σ.allocCell .nil).2.allocTable { entries := [], mt := none }).2 = cL at hcr hLfail
        generalize hcR : callClosure ρ (l + 1) ⟨.mk [] false none none [] [] m.bodyR, envR3, []⟩ []
              (((σ'.allocCell (.str (strToBytes m.name))).2.allocCell .nil).2.allocTable { entries := [], mt := none }).2 = cR
              at hcr hRfail
        cases cL with
        | timeout =>
          cases cR with
          | timeout => rw [hLfail.2 rfl, hRfail.2 rfl]; exact HeapU.RRel.timeout
          | ok _ _ => simp [HeapU.RRel, bcxN] at hcr
          | err _ _ => simp [HeapU.RRel, bcxN] at hcr
        | err e σb =>
          cases cR with
          | timeout => simp [HeapU.RRel, bcxN] at hcr
          | ok _ _ => simp [HeapU.RRel] at hcr
          | err e' σb' => rw [hLfail.1 e σb rfl, hRfail.1 e' σb' rfl]; exact RRel.mono hle5 hcr
        | ok vs σb =>
          cases cR with
          | timeout => simp [HeapU.RRel, bcxN] at hcr
          | err _ _ => simp [HeapU.RRel] at hcr
          | ok vs' σb' =>
            obtain ⟨β6, l6, hvs, s6⟩ := hcr
            have hI6 : LFactsN M ms β6 σb ∧ RFactsN ms β6 σb' ∧ CoupledN ms β6 σb σb' := s6.inv
            have ecb : (σ'.allocCell (.str (strToBytes m.name))).2.cells.length = σ'.cells.length + 1 := by
              simp [State.allocCell]
            -- the pinned temporaries survived the bodies
            have mTL6 : (σ.tables.length, (⟨[], none⟩ : Table N)) ∈ β6.pinTL :=
              l6.pinsTL _ (l5.pinsTL _ (l4.pinsTL _ (l3.pinsTL _ m2)))
            have mTR6 : (σ'.tables.length, (⟨[], none⟩ : Table N)) ∈ β6.pinTR := l6.pinsTR _ m5
            have pCL : σb.cells[σ.cells.length]? = some .nil ∧ σ.cells.length < β6.cL ∧ ∀ y, ¬ β6.c σ.cells.length y :=
              s6.pinCl _ (l6.pinsCL _ (l5.pinsCL _ (l4.pinsCL _ (l3.pinsCL _ (l2.pinsCL _ m1)))))
            have pTL : σb.tables[σ.tables.length]? = some ⟨[], none⟩ ∧ σ.tables.length < β6.tL ∧
                ∀ y, ¬ β6.t σ.tables.length y := s6.pinTl _ mTL6
            have pCRn : σb'.cells[σ'.cells.length]? = some (.str (strToBytes m.name)) ∧ σ'.cells.length < β6.cR ∧
                ∀ x, ¬ β6.c x σ'.cells.length :=
              s6.pinC _ (l6.pinsCR _ (l5.pinsCR _ (l4.pinsCR _ m3)))
            have pCRb : σb'.cells[(σ'.allocCell (.str (strToBytes m.name))).2.cells.length]? = some .nil ∧
                (σ'.allocCell (.str (strToBytes m.name))).2.cells.length < β6.cR ∧
                ∀ x, ¬ β6.c x (σ'.allocCell (.str (strToBytes m.name))).2.cells.length :=
              s6.pinC _ (l6.pinsCR _ (l5.pinsCR _ m4))
            have pTR : σb'.tables[σ'.tables.length]? = some ⟨[], none⟩ ∧ σ'.tables.length < β6.tR ∧
                ∀ x, ¬ β6.t x σ'.tables.length := s6.pinT _ mTR6
            obtain ⟨TC6, TL6, hTC6, hTC6m, hTL6, hTL6m, hslots6⟩ := hI6.2.2
            obtain ⟨TM6, hTM6, hTM6c, _⟩ := hI6.1.tM
            -- both sides run to the end
            have hLm := cached_miss' (callClosure ρ (l + 1)) ρ l M m.name ⟨envLIi M m.cI, []⟩ 0 3 4 m.cI m.implId
              (implClosure m.bodyL (envLIi M m.cI)) vs σ σb
              hMv hMloc hIloc (getCell_of LF.c0) hcache hboxnil hmt4 (getCell_of (LF.cell m hm).1) (LF.impl m hm) hcL
              (lt_of_getElem? pCL.1) (lt_of_getElem? pTL.1) (getTable_of pTL.1) (getCell_of hI6.1.c0)
              (by rw [rawGet_of hTM6]; exact hTM6c) (by rw [getTable_of hTC6]; exact hTC6m) hlt4
            have hRm := reqBody_miss (callClosure ρ (l + 1)) ρ l (strToBytes m.name) σ'.cells.length 3 4 m.modId _ vs'
              (σ'.allocCell (.str (strToBytes m.name))).2 σb' hn h0' h1' hbox' hmt' hmod' hclo' hcR
              (lt_of_getElem? pCRb.1) (lt_of_getElem? pTR.1) (getTable_of pTR.1) (getCell_of pCRn.1)
              (getCell_of hI6.2.1.c0) (by rw [getTable_of hTL6]; exact hTL6m) hlt3
            rw [hLm, hRm]
            -- the writes, in the context without the invariant; the two boxes are unpinned first
            have w0 := srel_toWN s6
            have u0 := srel_pins w0 (β6.pinTL.filter fun p => p.1 != σ.tables.length)
              (β6.pinTR.filter fun p => p.1 != σ'.tables.length) (fun p hp => (List.mem_filter.mp hp).1)
              (fun p hp => (List.mem_filter.mp hp).1) trivial
            have w1 := u0.privSetTableL (a := σ.tables.length) pTL.2.2
              (fun p hp => by simpa using (List.mem_filter.mp hp).2)
              { (σb.getTable σ.tables.length) with
                entries := rawSetEntries (strVal "c") (first vs) (σb.getTable σ.tables.length).entries } trivial
            have w2 := w1.setPinnedCL (a := σ.cells.length) (lt_of_getElem? pCL.1) pCL.2.1 pCL.2.2 (.tbl σ.tables.length) trivial
            have w3 := w2.privSetTableR (b := σ'.tables.length) pTR.2.2
              (fun p hp => by simpa using (List.mem_filter.mp hp).2)
              { (σb'.getTable σ'.tables.length) with
                entries := rawSetEntries (strVal "value") (first vs') (σb'.getTable σ'.tables.length).entries } trivial
            have w4 := w3.setPinnedCR (b := (σ'.allocCell (.str (strToBytes m.name))).2.cells.length) (lt_of_getElem? pCRb.1)
              pCRb.2.1 pCRb.2.2 (.tbl σ'.tables.length) trivial
            have hnpL : ∀ p ∈ (β6.pinTL.filter fun p => p.1 != σ.tables.length), p.1 ≠ 4 :=
              fun p hp => hI6.1.np p (List.mem_filter.mp hp).1
            have hnpR : ∀ p ∈ (β6.pinTR.filter fun p => p.1 != σ'.tables.length), p.1 ≠ 3 :=
              fun p hp => hI6.2.1.np p (List.mem_filter.mp hp).1
            have w5 : SRel Q (bcxW M) _ (afterMiss σb σ.cells.length σ.tables.length 4 m.name (first vs))
                (afterReqMiss σb' (σ'.allocCell (.str (strToBytes m.name))).2.cells.length σ'.tables.length 3
                  (strToBytes m.name) (first vs')) :=
              srel_privSetTableLR w4 (a := 4) (b := 3) hI6.1.pt.2.2 hnpL hI6.2.1.pt.2.1 hnpR _ _ trivial
            -- the invariant in the final states
            have hc0 : 0 < σ.cells.length := lt_of_getElem? LF.c0
            have hcI : ∀ m' ∈ ms, m'.cI < σ.cells.length := fun m' hm' => lt_of_getElem? (LF.cell m' hm').1
            have hc3 : 2 < σ'.cells.length := lt_of_getElem? RF.c2
            have ht5 : 4 < σ'.tables.length := by obtain ⟨T, hT, _⟩ := RF.tMods; exact lt_of_getElem? hT
            obtain ⟨fLc, fLf, fLt⟩ := afterMiss_facts σb σ.cells.length σ.tables.length 4 m.name (first vs) TC6 (by omega)
              pTL.1 hTC6
            obtain ⟨fRc, fRf, fRt⟩ := afterReqMiss_facts σb' (σ'.allocCell (.str (strToBytes m.name))).2.cells.length
              σ'.tables.length 3 (strToBytes m.name) (first vs') TL6 (by omega) pTR.1 hTL6
            have hkeepL : ∀ tb T, tb ≠ 4 → (∀ p ∈ β6.pinTL, p.1 ≠ tb) → σb.tables[tb]? = some T →
                (afterMiss σb σ.cells.length σ.tables.length 4 m.name (first vs)).tables[tb]? = some T := by
              intro tb T h4 hnp hT
              have hne : σ.tables.length ≠ tb := fun e => hnp _ mTL6 e
              rw [fLt, listSet_get_ne _ _ _ _ (Ne.symm h4), listSet_get_ne _ _ _ _ hne]; exact hT
            have hkeepR : ∀ tb T, tb ≠ 3 → (∀ p ∈ β6.pinTR, p.1 ≠ tb) → σb'.tables[tb]? = some T →
                (afterReqMiss σb' (σ'.allocCell (.str (strToBytes m.name))).2.cells.length σ'.tables.length 3
                  (strToBytes m.name) (first vs')).tables[tb]? = some T := by
              intro tb T h3' hnp hT
              have hne : σ'.tables.length ≠ tb := fun e => hnp _ mTR6 e
              rw [fRt, listSet_get_ne _ _ _ _ (Ne.symm h3'), listSet_get_ne _ _ _ _ hne]; exact hT
            obtain ⟨TMR6, hTMR6, hTMR6m⟩ := hI6.2.1.tMods
            obtain ⟨_, hTM6', _, hTM6m⟩ := hI6.1.tM
            have hTMeq := hTM6.symm.trans hTM6'
            have hIf : (bcxN M ms).I N
                (((({ β6 with pinTL := β6.pinTL.filter (fun p => p.1 != σ.tables.length), pinTR := β6.pinTR.filter (fun p => p.1 != σ'.tables.length) } : Inj N).repinCL
                  σ.cells.length (.tbl σ.tables.length))).repinC
                  (σ'.allocCell (.str (strToBytes m.name))).2.cells.length (.tbl σ'.tables.length))
                (afterMiss σb σ.cells.length σ.tables.length 4 m.name (first vs))
                (afterReqMiss σb' (σ'.allocCell (.str (strToBytes m.name))).2.cells.length σ'.tables.length 3
                  (strToBytes m.name) (first vs')) := by
              refine ⟨⟨?_, ⟨TM6, ?_, hTM6c, fun m' hm' => by cases hTMeq; exact hTM6m m' hm'⟩,
                  fun m' hm' => ⟨?_, (hI6.1.cell m' hm').2⟩, fun m' hm' => ?_, fun m' hm' => ?_, hI6.1.fr, hI6.1.pc,
                  hI6.1.pt, hnpL⟩,
                ⟨?_, ?_, ?_, ⟨TMR6, ?_, hTMR6m⟩, ?_, fun m' hm' => ?_, hI6.2.1.pc, hI6.2.1.pt, hnpR⟩,
                ⟨⟨rawSetEntries (strVal m.name) (.tbl σ.tables.length) TC6.entries, TC6.mt⟩,
                  ⟨rawSetEntries (.str (strToBytes m.name)) (.tbl σ'.tables.length) TL6.entries, TL6.mt⟩,
                  ?_, hTC6m, ?_, hTL6m, fun m' hm' => ?_⟩⟩
              · rw [fLc, listSet_get_ne _ _ _ _ (by omega)]; exact hI6.1.c0
              · rw [fLt, listSet_get_ne _ _ _ _ (by omega), listSet_get_ne _ _ _ _ (by omega)]; exact hTM6
              · rw [fLc, listSet_get_ne _ _ _ _ (by have := hcI m' hm'; omega)]; exact (hI6.1.cell m' hm').1
              · rw [fLf]; exact hI6.1.impl m' hm'
              · rw [fLf]; exact hI6.1.acc m' hm'
              · rw [fRc, listSet_get_ne _ _ _ _ (by omega)]; exact hI6.2.1.c0
              · rw [fRc, listSet_get_ne _ _ _ _ (by omega)]; exact hI6.2.1.c1
              · rw [fRc, listSet_get_ne _ _ _ _ (by omega)]; exact hI6.2.1.c2
              · rw [fRt, listSet_get_ne _ _ _ _ (by omega), listSet_get_ne _ _ _ _ (by omega)]; exact hTMR6
              · rw [fRf]; exact hI6.2.1.f0
              · rw [fRf]; exact hI6.2.1.mod m' hm'
              · rw [fLt, listSet_get_same _ _ _ (by rw [listSet_length]; exact lt_of_getElem? hTC6)]
              · rw [fRt, listSet_get_same _ _ _ (by rw [listSet_length]; exact lt_of_getElem? hTL6)]
              · show SlotN _ _ _
                  (rawGetEntries (strVal m'.name) (rawSetEntries (strVal m.name) (.tbl σ.tables.length) TC6.entries))
                  (rawGetEntries (strVal m'.name) (rawSetEntries (strVal m.name) (.tbl σ'.tables.length) TL6.entries))
                by_cases hb : bytesOf m.name = bytesOf m'.name
                · rw [← strVal_eq_of_bytes hb, rawGet_set_same_str _ _ (by simp), rawGet_set_same_str _ _ (by simp)]
                  refine .inr ⟨σ.tables.length, σ'.tables.length, first vs, first vs', rfl, rfl, ?_, (by omega), pTL.2.1, pTL.2.2,
                    (fun p hp => by simpa using (List.mem_filter.mp hp).2), ?_, (by omega), pTR.2.1, pTR.2.2,
                    (fun p hp => by simpa using (List.mem_filter.mp hp).2), VRel.congr rfl rfl (VRel.first hvs)⟩
                  · rw [fLt, listSet_get_ne _ _ _ _ (by omega), listSet_get_same _ _ _ (lt_of_getElem? pTL.1)]
                  · rw [fRt, listSet_get_ne _ _ _ _ (by omega), listSet_get_same _ _ _ (lt_of_getElem? pTR.1)]
                · rw [rawGet_set_other_str _ _ hb _ (by simp), rawGet_set_other_str _ _ hb _ (by simp)]
                  exact slotN_keep (hslots6 m' hm') rfl rfl rfl rfl (fun p hp => (List.mem_filter.mp hp).1)
                    (fun p hp => (List.mem_filter.mp hp).1) hkeepL hkeepR
            have hle6 : β.le β6 := Inj.le_trans hle5 l6
            have hle0 := le_dropPins hle6 (β6.pinTL.filter (fun p => p.1 != σ.tables.length))
              (β6.pinTR.filter (fun p => p.1 != σ'.tables.length))
              (fun p hp => List.mem_filter.mpr ⟨hle6.pinsTL p hp, by
                have := (hs.pinTl p hp).2.1; have := hs.front.tL; simp only [bne_iff_ne, ne_eq]; omega⟩)
              (fun p hp => List.mem_filter.mpr ⟨hle6.pinsTR p hp, by
                have := (hs.pinT p hp).2.1; have := hs.front.tR; simp only [bne_iff_ne, ne_eq]; omega⟩)
            refine ⟨(((({ β6 with pinTL := β6.pinTL.filter (fun p => p.1 != σ.tables.length), pinTR := β6.pinTR.filter (fun p => p.1 != σ'.tables.length) } : Inj N).repinCL
                  σ.cells.length (.tbl σ.tables.length))).repinC
                  (σ'.allocCell (.str (strToBytes m.name))).2.cells.length (.tbl σ'.tables.length)), ?_,
              .cons (VRel.congr rfl rfl (VRel.first hvs)) .nil, srel_ofWN w5 hIf⟩
            refine le_repinC (le_repinCL hle0 _ ?_) _ ?_
            · intro p hp; have := (hs.pinCl p hp).2.1; have := hs.front.cL; omega
            · intro p hp; have := (hs.pinC p hp).2.1; have := hs.front.cR; omega
      · -- HIT: both slots hold a box
        have hL := cached_hit (callClosure ρ (l + 1)) ρ l M m.name ⟨envLIi M m.cI, []⟩ 0 3 4 tb v σ hMloc
          (getCell_of LF.c0) hcache (by rw [rawGet_of hTC]; exact h1)
          (by rw [rawGet_of h3]; exact rawGetEntries_rawSetEntries_nil _ _)
          (Or.inr (by rw [getTable_of h3]))
        rw [callClosure_acc, hL]
        have hR := reqBody_hit (callClosure ρ (l + 1)) ρ l (strToBytes m.name) σ'.cells.length 3 tb' v'
          (σ'.allocCell (.str (strToBytes m.name))).2
          (getCell_allocCell_new σ' _) (getCell_allocCell σ' _ _ _ (getCell_of RF.c0) (by simp))
          (by simp only [rawGet_allocCell]; rw [rawGet_of hTL]; exact h2)
          (by simp only [rawGet_allocCell]; rw [rawGet_of h8]; exact rawGetEntries_rawSetEntries_nil _ _)
          (Or.inr (by simp only [getTable_allocCell]; rw [getTable_of h8]))
        have hR' := callClosure_req ρ (l + 1) (.str (strToBytes m.name)) σ'
        simp only [reqClosure] at hR'
        rw [hR', hR]
        exact HeapU.RRel.ok (.cons h13 .nil) (((hs.allocCellLeft _).allocCellRight _).allocCellRight _)

/-! ### the reference prelude for any number of modules, in closed form -/

def refStep (tMods : Nat) (locals : List (String × Nat)) (s : State N) (nb : String × Block) : State N :=
  (s.allocClosure ⟨.mk [] false none none [] [] nb.2, locals, []⟩).2.rawSet tMods (.str (strToBytes nb.1))
    (.fn s.closures.length)

def env3Of (σ : State N) : List (String × Nat) :=
  [("__ref_require", σ.cells.length + 2), ("__ref_modules", σ.cells.length + 1), ("__ref_loaded", σ.cells.length)]

def afterRefFn (fb : FnBody) (σ : State N) : State N :=
  (((afterRefLa σ).allocCell .nil).2.allocClosure ⟨fb, env3Of σ, []⟩).2.setCell (σ.cells.length + 2)
    (.fn (afterRefLa σ).closures.length)

theorem exec_refAssigns_fold (call : CallFn N) (ρ : ExtOracle N) (k : Nat) (env : Env N) (c2 tMods : Nat)
    (hM : lookupAssoc "__ref_modules" env.locals = some c2) :
    ∀ (mods : List (String × Block)) (σ : State N), σ.getCell c2 = .tbl tMods → (σ.getTable tMods).mt = none →
      execSs call ρ (k + 1) env (mods.map refAssign) σ = .ok (.next env) (mods.foldl (refStep tMods env.locals) σ) := by
  intro mods
  induction mods with
  | nil => intro σ _ _; simp [execSs]
  | cons nb rest ih =>
    intro σ hcell hmt
    have hex := exec_refAssign call ρ k env nb c2 tMods σ hM hcell hmt
    have h1 := ih (refStep tMods env.locals σ nb)
      (by simpa [refStep, State.getCell, State.rawSet, State.setTable, State.allocClosure] using hcell)
      (by simp only [refStep]; rw [getTable_rawSet_mt]; exact hmt)
    simp only [List.map_cons, execSs, hex, Res.bind, List.foldl_cons]
    exact h1

theorem exec_refPrelude_fold (call : CallFn N) (ρ : ExtOracle N) (k : Nat) (fb : FnBody) (mods : List (String × Block))
    (σ : State N) :
    execSs call ρ (k + 1) ⟨[], []⟩ ([refLa, .localFn .loc "__ref_require" fb] ++ mods.map refAssign) σ
      = .ok (.next ⟨env3Of σ, []⟩) (mods.foldl (refStep (σ.tables.length + 1) (env3Of σ)) (afterRefFn fb σ)) := by
  have e1 := exec_refLa call ρ (k + 1) ⟨[], []⟩ σ
  have hlenC : (afterRefLa σ).cells.length = σ.cells.length + 2 := by simp [afterRefLa, State.allocTable, State.allocCell]
  have e2 : execS call ρ (k + 1) ⟨[("__ref_modules", σ.cells.length + 1), ("__ref_loaded", σ.cells.length)], []⟩
      (.localFn .loc "__ref_require" fb) (afterRefLa σ) = .ok (.next ⟨env3Of σ, []⟩) (afterRefFn fb σ) := by
    simp [execS, State.allocClosure, State.allocCell, hlenC, env3Of, afterRefFn]
  have hcell : (afterRefFn fb σ).getCell (σ.cells.length + 1) = .tbl (σ.tables.length + 1) := by
    simp [afterRefFn, State.getCell, State.setCell, State.allocClosure, State.allocCell, afterRefLa, State.allocTable,
      Heap.getElem?_listSet]
  have hmt : ((afterRefFn fb σ).getTable (σ.tables.length + 1)).mt = none := by
    simp [afterRefFn, State.getTable, State.setCell, State.allocClosure, State.allocCell, afterRefLa, State.allocTable]
  have e3 := exec_refAssigns_fold call ρ k ⟨env3Of σ, []⟩ (σ.cells.length + 1) (σ.tables.length + 1)
    (by simp [env3Of, lookupAssoc]) mods (afterRefFn fb σ) hcell hmt
  have hpre : execSs call ρ (k + 1) ⟨[], []⟩ [refLa, .localFn .loc "__ref_require" fb] σ
      = .ok (.next ⟨env3Of σ, []⟩) (afterRefFn fb σ) := by
    simp only [execSs, e1, Res.bind]
    rw [e2]
  rw [execSs_append_next call ρ (k + 1) _ _ _ _ _ _ hpre]
  exact e3

/-- ids of the module functions of the reference program -/
def mkR : Nat → List (String × Block) → List (String × Block × Nat)
  | _, [] => []
  | f, nb :: rest => (nb.1, nb.2, f) :: mkR (f + 1) rest

theorem refStep_closures (tMods : Nat) (locals : List (String × Nat)) (s : State N) (nb : String × Block) :
    (refStep tMods locals s nb).closures = s.closures ++ [⟨.mk [] false none none [] [] nb.2, locals, []⟩] := by
  simp [refStep, State.rawSet, State.setTable, State.allocClosure]

theorem refStep_tables (tMods : Nat) (locals : List (String × Nat)) (s : State N) (nb : String × Block) :
    (refStep tMods locals s nb).tables = (s.rawSet tMods (.str (strToBytes nb.1)) (.fn s.closures.length)).tables := by
  simp [refStep, State.rawSet, State.setTable, State.allocClosure, State.getTable]

theorem refFold_facts (tMods : Nat) (locals : List (String × Nat)) :
    ∀ (todo : List (String × Block)) (s : State N), tMods < s.tables.length →
      (todo.map fun nb => bytesOf nb.1).Nodup →
      (todo.foldl (refStep tMods locals) s).cells = s.cells ∧
      (∀ (i : Nat) c, s.closures[i]? = some c → (todo.foldl (refStep tMods locals) s).closures[i]? = some c) ∧
      (∀ t, t ≠ tMods → (todo.foldl (refStep tMods locals) s).tables[t]? = s.tables[t]?) ∧
      ((todo.foldl (refStep tMods locals) s).getTable tMods).mt = (s.getTable tMods).mt ∧
      (todo.foldl (refStep tMods locals) s).tables.length = s.tables.length ∧
      (∀ key, (∀ nb ∈ todo, bytesOf nb.1 ≠ key) →
        (todo.foldl (refStep tMods locals) s).rawGet tMods (.str key) = s.rawGet tMods (.str key)) ∧
      ∀ m ∈ mkR s.closures.length todo,
        (todo.foldl (refStep tMods locals) s).rawGet tMods (strVal m.1) = .fn m.2.2 ∧
        (todo.foldl (refStep tMods locals) s).closures[m.2.2]? = some ⟨.mk [] false none none [] [] m.2.1, locals, []⟩ := by
  intro todo
  induction todo with
  | nil =>
    intro s _ _
    exact ⟨rfl, fun _ _ h => h, fun _ _ => rfl, rfl, rfl, fun _ _ => rfl, fun m hm => by cases hm⟩
  | cons nb rest ih =>
    intro s hlt hnd
    simp only [List.map_cons, List.nodup_cons, List.mem_map, not_exists, not_and] at hnd
    have hcl := refStep_closures tMods locals s nb
    have hta := refStep_tables tMods locals s nb
    have hlen : (refStep tMods locals s nb).tables.length = s.tables.length := by
      rw [hta, tables_length_rawSet]
    obtain ⟨i1, i2, i3, i4, i5, i6, i7⟩ := ih (refStep tMods locals s nb) (by rw [hlen]; exact hlt) hnd.2
    simp only [List.foldl_cons]
    have hlenC : (refStep tMods locals s nb).closures.length = s.closures.length + 1 := by rw [hcl]; simp
    refine ⟨by rw [i1]; rfl, fun i c hc => i2 i c (by rw [hcl]; exact getElem?_append_of_some hc _), fun t ht => ?_, ?_,
      by rw [i5, hlen], fun key hkey => ?_, fun m hm => ?_⟩
    · rw [i3 t ht, hta]
      simp only [State.rawSet, State.setTable]
      exact listSet_get_ne _ _ _ _ (Ne.symm ht)
    · rw [i4, getTable_of_tables hta, getTable_rawSet_mt]
    · rw [i6 key (fun nb' hnb' => hkey nb' (List.mem_cons_of_mem _ hnb')), rawGet_of_tables hta]
      exact rawGet_rawSet_other_key s tMods _ _ (hkey nb List.mem_cons_self) _ (by simp)
    · simp only [mkR, List.mem_cons] at hm
      rcases hm with rfl | hm
      · refine ⟨?_, ?_⟩
        · have := i6 (bytesOf nb.1) (fun nb' hnb' e => hnd.1 nb' hnb' e)
          simp only [strVal, bytesOf] at this ⊢
          rw [this, rawGet_of_tables hta]
          unfold State.rawGet State.rawSet
          rw [getTable_setTable_same _ _ _ hlt]
          exact rawGetEntries_rawSetEntries_same _ _ (by simp) _
        · exact i2 _ _ (by rw [hcl]; simp)
      · exact i7 m (by rw [hlenC]; exact hm)

/-! ### the module list with its ids -/

def mkMods : Nat → Nat → Nat → List (String × Block × Block) → List RMod
  | _, _, _, [] => []
  | c, f, g, x :: rest => ⟨x.1, x.2.1, x.2.2, c, f, f + 1, g⟩ :: mkMods (c + 1) (f + 2) (g + 1) rest

theorem mem_mkMods : ∀ (l : List (String × Block × Block)) (c f g : Nat) (m : RMod), m ∈ mkMods c f g l →
    (m.name, m.bodyL, m.bodyR) ∈ l ∧
    (⟨m.name, m.bodyL, m.cI, m.implId, m.accId⟩ : ModInfo) ∈ mkInfos c f (l.map fun x => (x.1, x.2.1)) ∧
    (m.name, m.bodyR, m.modId) ∈ mkR g (l.map fun x => (x.1, x.2.2)) ∧
    ∃ i, m.cI = c + i ∧ m.implId = f + 2 * i ∧ m.accId = f + 2 * i + 1 ∧ m.modId = g + i
  | [], _, _, _, _, h => by cases h
  | x :: rest, c, f, g, m, h => by
    simp only [mkMods, List.mem_cons] at h
    rcases h with rfl | h
    · exact ⟨List.mem_cons_self, by simp [mkInfos], by simp [mkR], 0, rfl, rfl, rfl, rfl⟩
    · obtain ⟨h1, h2, h3, i, h4, h5, h6, h7⟩ := mem_mkMods rest (c + 1) (f + 2) (g + 1) m h
      exact ⟨List.mem_cons_of_mem _ h1, by simp only [List.map_cons, mkInfos]; exact List.mem_cons_of_mem _ h2,
        by simp only [List.map_cons, mkR]; exact List.mem_cons_of_mem _ h3, i + 1, by omega, by omega, by omega, by omega⟩

theorem mkMods_name : ∀ (l : List (String × Block × Block)) (c f g : Nat) (x : String × Block × Block), x ∈ l →
    ∃ m ∈ mkMods c f g l, m.name = x.1
  | [], _, _, _, _, h => by cases h
  | y :: rest, c, f, g, x, h => by
    simp only [List.mem_cons] at h
    rcases h with rfl | h
    · exact ⟨_, List.mem_cons_self, rfl⟩
    · obtain ⟨m, hm, e⟩ := mkMods_name rest (c + 1) (f + 2) (g + 1) x h
      exact ⟨m, List.mem_cons_of_mem _ hm, e⟩

/-! ### the invariant holds right after the two preludes -/

theorem cells_of_getCell {σ : State N} {i : Nat} {v : Val N} (h : σ.getCell i = v) (hv : v ≠ .nil) :
    σ.cells[i]? = some v := by
  simp only [State.getCell] at h
  cases hc : σ.cells[i]? with
  | none => rw [hc] at h; exact absurd h.symm hv
  | some w => rw [hc] at h; simp at h; rw [h]

theorem tables_of_lt {σ : State N} {i : Nat} (h : i < σ.tables.length) : σ.tables[i]? = some (σ.getTable i) := by
  simp [State.getTable, List.getElem?_eq_getElem h]

/-- the injection right after the two preludes: nothing new is related but the pairs of module functions -/
def startRelN (ms : List RMod) (σ σ' : State N) : Inj N :=
  { (initRel (N := N)).bump σ σ' with f := fun a b => ∃ m ∈ ms, a = m.implId ∧ b = m.modId }

theorem establish_IN (M : String) (ms : List RMod) (σB σR : State N)
    (hc0 : σB.getCell 0 = .tbl 3) (hcacheL : σB.rawGet 3 (strVal "cache") = .tbl 4)
    (hplainC : (σB.getTable 4).mt = none) (hlt : 4 < σB.tables.length)
    (hready : ∀ m ∈ ms, σB.rawGet 3 (strVal m.name) = .fn m.accId ∧
      σB.closures[m.accId]? = some (accClosure M m.name (envLIi M m.cI)) ∧ σB.getCell m.cI = .fn m.implId ∧
      σB.closures[m.implId]? = some (implClosure m.bodyL (envLIi M m.cI)))
    (hslots : ∀ m ∈ ms, σB.rawGet 4 (strVal m.name) = .nil)
    (r0 : σR.cells[0]? = some (.tbl 3)) (r1 : σR.cells[1]? = some (.tbl 4)) (r2 : σR.cells[2]? = some (.fn 0))
    (rf0 : σR.closures[0]? = some ⟨refRequireFn, envR3, []⟩) (rt3 : σR.tables[3]? = some ⟨[], none⟩)
    (rlt : 4 < σR.tables.length)
    (rready : ∀ m ∈ ms, σR.rawGet 4 (strVal m.name) = .fn m.modId ∧
      σR.closures[m.modId]? = some ⟨.mk [] false none none [] [] m.bodyR, envR3, []⟩) :
    (bcxN M ms).I N (startRelN ms σB σR) σB σR := by
  have hcl0 : 0 < σB.cells.length := lt_of_getElem? (cells_of_getCell hc0 (by simp))
  have hcr : 2 < σR.cells.length := lt_of_getElem? r2
  refine ⟨⟨cells_of_getCell hc0 (by simp), ⟨_, tables_of_lt (by omega), hcacheL, fun m hm => (hready m hm).1⟩,
      fun m hm => ⟨cells_of_getCell (hready m hm).2.2.1 (by simp), ?_, fun _ h => h⟩, fun m hm => (hready m hm).2.2.2,
      fun m hm => (hready m hm).2.1, fun m hm => ⟨m, hm, rfl, rfl⟩, ⟨hcl0, fun _ h => h⟩,
      ⟨by show 5 ≤ σB.tables.length; omega, fun b h => by have := h.2; omega, fun b h => by have := h.2; omega⟩,
      fun p hp => by cases hp⟩,
    ⟨r0, r1, r2, ⟨_, tables_of_lt rlt, fun m hm => (rready m hm).1⟩, rf0, fun m hm => (rready m hm).2,
      ⟨by show 3 ≤ σR.cells.length; omega, fun _ h => h, fun _ h => h, fun _ h => h⟩,
      ⟨by show 5 ≤ σR.tables.length; omega, fun x h => by have := h.2; have := h.1; omega,
        fun x h => by have := h.2; have := h.1; omega⟩,
      fun p hp => by cases hp⟩,
    ⟨_, _, tables_of_lt hlt, hplainC, rt3, rfl, fun m hm => .inl ⟨hslots m hm, rfl⟩⟩⟩
  exact lt_of_getElem? (cells_of_getCell (hready m hm).2.2.1 (by simp))

/-- the environments a module body runs in -/
theorem envRel_body {cx : Cx} (hW : cx.W = [M, "__ref_require"]) (hbL : cx.bindL = [(M, 0)])
    (hbR : cx.bindR = [("__ref_require", 2)]) {β : Inj N} (cI : Nat) (hMI : M ≠ implName)
    (hMr : M ≠ "__ref_require" ∧ M ≠ "__ref_modules" ∧ M ≠ "__ref_loaded") :
    EnvRel cx β (D1 M) (envLIi M cI) envR3 := by
  refine ⟨fun nm hnm => ?_, fun nm hnm => ?_, fun nm hnm => ?_⟩
  · have h0 : ¬ M = nm := fun e => hnm (by simp [D1, e])
    have h1 : ¬ "__ref_require" = nm := fun e => hnm (by simp [D1, ← e])
    have h2 : ¬ "__ref_modules" = nm := fun e => hnm (by simp [D1, ← e])
    have h3 : ¬ "__ref_loaded" = nm := fun e => hnm (by simp [D1, ← e])
    have h4 : ¬ implName = nm := fun e => hnm (by simp [D1, ← e])
    simp [lookupAssoc, envR3, envLIi, h0, h1, h2, h3, h4, OptRel]
  · rw [hW] at hnm
    simp only [List.mem_cons, List.mem_nil_iff, or_false] at hnm
    rcases hnm with h | h <;> subst h <;> simp [D1]
  · have hw : nm = M ∨ nm = "__ref_require" := by simpa [D1] using hnm
    have hr1 : ¬ "__ref_require" = M := fun e => hMr.1 e.symm
    have hr2 : ¬ "__ref_modules" = M := fun e => hMr.2.1 e.symm
    have hr3 : ¬ "__ref_loaded" = M := fun e => hMr.2.2 e.symm
    have hi : ¬ implName = M := fun e => hMI e.symm
    rw [hbL, hbR]
    rcases hw with h | h <;> subst h
    · simp [lookupAssoc, envR3, envLIi, hr1, hr2, hr3, hi]
    · simp [lookupAssoc, envR3, envLIi, hMr.1, implName]

end DarkluaModel.C05
