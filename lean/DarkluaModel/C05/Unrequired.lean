import DarkluaModel.C05.Compose
import DarkluaModel.Shared.VisitorSoundHeapU
/-!
C05 helper lemmas for `bundle_refines_partial_unrequired`: both generated preludes only EXTEND the heap
(`Sem.HeapU.StExt`), so the code after them runs in related states (`SRel.extLeft/extRight`).
-/
namespace DarkluaModel.C05
open Sem Sem.HeapU
variable {N : NumOps}

/-! ### statement lists -/

theorem execSs_append_next (call : CallFn N) (ρ : ExtOracle N) (k : Nat) :
    ∀ (pre rest : List Stmt) (env env1 : Env N) (σ σ1 : State N),
      execSs call ρ k env pre σ = .ok (.next env1) σ1 →
      execSs call ρ k env (pre ++ rest) σ = execSs call ρ k env1 rest σ1 := by
  intro pre
  induction pre with
  | nil =>
    intro rest env env1 σ σ1 h
    simp only [execSs] at h
    cases h; rfl
  | cons s pre ih =>
    intro rest env env1 σ σ1 h
    simp only [List.cons_append, execSs] at h ⊢
    cases hs : execS call ρ k env s σ with
    | timeout => rw [hs] at h; simp [Res.bind] at h
    | err v σ' => rw [hs] at h; simp [Res.bind] at h
    | ok c σ' =>
      rw [hs] at h
      simp only [Res.bind] at h ⊢
      cases c with
      | next env' => exact ih rest env' env1 σ' σ1 h
      | brk => simp at h
      | cont e => simp at h
      | ret vs => simp at h

theorem execB_append_next (call : CallFn N) (ρ : ExtOracle N) (k : Nat) (pre stmts : List Stmt) (last : Option Last)
    (env env1 : Env N) (σ σ1 : State N) (h : execSs call ρ k env pre σ = .ok (.next env1) σ1) :
    execB call ρ k env (.mk (pre ++ stmts) last) σ = execB call ρ k env1 (.mk stmts last) σ1 := by
  simp only [execB, execSs_append_next call ρ k pre stmts env env1 σ σ1 h]

/-! ### the bundle's prelude only extends the heap -/

theorem length_le_of_stext {σ0 σ : State N} (h : StExt σ0 σ) : σ0.cells.length ≤ σ.cells.length ∧
    σ0.tables.length ≤ σ.tables.length := by
  constructor
  · by_cases hl : σ0.cells.length ≤ σ.cells.length
    · exact hl
    · exfalso
      have hlt : σ.cells.length < σ0.cells.length := by omega
      have := h.cells σ.cells.length _ (List.getElem?_eq_getElem hlt)
      simp at this
  · by_cases hl : σ0.tables.length ≤ σ.tables.length
    · exact hl
    · exfalso
      have hlt : σ.tables.length < σ0.tables.length := by omega
      have := h.tables σ.tables.length _ (List.getElem?_eq_getElem hlt)
      simp at this

theorem afterTable_ext (σ : State N) : StExt σ (afterTable σ) := by
  unfold afterTable
  have h1 := (StExt.allocTable σ { entries := [], mt := none }).trans
    (StExt.allocTable (σ.allocTable { entries := [], mt := none }).2 { entries := [], mt := none })
  have h2 := StExt.rawSet h1 (t := σ.tables.length) (by simp) (strVal "cache") (.tbl (σ.tables.length + 1))
  exact h2.trans (StExt.allocCell _ _)

theorem afterDefinition_ext (M name : String) (body : Block) (locals : List (String × Nat)) (tM : Nat)
    {σ0 σ : State N} (h : StExt σ0 σ) (hn : σ0.tables[tM]? = none) :
    StExt σ0 (afterDefinition M name body locals tM σ) := by
  unfold afterDefinition
  have hlen := (length_le_of_stext h).1
  have h1 := h.trans ((StExt.allocCell σ .nil).trans (StExt.allocClosure _ ⟨implFn body, (implName, σ.cells.length) :: locals, []⟩))
  have h2 := StExt.setNewCell h1 (c := σ.cells.length) (by simp; omega) (.fn σ.closures.length)
  have h3 := h2.trans (StExt.allocClosure _ ⟨accFn M name, (implName, σ.cells.length) :: locals, []⟩)
  exact StExt.rawSet h3 hn _ _

theorem foldDefs_ext (M : String) (locals : List (String × Nat)) (tM : Nat) :
    ∀ (mods : List (String × Block)) {σ0 σ : State N}, StExt σ0 σ → σ0.tables[tM]? = none →
      StExt σ0 (mods.foldl (fun s nb => afterDefinition M nb.1 nb.2 locals tM s) σ)
  | [], _, _, h, _ => h
  | nb :: rest, _, _, h, hn => foldDefs_ext M locals tM rest (afterDefinition_ext M nb.1 nb.2 locals tM h hn) hn

/-! ### the reference program's prelude only extends the heap -/

theorem setIndexVal_plain (call : CallFn N) (ρ : ExtOracle N) (k t : Nat) (s : List UInt8) (v : Val N) (σ : State N)
    (hmt : (σ.getTable t).mt = none) :
    setIndexVal call ρ (k + 1) (.tbl t) (.str s) v σ = .ok () (σ.rawSet t (.str s) v) := by
  unfold setIndexVal
  cases h : σ.rawGet t (.str s) <;> simp [State.metamethod, State.metaOf, hmt, h]

/-- `__ref_modules["<n>"] = function() <body> end` -/
def refAssign (nb : String × Block) : Stmt :=
  .assign [.index (.var "__ref_modules") (.str (strToBytes nb.1))] [.fn (.mk [] false none none [] [] nb.2)]

theorem exec_refAssign (call : CallFn N) (ρ : ExtOracle N) (k : Nat) (env : Env N) (nb : String × Block) (c2 tMods : Nat)
    (σ : State N) (hM : lookupAssoc "__ref_modules" env.locals = some c2) (hcell : σ.getCell c2 = .tbl tMods)
    (hmt : (σ.getTable tMods).mt = none) :
    execS call ρ (k + 1) env (refAssign nb) σ
      = .ok (.next env) ((σ.allocClosure ⟨.mk [] false none none [] [] nb.2, env.locals, []⟩).2.rawSet tMods
          (.str (strToBytes nb.1)) (.fn σ.closures.length)) := by
  have hmt' : ((σ.allocClosure ⟨.mk [] false none none [] [] nb.2, env.locals, []⟩).2.getTable tMods).mt = none := hmt
  simp only [refAssign, execS, evalTargets, evalTarget, evalE, lookupVar, hM, hcell, Res.bind, first, List.headD,
    evalEs, storeTargets, storeTarget, List.drop]
  rw [setIndexVal_plain call ρ k tMods _ _ _ hmt']
  rfl

theorem exec_refAssigns (call : CallFn N) (ρ : ExtOracle N) (k : Nat) (env : Env N) (c2 tMods : Nat)
    (hM : lookupAssoc "__ref_modules" env.locals = some c2) :
    ∀ (mods : List (String × Block)) (σ0 σ : State N), σ.getCell c2 = .tbl tMods → (σ.getTable tMods).mt = none →
      StExt σ0 σ → σ0.tables[tMods]? = none →
      ∃ σ', execSs call ρ (k + 1) env (mods.map refAssign) σ = .ok (.next env) σ' ∧ StExt σ0 σ' := by
  intro mods
  induction mods with
  | nil => intro σ0 σ _ _ h _; exact ⟨σ, by simp [execSs], h⟩
  | cons nb rest ih =>
    intro σ0 σ hcell hmt hext hnew
    have hex := exec_refAssign call ρ k env nb c2 tMods σ hM hcell hmt
    obtain ⟨σ', h1, h2⟩ := ih σ0
      ((σ.allocClosure ⟨.mk [] false none none [] [] nb.2, env.locals, []⟩).2.rawSet tMods
          (.str (strToBytes nb.1)) (.fn σ.closures.length))
      (by simpa [State.getCell, State.rawSet, State.setTable, State.allocClosure] using hcell)
      (by rw [getTable_rawSet_mt]; exact hmt)
      (StExt.rawSet (hext.trans (StExt.allocClosure _ _)) hnew _ _) hnew
    exact ⟨σ', by simp only [List.map_cons, execSs, hex, Res.bind]; exact h1, h2⟩

def refLa : Stmt :=
  .localAssign .loc [.mk "__ref_loaded" none, .mk "__ref_modules" none] [.table [], .table []]

/-- state after `local __ref_loaded, __ref_modules = {}, {}` -/
def afterRefLa (σ : State N) : State N :=
  ((((σ.allocTable { entries := [], mt := none }).2.allocTable { entries := [], mt := none }).2.allocCell
    (.tbl σ.tables.length)).2.allocCell (.tbl (σ.tables.length + 1))).2

theorem exec_refLa (call : CallFn N) (ρ : ExtOracle N) (k : Nat) (env : Env N) (σ : State N) :
    execS call ρ k env refLa σ
      = .ok (.next ⟨("__ref_modules", σ.cells.length + 1) :: ("__ref_loaded", σ.cells.length) :: env.locals, env.varargs⟩)
          (afterRefLa σ) := by
  simp [refLa, execS, evalEs, evalE, evalEntries, Res.bind, bindLocals, TName.name, first, afterRefLa,
    State.allocTable, State.allocCell]

theorem exec_refPrelude (call : CallFn N) (ρ : ExtOracle N) (k : Nat) (env : Env N) (fb : FnBody)
    (mods : List (String × Block)) (σ : State N) :
    ∃ (env1 : Env N) (σ' : State N),
      execSs call ρ (k + 1) env ([refLa, .localFn .loc "__ref_require" fb] ++ mods.map refAssign) σ
        = .ok (.next env1) σ' ∧
      StExt σ σ' ∧ env1.varargs = env.varargs ∧
      env1.locals = ("__ref_require", σ.cells.length + 2) :: ("__ref_modules", σ.cells.length + 1) ::
        ("__ref_loaded", σ.cells.length) :: env.locals := by
  have e1 := exec_refLa call ρ (k + 1) env σ
  have hA : StExt σ (afterRefLa σ) := by
    unfold afterRefLa
    exact ((StExt.allocTable σ _).trans (StExt.allocTable _ _)).trans ((StExt.allocCell _ _).trans (StExt.allocCell _ _))
  have hlenC : (afterRefLa σ).cells.length = σ.cells.length + 2 := by simp [afterRefLa, State.allocTable, State.allocCell]
  -- the local function
  let env2 : Env N := ⟨("__ref_modules", σ.cells.length + 1) :: ("__ref_loaded", σ.cells.length) :: env.locals, env.varargs⟩
  let env3 : Env N := ⟨("__ref_require", σ.cells.length + 2) :: env2.locals, env.varargs⟩
  let σ3 : State N := (((afterRefLa σ).allocCell .nil).2.allocClosure ⟨fb, env3.locals, []⟩).2.setCell (σ.cells.length + 2)
    (.fn (afterRefLa σ).closures.length)
  have e2 : execS call ρ (k + 1) env2 (.localFn .loc "__ref_require" fb) (afterRefLa σ) = .ok (.next env3) σ3 := by
    simp [execS, State.allocClosure, State.allocCell, hlenC, env3, env2, σ3]
  have hB : StExt σ σ3 := by
    have h1 := hA.trans ((StExt.allocCell (afterRefLa σ) .nil).trans (StExt.allocClosure _ ⟨fb, env3.locals, []⟩))
    exact StExt.setNewCell h1 (by simp) _
  have hcell : σ3.getCell (σ.cells.length + 1) = .tbl (σ.tables.length + 1) := by
    simp [σ3, State.getCell, State.setCell, State.allocClosure, State.allocCell, afterRefLa, State.allocTable,
      Heap.getElem?_listSet]
  have hmt : (σ3.getTable (σ.tables.length + 1)).mt = none := by
    simp [σ3, State.getTable, State.setCell, State.allocClosure, State.allocCell, afterRefLa, State.allocTable]
  obtain ⟨σ', h1, h2⟩ := exec_refAssigns call ρ k env3 (σ.cells.length + 1) (σ.tables.length + 1)
    (by simp [env3, env2, lookupAssoc]) mods σ σ3 hcell hmt hB (by simp)
  refine ⟨env3, σ', ?_, h2, rfl, rfl⟩
  simp only [List.cons_append, List.nil_append, execSs, e1, Res.bind]
  have e2' : execS call ρ (k + 1) ⟨("__ref_modules", σ.cells.length + 1) :: ("__ref_loaded", σ.cells.length) :: env.locals,
      env.varargs⟩ (.localFn .loc "__ref_require" fb) (afterRefLa σ) = .ok (.next env3) σ3 := e2
  rw [e2']
  exact h1

/-- without modules the reference prelude runs at every level (no indexed assignment) -/
theorem exec_refPrelude_nil (call : CallFn N) (ρ : ExtOracle N) (k : Nat) (env : Env N) (fb : FnBody) (σ : State N) :
    ∃ (env1 : Env N) (σ' : State N),
      execSs call ρ k env [refLa, .localFn .loc "__ref_require" fb] σ = .ok (.next env1) σ' ∧
      StExt σ σ' ∧ env1.varargs = env.varargs ∧
      env1.locals = ("__ref_require", σ.cells.length + 2) :: ("__ref_modules", σ.cells.length + 1) ::
        ("__ref_loaded", σ.cells.length) :: env.locals := by
  have e1 := exec_refLa call ρ k env σ
  have hA : StExt σ (afterRefLa σ) := by
    unfold afterRefLa
    exact ((StExt.allocTable σ _).trans (StExt.allocTable _ _)).trans ((StExt.allocCell _ _).trans (StExt.allocCell _ _))
  have hlenC : (afterRefLa σ).cells.length = σ.cells.length + 2 := by simp [afterRefLa, State.allocTable, State.allocCell]
  let env2 : Env N := ⟨("__ref_modules", σ.cells.length + 1) :: ("__ref_loaded", σ.cells.length) :: env.locals, env.varargs⟩
  let env3 : Env N := ⟨("__ref_require", σ.cells.length + 2) :: env2.locals, env.varargs⟩
  let σ3 : State N := (((afterRefLa σ).allocCell .nil).2.allocClosure ⟨fb, env3.locals, []⟩).2.setCell (σ.cells.length + 2)
    (.fn (afterRefLa σ).closures.length)
  have e2 : execS call ρ k env2 (.localFn .loc "__ref_require" fb) (afterRefLa σ) = .ok (.next env3) σ3 := by
    simp [execS, State.allocClosure, State.allocCell, hlenC, env3, env2, σ3]
  have hB : StExt σ σ3 := by
    have h1 := hA.trans ((StExt.allocCell (afterRefLa σ) .nil).trans (StExt.allocClosure _ ⟨fb, env3.locals, []⟩))
    exact StExt.setNewCell h1 (by simp) _
  refine ⟨env3, σ3, ?_, hB, rfl, rfl⟩
  simp only [execSs, e1, Res.bind]
  have e2' : execS call ρ k ⟨("__ref_modules", σ.cells.length + 1) :: ("__ref_loaded", σ.cells.length) :: env.locals,
      env.varargs⟩ (.localFn .loc "__ref_require" fb) (afterRefLa σ) = .ok (.next env3) σ3 := e2
  rw [e2']

/-- explicit state after the reference prelude with ONE module -/
def afterRefPrelude1 (fb : FnBody) (nb : String × Block) (σ : State N) : State N :=
  let env3 : List (String × Nat) :=
    [("__ref_require", σ.cells.length + 2), ("__ref_modules", σ.cells.length + 1), ("__ref_loaded", σ.cells.length)]
  let σ3 : State N := (((afterRefLa σ).allocCell .nil).2.allocClosure ⟨fb, env3, []⟩).2.setCell (σ.cells.length + 2)
    (.fn (afterRefLa σ).closures.length)
  (σ3.allocClosure ⟨.mk [] false none none [] [] nb.2, env3, []⟩).2.rawSet (σ.tables.length + 1)
    (.str (strToBytes nb.1)) (.fn σ3.closures.length)

theorem exec_refPrelude_one (call : CallFn N) (ρ : ExtOracle N) (k : Nat) (fb : FnBody) (nb : String × Block) (σ : State N) :
    execSs call ρ (k + 1) ⟨[], []⟩ ([refLa, .localFn .loc "__ref_require" fb] ++ [refAssign nb]) σ
      = .ok (.next ⟨[("__ref_require", σ.cells.length + 2), ("__ref_modules", σ.cells.length + 1),
          ("__ref_loaded", σ.cells.length)], []⟩) (afterRefPrelude1 fb nb σ) := by
  have e1 := exec_refLa call ρ (k + 1) ⟨[], []⟩ σ
  have hlenC : (afterRefLa σ).cells.length = σ.cells.length + 2 := by simp [afterRefLa, State.allocTable, State.allocCell]
  let env3 : Env N := ⟨[("__ref_require", σ.cells.length + 2), ("__ref_modules", σ.cells.length + 1),
    ("__ref_loaded", σ.cells.length)], []⟩
  let σ3 : State N := (((afterRefLa σ).allocCell .nil).2.allocClosure ⟨fb, env3.locals, []⟩).2.setCell (σ.cells.length + 2)
    (.fn (afterRefLa σ).closures.length)
  have e2 : execS call ρ (k + 1) ⟨[("__ref_modules", σ.cells.length + 1), ("__ref_loaded", σ.cells.length)], []⟩
      (.localFn .loc "__ref_require" fb) (afterRefLa σ) = .ok (.next env3) σ3 := by
    simp [execS, State.allocClosure, State.allocCell, hlenC, env3, σ3]
  have hcell : σ3.getCell (σ.cells.length + 1) = .tbl (σ.tables.length + 1) := by
    simp [σ3, State.getCell, State.setCell, State.allocClosure, State.allocCell, afterRefLa, State.allocTable,
      Heap.getElem?_listSet]
  have hmt : (σ3.getTable (σ.tables.length + 1)).mt = none := by
    simp [σ3, State.getTable, State.setCell, State.allocClosure, State.allocCell, afterRefLa, State.allocTable]
  have e3 := exec_refAssign call ρ k env3 nb (σ.cells.length + 1) (σ.tables.length + 1) σ3
    (by simp [env3, lookupAssoc]) hcell hmt
  simp only [List.cons_append, List.nil_append, execSs, e1, Res.bind]
  rw [e2]
  simp only []
  rw [e3]
  rfl

/-- the textbook `require` of the reference program -/
def refRequireFn : FnBody := .mk [.mk "name" none] false none none [] []
  (.mk
    [ .localAssign .loc [.mk "box" none] [.index (.var "__ref_loaded") (.var "name")],
      .ifs [(.bin .eq (.var "box") .nil,
        .mk [ .assign [.var "box"]
                [.table [.named "value" (.paren (.call (.index (.var "__ref_modules") (.var "name")) none .tuple []))]],
              .assign [.index (.var "__ref_loaded") (.var "name")] [.var "box"] ] none)] none ]
    (some (.ret [.field (.var "box") "value"])))

/-- the call that stands for `require` of module `n` in the reference program -/
def refCall (n : String) : Expr := .call (.var "__ref_require") none .tuple [.str (strToBytes n)]


end DarkluaModel.C05
