import DarkluaModel.C05.Lemmas
/-!
C05 helper lemmas: the bundle invariant for SEVERAL modules and its preservation by accessor calls.
-/
namespace DarkluaModel.C05
open Sem
variable {N : NumOps}

/-- where the bundle's own objects live -/
structure Layout where
  M : String
  /-- the scope in which the module definitions were executed (contains `M`) -/
  locals0 : List (String × Nat)
  cM : Nat
  tM : Nat
  tC : Nat

/-- one module definition as laid out in the heap -/
structure ModInfo where
  name : String
  body : Block
  /-- cell of its `__modImpl` local -/
  cI : Nat
  implId : Nat
  accId : Nat

def ModInfo.locals (L : Layout) (m : ModInfo) : List (String × Nat) := (implName, m.cI) :: L.locals0

structure Infra (L : Layout) (σ : State N) : Prop where
  hMv : L.M ≠ "v"
  hMI : L.M ≠ implName
  hM : lookupAssoc L.M L.locals0 = some L.cM
  cellM : σ.getCell L.cM = .tbl L.tM
  cache : σ.rawGet L.tM (strVal "cache") = .tbl L.tC
  plainC : (σ.getTable L.tC).mt = none
  ltC : L.tC < σ.tables.length
  neC : L.tC ≠ L.tM

structure ModReady (L : Layout) (m : ModInfo) (σ : State N) : Prop where
  field : σ.rawGet L.tM (strVal m.name) = .fn m.accId
  acc : σ.closures[m.accId]? = some (accClosure L.M m.name (m.locals L))
  cell : σ.getCell m.cI = .fn m.implId
  impl : σ.closures[m.implId]? = some (implClosure m.body (m.locals L))

/-- state of a module's slot in `M.cache`: not loaded yet, or boxed value -/
def SlotOk (L : Layout) (m : ModInfo) (s : Option (Nat × Val N)) (σ : State N) : Prop :=
  match s with
  | none => σ.rawGet L.tC (strVal m.name) = .nil
  | some (tb, w) =>
    σ.rawGet L.tC (strVal m.name) = .tbl tb ∧ σ.rawGet tb (strVal "c") = w ∧ (σ.getTable tb).mt = none ∧
    tb ≠ L.tC ∧ tb ≠ L.tM ∧ tb < σ.tables.length

/-- the bundle invariant: infrastructure, every module defined, every slot as `loaded` says -/
structure BI (L : Layout) (mods : List ModInfo) (loaded : String → Option (Nat × Val N)) (σ : State N) : Prop where
  infra : Infra L σ
  ready : ∀ m ∈ mods, ModReady L m σ
  slots : ∀ m ∈ mods, SlotOk L m (loaded m.name) σ

/-- distinct names as table keys -/
def KeysDistinct (mods : List ModInfo) : Prop :=
  ∀ m ∈ mods, ∀ m' ∈ mods, m.name.toUTF8.toList = m'.name.toUTF8.toList → m.name = m'.name

theorem rawGetEntries_rawSetEntries_other (a b : List UInt8) (hab : a ≠ b) (v : Val N) (hv : v ≠ .nil)
    (es : List (Val N × Val N)) :
    rawGetEntries (.str b) (rawSetEntries (.str a) v es) = rawGetEntries (.str b) es := by
  induction es with
  | nil =>
    have : rawEq (N := N) (.str a) (.str b) = false := by simp [rawEq, hab]
    cases v <;> simp_all [rawSetEntries, rawGetEntries]
  | cons e es ih =>
    obtain ⟨k, x⟩ := e
    by_cases hk : rawEq k (.str a) = true
    · have hkb : rawEq k (.str b) = false := by
        cases k <;> simp_all [rawEq]
      cases v <;> simp_all [rawSetEntries, rawGetEntries]
    · by_cases hkb : rawEq k (.str b) = true
      · simp [rawSetEntries, rawGetEntries, hk, hkb]
      · simp [rawSetEntries, rawGetEntries, hk, hkb, ih]

theorem rawGet_rawSet_other_key (σ : State N) (t : Nat) (a b : List UInt8) (hab : a ≠ b) (v : Val N) (hv : v ≠ .nil) :
    (σ.rawSet t (.str a) v).rawGet t (.str b) = σ.rawGet t (.str b) := by
  by_cases ht : t < σ.tables.length
  · unfold State.rawGet State.rawSet
    rw [getTable_setTable_same _ _ _ ht]
    exact rawGetEntries_rawSetEntries_other a b hab v hv _
  · have h1 : σ.tables[t]? = none := by simp; omega
    have h2 : (σ.rawSet t (.str a) v).tables[t]? = none := by
      simp [State.rawSet, State.setTable, listSet_length]; omega
    simp [State.rawGet, State.getTable, h1, h2]

theorem getTable_rawSet_mt (σ : State N) (t u : Nat) (k v : Val N) :
    ((σ.rawSet t k v).getTable u).mt = (σ.getTable u).mt := by
  by_cases htu : t = u
  · subst htu
    by_cases ht : t < σ.tables.length
    · simp [State.rawSet, getTable_setTable_same _ _ _ ht]
    · have h1 : σ.tables[t]? = none := by simp; omega
      have h2 : (σ.rawSet t k v).tables[t]? = none := by
        simp [State.rawSet, State.setTable, listSet_length]; omega
      simp [State.getTable, h1, h2]
  · rw [getTable_rawSet_ne _ _ _ _ _ htu]

theorem tables_length_rawSet (σ : State N) (t : Nat) (k v : Val N) : (σ.rawSet t k v).tables.length = σ.tables.length := by
  simp [State.rawSet, State.setTable, listSet_length]

theorem getCell_ne_nil_lt (σ : State N) (i : Nat) (x : Val N) (h : σ.getCell i = x) (hx : x ≠ .nil) :
    i < σ.cells.length := by
  by_cases hi : i < σ.cells.length
  · exact hi
  · have : σ.cells[i]? = none := by simp; omega
    simp [State.getCell, this] at h
    exact absurd h.symm hx

theorem lookup_M_locals (L : Layout) (m : ModInfo) (σ : State N) (h : Infra L σ) :
    lookupAssoc L.M (m.locals L) = some L.cM := by
  have : (implName == L.M) = false := beq_eq_false_iff_ne.mpr (Ne.symm h.hMI)
  simp [ModInfo.locals, lookupAssoc, this, h.hM]

theorem lookup_impl_locals (L : Layout) (m : ModInfo) : lookupAssoc implName (m.locals L) = some m.cI := by
  simp [ModInfo.locals, lookupAssoc]

/-- allocating a cell disturbs nothing -/
theorem BI.allocCell {L : Layout} {mods : List ModInfo} {loaded : String → Option (Nat × Val N)} {σ : State N}
    (h : BI L mods loaded σ) (v : Val N) : BI L mods loaded (σ.allocCell v).2 := by
  refine ⟨⟨h.infra.hMv, h.infra.hMI, h.infra.hM, getCell_allocCell σ _ _ _ h.infra.cellM (by simp), h.infra.cache,
    h.infra.plainC, h.infra.ltC, h.infra.neC⟩, ?_, ?_⟩
  · intro m hm
    have r := h.ready m hm
    exact ⟨r.field, r.acc, getCell_allocCell σ _ _ _ r.cell (by simp), r.impl⟩
  · intro m hm
    have sl := h.slots m hm
    unfold SlotOk at sl ⊢
    cases hl : loaded m.name with
    | none => rw [hl] at sl; exact sl
    | some p => rw [hl] at sl; obtain ⟨tb, w⟩ := p; exact sl

/-- a call of the accessor of an already loaded module: the boxed value, the invariant kept -/
theorem bi_hit (call : CallFn N) (ρ : ExtOracle N) (k : Nat) (L : Layout) (mods : List ModInfo)
    (loaded : String → Option (Nat × Val N)) (m : ModInfo) (hm : m ∈ mods) (tb : Nat) (w : Val N) (va : List (Val N))
    (σ : State N) (h : BI L mods loaded σ) (hl : loaded m.name = some (tb, w)) :
    execB call ρ (k + 1) ⟨m.locals L, va⟩ (cachedBlock L.M m.name) σ = .ok (.ret [w]) (σ.allocCell (.tbl tb)).2 ∧
    BI L mods loaded (σ.allocCell (.tbl tb)).2 := by
  have sl := h.slots m hm
  rw [hl] at sl
  exact ⟨cached_hit call ρ k L.M m.name ⟨m.locals L, va⟩ L.cM L.tM L.tC tb w σ (lookup_M_locals L m σ h.infra)
    h.infra.cellM h.infra.cache sl.1 sl.2.1 (Or.inr sl.2.2.1), h.allocCell _⟩

def updLoaded (loaded : String → Option (Nat × Val N)) (name : String) (x : Nat × Val N) : String → Option (Nat × Val N) :=
  fun n => if n = name then some x else loaded n

/-- first call of the accessor of module `m`: its body runs (black box `hrun`, which may itself
load further modules: `loaded'`), the value is boxed, the invariant holds again with `m` loaded -/
theorem bi_miss (call : CallFn N) (ρ : ExtOracle N) (k : Nat) (L : Layout) (mods : List ModInfo)
    (hkeys : KeysDistinct mods)
    (loaded loaded' : String → Option (Nat × Val N)) (m : ModInfo) (hm : m ∈ mods) (va vs : List (Val N))
    (σ σb : State N) (h : BI L mods loaded σ) (hl : loaded m.name = none)
    (hrun : call (implClosure m.body (m.locals L)) []
      ((σ.allocCell .nil).2.allocTable { entries := [], mt := none }).2 = .ok vs σb)
    (hb : BI L mods loaded' σb) (hl' : loaded' m.name = none)
    (fcells : σ.cells.length < σb.cells.length)
    (ftables : σ.tables.length < σb.tables.length)
    (fboxT : σb.getTable σ.tables.length = { entries := [], mt := none })
    (hfresh : ∀ m' ∈ mods, ∀ tb w, loaded' m'.name = some (tb, w) → tb ≠ σ.tables.length) :
    execB call ρ (k + 1) ⟨m.locals L, va⟩ (cachedBlock L.M m.name) σ
      = .ok (.ret [first vs]) (afterMiss σb σ.cells.length σ.tables.length L.tC m.name (first vs)) ∧
    BI L mods (updLoaded loaded' m.name (σ.tables.length, first vs))
      (afterMiss σb σ.cells.length σ.tables.length L.tC m.name (first vs)) := by
  have rm := h.ready m hm
  have slσ := h.slots m hm
  rw [hl] at slσ
  have slb := hb.slots m hm
  rw [hl'] at slb
  have htMlt : L.tM < σ.tables.length := rawGet_ne_nil_lt σ L.tM _ _ h.infra.cache (by simp)
  have hcMlt : L.cM < σ.cells.length := getCell_ne_nil_lt σ L.cM _ h.infra.cellM (by simp)
  have hex := cached_miss call ρ k L.M m.name ⟨m.locals L, va⟩ L.cM L.tM L.tC m.cI m.implId
    (implClosure m.body (m.locals L)) vs σ σb h.infra.hMv (lookup_M_locals L m σ h.infra) (lookup_impl_locals L m)
    h.infra.cellM h.infra.cache slσ h.infra.plainC rm.cell rm.impl hrun fcells ftables fboxT hb.infra.cellM
    hb.infra.cache slb hb.infra.plainC h.infra.ltC
  refine ⟨hex, ?_⟩
  have hbox := afterMiss_box σb σ.cells.length σ.tables.length L.tC m.name (first vs) ftables hb.infra.ltC
    (by have := h.infra.ltC; omega) fboxT
  have hne1 : σ.tables.length ≠ L.tM := by omega
  have hne2 : L.tC ≠ L.tM := h.infra.neC
  have hneC : σ.tables.length ≠ L.tC := by have := h.infra.ltC; omega
  -- lookups in the modules table are untouched
  have htM : ∀ key, (afterMiss σb σ.cells.length σ.tables.length L.tC m.name (first vs)).rawGet L.tM key
      = σb.rawGet L.tM key := by
    intro key
    simp only [afterMiss]
    rw [rawGet_rawSet_ne_table _ _ _ _ _ _ hne2, rawGet_setCell, rawGet_rawSet_ne_table _ _ _ _ _ _ hne1]
  have hcellOld : ∀ i x, σ.getCell i = x → x ≠ .nil → ∀ y, σb.getCell i = y →
      (afterMiss σb σ.cells.length σ.tables.length L.tC m.name (first vs)).getCell i = y := by
    intro i x hx hxn y hy
    have hi : i < σ.cells.length := getCell_ne_nil_lt σ i x hx hxn
    simp only [afterMiss, getCell_rawSet]
    rw [getCell_setCell_ne _ _ _ _ (by omega : σ.cells.length ≠ i)]
    simpa using hy
  have hlen : (afterMiss σb σ.cells.length σ.tables.length L.tC m.name (first vs)).tables.length = σb.tables.length := by
    simp [afterMiss, State.rawSet, State.setTable, State.setCell, listSet_length]
  refine ⟨⟨h.infra.hMv, h.infra.hMI, h.infra.hM, ?_, ?_, ?_, ?_, h.infra.neC⟩, ?_, ?_⟩
  · exact hcellOld _ _ h.infra.cellM (by simp) _ hb.infra.cellM
  · rw [htM]; exact hb.infra.cache
  · simp only [afterMiss]
    rw [getTable_rawSet_mt, getTable_setCell, getTable_rawSet_mt]; exact hb.infra.plainC
  · rw [hlen]; exact hb.infra.ltC
  · intro m' hm'
    have r := hb.ready m' hm'
    have rσ := h.ready m' hm'
    refine ⟨by rw [htM]; exact r.field, r.acc, hcellOld _ _ rσ.cell (by simp) _ r.cell, r.impl⟩
  · intro m' hm'
    have sl := hb.slots m' hm'
    unfold SlotOk at sl ⊢
    by_cases hname : m'.name = m.name
    · simp only [updLoaded, hname, if_true]
      exact ⟨hbox.1, hbox.2.1, hbox.2.2.1, hneC, hne1, by rw [hlen]; exact ftables⟩
    · have hbytes : m.name.toUTF8.toList ≠ m'.name.toUTF8.toList := fun e => hname (hkeys m hm m' hm' e).symm
      have hslot : (afterMiss σb σ.cells.length σ.tables.length L.tC m.name (first vs)).rawGet L.tC (strVal m'.name)
          = σb.rawGet L.tC (strVal m'.name) := by
        simp only [afterMiss, strVal]
        rw [rawGet_rawSet_other_key _ _ _ _ hbytes _ (by simp), rawGet_setCell,
          rawGet_rawSet_ne_table _ _ _ _ _ _ hneC]
      simp only [updLoaded, hname, if_false]
      cases hl2 : loaded' m'.name with
      | none => rw [hl2] at sl; simp only; rw [hslot]; exact sl
      | some p =>
        obtain ⟨tb, w⟩ := p
        rw [hl2] at sl
        simp only at sl ⊢
        have htbx : tb ≠ σ.tables.length := hfresh m' hm' tb w hl2
        refine ⟨by rw [hslot]; exact sl.1, ?_, ?_, sl.2.2.2.1, sl.2.2.2.2.1, by rw [hlen]; exact sl.2.2.2.2.2⟩
        · simp only [afterMiss]
          rw [rawGet_rawSet_ne_table _ _ _ _ _ _ (Ne.symm sl.2.2.2.1), rawGet_setCell,
            rawGet_rawSet_ne_table _ _ _ _ _ _ (Ne.symm htbx)]
          exact sl.2.1
        · simp only [afterMiss]
          rw [getTable_rawSet_mt, getTable_setCell, getTable_rawSet_mt]; exact sl.2.2.1

end DarkluaModel.C05
