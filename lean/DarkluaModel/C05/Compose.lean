import DarkluaModel.C05.Lemmas
/-!
C05 helper lemmas: the bundle invariant for SEVERAL modules and its preservation by accessor calls.
-/
namespace DarkluaModel.C05
open Sem
variable {N : NumOps}

/-- where the bundle's own objects live -/
structure Layout where
  M : String
  /-- the scope in which the module definitions were executed (contains `M`) -/
  locals0 : List (String × Nat)
  cM : Nat
  tM : Nat
  tC : Nat

/-- one module definition as laid out in the heap -/
structure ModInfo where
  name : String
  body : Block
  /-- cell of its `__modImpl` local -/
  cI : Nat
  implId : Nat
  accId : Nat

def ModInfo.locals (L : Layout) (m : ModInfo) : List (String × Nat) := (implName, m.cI) :: L.locals0

structure Infra (L : Layout) (σ : State N) : Prop where
  hMv : L.M ≠ "v"
  hMI : L.M ≠ implName
  hM : lookupAssoc L.M L.locals0 = some L.cM
  cellM : σ.getCell L.cM = .tbl L.tM
  cache : σ.rawGet L.tM (strVal "cache") = .tbl L.tC
  plainC : (σ.getTable L.tC).mt = none
  ltC : L.tC < σ.tables.length
  neC : L.tC ≠ L.tM

structure ModReady (L : Layout) (m : ModInfo) (σ : State N) : Prop where
  field : σ.rawGet L.tM (strVal m.name) = .fn m.accId
  acc : σ.closures[m.accId]? = some (accClosure L.M m.name (m.locals L))
  cell : σ.getCell m.cI = .fn m.implId
  impl : σ.closures[m.implId]? = some (implClosure m.body (m.locals L))

/-- state of a module's slot in `M.cache`: not loaded yet, or boxed value -/
def SlotOk (L : Layout) (m : ModInfo) (s : Option (Nat × Val N)) (σ : State N) : Prop :=
  match s with
  | none => σ.rawGet L.tC (strVal m.name) = .nil
  | some (tb, w) =>
    σ.rawGet L.tC (strVal m.name) = .tbl tb ∧ σ.rawGet tb (strVal "c") = w ∧ (σ.getTable tb).mt = none ∧
    tb ≠ L.tC ∧ tb ≠ L.tM ∧ tb < σ.tables.length

/-- the bundle invariant: infrastructure, every module defined, every slot as `loaded` says -/
structure BI (L : Layout) (mods : List ModInfo) (loaded : String → Option (Nat × Val N)) (σ : State N) : Prop where
  infra : Infra L σ
  ready : ∀ m ∈ mods, ModReady L m σ
  slots : ∀ m ∈ mods, SlotOk L m (loaded m.name) σ

/-- distinct names as table keys -/
def KeysDistinct (mods : List ModInfo) : Prop :=
  ∀ m ∈ mods, ∀ m' ∈ mods, m.name.toUTF8.toList = m'.name.toUTF8.toList → m.name = m'.name

theorem rawGetEntries_rawSetEntries_other (a b : List UInt8) (hab : a ≠ b) (v : Val N) (hv : v ≠ .nil)
    (es : List (Val N × Val N)) :
    rawGetEntries (.str b) (rawSetEntries (.str a) v es) = rawGetEntries (.str b) es := by
  induction es with
  | nil =>
    have : rawEq (N := N) (.str a) (.str b) = false := by simp [rawEq, hab]
    cases v <;> simp_all [rawSetEntries, rawGetEntries]
  | cons e es ih =>
    obtain ⟨k, x⟩ := e
    by_cases hk : rawEq k (.str a) = true
    · have hkb : rawEq k (.str b) = false := by
        cases k <;> simp_all [rawEq]
      cases v <;> simp_all [rawSetEntries, rawGetEntries]
    · by_cases hkb : rawEq k (.str b) = true
      · simp [rawSetEntries, rawGetEntries, hk, hkb]
      · simp [rawSetEntries, rawGetEntries, hk, hkb, ih]

theorem rawGet_rawSet_other_key (σ : State N) (t : Nat) (a b : List UInt8) (hab : a ≠ b) (v : Val N) (hv : v ≠ .nil) :
    (σ.rawSet t (.str a) v).rawGet t (.str b) = σ.rawGet t (.str b) := by
  by_cases ht : t < σ.tables.length
  · unfold State.rawGet State.rawSet
    rw [getTable_setTable_same _ _ _ ht]
    exact rawGetEntries_rawSetEntries_other a b hab v hv _
  · have h1 : σ.tables[t]? = none := by simp; omega
    have h2 : (σ.rawSet t (.str a) v).tables[t]? = none := by
      simp [State.rawSet, State.setTable, listSet_length]; omega
    simp [State.rawGet, State.getTable, h1, h2]

theorem getTable_rawSet_mt (σ : State N) (t u : Nat) (k v : Val N) :
    ((σ.rawSet t k v).getTable u).mt = (σ.getTable u).mt := by
  by_cases htu : t = u
  · subst htu
    by_cases ht : t < σ.tables.length
    · simp [State.rawSet, getTable_setTable_same _ _ _ ht]
    · have h1 : σ.tables[t]? = none := by simp; omega
      have h2 : (σ.rawSet t k v).tables[t]? = none := by
        simp [State.rawSet, State.setTable, listSet_length]; omega
      simp [State.getTable, h1, h2]
  · rw [getTable_rawSet_ne _ _ _ _ _ htu]

theorem tables_length_rawSet (σ : State N) (t : Nat) (k v : Val N) : (σ.rawSet t k v).tables.length = σ.tables.length := by
  simp [State.rawSet, State.setTable, listSet_length]

theorem getCell_ne_nil_lt (σ : State N) (i : Nat) (x : Val N) (h : σ.getCell i = x) (hx : x ≠ .nil) :
    i < σ.cells.length := by
  by_cases hi : i < σ.cells.length
  · exact hi
  · have : σ.cells[i]? = none := by simp; omega
    simp [State.getCell, this] at h
    exact absurd h.symm hx

theorem lookup_M_locals (L : Layout) (m : ModInfo) (σ : State N) (h : Infra L σ) :
    lookupAssoc L.M (m.locals L) = some L.cM := by
  have : (implName == L.M) = false := beq_eq_false_iff_ne.mpr (Ne.symm h.hMI)
  simp [ModInfo.locals, lookupAssoc, this, h.hM]

theorem lookup_impl_locals (L : Layout) (m : ModInfo) : lookupAssoc implName (m.locals L) = some m.cI := by
  simp [ModInfo.locals, lookupAssoc]

/-- allocating a cell disturbs nothing -/
theorem BI.allocCell {L : Layout} {mods : List ModInfo} {loaded : String → Option (Nat × Val N)} {σ : State N}
    (h : BI L mods loaded σ) (v : Val N) : BI L mods loaded (σ.allocCell v).2 := by
  refine ⟨⟨h.infra.hMv, h.infra.hMI, h.infra.hM, getCell_allocCell σ _ _ _ h.infra.cellM (by simp), h.infra.cache,
    h.infra.plainC, h.infra.ltC, h.infra.neC⟩, ?_, ?_⟩
  · intro m hm
    have r := h.ready m hm
    exact ⟨r.field, r.acc, getCell_allocCell σ _ _ _ r.cell (by simp), r.impl⟩
  · intro m hm
    have sl := h.slots m hm
    unfold SlotOk at sl ⊢
    cases hl : loaded m.name with
    | none => rw [hl] at sl; exact sl
    | some p => rw [hl] at sl; obtain ⟨tb, w⟩ := p; exact sl

/-- a call of the accessor of an already loaded module: the boxed value, the invariant kept -/
theorem bi_hit (call : CallFn N) (ρ : ExtOracle N) (k : Nat) (L : Layout) (mods : List ModInfo)
    (loaded : String → Option (Nat × Val N)) (m : ModInfo) (hm : m ∈ mods) (tb : Nat) (w : Val N) (va : List (Val N))
    (σ : State N) (h : BI L mods loaded σ) (hl : loaded m.name = some (tb, w)) :
    execB call ρ (k + 1) ⟨m.locals L, va⟩ (cachedBlock L.M m.name) σ = .ok (.ret [w]) (σ.allocCell (.tbl tb)).2 ∧
    BI L mods loaded (σ.allocCell (.tbl tb)).2 := by
  have sl := h.slots m hm
  rw [hl] at sl
  exact ⟨cached_hit call ρ k L.M m.name ⟨m.locals L, va⟩ L.cM L.tM L.tC tb w σ (lookup_M_locals L m σ h.infra)
    h.infra.cellM h.infra.cache sl.1 sl.2.1 (Or.inr sl.2.2.1), h.allocCell _⟩

def updLoaded (loaded : String → Option (Nat × Val N)) (name : String) (x : Nat × Val N) : String → Option (Nat × Val N) :=
  fun n => if n = name then some x else loaded n

/-- first call of the accessor of module `m`: its body runs (black box `hrun`, which may itself
load further modules: `loaded'`), the value is boxed, the invariant holds again with `m` loaded -/
theorem bi_miss (call : CallFn N) (ρ : ExtOracle N) (k : Nat) (L : Layout) (mods : List ModInfo)
    (hkeys : KeysDistinct mods)
    (loaded loaded' : String → Option (Nat × Val N)) (m : ModInfo) (hm : m ∈ mods) (va vs : List (Val N))
    (σ σb : State N) (h : BI L mods loaded σ) (hl : loaded m.name = none)
    (hrun : call (implClosure m.body (m.locals L)) []
      ((σ.allocCell .nil).2.allocTable { entries := [], mt := none }).2 = .ok vs σb)
    (hb : BI L mods loaded' σb) (hl' : loaded' m.name = none)
    (fcells : σ.cells.length < σb.cells.length)
    (ftables : σ.tables.length < σb.tables.length)
    (fboxT : σb.getTable σ.tables.length = { entries := [], mt := none })
    (hfresh : ∀ m' ∈ mods, ∀ tb w, loaded' m'.name = some (tb, w) → tb ≠ σ.tables.length) :
    execB call ρ (k + 1) ⟨m.locals L, va⟩ (cachedBlock L.M m.name) σ
      = .ok (.ret [first vs]) (afterMiss σb σ.cells.length σ.tables.length L.tC m.name (first vs)) ∧
    BI L mods (updLoaded loaded' m.name (σ.tables.length, first vs))
      (afterMiss σb σ.cells.length σ.tables.length L.tC m.name (first vs)) := by
  have rm := h.ready m hm
  have slσ := h.slots m hm
  rw [hl] at slσ
  have slb := hb.slots m hm
  rw [hl'] at slb
  have htMlt : L.tM < σ.tables.length := rawGet_ne_nil_lt σ L.tM _ _ h.infra.cache (by simp)
  have hcMlt : L.cM < σ.cells.length := getCell_ne_nil_lt σ L.cM _ h.infra.cellM (by simp)
  have hex := cached_miss call ρ k L.M m.name ⟨m.locals L, va⟩ L.cM L.tM L.tC m.cI m.implId
    (implClosure m.body (m.locals L)) vs σ σb h.infra.hMv (lookup_M_locals L m σ h.infra) (lookup_impl_locals L m)
    h.infra.cellM h.infra.cache slσ h.infra.plainC rm.cell rm.impl hrun fcells ftables fboxT hb.infra.cellM
    hb.infra.cache slb hb.infra.plainC h.infra.ltC
  refine ⟨hex, ?_⟩
  have hbox := afterMiss_box σb σ.cells.length σ.tables.length L.tC m.name (first vs) ftables hb.infra.ltC
    (by have := h.infra.ltC; omega) fboxT
  have hne1 : σ.tables.length ≠ L.tM := by omega
  have hne2 : L.tC ≠ L.tM := h.infra.neC
  have hneC : σ.tables.length ≠ L.tC := by have := h.infra.ltC; omega
  -- lookups in the modules table are untouched
  have htM : ∀ key, (afterMiss σb σ.cells.length σ.tables.length L.tC m.name (first vs)).rawGet L.tM key
      = σb.rawGet L.tM key := by
    intro key
    simp only [afterMiss]
    rw [rawGet_rawSet_ne_table _ _ _ _ _ _ hne2, rawGet_setCell, rawGet_rawSet_ne_table _ _ _ _ _ _ hne1]
  have hcellOld : ∀ i x, σ.getCell i = x → x ≠ .nil → ∀ y, σb.getCell i = y →
      (afterMiss σb σ.cells.length σ.tables.length L.tC m.name (first vs)).getCell i = y := by
    intro i x hx hxn y hy
    have hi : i < σ.cells.length := getCell_ne_nil_lt σ i x hx hxn
    simp only [afterMiss, getCell_rawSet]
    rw [getCell_setCell_ne _ _ _ _ (by omega : σ.cells.length ≠ i)]
    simpa using hy
  have hlen : (afterMiss σb σ.cells.length σ.tables.length L.tC m.name (first vs)).tables.length = σb.tables.length := by
    simp [afterMiss, State.rawSet, State.setTable, State.setCell, listSet_length]
  refine ⟨⟨h.infra.hMv, h.infra.hMI, h.infra.hM, ?_, ?_, ?_, ?_, h.infra.neC⟩, ?_, ?_⟩
  · exact hcellOld _ _ h.infra.cellM (by simp) _ hb.infra.cellM
  · rw [htM]; exact hb.infra.cache
  · simp only [afterMiss]
    rw [getTable_rawSet_mt, getTable_setCell, getTable_rawSet_mt]; exact hb.infra.plainC
  · rw [hlen]; exact hb.infra.ltC
  · intro m' hm'
    have r := hb.ready m' hm'
    have rσ := h.ready m' hm'
    refine ⟨by rw [htM]; exact r.field, r.acc, hcellOld _ _ rσ.cell (by simp) _ r.cell, r.impl⟩
  · intro m' hm'
    have sl := hb.slots m' hm'
    unfold SlotOk at sl ⊢
    by_cases hname : m'.name = m.name
    · simp only [updLoaded, hname, if_true]
      exact ⟨hbox.1, hbox.2.1, hbox.2.2.1, hneC, hne1, by rw [hlen]; exact ftables⟩
    · have hbytes : m.name.toUTF8.toList ≠ m'.name.toUTF8.toList := fun e => hname (hkeys m hm m' hm' e).symm
      have hslot : (afterMiss σb σ.cells.length σ.tables.length L.tC m.name (first vs)).rawGet L.tC (strVal m'.name)
          = σb.rawGet L.tC (strVal m'.name) := by
        simp only [afterMiss, strVal]
        rw [rawGet_rawSet_other_key _ _ _ _ hbytes _ (by simp), rawGet_setCell,
          rawGet_rawSet_ne_table _ _ _ _ _ _ hneC]
      simp only [updLoaded, hname, if_false]
      cases hl2 : loaded' m'.name with
      | none => rw [hl2] at sl; simp only; rw [hslot]; exact sl
      | some p =>
        obtain ⟨tb, w⟩ := p
        rw [hl2] at sl
        simp only at sl ⊢
        have htbx : tb ≠ σ.tables.length := hfresh m' hm' tb w hl2
        refine ⟨by rw [hslot]; exact sl.1, ?_, ?_, sl.2.2.2.1, sl.2.2.2.2.1, by rw [hlen]; exact sl.2.2.2.2.2⟩
        · simp only [afterMiss]
          rw [rawGet_rawSet_ne_table _ _ _ _ _ _ (Ne.symm sl.2.2.2.1), rawGet_setCell,
            rawGet_rawSet_ne_table _ _ _ _ _ _ (Ne.symm htbx)]
          exact sl.2.1
        · simp only [afterMiss]
          rw [getTable_rawSet_mt, getTable_setCell, getTable_rawSet_mt]; exact sl.2.2.1

theorem listSet_append_last {α : Type} (xs : List α) (a b : α) : listSet (xs ++ [a]) xs.length b = xs ++ [b] := by
  induction xs with
  | nil => rfl
  | cons x xs ih => simp [listSet, ih]

theorem afterDefinition_closures (M name : String) (body : Block) (locals : List (String × Nat)) (tM : Nat) (σ : State N) :
    (afterDefinition M name body locals tM σ).closures
      = σ.closures ++ [implClosure body ((implName, σ.cells.length) :: locals),
                        accClosure M name ((implName, σ.cells.length) :: locals)] := by
  simp [afterDefinition, State.allocCell, State.allocClosure, State.setCell, State.rawSet, State.setTable,
    implClosure, accClosure]

theorem afterDefinition_cells (M name : String) (body : Block) (locals : List (String × Nat)) (tM : Nat) (σ : State N) :
    (afterDefinition M name body locals tM σ).cells = σ.cells ++ [.fn σ.closures.length] := by
  simp [afterDefinition, State.allocCell, State.allocClosure, State.setCell, State.rawSet, State.setTable,
    listSet_append_last]

/-- as far as tables are concerned a definition is one `rawSet` on the modules table -/
theorem afterDefinition_tables (M name : String) (body : Block) (locals : List (String × Nat)) (tM : Nat) (σ : State N) :
    (afterDefinition M name body locals tM σ).tables
      = (σ.rawSet tM (strVal name) (.fn (σ.closures.length + 1))).tables := by
  simp [afterDefinition, State.allocCell, State.allocClosure, State.setCell, State.rawSet, State.setTable,
    State.getTable]

theorem rawGet_of_tables {σ σ' : State N} (h : σ.tables = σ'.tables) (t : Nat) (k : Val N) :
    σ.rawGet t k = σ'.rawGet t k := by simp [State.rawGet, State.getTable, h]
theorem getTable_of_tables {σ σ' : State N} (h : σ.tables = σ'.tables) (t : Nat) :
    σ.getTable t = σ'.getTable t := by simp [State.getTable, h]


def bytesOf (s : String) : List UInt8 := s.toUTF8.toList

/-- invariant of executing the module definitions one after the other -/
structure Pre (L : Layout) (done : List ModInfo) (todo : List (String × Block)) (σ : State N) : Prop where
  infra : Infra L σ
  plainM : (σ.getTable L.tM).mt = none
  ready : ∀ m ∈ done, ModReady L m σ
  slotsDone : ∀ m ∈ done, σ.rawGet L.tC (strVal m.name) = .nil
  freeField : ∀ nb ∈ todo, σ.rawGet L.tM (strVal nb.1) = .nil
  freeSlot : ∀ nb ∈ todo, σ.rawGet L.tC (strVal nb.1) = .nil

theorem getCell_append_left (σ σ' : State N) (extra : List (Val N)) (h : σ'.cells = σ.cells ++ extra) (i : Nat)
    (x : Val N) (hx : σ.getCell i = x) (hn : x ≠ .nil) : σ'.getCell i = x := by
  have hi := getCell_ne_nil_lt σ i x hx hn
  simp only [State.getCell] at hx ⊢
  rw [h, List.getElem?_append_left hi]; exact hx

theorem closures_append_left (σ σ' : State N) (extra : List (Closure N)) (h : σ'.closures = σ.closures ++ extra)
    (i : Nat) (c : Closure N) (hc : σ.closures[i]? = some c) : σ'.closures[i]? = some c := by
  have hi : i < σ.closures.length := by
    by_cases hi : i < σ.closures.length
    · exact hi
    · have : σ.closures[i]? = none := by simp; omega
      rw [this] at hc; cases hc
  rw [h, List.getElem?_append_left hi]; exact hc

/-- the layout of the definitions: the `i`-th one allocates one cell and two closures -/
def mkInfos : Nat → Nat → List (String × Block) → List ModInfo
  | _, _, [] => []
  | c, f, nb :: rest => ⟨nb.1, nb.2, c, f, f + 1⟩ :: mkInfos (c + 1) (f + 2) rest

theorem defs_exec (call : CallFn N) (ρ : ExtOracle N) (k : Nat) (L : Layout) (va : List (Val N)) :
    ∀ (todo : List (String × Block)) (done : List ModInfo) (σ : State N),
      Pre L done todo σ →
      ((done.map fun m => bytesOf m.name) ++ (todo.map fun nb => bytesOf nb.1)).Nodup →
      (∀ nb ∈ todo, bytesOf nb.1 ≠ bytesOf "cache") →
      ∃ (infos : List ModInfo) (σ' : State N),
        infos.map (fun m => (m.name, m.body)) = todo ∧
        execSs call ρ (k + 1) ⟨L.locals0, va⟩ (todo.map fun nb => moduleDefinition L.M nb.1 nb.2) σ
          = .ok (.next ⟨L.locals0, va⟩) σ' ∧
        Pre L (done ++ infos) [] σ' ∧
        σ' = todo.foldl (fun s nb => afterDefinition L.M nb.1 nb.2 L.locals0 L.tM s) σ ∧
        infos = mkInfos σ.cells.length σ.closures.length todo := by
  intro todo
  induction todo with
  | nil =>
    intro done σ hpre _ _
    exact ⟨[], σ, rfl, by simp [execSs], by simpa using hpre, rfl, rfl⟩
  | cons nb rest ih =>
    intro done σ hpre hnodup hcache
    obtain ⟨name, body⟩ := nb
    have hfield := hpre.freeField (name, body) List.mem_cons_self
    have hslot := hpre.freeSlot (name, body) List.mem_cons_self
    have hex := exec_moduleDefinition call ρ k ⟨L.locals0, va⟩ L.M name body L.cM L.tM σ hpre.infra.hMI hpre.infra.hM
      hpre.infra.cellM hfield hpre.plainM
    let σ1 := afterDefinition L.M name body L.locals0 L.tM σ
    let m : ModInfo := ⟨name, body, σ.cells.length, σ.closures.length, σ.closures.length + 1⟩
    have hcl := afterDefinition_closures L.M name body L.locals0 L.tM σ
    have hce := afterDefinition_cells L.M name body L.locals0 L.tM σ
    have hta := afterDefinition_tables L.M name body L.locals0 L.tM σ
    have htMlt : L.tM < σ.tables.length := rawGet_ne_nil_lt σ L.tM _ _ hpre.infra.cache (by simp)
    have hneC : L.tM ≠ L.tC := Ne.symm hpre.infra.neC
    -- lookups after the definition
    have hgetC : ∀ key, σ1.rawGet L.tC key = σ.rawGet L.tC key := by
      intro key
      rw [rawGet_of_tables hta, rawGet_rawSet_ne_table _ _ _ _ _ _ hneC]
    have hgetM : ∀ b, bytesOf name ≠ b → σ1.rawGet L.tM (.str b) = σ.rawGet L.tM (.str b) := by
      intro b hb
      rw [rawGet_of_tables hta]
      exact rawGet_rawSet_other_key σ L.tM _ _ hb _ (by simp)
    have hmt : ∀ t, (σ1.getTable t).mt = (σ.getTable t).mt := by
      intro t
      rw [getTable_of_tables hta, getTable_rawSet_mt]
    have hlen : σ1.tables.length = σ.tables.length := by
      show (afterDefinition L.M name body L.locals0 L.tM σ).tables.length = _
      rw [hta, tables_length_rawSet]
    have hnd := hnodup
    simp only [List.map_cons, List.nodup_append, List.nodup_cons, List.mem_cons, List.mem_map] at hnd
    have hname_done : ∀ m' ∈ done, bytesOf name ≠ bytesOf m'.name := by
      intro m' hm' e
      exact hnd.2.2 (bytesOf m'.name) ⟨m', hm', rfl⟩ (bytesOf name) (Or.inl rfl) e.symm
    have hname_rest : ∀ nb' ∈ rest, bytesOf name ≠ bytesOf nb'.1 := by
      intro nb' hnb' e
      exact hnd.2.1.1 ⟨nb', hnb', e.symm⟩
    have hpre1 : Pre L (done ++ [m]) rest σ1 := by
      refine ⟨⟨hpre.infra.hMv, hpre.infra.hMI, hpre.infra.hM, ?_, ?_, ?_, ?_, hpre.infra.neC⟩, ?_, ?_, ?_, ?_, ?_⟩
      · exact getCell_append_left σ σ1 _ hce _ _ hpre.infra.cellM (by simp)
      · have := hgetM (bytesOf "cache") (hcache (name, body) List.mem_cons_self)
        simp only [strVal, bytesOf] at this ⊢
        rw [this]; exact hpre.infra.cache
      · rw [hmt]; exact hpre.infra.plainC
      · rw [hlen]; exact hpre.infra.ltC
      · rw [hmt]; exact hpre.plainM
      · intro m' hm'
        rcases List.mem_append.mp hm' with hm' | hm'
        · have r := hpre.ready m' hm'
          refine ⟨?_, closures_append_left σ σ1 _ hcl _ _ r.acc, getCell_append_left σ σ1 _ hce _ _ r.cell (by simp),
            closures_append_left σ σ1 _ hcl _ _ r.impl⟩
          have := hgetM (bytesOf m'.name) (hname_done m' hm')
          simp only [strVal, bytesOf] at this ⊢
          rw [this]; exact r.field
        · have : m' = m := by simpa using hm'
          subst this
          refine ⟨?_, ?_, ?_, ?_⟩
          · show σ1.rawGet L.tM (strVal name) = .fn (σ.closures.length + 1)
            rw [rawGet_of_tables hta]
            unfold State.rawGet State.rawSet
            rw [getTable_setTable_same _ _ _ htMlt]
            exact rawGetEntries_rawSetEntries_same _ _ (by simp) _
          · show (afterDefinition L.M name body L.locals0 L.tM σ).closures[σ.closures.length + 1]? = _
            rw [hcl]; simp [ModInfo.locals]; rfl
          · show (afterDefinition L.M name body L.locals0 L.tM σ).getCell σ.cells.length = _
            simp [State.getCell, hce]; rfl
          · show (afterDefinition L.M name body L.locals0 L.tM σ).closures[σ.closures.length]? = _
            rw [hcl]; simp [ModInfo.locals]; rfl
      · intro m' hm'
        rw [hgetC]
        rcases List.mem_append.mp hm' with hm' | hm'
        · exact hpre.slotsDone m' hm'
        · have : m' = m := by simpa using hm'
          subst this; exact hslot
      · intro nb' hnb'
        have := hgetM (bytesOf nb'.1) (hname_rest nb' hnb')
        simp only [strVal, bytesOf] at this ⊢
        rw [this]; exact hpre.freeField nb' (List.mem_cons_of_mem _ hnb')
      · intro nb' hnb'
        rw [hgetC]; exact hpre.freeSlot nb' (List.mem_cons_of_mem _ hnb')
    have hnodup1 : (((done ++ [m]).map fun m => bytesOf m.name) ++ (rest.map fun nb => bytesOf nb.1)).Nodup := by
      simpa [List.map_append, List.append_assoc] using hnodup
    obtain ⟨infos, σ', hmap, hexec, hpre', hfold, hinfos⟩ := ih (done ++ [m]) σ1 hpre1 hnodup1
      (fun nb' hnb' => hcache nb' (List.mem_cons_of_mem _ hnb'))
    have hlc : σ1.cells.length = σ.cells.length + 1 := by
      show (afterDefinition L.M name body L.locals0 L.tM σ).cells.length = _
      rw [hce]; simp
    have hlf : σ1.closures.length = σ.closures.length + 2 := by
      show (afterDefinition L.M name body L.locals0 L.tM σ).closures.length = _
      rw [hcl]; simp
    refine ⟨m :: infos, σ', by simp [hmap]; exact ⟨rfl, rfl⟩, ?_, by simpa [List.append_assoc] using hpre', ?_, ?_⟩
    rotate_left
    · rw [hfold]; rfl
    · rw [hinfos, hlc, hlf]; rfl
    simp only [List.map_cons, execSs, hex, Res.bind]
    exact hexec

theorem exec_do_block (call : CallFn N) (ρ : ExtOracle N) (k : Nat) (env env1 : Env N) (ss : List Stmt) (σ σ1 : State N)
    (h : execSs call ρ k env ss σ = .ok (.next env1) σ1) :
    execS call ρ k env (.doBlock (.mk ss none)) σ = .ok (.next env) σ1 := by
  simp [execS, execB, h, Res.bind]

/-- the layout the prelude creates when executed in state `σ` and environment `env` -/
def layoutOf (M : String) (env : Env N) (σ : State N) : Layout :=
  ⟨M, (M, σ.cells.length) :: env.locals, σ.cells.length, σ.tables.length, σ.tables.length + 1⟩

/-- **The prelude for any number of modules.** Executing the statements `apply` inserts (modules
table, then one definition per module) only adds `M` to the scope and establishes the bundle
invariant with every module defined and none loaded. -/
theorem prelude_establishes (call : CallFn N) (ρ : ExtOracle N) (k : Nat) (env : Env N) (M : String)
    (mods : List (String × Block)) (σ : State N)
    (hne : mods ≠ []) (hMv : M ≠ "v") (hMI : M ≠ implName)
    (hnodup : (mods.map fun nb => bytesOf nb.1).Nodup)
    (hcache : ∀ nb ∈ mods, bytesOf nb.1 ≠ bytesOf "cache") :
    ∃ (infos : List ModInfo) (σ' : State N),
      infos.map (fun m => (m.name, m.body)) = mods ∧
      execSs call ρ (k + 1) env (prelude M mods) σ
        = .ok (.next ⟨(M, σ.cells.length) :: env.locals, env.varargs⟩) σ' ∧
      BI (layoutOf M env σ) infos (fun _ => none) σ' ∧
      σ' = mods.foldl (fun s nb => afterDefinition M nb.1 nb.2 ((M, σ.cells.length) :: env.locals) σ.tables.length s)
        (afterTable σ) ∧
      infos = mkInfos (σ.cells.length + 1) σ.closures.length mods := by
  have hcell : (afterTable σ).getCell σ.cells.length = .tbl σ.tables.length := by
    simp [afterTable, State.getCell, State.allocCell, State.rawSet, State.setTable, State.allocTable]
  have hT : (afterTable σ).getTable σ.tables.length
      = { entries := [(strVal "cache", .tbl (σ.tables.length + 1))], mt := none } := by
    simp [afterTable, State.getTable, State.allocCell, State.rawSet, State.setTable, State.allocTable,
      listSet_get_same, rawSetEntries]
  have hTC : (afterTable σ).getTable (σ.tables.length + 1) = { entries := [], mt := none } := by
    simp [afterTable, State.getTable, State.allocCell, State.rawSet, State.setTable, State.allocTable,
      listSet_get_ne]
  have hlen : (afterTable σ).tables.length = σ.tables.length + 2 := by
    simp [afterTable, State.allocCell, State.rawSet, State.setTable, State.allocTable, listSet_length]
  have hpre : Pre (layoutOf M env σ) [] mods (afterTable σ) := by
    refine ⟨⟨hMv, hMI, by simp [layoutOf, lookupAssoc], hcell, ?_, ?_, ?_, ?_⟩, ?_, ?_, ?_, ?_, ?_⟩
    · simp [layoutOf, State.rawGet, hT, rawGetEntries, rawEq, strVal]
    · simp [layoutOf, hTC]
    · simp [layoutOf, hlen]
    · simp [layoutOf]
    · simp [layoutOf, hT]
    · intro m hm; cases hm
    · intro m hm; cases hm
    · intro nb hnb
      have hne' : ¬ "cache".toUTF8.toList = nb.1.toUTF8.toList := fun h => hcache nb hnb h.symm
      simp [layoutOf, State.rawGet, hT, rawGetEntries, rawEq, strVal]
      exact hne'
    · intro nb _
      simp [layoutOf, State.rawGet, hTC, rawGetEntries]
  obtain ⟨infos, σ', hmap, hexec, hpre', hfold, hinfos⟩ := defs_exec call ρ k (layoutOf M env σ) env.varargs mods []
    (afterTable σ) hpre (by simpa using hnodup) hcache
  have hlcT : (afterTable σ).cells.length = σ.cells.length + 1 := by
    simp [afterTable, State.allocCell, State.rawSet, State.setTable, State.allocTable]
  have hlfT : (afterTable σ).closures.length = σ.closures.length := by
    simp [afterTable, State.allocCell, State.rawSet, State.setTable, State.allocTable]
  refine ⟨infos, σ', hmap, ?_, ⟨hpre'.infra, ?_, ?_⟩, hfold, by rw [hinfos, hlcT, hlfT]⟩
  · have hdo := exec_do_block call ρ (k + 1) _ _ _ _ _ hexec
    cases mods with
    | nil => exact absurd rfl hne
    | cons nb rest =>
      simp only [prelude, execSs, exec_modulesTable, Res.bind]
      have : (List.map (fun x => match x with | (n, b) => moduleDefinition M n b) (nb :: rest))
          = (List.map (fun nb => moduleDefinition (layoutOf M env σ).M nb.1 nb.2) (nb :: rest)) := by
        apply List.map_congr_left
        intro x _; obtain ⟨n, b⟩ := x; rfl
      rw [this]
      have hdo' : execS call ρ (k + 1) ⟨(M, σ.cells.length) :: env.locals, env.varargs⟩ _ (afterTable σ) = _ := hdo
      rw [hdo']
      rfl
  · intro m hm; exact hpre'.ready m (by simpa using hm)
  · intro m hm; exact hpre'.slotsDone m (by simpa using hm)

theorem getTable_allocTable_empty (σ : State N) (t : Nat) :
    (σ.allocTable { entries := [], mt := none }).2.getTable t = σ.getTable t := by
  simp only [State.getTable, State.allocTable]
  by_cases h : t < σ.tables.length
  · rw [List.getElem?_append_left h]
  · have h1 : σ.tables[t]? = none := by simp; omega
    rw [h1, List.getElem?_append_right (by omega)]
    cases hd : t - σ.tables.length with
    | zero => simp
    | succ k => simp

/-- allocating an empty table disturbs nothing -/
theorem BI.allocTable {L : Layout} {mods : List ModInfo} {loaded : String → Option (Nat × Val N)} {σ : State N}
    (h : BI L mods loaded σ) : BI L mods loaded (σ.allocTable { entries := [], mt := none }).2 := by
  have hg : ∀ t k, (σ.allocTable { entries := [], mt := none }).2.rawGet t k = σ.rawGet t k := by
    intro t k; simp only [State.rawGet, getTable_allocTable_empty]
  have hlen : σ.tables.length < (σ.allocTable { entries := [], mt := none }).2.tables.length := by
    simp [State.allocTable]
  refine ⟨⟨h.infra.hMv, h.infra.hMI, h.infra.hM, h.infra.cellM, by rw [hg]; exact h.infra.cache,
    by rw [getTable_allocTable_empty]; exact h.infra.plainC, by have := h.infra.ltC; omega, h.infra.neC⟩, ?_, ?_⟩
  · intro m hm
    have r := h.ready m hm
    exact ⟨by rw [hg]; exact r.field, r.acc, r.cell, r.impl⟩
  · intro m hm
    have sl := h.slots m hm
    unfold SlotOk at sl ⊢
    cases hl : loaded m.name with
    | none => rw [hl] at sl; simp only; rw [hg]; exact sl
    | some p =>
      rw [hl] at sl; obtain ⟨tb, w⟩ := p
      simp only at sl ⊢
      exact ⟨by rw [hg]; exact sl.1, by rw [hg]; exact sl.2.1, by rw [getTable_allocTable_empty]; exact sl.2.2.1,
        sl.2.2.2.1, sl.2.2.2.2.1, by have := sl.2.2.2.2.2; omega⟩

/-! ### tables that must stay untouched: the boxes of accessor calls still in progress -/

/-- `ps` are table ids allocated by accessor calls that have not finished yet (their box exists,
is still empty and is not stored anywhere) -/
def Pend (L : Layout) (mods : List ModInfo) (ps : List Nat) (loaded : String → Option (Nat × Val N)) (σ : State N) : Prop :=
  ∀ t ∈ ps, t < σ.tables.length ∧ σ.getTable t = { entries := [], mt := none } ∧ t ≠ L.tC ∧ t ≠ L.tM ∧
    ∀ m ∈ mods, ∀ tb w, loaded m.name = some (tb, w) → tb ≠ t

theorem Pend.allocCell {L : Layout} {mods : List ModInfo} {ps : List Nat} {loaded : String → Option (Nat × Val N)}
    {σ : State N} (h : Pend L mods ps loaded σ) (v : Val N) : Pend L mods ps loaded (σ.allocCell v).2 := h

theorem Pend.allocTable_new {L : Layout} {mods : List ModInfo} {ps : List Nat} {loaded : String → Option (Nat × Val N)}
    {σ : State N} (h : Pend L mods ps loaded σ) (hbi : BI L mods loaded σ) :
    Pend L mods (σ.tables.length :: ps) loaded (σ.allocTable { entries := [], mt := none }).2 := by
  have hlen : (σ.allocTable { entries := [], mt := none }).2.tables.length = σ.tables.length + 1 := by
    simp [State.allocTable]
  intro t ht
  rcases List.mem_cons.mp ht with ht | ht
  · subst ht
    refine ⟨by omega, ?_, ?_, ?_, ?_⟩
    · simp [State.getTable, State.allocTable]
    · have := hbi.infra.ltC; omega
    · have := rawGet_ne_nil_lt σ L.tM _ _ hbi.infra.cache (by simp); omega
    · intro m hm tb w hl
      have sl := hbi.slots m hm
      rw [hl] at sl
      have := sl.2.2.2.2.2
      omega
  · obtain ⟨h1, h2, h3, h4, h5⟩ := h t ht
    exact ⟨by omega, by rw [getTable_allocTable_empty]; exact h2, h3, h4, h5⟩

/-- after the first call of an accessor its own box is no longer pending; the others still are -/
theorem Pend.after_miss {L : Layout} {mods : List ModInfo} {ps : List Nat} {loaded loaded' : String → Option (Nat × Val N)}
    {σ σb : State N} (name : String) (v : Val N)
    (h : Pend L mods ps loaded σ) (hb : Pend L mods (σ.tables.length :: ps) loaded' σb) :
    Pend L mods ps (updLoaded loaded' name (σ.tables.length, v))
      (afterMiss σb σ.cells.length σ.tables.length L.tC name v) := by
  have hlen : (afterMiss σb σ.cells.length σ.tables.length L.tC name v).tables.length = σb.tables.length := by
    simp [afterMiss, State.rawSet, State.setTable, State.setCell, listSet_length]
  intro t ht
  obtain ⟨h1, _, _, _, _⟩ := h t ht
  obtain ⟨b1, b2, b3, b4, b5⟩ := hb t (List.mem_cons_of_mem _ ht)
  refine ⟨by rw [hlen]; exact b1, ?_, b3, b4, ?_⟩
  · simp only [afterMiss]
    rw [getTable_rawSet_ne _ _ _ _ _ (Ne.symm b3), getTable_setCell,
      getTable_rawSet_ne _ _ _ _ _ (by omega : σ.tables.length ≠ t)]
    exact b2
  · intro m hm tb w hl
    simp only [updLoaded] at hl
    split at hl
    · cases hl; omega
    · exact b5 m hm tb w hl

end DarkluaModel.C05
