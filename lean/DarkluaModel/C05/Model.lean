import DarkluaModel.Shared.Ast
/-!
# C05 — model of the bundler (`src/rules/bundle/**`)

Two layers, both mirroring the Rust as it is:

* the **inlining walk** over the module graph (`RequirePathProcessor::{try_inline_call,
  inline_require, require_resource}` in `src/rules/bundle/path_require_mode/mod.rs` and
  `BuildModuleDefinitions::build_module_from_resource` in `module_definitions.rs`): which
  files become module definitions, in which order, which call sites are rewritten to which
  accessor, and which errors are collected (`module_cache`, `require_stack`,
  `skip_module_paths`, excludes);
* the **generated code** (`BuildModuleDefinitions::apply`): the modules table, and for every
  definition the `__modImpl` wrapper plus the caching accessor, as a fixed statement template
  over the shared AST with the module body as a parameter.

Paths are abstract (`P` with decidable equality): the bundler only ever compares resolved
paths. The graph gives, for every *resolved* path, what `require_resource` sees there, and for
each require call site (in visit order) what `try_inline_call` sees: excluded / not found /
resolved to a path. Resolution itself (`find_require_path`) is property C15's business; the
harness computes it with its own resolver and the correspondence check compares the outcome.
-/
namespace DarkluaModel.C05

/-- what `try_inline_call` learns about the literal of a require call -/
inductive Target (P : Type) where
  /-- `options.is_excluded(literal)` -/
  | excluded
  /-- `path_locator.find_require_path` fails; `q` is the normalised path that was looked for -/
  | notFound (q : P)
  /-- resolved to the file `p` (normalised: the cache key) -/
  | file (p : P)
  deriving DecidableEq, Repr

/-- a call `require(<one string literal>)` / `require "<literal>"` met by the visitor -/
structure Site (P : Type) where
  /-- a local named `require` is in scope at the call (`IdentifierTracker::is_identifier_used`).
  Since the fix of finding F8 every file — the entry and every required module — is walked with
  `ScopeVisitor`, so the flag is honoured everywhere. -/
  shadowed : Bool
  target : Target P
  deriving DecidableEq, Repr

/-- shape of the last statement of a Lua module (`build_module_from_resource`) -/
inductive RetShape where
  | one | noReturn | many
  deriving DecidableEq, Repr

/-- what `require_resource` finds at a resolved path -/
inductive Module (P : Type) where
  /-- `.lua` / `.luau` that parses: its require call sites in `DefaultVisitor` order -/
  | lua (sites : List (Site P)) (ret : RetShape)
  /-- `.json .json5 .yml .yaml .toml .txt` that transcodes to an expression -/
  | data
  /-- a Lua file that does not parse / a data file that does not deserialize -/
  | parseError
  /-- any other extension: `invalid_resource_extension` -/
  | badExtension
  deriving Repr

/-- finite module graph: association list, first entry wins -/
abbrev Graph (P : Type) := List (P × Module P)

def Graph.get {P : Type} [DecidableEq P] (G : Graph P) (p : P) : Option (Module P) :=
  match G with
  | [] => none
  | (k, m) :: rest => if k = p then some m else Graph.get rest p

inductive Err (P : Type) where
  /-- `find_require_path`: "unable to find `q` (tried …)" -/
  | notFound (q : P)
  /-- "cyclic require detected with `a` > `b` > `a`" -/
  | cyclic (paths : List P)
  /-- `resources.get` fails on a resolved path -/
  | missing (p : P)
  /-- parser error of a Lua module / deserialisation error of a data file -/
  | parse (p : P)
  | badExtension (p : P)
  /-- "module must end with a return statement" -/
  | noReturn (p : P)
  /-- "module must return exactly one value" -/
  | manyReturn (p : P)
  /-- model artefact: recursion budget exhausted (proved unreachable, `inline_total`) -/
  | fuel
  deriving DecidableEq, Repr

/-- processor state of `RequirePathProcessor` (the `require_stack` is threaded as a
parameter: the Rust pushes before and pops after the nested walk) -/
structure St (P : Type) where
  /-- `module_cache`: resolved path ↦ index of its definition (the accessor expression) -/
  cache : List (P × Nat)
  /-- `skip_module_paths` -/
  skip : List P
  /-- `module_definitions` (an `IndexMap`, insertion order): path and the decision taken at
  each of its call sites (`some i` = replaced by the accessor of definition `i`) -/
  defs : List (P × List (Option Nat))
  errors : List (Err P)
  deriving Repr

def St.empty {P : Type} : St P := ⟨[], [], [], []⟩

def lookup {P α : Type} [DecidableEq P] (p : P) : List (P × α) → Option α
  | [] => none
  | (k, v) :: rest => if k = p then some v else lookup p rest

/-- index of the first occurrence -/
def indexOf? {P : Type} [DecidableEq P] (p : P) : List P → Option Nat
  | [] => none
  | x :: xs => if x = p then some 0 else (indexOf? p xs).map (· + 1)

section walk
variable {P : Type} [DecidableEq P]

/-- `try_inline_call` (mod.rs), with `inline_require` abstracted as `inl`.
`isEntry` (historical name): the file is walked with `ScopeVisitor`, i.e. shadowing of `require`
is seen; since the fix of F8 this is `true` for the entry AND for required modules. -/
def tryInline (inl : P → St P → Except (Err P) Nat × St P) (isEntry : Bool) (s : Site P) (st : St P) :
    Option Nat × St P :=
  -- `require_call`: `is_require_call` consults the identifier tracker
  if isEntry && s.shadowed then (none, st)
  else
    match s.target with
    | .excluded => (none, st)
    | .notFound q => (none, { st with errors := st.errors ++ [.notFound q] })
    | .file p =>
      if st.skip.contains p then (none, st)
      else
        match inl p st with
        | (.ok i, st') => (some i, st')
        | (.error e, st') => (none, { st' with errors := st'.errors ++ [e], skip := p :: st'.skip })

/-- the visitor meeting the call sites of one file in order -/
def visit (inl : P → St P → Except (Err P) Nat × St P) (isEntry : Bool) :
    List (Site P) → St P → List (Option Nat) × St P
  | [], st => ([], st)
  | s :: rest, st =>
    let r := tryInline inl isEntry s st
    let rs := visit inl isEntry rest r.2
    (r.1 :: rs.1, rs.2)

/-- `inline_require` + `require_resource` + `build_module_from_resource`.
`n` bounds the nesting depth (`inline_total`: `|G| + 1` is always enough);
`stack` is `require_stack` (oldest first). -/
def inlineRequire (G : Graph P) : Nat → List P → P → St P → Except (Err P) Nat × St P
  | 0, _, _, st => (.error .fuel, st)
  | n + 1, stack, p, st =>
    match lookup p st.cache with
    | some i => (.ok i, st)
    | none =>
      match indexOf? p stack with
      | some i => (.error (.cyclic (stack.drop i ++ [p])), st)
      | none =>
        -- require_resource, with `p` pushed on the stack
        match G.get p with
        | none => (.error (.missing p), st)
        | some .parseError => (.error (.parse p), st)
        | some .badExtension => (.error (.badExtension p), st)
        | some .data =>
          -- build_module_from_resource: `return <expression>`
          (.ok st.defs.length,
            { st with defs := st.defs ++ [(p, [])], cache := (p, st.defs.length) :: st.cache })
        | some (.lua sites ret) =>
          -- `ScopeVisitor::visit_block(&mut block, self)` (was `DefaultVisitor` before the fix of F8)
          let r := visit (inlineRequire G n (stack ++ [p])) true sites st
          match ret with
          | .noReturn => (.error (.noReturn p), r.2)
          | .many => (.error (.manyReturn p), r.2)
          | .one =>
            (.ok r.2.defs.length,
              { r.2 with defs := r.2.defs ++ [(p, r.1)], cache := (p, r.2.defs.length) :: r.2.cache })

/-- result of bundling an entry file -/
structure Bundle (P : Type) where
  /-- module definitions in emission order, with their per-site decisions -/
  defs : List (P × List (Option Nat))
  /-- decisions at the entry's call sites -/
  entry : List (Option Nat)
  /-- collected errors; the bundler fails iff this is non-empty -/
  errors : List (Err P)
  deriving Repr

/-- `process_block`: walk the entry with an empty state -/
def inlineWith (G : Graph P) (fuel : Nat) (entrySites : List (Site P)) : Bundle P :=
  let r := visit (inlineRequire G fuel []) true entrySites St.empty
  ⟨r.2.defs, r.1, r.2.errors⟩

def inlineAll (G : Graph P) (entrySites : List (Site P)) : Bundle P :=
  inlineWith G (G.length + 1) entrySites

/-- `RequirePathProcessor::apply`: an error iff any was collected -/
def inline (G : Graph P) (entrySites : List (Site P)) : Except (List (Err P)) (Bundle P) :=
  let b := inlineAll G entrySites
  if b.errors.isEmpty then .ok b else .error b.errors

end walk

/-! ### module names (`generate_module_name`, `process/utils`: `Permutator`, `is_valid_identifier`) -/

def alphabet : List Char := "abcdefghijklmnopqrstuvwxyzABCDEFGHIJKLMNOPQRSTUVWXYZ_0123456789".toList

/-- the `i`-th string (0-based) produced by `Permutator` over `alphabet`: shortlex order -/
def permAux : Nat → Nat → List Char → List Char
  | 0, _, acc => acc
  | fuel + 1, i, acc =>
    let c := alphabet.getD (i % 63) 'a'
    if i < 63 then c :: acc else permAux fuel (i / 63 - 1) (c :: acc)

def permutation (i : Nat) : String := String.ofList (permAux (i + 1) i [])

def keywords : List String :=
  ["and", "break", "do", "else", "elseif", "end", "false", "for", "function", "if", "in", "local",
   "nil", "not", "or", "repeat", "return", "then", "true", "until", "while"]

/-- `is_valid_identifier` restricted to strings over `alphabet` -/
def isValidIdentifier (s : String) : Bool :=
  match s.toList with
  | [] => false
  | c :: _ => !c.isDigit && !keywords.contains s

/-- next accepted name at or after raw permutator index `i`: (name, next raw index) -/
def nextNameAux : Nat → Nat → String × Nat
  | 0, i => ("?", i)
  | fuel + 1, i =>
    let s := permutation i
    if isValidIdentifier s && s != "cache" then (s, i + 1) else nextNameAux fuel (i + 1)

def nextName (i : Nat) : String × Nat := nextNameAux (11 * (i + 64)) i

/-- names of the first `k` module definitions -/
def moduleNamesAux : Nat → Nat → List String
  | 0, _ => []
  | k + 1, i => let r := nextName i; r.1 :: moduleNamesAux k r.2

def moduleNames (k : Nat) : List String := moduleNamesAux k 0

/-! ### generated code (`BuildModuleDefinitions::apply`, `build_module_from_resource`) -/

/-- the call that replaces a require: `<M>.<name>()` -/
def accessorCall (M name : String) : Expr := .call (.field (.var M) name) none .tuple []

def implName : String := "__modImpl"

/-- body of the accessor function:
```lua
local v = M.cache.<name>
if not v then v = { c = __modImpl() }  M.cache.<name> = v end
return v.c
``` -/
def cachedBlock (M name : String) : Block :=
  .mk
    [ .localAssign .loc [.mk "v" none] [.field (.field (.var M) "cache") name],
      .ifs [(.un .not (.var "v"),
             .mk [ .assign [.var "v"] [.table [.named "c" (.call (.var implName) none .tuple [])]],
                   .assign [.field (.field (.var M) "cache") name] [.var "v"] ] none)] none ]
    (some (.ret [.field (.var "v") "c"]))

/-- one module definition:
```lua
do
  local function __modImpl() <body> end
  function M.<name>(): typeof(__modImpl()) <cachedBlock> end
end
``` -/
def moduleDefinition (M name : String) (body : Block) : Stmt :=
  .doBlock (.mk
    [ .localFn .loc implName (.mk [] false none none [] [] body),
      .function [M, name] none
        (.mk [] false none (some (.typeof (.call (.var implName) none .tuple []))) [] [] (cachedBlock M name)) ]
    none)

/-- `local M = { cache = {} :: any }` -/
def modulesTable (M : String) : Stmt :=
  .localAssign .loc [.mk M none] [.table [.named "cache" (.cast (.table []) (.mk "name:any" []))]]

/-- the statements `apply` inserts in front of the entry block (nothing when there is no module) -/
def prelude (M : String) (mods : List (String × Block)) : List Stmt :=
  match mods with
  | [] => []
  | _ => [modulesTable M, .doBlock (.mk (mods.map fun (n, b) => moduleDefinition M n b) none)]

/-- the bundled chunk -/
def assemble (M : String) (mods : List (String × Block)) (entry : Block) : Block :=
  match entry with
  | .mk stmts last => .mk (prelude M mods ++ stmts) last

end DarkluaModel.C05
