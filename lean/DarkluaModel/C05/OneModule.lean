import DarkluaModel.C05.Unrequired
/-!
C05: the `Sem.HeapU` context for a bundle with ONE module `a`: watched locals `M` (left) and
`__ref_require` (right), the heap invariant on the private objects of both preludes and the coupling of
the two caches. Ids are absolute: both programs start from `initState` (0 cells, 3 tables, 0 closures).
-/
namespace DarkluaModel.C05
open Sem Sem.HeapU
variable {N : NumOps}

def envLI (M : String) : List (String × Nat) := [(implName, 1), (M, 0)]
def envR3 : List (String × Nat) := [("__ref_require", 2), ("__ref_modules", 1), ("__ref_loaded", 0)]

theorem VRel.monoExt {β β' : Inj N} (h : β.ext β') {v v' : Val N} (hv : VRel β v v') : VRel β' v v' := by
  cases v <;> cases v' <;> simp only [VRel] at hv ⊢ <;> first | exact hv | exact h.t _ _ hv | exact h.f _ _ hv

/-- the bundle's private objects -/
structure LFacts (M a : String) (BL : Block) (β : Inj N) (σ : State N) : Prop where
  c0 : σ.cells[0]? = some (.tbl 3)
  c1 : σ.cells[1]? = some (.fn 0)
  tM : σ.tables[3]? = some ⟨[(strVal "cache", .tbl 4), (strVal a, .fn 1)], none⟩
  f0 : σ.closures[0]? = some (implClosure BL (envLI M))
  f1 : σ.closures[1]? = some (accClosure M a (envLI M))
  pc : 2 ≤ β.cL ∧ (∀ b, ¬ β.c 0 b) ∧ (∀ b, ¬ β.c 1 b)
  pt : 5 ≤ β.tL ∧ (∀ b, ¬ β.t 3 b) ∧ (∀ b, ¬ β.t 4 b)
  /-- the cache table is not content-pinned (the accessor writes it) -/
  np : ∀ p ∈ β.pinTL, p.1 ≠ 4
  /-- the wrapper of the module body (left closure 0) and the module function of the reference program (right
  closure 1) are RELATED closures: their bodies are related by the closure-body relation of the state relation, so
  the call-site leaf can call them through the call handler without knowing anything about the bodies -/
  fr : β.f 0 1

/-- the reference program's private objects -/
structure RFacts (a : String) (BR : Block) (β : Inj N) (σ' : State N) : Prop where
  c0 : σ'.cells[0]? = some (.tbl 3)
  c1 : σ'.cells[1]? = some (.tbl 4)
  c2 : σ'.cells[2]? = some (.fn 0)
  tMods : σ'.tables[4]? = some ⟨[(strVal a, .fn 1)], none⟩
  f0 : σ'.closures[0]? = some ⟨refRequireFn, envR3, []⟩
  f1 : σ'.closures[1]? = some ⟨.mk [] false none none [] [] BR, envR3, []⟩
  pc : 3 ≤ β.cR ∧ (∀ x, ¬ β.c x 0) ∧ (∀ x, ¬ β.c x 1) ∧ (∀ x, ¬ β.c x 2)
  pt : 5 ≤ β.tR ∧ (∀ x, ¬ β.t x 3) ∧ (∀ x, ¬ β.t x 4)
  /-- `__ref_loaded` is not content-pinned (`__ref_require` writes it) -/
  np : ∀ p ∈ β.pinTR, p.1 ≠ 3

/-- the two caches: both empty, or both hold a (private) box for `a` with related values -/
def Coupled (a : String) (β : Inj N) (σ σ' : State N) : Prop :=
  (σ.tables[4]? = some ⟨[], none⟩ ∧ σ'.tables[3]? = some ⟨[], none⟩) ∨
  ∃ (tb tb' : Nat) (v v' : Val N),
    σ.tables[4]? = some ⟨[(strVal a, .tbl tb)], none⟩ ∧
    σ.tables[tb]? = some ⟨rawSetEntries (strVal "c") v [], none⟩ ∧ tb < β.tL ∧ (∀ b, ¬ β.t tb b) ∧
    σ'.tables[3]? = some ⟨[(strVal a, .tbl tb')], none⟩ ∧
    σ'.tables[tb']? = some ⟨rawSetEntries (strVal "value") v' [], none⟩ ∧ tb' < β.tR ∧ (∀ x, ¬ β.t x tb') ∧
    VRel β v v'

theorem lfacts_stable {M a : String} {BL : Block} {β β' : Inj N} {σ σ' s s' : State N} (he : β.ext β')
    (hp : ∀ p ∈ β'.pinTL, p.1 ≠ 4) (hf : Frame β σ σ' s s') (h : LFacts M a BL β σ) : LFacts M a BL β' s := by
  obtain ⟨c0, c1, tM, f0, f1, ⟨pc1, pc2, pc3⟩, ⟨pt1, pt2, pt3⟩, np, fr⟩ := h
  have unC : ∀ x, x < 2 → (∀ b, ¬ β.c x b) → ∀ b, ¬ β'.c x b := fun x hx hu b hb => by
    rcases he.freshC x b hb with h | h
    · exact hu b h
    · omega
  have unT : ∀ x, x < 5 → (∀ b, ¬ β.t x b) → ∀ b, ¬ β'.t x b := fun x hx hu b hb => by
    rcases he.freshT x b hb with h | h
    · exact hu b h
    · omega
  exact ⟨hf.cL 0 _ (by omega) pc2 c0, hf.cL 1 _ (by omega) pc3 c1, hf.tL 3 _ (by omega) pt2 tM, hf.fL 0 _ f0, hf.fL 1 _ f1,
    ⟨by have := he.front.1; omega, unC 0 (by omega) pc2, unC 1 (by omega) pc3⟩,
    ⟨by have := he.front.2.2.1; omega, unT 3 (by omega) pt2, unT 4 (by omega) pt3⟩, hp, he.f _ _ fr⟩

theorem rfacts_stable {a : String} {BR : Block} {β β' : Inj N} {σ σ' s s' : State N} (he : β.ext β')
    (hp : ∀ p ∈ β'.pinTR, p.1 ≠ 3) (hf : Frame β σ σ' s s') (h : RFacts a BR β σ') : RFacts a BR β' s' := by
  obtain ⟨c0, c1, c2, tMods, f0, f1, ⟨pc1, pc2, pc3, pc4⟩, ⟨pt1, pt2, pt3⟩, np⟩ := h
  have unC : ∀ y, y < 3 → (∀ x, ¬ β.c x y) → ∀ x, ¬ β'.c x y := fun y hy hu x hb => by
    rcases he.freshC x y hb with h | h
    · exact hu x h
    · omega
  have unT : ∀ y, y < 5 → (∀ x, ¬ β.t x y) → ∀ x, ¬ β'.t x y := fun y hy hu x hb => by
    rcases he.freshT x y hb with h | h
    · exact hu x h
    · omega
  exact ⟨hf.cR 0 _ (by omega) pc2 c0, hf.cR 1 _ (by omega) pc3 c1, hf.cR 2 _ (by omega) pc4 c2, hf.tR 4 _ (by omega) pt3 tMods,
    hf.fR 0 _ f0, hf.fR 1 _ f1,
    ⟨by have := he.front.2.1; omega, unC 0 (by omega) pc2, unC 1 (by omega) pc3, unC 2 (by omega) pc4⟩,
    ⟨by have := he.front.2.2.2.1; omega, unT 3 (by omega) pt2, unT 4 (by omega) pt3⟩, hp⟩

theorem coupled_stable {a : String} {β β' : Inj N} {σ σ' s s' : State N} (he : β.ext β')
    (hf : Frame β σ σ' s s') (hl : 5 ≤ β.tL ∧ ∀ b, ¬ β.t 4 b) (hr : 5 ≤ β.tR ∧ ∀ x, ¬ β.t x 3)
    (h : Coupled a β σ σ') : Coupled a β' s s' := by
  rcases h with ⟨h1, h2⟩ | ⟨tb, tb', v, v', h1, h2, h3, h4, h5, h6, h7, h8, h9⟩
  · exact .inl ⟨hf.tL 4 _ (by omega) hl.2 h1, hf.tR 3 _ (by omega) hr.2 h2⟩
  · refine .inr ⟨tb, tb', v, v', hf.tL 4 _ (by omega) hl.2 h1, hf.tL tb _ h3 h4 h2, by have := he.front.2.2.1; omega, ?_,
      hf.tR 3 _ (by omega) hr.2 h5, hf.tR tb' _ h7 h8 h6, by have := he.front.2.2.2.1; omega, ?_, VRel.monoExt he h9⟩
    · intro b hb
      rcases he.freshT tb b hb with h | h
      · exact h4 b h
      · omega
    · intro x hb
      rcases he.freshT x tb' hb with h | h
      · exact h8 x h
      · omega

/-- the invariant survives every step that keeps the private objects and does not pin the two caches -/
theorem inv_mono {M a : String} {BL BR : Block} {β β' : Inj N} {σ σ' s s' : State N} (he : β.ext β')
    (hf : Frame β σ σ' s s') (hL : ∀ p ∈ β'.pinTL, p.1 ≠ 4) (hR : ∀ p ∈ β'.pinTR, p.1 ≠ 3)
    (hI : LFacts M a BL β σ ∧ RFacts a BR β σ' ∧ Coupled a β σ σ') :
    LFacts M a BL β' s ∧ RFacts a BR β' s' ∧ Coupled a β' s s' :=
  ⟨lfacts_stable he hL hf hI.1, rfacts_stable he hR hf hI.2.1,
    coupled_stable he hf ⟨hI.1.pt.1, hI.1.pt.2.2⟩ ⟨hI.2.1.pt.1, hI.2.1.pt.2.1⟩ hI.2.2⟩

/-- the context of the one-module bundle -/
def bcx (M a : String) (BL BR : Block) : Cx where
  W := [M, "__ref_require"]
  bindL := [(M, 0)]
  bindR := [("__ref_require", 2)]
  CF := fun _ ρ k call => call = callClosure ρ k
  I := fun _ β σ σ' => LFacts M a BL β σ ∧ RFacts a BR β σ' ∧ Coupled a β σ σ'
  stable := fun _ β β' σ σ' s s' he hp hf hI =>
    inv_mono he hf (by rw [hp.1]; exact hI.1.np) (by rw [hp.2.2.1]; exact hI.2.1.np) hI

/-- dead names in every related piece of code -/
def D1 (M : String) : List DName :=
  [.wat M, .ref M, .wat "__ref_require", .ref "__ref_require", .ref implName, .ref "__ref_loaded", .ref "__ref_modules"]

/-! ### the invariant holds right after the two preludes -/

def postL (M a : String) (BL : Block) (externs : List String) : State N :=
  afterDefinition M a BL [(M, 0)] 3 (afterTable (initState externs))

def postR (a : String) (BR : Block) (externs : List String) : State N :=
  afterRefPrelude1 refRequireFn (a, BR) (initState externs)

theorem init_sizes (externs : List String) : (initState externs : State N).cells = [] ∧
    (initState externs : State N).tables.length = 3 ∧ (initState externs : State N).closures = [] := by
  simp [initState]

/-- the injection right after the two preludes: nothing new is related but the two module functions -/
def startRel (σ σ' : State N) : Inj N := { (initRel (N := N)).bump σ σ' with f := fun a b => a = 0 ∧ b = 1 }

theorem establish_I (M a : String) (BL BR : Block) (externs : List String)
    (hac : bytesOf "cache" ≠ bytesOf a) :
    (bcx M a BL BR).I N (startRel (postL M a BL externs) (postR a BR externs))
      (postL M a BL externs) (postR a BR externs) := by
  have hne : ¬ "cache".toByteArray.toList = a.toByteArray.toList := by
    simpa [bytesOf] using hac
  refine ⟨⟨?_, ?_, ?_, ?_, ?_, ?_, ?_, ?_, ?_⟩, ⟨?_, ?_, ?_, ?_, ?_, ?_, ?_, ?_, ?_⟩, .inl ⟨?_, ?_⟩⟩
  all_goals
    simp [startRel, postL, postR, afterDefinition, afterTable, afterRefPrelude1, afterRefLa, State.allocCell, State.allocTable,
      State.allocClosure, State.setCell, State.rawSet, State.setTable, State.getTable, initState, Inj.bump, initRel,
      Heap.getElem?_listSet, listSet, rawSetEntries, rawEq, strVal, strToBytes, hne, implClosure, accClosure, envLI, envR3]

/-- enter a context from a state pair with NO related closures, relating a given set `F` of closure pairs
(`SRel.rebase` relates none): the consumer shows that the pairs are `CRel`-related in the new context -/
theorem srel_rebaseF {Q Q' : QRel} {cx cx' : Cx} {β : Inj N} {σ σ' : State N} (h : SRel Q cx β σ σ')
    (hf : ∀ a b, ¬ β.f a b) (hpin : β.pinF = []) (hpinR : β.pinFR = []) (F : Nat → Nat → Prop) (hinj : Injective F)
    (hclo : ∀ {a b}, F a b → ∃ c c', σ.closures[a]? = some c ∧ σ'.closures[b]? = some c' ∧
      CRel Q' cx' { β with f := F } c c')
    (hI : cx'.I N { β with f := F } σ σ')
    (hG : ∀ p ∈ cx'.G N, σ.getGlobal p.1 = p.2 ∧ σ'.getGlobal p.1 = p.2 := by intro _ h; cases h)
    (hF : ∀ p ∈ cx'.F, FnGlobal σ p.1 p.2 ∧ FnGlobal σ' p.1 p.2 := by intro _ h; cases h) :
    SRel Q' cx' { β with f := F } σ σ' := by
  have hle : ∀ {v v' : Val N}, VRel β v v' → VRel { β with f := F } v v' := by
    intro v v' hv
    cases v <;> cases v' <;> simp only [VRel] at hv ⊢ <;> first | exact hv | exact absurd hv (hf _ _)
  have hleT : ∀ {t t' : Table N}, TRel β t t' → TRel { β with f := F } t t' := fun ht =>
    ⟨Forall2.imp (fun _ _ he => ⟨hle he.1, hle he.2⟩) ht.entries, ht.mt⟩
  exact {
    globals := Forall2.imp (fun _ _ hp => ⟨hp.1, hle hp.2⟩) h.globals
    trace := h.trace
    injC := h.injC
    injT := h.injT
    injF := hinj
    cell := fun hab => let ⟨v, v', h1, h2, hv⟩ := h.cell hab; ⟨v, v', h1, h2, hle hv⟩
    tbl := fun hab => let ⟨v, v', h1, h2, hv⟩ := h.tbl hab; ⟨v, v', h1, h2, hleT hv⟩
    clo := hclo
    strlib := h.strlib
    ginv := hG
    finv := hF
    front := ⟨h.front.cL, h.front.cR, h.front.tL, h.front.tR, h.front.fL, h.front.fR⟩
    pin := fun p hp => by rw [show ({ β with f := F } : Inj N).pinF = β.pinF from rfl, hpin] at hp; cases hp
    pinR := fun p hp => by rw [show ({ β with f := F } : Inj N).pinFR = β.pinFR from rfl, hpinR] at hp; cases hp
    pinT := h.pinT
    pinC := h.pinC
    pinTl := h.pinTl
    pinCl := h.pinCl
    inv := hI }

theorem postL_ext (M a : String) (BL : Block) (externs : List String) :
    StExt (initState externs : State N) (postL M a BL externs) :=
  afterDefinition_ext M a BL _ 3 (afterTable_ext _) (by simp [initState])

theorem postR_ext (a : String) (BR : Block) (externs : List String) :
    StExt (initState externs : State N) (postR a BR externs) := by
  have hA : StExt (initState externs : State N) (afterRefLa (initState externs)) := by
    unfold afterRefLa
    exact ((StExt.allocTable _ _).trans (StExt.allocTable _ _)).trans ((StExt.allocCell _ _).trans (StExt.allocCell _ _))
  simp only [postR, afterRefPrelude1]
  refine StExt.rawSet (StExt.trans ?_ (StExt.allocClosure _ _)) (by simp [initState]) _ _
  refine StExt.setNewCell (hA.trans ((StExt.allocCell _ .nil).trans (StExt.allocClosure _ _))) (by simp [initState]) _

end DarkluaModel.C05
