import DarkluaModel.C05.Lemmas
import DarkluaModel.C05.Graph
import DarkluaModel.C05.Dag
import DarkluaModel.C05.Complete
import DarkluaModel.C05.Compose
import DarkluaModel.Shared.VisitorSoundHeapV
import DarkluaModel.C05.Unrequired
import DarkluaModel.C05.OneModule
import DarkluaModel.C05.Leaf
import DarkluaModel.C05.Multi
/-!
# C05 — a bundle behaves like the program with its modules required normally: property theorems

Models: `C05/Model.lean` (`inlineAll`, `assemble`, `moduleDefinition`, `cachedBlock` — the defs the
driver executes and the harness compares with the real bundler on every run).
Reference semantics: `Shared/Sem.lean`, `Shared/Run.lean`; every statement is for all number
systems `N`, all external-call oracles `ρ`, all levels.
-/
namespace DarkluaModel.C05
open Sem

variable {N : NumOps}

theorem callClosure_noparams (ρ : ExtOracle N) (n : Nat) (vt rt : Option Ty) (g a : List String) (body : Block)
    (locals : List (String × Nat)) (va args : List (Val N)) (σ : State N) :
    callClosure ρ (n + 1) ⟨.mk [] false vt rt g a body, locals, va⟩ args σ =
      match execB (callClosure ρ n) ρ n ⟨locals, []⟩ body σ with
      | .ok (.ret vs) σ2 => .ok vs σ2
      | .ok _ σ2 => .ok [] σ2
      | .err v σ2 => .err v σ2
      | .timeout => .timeout := by
  rfl

/-! ## The generated accessor memoises (`BuildModuleDefinitions::apply`) -/

/-- **Later calls**: once the box exists, a call of the accessor (any arguments, any level ≥ 2)
returns exactly the boxed value `w` — `nil` and `false` included — allocates one cell for `v`
and does nothing else: no closure is called, the trace is unchanged. -/
theorem accessor_cached (ρ : ExtOracle N) (m : Nat) (M name : String) (locals : List (String × Nat))
    (cM tM tC tb : Nat) (w : Val N) (args : List (Val N)) (σ : State N)
    (h : Boxed locals M name cM tM tC tb w σ) :
    callClosure ρ (m + 2) (accClosure M name locals) args σ = .ok [w] (σ.allocCell (.tbl tb)).2 ∧
    (σ.allocCell (.tbl tb)).2.trace = σ.trace := by
  refine ⟨?_, rfl⟩
  have := cached_hit (callClosure ρ (m + 1)) ρ m M name ⟨locals, []⟩ cM tM tC tb w σ h.hM h.cellM h.cache h.box
    h.content (Or.inr h.plain)
  simp only [accClosure, accFn]
  rw [callClosure_noparams, this]

/-- **`accessor_memoises`**. Let the accessor of module `name` be called in a state `σ` where the
slot `M.cache.<name>` is still empty, `__modImpl` is the wrapper closure of the module body `B`,
and let the run of that wrapper (in the state the accessor calls it in) return `vs` in state `σb`
without disturbing the bundle's own cells and tables (the frame hypotheses). Then

* the first call runs the body exactly once — its result state is `σb` plus the box — and returns
  the body's first value `first vs` (so a module returning `nil` or `false` is still cached: the
  box `{c = …}` is what is tested, not the value);
* the trace after the call is the trace of that single run;
* in the resulting state, and in every later state that keeps the box, every further call
  returns the same value, runs nothing and leaves the trace unchanged. -/
theorem accessor_memoises (ρ : ExtOracle N) (n : Nat) (M name : String) (locals : List (String × Nat))
    (B : Block) (localsI : List (String × Nat))
    (cM tM tC cI fid : Nat) (vs : List (Val N)) (args : List (Val N)) (σ σb : State N)
    (hMv : M ≠ "v")
    (hM : lookupAssoc M locals = some cM)
    (hI : lookupAssoc implName locals = some cI)
    (hcell : σ.getCell cM = .tbl tM)
    (hcache : σ.rawGet tM (strVal "cache") = .tbl tC)
    (hempty : σ.rawGet tC (strVal name) = .nil)
    (hmt : (σ.getTable tC).mt = none)
    (htC : tC < σ.tables.length)
    (hne : tC ≠ tM)
    (hcellI : σ.getCell cI = .fn fid)
    (hclo : σ.closures[fid]? = some (implClosure B localsI))
    -- the single run of the module body
    (hrun : callClosure ρ (n + 1) (implClosure B localsI) []
        ((σ.allocCell .nil).2.allocTable { entries := [], mt := none }).2 = .ok vs σb)
    -- frame: the body's run keeps the bundle's infrastructure
    (fcells : σ.cells.length < σb.cells.length)
    (ftables : σ.tables.length < σb.tables.length)
    (fboxT : σb.getTable σ.tables.length = { entries := [], mt := none })
    (fM : σb.getCell cM = .tbl tM)
    (fcache : σb.rawGet tM (strVal "cache") = .tbl tC)
    (fslot : σb.rawGet tC (strVal name) = .nil)
    (fmt : (σb.getTable tC).mt = none) :
    ∃ σ' : State N,
      callClosure ρ (n + 2) (accClosure M name locals) args σ = .ok [first vs] σ' ∧
      σ'.trace = σb.trace ∧
      Boxed locals M name cM tM tC σ.tables.length (first vs) σ' ∧
      ∀ (m : Nat) (args' : List (Val N)) (σ'' : State N),
        Boxed locals M name cM tM tC σ.tables.length (first vs) σ'' →
        callClosure ρ (m + 2) (accClosure M name locals) args' σ''
            = .ok [first vs] (σ''.allocCell (.tbl σ.tables.length)).2 ∧
          (σ''.allocCell (.tbl σ.tables.length)).2.trace = σ''.trace := by
  refine ⟨afterMiss σb σ.cells.length σ.tables.length tC name (first vs), ?_, ?_, ?_, ?_⟩
  · have := cached_miss (callClosure ρ (n + 1)) ρ n M name ⟨locals, []⟩ cM tM tC cI fid (implClosure B localsI) vs σ σb
      hMv hM hI hcell hcache hempty hmt hcellI hclo hrun fcells ftables fboxT fM fcache fslot fmt htC
    simp only [accClosure, accFn]
    rw [callClosure_noparams, this]
  · rfl
  · have hb := afterMiss_box σb σ.cells.length σ.tables.length tC name (first vs) ftables (by omega) (by omega) fboxT
    have hcMne : σ.cells.length ≠ cM := by
      intro h; rw [← h] at hcell; simp [State.getCell] at hcell
    have htM : tM < σ.tables.length := rawGet_ne_nil_lt σ tM _ _ hcache (by simp)
    refine ⟨hM, ?_, ?_, hb.1, hb.2.1, hb.2.2.1⟩
    · simp only [afterMiss, getCell_rawSet]
      rw [getCell_setCell_ne _ _ _ _ hcMne]
      simpa using fM
    · simp only [afterMiss]
      rw [rawGet_rawSet_ne_table _ _ _ _ _ _ hne, rawGet_setCell,
        rawGet_rawSet_ne_table _ _ _ _ _ _ (by omega : σ.tables.length ≠ tM)]
      exact fcache
  · intro m args' σ'' h
    exact accessor_cached ρ m M name locals cM tM tC σ.tables.length (first vs) args' σ'' h

/-- a small concrete number system for the non-vacuity examples -/
def natOps : NumOps where
  F := Nat
  ofBits := fun b => b.toNat
  toBits := fun n => UInt64.ofNat n
  add := (· + ·)
  sub := (· - ·)
  mul := (· * ·)
  div := (· / ·)
  mod := (· % ·)
  pow := (· ^ ·)
  idiv := (· / ·)
  neg := id
  lt := fun a b => decide (a < b)
  le := fun a b => decide (a ≤ b)
  eq := fun a b => decide (a = b)
  isNaN := fun _ => false
  ofNat := id
  toNat? := some
  toStr := fun _ => []
  ofStr := fun _ => none
  floor := id
  sqrt := id

def exBody : Block := .mk [] (some (.ret [.false]))
def exLocals : List (String × Nat) := [(implName, 1), ("M", 0)]
def exState : State natOps :=
  { globals := [], trace := [],
    cells := [.tbl 0, .fn 0],
    tables := [{ entries := [(strVal "cache", .tbl 1)], mt := none }, { entries := [], mt := none }],
    closures := [implClosure exBody exLocals] }
def exAfter : State natOps :=
  ((exState.allocCell .nil).2.allocTable { entries := [], mt := none }).2

-- non-vacuity of `accessor_memoises`: a module whose body is `return false`
example (ρ : ExtOracle natOps) :
    ∃ σ', callClosure ρ 2 (accClosure "M" "a" exLocals) [] exState = .ok [.bool false] σ' ∧ σ'.trace = [] := by
  have h := accessor_memoises ρ 0 "M" "a" exLocals exBody exLocals 0 0 1 1 0 [.bool false] [] exState exAfter
    (by decide) (by simp [exLocals, lookupAssoc, implName]) (by simp [exLocals, lookupAssoc])
    (by simp [exState, State.getCell]) (by simp [exState, State.rawGet, State.getTable, rawGetEntries, rawEq, strVal])
    (by simp [exState, State.rawGet, State.getTable, rawGetEntries]) (by simp [exState, State.getTable])
    (by simp [exState]) (by decide)
    (by simp [exState, State.getCell]) (by simp [exState])
    (by simp [callClosure, implClosure, implFn, exBody, execB, execSs, execLast, evalEs, evalE, Res.bind, bindLocals,
      exAfter])
    (by simp [exAfter, exState, State.allocCell, State.allocTable])
    (by simp [exAfter, exState, State.allocCell, State.allocTable])
    (by simp [exAfter, exState, State.allocCell, State.allocTable, State.getTable])
    (by simp [exAfter, exState, State.allocCell, State.allocTable, State.getCell])
    (by simp [exAfter, exState, State.allocCell, State.allocTable, State.rawGet, State.getTable, rawGetEntries, rawEq, strVal])
    (by simp [exAfter, exState, State.allocCell, State.allocTable, State.rawGet, State.getTable, rawGetEntries])
    (by simp [exAfter, exState, State.allocCell, State.allocTable, State.getTable])
  obtain ⟨σ', h1, h2, _⟩ := h
  exact ⟨σ', by simpa [first] using h1, by rw [h2]; simp [exAfter, exState, State.allocCell, State.allocTable]⟩


/-- **Module locals stay inside.** Executing one generated module definition
`do local function __modImpl() B end  function M.<name>() … end end` in an environment where `M`
is the modules table leaves the environment exactly as it was: neither `__modImpl` nor any local
of the module body `B` is in scope for the statements that follow (the body's locals only ever
live in the environment of a call of `__modImpl`); the only visible change is the new field
`M.<name>`. -/
theorem definition_scoped (call : CallFn N) (ρ : ExtOracle N) (k : Nat) (env : Env N) (M name : String)
    (B : Block) (cM tM : Nat) (σ : State N)
    (hMI : M ≠ implName)
    (hM : lookupAssoc M env.locals = some cM)
    (hcell : σ.getCell cM = .tbl tM)
    (hslot : σ.rawGet tM (strVal name) = .nil)
    (hmt : (σ.getTable tM).mt = none) :
    execS call ρ (k + 1) env (moduleDefinition M name B) σ
      = .ok (.next env) (afterDefinition M name B env.locals tM σ) :=
  exec_moduleDefinition call ρ k env M name B cM tM σ hMI hM hcell hslot hmt

-- non-vacuity of `definition_scoped`
example (call : CallFn natOps) (ρ : ExtOracle natOps) :
    ∃ σ', execS call ρ 1 ⟨[("M", 0)], []⟩ (moduleDefinition "M" "a" exBody)
      ({ globals := [], trace := [], cells := [.tbl 0], tables := [{ entries := [], mt := none }], closures := [] } : State natOps)
      = .ok (.next ⟨[("M", 0)], []⟩) σ' :=
  ⟨_, definition_scoped call ρ 0 ⟨[("M", 0)], []⟩ "M" "a" exBody 0 0 _ (by decide) (by simp [lookupAssoc])
    (by simp [State.getCell]) (by simp [State.rawGet, State.getTable, rawGetEntries]) (by simp [State.getTable])⟩

/-! ## Composition: the bundle versus the program with a textbook `require` -/

/-- a source file with its inlinable require calls abstracted: `src call` is the block in which the
module with definition index `k` is obtained through the expression `call k` -/
abbrev Src := (Nat → Expr) → Block

def nameAt (names : List String) (k : Nat) : String := names.getD k "?"

/-- the bundle darklua emits for modules `mods` (name, source; definition order) and an entry -/
def bundleProgram (M : String) (mods : List (String × Src)) (entry : Src) : Block :=
  let names := mods.map (·.1)
  let call := fun k => accessorCall M (nameAt names k)
  assemble M (mods.map fun (n, src) => (n, src call)) (entry call)

/- the same sources run with a textbook `require`: a `package.loaded`-style cache keyed by the
module's name, each body wrapped in a function that runs on first use, its first value cached
in a box (so `nil`/`false` count as loaded):
```lua
local __ref_loaded, __ref_modules = {}, {}
local function __ref_require(name)
  local box = __ref_loaded[name]
  if box == nil then box = { value = (__ref_modules[name]()) } __ref_loaded[name] = box end
  return box.value
end
__ref_modules["<name>"] = function() <body> end …
<entry>
``` -/
/-- the reference program around already rewritten module bodies and entry -/
def referenceBlocks (mods : List (String × Block)) (entry : Block) : Block :=
  match entry with
  | .mk stmts last =>
    .mk
      ([ .localAssign .loc [.mk "__ref_loaded" none, .mk "__ref_modules" none] [.table [], .table []],
         .localFn .loc "__ref_require" refRequireFn ] ++
       (mods.map fun (n, body) =>
         .assign [.index (.var "__ref_modules") (.str (strToBytes n))] [.fn (.mk [] false none none [] [] body)]) ++
       stmts)
      last

def referenceProgram (mods : List (String × Src)) (entry : Src) : Block :=
  let names := mods.map (·.1)
  let call := fun k => refCall (nameAt names k)
  referenceBlocks (mods.map fun (n, src) => (n, src call)) (entry call)

/-! ### first formulation (sources as Lean functions) — ill-posed -/

/-- The first formulation of `bundle_refines`, with sources as arbitrary Lean functions
`(Nat → Expr) → Block`. It is FALSE, but not because of the code: a Lean function can inspect the
call expression it is handed (an *exotic* term, not a source file), see `bundle_refines_hoas_full_false`.
Superseded by `bundle_refines_full` below, whose sources are syntax. -/
def bundle_refines_hoas_full : Prop :=
  ∀ (N : NumOps) (ρ : ExtOracle N) (externs : List String) (M : String) (mods : List (String × Src)) (entry : Src)
    (n : Nat) (vs : List CVal) (tr : List Event),
    (mods.map (·.1)).Nodup → "cache" ∉ mods.map (·.1) →
    runProgram ρ n externs (referenceProgram mods entry) = .returned vs tr →
    ∃ m, runProgram ρ m externs (bundleProgram M mods entry) = .returned vs tr

/-- an exotic "source": it returns `true` or `false` depending on the SHAPE of the call expression -/
def exoticEntry : Src := fun call =>
  match call 0 with
  | .call (.var _) _ _ _ => .mk [] (some (.ret [.true]))
  | _ => .mk [] (some (.ret [.false]))

theorem bundle_refines_hoas_full_false : ¬ bundle_refines_hoas_full := by
  intro h
  obtain ⟨m, hm⟩ := h natOps (fun _ _ _ => []) [] "M" [] exoticEntry 1 [.bool true] [] (by simp) (by simp) rfl
  have hb : runProgram (N := natOps) (fun _ _ _ => []) m [] (bundleProgram "M" [] exoticEntry)
      = .returned [.bool false] [] := rfl
  rw [hb] at hm
  cases hm

/-! ### the statement over syntactic sources -/

/-- what is bundled: module SOURCES (syntax, with their `require("…")` calls) under their accessor
names, the entry source, and which module a require literal designates (`none`: left alone) -/
structure BundleInput where
  M : String
  mods : List (String × Block)
  entry : Block
  res : List UInt8 → Option String

def BundleInput.names (I : BundleInput) : List String := I.mods.map (·.1)

/-- The bundler's rewriting of a node (`try_inline_call` through `process_expression`,
`process_prefix_expression`, `process_statement`): a call of `require` with one string literal that the
resolution designates becomes the accessor call `M.<n>()` — on the reference side `__ref_require("<n>")`.
A `Sem.HeapU.Matcher`: both programs are images of ONE source under two substitutions (`subB m true / false`). -/
def BundleInput.matcher (I : BundleInput) : Sem.HeapU.Matcher := fun e =>
  match e with
  | .call (.var "require") none _ [.str lit] => (I.res lit).map fun n => (accessorCall I.M n, refCall n)
  | _ => none

/-- the bundle darklua emits -/
def BundleInput.bundle (I : BundleInput) : Block :=
  assemble I.M (I.mods.map fun nb => (nb.1, Sem.HeapU.subB I.matcher true nb.2)) (Sem.HeapU.subB I.matcher true I.entry)

/-- names the sources must not mention (they belong to the generated code of one side or the other) -/
def BundleInput.reserved (I : BundleInput) : List DName :=
  [.ref I.M, .ref implName, .ref "__ref_loaded", .ref "__ref_modules", .ref "__ref_require"]

/-- a source respects the reserved names and never declares or assigns `require` (decidable) -/
def BundleInput.reservedOK (I : BundleInput) (b : Block) : Bool :=
  I.reserved.all (fun x => !b.refs x) && !b.refs (.wat "require")

/-- the same sources run with the textbook `require` -/
def BundleInput.reference (I : BundleInput) : Block :=
  referenceBlocks (I.mods.map fun nb => (nb.1, Sem.HeapU.subB I.matcher false nb.2)) (Sem.HeapU.subB I.matcher false I.entry)

/-- FULL statement of `bundle_refines` (kept visible, NOT proved in general): for module and entry SOURCES
that respect the reserved names, pairwise distinct accessor names other than `cache`, a resolution
that only designates bundled modules, and external functions that return no heap references:
whenever the program with the textbook `require` returns values `vs` with trace `tr` at some level,
the bundle returns the same values with the same trace at some level.
NOT proved as stated, and NOT TRUE as stated: the statement forgets two side conditions — `I.M` (configurable in
darklua: `modules_identifier`) must differ from the names of the generated code (`v`, `__modImpl`; with `I.M = "v"`
the accessor's own local shadows the modules table), and the sources must not BIND `I.M` (a `local` of that name
around a rewritten call site captures the accessor call; `reservedOK` only forbids references). With these two
conditions the property IS proved, for every level: `bundle_refines_returned` (this shape), from
`bundle_refines_modules` (equal outcomes at every level ≥ 1, any number of modules, arbitrary requires between them)
and `bundle_refines_partial_nomodules`. The def is kept as first written. -/
def bundle_refines_full : Prop :=
  ∀ (N : NumOps) (ρ : ExtOracle N) (_hρ : Sem.HeapU.OracleFlat ρ) (externs : List String) (I : BundleInput)
    (n : Nat) (vs : List CVal) (tr : List Event),
    I.names.Nodup → "cache" ∉ I.names → (∀ lit nm, I.res lit = some nm → nm ∈ I.names) →
    I.reservedOK I.entry = true → (∀ m ∈ I.mods, I.reservedOK m.2 = true) →
    runProgram ρ n externs I.reference = .returned vs tr →
    ∃ m, runProgram ρ m externs I.bundle = .returned vs tr

section unrequired
open Sem.HeapU

/-- dead names of the two preludes at the top level -/
def topDead (M : String) : List DName := [.ref M, .ref "__ref_loaded", .ref "__ref_modules", .ref "__ref_require"]

theorem referenceBlocks_eq (mods : List (String × Block)) (stmts : List Stmt) (last : Option Last) :
    referenceBlocks mods (.mk stmts last)
      = .mk (([refLa, .localFn .loc "__ref_require" refRequireFn] ++ mods.map refAssign) ++ stmts) last := by
  simp only [referenceBlocks, refLa, List.append_assoc]
  congr 2

theorem noRef_topDead (I : BundleInput) (b : Block) (h : I.reservedOK b = true) : NoRefB (topDead I.M) b := by
  intro x hx
  simp only [BundleInput.reservedOK, BundleInput.reserved, Bool.and_eq_true, List.all_eq_true] at h
  have := h.1 x (by
    simp only [topDead, List.mem_cons, List.mem_nil_iff, or_false] at hx
    simp only [List.mem_cons, List.mem_nil_iff, or_false]
    rcases hx with h | h | h | h <;> simp [h])
  simpa using this

/-- the common core: once both preludes have run (at level `k`) and only extended the heap, the rest
of the two programs — the two images of the entry source — have the same outcome -/
theorem unrequired_core {N : NumOps} (ρ : ExtOracle N) (hρ : OracleFlat ρ) (externs : List String) (I : BundleInput)
    (k : Nat) (hres : ∀ lit, I.res lit = none) (hentry : I.reservedOK I.entry = true)
    (modsB modsR : List (String × Block))
    (hB : ∃ (envB : Env N) (σB : State N),
      execSs (callClosure ρ k) ρ k ⟨[], []⟩ (prelude I.M modsB) (initState externs) = .ok (.next envB) σB ∧
      StExt (initState externs) σB ∧ envB.varargs = [] ∧ ∀ nm, DName.ref nm ∉ topDead I.M → lookupAssoc nm envB.locals = none)
    (hR : ∃ (envR : Env N) (σR : State N),
      execSs (callClosure ρ k) ρ k ⟨[], []⟩ ([refLa, .localFn .loc "__ref_require" refRequireFn] ++ modsR.map refAssign)
        (initState externs) = .ok (.next envR) σR ∧
      StExt (initState externs) σR ∧ envR.varargs = [] ∧ ∀ nm, DName.ref nm ∉ topDead I.M → lookupAssoc nm envR.locals = none) :
    runProgram ρ k externs (assemble I.M modsB (subB I.matcher true I.entry))
      = runProgram ρ k externs (referenceBlocks modsR (subB I.matcher false I.entry)) := by
  obtain ⟨envB, σB, hexB, hextB, hvaB, hlocB⟩ := hB
  obtain ⟨envR, σR, hexR, hextR, hvaR, hlocR⟩ := hR
  have hnoref := noRef_topDead I I.entry hentry
  have hleaf : ∀ e p, I.matcher e = some p → NoRefE (topDead I.M) e →
      VR Cx.none (topDead I.M) (.e p.1) (.e p.2) (topDead I.M) := by
    intro e p hm _
    simp only [BundleInput.matcher] at hm
    split at hm
    · simp [hres] at hm
    · cases hm
  have hvr := subB_vr (cx := Cx.none) hleaf I.entry hnoref
  have hs0 : SRel (VQ Cx.none) Cx.none initRel (initState externs : State N) (initState externs) :=
    SRel.init (VQ Cx.none) externs trivial
  have hs := (hs0.extLeft hextB).extRight hextR
  have he : EnvOK Cx.none (initRel (N := N)) (topDead I.M) envB envR := by
    refine ⟨by rw [hvaB, hvaR]; exact .nil, fun nm hnm => ?_, fun nm hnm => ?_, fun nm hnm => ?_⟩
    · rw [hlocB nm hnm, hlocR nm hnm]; simp [OptRel]
    · simp [Cx.none] at hnm
    · simp [topDead] at hnm
  have hobs := observe_of_soundB (fundB hvr) ρ hρ (fun _ => trivial) k hs he
  cases hsb : subB I.matcher true I.entry with
  | mk stB lastB =>
    cases hsr : subB I.matcher false I.entry with
    | mk stR lastR =>
      rw [hsb, hsr] at hobs
      have h1 : execB (callClosure ρ k) ρ k ⟨[], []⟩ (assemble I.M modsB (.mk stB lastB)) (initState externs)
          = execB (callClosure ρ k) ρ k envB (.mk stB lastB) σB := by
        simp only [assemble]
        exact execB_append_next _ ρ _ _ stB lastB _ _ _ _ hexB
      have h2 : execB (callClosure ρ k) ρ k ⟨[], []⟩ (referenceBlocks modsR (.mk stR lastR)) (initState externs)
          = execB (callClosure ρ k) ρ k envR (.mk stR lastR) σR := by
        rw [referenceBlocks_eq]
        exact execB_append_next _ ρ _ _ stR lastR _ _ _ _ hexR
      simp only [runProgram, runChunk_eq_wrapCtl, h1, h2]
      rcases hobs with ⟨h, _⟩ | ⟨h, _⟩ | h
      · cases h
      · cases h
      · exact h.symm

/-- **`bundle_refines_partial_unrequired`** — modules ARE bundled (any number, arbitrary bodies), but no
require designates one of them: at every level ≥ 1 the bundle and the reference program have the
same outcome. Proved with `Sem.HeapU`: both generated preludes are executed concretely and only
EXTEND the heap (`StExt`), so the two images of the entry source (`subB_vr`, no matched node) run from
`SRel`-related states in environments that agree outside the dead names (`fundB`, `observe_of_soundB`).
(At level 0 both programs exhaust their budget in their prelude when there is a module.) -/
theorem bundle_refines_partial_unrequired {N : NumOps} (ρ : ExtOracle N) (hρ : OracleFlat ρ)
    (externs : List String) (I : BundleInput) (n : Nat)
    (hres : ∀ lit, I.res lit = none)
    (hMv : I.M ≠ "v") (hMI : I.M ≠ implName)
    (hnodup : (I.mods.map fun nb => bytesOf nb.1).Nodup)
    (hcache : ∀ nb ∈ I.mods, bytesOf nb.1 ≠ bytesOf "cache")
    (hentry : I.reservedOK I.entry = true) :
    runProgram ρ (n + 1) externs I.bundle = runProgram ρ (n + 1) externs I.reference := by
  refine unrequired_core ρ hρ externs I (n + 1) hres hentry _ _ ?_ ?_
  · generalize hm : (I.mods.map fun nb => (nb.1, subB I.matcher true nb.2)) = mods'
    have hnodup' : (mods'.map fun nb => bytesOf nb.1).Nodup := by rw [← hm, List.map_map]; exact hnodup
    have hcache' : ∀ nb ∈ mods', bytesOf nb.1 ≠ bytesOf "cache" := by
      rw [← hm]; intro nb hnb
      obtain ⟨x, hx, rfl⟩ := List.mem_map.mp hnb
      exact hcache x hx
    by_cases hne : mods' = []
    · subst hne
      exact ⟨⟨[], []⟩, _, by simp [prelude, execSs], StExt.refl _, rfl, fun _ _ => rfl⟩
    · obtain ⟨infos, σ', _, hex, _, hfold, _⟩ := prelude_establishes (callClosure ρ (n + 1)) ρ n ⟨[], []⟩ I.M mods'
        (initState externs) hne hMv hMI hnodup' hcache'
      refine ⟨_, σ', hex, ?_, rfl, ?_⟩
      · rw [hfold]
        exact foldDefs_ext I.M _ _ mods' (afterTable_ext _) (by simp [initState])
      · intro nm hnm
        have : ¬ I.M = nm := fun e => hnm (by simp [topDead, e])
        simp [lookupAssoc, this]
  · obtain ⟨envR, σR, hexR, hextR, hvaR, hlocR⟩ := exec_refPrelude (callClosure ρ (n + 1)) ρ n ⟨[], []⟩ refRequireFn
      (I.mods.map fun nb => (nb.1, subB I.matcher false nb.2)) (initState externs)
    refine ⟨envR, σR, hexR, hextR, hvaR, ?_⟩
    intro nm hnm
    have h1 : ¬ "__ref_require" = nm := fun e => hnm (by simp [topDead, ← e])
    have h2 : ¬ "__ref_modules" = nm := fun e => hnm (by simp [topDead, ← e])
    have h3 : ¬ "__ref_loaded" = nm := fun e => hnm (by simp [topDead, ← e])
    rw [hlocR]; simp [lookupAssoc, h1, h2, h3]

/-- **`bundle_refines_partial_nomodules`** — no module bundled: equal outcomes at EVERY level -/
theorem bundle_refines_partial_nomodules {N : NumOps} (ρ : ExtOracle N) (hρ : OracleFlat ρ) (externs : List String)
    (I : BundleInput) (n : Nat)
    (hmods : I.mods = [])
    (hres : ∀ lit nm, I.res lit = some nm → nm ∈ I.names)
    (hentry : I.reservedOK I.entry = true) :
    runProgram ρ n externs I.bundle = runProgram ρ n externs I.reference := by
  have hnone : ∀ lit, I.res lit = none := by
    intro lit
    cases h : I.res lit with
    | none => rfl
    | some nm =>
      have := hres lit nm h
      simp [BundleInput.names, hmods] at this
  simp only [BundleInput.bundle, BundleInput.reference, hmods, List.map_nil]
  refine unrequired_core ρ hρ externs I n hnone hentry [] [] ?_ ?_
  · exact ⟨⟨[], []⟩, _, by simp [prelude, execSs], StExt.refl _, rfl, fun _ _ => rfl⟩
  · obtain ⟨envR, σR, hexR, hextR, hvaR, hlocR⟩ := exec_refPrelude_nil (callClosure ρ n) ρ n ⟨[], []⟩ refRequireFn
      (initState externs)
    refine ⟨envR, σR, by simpa using hexR, hextR, hvaR, ?_⟩
    intro nm hnm
    have h1 : ¬ "__ref_require" = nm := fun e => hnm (by simp [topDead, ← e])
    have h2 : ¬ "__ref_modules" = nm := fun e => hnm (by simp [topDead, ← e])
    have h3 : ¬ "__ref_loaded" = nm := fun e => hnm (by simp [topDead, ← e])
    rw [hlocR]; simp [lookupAssoc, h1, h2, h3]

-- non-vacuity: an entry that calls `require` (left alone: nothing is designated) and an external function
def exNoModules : BundleInput :=
  { M := "__DARKLUA_BUNDLE_MODULES", mods := [], res := fun _ => none,
    entry := .mk [.callStmt (.call (.var "emit") none .tuple [.call (.var "require") none .tuple [.str [46, 47, 120]]])]
      (some (.ret [.true])) }

example (ρ : ExtOracle natOps) (hρ : OracleFlat ρ) (n : Nat) :
    runProgram ρ n ["emit", "require"] exNoModules.bundle = runProgram ρ n ["emit", "require"] exNoModules.reference :=
  bundle_refines_partial_nomodules ρ hρ _ exNoModules n rfl (by intro lit nm h; cases h) (by decide)

example : OracleFlat (N := natOps) (fun _ _ _ => []) := by
  intro name k args v hv; cases hv

-- non-vacuity of `bundle_refines_partial_unrequired`: one bundled module with an effectful body that nobody requires
def exUnrequired : BundleInput :=
  { M := "__DARKLUA_BUNDLE_MODULES", res := fun _ => none,
    mods := [("a", .mk [.callStmt (.call (.var "emit") none .tuple [.str [97]])] (some (.ret [.true])))],
    entry := .mk [.callStmt (.call (.var "emit") none .tuple [.call (.var "require") none .tuple [.str [46, 47, 120]]])]
      (some (.ret [.true])) }

example (ρ : ExtOracle natOps) (hρ : OracleFlat ρ) (n : Nat) (hac : bytesOf "a" ≠ bytesOf "cache") :
    runProgram ρ (n + 1) ["emit", "require"] exUnrequired.bundle
      = runProgram ρ (n + 1) ["emit", "require"] exUnrequired.reference :=
  bundle_refines_partial_unrequired ρ hρ _ exUnrequired n (fun _ => rfl) (by decide) (by decide) (by simp [exUnrequired])
    (by intro nb hnb; simp [exUnrequired] at hnb; subst hnb; exact hac) (by decide)

/-- at the oracle the harness runs (`Shared.driverOracle`) no hypothesis on the oracle is left -/
theorem bundle_refines_partial_unrequired_driver (externs : List String) (I : BundleInput) (n : Nat)
    (hres : ∀ lit, I.res lit = none) (hMv : I.M ≠ "v") (hMI : I.M ≠ implName)
    (hnodup : (I.mods.map fun nb => bytesOf nb.1).Nodup) (hcache : ∀ nb ∈ I.mods, bytesOf nb.1 ≠ bytesOf "cache")
    (hentry : I.reservedOK I.entry = true) :
    runProgram Shared.driverOracle (n + 1) externs I.bundle = runProgram Shared.driverOracle (n + 1) externs I.reference :=
  bundle_refines_partial_unrequired _ driverOracle_flat externs I n hres hMv hMI hnodup hcache hentry

end unrequired

section onemodule
open Sem.HeapU

/-- **The call-site leaf.** In the context `bcx` (watched locals `M` ↦ cell 0 on the left, `__ref_require` ↦ cell 2
on the right; invariant = the private objects of both preludes + the coupling of the two caches + the two module
functions are RELATED closures) the accessor call and the textbook require of `a` are related, for every
closure-body relation. -/
def LeafSound (M a : String) (BL BR : Block) : Prop :=
  ∀ Q, QRefl Q → SoundE Q (bcx M a BL BR) (D1 M) (accessorCall M a) (refCall a)

/-- **The call-site leaf holds, whatever the two module bodies are** (`C05/Leaf.lean`): at levels 0 and 1 both calls
time out; at level ≥ 2 either both caches hold a box (related contents, `Coupled`) or both are empty — then both
sides allocate their temporaries (content-PINNED, so that they survive the bodies), the wrapper `__modImpl` and the
module function of the reference program — RELATED closures by the invariant — are called through the call handler
of level − 1 (`POK.lower`), failures and timeouts propagate identically, and on success both sides box the first
result and store the box in their cache (two private writes in one step), which re-establishes the invariant. -/
theorem leafSound (M a : String) (BL BR : Block) (hac : bytesOf a ≠ bytesOf "cache") (hMv : M ≠ "v")
    (hMI : M ≠ implName) : LeafSound M a BL BR :=
  fun _ _ => leaf_sound M a BL BR (fun h => hac h.symm) hMv hMI

/-- **`bundle_refines_one_module`** — UNCONDITIONAL: one bundled module `a` with an ARBITRARY source `B` (it may
itself call `require` of `a`, anywhere), REQUIRED anywhere in an arbitrary entry source (top level, inside closures,
loops, conditionals; any number of times, or never): the bundle and the program with the textbook `require` have
the same outcome — same values, same trace, same error, or both out of budget — at every level ≥ 1, for every flat
oracle. Sources must not mention the names of the generated code.
Proof (`Sem.HeapU`): both preludes run concretely and only extend the heap, the new objects become private (`bump`)
except the two module functions, which enter the relation as a closure pair whose bodies are the two `subB` images
of `B` (`srel_rebaseF`, `subB_vr`); the invariant holds (`establish_I`); the two top-level environments satisfy
`EnvOK` with the watched bindings; the two programs are the two images of the entry source (`subB_vr`) with the
call-site leaf `leafSound` at every rewritten call; `fundB`, `observe_of_soundB`. -/
theorem bundle_refines_one_module {N : NumOps} (ρ : ExtOracle N) (hρ : OracleFlat ρ) (externs : List String)
    (I : BundleInput) (a : String) (B : Block) (n : Nat)
    (hmods : I.mods = [(a, B)])
    (hres : ∀ lit nm, I.res lit = some nm → nm = a)
    (hMv : I.M ≠ "v") (hMI : I.M ≠ implName)
    (hMr : I.M ≠ "__ref_require" ∧ I.M ≠ "__ref_modules" ∧ I.M ≠ "__ref_loaded")
    (hac : bytesOf a ≠ bytesOf "cache")
    (hentry : NoRefB (D1 I.M) I.entry) (hB : NoRefB (D1 I.M) B) :
    runProgram ρ (n + 1) externs I.bundle = runProgram ρ (n + 1) externs I.reference := by
  let BL := subB I.matcher true B
  let BR := subB I.matcher false B
  let cx := bcx I.M a BL BR
  -- every rewritten call site is the leaf
  have hleaf' : ∀ e p, I.matcher e = some p → NoRefE (D1 I.M) e → VR cx (D1 I.M) (.e p.1) (.e p.2) (D1 I.M) := by
    intro e p hm _
    simp only [BundleInput.matcher] at hm
    split at hm
    · simp only [Option.map_eq_some_iff] at hm
      obtain ⟨nm, hr, hp⟩ := hm
      have := hres _ nm hr
      subst this
      subst hp
      exact .genE (leafSound I.M nm BL BR hac hMv hMI)
    · cases hm
  have hvr := subB_vr (cx := cx) hleaf' I.entry hentry
  have hvrB := subB_vr (cx := cx) hleaf' B hB
  -- the preludes
  obtain ⟨hc0, ht0, hf0⟩ := init_sizes (N := N) externs
  have hlen0 : (initState externs : State N).cells.length = 0 := by rw [hc0]; rfl
  obtain ⟨infos, σB, _, hexB, _, hfold, _⟩ := prelude_establishes (callClosure ρ (n + 1)) ρ n ⟨[], []⟩ I.M [(a, BL)]
    (initState externs) (by simp) hMv hMI (by simp) (by intro nb hnb; simp at hnb; subst hnb; exact hac)
  have hσB : σB = postL I.M a BL externs := by
    rw [hfold]; simp [postL, hlen0, ht0]
  subst hσB
  have hexR := exec_refPrelude_one (callClosure ρ (n + 1)) ρ n refRequireFn (a, BR) (initState externs)
  -- related states in the context with the invariant; the two module functions become a related pair
  have hs0 : SRel (VQ Cx.none) Cx.none initRel (initState externs : State N) (initState externs) :=
    SRel.init (VQ Cx.none) externs trivial
  have hs1 := ((hs0.extLeft (postL_ext I.M a BL externs)).extRight (postR_ext a BR externs)).bump
  have hI := establish_I (N := N) I.M a BL BR externs (fun h => hac h.symm)
  have hs : SRel (VQ cx) cx (startRel (postL (N := N) I.M a BL externs) (postR a BR externs)) (postL I.M a BL externs)
      (postR a BR externs) := by
    refine srel_rebaseF hs1 (fun _ _ h => h) rfl rfl (fun x y => x = 0 ∧ y = 1) ?_ ?_ hI
    · rintro _ _ _ _ ⟨rfl, rfl⟩ ⟨rfl, rfl⟩; simp
    · rintro _ _ ⟨rfl, rfl⟩
      refine ⟨_, _, hI.1.f0, hI.2.1.f1, .nil, D1 I.M, ?_, (envOK_body (N := N) hMI hMr).loc⟩
      exact VR.fnBody rfl (by simp) hvrB
  have he : EnvOK cx (startRel (postL (N := N) I.M a BL externs) (postR a BR externs)) (D1 I.M)
      (⟨[(I.M, 0)], []⟩ : Env N) ⟨envR3, []⟩ := by
    refine ⟨.nil, fun nm hnm => ?_, fun nm hnm => ?_, fun nm hnm => ?_⟩
    · have h0 : ¬ I.M = nm := fun e => hnm (by simp [D1, e])
      have h1 : ¬ "__ref_require" = nm := fun e => hnm (by simp [D1, ← e])
      have h2 : ¬ "__ref_modules" = nm := fun e => hnm (by simp [D1, ← e])
      have h3 : ¬ "__ref_loaded" = nm := fun e => hnm (by simp [D1, ← e])
      simp [lookupAssoc, envR3, h0, h1, h2, h3, OptRel]
    · simp only [cx, bcx, List.mem_cons, List.mem_nil_iff, or_false] at hnm
      rcases hnm with h | h <;> subst h <;> simp [D1]
    · have hw : nm = I.M ∨ nm = "__ref_require" := by simpa [D1] using hnm
      have hr1 : ¬ "__ref_require" = I.M := fun e => hMr.1 e.symm
      have hr2 : ¬ "__ref_modules" = I.M := fun e => hMr.2.1 e.symm
      have hr3 : ¬ "__ref_loaded" = I.M := fun e => hMr.2.2 e.symm
      rcases hw with h | h <;> subst h
      · simp [cx, bcx, lookupAssoc, envR3, hr1, hr2, hr3]
      · simp [cx, bcx, lookupAssoc, envR3, hMr.1]
  have hobs := observe_of_soundB (fundB hvr) ρ hρ (fun _ => rfl) (n + 1) hs he
  -- put the programs in `prelude ++ rest` form
  simp only [BundleInput.bundle, BundleInput.reference, hmods, List.map_cons, List.map_nil]
  cases hsb : subB I.matcher true I.entry with
  | mk stB lastB =>
    cases hsr : subB I.matcher false I.entry with
    | mk stR lastR =>
      rw [hsb, hsr] at hobs
      have hexB' : execSs (callClosure ρ (n + 1)) ρ (n + 1) ⟨[], []⟩ (prelude I.M [(a, BL)]) (initState externs)
          = .ok (.next ⟨[(I.M, 0)], []⟩) (postL I.M a BL externs) := by
        rw [hexB, hlen0]
      have h1 : execB (callClosure ρ (n + 1)) ρ (n + 1) ⟨[], []⟩ (assemble I.M [(a, BL)] (.mk stB lastB)) (initState externs)
          = execB (callClosure ρ (n + 1)) ρ (n + 1) ⟨[(I.M, 0)], []⟩ (.mk stB lastB) (postL I.M a BL externs) := by
        simp only [assemble]
        exact execB_append_next _ ρ _ _ stB lastB _ _ _ _ hexB'
      have hexR' : execSs (callClosure ρ (n + 1)) ρ (n + 1) ⟨[], []⟩
          ([refLa, .localFn .loc "__ref_require" refRequireFn] ++ [refAssign (a, BR)]) (initState externs)
          = .ok (.next ⟨envR3, []⟩) (postR a BR externs) := by
        rw [hexR, hlen0]; rfl
      have h2 : execB (callClosure ρ (n + 1)) ρ (n + 1) ⟨[], []⟩ (referenceBlocks [(a, BR)] (.mk stR lastR)) (initState externs)
          = execB (callClosure ρ (n + 1)) ρ (n + 1) ⟨envR3, []⟩ (.mk stR lastR) (postR a BR externs) := by
        rw [referenceBlocks_eq]
        exact execB_append_next _ ρ _ _ stR lastR _ _ _ _ hexR'
      simp only [runProgram, runChunk_eq_wrapCtl]
      rw [h1, h2]
      rcases hobs with ⟨h, _⟩ | ⟨h, _⟩ | h
      · cases h
      · cases h
      · exact h.symm


/-- at the oracle the harness runs no hypothesis on the oracle is left -/
theorem bundle_refines_one_module_driver (externs : List String) (I : BundleInput) (a : String) (B : Block) (n : Nat)
    (hmods : I.mods = [(a, B)]) (hres : ∀ lit nm, I.res lit = some nm → nm = a)
    (hMv : I.M ≠ "v") (hMI : I.M ≠ implName)
    (hMr : I.M ≠ "__ref_require" ∧ I.M ≠ "__ref_modules" ∧ I.M ≠ "__ref_loaded")
    (hac : bytesOf a ≠ bytesOf "cache") (hentry : NoRefB (D1 I.M) I.entry) (hB : NoRefB (D1 I.M) B) :
    runProgram Shared.driverOracle (n + 1) externs I.bundle = runProgram Shared.driverOracle (n + 1) externs I.reference :=
  bundle_refines_one_module _ driverOracle_flat externs I a B n hmods hres hMv hMI hMr hac hentry hB

-- non-vacuity: module `a` has an effectful body and returns a fresh table; the entry requires it at the top level,
-- a second time inside a closure that is called later, and compares the two results
def exOneModule : BundleInput :=
  { M := "__DARKLUA_BUNDLE_MODULES",
    res := fun lit => if lit = [46, 47, 97] then some "a" else none,
    mods := [("a", .mk [.callStmt (.call (.var "emit") none .tuple [.str [97]])] (some (.ret [.table [.named "x" .true]])))],
    entry := .mk
      [ .localAssign .loc [.mk "m1" none] [.call (.var "require") none .tuple [.str [46, 47, 97]]],
        .localAssign .loc [.mk "f" none]
          [.fn (.mk [] false none none [] [] (.mk [] (some (.ret [.call (.var "require") none .tuple [.str [46, 47, 97]]]))))],
        .callStmt (.call (.var "emit") none .tuple [.bin .eq (.var "m1") (.call (.var "f") none .tuple [])]) ]
      (some (.ret [.field (.var "m1") "x"])) }

example (ρ : ExtOracle natOps) (hρ : OracleFlat ρ) (n : Nat) (hac : bytesOf "a" ≠ bytesOf "cache") :
    runProgram ρ (n + 1) ["emit"] exOneModule.bundle = runProgram ρ (n + 1) ["emit"] exOneModule.reference :=
  bundle_refines_one_module ρ hρ _ exOneModule "a" _ n rfl
    (by intro lit nm h; simp only [exOneModule] at h; split at h <;> simp_all)
    (by decide) (by decide) (by decide) hac (NoRefB.ofBool (by decide)) (NoRefB.ofBool (by decide))

-- the entry of the example really contains two rewritten call sites
example : subB exOneModule.matcher true exOneModule.entry = .mk
      [ .localAssign .loc [.mk "m1" none] [accessorCall "__DARKLUA_BUNDLE_MODULES" "a"],
        .localAssign .loc [.mk "f" none]
          [.fn (.mk [] false none none [] [] (.mk [] (some (.ret [accessorCall "__DARKLUA_BUNDLE_MODULES" "a"]))))],
        .callStmt (.call (.var "emit") none .tuple [.bin .eq (.var "m1") (.call (.var "f") none .tuple [])]) ]
      (some (.ret [.field (.var "m1") "x"])) ∧
    subB exOneModule.matcher false exOneModule.entry = .mk
      [ .localAssign .loc [.mk "m1" none] [refCall "a"],
        .localAssign .loc [.mk "f" none]
          [.fn (.mk [] false none none [] [] (.mk [] (some (.ret [refCall "a"]))))],
        .callStmt (.call (.var "emit") none .tuple [.bin .eq (.var "m1") (.call (.var "f") none .tuple [])]) ]
      (some (.ret [.field (.var "m1") "x"])) := ⟨rfl, rfl⟩

end onemodule

section modules
open Sem.HeapU

/-- **`bundle_refines_modules`** — ANY number (≥ 1) of bundled modules with ARBITRARY sources and arbitrary
requires between them (a DAG as darklua accepts it, but the proof does not use acyclicity: a runtime cycle exhausts
the budget on both sides), an arbitrary entry source; call sites anywhere (top level, closures, loops, module
bodies): the bundle and the program with the textbook `require` have the same outcome — same values, same trace,
same error, or both out of budget — at every level ≥ 1, for every flat oracle.
Hypotheses: distinct module names (as table keys) other than `cache`; every resolved literal designates a bundled
module; the sources do not mention the names of the generated code.
Proof: `Sem.HeapU` in the context `bcxN` (C05/Multi.lean). Both preludes are executed concretely
(`prelude_establishes` with explicit ids, `exec_refPrelude_fold` + `refFold_facts`); all their objects become
private except the pairs (wrapper `__modImpl` of module i, module function i of the reference), which enter the
relation as closure pairs whose bodies are the two `subB` images of the module source (`srel_rebaseF`, `subB_vr`);
`establish_IN`; every rewritten call site is the body-independent leaf `leaf_soundN`; `fundB`, `observe_of_soundB`. -/
theorem bundle_refines_modules {N : NumOps} (ρ : ExtOracle N) (hρ : OracleFlat ρ) (externs : List String)
    (I : BundleInput) (n : Nat)
    (hne : I.mods ≠ [])
    (hnodup : (I.mods.map fun nb => bytesOf nb.1).Nodup)
    (hcache : ∀ nb ∈ I.mods, bytesOf nb.1 ≠ bytesOf "cache")
    (hres : ∀ lit nm, I.res lit = some nm → nm ∈ I.names)
    (hMv : I.M ≠ "v") (hMI : I.M ≠ implName)
    (hMr : I.M ≠ "__ref_require" ∧ I.M ≠ "__ref_modules" ∧ I.M ≠ "__ref_loaded")
    (hentry : NoRefB (D1 I.M) I.entry) (hsrc : ∀ nb ∈ I.mods, NoRefB (D1 I.M) nb.2) :
    runProgram ρ (n + 1) externs I.bundle = runProgram ρ (n + 1) externs I.reference := by
  let srcs : List (String × Block × Block) :=
    I.mods.map fun nb => (nb.1, subB I.matcher true nb.2, subB I.matcher false nb.2)
  let ms := mkMods 1 0 1 srcs
  let cx := bcxN I.M ms
  have hL : (srcs.map fun x => (x.1, x.2.1)) = I.mods.map fun nb => (nb.1, subB I.matcher true nb.2) := by
    simp [srcs, List.map_map, Function.comp_def]
  have hR : (srcs.map fun x => (x.1, x.2.2)) = I.mods.map fun nb => (nb.1, subB I.matcher false nb.2) := by
    simp [srcs, List.map_map, Function.comp_def]
  -- every rewritten call site is a leaf
  have hleaf' : ∀ e p, I.matcher e = some p → NoRefE (D1 I.M) e → VR cx (D1 I.M) (.e p.1) (.e p.2) (D1 I.M) := by
    intro e p hm _
    simp only [BundleInput.matcher] at hm
    split at hm
    · simp only [Option.map_eq_some_iff] at hm
      obtain ⟨nm, hr, hp⟩ := hm
      have hmem := hres _ nm hr
      simp only [BundleInput.names, List.mem_map] at hmem
      obtain ⟨nb, hnb, rfl⟩ := hmem
      obtain ⟨m, hm', hname⟩ := mkMods_name srcs 1 0 1 (nb.1, subB I.matcher true nb.2, subB I.matcher false nb.2)
        (List.mem_map.mpr ⟨nb, hnb, rfl⟩)
      subst hp
      show VR cx _ (.e (accessorCall I.M nb.1)) (.e (refCall nb.1)) _
      rw [← hname]
      exact .genE fun Q _ => leaf_soundN I.M ms m hm' hMv hMI
    · cases hm
  have hvr := subB_vr (cx := cx) hleaf' I.entry hentry
  -- the preludes
  obtain ⟨hc0, ht0, hf0⟩ := init_sizes (N := N) externs
  have hlen0 : (initState externs : State N).cells.length = 0 := by rw [hc0]; rfl
  have hlenF0 : (initState externs : State N).closures.length = 0 := by rw [hf0]; rfl
  generalize hmL : (I.mods.map fun nb => (nb.1, subB I.matcher true nb.2)) = modsL at hL
  generalize hmR : (I.mods.map fun nb => (nb.1, subB I.matcher false nb.2)) = modsR at hR
  have hndL : (modsL.map fun nb => bytesOf nb.1).Nodup := by rw [← hmL, List.map_map]; exact hnodup
  have hndR : (modsR.map fun nb => bytesOf nb.1).Nodup := by rw [← hmR, List.map_map]; exact hnodup
  have hcacheL : ∀ nb ∈ modsL, bytesOf nb.1 ≠ bytesOf "cache" := by
    rw [← hmL]; intro nb hnb
    obtain ⟨x, hx, rfl⟩ := List.mem_map.mp hnb
    exact hcache x hx
  have hneL : modsL ≠ [] := by rw [← hmL]; simpa using hne
  obtain ⟨infos, σB, _, hexB, hBI, hfold, hinfos⟩ := prelude_establishes (callClosure ρ (n + 1)) ρ n ⟨[], []⟩ I.M modsL
    (initState externs) hneL hMv hMI hndL hcacheL
  have hextB : StExt (initState externs) σB := by
    rw [hfold]; exact foldDefs_ext I.M _ _ modsL (afterTable_ext _) (by simp [initState])
  rw [hlen0, hlenF0] at hinfos
  have hexR := exec_refPrelude_fold (callClosure ρ (n + 1)) ρ n refRequireFn modsR (initState externs : State N)
  obtain ⟨envR', σR', hexR2, hextR', _, _⟩ := exec_refPrelude (callClosure ρ (n + 1)) ρ n ⟨[], []⟩ refRequireFn modsR
    (initState externs : State N)
  have henv3 : env3Of (initState externs : State N) = envR3 := by simp [env3Of, hlen0, envR3]
  rw [henv3, ht0] at hexR
  have hσR : σR' = modsR.foldl (refStep 4 envR3) (afterRefFn refRequireFn (initState externs)) := by
    have := hexR.symm.trans hexR2
    injection this with _ h2
    exact h2.symm
  subst hσR
  -- the state before the module assignments of the reference program
  have a1 : (afterRefFn refRequireFn (initState externs) : State N).cells = [.tbl 3, .tbl 4, .fn 0] := by
    simp [afterRefFn, afterRefLa, State.allocCell, State.allocTable, State.allocClosure, State.setCell, initState, listSet]
  have a2 : (afterRefFn refRequireFn (initState externs) : State N).closures = [⟨refRequireFn, envR3, []⟩] := by
    simp [afterRefFn, afterRefLa, State.allocCell, State.allocTable, State.allocClosure, State.setCell, initState, env3Of,
      envR3]
  have a3 : (afterRefFn refRequireFn (initState externs) : State N).tables.length = 5 := by
    simp [afterRefFn, afterRefLa, State.allocCell, State.allocTable, State.allocClosure, State.setCell, initState]
  have a4 : (afterRefFn refRequireFn (initState externs) : State N).tables[3]? = some ⟨[], none⟩ := by
    simp [afterRefFn, afterRefLa, State.allocCell, State.allocTable, State.allocClosure, State.setCell, initState]
  have a5 : ((afterRefFn refRequireFn (initState externs) : State N).getTable 4) = ⟨[], none⟩ := by
    simp [afterRefFn, afterRefLa, State.allocCell, State.allocTable, State.allocClosure, State.setCell, initState,
      State.getTable]
  obtain ⟨g1, g2, g3, g4, g5, g6, g7⟩ := refFold_facts 4 envR3 modsR (afterRefFn refRequireFn (initState externs) : State N)
    (by rw [a3]; omega) hndR
  -- the invariant
  have hinfra := hBI.infra
  have hI : cx.I N (startRelN ms σB (modsR.foldl (refStep 4 envR3) (afterRefFn refRequireFn (initState externs)))) σB
      (modsR.foldl (refStep 4 envR3) (afterRefFn refRequireFn (initState externs))) := by
    refine establish_IN I.M ms σB _ ?_ ?_ ?_ ?_ ?_ ?_ ?_ ?_ ?_ ?_ ?_ ?_ ?_
    · have := hinfra.cellM; simpa [layoutOf, hlen0, ht0] using this
    · have := hinfra.cache; simpa [layoutOf, hlen0, ht0] using this
    · have := hinfra.plainC; simpa [layoutOf, hlen0, ht0] using this
    · have := hinfra.ltC; simpa [layoutOf, hlen0, ht0] using this
    · intro m hm
      have hmi := (mem_mkMods srcs 1 0 1 m hm).2.1
      rw [hL, ← hinfos] at hmi
      have r := hBI.ready _ hmi
      refine ⟨?_, ?_, ?_, ?_⟩
      · have := r.field; simpa [layoutOf, hlen0, ht0] using this
      · have := r.acc; simpa [layoutOf, hlen0, ht0, ModInfo.locals, envLIi] using this
      · have := r.cell; simpa [layoutOf, hlen0, ht0] using this
      · have := r.impl; simpa [layoutOf, hlen0, ht0, ModInfo.locals, envLIi] using this
    · intro m hm
      have hmi := (mem_mkMods srcs 1 0 1 m hm).2.1
      rw [hL, ← hinfos] at hmi
      have := hBI.slots _ hmi
      simpa [SlotOk, layoutOf, hlen0, ht0] using this
    · rw [g1, a1]; rfl
    · rw [g1, a1]; rfl
    · rw [g1, a1]; rfl
    · exact g2 0 _ (by rw [a2]; rfl)
    · rw [g3 3 (by omega)]; exact a4
    · rw [g5, a3]; omega
    · intro m hm
      have hmr := (mem_mkMods srcs 1 0 1 m hm).2.2.1
      rw [hR] at hmr
      have := g7 (m.name, m.bodyR, m.modId) (by rw [a2]; exact hmr)
      exact this
  -- related states
  have hs0 : SRel (VQ Cx.none) Cx.none initRel (initState externs : State N) (initState externs) :=
    SRel.init (VQ Cx.none) externs trivial
  have hs1 := ((hs0.extLeft hextB).extRight hextR').bump
  have hs : SRel (VQ cx) cx (startRelN ms σB (modsR.foldl (refStep 4 envR3) (afterRefFn refRequireFn (initState externs)))) σB
      (modsR.foldl (refStep 4 envR3) (afterRefFn refRequireFn (initState externs))) := by
    refine srel_rebaseF hs1 (fun _ _ h => h) rfl rfl (fun x y => ∃ m ∈ ms, x = m.implId ∧ y = m.modId) ?_ ?_ hI
    · rintro _ _ _ _ ⟨m, hm, rfl, rfl⟩ ⟨m', hm', rfl, rfl⟩
      obtain ⟨_, _, _, i, _, e1, _, e2⟩ := mem_mkMods srcs 1 0 1 m hm
      obtain ⟨_, _, _, i', _, e1', _, e2'⟩ := mem_mkMods srcs 1 0 1 m' hm'
      constructor <;> intro h <;> omega
    · rintro _ _ ⟨m, hm, rfl, rfl⟩
      have hsrcm := (mem_mkMods srcs 1 0 1 m hm).1
      obtain ⟨nb, hnb, hnbe⟩ := List.mem_map.mp hsrcm
      have hbl : m.bodyL = subB I.matcher true nb.2 := by injection hnbe with _ h2; injection h2 with h3 _; exact h3.symm
      have hbr : m.bodyR = subB I.matcher false nb.2 := by injection hnbe with _ h2; injection h2 with _ h4; exact h4.symm
      have hvrB := subB_vr (cx := cx) hleaf' nb.2 (hsrc nb hnb)
      refine ⟨_, _, hI.1.impl m hm, hI.2.1.mod m hm, .nil, D1 I.M, ?_, envRel_body rfl rfl rfl m.cI hMI hMr⟩
      rw [hbl, hbr]
      exact VR.fnBody rfl (by simp) hvrB
  have he : EnvOK cx (startRelN ms σB (modsR.foldl (refStep 4 envR3) (afterRefFn refRequireFn (initState externs)))) (D1 I.M)
      (⟨[(I.M, 0)], []⟩ : Env N) ⟨envR3, []⟩ := by
    refine ⟨.nil, fun nm hnm => ?_, fun nm hnm => ?_, fun nm hnm => ?_⟩
    · have h0 : ¬ I.M = nm := fun e => hnm (by simp [D1, e])
      have h1 : ¬ "__ref_require" = nm := fun e => hnm (by simp [D1, ← e])
      have h2 : ¬ "__ref_modules" = nm := fun e => hnm (by simp [D1, ← e])
      have h3 : ¬ "__ref_loaded" = nm := fun e => hnm (by simp [D1, ← e])
      simp [lookupAssoc, envR3, h0, h1, h2, h3, OptRel]
    · simp only [cx, bcxN, List.mem_cons, List.mem_nil_iff, or_false] at hnm
      rcases hnm with h | h <;> subst h <;> simp [D1]
    · have hw : nm = I.M ∨ nm = "__ref_require" := by simpa [D1] using hnm
      have hr1 : ¬ "__ref_require" = I.M := fun e => hMr.1 e.symm
      have hr2 : ¬ "__ref_modules" = I.M := fun e => hMr.2.1 e.symm
      have hr3 : ¬ "__ref_loaded" = I.M := fun e => hMr.2.2 e.symm
      rcases hw with h | h <;> subst h
      · simp [cx, bcxN, lookupAssoc, envR3, hr1, hr2, hr3]
      · simp [cx, bcxN, lookupAssoc, envR3, hMr.1]
  have hobs := observe_of_soundB (fundB hvr) ρ hρ (fun _ => rfl) (n + 1) hs he
  -- put the programs in `prelude ++ rest` form
  simp only [BundleInput.bundle, BundleInput.reference]
  rw [hmL, hmR]
  cases hsb : subB I.matcher true I.entry with
  | mk stB lastB =>
    cases hsr : subB I.matcher false I.entry with
    | mk stR lastR =>
      rw [hsb, hsr] at hobs
      have hexB' : execSs (callClosure ρ (n + 1)) ρ (n + 1) ⟨[], []⟩ (prelude I.M modsL) (initState externs)
          = .ok (.next ⟨[(I.M, 0)], []⟩) σB := by
        rw [hexB, hlen0]
      have h1 : execB (callClosure ρ (n + 1)) ρ (n + 1) ⟨[], []⟩ (assemble I.M modsL (.mk stB lastB)) (initState externs)
          = execB (callClosure ρ (n + 1)) ρ (n + 1) ⟨[(I.M, 0)], []⟩ (.mk stB lastB) σB := by
        simp only [assemble]
        exact execB_append_next _ ρ _ _ stB lastB _ _ _ _ hexB'
      have h2 : execB (callClosure ρ (n + 1)) ρ (n + 1) ⟨[], []⟩ (referenceBlocks modsR (.mk stR lastR)) (initState externs)
          = execB (callClosure ρ (n + 1)) ρ (n + 1) ⟨envR3, []⟩ (.mk stR lastR)
              (modsR.foldl (refStep 4 envR3) (afterRefFn refRequireFn (initState externs))) := by
        rw [referenceBlocks_eq]
        exact execB_append_next _ ρ _ _ stR lastR _ _ _ _ hexR
      simp only [runProgram, runChunk_eq_wrapCtl]
      rw [h1, h2]
      rcases hobs with ⟨h, _⟩ | ⟨h, _⟩ | h
      · cases h
      · cases h
      · exact h.symm

/-- at the oracle the harness runs no hypothesis on the oracle is left -/
theorem bundle_refines_modules_driver (externs : List String) (I : BundleInput) (n : Nat)
    (hne : I.mods ≠ []) (hnodup : (I.mods.map fun nb => bytesOf nb.1).Nodup)
    (hcache : ∀ nb ∈ I.mods, bytesOf nb.1 ≠ bytesOf "cache")
    (hres : ∀ lit nm, I.res lit = some nm → nm ∈ I.names)
    (hMv : I.M ≠ "v") (hMI : I.M ≠ implName)
    (hMr : I.M ≠ "__ref_require" ∧ I.M ≠ "__ref_modules" ∧ I.M ≠ "__ref_loaded")
    (hentry : NoRefB (D1 I.M) I.entry) (hsrc : ∀ nb ∈ I.mods, NoRefB (D1 I.M) nb.2) :
    runProgram Shared.driverOracle (n + 1) externs I.bundle = runProgram Shared.driverOracle (n + 1) externs I.reference :=
  bundle_refines_modules _ driverOracle_flat externs I n hne hnodup hcache hres hMv hMI hMr hentry hsrc

-- non-vacuity: a diamond-free chain with sharing — module `b` requires `a` (and mutates what it gets), the entry
-- requires `b`, then `a` (already loaded by `b`), then `a` again inside a closure; `c` is bundled but never required
def exModules : BundleInput :=
  { M := "__DARKLUA_BUNDLE_MODULES",
    res := fun lit => if lit = [46, 47, 97] then some "a" else if lit = [46, 47, 98] then some "b" else none,
    mods :=
      [ ("a", .mk [.callStmt (.call (.var "emit") none .tuple [.str [97]])] (some (.ret [.table [.named "x" .true]]))),
        ("b", .mk
          [ .localAssign .loc [.mk "a" none] [.call (.var "require") none .tuple [.str [46, 47, 97]]],
            .assign [.field (.var "a") "y"] [.false],
            .callStmt (.call (.var "emit") none .tuple [.str [98]]) ]
          (some (.ret [.fn (.mk [] false none none [] []
            (.mk [] (some (.ret [.call (.var "require") none .tuple [.str [46, 47, 97]]]))))]))),
        ("c", .mk [.callStmt (.call (.var "emit") none .tuple [.str [99]])] none) ],
    entry := .mk
      [ .localAssign .loc [.mk "f" none] [.call (.var "require") none .tuple [.str [46, 47, 98]]],
        .localAssign .loc [.mk "m1" none] [.call (.var "require") none .tuple [.str [46, 47, 97]]],
        .callStmt (.call (.var "emit") none .tuple [.bin .eq (.var "m1") (.call (.var "f") none .tuple [])]) ]
      (some (.ret [.field (.var "m1") "y"])) }

example (ρ : ExtOracle natOps) (hρ : OracleFlat ρ) (n : Nat)
    (hnd : ([bytesOf "a", bytesOf "b", bytesOf "c"]).Nodup)
    (hc : bytesOf "a" ≠ bytesOf "cache" ∧ bytesOf "b" ≠ bytesOf "cache" ∧ bytesOf "c" ≠ bytesOf "cache") :
    runProgram ρ (n + 1) ["emit"] exModules.bundle = runProgram ρ (n + 1) ["emit"] exModules.reference :=
  bundle_refines_modules ρ hρ _ exModules n (by simp [exModules]) (by simpa [exModules] using hnd)
    (by intro nb hnb; simp only [exModules, List.mem_cons, List.mem_nil_iff, or_false] at hnb
        rcases hnb with rfl | rfl | rfl
        · exact hc.1
        · exact hc.2.1
        · exact hc.2.2)
    (by intro lit nm h; simp only [exModules] at h; split at h
        · cases h; simp [BundleInput.names, exModules]
        · split at h
          · cases h; simp [BundleInput.names, exModules]
          · cases h)
    (by decide) (by decide) (by decide) (NoRefB.ofBool (by decide))
    (by intro nb hnb; simp only [exModules, List.mem_cons, List.mem_nil_iff, or_false] at hnb
        rcases hnb with rfl | rfl | rfl <;> exact NoRefB.ofBool (by decide))

/-! ### names as byte strings -/

theorem byteArray_toList_loop_eq (bs : ByteArray) : ∀ (i : Nat) (r : List UInt8),
    ByteArray.toList.loop bs i r = r.reverse ++ bs.data.toList.drop i := by
  intro i r
  induction i, r using ByteArray.toList.loop.induct bs with
  | case1 i r h ih =>
    rw [ByteArray.toList.loop, if_pos h, ih]
    have hs : i < bs.data.size := h
    have hi : i < bs.data.toList.length := by rw [Array.length_toList]; exact hs
    rw [List.drop_eq_getElem_cons hi, List.reverse_cons, List.append_assoc]
    have hg : bs.get! i = bs.data.toList[i] := by
      cases bs with
      | mk d =>
        show d[i]! = _
        rw [getElem!_pos d i hs, Array.getElem_toList]
    rw [hg]; rfl
  | case2 i r h =>
    rw [ByteArray.toList.loop, if_neg h]
    have hs : ¬ i < bs.data.size := h
    have hi : bs.data.toList.length ≤ i := by rw [Array.length_toList]; omega
    rw [List.drop_eq_nil_of_le hi, List.append_nil]

theorem byteArray_toList_eq_data (bs : ByteArray) : bs.toList = bs.data.toList := by
  rw [ByteArray.toList, byteArray_toList_loop_eq]; simp

/-- different names are different table keys -/
theorem bytesOf_inj {a b : String} (h : bytesOf a = bytesOf b) : a = b := by
  simp only [bytesOf] at h
  rw [byteArray_toList_eq_data, byteArray_toList_eq_data] at h
  exact String.toByteArray_inj.mp (ByteArray.ext (Array.toList_inj.mp h))

/-- with at least one module the reference program cannot finish at level 0 (storing the first module function
indexes a table) — the budget of level 0 is spent in the prelude, exactly as for the bundle -/
theorem reference_level0 {N : NumOps} (ρ : ExtOracle N) (externs : List String) (mods : List (String × Block))
    (entry : Block) (hne : mods ≠ []) : runProgram ρ 0 externs (referenceBlocks mods entry) = .timeout := by
  cases mods with
  | nil => exact absurd rfl hne
  | cons nb rest =>
    cases entry with
    | mk stmts last =>
      rw [referenceBlocks_eq]
      have e1 := exec_refLa (callClosure ρ 0) ρ 0 ⟨[], []⟩ (initState externs : State N)
      simp only [runProgram, runChunk, execB, List.cons_append, List.nil_append, List.map_cons, execSs, e1, Res.bind]
      simp [execS, refAssign, evalTargets, evalTarget, evalE, evalEs, storeTargets, storeTarget, setIndexVal, Res.bind,
        lookupVar, lookupAssoc, first, observe]

/-- **`bundle_refines_returned`** — the ∃-level reading of the property (the shape of `bundle_refines_full`), for any
number of modules (none included) and every level: whenever the program with the textbook `require` returns values
`vs` with trace `tr`, so does the bundle (at the same level). Hypotheses as in `bundle_refines_modules`, plus the
sources never declare or assign `require` (`reservedOK`, needed by the no-module case). -/
theorem bundle_refines_returned {N : NumOps} (ρ : ExtOracle N) (hρ : OracleFlat ρ) (externs : List String)
    (I : BundleInput) (n : Nat) (vs : List CVal) (tr : List Event)
    (hnodup : I.names.Nodup) (hcache : "cache" ∉ I.names)
    (hres : ∀ lit nm, I.res lit = some nm → nm ∈ I.names)
    (hMv : I.M ≠ "v") (hMI : I.M ≠ implName)
    (hMr : I.M ≠ "__ref_require" ∧ I.M ≠ "__ref_modules" ∧ I.M ≠ "__ref_loaded")
    (hentry : NoRefB (D1 I.M) I.entry) (hentry' : I.reservedOK I.entry = true)
    (hsrc : ∀ nb ∈ I.mods, NoRefB (D1 I.M) nb.2)
    (h : runProgram ρ n externs I.reference = .returned vs tr) :
    ∃ m, runProgram ρ m externs I.bundle = .returned vs tr := by
  have hnd : (I.mods.map fun nb => bytesOf nb.1).Nodup := by
    have : (I.mods.map fun nb => bytesOf nb.1) = I.names.map bytesOf := by
      simp [BundleInput.names, List.map_map, Function.comp_def]
    rw [this]
    exact List.Pairwise.map bytesOf (fun a b hab e => hab (bytesOf_inj e)) hnodup
  have hc : ∀ nb ∈ I.mods, bytesOf nb.1 ≠ bytesOf "cache" := by
    intro nb hnb e
    exact hcache (by rw [← bytesOf_inj e]; exact List.mem_map.mpr ⟨nb, hnb, rfl⟩)
  by_cases hne : I.mods = []
  · exact ⟨n, by rw [bundle_refines_partial_nomodules ρ hρ externs I n hne hres hentry']; exact h⟩
  · cases n with
    | zero =>
      have : runProgram ρ 0 externs I.reference = .timeout := by
        simp only [BundleInput.reference]
        exact reference_level0 ρ externs _ _ (by simpa using hne)
      rw [this] at h; cases h
    | succ n =>
      exact ⟨n + 1, by rw [bundle_refines_modules ρ hρ externs I n hne hnd hc hres hMv hMI hMr hentry hsrc]; exact h⟩

-- non-vacuity of `bundle_refines_returned`: its hypotheses hold for `exModules` (names compared as Strings)
example (ρ : ExtOracle natOps) (hρ : OracleFlat ρ) (n : Nat) (vs : List CVal) (tr : List Event)
    (h : runProgram ρ n ["emit"] exModules.reference = .returned vs tr) :
    ∃ m, runProgram ρ m ["emit"] exModules.bundle = .returned vs tr :=
  bundle_refines_returned ρ hρ _ exModules n vs tr (by decide) (by decide)
    (by intro lit nm h; simp only [exModules] at h; split at h
        · cases h; simp [BundleInput.names, exModules]
        · split at h
          · cases h; simp [BundleInput.names, exModules]
          · cases h)
    (by decide) (by decide) (by decide) (NoRefB.ofBool (by decide)) (by decide)
    (by intro nb hnb; simp only [exModules, List.mem_cons, List.mem_nil_iff, or_false] at hnb
        rcases hnb with rfl | rfl | rfl <;> exact NoRefB.ofBool (by decide))
    h

end modules






/-- **`bundle_refines_partial`** (one module): the statements the bundler puts in front of the entry
execute to exactly this: the entry's scope gains the modules identifier `M` and nothing else (no
module local, not `__modImpl`), and the state is the fresh modules table with an empty `cache`
followed by the definition of the module — i.e. precisely the situation `accessor_memoises`
assumes (slot `M.cache.<name>` empty, `__modImpl` bound to the wrapper of the body, accessor
stored in `M.<name>`). -/
theorem bundle_refines_partial (call : CallFn N) (ρ : ExtOracle N) (k : Nat) (env : Env N) (M name : String)
    (B : Block) (σ : State N) (hMI : M ≠ implName) (hname : name.toUTF8.toList ≠ "cache".toUTF8.toList) :
    execSs call ρ (k + 1) env (prelude M [(name, B)]) σ
      = .ok (.next ⟨(M, σ.cells.length) :: env.locals, env.varargs⟩)
          (afterDefinition M name B ((M, σ.cells.length) :: env.locals) σ.tables.length (afterTable σ)) :=
  prelude_single call ρ k env M name B σ hMI hname

-- non-vacuity (the byte inequality of the two names is passed in: string literals do not reduce in
-- the kernel; the harness runs exactly this configuration — module `a` — on every graph)
example (call : CallFn natOps) (ρ : ExtOracle natOps) (hname : "a".toUTF8.toList ≠ "cache".toUTF8.toList) :
    ∃ σ', execSs call ρ 1 ⟨[], []⟩ (prelude "__DARKLUA_BUNDLE_MODULES" [("a", exBody)])
      ({ globals := [], trace := [], cells := [], tables := [], closures := [] } : State natOps)
      = .ok (.next ⟨[("__DARKLUA_BUNDLE_MODULES", 0)], []⟩) σ' :=
  ⟨_, bundle_refines_partial call ρ 0 ⟨[], []⟩ "__DARKLUA_BUNDLE_MODULES" "a" exBody _ (by decide) hname⟩

/-! ## Composition over the definition order (any number of modules) -/

/-- **The prelude for any number of modules**: executing the statements the bundler inserts in front
of the entry — the modules table, then one definition per module (names pairwise distinct as
table keys and different from `cache`) — adds only `M` to the entry's scope and establishes the
bundle invariant `BI`: every module's accessor is stored in `M.<name>` with its own `__modImpl`
wrapper, `M.cache` is an empty plain table, nothing is loaded. No module body runs. -/
theorem bundle_prelude_establishes (call : CallFn N) (ρ : ExtOracle N) (k : Nat) (env : Env N) (M : String)
    (mods : List (String × Block)) (σ : State N)
    (hne : mods ≠ []) (hMv : M ≠ "v") (hMI : M ≠ implName)
    (hnodup : (mods.map fun nb => bytesOf nb.1).Nodup)
    (hcache : ∀ nb ∈ mods, bytesOf nb.1 ≠ bytesOf "cache") :
    ∃ (infos : List ModInfo) (σ' : State N),
      infos.map (fun m => (m.name, m.body)) = mods ∧
      execSs call ρ (k + 1) env (prelude M mods) σ
        = .ok (.next ⟨(M, σ.cells.length) :: env.locals, env.varargs⟩) σ' ∧
      BI (layoutOf M env σ) infos (fun _ => none) σ' := by
  obtain ⟨infos, σ', h1, h2, h3, _⟩ := prelude_establishes call ρ k env M mods σ hne hMv hMI hnodup hcache
  exact ⟨infos, σ', h1, h2, h3⟩

theorem mem_take_of_getElem? {α : Type} {l : List α} {k n : Nat} {x : α} (hk : k < n) (h : l[k]? = some x) :
    x ∈ l.take n :=
  List.mem_of_getElem? (i := k) (by rw [List.getElem?_take]; simp [hk, h])

theorem getElem?_of_mem_take {α : Type} {l : List α} {n : Nat} {x : α} (h : x ∈ l.take n) :
    ∃ k, k < n ∧ l[k]? = some x := by
  obtain ⟨k, hk⟩ := List.getElem?_of_mem h
  rw [List.getElem?_take] at hk
  by_cases hlt : k < n
  · exact ⟨k, hlt, by simpa [hlt] using hk⟩
  · simp [hlt] at hk

/-- names that may become loaded -/
def namesOf (ms : List ModInfo) : List String := ms.map (·.name)

/-- What a call of module `m`'s accessor does at level `n + 2`, in ANY state satisfying the bundle
invariant (with `ps` the boxes of the accessor calls still in progress): it returns one value `w`,
re-establishes the invariant with `m` loaded holding `w`, leaves the pending boxes alone, never
unloads or changes an already loaded module, only loads modules of `upto`, and — when `m` was
already loaded — returns the stored value without running anything (trace and load map unchanged). -/
def AccSpec (ρ : ExtOracle N) (L : Layout) (mods : List ModInfo) (m : ModInfo) (upto : List ModInfo) (n : Nat) : Prop :=
  ∀ (loaded : String → Option (Nat × Val N)) (args : List (Val N)) (ps : List Nat) (σ : State N),
    BI L mods loaded σ → Pend L mods ps loaded σ →
    ∃ (w : Val N) (σ' : State N) (loaded' : String → Option (Nat × Val N)),
      callClosure ρ (n + 2) (accClosure L.M m.name (m.locals L)) args σ = .ok [w] σ' ∧
      BI L mods loaded' σ' ∧ Pend L mods ps loaded' σ' ∧
      (∃ tb, loaded' m.name = some (tb, w)) ∧
      (∀ name x, loaded name = some x → loaded' name = some x) ∧
      (∀ name, loaded' name ≠ none → loaded name ≠ none ∨ name ∈ namesOf upto) ∧
      σ.cells.length ≤ σ'.cells.length ∧
      (∀ tb w0, loaded m.name = some (tb, w0) → w = w0 ∧ σ'.trace = σ.trace ∧ loaded' = loaded)

theorem AccSpec.weaken {ρ : ExtOracle N} {L : Layout} {mods : List ModInfo} {m : ModInfo} {upto upto' : List ModInfo}
    {n : Nat} (h : AccSpec ρ L mods m upto n) (hsub : ∀ x ∈ upto, x ∈ upto') : AccSpec ρ L mods m upto' n := by
  intro loaded args ps σ hBI hP
  obtain ⟨w, σ', loaded', h1, h2, h3, h4, h5, h6, h7, h8⟩ := h loaded args ps σ hBI hP
  refine ⟨w, σ', loaded', h1, h2, h3, h4, h5, ?_, h7, h8⟩
  intro name hn
  rcases h6 name hn with h | h
  · exact Or.inl h
  · obtain ⟨x, hx, hxn⟩ := List.mem_map.mp h
    exact Or.inr (List.mem_map.mpr ⟨x, hsub x hx, hxn⟩)

/-- The assumption on a module body (the frame hypotheses of `accessor_memoises`, now relative to
the invariant of the whole bundle): GIVEN that the accessors of the modules in `deps` behave as
`AccSpec` says (at the levels `lvl` allows), the run of `m`'s wrapper from the state in which its
accessor calls it returns, keeps the invariant and the pending boxes — the accessor's own fresh box
included —, loads at most modules of `deps` (not `m` itself), and keeps the accessor's fresh cell. -/
def BodyOK (ρ : ExtOracle N) (L : Layout) (mods : List ModInfo) (lvl : ModInfo → Nat → Prop) (m : ModInfo) (n : Nat)
    (deps : List ModInfo) : Prop :=
  (∀ d ∈ deps, ∀ n', lvl d n' → AccSpec ρ L mods d deps n') →
  ∀ (loaded : String → Option (Nat × Val N)) (ps : List Nat) (σ : State N),
    BI L mods loaded σ → Pend L mods ps loaded σ → loaded m.name = none →
    ∃ (vs : List (Val N)) (σb : State N) (loaded' : String → Option (Nat × Val N)),
      callClosure ρ (n + 1) (implClosure m.body (m.locals L)) []
        ((σ.allocCell .nil).2.allocTable { entries := [], mt := none }).2 = .ok vs σb ∧
      BI L mods loaded' σb ∧ Pend L mods (σ.tables.length :: ps) loaded' σb ∧ loaded' m.name = none ∧
      (∀ name x, loaded name = some x → loaded' name = some x) ∧
      (∀ name, loaded' name ≠ none → loaded name ≠ none ∨ name ∈ namesOf deps) ∧
      σ.cells.length < σb.cells.length

/-- **`bundle_dag_memoises`** — induction over the definition order. Let the modules `mods` be laid
out as the prelude leaves them, in definition order (dependencies first, as `inline_dag` proves for
the real emission order), and let every body satisfy `BodyOK` relative to the modules defined
BEFORE it. Then every accessor satisfies `AccSpec` at every admissible level: each call returns
the module's single value, a module body runs at most once in the whole run (a loaded module is
answered from its box with no event), all requirers receive the same value, values of loaded
modules never change, only the module and modules defined before it get loaded, and the invariant —
hence all of this — holds again after the call. -/
theorem bundle_dag_memoises (ρ : ExtOracle N) (L : Layout) (mods : List ModInfo) (lvl : ModInfo → Nat → Prop)
    (hkeys : KeysDistinct mods)
    (hbody : ∀ (i : Nat) (m : ModInfo) (n : Nat), mods[i]? = some m → lvl m n → BodyOK ρ L mods lvl m n (mods.take i)) :
    ∀ (i : Nat) (m : ModInfo) (n : Nat), mods[i]? = some m → lvl m n → AccSpec ρ L mods m (mods.take (i + 1)) n := by
  intro i
  induction i using Nat.strongRecOn with
  | _ i ih =>
    intro m n hmi hl loaded args ps σ hBI hP
    have hm : m ∈ mods := List.mem_of_getElem? hmi
    have htake : ∀ x ∈ mods.take i, x ∈ mods.take (i + 1) := by
      intro x hx
      obtain ⟨j, hjlt, hj'⟩ := getElem?_of_mem_take hx
      exact mem_take_of_getElem? (by omega) hj'
    have hmtake : m ∈ mods.take (i + 1) := mem_take_of_getElem? (Nat.lt_succ_self i) hmi
    have hdeps : ∀ d ∈ mods.take i, ∀ n', lvl d n' → AccSpec ρ L mods d (mods.take i) n' := by
      intro d hd n' hl'
      obtain ⟨j, hjlt, hj'⟩ := getElem?_of_mem_take hd
      refine (ih j hjlt d n' hj' hl').weaken ?_
      intro x hx
      obtain ⟨k, hklt, hk'⟩ := getElem?_of_mem_take hx
      exact mem_take_of_getElem? (by omega) hk'
    cases hload : loaded m.name with
    | some p =>
      obtain ⟨tb, w0⟩ := p
      have hh := bi_hit (callClosure ρ (n + 1)) ρ n L mods loaded m hm tb w0 [] σ hBI hload
      refine ⟨w0, (σ.allocCell (.tbl tb)).2, loaded, ?_, hh.2, hP.allocCell _, ⟨tb, hload⟩, fun _ _ h => h,
        fun _ h => Or.inl h, by simp [State.allocCell], ?_⟩
      · simp only [accClosure, accFn]
        rw [callClosure_noparams, hh.1]
      · intro tb' w0' h
        cases h
        exact ⟨rfl, rfl, rfl⟩
    | none =>
      obtain ⟨vs, σb, loaded', hrun, hb, hPb, hl', hmono, hnew, fcells⟩ :=
        hbody i m n hmi hl hdeps loaded ps σ hBI hP hload
      obtain ⟨ftables, fboxT, _, _, hfresh⟩ := hPb σ.tables.length List.mem_cons_self
      have hmiss := bi_miss (callClosure ρ (n + 1)) ρ n L mods hkeys loaded loaded' m hm [] vs σ σb hBI hload hrun hb
        hl' fcells ftables fboxT hfresh
      refine ⟨first vs, _, updLoaded loaded' m.name (σ.tables.length, first vs), ?_, hmiss.2,
        Pend.after_miss m.name (first vs) hP hPb, ?_, ?_, ?_, ?_, ?_⟩
      · simp only [accClosure, accFn]
        rw [callClosure_noparams, hmiss.1]
      · exact ⟨σ.tables.length, by simp [updLoaded]⟩
      · intro name x hx
        have hne : name ≠ m.name := by
          intro e; rw [e, hload] at hx; cases hx
        simp [updLoaded, hne, hmono name x hx]
      · intro name hn
        by_cases hnm : name = m.name
        · exact Or.inr (hnm ▸ List.mem_map.mpr ⟨m, hmtake, rfl⟩)
        · simp only [updLoaded, hnm, if_false] at hn
          rcases hnew name hn with h | h
          · exact Or.inl h
          · obtain ⟨x, hx, hxn⟩ := List.mem_map.mp h
            exact Or.inr (List.mem_map.mpr ⟨x, htake x hx, hxn⟩)
      · have : (afterMiss σb σ.cells.length σ.tables.length L.tC m.name (first vs)).cells.length = σb.cells.length := by
          simp [afterMiss, State.rawSet, State.setTable, State.setCell, listSet_length]
        omega
      · intro tb w0 h; cases h

-- non-vacuity of `bundle_prelude_establishes` (two modules; the byte inequalities of the literal
-- names are passed in because string literals do not reduce in the kernel)
example (call : CallFn natOps) (ρ : ExtOracle natOps) (σ : State natOps)
    (hab : bytesOf "a" ≠ bytesOf "b") (hac : bytesOf "a" ≠ bytesOf "cache") (hbc : bytesOf "b" ≠ bytesOf "cache") :
    ∃ infos σ', infos.map (fun m => (m.name, m.body)) = [("a", exBody), ("b", exBody)] ∧
      execSs call ρ 1 ⟨[], []⟩ (prelude "__DARKLUA_BUNDLE_MODULES" [("a", exBody), ("b", exBody)]) σ
        = .ok (.next ⟨[("__DARKLUA_BUNDLE_MODULES", σ.cells.length)], []⟩) σ' ∧
      BI (layoutOf "__DARKLUA_BUNDLE_MODULES" ⟨[], []⟩ σ) infos (fun _ => none) σ' :=
  bundle_prelude_establishes call ρ 0 ⟨[], []⟩ "__DARKLUA_BUNDLE_MODULES" _ σ (by simp) (by decide) (by decide)
    (by simp [hab])
    (by
      intro nb hnb
      simp at hnb
      rcases hnb with h | h <;> subst h
      · exact hac
      · exact hbc)

/-- a module whose body is `return false` (no requires) satisfies `BodyOK` in every bundle -/
theorem bodyOK_leaf (ρ : ExtOracle N) (L : Layout) (mods : List ModInfo) (lvl : ModInfo → Nat → Prop) (m : ModInfo)
    (hbodyEq : m.body = .mk [] (some (.ret [.false]))) (n : Nat) (deps : List ModInfo) :
    BodyOK ρ L mods lvl m n deps := by
  intro _ loaded ps σ hBI hP hl
  refine ⟨[.bool false], ((σ.allocCell .nil).2.allocTable { entries := [], mt := none }).2, loaded, ?_,
    (hBI.allocCell _).allocTable, ?_, hl, fun _ _ h => h, fun _ h => Or.inl h, ?_⟩
  · simp [callClosure, implClosure, implFn, hbodyEq, execB, execSs, execLast, evalEs, evalE, Res.bind, bindLocals]
  · exact (hP.allocCell _).allocTable_new (hBI.allocCell _)
  · simp [State.allocCell, State.allocTable]

-- non-vacuity of `bundle_dag_memoises`: a one-module bundle whose module returns `false`; in every
-- state satisfying the invariant its accessor obeys `AccSpec` at every level
example (ρ : ExtOracle natOps) (L : Layout) (cI i a : Nat) (n : Nat) :
    AccSpec ρ L [⟨"a", exBody, cI, i, a⟩] ⟨"a", exBody, cI, i, a⟩ [⟨"a", exBody, cI, i, a⟩] n :=
  bundle_dag_memoises ρ L [⟨"a", exBody, cI, i, a⟩] (fun _ _ => True)
    (by intro m hm m' hm' _; simp at hm hm'; rw [hm, hm'])
    (by
      intro j m n hj _
      have hm : m = ⟨"a", exBody, cI, i, a⟩ := by
        cases j with
        | zero => simpa using hj.symm
        | succ j => simp at hj
      subst hm
      exact bodyOK_leaf ρ L _ _ _ rfl n _)
    0 _ n rfl trivial

/-! ### the first-order fragment: modules that require earlier modules and return a value -/

/-- `local d = M.<name>()` — what a `local d = require("…")` becomes in a bundled module -/
def requireStmt (M name : String) : Stmt := .localAssign .loc [.mk "d" none] [accessorCall M name]

/-- a module of the first-order fragment: it requires the modules `reqs` (in this order, each into
the local `d`) and returns `ret` -/
def reqBody (M : String) (reqs : List String) (ret : Expr) : Block :=
  .mk (reqs.map (requireStmt M)) (some (.ret [ret]))

theorem evalE_call_noargs (call : CallFn N) (ρ : ExtOracle N) (k : Nat) (env : Env N) (f : Expr) (kd : ArgKind)
    (σ : State N) :
    evalE call ρ k env (.call f none kd []) σ
      = (evalE call ρ k env f σ).bind fun fv σ1 => callVal call ρ k (first fv) [] σ1 := by
  simp [evalE, evalEs, Res.bind]

theorem exec_requireStmt (ρ : ExtOracle N) (L : Layout) (mods deps : List ModInfo) (n' : Nat) (d : ModInfo)
    (hd : d ∈ mods) (hspec : AccSpec ρ L mods d deps n') (hMd : L.M ≠ "d")
    (env : Env N) (loaded : String → Option (Nat × Val N)) (ps : List Nat) (σ : State N)
    (hM : lookupAssoc L.M env.locals = some L.cM) (hBI : BI L mods loaded σ) (hP : Pend L mods ps loaded σ) :
    ∃ (env' : Env N) (σ' : State N) (loaded' : String → Option (Nat × Val N)),
      execS (callClosure ρ (n' + 2)) ρ (n' + 2) env (requireStmt L.M d.name) σ = .ok (.next env') σ' ∧
      lookupAssoc L.M env'.locals = some L.cM ∧ env'.varargs = env.varargs ∧
      BI L mods loaded' σ' ∧ Pend L mods ps loaded' σ' ∧
      (∀ name x, loaded name = some x → loaded' name = some x) ∧
      (∀ name, loaded' name ≠ none → loaded name ≠ none ∨ name ∈ namesOf deps) ∧
      σ.cells.length ≤ σ'.cells.length := by
  obtain ⟨w, σ1, loaded', hcall, hBI1, hP1, _, hmono, hnew, hcells, _⟩ := hspec loaded [] ps σ hBI hP
  have rd := hBI.ready d hd
  have hfield : evalE (callClosure ρ (n' + 2)) ρ (n' + 2) env (.field (.var L.M) d.name) σ = .ok [.fn d.accId] σ := by
    simp [evalE, lookupVar, hM, hBI.infra.cellM, Res.bind, indexVal, first, rd.field]
  have hMd' : ("d" == L.M) = false := beq_eq_false_iff_ne.mpr (Ne.symm hMd)
  refine ⟨⟨("d", σ1.cells.length) :: env.locals, env.varargs⟩, (σ1.allocCell w).2, loaded', ?_, ?_, rfl,
    hBI1.allocCell _, hP1.allocCell _, hmono, hnew, ?_⟩
  · have hE : evalE (callClosure ρ (n' + 2)) ρ (n' + 2) env (accessorCall L.M d.name) σ = .ok [w] σ1 := by
      simp only [accessorCall]
      rw [evalE_call_noargs, hfield]
      simp only [Res.bind, first, List.headD, callVal, rd.acc]
      exact hcall
    simp [requireStmt, execS, evalEs, hE, Res.bind, bindLocals, TName.name, first]
  · simp [lookupAssoc, hMd', hM]
  · have : (σ1.allocCell w).2.cells.length = σ1.cells.length + 1 := by simp [State.allocCell]
    omega

theorem exec_requires (ρ : ExtOracle N) (L : Layout) (mods deps : List ModInfo) (n' : Nat) (hMd : L.M ≠ "d") :
    ∀ (reqs : List ModInfo),
      (∀ d ∈ reqs, d ∈ mods ∧ AccSpec ρ L mods d deps n') →
      ∀ (env : Env N) (loaded : String → Option (Nat × Val N)) (ps : List Nat) (σ : State N),
        lookupAssoc L.M env.locals = some L.cM → BI L mods loaded σ → Pend L mods ps loaded σ →
        ∃ (env' : Env N) (σ' : State N) (loaded' : String → Option (Nat × Val N)),
          execSs (callClosure ρ (n' + 2)) ρ (n' + 2) env (reqs.map fun d => requireStmt L.M d.name) σ
            = .ok (.next env') σ' ∧
          lookupAssoc L.M env'.locals = some L.cM ∧ env'.varargs = env.varargs ∧
          BI L mods loaded' σ' ∧ Pend L mods ps loaded' σ' ∧
          (∀ name x, loaded name = some x → loaded' name = some x) ∧
          (∀ name, loaded' name ≠ none → loaded name ≠ none ∨ name ∈ namesOf deps) ∧
          σ.cells.length ≤ σ'.cells.length := by
  intro reqs
  induction reqs with
  | nil =>
    intro _ env loaded ps σ hM hBI hP
    exact ⟨env, σ, loaded, by simp [execSs], hM, rfl, hBI, hP, fun _ _ h => h, fun _ h => Or.inl h, Nat.le_refl _⟩
  | cons d rest ih =>
    intro hreq env loaded ps σ hM hBI hP
    obtain ⟨hd, hspec⟩ := hreq d List.mem_cons_self
    obtain ⟨env1, σ1, loaded1, hex1, hM1, hva1, hBI1, hP1, hmono1, hnew1, hc1⟩ :=
      exec_requireStmt ρ L mods deps n' d hd hspec hMd env loaded ps σ hM hBI hP
    obtain ⟨env2, σ2, loaded2, hex2, hM2, hva2, hBI2, hP2, hmono2, hnew2, hc2⟩ :=
      ih (fun x hx => hreq x (List.mem_cons_of_mem _ hx)) env1 loaded1 ps σ1 hM1 hBI1 hP1
    refine ⟨env2, σ2, loaded2, ?_, hM2, hva2.trans hva1, hBI2, hP2, fun name x h => hmono2 name x (hmono1 name x h),
      ?_, by omega⟩
    · simp only [List.map_cons, execSs, hex1, Res.bind]
      exact hex2
    · intro name hn
      rcases hnew2 name hn with h | h
      · exact hnew1 name h
      · exact Or.inr h

/-- **Bodies of the first-order fragment satisfy the contract.** A module that requires earlier
modules `reqs` (each through its accessor, into a local) and returns an expression whose evaluation
is pure — a literal, or the local holding a required value — satisfies `BodyOK`: its run returns,
keeps the bundle invariant and every pending box, loads only modules defined before it. This is the
step that makes `bundle_dag_memoises` a genuine induction: diamonds (`a` and `b` both requiring
`c`) are covered, `c` being answered from its box the second time. -/
theorem bodyOK_requires (ρ : ExtOracle N) (L : Layout) (mods : List ModInfo) (lvl : ModInfo → Nat → Prop) (m : ModInfo)
    (deps reqs : List ModInfo) (ret : Expr) (n' : Nat)
    (hbody : m.body = reqBody L.M (reqs.map (·.name)) ret)
    (hMd : L.M ≠ "d")
    (hreqs : ∀ d ∈ reqs, d ∈ mods ∧ d ∈ deps ∧ lvl d n')
    (hname : m.name ∉ namesOf deps)
    (hret : ∀ (env : Env N) (σ : State N), ∃ v, evalE (callClosure ρ (n' + 2)) ρ (n' + 2) env ret σ = .ok [v] σ) :
    BodyOK ρ L mods lvl m (n' + 2) deps := by
  intro hdeps loaded ps σ hBI hP hl
  have hBI2 : BI L mods loaded ((σ.allocCell .nil).2.allocTable { entries := [], mt := none }).2 :=
    (hBI.allocCell _).allocTable
  have hP2 : Pend L mods (σ.tables.length :: ps) loaded ((σ.allocCell .nil).2.allocTable { entries := [], mt := none }).2 :=
    (hP.allocCell _).allocTable_new (hBI.allocCell _)
  obtain ⟨env', σ', loaded', hex, _, _, hBI', hP', hmono, hnew, hcells⟩ :=
    exec_requires ρ L mods deps n' hMd reqs
      (fun d hd => ⟨(hreqs d hd).1, hdeps d (hreqs d hd).2.1 n' (hreqs d hd).2.2⟩)
      ⟨m.locals L, []⟩ loaded (σ.tables.length :: ps) _ (lookup_M_locals L m σ hBI.infra) hBI2 hP2
  obtain ⟨v, hv⟩ := hret env' σ'
  refine ⟨[v], σ', loaded', ?_, hBI', hP', ?_, hmono, hnew, ?_⟩
  · simp only [implClosure, implFn]
    rw [callClosure_noparams, hbody]
    simp only [reqBody, List.map_map, execB]
    have hex' : execSs (callClosure ρ (n' + 2)) ρ (n' + 2) ⟨m.locals L, []⟩
        (List.map (requireStmt L.M ∘ fun x => x.name) reqs) _ = _ := hex
    rw [hex']
    simp [Res.bind, execLast, evalEs, hv]
  · cases hq : loaded' m.name with
    | none => rfl
    | some x =>
      exfalso
      rcases hnew m.name (by rw [hq]; simp) with h | h
      · exact h hl
      · exact hname h
  · have : ((σ.allocCell (.nil : Val N)).2.allocTable { entries := [], mt := none }).2.cells.length = σ.cells.length + 1 := by
      simp [State.allocCell, State.allocTable]
    omega

-- non-vacuity of `bodyOK_requires` + `bundle_dag_memoises`: a diamond-shaped bundle
--   c: `return false`     a: `local d = M.c()  return d`     t: `local d = M.a()  local d = M.c()  return d`
-- (`c` is reached twice from `t`). In every state satisfying the invariant the accessor of `t` obeys
-- `AccSpec` at level 4. (Distinctness of the names as table keys is passed in: string literals do not
-- reduce in the kernel.)
section diamond
def exC : ModInfo := ⟨"c", exBody, 10, 20, 21⟩
def exA : ModInfo := ⟨"a", reqBody "M" ["c"] (.var "d"), 11, 22, 23⟩
def exT : ModInfo := ⟨"t", reqBody "M" ["a", "c"] (.var "d"), 12, 24, 25⟩
def exLvl : ModInfo → Nat → Prop := fun m n => m = exC ∨ (m = exA ∧ n = 2) ∨ (m = exT ∧ n = 4)

example (ρ : ExtOracle natOps) (L : Layout) (hM : L.M = "M") (hkeys : KeysDistinct [exC, exA, exT]) :
    AccSpec ρ L [exC, exA, exT] exT [exC, exA, exT] 4 := by
  have hMd : L.M ≠ "d" := by rw [hM]; decide
  have hne : ∀ m m' : ModInfo, m.name ≠ m'.name → m ≠ m' := fun m m' h e => h (e ▸ rfl)
  refine bundle_dag_memoises ρ L [exC, exA, exT] exLvl hkeys ?_ 2 exT 4 rfl (Or.inr (Or.inr ⟨rfl, rfl⟩))
  intro i m n hi hl
  match i, hi with
  | 0, hi =>
    have : m = exC := by simpa using hi.symm
    subst this
    exact bodyOK_leaf ρ L _ _ _ rfl n _
  | 1, hi =>
    have : m = exA := by simpa using hi.symm
    subst this
    have hn : n = 2 := by
      rcases hl with h | ⟨_, h⟩ | ⟨h, _⟩
      · exact absurd h (hne _ _ (by decide))
      · exact h
      · exact absurd h (hne _ _ (by decide))
    subst hn
    exact bodyOK_requires ρ L _ exLvl exA [exC] [exC] (.var "d") 0 (by rw [hM]; rfl) hMd
      (by intro d hd; simp at hd; subst hd; exact ⟨by simp, by simp, Or.inl rfl⟩)
      (by simp [namesOf, exA, exC])
      (fun env σ => ⟨_, rfl⟩)
  | 2, hi =>
    have : m = exT := by simpa using hi.symm
    subst this
    have hn : n = 4 := by
      rcases hl with h | ⟨h, _⟩ | ⟨_, h⟩
      · exact absurd h (hne _ _ (by decide))
      · exact absurd h (hne _ _ (by decide))
      · exact h
    subst hn
    -- `a` is admissible at level 2 and so is `c` (its body is a leaf: any level)
    exact bodyOK_requires ρ L _ exLvl exT [exC, exA] [exA, exC] (.var "d") 2 (by rw [hM]; rfl) hMd
      (by
        intro d hd
        simp at hd
        rcases hd with hd | hd <;> subst hd
        · exact ⟨by simp, by simp, Or.inr (Or.inl ⟨rfl, rfl⟩)⟩
        · exact ⟨by simp, by simp, Or.inl rfl⟩)
      (by simp [namesOf, exA, exC, exT])
      (fun env σ => ⟨_, rfl⟩)
  | k + 3, hi => simp at hi
end diamond

/-! ## The inlining walk (`RequirePathProcessor`) -/

section graph
variable {P : Type} [DecidableEq P]

/-- **Termination**: the recursion budget `|G| + 1` used by `inlineAll` (the function the driver
runs) is never exhausted, on any finite graph — cyclic or not, with missing or malformed files:
the model's `fuel` error never occurs, so `inlineAll` is the total function it should be. -/
theorem inline_total (G : Graph P) (entrySites : List (Site P)) :
    Err.fuel ∉ (inlineAll G entrySites).errors := by
  have key := inlineRequire_errs G (fun e => e ≠ .fuel) (fun n stack _ => free G stack < n)
    (by
      intro n stack p _ _
      refine ⟨?_, ?_, ?_, ?_, ?_, ?_⟩ <;> intros <;> simp)
    (by intro stack p h; omega)
    (by intro n stack p i _ _; simp)
    (by
      intro n stack p sites ret hc hidx hget s _ _ q _
      have := free_lt G stack p _ (indexOf?_none_not_mem p stack hidx) hget
      omega)
  have hv := visit_errs (fun e => e ≠ .fuel) (inlineRequire G (G.length + 1) []) true entrySites
    (by intros; simp)
    (fun s _ q _ _ => key (G.length + 1) [] q (by rw [free_nil]; omega)) St.empty (by intro e he; simp [St.empty] at he)
  intro hmem
  exact hv _ hmem rfl

/-- **Cycle reports are genuine**: every `cyclic` error collected by the walk names a list of files
`c, …, c` in which each file requires the next one, and every file on it is reachable from the
entry. -/
theorem inline_cyclic_sound (G : Graph P) (entrySites : List (Site P)) (ps : List P)
    (h : Err.cyclic ps ∈ (inlineAll G entrySites).errors) :
    GoodCycle G (Reach G entrySites) ps := by
  let R := Reach G entrySites
  have key := inlineRequire_errs G (fun e => ∀ ps, e = .cyclic ps → GoodCycle G R ps)
    (fun _ stack p => IsPath G (stack ++ [p]) ∧ ∀ x ∈ stack ++ [p], R x)
    (by
      intro n stack p _ _
      refine ⟨?_, ?_, ?_, ?_, ?_, ?_⟩ <;> intros <;> rename_i h <;> cases h)
    (by intro stack p _ ps h; cases h)
    (by
      intro n stack p i hc hidx ps' hps
      cases hps
      obtain ⟨t, ht⟩ := indexOf?_some_drop p stack i hidx
      have hpath : IsPath G ((stack ++ [p]).drop i) := isPath_drop G _ i hc.1
      have hlen : i ≤ stack.length := by
        by_cases hi : i ≤ stack.length
        · exact hi
        · have : stack.drop i = [] := List.drop_eq_nil_of_le (by omega)
          rw [this] at ht; cases ht
      have hdrop : (stack ++ [p]).drop i = stack.drop i ++ [p] := by
        rw [List.drop_append_of_le_length hlen]
      rw [hdrop] at hpath
      refine ⟨hpath, ⟨p, t, by rw [ht]⟩, ?_⟩
      intro x hx
      apply hc.2
      rcases List.mem_append.mp hx with hx | hx
      · exact List.mem_append_left _ (List.mem_of_mem_drop hx)
      · exact List.mem_append_right _ hx)
    (by
      intro n stack p sites ret hc _ hget s hs hsh q hq
      have he : Edge G p q := ⟨sites, ret, hget, s, hs, hsh, hq⟩
      refine ⟨isPath_snoc G stack p q hc.1 he, ?_⟩
      intro x hx
      rcases List.mem_append.mp hx with hx | hx
      · exact hc.2 x hx
      · have : x = q := by simpa using hx
        subst this
        exact Reach.step (hc.2 p (by simp)) he)
  have hv := visit_errs (fun e => ∀ ps, e = .cyclic ps → GoodCycle G R ps)
    (inlineRequire G (G.length + 1) []) true entrySites
    (by intro s _ q _ _ ps h; cases h)
    (fun s hs q hq hsh => key (G.length + 1) [] q
      ⟨trivial, by
        intro x hx
        have : x = q := by simpa using hx
        subst this
        refine Reach.root ⟨s, hs, ?_, hq⟩
        cases hb : s.shadowed
        · rfl
        · simp [hb] at hsh⟩)
    St.empty (by intro e he; simp [St.empty] at he)
  exact hv _ h ps rfl

/-- the files reachable from the entry are all present, parse, and return exactly one value (or are
data files), and every require call the walk acts on resolves to a file or is excluded -/
structure WellFormed (G : Graph P) (entrySites : List (Site P)) : Prop where
  entry : ∀ s ∈ entrySites, s.shadowed = false → ∀ q, s.target ≠ .notFound q
  node : ∀ p, Reach G entrySites p →
    G.get p = some .data ∨
      ∃ sites, G.get p = some (.lua sites .one) ∧ ∀ s ∈ sites, s.shadowed = false → ∀ q, s.target ≠ .notFound q

/-- no cycle of requires among the files reachable from the entry -/
def Acyclic (G : Graph P) (entrySites : List (Site P)) : Prop :=
  ¬ ∃ ps, GoodCycle G (Reach G entrySites) ps

/-- on a well-formed graph the only errors the walk can collect are cycle reports -/
theorem inline_wellformed_errors_cyclic (G : Graph P) (entrySites : List (Site P))
    (hwf : WellFormed G entrySites) :
    ∀ e ∈ (inlineAll G entrySites).errors, ∃ ps, e = .cyclic ps := by
  have key := inlineRequire_errs G (fun e => ∃ ps, e = .cyclic ps)
    (fun n stack p => Reach G entrySites p ∧ free G stack < n)
    (by
      intro n stack p hc _
      rcases hwf.node p hc.1 with hd | ⟨sites, hl, hs⟩
      · refine ⟨?_, ?_, ?_, ?_, ?_, ?_⟩
        · intro h; rw [hd] at h; cases h
        · intro h; rw [hd] at h; cases h
        · intro h; rw [hd] at h; cases h
        · intro sites' h; rw [hd] at h; cases h
        · intro sites' h; rw [hd] at h; cases h
        · intro sites' ret h; rw [hd] at h; cases h
      · refine ⟨?_, ?_, ?_, ?_, ?_, ?_⟩
        · intro h; rw [hl] at h; cases h
        · intro h; rw [hl] at h; cases h
        · intro h; rw [hl] at h; cases h
        · intro sites' h; rw [hl] at h; cases h
        · intro sites' h; rw [hl] at h; cases h
        · intro sites' ret h s hs' hsh q hq
          rw [hl] at h; cases h
          exact absurd hq (hs s hs' hsh q))
    (by intro stack p h; omega)
    (by intro n stack p i _ _; exact ⟨_, rfl⟩)
    (by
      intro n stack p sites ret hc hidx hget s hs hsh q hq
      have := free_lt G stack p _ (indexOf?_none_not_mem p stack hidx) hget
      exact ⟨Reach.step hc.1 ⟨sites, ret, hget, s, hs, hsh, hq⟩, by omega⟩)
  have hv := visit_errs (fun e => ∃ ps, e = .cyclic ps) (inlineRequire G (G.length + 1) []) true entrySites
    (by
      intro s hs q hq hsh
      have hsf : s.shadowed = false := by
        cases hb : s.shadowed
        · rfl
        · simp [hb] at hsh
      exact absurd hq (hwf.entry s hs hsf q))
    (fun s hs q hq hsh => key (G.length + 1) [] q
      ⟨Reach.root ⟨s, hs, by
        cases hb : s.shadowed
        · rfl
        · simp [hb] at hsh, hq⟩, by rw [free_nil]; omega⟩)
    St.empty (by intro e he; simp [St.empty] at he)
  exact hv

/-- **One definition per file, in dependency order.** If the walk collects no error (the bundler
succeeds) then, whatever the spellings and however often a file is required (diamonds):
* no file is defined twice (the key is the resolved path);
* the defined files are exactly the files reachable from the entry's unshadowed requires;
* every module is defined after all the modules it requires — so the reachable graph is acyclic
  and the definition order is a topological order of it. -/
theorem inline_dag (G : Graph P) (entrySites : List (Site P))
    (hok : (inlineAll G entrySites).errors = []) :
    let paths := (inlineAll G entrySites).defs.map (·.1)
    (∀ (i j : Nat) (p : P), paths[i]? = some p → paths[j]? = some p → i = j) ∧
    (∀ p, p ∈ paths ↔ Reach G entrySites p) ∧
    (∀ (i j : Nat) (p q : P), paths[i]? = some p → paths[j]? = some q → Edge G p q → j < i) := by
  intro paths
  have hspec := visit_spec G (Reach G entrySites) [] (inlineRequire G (G.length + 1) []) true entrySites
    (fun s hs q hq ha => inlineRequire_spec G (Reach G entrySites) (fun p q hp he => Reach.step hp he) _ [] q
      (Reach.root ⟨s, hs, by
        cases hb : s.shadowed
        · rfl
        · simp [Active, hb] at ha, hq⟩))
    St.empty
    ⟨by intro p i h; simp [St.empty, lookup] at h, by intro i p h; simp [St.empty, St.paths] at h,
     by intro i p h; simp [St.empty, St.paths] at h, by intro i p h; simp [St.empty, St.paths] at h,
     by intro h; simp [St.empty] at h⟩
    (by intro x hx; cases hx)
  obtain ⟨hI, _, _, hdone⟩ := hspec
  have hskip : (visit (inlineRequire G (G.length + 1) []) true entrySites St.empty).2.skip = [] := by
    by_cases h : (visit (inlineRequire G (G.length + 1) []) true entrySites St.empty).2.skip = []
    · exact h
    · exact absurd hok (hI.skipErr h)
  have huniq : ∀ (i j : Nat) (p : P), paths[i]? = some p → paths[j]? = some p → i = j := by
    intro i j p hi hj
    have h1 := hI.def_cache i p hi
    have h2 := hI.def_cache j p hj
    rw [h1] at h2; exact Option.some.inj h2
  refine ⟨huniq, ?_, ?_⟩
  · intro p
    constructor
    · intro hp
      obtain ⟨i, hi⟩ := List.getElem?_of_mem hp
      exact hI.reach i p hi
    · intro hp
      induction hp with
      | root hq =>
        obtain ⟨s, hs, hsh, ht⟩ := hq
        rcases hdone s hs _ ht (by simp [Active, hsh]) with h | ⟨j, hj⟩
        · rw [hskip] at h; cases h
        · exact List.mem_of_getElem? hj
      | step _ he ih =>
        obtain ⟨i, hi⟩ := List.getElem?_of_mem ih
        rcases hI.rank i _ hi _ he with h | ⟨j, _, hj⟩
        · rw [hskip] at h; cases h
        · exact List.mem_of_getElem? hj
  · intro i j p q hi hj he
    rcases hI.rank i p hi q he with h | ⟨j', hlt, hj'⟩
    · rw [hskip] at h; cases h
    · have := huniq j j' q hj hj'
      omega

/-- **Acyclic and well-formed ⇒ the bundler succeeds** (converse of `inline_dag`): if every file
reachable from the entry is present, parses and returns exactly one value, every acted-on require
resolves (or is excluded), and no cycle of requires is reachable, the walk collects no error. -/
theorem inline_wellformed_acyclic_ok (G : Graph P) (entrySites : List (Site P))
    (hwf : WellFormed G entrySites) (hac : Acyclic G entrySites) :
    (inlineAll G entrySites).errors = [] := by
  cases herr : (inlineAll G entrySites).errors with
  | nil => rfl
  | cons e rest =>
    exfalso
    have hmem : e ∈ (inlineAll G entrySites).errors := by rw [herr]; exact List.mem_cons_self
    obtain ⟨ps, hps⟩ := inline_wellformed_errors_cyclic G entrySites hwf e hmem
    subst hps
    exact hac ⟨ps, inline_cyclic_sound G entrySites ps hmem⟩

theorem path_rank (G : Graph P) (fin : List P) (rk : P → Nat)
    (hrk : ∀ p, p ∈ fin → ∀ q, Edge G p q → q ∈ fin ∧ rk q < rk p) :
    ∀ (l : List P) (a z : P), IsPath G (a :: (l ++ [z])) → a ∈ fin → rk z < rk a := by
  intro l
  induction l with
  | nil => intro a z hp ha; exact (hrk a ha z hp.1).2
  | cons b l ih =>
    intro a z hp ha
    have hb := hrk a ha b hp.1
    have := ih b z hp.2 hb.1
    omega

/-- **Cycle detection is complete**, whatever else is wrong with the graph (missing files, syntax
errors, wrong return shapes, bad extensions, excluded or shadowed requires): if some cycle of
requires is reachable from the entry, the walk collects at least one `cyclic` error. -/
theorem inline_cyclic_complete (G : Graph P) (entrySites : List (Site P))
    (hcyc : ∃ ps, GoodCycle G (Reach G entrySites) ps) :
    ∃ ps, Err.cyclic ps ∈ (inlineAll G entrySites).errors := by
  have hspec := visit_specC G [] (inlineRequire G (G.length + 1) []) true entrySites
    (inlineRequire_errPre G (G.length + 1) [])
    (fun s _ q _ => inlineRequire_specC G (G.length + 1) [] q (by rw [free_nil]; omega))
    St.empty (Or.inr ⟨⟨fun _ => 0, by intro p hp; simp [St.finished, St.empty] at hp⟩, by intro x hx; cases hx⟩)
  rcases hspec with h | ⟨⟨rk, hrk⟩, _, _, hdone⟩
  · exact h
  · exfalso
    obtain ⟨ps, hpath, ⟨c, mid, hps⟩, hreach⟩ := hcyc
    have hfin : ∀ p, Reach G entrySites p →
        p ∈ (visit (inlineRequire G (G.length + 1) []) true entrySites St.empty).2.finished := by
      intro p hp
      induction hp with
      | root hq =>
        obtain ⟨s, hs, hsh, ht⟩ := hq
        exact hdone s hs _ (by simp [activeTarget, hsh, ht])
      | step _ he ih => exact (hrk _ ih _ he).1
    subst hps
    have hc := hfin c (hreach c (by simp))
    have := path_rank G _ rk hrk mid c c hpath hc
    omega

/-- **`cyclic` is reported iff a cycle is reachable from the entry** (on every finite graph). -/
theorem inline_cyclic_iff (G : Graph P) (entrySites : List (Site P)) :
    (∃ ps, Err.cyclic ps ∈ (inlineAll G entrySites).errors) ↔ ∃ ps, GoodCycle G (Reach G entrySites) ps :=
  ⟨fun ⟨ps, h⟩ => ⟨ps, inline_cyclic_sound G entrySites ps h⟩, inline_cyclic_complete G entrySites⟩

end graph

/-! ### examples (non-vacuity) on concrete graphs over `Nat` paths -/

/-- entry requires 1 and 2; 1 requires 2 and 3; 2 requires 3 (twice); 3 is a data file -/
def exDag : Graph Nat :=
  [(1, .lua [⟨false, .file 2⟩, ⟨false, .file 3⟩] .one), (2, .lua [⟨false, .file 3⟩, ⟨false, .file 3⟩] .one), (3, .data)]
def exEntry : List (Site Nat) := [⟨false, .file 1⟩, ⟨false, .file 2⟩, ⟨true, .file 3⟩, ⟨false, .excluded⟩]

example : (inlineAll exDag exEntry).errors = [] ∧ (inlineAll exDag exEntry).defs.map (·.1) = [3, 2, 1] ∧
    (inlineAll exDag exEntry).entry = [some 2, some 1, none, none] := by decide

/-- 1 → 2 → 3 → 2 -/
def exCyc : Graph Nat :=
  [(1, .lua [⟨false, .file 2⟩] .one), (2, .lua [⟨false, .file 3⟩] .one), (3, .lua [⟨false, .file 2⟩] .one)]

example : Err.cyclic [2, 3, 2] ∈ (inlineAll exCyc [⟨false, .file 1⟩]).errors := by decide
example : Err.fuel ∉ (inlineAll exCyc [⟨false, .file 1⟩]).errors := inline_total _ _

/-! ## F8 (fixed): every file is walked with scopes -/

/-- FULL statement: a call site at which a local `require` is in scope is never rewritten —
neither in the entry nor in a required module. -/
def shadowed_never_rewritten_full : Prop :=
  ∀ (G : Graph Nat) (entrySites : List (Site Nat)),
    (∀ (k : Nat) (s : Site Nat), entrySites[k]? = some s → s.shadowed = true →
      (inlineAll G entrySites).entry[k]? = some none) ∧
    (∀ (p : Nat) (ds : List (Option Nat)) (sites : List (Site Nat)) (ret : RetShape),
      (p, ds) ∈ (inlineAll G entrySites).defs → G.get p = some (.lua sites ret) →
      ∀ (k : Nat) (s : Site Nat), sites[k]? = some s → s.shadowed = true → ds[k]? = some none)

theorem visit_entry_shadowed {P : Type} [DecidableEq P] (inl : P → St P → Except (Err P) Nat × St P)
    (sites : List (Site P)) (st : St P) (k : Nat) (s : Site P)
    (hk : sites[k]? = some s) (hs : s.shadowed = true) :
    (visit inl true sites st).1[k]? = some none := by
  induction sites generalizing st k with
  | nil => simp at hk
  | cons s0 rest ih =>
    cases k with
    | zero =>
      simp at hk; subst hk
      simp [visit, tryInline, hs]
    | succ k =>
      simp at hk
      simp only [visit, List.getElem?_cons_succ]
      exact ih _ k hk

/-- Since the fix of finding F8 (required modules are walked with `ScopeVisitor`, `/repo` commit
recorded in known_findings.json) the full statement HOLDS of the code, on every graph: no hypothesis
`H5` any more. -/
theorem shadowed_never_rewritten (G : Graph Nat) (entrySites : List (Site Nat)) :
    (∀ (k : Nat) (s : Site Nat), entrySites[k]? = some s → s.shadowed = true →
      (inlineAll G entrySites).entry[k]? = some none) ∧
    (∀ (p : Nat) (ds : List (Option Nat)) (sites : List (Site Nat)) (ret : RetShape),
      (p, ds) ∈ (inlineAll G entrySites).defs → G.get p = some (.lua sites ret) →
      ∀ (k : Nat) (s : Site Nat), sites[k]? = some s → s.shadowed = true → ds[k]? = some none) := by
  refine ⟨fun k s hk hs => visit_entry_shadowed _ entrySites St.empty k s hk hs, ?_⟩
  let Q : Nat → List (Option Nat) → Prop := fun p ds =>
    ∀ sites ret, G.get p = some (.lua sites ret) →
      ∀ (k : Nat) (s : Site Nat), sites[k]? = some s → s.shadowed = true → ds[k]? = some none
  have key := inlineRequire_defs G Q
    (by intro p hp sites ret h; rw [hp] at h; cases h)
    (by
      intro p sites ret inl st hget sites' ret' h k s hk hs
      rw [hget] at h; cases h
      exact visit_entry_shadowed inl sites st k s hk hs)
    (G.length + 1) []
  have hv := visit_defs Q (inlineRequire G (G.length + 1) []) true entrySites key St.empty
    (by intro pd hpd; simp [St.empty] at hpd)
  intro p ds sites ret hmem hget k s hk hs
  exact hv (p, ds) hmem sites ret hget k s hk hs

theorem shadowed_never_rewritten_full_holds : shadowed_never_rewritten_full :=
  fun G entrySites => shadowed_never_rewritten G entrySites

/-- the former witness of F8: module 1 shadows `require` and then calls it on a path resolving to file 2 -/
def exF8 : Graph Nat := [(1, .lua [⟨true, .file 2⟩] .one), (2, .data)]

-- regression: on the old witness the fixed model leaves the shadowed call alone and does not bundle file 2
example : (inlineAll exF8 [⟨false, .file 1⟩]).defs = [(1, [none])] ∧
    (inlineAll exF8 [⟨false, .file 1⟩]).errors = [] := by decide

-- non-vacuity: a graph whose entry AND a required module have shadowed call sites
example : exEntry[2]? = some ⟨true, .file 3⟩ ∧ exF8.get 1 = some (.lua [⟨true, .file 2⟩] .one) := ⟨by decide, rfl⟩

end DarkluaModel.C05
