import DarkluaModel.Shared.Run
import DarkluaModel.C05.Model
/-!
C05 helper lemmas: symbolic execution of the generated accessor on the reference semantics.
-/
namespace DarkluaModel.C05
open Sem

variable {N : NumOps}

/-- the accessor function `function M.<name>(): typeof(__modImpl()) … end` -/
def accFn (M name : String) : FnBody :=
  .mk [] false none (some (.typeof (.call (.var implName) none .tuple []))) [] [] (cachedBlock M name)

/-- the wrapper `local function __modImpl() <body> end` -/
def implFn (body : Block) : FnBody := .mk [] false none none [] [] body

theorem getCell_allocCell (σ : State N) (v x : Val N) (i : Nat) (h : σ.getCell i = x) (hx : x ≠ .nil) :
    (σ.allocCell v).2.getCell i = x := by
  unfold State.getCell State.allocCell at *
  simp only
  by_cases hi : i < σ.cells.length
  · rw [List.getElem?_append_left hi]; exact h
  · have : σ.cells[i]? = none := by simp; omega
    rw [this] at h; simp at h; exact absurd h.symm hx

theorem getCell_allocCell_new (σ : State N) (v : Val N) :
    (σ.allocCell v).2.getCell (σ.allocCell v).1 = v := by
  simp [State.getCell, State.allocCell]


theorem listSet_length {α : Type} (xs : List α) (i : Nat) (a : α) : (listSet xs i a).length = xs.length := by
  induction xs generalizing i with
  | nil => simp [listSet]
  | cons x xs ih => cases i <;> simp [listSet, ih]

theorem listSet_get_same {α : Type} (xs : List α) (i : Nat) (a : α) (h : i < xs.length) :
    (listSet xs i a)[i]? = some a := by
  induction xs generalizing i with
  | nil => simp at h
  | cons x xs ih =>
    cases i with
    | zero => simp [listSet]
    | succ j => simp [listSet]; exact ih j (by simpa using h)

theorem listSet_get_ne {α : Type} (xs : List α) (i j : Nat) (a : α) (h : i ≠ j) :
    (listSet xs i a)[j]? = xs[j]? := by
  induction xs generalizing i j with
  | nil => simp [listSet]
  | cons x xs ih =>
    cases i with
    | zero => cases j with
      | zero => exact absurd rfl h
      | succ j => simp [listSet]
    | succ i => cases j with
      | zero => simp [listSet]
      | succ j => simp [listSet]; exact ih i j (by omega)

theorem getTable_setTable_same (σ : State N) (i : Nat) (t : Table N) (h : i < σ.tables.length) :
    (σ.setTable i t).getTable i = t := by
  simp [State.getTable, State.setTable, listSet_get_same _ _ _ h]

theorem getTable_setTable_ne (σ : State N) (i j : Nat) (t : Table N) (h : i ≠ j) :
    (σ.setTable i t).getTable j = σ.getTable j := by
  simp [State.getTable, State.setTable, listSet_get_ne _ _ _ _ h]

theorem getCell_setCell_same (σ : State N) (i : Nat) (v : Val N) (h : i < σ.cells.length) :
    (σ.setCell i v).getCell i = v := by
  simp [State.getCell, State.setCell, listSet_get_same _ _ _ h]

theorem getCell_setCell_ne (σ : State N) (i j : Nat) (v : Val N) (h : i ≠ j) :
    (σ.setCell i v).getCell j = σ.getCell j := by
  simp [State.getCell, State.setCell, listSet_get_ne _ _ _ _ h]

theorem rawGet_rawSet_ne_table (σ : State N) (t u : Nat) (k k' v : Val N) (h : t ≠ u) :
    (σ.rawSet t k v).rawGet u k' = σ.rawGet u k' := by
  simp [State.rawGet, State.rawSet, getTable_setTable_ne _ _ _ _ h]

theorem getTable_rawSet_ne (σ : State N) (t u : Nat) (k v : Val N) (h : t ≠ u) :
    (σ.rawSet t k v).getTable u = σ.getTable u := by
  simp [State.rawSet, getTable_setTable_ne _ _ _ _ h]

theorem rawEq_str (s : List UInt8) : rawEq (N := N) (.str s) (.str s) = true := by simp [rawEq]

theorem rawGetEntries_rawSetEntries_same (s : List UInt8) (v : Val N) (hv : v ≠ .nil) (es : List (Val N × Val N)) :
    rawGetEntries (.str s) (rawSetEntries (.str s) v es) = v := by
  induction es with
  | nil => cases v <;> simp_all [rawSetEntries, rawGetEntries, rawEq]
  | cons e es ih =>
    obtain ⟨k', v'⟩ := e
    by_cases hk : rawEq k' (.str s) = true
    · cases v <;> simp_all [rawSetEntries, rawGetEntries]
    · simp [rawSetEntries, rawGetEntries, hk, ih]

theorem rawGetEntries_rawSetEntries_nil (s : List UInt8) (v : Val N) :
    rawGetEntries (.str s) (rawSetEntries (.str s) v []) = v := by
  cases v <;> simp [rawSetEntries, rawGetEntries, rawEq]



theorem eval_slot_hit (call : CallFn N) (ρ : ExtOracle N) (k : Nat) (env : Env N) (M name : String)
    (cM tM tC : Nat) (x : Val N) (σ : State N)
    (hM : lookupAssoc M env.locals = some cM)
    (hcell : σ.getCell cM = .tbl tM)
    (hcache : σ.rawGet tM (strVal "cache") = .tbl tC)
    (hbox : σ.rawGet tC (strVal name) = x) (hx : x ≠ .nil) :
    evalE call ρ (k + 1) env (.field (.field (.var M) "cache") name) σ = .ok [x] σ := by
  cases x <;> simp_all [evalE, lookupVar, Res.bind, indexVal, first]

theorem eval_slot_miss (call : CallFn N) (ρ : ExtOracle N) (k : Nat) (env : Env N) (M name : String)
    (cM tM tC : Nat) (σ : State N)
    (hM : lookupAssoc M env.locals = some cM)
    (hcell : σ.getCell cM = .tbl tM)
    (hcache : σ.rawGet tM (strVal "cache") = .tbl tC)
    (hbox : σ.rawGet tC (strVal name) = .nil) (hmt : (σ.getTable tC).mt = none) :
    evalE call ρ (k + 1) env (.field (.field (.var M) "cache") name) σ = .ok [.nil] σ := by
  simp_all [evalE, lookupVar, Res.bind, indexVal, first, State.metamethod, State.metaOf]


@[simp] theorem rawGet_allocCell (σ : State N) (v : Val N) (t : Nat) (k : Val N) :
    (σ.allocCell v).2.rawGet t k = σ.rawGet t k := rfl
@[simp] theorem getTable_allocCell (σ : State N) (v : Val N) (t : Nat) :
    (σ.allocCell v).2.getTable t = σ.getTable t := rfl
@[simp] theorem allocCell_fst (σ : State N) (v : Val N) : (σ.allocCell v).1 = σ.cells.length := rfl

theorem cached_hit (call : CallFn N) (ρ : ExtOracle N) (k : Nat) (M name : String) (env : Env N)
    (cM tM tC tb : Nat) (w : Val N) (σ : State N)
    (hM : lookupAssoc M env.locals = some cM)
    (hcell : σ.getCell cM = .tbl tM)
    (hcache : σ.rawGet tM (strVal "cache") = .tbl tC)
    (hbox : σ.rawGet tC (strVal name) = .tbl tb)
    (hc : σ.rawGet tb (strVal "c") = w)
    (hw : w ≠ .nil ∨ (σ.getTable tb).mt = none) :
    execB call ρ (k + 1) env (cachedBlock M name) σ
      = .ok (.ret [w]) (σ.allocCell (.tbl tb)).2 := by
  have h1 := eval_slot_hit call ρ k env M name cM tM tC (.tbl tb) σ hM hcell hcache hbox (by simp)
  have hget : (σ.allocCell (Val.tbl tb)).2.getCell σ.cells.length = .tbl tb := getCell_allocCell_new σ _
  simp only [cachedBlock, execB, execSs, execS, evalEs, h1, Res.bind, bindLocals, TName.name, List.map, first,
    List.headD]
  simp [execBranches, evalE, unopVal, lookupVar, lookupAssoc, Res.bind, first, hget, Val.truthy, execLast, evalEs,
    indexVal, hc]
  cases w with
  | nil =>
    have hmt : (σ.getTable tb).mt = none := by
      cases hw with
      | inl h => exact absurd rfl h
      | inr h => exact h
    simp [State.metamethod, State.metaOf, hmt]
  | _ => simp


@[simp] theorem getCell_allocTable (σ : State N) (t : Table N) (i : Nat) :
    (σ.allocTable t).2.getCell i = σ.getCell i := rfl
@[simp] theorem allocTable_fst (σ : State N) (t : Table N) : (σ.allocTable t).1 = σ.tables.length := rfl
@[simp] theorem closures_allocTable (σ : State N) (t : Table N) : (σ.allocTable t).2.closures = σ.closures := rfl
@[simp] theorem closures_allocCell (σ : State N) (v : Val N) : (σ.allocCell v).2.closures = σ.closures := rfl
@[simp] theorem getCell_rawSet (σ : State N) (t : Nat) (k v : Val N) (i : Nat) :
    (σ.rawSet t k v).getCell i = σ.getCell i := rfl
@[simp] theorem cells_rawSet (σ : State N) (t : Nat) (k v : Val N) : (σ.rawSet t k v).cells = σ.cells := rfl
@[simp] theorem rawGet_setCell (σ : State N) (i : Nat) (x : Val N) (t : Nat) (k : Val N) :
    (σ.setCell i x).rawGet t k = σ.rawGet t k := rfl
@[simp] theorem getTable_setCell (σ : State N) (i : Nat) (x : Val N) (t : Nat) :
    (σ.setCell i x).getTable t = σ.getTable t := rfl
@[simp] theorem trace_setCell (σ : State N) (i : Nat) (x : Val N) : (σ.setCell i x).trace = σ.trace := rfl
@[simp] theorem trace_rawSet (σ : State N) (t : Nat) (k v : Val N) : (σ.rawSet t k v).trace = σ.trace := rfl
@[simp] theorem trace_allocCell (σ : State N) (v : Val N) : (σ.allocCell v).2.trace = σ.trace := rfl

/-- the state after the first (cache-miss) call: the body ran (`σb`), its first value is boxed -/
def afterMiss (σb : State N) (cv tbx tC : Nat) (name : String) (v0 : Val N) : State N :=
  ((σb.rawSet tbx (strVal "c") v0).setCell cv (.tbl tbx)).rawSet tC (strVal name) (.tbl tbx)


def envV (env : Env N) (cv : Nat) : Env N := ⟨("v", cv) :: env.locals, env.varargs⟩

theorem exec_local_v (call : CallFn N) (ρ : ExtOracle N) (k : Nat) (env : Env N) (slot : Expr) (x : Val N) (σ : State N)
    (h : evalE call ρ k env slot σ = .ok [x] σ) :
    execS call ρ k env (.localAssign .loc [.mk "v" none] [slot]) σ
      = .ok (.next (envV env σ.cells.length)) (σ.allocCell x).2 := by
  simp [execS, evalEs, h, Res.bind, bindLocals, TName.name, first, envV]

theorem exec_box (call : CallFn N) (ρ : ExtOracle N) (k : Nat) (env : Env N) (cv cI fid : Nat)
    (clo : Closure N) (vs : List (Val N)) (σ1 σb : State N)
    (hI : lookupAssoc implName env.locals = some cI)
    (hcellI : σ1.getCell cI = .fn fid)
    (hclo : σ1.closures[fid]? = some clo)
    (hrun : call clo [] (σ1.allocTable { entries := [], mt := none }).2 = .ok vs σb) :
    execS call ρ (k + 1) (envV env cv)
        (.assign [.var "v"] [.table [.named "c" (.call (.var implName) none .tuple [])]]) σ1
      = .ok (.next (envV env cv)) ((σb.rawSet σ1.tables.length (strVal "c") (first vs)).setCell cv (.tbl σ1.tables.length)) := by
  have hI' : lookupAssoc "__modImpl" env.locals = some cI := hI
  simp [execS, evalTargets, evalTarget, evalEs, evalE, evalEntries, Res.bind, envV, lookupVar, lookupAssoc, implName,
    hI', hcellI, first, callVal, hclo, hrun, storeTargets, storeTarget, assignVar]

theorem exec_store_slot (call : CallFn N) (ρ : ExtOracle N) (k : Nat) (env : Env N) (M name : String)
    (cv cM tM tC : Nat) (x : Val N) (σ : State N)
    (hMv : M ≠ "v")
    (hM : lookupAssoc M env.locals = some cM)
    (hcell : σ.getCell cM = .tbl tM)
    (hcache : σ.rawGet tM (strVal "cache") = .tbl tC)
    (hslot : σ.rawGet tC (strVal name) = .nil)
    (hmt : (σ.getTable tC).mt = none)
    (hv : σ.getCell cv = x) :
    execS call ρ (k + 1) (envV env cv) (.assign [.field (.field (.var M) "cache") name] [.var "v"]) σ
      = .ok (.next (envV env cv)) (σ.rawSet tC (strVal name) x) := by
  have hMv' : ("v" == M) = false := beq_eq_false_iff_ne.mpr (Ne.symm hMv)
  simp [execS, evalTargets, evalTarget, evalEs, evalE, Res.bind, envV, lookupVar, lookupAssoc, hMv', hM, hcell,
    indexVal, hcache, first, storeTargets, storeTarget, setIndexVal, hslot, State.metamethod, State.metaOf, hmt, hv]
  simp [strVal]

theorem exec_return_vc (call : CallFn N) (ρ : ExtOracle N) (k : Nat) (env : Env N)
    (cv tb : Nat) (w : Val N) (σ : State N)
    (hv : σ.getCell cv = .tbl tb)
    (hc : σ.rawGet tb (strVal "c") = w)
    (hw : w ≠ .nil ∨ (σ.getTable tb).mt = none) :
    execLast call ρ (k + 1) (envV env cv) (.ret [.field (.var "v") "c"]) σ = .ok (.ret [w]) σ := by
  cases w with
  | nil =>
    have hmt : (σ.getTable tb).mt = none := by
      cases hw with
      | inl h => exact absurd rfl h
      | inr h => exact h
    simp [execLast, evalEs, evalE, Res.bind, envV, lookupVar, lookupAssoc, hv, indexVal, hc, first,
      State.metamethod, State.metaOf, hmt]
  | _ => simp [execLast, evalEs, evalE, Res.bind, envV, lookupVar, lookupAssoc, hv, indexVal, hc, first]

theorem exec_if_not_v (call : CallFn N) (ρ : ExtOracle N) (k : Nat) (env : Env N) (cv : Nat) (blk : Block)
    (e' : Env N) (σ1 σ4 : State N)
    (hv : σ1.getCell cv = .nil)
    (hblk : execB call ρ (k + 1) (envV env cv) blk σ1 = .ok (.next e') σ4) :
    execS call ρ (k + 1) (envV env cv) (.ifs [(.un .not (.var "v"), blk)] none) σ1
      = .ok (.next (envV env cv)) σ4 := by
  have hv' : lookupVar (envV env cv) "v" σ1 = .nil := by simp [lookupVar, envV, lookupAssoc, hv]
  simp [execS, execBranches, evalE, hv', unopVal, Res.bind, first, Val.truthy, hblk]

theorem exec_if_not_v_skip (call : CallFn N) (ρ : ExtOracle N) (k : Nat) (env : Env N) (cv : Nat) (blk : Block)
    (x : Val N) (σ1 : State N)
    (hv : σ1.getCell cv = x) (hx : x.truthy = true) :
    execS call ρ (k + 1) (envV env cv) (.ifs [(.un .not (.var "v"), blk)] none) σ1
      = .ok (.next (envV env cv)) σ1 := by
  have hv' : lookupVar (envV env cv) "v" σ1 = x := by simp [lookupVar, envV, lookupAssoc, hv]
  simp [execS, execBranches, evalE, hv', unopVal, Res.bind, first, hx]
  simp [Val.truthy]

theorem execB_two (call : CallFn N) (ρ : ExtOracle N) (k : Nat) (env : Env N) (s1 s2 : Stmt) (σ σ1 σ2 : State N)
    (h1 : execS call ρ k env s1 σ = .ok (.next env) σ1)
    (h2 : execS call ρ k env s2 σ1 = .ok (.next env) σ2) :
    execB call ρ k env (.mk [s1, s2] none) σ = .ok (.next env) σ2 := by
  simp [execB, execSs, h1, h2, Res.bind]

theorem rawGet_ne_nil_lt (σ : State N) (t : Nat) (k x : Val N) (h : σ.rawGet t k = x) (hx : x ≠ .nil) :
    t < σ.tables.length := by
  by_cases ht : t < σ.tables.length
  · exact ht
  · have : σ.tables[t]? = none := by simp; omega
    simp [State.rawGet, State.getTable, this, rawGetEntries] at h
    exact absurd h.symm hx

theorem cached_miss (call : CallFn N) (ρ : ExtOracle N) (k : Nat) (M name : String) (env : Env N)
    (cM tM tC cI fid : Nat) (clo : Closure N) (vs : List (Val N)) (σ σb : State N)
    (hMv : M ≠ "v")
    (hM : lookupAssoc M env.locals = some cM)
    (hI : lookupAssoc implName env.locals = some cI)
    (hcell : σ.getCell cM = .tbl tM)
    (hcache : σ.rawGet tM (strVal "cache") = .tbl tC)
    (hbox : σ.rawGet tC (strVal name) = .nil)
    (hmt : (σ.getTable tC).mt = none)
    (hcellI : σ.getCell cI = .fn fid)
    (hclo : σ.closures[fid]? = some clo)
    -- the body, run in the state the accessor calls it in
    (hrun : call clo [] ((σ.allocCell .nil).2.allocTable { entries := [], mt := none }).2 = .ok vs σb)
    -- frame: what the body's run must leave alone
    (fcells : σ.cells.length < σb.cells.length)
    (ftables : σ.tables.length < σb.tables.length)
    (fboxT : σb.getTable σ.tables.length = { entries := [], mt := none })
    (fM : σb.getCell cM = .tbl tM)
    (fcache : σb.rawGet tM (strVal "cache") = .tbl tC)
    (fslot : σb.rawGet tC (strVal name) = .nil)
    (fmt : (σb.getTable tC).mt = none)
    (htC : tC < σ.tables.length) :
    execB call ρ (k + 1) env (cachedBlock M name) σ
      = .ok (.ret [first vs]) (afterMiss σb σ.cells.length σ.tables.length tC name (first vs)) := by
  have h1 := eval_slot_miss call ρ k env M name cM tM tC σ hM hcell hcache hbox hmt
  have hcMne : σ.cells.length ≠ cM := by
    intro h; rw [← h] at hcell; simp [State.getCell] at hcell
  have htM : tM < σ.tables.length := rawGet_ne_nil_lt σ tM _ _ hcache (by simp)
  have htMne : σ.tables.length ≠ tM := by omega
  have htCne : σ.tables.length ≠ tC := by omega
  have e1 := exec_local_v call ρ (k + 1) env _ _ σ h1
  have e2 := exec_box call ρ k env σ.cells.length cI fid clo vs (σ.allocCell .nil).2 σb hI
    (getCell_allocCell σ _ _ _ hcellI (by simp)) (by simpa using hclo) hrun
  have hlen : (σ.allocCell (Val.nil : Val N)).2.tables.length = σ.tables.length := rfl
  rw [hlen] at e2
  have e3 := exec_store_slot call ρ k env M name σ.cells.length cM tM tC (.tbl σ.tables.length)
    ((σb.rawSet σ.tables.length (strVal "c") (first vs)).setCell σ.cells.length (.tbl σ.tables.length))
    hMv hM
    (by rw [getCell_setCell_ne _ _ _ _ hcMne]; simpa using fM)
    (by simp only [rawGet_setCell]; rw [rawGet_rawSet_ne_table _ _ _ _ _ _ htMne]; exact fcache)
    (by simp only [rawGet_setCell]; rw [rawGet_rawSet_ne_table _ _ _ _ _ _ htCne]; exact fslot)
    (by simp only [getTable_setCell]; rw [getTable_rawSet_ne _ _ _ _ _ htCne]; exact fmt)
    (getCell_setCell_same _ _ _ (by simpa using fcells))
  have eblk := execB_two call ρ (k + 1) (envV env σ.cells.length) _ _ _ _ _ e2 e3
  have e4 := exec_if_not_v call ρ k env σ.cells.length _ _ _ _ (getCell_allocCell_new σ (.nil : Val N)) eblk
  have hboxget : (σb.rawSet σ.tables.length (strVal "c") (first vs)).getTable σ.tables.length
      = { entries := rawSetEntries (strVal "c") (first vs) [], mt := none } := by
    simp only [State.rawSet]
    rw [getTable_setTable_same _ _ _ ftables, fboxT]
  have e5 := exec_return_vc call ρ k env σ.cells.length σ.tables.length (first vs)
    (afterMiss σb σ.cells.length σ.tables.length tC name (first vs))
    (by
      simp only [afterMiss, getCell_rawSet]
      exact getCell_setCell_same _ _ _ (by simpa using fcells))
    (by
      simp only [afterMiss]
      rw [rawGet_rawSet_ne_table _ _ _ _ _ _ (Ne.symm htCne)]
      rw [rawGet_setCell]
      unfold State.rawGet
      rw [hboxget]
      exact rawGetEntries_rawSetEntries_nil _ _)
    (Or.inr (by
      simp only [afterMiss]
      rw [getTable_rawSet_ne _ _ _ _ _ (Ne.symm htCne)]
      simp only [getTable_setCell, hboxget]))
  simp only [cachedBlock, execB, execSs, Res.bind, e1]
  rw [e4]
  simp only []
  exact e5


/-- after the first call the box is in place: what `cached_hit` needs -/
theorem afterMiss_box (σb : State N) (cv tbx tC : Nat) (name : String) (v0 : Val N)
    (ftables : tbx < σb.tables.length) (htC : tC < σb.tables.length) (hne : tbx ≠ tC)
    (fboxT : σb.getTable tbx = { entries := [], mt := none }) :
    (afterMiss σb cv tbx tC name v0).rawGet tC (strVal name) = .tbl tbx ∧
    (afterMiss σb cv tbx tC name v0).rawGet tbx (strVal "c") = v0 ∧
    ((afterMiss σb cv tbx tC name v0).getTable tbx).mt = none ∧
    (afterMiss σb cv tbx tC name v0).trace = σb.trace := by
  have hboxget : (σb.rawSet tbx (strVal "c") v0).getTable tbx
      = { entries := rawSetEntries (strVal "c") v0 [], mt := none } := by
    simp only [State.rawSet]
    rw [getTable_setTable_same _ _ _ ftables, fboxT]
  refine ⟨?_, ?_, ?_, rfl⟩
  · simp only [afterMiss]
    unfold State.rawGet State.rawSet
    rw [getTable_setTable_same _ _ _ (by simpa [State.setCell, State.setTable, listSet_length] using htC)]
    exact rawGetEntries_rawSetEntries_same _ _ (by simp) _
  · simp only [afterMiss]
    rw [rawGet_rawSet_ne_table _ _ _ _ _ _ (Ne.symm hne), rawGet_setCell]
    unfold State.rawGet
    rw [hboxget]
    exact rawGetEntries_rawSetEntries_nil _ _
  · simp only [afterMiss]
    rw [getTable_rawSet_ne _ _ _ _ _ (Ne.symm hne)]
    simp only [getTable_setCell, hboxget]


/-- state after executing one module definition in `σ` with environment `locals` -/
def afterDefinition (M name : String) (body : Block) (locals : List (String × Nat)) (tM : Nat) (σ : State N) : State N :=
  let cI := σ.cells.length
  let locals' := (implName, cI) :: locals
  let σ3 := ((σ.allocCell .nil).2.allocClosure ⟨implFn body, locals', []⟩).2.setCell cI (.fn σ.closures.length)
  (σ3.allocClosure ⟨accFn M name, locals', []⟩).2.rawSet tM (strVal name) (.fn σ3.closures.length)

theorem exec_localFn (call : CallFn N) (ρ : ExtOracle N) (k : Nat) (env : Env N) (f : String) (fb : FnBody) (σ : State N) :
    execS call ρ k env (.localFn .loc f fb) σ
      = .ok (.next ⟨(f, σ.cells.length) :: env.locals, env.varargs⟩)
          (((σ.allocCell .nil).2.allocClosure ⟨fb, (f, σ.cells.length) :: env.locals, []⟩).2.setCell σ.cells.length
            (.fn σ.closures.length)) := by
  simp [execS, State.allocClosure, State.allocCell]

theorem exec_function_field (call : CallFn N) (ρ : ExtOracle N) (k : Nat) (env : Env N) (M name : String) (fb : FnBody)
    (cM tM : Nat) (σ : State N)
    (hM : lookupAssoc M env.locals = some cM)
    (hcell : σ.getCell cM = .tbl tM)
    (hslot : σ.rawGet tM (strVal name) = .nil)
    (hmt : (σ.getTable tM).mt = none) :
    execS call ρ (k + 1) env (.function [M, name] none fb) σ
      = .ok (.next env) ((σ.allocClosure ⟨fb, env.locals, []⟩).2.rawSet tM (strVal name) (.fn σ.closures.length)) := by
  have h1 : (σ.allocClosure ⟨fb, env.locals, []⟩).2.getCell cM = .tbl tM := hcell
  have h2 : (σ.allocClosure ⟨fb, env.locals, []⟩).2.rawGet tM (strVal name) = .nil := hslot
  have h3 : ((σ.allocClosure ⟨fb, env.locals, []⟩).2.getTable tM).mt = none := hmt
  have h4 : (σ.allocClosure ⟨fb, env.locals, []⟩).1 = σ.closures.length := rfl
  simp only [execS, walkFields, lookupVar, hM, h1, Res.bind, List.append_nil, h4]
  simp [setIndexVal, h2, State.metamethod, State.metaOf, h3]
  simp [strVal]

theorem exec_do_two (call : CallFn N) (ρ : ExtOracle N) (k : Nat) (env env1 env2 : Env N) (s1 s2 : Stmt)
    (σ σ1 σ2 : State N)
    (h1 : execS call ρ k env s1 σ = .ok (.next env1) σ1)
    (h2 : execS call ρ k env1 s2 σ1 = .ok (.next env2) σ2) :
    execS call ρ k env (.doBlock (.mk [s1, s2] none)) σ = .ok (.next env) σ2 := by
  simp [execS, execB, execSs, h1, h2, Res.bind]

theorem exec_moduleDefinition (call : CallFn N) (ρ : ExtOracle N) (k : Nat) (env : Env N) (M name : String)
    (body : Block) (cM tM : Nat) (σ : State N)
    (hMI : M ≠ implName)
    (hM : lookupAssoc M env.locals = some cM)
    (hcell : σ.getCell cM = .tbl tM)
    (hslot : σ.rawGet tM (strVal name) = .nil)
    (hmt : (σ.getTable tM).mt = none) :
    execS call ρ (k + 1) env (moduleDefinition M name body) σ
      = .ok (.next env) (afterDefinition M name body env.locals tM σ) := by
  have hMI' : (implName == M) = false := beq_eq_false_iff_ne.mpr (Ne.symm hMI)
  have hcMne : σ.cells.length ≠ cM := by
    intro h; rw [← h] at hcell; simp [State.getCell] at hcell
  have e1 := exec_localFn call ρ (k + 1) env implName (implFn body) σ
  have e2 := exec_function_field call ρ k ⟨(implName, σ.cells.length) :: env.locals, env.varargs⟩ M name (accFn M name)
    cM tM
    (((σ.allocCell .nil).2.allocClosure ⟨implFn body, (implName, σ.cells.length) :: env.locals, []⟩).2.setCell
      σ.cells.length (.fn σ.closures.length))
    (by simp [lookupAssoc, hMI', hM])
    (by
      rw [getCell_setCell_ne _ _ _ _ hcMne]
      exact getCell_allocCell σ _ _ _ hcell (by simp))
    hslot hmt
  exact exec_do_two call ρ (k + 1) env _ _ _ _ σ _ _ e1 e2



/-- state after `local M = { cache = {} :: any }` -/
def afterTable (σ : State N) : State N :=
  ((((σ.allocTable { entries := [], mt := none }).2.allocTable { entries := [], mt := none }).2.rawSet
      σ.tables.length (strVal "cache") (.tbl (σ.tables.length + 1))).allocCell (.tbl σ.tables.length)).2

theorem exec_modulesTable (call : CallFn N) (ρ : ExtOracle N) (k : Nat) (env : Env N) (M : String) (σ : State N) :
    execS call ρ k env (modulesTable M) σ
      = .ok (.next ⟨(M, σ.cells.length) :: env.locals, env.varargs⟩) (afterTable σ) := by
  simp [modulesTable, execS, evalEs, evalE, evalEntries, Res.bind, bindLocals, TName.name, first, afterTable,
    State.allocTable, State.allocCell, State.rawSet, State.getTable, State.setTable]

theorem exec_do_one (call : CallFn N) (ρ : ExtOracle N) (k : Nat) (env env1 : Env N) (s1 : Stmt) (σ σ1 : State N)
    (h1 : execS call ρ k env s1 σ = .ok (.next env1) σ1) :
    execS call ρ k env (.doBlock (.mk [s1] none)) σ = .ok (.next env) σ1 := by
  simp [execS, execB, execSs, h1, Res.bind]

/-- Executing the statements `apply` puts in front of the entry (one module): afterwards only the
modules identifier `M` has been added to the scope, and the state is the modules table followed
by the module definition. -/
theorem prelude_single (call : CallFn N) (ρ : ExtOracle N) (k : Nat) (env : Env N) (M name : String) (B : Block)
    (σ : State N) (hMI : M ≠ implName) (hname : name.toUTF8.toList ≠ "cache".toUTF8.toList) :
    execSs call ρ (k + 1) env (prelude M [(name, B)]) σ
      = .ok (.next ⟨(M, σ.cells.length) :: env.locals, env.varargs⟩)
          (afterDefinition M name B ((M, σ.cells.length) :: env.locals) σ.tables.length (afterTable σ)) := by
  have hcell : (afterTable σ).getCell σ.cells.length = .tbl σ.tables.length := by
    simp [afterTable, State.getCell, State.allocCell, State.rawSet, State.setTable, State.allocTable]
  have hT : (afterTable σ).getTable σ.tables.length
      = { entries := [(strVal "cache", .tbl (σ.tables.length + 1))], mt := none } := by
    simp [afterTable, State.getTable, State.allocCell, State.rawSet, State.setTable, State.allocTable,
      listSet_get_same, rawSetEntries]
  have hslot : (afterTable σ).rawGet σ.tables.length (strVal name) = .nil := by
    have hne : ¬ "cache".toUTF8.toList = name.toUTF8.toList := fun h => hname h.symm
    simp [State.rawGet, hT, rawGetEntries, rawEq, strVal]
    exact hne
  have hmt : ((afterTable σ).getTable σ.tables.length).mt = none := by rw [hT]
  have e2 := exec_moduleDefinition call ρ k ⟨(M, σ.cells.length) :: env.locals, env.varargs⟩ M name B
    σ.cells.length σ.tables.length (afterTable σ) hMI (by simp [lookupAssoc]) hcell hslot hmt
  have e3 := exec_do_one call ρ (k + 1) _ _ _ _ _ e2
  simp only [prelude, List.map, execSs, exec_modulesTable, Res.bind]
  rw [e3]


/-- the closure created by `function M.<name>(): typeof(__modImpl()) … end` in environment `locals` -/
def accClosure (M name : String) (locals : List (String × Nat)) : Closure N := ⟨accFn M name, locals, []⟩

/-- the closure created by `local function __modImpl() <body> end` -/
def implClosure (body : Block) (locals : List (String × Nat)) : Closure N := ⟨implFn body, locals, []⟩

/-- What a later state must still have for the accessor of `name` to answer from its box `tb`:
the modules table, its `cache` table, the box stored under `name`, the boxed value. -/
structure Boxed (locals : List (String × Nat)) (M name : String) (cM tM tC tb : Nat) (w : Val N) (σ : State N) : Prop where
  hM : lookupAssoc M locals = some cM
  cellM : σ.getCell cM = .tbl tM
  cache : σ.rawGet tM (strVal "cache") = .tbl tC
  box : σ.rawGet tC (strVal name) = .tbl tb
  content : σ.rawGet tb (strVal "c") = w
  plain : (σ.getTable tb).mt = none


end DarkluaModel.C05
