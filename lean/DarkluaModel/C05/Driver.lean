import DarkluaModel.Shared.AstSexp
import DarkluaModel.C05.Model
/-!
Line-protocol handlers for property C05.

* `c05.inline <graph> <sites>` → `(bundle (defs (<path> <name> (<dec>*))*) (entry <dec>*) (errors <err>*))`
  graph  ::= ((<path> MODULE)*)          path, name = hex atoms (`x…`)
  MODULE ::= (lua (SITE*) RET) | data | parse-error | bad-ext          RET ::= one | none | many
  SITE   ::= (BOOL TARGET)               BOOL = a local `require` is in scope at the site
  TARGET ::= excluded | (notfound <path>) | (file <path>)
  dec    ::= - | <name>                  err ::= (notfound p) (cyclic p*) (missing p) (parse p) (badext p) (noreturn p) (manyreturn p) fuel
* `c05.assemble <M> ((<name> <block>)*) <block>` → the bundled block (`assemble`)
* `c05.names <k>` → the first k module names
-/
namespace DarkluaModel.C05

def targetOf? : Sexp → Option (Target String)
  | .atom "excluded" => some .excluded
  | .list [.atom "notfound", p] => (nameOfSexp? p).map .notFound
  | .list [.atom "file", p] => (nameOfSexp? p).map .file
  | _ => none

def siteOf? : Sexp → Option (Site String)
  | .list [b, t] =>
    match b.bool?, targetOf? t with
    | some b, some t => some ⟨b, t⟩
    | _, _ => none
  | _ => none

def retOf? : Sexp → Option RetShape
  | .atom "one" => some .one
  | .atom "none" => some .noReturn
  | .atom "many" => some .many
  | _ => none

def moduleOf? : Sexp → Option (Module String)
  | .atom "data" => some .data
  | .atom "parse-error" => some .parseError
  | .atom "bad-ext" => some .badExtension
  | .list [.atom "lua", .list sites, ret] =>
    match sites.mapM siteOf?, retOf? ret with
    | some ss, some r => some (.lua ss r)
    | _, _ => none
  | _ => none

def graphOf? : Sexp → Option (Graph String)
  | .list entries =>
    entries.mapM fun e =>
      match e with
      | .list [p, m] =>
        match nameOfSexp? p, moduleOf? m with
        | some p, some m => some (p, m)
        | _, _ => none
      | _ => none
  | _ => none

def decToSexp (names : List String) : Option Nat → Sexp
  | none => .atom "-"
  | some i => match names[i]? with
    | some n => nameToSexp n
    | none => .atom "?"

def errToSexp : Err String → Sexp
  | .notFound q => .list [.atom "notfound", nameToSexp q]
  | .cyclic ps => .list (.atom "cyclic" :: ps.map nameToSexp)
  | .missing p => .list [.atom "missing", nameToSexp p]
  | .parse p => .list [.atom "parse", nameToSexp p]
  | .badExtension p => .list [.atom "badext", nameToSexp p]
  | .noReturn p => .list [.atom "noreturn", nameToSexp p]
  | .manyReturn p => .list [.atom "manyreturn", nameToSexp p]
  | .fuel => .atom "fuel"

def bundleToSexp (b : Bundle String) : Sexp :=
  let names := moduleNames b.defs.length
  .list [.atom "bundle",
    .list (.atom "defs" :: (b.defs.zip names).map fun ((p, ds), n) =>
      .list [nameToSexp p, nameToSexp n, .list (ds.map (decToSexp names))]),
    .list (.atom "entry" :: b.entry.map (decToSexp names)),
    .list (.atom "errors" :: b.errors.map errToSexp)]

def handle (op : String) (args : List String) : String :=
  match op, Sexp.parseArgs args with
  | "inline", some [g, .list sites] =>
    match graphOf? g, sites.mapM siteOf? with
    | some G, some ss => (bundleToSexp (inlineAll G ss)).toString
    | _, _ => "bad-request"
  | "assemble", some [m, .list mods, entry] =>
    let mods? := mods.mapM fun e =>
      match e with
      | .list [n, b] =>
        match nameOfSexp? n, Block.ofSexp? b with
        | some n, some b => some (n, b)
        | _, _ => none
      | _ => none
    match nameOfSexp? m, mods?, Block.ofSexp? entry with
    | some M, some mods, some e => (assemble M mods e).toSexp.toString
    | _, _, _ => "bad-request"
  | "names", some [k] =>
    match k.nat? with
    | some k => " ".intercalate ((moduleNames k).map fun n => (nameToSexp n).toString)
    | none => "bad-request"
  | _, _ => "unknown-op " ++ op

end DarkluaModel.C05
