import DarkluaModel.Util.Sexp
/-! Line-protocol handlers for property C05 (stub: nothing modelled yet). -/
namespace DarkluaModel.C05

def handle (op : String) (_args : List String) : String :=
  "unknown-op " ++ op

end DarkluaModel.C05
