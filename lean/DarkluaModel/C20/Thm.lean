import DarkluaModel.C20.Model
import DarkluaModel.C20.Spec
/-!
C20 — "File and rule filters select exactly the matching files": the property theorems.
All statements are for every matcher `m`, every pattern list, every rule effect, every path.
-/
namespace DarkluaModel.C20

variable {P Path B E : Type}

/-- The verdict of a filter (top level or on a rule): yes exactly when some apply pattern matches
(or none is given) and no skip pattern matches. -/
theorem filter_exact (m : P → Path → Bool) (apply skip : List P) (path : Path) :
    shouldApply m apply skip path = true ↔
      (apply = [] ∨ ∃ p ∈ apply, m p path = true) ∧ ¬ ∃ p ∈ skip, m p path = true := by
  unfold shouldApply
  cases apply with
  | nil => cases skip <;> simp
  | cons a as =>
    cases skip with
    | nil =>
      by_cases h : m a path = true <;> simp [h]
    | cons s ss =>
      by_cases h : m a path = true <;> by_cases h2 : m s path = true <;> simp [h, h2]

example : shouldApply (fun (p : Nat) (q : Nat) => p == q) [1, 2] [3] 2 = true := by decide
example : shouldApply (fun (p : Nat) (q : Nat) => p == q) [1, 2] [2] 2 = false := by decide

/-- At the top level: a file is processed (rules run and an output is written, or a rule fails)
exactly under the same condition; otherwise it is left untouched. -/
theorem filter_exact_file (m : P → Path → Bool) (c : Config P Path B E) (path : Path) (b : B) :
    processFile m c path b ≠ .untouched ↔
      (c.apply = [] ∨ ∃ p ∈ c.apply, m p path = true) ∧ ¬ ∃ p ∈ c.skip, m p path = true := by
  rw [← filter_exact]
  unfold processFile
  cases h : shouldApply m c.apply c.skip path
  · simp
  · simp only [Bool.not_true, Bool.false_eq_true, if_false]
    cases applyRules m c.rules path b <;> simp

example : processFile (fun (p : Nat) (q : Nat) => p == q) (tagConfig [1] [] [([], [])]) 1 [] = .written [0] := by
  decide
example : processFile (fun (p : Nat) (q : Nat) => p == q) (tagConfig [1] [] [([], [])]) 2 [] = .untouched := by
  decide

/-- a rule with its filters cleared -/
def Rule.clear (r : Rule P Path B E) : Rule P Path B E := { r with apply := [], skip := [] }

theorem shouldApply_nil (m : P → Path → Bool) (path : Path) : shouldApply m [] [] path = true := by
  simp [shouldApply]

/-- **Deletion, excluded file**: if the filter of the rule at any position says no for a file, the
pipeline gives that file exactly what the pipeline *without that rule* gives it. -/
theorem rule_filter_is_deletion_excluded (m : P → Path → Bool) (pre post : List (Rule P Path B E))
    (r : Rule P Path B E) (path : Path) (b : B) (h : shouldApply m r.apply r.skip path = false) :
    applyRules m (pre ++ r :: post) path b = applyRules m (pre ++ post) path b := by
  induction pre generalizing b with
  | nil => simp [applyRules, h]
  | cons q qs ih =>
    simp only [List.cons_append, applyRules]
    split
    · split
      · exact ih _
      · rfl
    · exact ih _

/-- **Deletion, included file**: if the filter says yes, the file gets what the full pipeline with
that rule unfiltered gives it. -/
theorem rule_filter_is_deletion_included (m : P → Path → Bool) (pre post : List (Rule P Path B E))
    (r : Rule P Path B E) (path : Path) (b : B) (h : shouldApply m r.apply r.skip path = true) :
    applyRules m (pre ++ r :: post) path b = applyRules m (pre ++ r.clear :: post) path b := by
  induction pre generalizing b with
  | nil => simp [applyRules, h, Rule.clear, shouldApply_nil]
  | cons q qs ih =>
    simp only [List.cons_append, applyRules]
    split
    · split
      · exact ih _
      · rfl
    · exact ih _

/-- Both cases at once, by position: putting filters `apply/skip` on rule `i` makes the pipeline
behave, on each file, as the pipeline with rule `i` unfiltered (verdict yes) or erased (verdict no). -/
theorem rule_filter_is_deletion (m : P → Path → Bool) (rules : List (Rule P Path B E)) (i : Nat)
    (hi : i < rules.length) (apply skip : List P) (path : Path) (b : B) :
    applyRules m (setFilter i apply skip rules) path b =
      if shouldApply m apply skip path then applyRules m (setFilter i [] [] rules) path b
      else applyRules m (rules.eraseIdx i) path b := by
  induction rules generalizing i b with
  | nil => simp at hi
  | cons r rs ih =>
    cases i with
    | zero =>
      cases hs : shouldApply m apply skip path <;>
        simp [setFilter, applyRules, shouldApply_nil, hs]
    | succ j =>
      have hj : j < rs.length := by simpa using hi
      simp only [setFilter, List.modify_succ_cons, List.eraseIdx_cons_succ, applyRules] at ih ⊢
      cases hs : shouldApply m apply skip path
      · simp only [hs, Bool.false_eq_true, if_false] at ih ⊢
        split
        · split
          · exact ih j hj _
          · rfl
        · exact ih j hj _
      · simp only [hs, if_true] at ih ⊢
        split
        · split
          · exact ih j hj _
          · rfl
        · exact ih j hj _

example :
    applyRules (fun (p : Nat) (q : Nat) => p == q)
      (setFilter 1 [] [7] [tagRule 0 [] [], tagRule 1 [] [], tagRule 2 [] []]) 7 [] = .ok [0, 2] := by
  rfl
example :
    applyRules (fun (p : Nat) (q : Nat) => p == q)
      (setFilter 1 [] [7] [tagRule 0 [] [], tagRule 1 [] [], tagRule 2 [] []]) 8 [] = .ok [0, 1, 2] := by
  rfl

/-- The same at the level of whole-file outcomes. -/
theorem rule_filter_is_deletion_file (m : P → Path → Bool) (c : Config P Path B E) (i : Nat)
    (hi : i < c.rules.length) (apply skip : List P) (path : Path) (b : B) :
    processFile m { c with rules := setFilter i apply skip c.rules } path b =
      if shouldApply m apply skip path then processFile m { c with rules := setFilter i [] [] c.rules } path b
      else processFile m { c with rules := c.rules.eraseIdx i } path b := by
  unfold processFile
  simp only [rule_filter_is_deletion m c.rules i hi apply skip path b]
  cases shouldApply m apply skip path <;> simp

/-- The pipeline is the unfiltered pipeline of exactly the selected rules (this is the form the
harness uses: it compares a real filtered run with a real run of the selected rules only). -/
theorem pipeline_is_selected (m : P → Path → Bool) (rules : List (Rule P Path B E)) (path : Path) (b : B) :
    applyRules m rules path b =
      applyRules m ((rules.filter fun r => shouldApply m r.apply r.skip path).map Rule.clear) path b := by
  induction rules generalizing b with
  | nil => rfl
  | cons r rs ih =>
    cases h : shouldApply m r.apply r.skip path
    · simp only [applyRules, h, Bool.false_eq_true, if_false, List.filter_cons_of_neg, not_false_eq_true]
      exact ih _
    · simp only [applyRules, h, if_true, List.filter_cons_of_pos, List.map_cons, Rule.clear,
        shouldApply_nil]
      cases r.run path b with
      | ok b' => exact ih _
      | error e => rfl

theorem appliedFrom_mem (m : P → Path → Bool) (rules : List (Rule P Path B E)) (path : Path)
    (start j : Nat) :
    j ∈ appliedFrom m start rules path ↔
      ∃ k, ∃ h : k < rules.length, j = start + k ∧
        shouldApply m (rules[k]).apply (rules[k]).skip path = true := by
  induction rules generalizing start with
  | nil => simp [appliedFrom]
  | cons r rs ih =>
    unfold appliedFrom
    constructor
    · intro hj
      split at hj
      · rcases List.mem_cons.mp hj with h0 | h1
        · exact ⟨0, by simp, by simp [h0], by simpa⟩
        · obtain ⟨k, hk, hjk, hs⟩ := (ih (start + 1)).mp h1
          exact ⟨k + 1, by simpa using hk, by omega, by simpa using hs⟩
      · obtain ⟨k, hk, hjk, hs⟩ := (ih (start + 1)).mp hj
        exact ⟨k + 1, by simpa using hk, by omega, by simpa using hs⟩
    · rintro ⟨k, hk, hjk, hs⟩
      cases k with
      | zero =>
        simp only [List.getElem_cons_zero] at hs
        simp [hs, hjk]
      | succ k' =>
        have : j ∈ appliedFrom m (start + 1) rs path :=
          (ih (start + 1)).mpr ⟨k', by simpa using hk, by omega, by simpa using hs⟩
        split
        · exact List.mem_cons_of_mem _ this
        · exact this

/-- rule `j` runs on `path` iff `j` is a position of the pipeline whose own filter says yes -/
theorem applied_mem (m : P → Path → Bool) (rules : List (Rule P Path B E)) (path : Path) (j : Nat) :
    j ∈ applied m rules path ↔
      ∃ h : j < rules.length, shouldApply m (rules[j]).apply (rules[j]).skip path = true := by
  unfold applied
  rw [appliedFrom_mem]
  constructor
  · rintro ⟨k, hk, hjk, hs⟩
    have : j = k := by omega
    subst this
    exact ⟨hk, hs⟩
  · rintro ⟨h, hs⟩
    exact ⟨j, h, by omega, hs⟩

/-- **Locality (which rules run)**: a filter put on rule `i` never changes whether any *other* rule
`j ≠ i` runs on any file. -/
theorem filters_local (m : P → Path → Bool) (rules : List (Rule P Path B E)) (i j : Nat) (hij : j ≠ i)
    (apply skip : List P) (path : Path) :
    j ∈ applied m (setFilter i apply skip rules) path ↔ j ∈ applied m rules path := by
  simp only [applied_mem, setFilter, List.length_modify]
  constructor
  · rintro ⟨h, hs⟩
    refine ⟨h, ?_⟩
    rw [List.getElem_modify] at hs
    simpa [Ne.symm hij] using hs
  · rintro ⟨h, hs⟩
    refine ⟨h, ?_⟩
    rw [List.getElem_modify]
    simpa [Ne.symm hij] using hs

example : applied (fun (p : Nat) (q : Nat) => p == q)
    (setFilter 1 [] [7] [tagRule 0 [] [], tagRule 1 [] [], tagRule 2 [5] []]) 7 = [0] := by decide

/-- **Locality (outputs)**: changing the filter of rule `i` changes the output of a file only if
the filter's verdict *on that file* changes; every other file keeps its output. -/
theorem filters_local_output (m : P → Path → Bool) (rules : List (Rule P Path B E)) (i : Nat)
    (hi : i < rules.length) (apply skip apply' skip' : List P) (path : Path) (b : B)
    (h : shouldApply m apply skip path = shouldApply m apply' skip' path) :
    applyRules m (setFilter i apply skip rules) path b =
      applyRules m (setFilter i apply' skip' rules) path b := by
  rw [rule_filter_is_deletion m rules i hi apply skip, rule_filter_is_deletion m rules i hi apply' skip', h]

/-- **Locality (top level)**: the top-level filter either leaves a file untouched or lets the
pipeline run exactly as if there were no top-level filter; it never alters what the rules do. -/
theorem global_filter_local (m : P → Path → Bool) (c : Config P Path B E) (path : Path) (b : B) :
    processFile m c path b = .untouched ∨
      processFile m c path b = processFile m { c with apply := [], skip := [] } path b := by
  unfold processFile
  cases shouldApply m c.apply c.skip path <;> simp [shouldApply_nil]

example : processFile (fun (p : Nat) (q : Nat) => p == q) (tagConfig [] [4] [([], []), ([4], [])]) 5 []
    = .written [0] := by decide

/-! ### the verdict depends only on the SET of patterns, and is monotone in each list -/

/-- **Order and duplication independence**: two filters whose apply lists have the same members
(both empty or both not) and whose skip lists have the same members give the same verdict on every
path — reordering or repeating patterns in `apply_to_files` / `skip_files` never changes the selection. -/
theorem filter_set_only (m : P → Path → Bool) (apply apply' skip skip' : List P) (path : Path)
    (ha : ∀ p, p ∈ apply ↔ p ∈ apply') (hs : ∀ p, p ∈ skip ↔ p ∈ skip') :
    shouldApply m apply skip path = shouldApply m apply' skip' path := by
  have hnil : apply = [] ↔ apply' = [] := by
    constructor
    · intro h; subst h
      cases apply' with
      | nil => rfl
      | cons a as => exact absurd ((ha a).2 (List.mem_cons_self ..)) (by simp)
    · intro h; subst h
      cases apply with
      | nil => rfl
      | cons a as => exact absurd ((ha a).1 (List.mem_cons_self ..)) (by simp)
  have h1 := filter_exact m apply skip path
  have h2 := filter_exact m apply' skip' path
  have : shouldApply m apply skip path = true ↔ shouldApply m apply' skip' path = true := by
    rw [h1, h2, hnil]
    constructor
    · rintro ⟨h | ⟨p, hp, hm⟩, hn⟩
      · exact ⟨.inl h, fun ⟨q, hq, hqm⟩ => hn ⟨q, (hs q).2 hq, hqm⟩⟩
      · exact ⟨.inr ⟨p, (ha p).1 hp, hm⟩, fun ⟨q, hq, hqm⟩ => hn ⟨q, (hs q).2 hq, hqm⟩⟩
    · rintro ⟨h | ⟨p, hp, hm⟩, hn⟩
      · exact ⟨.inl h, fun ⟨q, hq, hqm⟩ => hn ⟨q, (hs q).1 hq, hqm⟩⟩
      · exact ⟨.inr ⟨p, (ha p).2 hp, hm⟩, fun ⟨q, hq, hqm⟩ => hn ⟨q, (hs q).1 hq, hqm⟩⟩
  cases h : shouldApply m apply skip path <;> cases h' : shouldApply m apply' skip' path <;> simp_all

/-- Permuting either list is a special case. -/
theorem filter_perm (m : P → Path → Bool) {apply apply' skip skip' : List P} (path : Path)
    (ha : apply.Perm apply') (hs : skip.Perm skip') :
    shouldApply m apply skip path = shouldApply m apply' skip' path :=
  filter_set_only m apply apply' skip skip' path (fun _ => ha.mem_iff) (fun _ => hs.mem_iff)

example : shouldApply (fun (p : Nat) (q : Nat) => p == q) [1, 2, 1] [3, 4] 2 =
    shouldApply (fun (p : Nat) (q : Nat) => p == q) [2, 1] [4, 3, 3] 2 :=
  filter_set_only _ _ _ _ _ _ (by intro p; simp only [List.mem_cons, List.not_mem_nil, or_false]; omega)
    (by intro p; simp only [List.mem_cons, List.not_mem_nil, or_false]; omega)

/-- **A skip pattern only ever removes files**: adding patterns to the skip list never selects a
file that was not selected before. -/
theorem skip_antitone (m : P → Path → Bool) (apply skip more : List P) (path : Path)
    (h : shouldApply m apply (skip ++ more) path = true) : shouldApply m apply skip path = true := by
  rw [filter_exact] at h ⊢
  exact ⟨h.1, fun ⟨p, hp, hm⟩ => h.2 ⟨p, List.mem_append_left _ hp, hm⟩⟩

/-- **An extra apply pattern only ever adds files**, provided the list was not empty (an empty
apply list means "every file", so the first pattern given restricts — the one non-monotone step). -/
theorem apply_monotone (m : P → Path → Bool) (apply skip more : List P) (path : Path)
    (hne : apply ≠ []) (h : shouldApply m apply skip path = true) :
    shouldApply m (apply ++ more) skip path = true := by
  rw [filter_exact] at h ⊢
  rcases h with ⟨h | ⟨p, hp, hm⟩, hn⟩
  · exact absurd h hne
  · exact ⟨.inr ⟨p, List.mem_append_left _ hp, hm⟩, hn⟩

/-- the exception is real: the first apply pattern can deselect a file -/
example : shouldApply (fun (p : Nat) (q : Nat) => p == q) [] [] 2 = true ∧
    shouldApply (fun (p : Nat) (q : Nat) => p == q) ([] ++ [1]) [] 2 = false := by decide
example : shouldApply (fun (p : Nat) (q : Nat) => p == q) [1] [] 1 = true ∧
    shouldApply (fun (p : Nat) (q : Nat) => p == q) ([1] ++ [2]) [] 1 = true := by decide

/-- **Skip wins**: a path matched by a skip pattern is never selected, whatever the apply list says. -/
theorem skip_wins (m : P → Path → Bool) (apply skip : List P) (path : Path) (p : P)
    (hp : p ∈ skip) (hm : m p path = true) : shouldApply m apply skip path = false := by
  cases h : shouldApply m apply skip path
  · rfl
  · exact absurd ⟨p, hp, hm⟩ ((filter_exact m apply skip path).1 h).2

example : shouldApply (fun (p : Nat) (q : Nat) => p == q) [2] [2] 2 = false :=
  skip_wins _ _ _ _ 2 (by decide) (by decide)

/-- Lifted to the whole pipeline: the result of a file depends on each rule's filters only through
their pattern SETS — reordering or repeating the patterns of rule `i` changes nothing, on any file,
for any rule effects (errors included). -/
theorem pipeline_set_only (m : P → Path → Bool) (rules : List (Rule P Path B E)) (i : Nat)
    (hi : i < rules.length) (apply skip apply' skip' : List P) (path : Path) (b : B)
    (ha : ∀ p, p ∈ apply ↔ p ∈ apply') (hs : ∀ p, p ∈ skip ↔ p ∈ skip') :
    applyRules m (setFilter i apply skip rules) path b =
      applyRules m (setFilter i apply' skip' rules) path b :=
  filters_local_output m rules i hi apply skip apply' skip' path b
    (filter_set_only m apply apply' skip skip' path ha hs)

/-- The same at the top level. -/
theorem file_set_only (m : P → Path → Bool) (c : Config P Path B E) (apply' skip' : List P) (path : Path) (b : B)
    (ha : ∀ p, p ∈ c.apply ↔ p ∈ apply') (hs : ∀ p, p ∈ c.skip ↔ p ∈ skip') :
    processFile m c path b = processFile m { c with apply := apply', skip := skip' } path b := by
  unfold processFile
  rw [filter_set_only m c.apply apply' c.skip skip' path ha hs]

example : processFile (fun (p : Nat) (q : Nat) => p == q) (tagConfig [1, 2] [3] [([], [])]) 2 [] =
    processFile (fun (p : Nat) (q : Nat) => p == q) (tagConfig [2, 1, 2] [3, 3] [([], [])]) 2 [] := by decide

/-! ### rules run in configuration order, each at most once -/

theorem appliedFrom_sorted (m : P → Path → Bool) (rules : List (Rule P Path B E)) (path : Path) :
    ∀ start, (appliedFrom m start rules path).Pairwise (· < ·) ∧
      ∀ j ∈ appliedFrom m start rules path, start ≤ j := by
  induction rules with
  | nil => intro start; simp [appliedFrom]
  | cons r rs ih =>
    intro start
    obtain ⟨hp, hge⟩ := ih (start + 1)
    unfold appliedFrom
    split
    · refine ⟨List.pairwise_cons.mpr ⟨fun j hj => ?_, hp⟩, fun j hj => ?_⟩
      · have := hge j hj; omega
      · rcases List.mem_cons.mp hj with h | h
        · omega
        · have := hge j h; omega
    · exact ⟨hp, fun j hj => by have := hge j hj; omega⟩

/-- **Order**: the rules that run on a file are a strictly increasing list of pipeline positions —
configuration order, no rule twice, whatever the filters are. -/
theorem applied_sorted (m : P → Path → Bool) (rules : List (Rule P Path B E)) (path : Path) :
    (applied m rules path).Pairwise (· < ·) :=
  (appliedFrom_sorted m rules path 0).1

/-- no rule runs twice on a file -/
theorem applied_nodup (m : P → Path → Bool) (rules : List (Rule P Path B E)) (path : Path) :
    (applied m rules path).Nodup :=
  (applied_sorted m rules path).imp (fun h => Nat.ne_of_lt h)

example : applied (fun (p : Nat) (q : Nat) => p == q)
    [tagRule 0 [] [], tagRule 1 [9] [], tagRule 2 [] [], tagRule 3 [5] []] 5 = [0, 2, 3] := by decide

/-! ### the reference matcher means what the documentation says (sanity examples) -/

example : Spec.glob "src/**".toList "src/a/b.lua".toList = some true := by decide
example : Spec.glob "**/test.lua".toList "test.lua".toList = some true := by decide
example : Spec.glob "src/*.lua".toList "src/a/b.lua".toList = some false := by decide
example : Spec.glob "a?.lua".toList "ab.lua".toList = some true := by decide
example : Spec.classify "a/**b".toList = .invalid := by decide

end DarkluaModel.C20
