/-
C20 — reference glob matcher for the *documented subset* of filter patterns: literal characters,
`?` (one character of a component), `*` (zero or more characters of a component) and `**` as a whole
component (zero or more components). Written from the documentation of the pattern language
(site/content/docs/config/index.md → wax README "Patterns"), component by component; it does not
look at how `wax` compiles patterns to a regular expression. Independent of `Model.lean`.

Paths are normalised relative paths: non-empty components separated by `/` (what
`worker_tree.rs: add_source_if_missing → normalize_path` produces for a work item).
-/
namespace DarkluaModel.C20.Spec

/-- all suffixes of a list, longest first (includes `[]`) -/
def suffixes {α : Type} : List α → List (List α)
  | [] => [[]]
  | x :: xs => (x :: xs) :: suffixes xs

/-- split at `/` (always returns at least one component) -/
def splitSlash : List Char → List (List Char)
  | [] => [[]]
  | c :: cs =>
    match splitSlash cs with
    | [] => [[c]]  -- unreachable
    | first :: rest => if c == '/' then [] :: first :: rest else (c :: first) :: rest

/-- one pattern component against one path component -/
def matchComp : List Char → List Char → Bool
  | [], cs => cs.isEmpty
  | '*' :: ps, cs => (suffixes cs).any (fun t => matchComp ps t)
  | '?' :: ps, _ :: cs => matchComp ps cs
  | '?' :: _, [] => false
  | p :: ps, c :: cs => p == c && matchComp ps cs
  | _ :: _, [] => false

def isTree (p : List Char) : Bool := p == ['*', '*']

/-- pattern components against path components; a `**` component takes zero or more components -/
def matchComps : List (List Char) → List (List Char) → Bool
  | [], qs => qs.isEmpty
  | p :: ps, qs =>
    if isTree p then (suffixes qs).any (fun t => matchComps ps t)
    else match qs with
      | [] => false
      | q :: qs' => matchComp p q && matchComps ps qs'

def hasDoubleStar : List Char → Bool
  | '*' :: '*' :: _ => true
  | _ :: cs => hasDoubleStar cs
  | [] => false

def adjacentTrees : List (List Char) → Bool
  | a :: b :: rest => (isTree a && isTree b) || adjacentTrees (b :: rest)
  | _ => false

/-- characters without a special meaning in the pattern language -/
def plainChar (c : Char) : Bool :=
  c.isAlphanum || c == '_' || c == '-' || c == '.' || c == ' '

inductive PatternClass where
  | ok        -- in the documented subset, well formed
  | invalid   -- `**` not a whole component, two `**` components in a row, or an empty inner component:
              -- the pattern language rejects these
  | outside   -- uses something this reference does not describe (classes, alternatives, roots, …)
  deriving Repr, DecidableEq

def classify (pat : List Char) : PatternClass :=
  if !pat.all (fun c => plainChar c || c == '*' || c == '?' || c == '/') then .outside
  else
    let comps := splitSlash pat
    if comps.any (fun c => hasDoubleStar c && !isTree c) then .invalid
    else if adjacentTrees comps then .invalid
    else if comps.any (·.isEmpty) then
      -- empty pattern, leading `/` (rooted), trailing `/`: not described; an empty inner component is an error
      if (comps.drop 1).dropLast.any (·.isEmpty) && comps.length > 2 then .invalid else .outside
    else .ok

/-- a normalised relative path: at least one component, none empty -/
def goodPath (path : List Char) : Bool :=
  (splitSlash path).all (fun c => !c.isEmpty)

/-- `some b`: the documented meaning of `pat` on `path`; `none`: not judged by this reference -/
def glob (pat path : List Char) : Option Bool :=
  if classify pat == .ok && goodPath path then some (matchComps (splitSlash pat) (splitSlash path))
  else none

end DarkluaModel.C20.Spec
