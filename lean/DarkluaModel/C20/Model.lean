/-
C20 — model of darklua's file / rule filters (import-free: core only).

Rust sources mirrored here (as they are):
  * src/frontend/configuration.rs  `Configuration::should_apply_rule`
  * src/rules/mod.rs               `RuleMetadata::should_apply`   (same body, other field names)
  * src/frontend/worker.rs         `Worker::apply_rules`          (global check, then the rule loop)

The glob matcher itself (`FilterPattern::matches`, crate `wax`) is a *parameter* `m : P → Path → Bool`
of every definition; `Spec.lean` has an independent matcher for the documented subset.
-/
namespace DarkluaModel.C20

/-- `Configuration::should_apply_rule` and `RuleMetadata::should_apply`:
```
if !apply.is_empty() && apply.iter().all(|f| !f.matches(path)) { return false; }
if !skip.is_empty()  && skip.iter().any(|f| f.matches(path))   { return false; }
true
``` -/
def shouldApply {P Path : Type} (m : P → Path → Bool) (apply skip : List P) (path : Path) : Bool :=
  if !apply.isEmpty && apply.all (fun f => !m f path) then false
  else if !skip.isEmpty && skip.any (fun f => m f path) then false
  else true

/-- One configured rule: its metadata (two pattern lists) and its effect on a block, which may fail
(`Rule::process : &mut Block -> Result<(), String>`). The effect is abstract. -/
structure Rule (P Path B E : Type) where
  apply : List P
  skip : List P
  run : Path → B → Except E B

/-- The `for (index, rule) in rules` loop of `Worker::apply_rules`: a rule whose metadata says no
is `continue`d, an error aborts (`rule_result?`). -/
def applyRules {P Path B E : Type} (m : P → Path → Bool) :
    List (Rule P Path B E) → Path → B → Except E B
  | [], _, b => .ok b
  | r :: rs, path, b =>
    if shouldApply m r.apply r.skip path then
      match r.run path b with
      | .ok b' => applyRules m rs path b'
      | .error e => .error e
    else applyRules m rs path b

/-- The indices (from `start`) of the rules that are actually run on `path` when no rule fails. -/
def appliedFrom {P Path B E : Type} (m : P → Path → Bool) :
    Nat → List (Rule P Path B E) → Path → List Nat
  | _, [], _ => []
  | i, r :: rs, path =>
    if shouldApply m r.apply r.skip path then i :: appliedFrom m (i + 1) rs path
    else appliedFrom m (i + 1) rs path

def applied {P Path B E : Type} (m : P → Path → Bool) (rules : List (Rule P Path B E)) (path : Path) :
    List Nat := appliedFrom m 0 rules path

structure Config (P Path B E : Type) where
  apply : List P
  skip : List P
  rules : List (Rule P Path B E)

/-- What `apply_rules` does with one work item. `untouched`: the global filter said no — the status
becomes `Done(Ok)` and *nothing is written* (in place: the source stays as it is; with an output
directory: no output file). `written b`: all selected rules ran, code generated from `b` is written.
`failed e`: a rule returned an error. -/
inductive Outcome (B E : Type) where
  | untouched
  | written (b : B)
  | failed (e : E)
  deriving Repr, DecidableEq

def processFile {P Path B E : Type} (m : P → Path → Bool) (c : Config P Path B E) (path : Path) (b : B) :
    Outcome B E :=
  if !shouldApply m c.apply c.skip path then .untouched
  else match applyRules m c.rules path b with
    | .ok b' => .written b'
    | .error e => .failed e

/-- Replace the filters of rule `i` (everything else, including every other rule, is kept). -/
def setFilter {P Path B E : Type} (i : Nat) (apply skip : List P) (rules : List (Rule P Path B E)) :
    List (Rule P Path B E) :=
  rules.modify i (fun r => { r with apply := apply, skip := skip })

/-! ### executable instance used by the driver

Patterns and paths are indices into a match matrix supplied by the caller (the harness fills it
from the real `FilterPattern::matches`, or from the reference matcher of `Spec.lean`); blocks are
the list of rule tags that ran, so `written [i₁,…]` names the rules that touched the file. -/

def matrixMatches (matrix : List (List Bool)) (p : Nat) (path : Nat) : Bool :=
  ((matrix.getD p []).getD path false)

/-- a rule that records its own tag -/
def tagRule (tag : Nat) (apply skip : List Nat) : Rule Nat Nat (List Nat) Unit :=
  { apply := apply, skip := skip, run := fun _ b => .ok (b ++ [tag]) }

def tagConfig (apply skip : List Nat) (rules : List (List Nat × List Nat)) :
    Config Nat Nat (List Nat) Unit :=
  { apply := apply, skip := skip,
    rules := (rules.zipIdx).map fun (f, i) => tagRule i f.1 f.2 }

end DarkluaModel.C20
