import DarkluaModel.Util.Sexp
import DarkluaModel.C20.Model
import DarkluaModel.C20.Spec
/-!
Line-protocol handlers for property C20.

* `c20.glob <hex pattern> <hex path>`         → `true|false|invalid|outside|badpath` (Spec matcher)
* `c20.globrow <hex pattern> <hex path>*`     → `invalid|outside` or one char per path: `1|0|-` (`-` = bad path)
* `c20.decide <sexp>`                         → one answer per path, joined by `;`:
      `untouched` | `written i₁ … iₖ` (tags of the rules that ran, in order)
  with `<sexp>` = `(cfg (m row…) (apply i…) (skip i…) (rules ((i…) (i…))…) (paths n))`,
  each `row` a string of `0/1` (row p, column path) — the match matrix of the caller.
* `c20.should <sexp>` = `(f (m row…) (apply i…) (skip i…) (paths n))` → string of `0/1`: `shouldApply` per path
-/
namespace DarkluaModel.C20

open DarkluaModel

private def hexToChars? (s : String) : Option (List Char) := do
  let bytes ← hexToBytes? s
  let str ← String.fromUTF8? (ByteArray.mk bytes.toArray)
  pure str.toList

private def rowOf (s : String) : Option (List Bool) :=
  s.toList.mapM fun c => if c == '1' then some true else if c == '0' then some false else none

private def natList? (xs : List Sexp) : Option (List Nat) := xs.mapM Sexp.nat?

private def matrix? : Sexp → Option (List (List Bool))
  | .list (.atom "m" :: rows) => rows.mapM fun r => r.atom?.bind rowOf
  | _ => none

private def tagged? (tag : String) : Sexp → Option (List Nat)
  | .list (.atom t :: xs) => if t == tag then natList? xs else none
  | _ => none

private def ruleFilters? : Sexp → Option (List Nat × List Nat)
  | .list [.list a, .list s] => do pure (← natList? a, ← natList? s)
  | _ => none

private def showOutcome : Outcome (List Nat) Unit → String
  | .untouched => "untouched"
  | .written b => " ".intercalate ("written" :: b.map toString)
  | .failed _ => "failed"

def handleDecide (s : Sexp) : Option String :=
  match s with
  | .list [.atom "cfg", m, a, sk, .list (.atom "rules" :: rs), .list [.atom "paths", n]] => do
    let matrix ← matrix? m
    let apply ← tagged? "apply" a
    let skip ← tagged? "skip" sk
    let rules ← rs.mapM ruleFilters?
    let n ← n.nat?
    let cfg := tagConfig apply skip rules
    pure (";".intercalate ((List.range n).map fun path =>
      showOutcome (processFile (matrixMatches matrix) cfg path [])))
  | _ => none

def handleShould (s : Sexp) : Option String :=
  match s with
  | .list [.atom "f", m, a, sk, .list [.atom "paths", n]] => do
    let matrix ← matrix? m
    let apply ← tagged? "apply" a
    let skip ← tagged? "skip" sk
    let n ← n.nat?
    pure (String.ofList ((List.range n).map fun path =>
      if shouldApply (matrixMatches matrix) apply skip path then '1' else '0'))
  | _ => none

def handle (op : String) (args : List String) : String :=
  match op, args with
  | "glob", [p, q] =>
    match hexToChars? p, hexToChars? q with
    | some pat, some path =>
      match Spec.classify pat with
      | .invalid => "invalid"
      | .outside => "outside"
      | .ok => match Spec.glob pat path with
        | some true => "true"
        | some false => "false"
        | none => "badpath"
    | _, _ => "bad-args"
  | "globrow", p :: qs =>
    match hexToChars? p, qs.mapM hexToChars? with
    | some pat, some paths =>
      match Spec.classify pat with
      | .invalid => "invalid"
      | .outside => "outside"
      | .ok => String.ofList (paths.map fun path =>
          match Spec.glob pat path with
          | some true => '1'
          | some false => '0'
          | none => '-')
    | _, _ => "bad-args"
  | "decide", _ =>
    match (Sexp.parse (" ".intercalate args)).bind handleDecide with
    | some r => r
    | none => "bad-args"
  | "should", _ =>
    match (Sexp.parse (" ".intercalate args)).bind handleShould with
    | some r => r
    | none => "bad-args"
  | _, _ => "unknown-op " ++ op

end DarkluaModel.C20
