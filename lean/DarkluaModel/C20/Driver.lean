import DarkluaModel.Util.Sexp
/-! Line-protocol handlers for property C20 (stub: nothing modelled yet). -/
namespace DarkluaModel.C20

def handle (op : String) (_args : List String) : String :=
  "unknown-op " ++ op

end DarkluaModel.C20
