import DarkluaModel.C18.Lemmas
import DarkluaModel.C18.Spec
/-!
Property C18 — comment and whitespace rules never touch code.

Part A (`append_safe_*`): the text built by `append_text_comment` (`commentText`, Model.lean), followed
by a line break and any source `s`, is read by the reference lexer (Lex.lean) as exactly one comment
followed by exactly the items of `s`.  False at full strength (F20, F21); proved under `H18`, which
is exact (`append_safe_iff`); the multi-line branch is proved unconditionally.

Part B (`code_tokens_unchanged` and friends): on the token model of src/nodes/token.rs the three rules
change trivia only; `remove_comments` keeps exactly the comments matched by an `except` pattern
(`isMatch` is a parameter standing for `Regex::is_match`).

Part C (`append_*_lines*`): the line shift of `append_text_comment`.  With location `end` the rule
shifts every token just as with `start` (new finding F25), so "no original line moves" is false.
-/
namespace DarkluaModel.C18
open Lex

/-! ## Part A: the appended comment cannot end early or swallow code -/

/-- Full strength: every non-empty text (the empty text makes the rule a no-op), every following source. -/
def append_safe_full : Prop :=
  ∀ (text s : Bytes) (line : Nat), text ≠ [] → AppendSafeAt text s line

/-- generic step: a comment lexeme `c :: body` at the head is emitted and lexing continues behind it -/
theorem lexFrom_comment (c : UInt8) (body rest : Bytes) (line : Nat)
    (h : scan [] c (body ++ rest) = ⟨.comment, body.length, []⟩) :
    lexFrom line (c :: body ++ rest)
      = .com ⟨c :: body, line⟩ :: lexFrom (line + countNl (c :: body)) rest := by
  simp only [lexFrom, List.cons_append, List.length_cons]
  rw [go_comment h]
  simp only [List.take_left', List.drop_left']
  rw [go_eq_lexFrom' _ [] _ rest (by simp)]

theorem commentText_single (text : Bytes) (h0 : text ≠ []) (h10 : 10 ∉ text) :
    commentText text = 45 :: 45 :: text := by
  simp [commentText, h0, h10]

theorem commentText_multi (text : Bytes) (h10 : 10 ∈ text) :
    commentText text = 45 :: 45 :: 91 :: (List.replicate (findLevel (text.length + 1) 0 text) 61
      ++ 91 :: 10 :: (text ++ 10 :: closer (findLevel (text.length + 1) 0 text))) := by
  have h0 : text ≠ [] := by intro h; subst h; simp at h10
  simp [commentText, h0, h10, closeComment_eq_closer]

/-- Single-line branch, any continuation `rest` that is empty or starts with a line break. -/
theorem single_line_scan (text rest : Bytes) (h13 : 13 ∉ text) (h10 : 10 ∉ text)
    (ho : longOpen? text = none) (hr : rest = [] ∨ ∃ s, rest = 10 :: s) :
    scan [] 45 ((45 :: text) ++ rest) = ⟨.comment, (45 :: text).length, []⟩ := by
  have hlo : longOpen? (text ++ rest) = none := by
    rcases hr with rfl | ⟨s, rfl⟩
    · simpa using ho
    · exact longOpen_append_nl text s ho
  have hll : lineLen (text ++ rest) = text.length := by
    rcases hr with rfl | ⟨s, rfl⟩
    · simpa using lineLen_self text h10 h13
    · exact lineLen_append_nl text s h10 h13
  simp [scan, isSpace, scanComment, hlo, hll]
  omega

/-- Multi-line branch: the opener is recognised with level `k`, the first closer of level `k` is the
appended one. Needs only that `closer k` does not occur in the text. -/
theorem multi_line_scan (k : Nat) (text rest : Bytes) (hk : containsSub (closer k) text = false) :
    scan [] 45 ((45 :: 91 :: (List.replicate k 61 ++ 91 :: 10 :: (text ++ 10 :: closer k))) ++ rest)
      = ⟨.comment, (45 :: 91 :: (List.replicate k 61 ++ 91 :: 10 :: (text ++ 10 :: closer k))).length, []⟩ := by
  have hk' : containsSub (closer k) (10 :: text) = false := by
    have : (closer k).isPrefixOf (10 :: text) = false := rfl
    simp only [containsSub, hk, this, Bool.or_false]
  have hfc := findCloser_append k (10 :: text) rest hk'
  have hlo := longOpen_opener k (10 :: (text ++ 10 :: (closer k ++ rest)))
  have hd : List.drop (k + 2) (91 :: (List.replicate k 61 ++ 91 :: 10 :: (text ++ 10 :: (closer k ++ rest))))
      = 10 :: text ++ 10 :: (closer k ++ rest) := by
    have e : (91 :: (List.replicate k 61 ++ 91 :: 10 :: (text ++ 10 :: (closer k ++ rest))) : Bytes)
        = (91 :: (List.replicate k 61 ++ [91])) ++ (10 :: text ++ 10 :: (closer k ++ rest)) := by simp
    rw [e]
    exact List.drop_left' (by simp)
  simp only [scan, isSpace, List.cons_append, List.append_assoc, List.head?_cons, List.drop_one,
    List.tail_cons, scanComment]
  simp only [List.cons_append, List.append_assoc] at hlo hfc hd
  simp [hlo, hd, hfc, closer_length]
  omega

/-- **The multi-line branch is safe for every text** (level search terminates with a level whose
closer does not occur; the closer cannot occur inside the text or straddle its end). -/
theorem append_safe_multiline (text s : Bytes) (line : Nat) (h10 : 10 ∈ text) :
    AppendSafeAt text s line := by
  have hk := findLevel_spec (text.length + 1) 0 text (by omega)
  rw [closeComment_eq_closer] at hk
  have hs := multi_line_scan _ text (10 :: s) hk
  unfold AppendSafeAt
  rw [commentText_multi text h10]
  have := lexFrom_comment 45 _ (10 :: s) line hs
  simp only [List.cons_append] at this ⊢
  rw [this, lexFrom_nl]

/-- Single-line branch under the hypothesis. -/
theorem append_safe_single_line (text s : Bytes) (line : Nat) (h0 : text ≠ []) (h10 : 10 ∉ text)
    (h13 : 13 ∉ text) (ho : longOpen? text = none) : AppendSafeAt text s line := by
  have hs := single_line_scan text (10 :: s) h13 h10 ho (Or.inr ⟨s, rfl⟩)
  unfold AppendSafeAt
  rw [commentText_single text h0 h10]
  have := lexFrom_comment 45 _ (10 :: s) line hs
  simp only [List.cons_append] at this ⊢
  rw [this, lexFrom_nl]

/-- **append_safe_partial**: inside `H18`, for every text, every following source, every start line. -/
theorem append_safe_partial (text s : Bytes) (line : Nat) (h0 : text ≠ []) (h : H18 text = true) :
    AppendSafeAt text s line := by
  by_cases h10 : 10 ∈ text
  · exact append_safe_multiline text s line h10
  · have hc : text.contains 10 = false := by simpa using h10
    simp only [H18, hc, Bool.false_or, Bool.and_eq_true, Bool.not_eq_true', Option.isNone_iff_eq_none] at h
    exact append_safe_single_line text s line h0 h10 (by simpa using h.1) h.2

example : H18 [104, 105, 93, 93] = true ∧ H18 [91, 10, 93, 93] = true := by decide
example : AppendSafeAt [104, 105, 93, 93] [49, 32, 45, 45, 120] 1 :=
  append_safe_partial _ _ _ (by decide) (by decide)
example : AppendSafeAt [93, 93, 10, 93, 61, 93] [49] 7 := append_safe_multiline _ _ _ (by decide)

/-- Location `end`: the comment is the last thing in the file. It is read as exactly that one comment. -/
theorem append_end_safe_partial (text : Bytes) (line : Nat) (h0 : text ≠ []) (h : H18 text = true) :
    lexFrom line (commentText text) = [.com ⟨commentText text, line⟩] := by
  by_cases h10 : 10 ∈ text
  · have hk := findLevel_spec (text.length + 1) 0 text (by omega)
    rw [closeComment_eq_closer] at hk
    have hs := multi_line_scan _ text [] hk
    rw [commentText_multi text h10]
    have := lexFrom_comment 45 _ [] line hs
    simp only [List.append_nil] at this
    rw [this]
    simp [lexFrom, go]
  · have hc : text.contains 10 = false := by simpa using h10
    simp only [H18, hc, Bool.false_or, Bool.and_eq_true, Bool.not_eq_true', Option.isNone_iff_eq_none] at h
    have hs := single_line_scan text [] (by simpa using h.1) h10 h.2 (Or.inl rfl)
    rw [commentText_single text h0 h10]
    have := lexFrom_comment 45 _ [] line hs
    simp only [List.append_nil] at this
    rw [this]
    simp [lexFrom, go]

example : lexFrom 3 (commentText [120, 10, 93, 93]) = [.com ⟨commentText [120, 10, 93, 93], 3⟩] :=
  append_end_safe_partial _ _ (by decide) (by decide)

/-- F20: text `[[`, following source `1`: an unfinished long comment swallows the code.
    F21: text `0\r1`: the comment ends at the CR and `1` is read as code. -/
theorem append_safe_full_false : ¬ append_safe_full := by
  intro h
  have := h [91, 91] [49] 1 (by decide)
  revert this
  decide

theorem append_safe_F20_witness : ¬ AppendSafeAt [91, 61, 91, 104] [49] 1 := by decide
theorem append_safe_F21_witness : ¬ AppendSafeAt [48, 13, 49] [] 1 := by decide

example : H18 [91, 61, 91, 104] = false ∧ H18 [48, 13, 49] = false := by decide

/-- The level search of the multi-line branch: it returns the least level whose closer does not occur. -/
theorem level_search_correct (text : Bytes) :
    containsSub (closeComment (findLevel (text.length + 1) 0 text)) text = false
    ∧ ∀ j, j < findLevel (text.length + 1) 0 text → containsSub (closeComment j) text = true :=
  ⟨findLevel_spec _ 0 text (by omega), fun j hj => findLevel_least _ 0 text j (Nat.zero_le _) hj⟩

example : findLevel 8 0 [93, 93, 10, 93, 61, 93, 120] = 2 := by decide

/-! ## Part B: the rules change trivia only (token model) -/

/-- all three per-token operations of token.rs are "retain the trivia satisfying `q`" -/
def Token.filterTrivia (q : Trivia → Bool) (t : Token) : Token :=
  { t with leading := t.leading.filter q, trailing := t.trailing.filter q }

theorem clearComments_eq (t : Token) :
    t.clearComments = Token.filterTrivia (fun x => x.kind != .comment) t := rfl
theorem clearWhitespaces_eq (t : Token) :
    t.clearWhitespaces = Token.filterTrivia (fun x => x.kind != .whitespace) t := rfl
theorem filterComments_eq (keep : Trivia → Bool) (t : Token) :
    t.filterComments keep = Token.filterTrivia (fun x => x.kind != .comment || keep x) t := rfl

/-- the trivia of kind-selector `sel`, in writing order -/
def selectTrivia (sel : Trivia → Bool) (l : List Token) : List Trivia :=
  l.flatMap fun t => t.leading.filter sel ++ t.trailing.filter sel

theorem all_mapTokens (g : Token → Token) (f : File) : (f.mapTokens g).all = f.all.map g := by
  cases hf : f.final <;> simp [File.all, File.mapTokens, hf]

theorem comments_eq (f : File) :
    f.comments = (selectTrivia (·.kind == .comment) f.all).map (·.content) := rfl
theorem whitespaces_eq (f : File) :
    f.whitespaces = (selectTrivia (·.kind == .whitespace) f.all).map (·.content) := rfl

theorem selectTrivia_filterTrivia (sel q : Trivia → Bool) (l : List Token) :
    selectTrivia sel (l.map (Token.filterTrivia q)) = (selectTrivia sel l).filter q := by
  have key : ∀ l : List Trivia, (l.filter q).filter sel = (l.filter sel).filter q := by
    intro l
    rw [List.filter_filter, List.filter_filter]
    apply List.filter_congr
    intro x _
    exact Bool.and_comm _ _
  induction l with
  | nil => rfl
  | cons t r ih =>
    simp only [selectTrivia, List.map_cons, List.flatMap_cons, List.filter_append] at ih ⊢
    rw [ih]
    simp only [Token.filterTrivia, key]

theorem mem_selectTrivia (sel : Trivia → Bool) (l : List Token) :
    ∀ x ∈ selectTrivia sel l, sel x = true := by
  intro x hx
  simp only [selectTrivia, List.mem_flatMap, List.mem_append, List.mem_filter] at hx
  obtain ⟨_, _, h | h⟩ := hx <;> exact h.2

theorem codeOf_map (g : Token → Token) (hg : ∀ t, (g t).content = t.content) (l : List Token) :
    ((l.map g).map (·.content)) = l.map (·.content) := by
  rw [List.map_map]
  apply List.map_congr_left
  intro t _
  exact hg t

theorem linesOf_map (g : Token → Token) (hg : ∀ t, (g t).content = t.content) (l : List Token) :
    ((l.map g).filter (fun t => !t.content.isEmpty)).map (·.line)
      = (l.filter (fun t => !t.content.isEmpty)).map (fun t => (g t).line) := by
  induction l with
  | nil => rfl
  | cons t r ih =>
    simp only [List.map_cons, List.filter_cons, hg t]
    split <;> simp [ih]

theorem mapTokens_code (g : Token → Token) (hg : ∀ t, (g t).content = t.content) (f : File) :
    (f.mapTokens g).code = f.code := by
  simp only [File.code, all_mapTokens, codeOf_map g hg]

theorem mapTokens_codeLines (g : Token → Token)
    (hg : ∀ t, (g t).content = t.content) (hl : ∀ t, (g t).line = t.line) (f : File) :
    (f.mapTokens g).codeLines = f.codeLines := by
  simp only [File.codeLines, all_mapTokens, linesOf_map g hg, hl]

/-- comments kept by `filter_comments` with a filter that looks at the content only -/
theorem filterComments_comments (p : Bytes → Bool) (f : File) :
    (f.mapTokens (Token.filterComments fun x => p x.content)).comments = f.comments.filter p := by
  have e : (Token.filterComments fun x => p x.content)
      = Token.filterTrivia (fun x => x.kind != .comment || p x.content) := by
    funext t; rfl
  rw [comments_eq, comments_eq, all_mapTokens, e, selectTrivia_filterTrivia, List.filter_map]
  congr 1
  apply List.filter_congr
  intro x hx
  have : x.kind = .comment := by simpa using mem_selectTrivia _ _ x hx
  simp [this]

theorem clearComments_comments (f : File) : (f.mapTokens Token.clearComments).comments = [] := by
  have e : Token.clearComments = Token.filterTrivia (fun x => x.kind != .comment) := by
    funext t; rfl
  rw [comments_eq, all_mapTokens, e, selectTrivia_filterTrivia]
  have : (selectTrivia (·.kind == .comment) f.all).filter (fun x => x.kind != .comment) = [] := by
    rw [List.filter_eq_nil_iff]
    intro x hx
    have : x.kind = .comment := by simpa using mem_selectTrivia _ _ x hx
    simp [this]
  rw [this]; rfl

/-- **code_tokens_unchanged** for `remove_comments` (any `except` list, any matcher):
the code tokens and their line numbers are unchanged, and exactly the comments that match no
`except` pattern disappear (all of them when the list is empty). -/
theorem code_tokens_unchanged {Pat : Type} (isMatch : Pat → Bytes → Bool) (except : List Pat) (f : File) :
    (removeComments isMatch except f).code = f.code
    ∧ (removeComments isMatch except f).codeLines = f.codeLines
    ∧ (removeComments isMatch except f).comments
        = f.comments.filter (fun c => except.any fun p => isMatch p c) := by
  unfold removeComments
  cases hex : except with
  | nil =>
    simp only [List.isEmpty_nil, ↓reduceIte, List.any_nil]
    refine ⟨mapTokens_code _ (by intro t; rfl) f,
      mapTokens_codeLines _ (by intro t; rfl) (by intro t; rfl) f, ?_⟩
    rw [clearComments_comments]
    simp
  | cons p ps =>
    simp only [List.isEmpty_cons, Bool.false_eq_true, ↓reduceIte]
    exact ⟨mapTokens_code _ (by intro t; rfl) f,
      mapTokens_codeLines _ (by intro t; rfl) (by intro t; rfl) f,
      filterComments_comments (fun c => (p :: ps).any fun q => isMatch q c) f⟩

/-- retaining trivia by a predicate that holds for every trivia of the selected kind keeps them all -/
theorem selected_kept (sel q : Trivia → Bool) (hq : ∀ x, sel x = true → q x = true) (f : File) :
    selectTrivia sel (f.mapTokens (Token.filterTrivia q)).all = selectTrivia sel f.all := by
  rw [all_mapTokens, selectTrivia_filterTrivia, List.filter_eq_self]
  intro x hx
  exact hq x (mem_selectTrivia _ _ x hx)

/-- `remove_comments` leaves whitespace trivia alone -/
theorem removeComments_whitespaces {Pat : Type} (isMatch : Pat → Bytes → Bool) (except : List Pat)
    (f : File) : (removeComments isMatch except f).whitespaces = f.whitespaces := by
  unfold removeComments
  split
  · have e : Token.clearComments = Token.filterTrivia (fun x => x.kind != .comment) := by
      funext t; rfl
    rw [whitespaces_eq, whitespaces_eq, e, selected_kept]
    intro x hx
    simp only [beq_iff_eq] at hx
    simp [hx]
  · rw [whitespaces_eq, whitespaces_eq]
    have e : ∀ keep : Trivia → Bool, Token.filterComments keep
        = Token.filterTrivia (fun x => x.kind != .comment || keep x) := by
      intro keep; funext t; rfl
    rw [e, selected_kept]
    intro x hx
    simp only [beq_iff_eq] at hx
    simp [hx]

/-- `remove_spaces`: code tokens, their lines and all comments unchanged; no whitespace trivia left -/
theorem removeSpaces_spec (f : File) :
    (removeSpaces f).code = f.code ∧ (removeSpaces f).codeLines = f.codeLines
    ∧ (removeSpaces f).comments = f.comments ∧ (removeSpaces f).whitespaces = [] := by
  have e : Token.clearWhitespaces = Token.filterTrivia (fun x => x.kind != .whitespace) := by
    funext t; rfl
  refine ⟨mapTokens_code _ (by intro t; rfl) f,
    mapTokens_codeLines _ (by intro t; rfl) (by intro t; rfl) f, ?_, ?_⟩
  · unfold removeSpaces
    rw [comments_eq, comments_eq, e, selected_kept]
    intro x hx
    simp only [beq_iff_eq] at hx
    simp [hx]
  · unfold removeSpaces
    rw [whitespaces_eq, all_mapTokens, e, selectTrivia_filterTrivia]
    have : (selectTrivia (·.kind == .whitespace) f.all).filter (fun x => x.kind != .whitespace) = [] := by
      rw [List.filter_eq_nil_iff]
      intro x hx
      have : x.kind = .whitespace := by simpa using mem_selectTrivia _ _ x hx
      simp [this]
    rw [this]; rfl

/-- a small file: `local a -- c` / `-- keep` before the end of file -/
def sampleFile : File :=
  { tokens := [⟨[108], some 1, [], [⟨.whitespace, [32]⟩]⟩,
               ⟨[97], some 1, [], [⟨.whitespace, [32]⟩, ⟨.comment, [45, 45, 99]⟩, ⟨.whitespace, [10]⟩]⟩],
    after := [],
    final := some ⟨[], some 2, [⟨.comment, [45, 45, 107]⟩], []⟩ }

example : (removeComments LitPat.isMatch [⟨false, false, [107]⟩] sampleFile).comments = [[45, 45, 107]]
    ∧ (removeComments LitPat.isMatch [] sampleFile).comments = []
    ∧ (removeSpaces sampleFile).comments = sampleFile.comments
    ∧ sampleFile.code = [[108], [97]] := by decide

/-! ## Part C: `append_text_comment` on the token model -/

theorem appendComment_content (loc : AppendLocation) (c : Bytes) (t : Token) :
    (appendComment loc c t).content = t.content := by
  cases loc <;> simp only [appendComment, Token.insertLeadingTrivia, Token.pushTrailingTrivia]
    <;> (repeat' split) <;> rfl

theorem appendComment_line (loc : AppendLocation) (c : Bytes) (t : Token) :
    (appendComment loc c t).line = t.line := by
  cases loc <;> simp only [appendComment, Token.insertLeadingTrivia, Token.pushTrailingTrivia]
    <;> (repeat' split) <;> rfl

theorem mapHead_eq (g : Token → Token) (l : List Token) :
    ∃ l', mapHead g l = l' ∧ l'.length = l.length
      ∧ ∀ i (h : i < l'.length) (h' : i < l.length), l'[i] = l[i] ∨ l'[i] = g l[i] := by
  refine ⟨_, rfl, ?_, ?_⟩
  · cases l <;> simp [mapHead]
  · intro i h h'
    cases l with
    | nil => simp at h'
    | cons t r => cases i <;> simp [mapHead]

theorem mapLast_length (g : Token → Token) (l : List Token) : (mapLast g l).length = l.length := by
  induction l with
  | nil => rfl
  | cons t r ih => cases r with
    | nil => rfl
    | cons u r' => simp only [mapLast, List.length_cons] at ih ⊢; omega

/-- a token-list transformation that maps each token to itself or to its image under a
content/line-preserving `g` preserves contents and lines -/
theorem mapHead_content (g : Token → Token) (hg : ∀ t, (g t).content = t.content) (l : List Token) :
    (mapHead g l).map (·.content) = l.map (·.content) := by
  cases l <;> simp [mapHead, hg]

theorem mapLast_content (g : Token → Token) (hg : ∀ t, (g t).content = t.content) (l : List Token) :
    (mapLast g l).map (·.content) = l.map (·.content) := by
  induction l with
  | nil => rfl
  | cons t r ih =>
    cases r with
    | nil => simp [mapLast, hg]
    | cons u r' => simp only [mapLast, List.map_cons] at ih ⊢; rw [ih]

theorem mapHead_line (g : Token → Token) (hg : ∀ t, (g t).content = t.content)
    (hl : ∀ t, (g t).line = t.line) (l : List Token) :
    ((mapHead g l).filter (fun t => !t.content.isEmpty)).map (·.line)
      = (l.filter (fun t => !t.content.isEmpty)).map (·.line) := by
  cases l with
  | nil => rfl
  | cons t r =>
    simp only [mapHead, List.filter_cons, hg t]
    split <;> simp [hl]

theorem mapLast_line (g : Token → Token) (hg : ∀ t, (g t).content = t.content)
    (hl : ∀ t, (g t).line = t.line) (l : List Token) :
    ((mapLast g l).filter (fun t => !t.content.isEmpty)).map (·.line)
      = (l.filter (fun t => !t.content.isEmpty)).map (·.line) := by
  induction l with
  | nil => rfl
  | cons t r ih =>
    cases r with
    | nil =>
      simp only [mapLast, List.filter_cons, hg t]
      split <;> simp [hl]
    | cons u r' =>
      simp only [mapLast] at ih ⊢
      rw [List.filter_cons, List.filter_cons (x := t)]
      split <;> simp [ih]

theorem attachComment_code (loc : AppendLocation) (text : Bytes) (g : File) :
    (attachComment loc text g).code = g.code := by
  unfold attachComment
  cases hg : g.tokens with
  | nil =>
    cases hf : g.final <;>
      simp [File.code, File.all, hg, hf, appendComment_content, emptyToken]
  | cons t r =>
    cases loc
    · simp only [File.code, File.all, List.map_append]
      rw [mapHead_content _ (appendComment_content _ _), hg]
    · simp only [File.code, File.all, List.map_append]
      rw [mapLast_content _ (appendComment_content _ _), hg]

theorem attachComment_codeLines (loc : AppendLocation) (text : Bytes) (g : File) :
    (attachComment loc text g).codeLines = g.codeLines := by
  unfold attachComment
  cases hg : g.tokens with
  | nil =>
    cases hf : g.final with
    | none => simp [File.codeLines, File.all, hg, hf, appendComment_content, emptyToken]
    | some x =>
      simp only [File.codeLines, File.all, hg, hf, List.nil_append, Option.toList_some, Option.getD_some,
        List.filter_append, List.map_append, List.filter_cons, List.filter_nil, appendComment_content]
      split <;> simp [appendComment_line]
  | cons t r =>
    cases loc
    · simp only [File.codeLines, File.all, List.filter_append, List.map_append]
      rw [mapHead_line _ (appendComment_content _ _) (appendComment_line _ _), hg]
    · simp only [File.codeLines, File.all, List.filter_append, List.map_append]
      rw [mapLast_line _ (appendComment_content _ _) (appendComment_line _ _), hg]

/-- `append_text_comment` never changes the code tokens (either location, any text, any file). -/
theorem appendTextComment_code (loc : AppendLocation) (content : Bytes) (f : File) :
    (appendTextComment loc content f).code = f.code := by
  simp only [appendTextComment]
  split
  · rfl
  · rw [attachComment_code]
    exact mapTokens_code _ (by intro t; rfl) f

theorem commentText_nonempty (content : Bytes) (h0 : content ≠ []) :
    (commentText content).isEmpty = false := by
  by_cases h10 : 10 ∈ content
  · rw [commentText_multi content h10]; rfl
  · rw [commentText_single content h0 h10]; rfl

/-- The line numbers after `append_text_comment`: every numbered code token is shifted by
`lines().count()` of the comment, **whatever the location**. -/
theorem appendTextComment_lines (loc : AppendLocation) (content : Bytes) (f : File) (h0 : content ≠ []) :
    (appendTextComment loc content f).codeLines
      = f.codeLines.map (Option.map (· + linesCount (commentText content))) := by
  unfold appendTextComment
  simp only [commentText_nonempty content h0, Bool.false_eq_true, ↓reduceIte]
  rw [attachComment_codeLines]
  simp only [File.codeLines, all_mapTokens]
  rw [linesOf_map _ (by intro t; rfl), List.map_map]
  rfl

/-- for a non-empty text the shift is the number of lines the comment occupies, at least one -/
theorem linesCount_commentText_pos (content : Bytes) (h0 : content ≠ []) :
    0 < linesCount (commentText content) := by
  have nonempty_pos : ∀ l : Bytes, l ≠ [] → 0 < linesCount l := by
    intro l
    induction l with
    | nil => intro h; exact absurd rfl h
    | cons c t ih =>
      intro _
      simp only [linesCount]
      split
      · omega
      · cases t with
        | nil => simp
        | cons d u => simpa using ih (by simp)
  apply nonempty_pos
  by_cases h10 : 10 ∈ content
  · rw [commentText_multi content h10]; simp
  · rw [commentText_single content h0 h10]; simp

/-- "With location `end` no original line moves": full statement. -/
def append_end_lines_full : Prop :=
  ∀ (content : Bytes) (f : File), (appendTextComment .end content f).codeLines = f.codeLines

/-- F25: it is false — `print` on line 1, text `x` at the end: the token is moved to line 2. -/
theorem append_end_lines_full_false : ¬ append_end_lines_full := by
  intro h
  have := h [120] ⟨[⟨[112], some 1, [], []⟩], [], none⟩
  revert this
  decide

/-- What does hold: only the empty text (rule is a no-op) leaves the lines alone … -/
theorem append_end_lines_partial (f : File) (content : Bytes) (h : content.isEmpty = true) :
    (appendTextComment .end content f).codeLines = f.codeLines := by
  have : content = [] := by simpa using h
  subst this
  simp [appendTextComment, commentText]

example : (appendTextComment .end [] sampleFile).codeLines = sampleFile.codeLines :=
  append_end_lines_partial _ _ rfl

/-- … and for location `start` the shift is exactly what makes room for the comment: the number of
LF in the comment plus the one line break written after it. -/
theorem append_start_shift (content : Bytes) (h0 : content ≠ []) :
    linesCount (commentText content) = countNl (commentText content) + 1 := by
  have key : ∀ (l : Bytes) (c : UInt8), c ≠ 10 → linesCount (l ++ [c]) = countNl (l ++ [c]) + 1 := by
    intro l c hc
    induction l with
    | nil => simp [linesCount, countNl, hc]
    | cons d t ih =>
      simp only [List.cons_append, linesCount, countNl]
      split
      · rw [ih]; omega
      · have : (t ++ [c]).isEmpty = false := by cases t <;> rfl
        simp only [this, Bool.false_eq_true, ↓reduceIte, ih]; omega
  by_cases h10 : 10 ∈ content
  · rw [commentText_multi content h10]
    have e : ∀ k, (45 :: 45 :: 91 :: (List.replicate k 61 ++ 91 :: 10 :: (content ++ 10 :: closer k)) : Bytes)
        = (45 :: 45 :: 91 :: (List.replicate k 61 ++ 91 :: 10 :: (content ++ 10 :: 93 :: List.replicate k 61))) ++ [93] := by
      intro k; simp [closer]
    rw [e]; exact key _ 93 (by decide)
  · rw [commentText_single content h0 h10]
    obtain ⟨l, c, hl⟩ : ∃ l c, content = l ++ [c] := by
      refine ⟨content.dropLast, content.getLast h0, ?_⟩
      exact (List.dropLast_concat_getLast h0).symm
    have hc : c ≠ 10 := by
      intro hc; apply h10; rw [hl, hc]; simp
    have : (45 :: 45 :: content : Bytes) = (45 :: 45 :: l) ++ [c] := by rw [hl]; simp
    rw [this]; exact key _ c hc

example : (appendTextComment .start [120] sampleFile).codeLines = [some 2, some 2]
    ∧ (appendTextComment .end [120] sampleFile).codeLines = [some 2, some 2]
    ∧ (appendTextComment .end [120] sampleFile).code = sampleFile.code := by decide

end DarkluaModel.C18
