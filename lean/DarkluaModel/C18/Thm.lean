import DarkluaModel.C18.Lemmas
import DarkluaModel.C18.Spec
/-!
Property C18 — comment and whitespace rules never touch code.

Part A (`append_safe_*`): the text built by `append_text_comment` (`commentText`, Model.lean), followed
by a line break and any source `s`, is read by the reference lexer (Lex.lean) as exactly one comment
followed by exactly the items of `s`.  Proved at full strength (`append_safe_full`) since F20/F21 are fixed: the rule now
uses the long-comment form for every text containing LF or CR or starting with a long-bracket opener.

Part B (`code_tokens_unchanged` and friends): on the token model of src/nodes/token.rs the three rules
change trivia only; `remove_comments` keeps exactly the comments matched by an `except` pattern
(`isMatch` is a parameter standing for `Regex::is_match`).

Part C (`append_*_lines*`): the line shift of `append_text_comment`: for `start` exactly the room the
comment needs; for `end` none (`append_end_lines_full`, true since F25 is fixed).
-/
namespace DarkluaModel.C18
open Lex

/-! ## Part A: the appended comment cannot end early or swallow code -/

/-- **The long-comment form is safe for every text** (level search terminates with a level whose
closer does not occur; the closer cannot occur inside the text or straddle its end). Which texts take
this form is the rule's choice; the proof does not depend on it. -/
theorem append_safe_long_form (text s : Bytes) (line : Nat) (h0 : text ≠ [])
    (hl : useLongForm text = true) : AppendSafeAt text s line := by
  have hk := findLevel_spec (text.length + 1) 0 text (by omega)
  rw [closeComment_eq_closer] at hk
  have hs := multi_line_scan _ text (10 :: s) hk
  unfold AppendSafeAt
  rw [commentText_multi text h0 hl]
  have := lexFrom_comment 45 _ (10 :: s) line hs
  simp only [List.cons_append] at this ⊢
  rw [this, lexFrom_nl]

/-- The `--text` form is used only for texts without LF, without CR and not starting with a
long-bracket opener, and is safe for them. -/
theorem append_safe_single_line (text s : Bytes) (line : Nat) (h0 : text ≠ [])
    (hl : useLongForm text = false) : AppendSafeAt text s line := by
  obtain ⟨h10, h13, ho⟩ := useLongForm_false text hl
  have hs := single_line_scan text (10 :: s) h13 h10 ho (Or.inr ⟨s, rfl⟩)
  unfold AppendSafeAt
  rw [commentText_single text h0 hl]
  have := lexFrom_comment 45 _ (10 :: s) line hs
  simp only [List.cons_append] at this ⊢
  rw [this, lexFrom_nl]

/-- **append_safe_full** (true since the fix of F20/F21): every non-empty text (the empty text makes the
rule a no-op), every following source, every start line. -/
theorem append_safe_full (text s : Bytes) (line : Nat) (h0 : text ≠ []) : AppendSafeAt text s line := by
  cases hl : useLongForm text
  · exact append_safe_single_line text s line h0 hl
  · exact append_safe_long_form text s line h0 hl

example : AppendSafeAt [104, 105, 93, 93] [49, 32, 45, 45, 120] 1 := append_safe_full _ _ _ (by decide)
example : AppendSafeAt [93, 93, 10, 93, 61, 93] [49] 7 := append_safe_full _ _ _ (by decide)

/-- regression (F20): text `[=[h` / `[[`, source `1` — now a closed long comment, then the code -/
example : AppendSafeAt [91, 61, 91, 104] [49] 1 ∧ AppendSafeAt [91, 91] [49] 1 := by decide
example : commentText [91, 91] = [45, 45, 91, 91, 10, 91, 91, 10, 93, 93] := by decide
/-- regression (F21): text `0 CR 1` — the CR is inside a long comment -/
example : AppendSafeAt [48, 13, 49] [] 1 ∧ AppendSafeAt [104, 13, 105] [49] 1 := by decide

/-- Location `end`: the comment is the last thing in the file. It is read as exactly that one comment. -/
theorem append_end_safe (text : Bytes) (line : Nat) (h0 : text ≠ []) :
    lexFrom line (commentText text) = [.com ⟨commentText text, line⟩] := by
  cases hl : useLongForm text
  · obtain ⟨h10, h13, ho⟩ := useLongForm_false text hl
    have hs := single_line_scan text [] h13 h10 ho (Or.inl rfl)
    rw [commentText_single text h0 hl]
    have := lexFrom_comment 45 _ [] line hs
    simp only [List.append_nil] at this
    rw [this]
    simp [lexFrom, go]
  · have hk := findLevel_spec (text.length + 1) 0 text (by omega)
    rw [closeComment_eq_closer] at hk
    have hs := multi_line_scan _ text [] hk
    rw [commentText_multi text h0 hl]
    have := lexFrom_comment 45 _ [] line hs
    simp only [List.append_nil] at this
    rw [this]
    simp [lexFrom, go]

example : lexFrom 3 (commentText [120, 10, 93, 93]) = [.com ⟨commentText [120, 10, 93, 93], 3⟩] :=
  append_end_safe _ _ (by decide)

/-- The level search of the multi-line branch: it returns the least level whose closer does not occur. -/
theorem level_search_correct (text : Bytes) :
    containsSub (closeComment (findLevel (text.length + 1) 0 text)) text = false
    ∧ ∀ j, j < findLevel (text.length + 1) 0 text → containsSub (closeComment j) text = true :=
  ⟨findLevel_spec _ 0 text (by omega), fun j hj => findLevel_least _ 0 text j (Nat.zero_le _) hj⟩

example : findLevel 8 0 [93, 93, 10, 93, 61, 93, 120] = 2 := by decide

/-- **The chosen closer occurs nowhere in the text, at any (overlapping) position**: no suffix of the
text starts with `]` `=`^k `]` for the level `k` the search returns. (A scan that only looks at
non-overlapping matches — seeded change C18-m3 — misses `]=]` in `]]=]`.) -/
theorem level_closer_nowhere (text : Bytes) (i : Nat) :
    (closeComment (findLevel (text.length + 1) 0 text)).isPrefixOf (text.drop i) = false :=
  containsSub_false_drop _ text (level_search_correct text).1 i

/-- closers of different levels sharing a `]`: `LF ]]=]` needs level 2, `LF ]=]]` too -/
example : findLevel 6 0 [10, 93, 93, 61, 93] = 2 ∧ findLevel 6 0 [10, 93, 61, 93, 93] = 2
    ∧ AppendSafeAt [10, 93, 93, 61, 93] [49] 1 ∧ AppendSafeAt [91, 91, 93, 61, 93, 93] [49] 1 := by decide

/-! ## Part B: the rules change trivia only (token model) -/

/-- **code_tokens_unchanged** for `remove_comments` (any `except` list, any matcher):
the code tokens and their line numbers are unchanged, and exactly the comments that match no
`except` pattern disappear (all of them when the list is empty). -/
theorem code_tokens_unchanged {Pat : Type} (isMatch : Pat → Bytes → Bool) (except : List Pat) (f : File) :
    (removeComments isMatch except f).code = f.code
    ∧ (removeComments isMatch except f).codeLines = f.codeLines
    ∧ (removeComments isMatch except f).comments
        = f.comments.filter (fun c => except.any fun p => isMatch p (stripCr c)) := by
  unfold removeComments
  cases hex : except with
  | nil =>
    simp only [List.isEmpty_nil, ↓reduceIte, List.any_nil]
    refine ⟨mapTokens_code _ (by intro t; rfl) f,
      mapTokens_codeLines _ (by intro t; rfl) (by intro t; rfl) f, ?_⟩
    rw [clearComments_comments]
    simp
  | cons p ps =>
    simp only [List.isEmpty_cons, Bool.false_eq_true, ↓reduceIte]
    exact ⟨mapTokens_code _ (by intro t; rfl) f,
      mapTokens_codeLines _ (by intro t; rfl) (by intro t; rfl) f,
      filterComments_comments (fun c => (p :: ps).any fun q => isMatch q (stripCr c)) f⟩

/-- `remove_comments` leaves whitespace trivia alone -/
theorem removeComments_whitespaces {Pat : Type} (isMatch : Pat → Bytes → Bool) (except : List Pat)
    (f : File) : (removeComments isMatch except f).whitespaces = f.whitespaces := by
  unfold removeComments
  split
  · have e : Token.clearComments = Token.filterTrivia (fun x => x.kind != .comment) := by
      funext t; rfl
    rw [whitespaces_eq, whitespaces_eq, e, selected_kept]
    intro x hx
    simp only [beq_iff_eq] at hx
    simp [hx]
  · rw [whitespaces_eq, whitespaces_eq]
    have e : ∀ keep : Trivia → Bool, Token.filterComments keep
        = Token.filterTrivia (fun x => x.kind != .comment || keep x) := by
      intro keep; funext t; rfl
    rw [e, selected_kept]
    intro x hx
    simp only [beq_iff_eq] at hx
    simp [hx]

/-- `remove_spaces`: code tokens, their lines and all comments unchanged; no whitespace trivia left -/
theorem removeSpaces_spec (f : File) :
    (removeSpaces f).code = f.code ∧ (removeSpaces f).codeLines = f.codeLines
    ∧ (removeSpaces f).comments = f.comments ∧ (removeSpaces f).whitespaces = [] := by
  have e : Token.clearWhitespaces = Token.filterTrivia (fun x => x.kind != .whitespace) := by
    funext t; rfl
  refine ⟨mapTokens_code _ (by intro t; rfl) f,
    mapTokens_codeLines _ (by intro t; rfl) (by intro t; rfl) f, ?_, ?_⟩
  · unfold removeSpaces
    rw [comments_eq, comments_eq, e, selected_kept]
    intro x hx
    simp only [beq_iff_eq] at hx
    simp [hx]
  · unfold removeSpaces
    rw [whitespaces_eq, all_mapTokens, e, selectTrivia_filterTrivia]
    have : (selectTrivia (·.kind == .whitespace) f.all).filter (fun x => x.kind != .whitespace) = [] := by
      rw [List.filter_eq_nil_iff]
      intro x hx
      have : x.kind = .whitespace := by simpa using mem_selectTrivia _ _ x hx
      simp [this]
    rw [this]; rfl

/-- a small file: `local a -- c` / `-- keep` before the end of file -/
def sampleFile : File :=
  { tokens := [⟨[108], some 1, [], [⟨.whitespace, [32]⟩]⟩,
               ⟨[97], some 1, [], [⟨.whitespace, [32]⟩, ⟨.comment, [45, 45, 99]⟩, ⟨.whitespace, [10]⟩]⟩],
    after := [],
    final := some ⟨[], some 2, [⟨.comment, [45, 45, 107]⟩], []⟩ }

example : (removeComments LitPat.isMatch [⟨false, false, [107]⟩] sampleFile).comments = [[45, 45, 107]]
    ∧ (removeComments LitPat.isMatch [] sampleFile).comments = []
    ∧ (removeSpaces sampleFile).comments = sampleFile.comments
    ∧ sampleFile.code = [[108], [97]] := by decide

/-- regression (F26): in a CRLF file the comment text is `-- x` + CR; `x$` (literal `x`, anchored at the
end) keeps it, as in an LF file -/
example : (removeComments LitPat.isMatch [⟨false, true, [120]⟩]
      ⟨[⟨[97], some 1, [], [⟨.comment, [45, 45, 32, 120, 13]⟩]⟩], [], none⟩).comments = [[45, 45, 32, 120, 13]]
    ∧ stripCr [45, 45, 32, 120] = [45, 45, 32, 120] := by decide

/-! ### every carrier is filtered (the tree `impl_token_fns!` works on) -/

/-- **forall positions**: a generated method that uses the same per-token operation `g` in its three
sections (`target`, `iter`, `iter_flatten`) and on its node-valued fields applies `g` at EVERY token
position of the tree. -/
theorem tree_all_positions (g : Token → Token) (n : Node) :
    (n.mapSections g g g).tokens = n.tokens.map g :=
  (mapSections_tokens g).1 n

/-- … position by position -/
theorem tree_every_position (g : Token → Token) (n : Node) (i : Nat) (h : i < n.tokens.length) :
    (n.mapSections g g g).tokens[i]? = some (g n.tokens[i]) := by
  rw [tree_all_positions]; simp [h]

/-- The statement has teeth: a method whose `iter_flatten` section uses another operation (the seeded
defect C18-m2: `clear_comments` instead of `filter_comments` on statement semicolons) is not the
map over all positions. -/
theorem tree_section_matters :
    ∃ (keep : Trivia → Bool) (n : Node),
      (n.mapSections (Token.filterComments keep) (Token.filterComments keep) Token.clearComments).tokens
        ≠ n.tokens.map (Token.filterComments keep) :=
  ⟨fun _ => true, .mk [] [] [some ⟨[59], none, [], [⟨.comment, [45, 45, 33]⟩]⟩] [], by decide⟩

/-- **code_tokens_unchanged on the tree**: `remove_comments` (any `except`, any matcher) acts on a
tree exactly as on the list of all its token positions, so code tokens and lines are unchanged at every
carrier and exactly the comments matching no `except` pattern disappear, whichever carrier holds them. -/
theorem code_tokens_unchanged_tree {Pat : Type} (isMatch : Pat → Bytes → Bool) (except : List Pat)
    (n : Node) :
    (removeCommentsTree isMatch except n).toFile = removeComments isMatch except n.toFile
    ∧ (removeCommentsTree isMatch except n).toFile.code = n.toFile.code
    ∧ (removeCommentsTree isMatch except n).toFile.comments
        = n.toFile.comments.filter (fun c => except.any fun p => isMatch p (stripCr c)) := by
  have e : (removeCommentsTree isMatch except n).toFile = removeComments isMatch except n.toFile := by
    unfold removeCommentsTree removeComments Node.toFile
    split
    · simp [Node.clearComments, tree_all_positions, File.mapTokens]
    · simp [Node.filterComments, tree_all_positions, File.mapTokens]
  refine ⟨e, ?_, ?_⟩
  · rw [e]; exact (code_tokens_unchanged isMatch except n.toFile).1
  · rw [e]; exact (code_tokens_unchanged isMatch except n.toFile).2.2

/-- `remove_spaces` on the tree: the same for whitespace trivia. -/
theorem removeSpaces_tree (n : Node) :
    (removeSpacesTree n).toFile = removeSpaces n.toFile
    ∧ (removeSpacesTree n).toFile.code = n.toFile.code
    ∧ (removeSpacesTree n).toFile.comments = n.toFile.comments
    ∧ (removeSpacesTree n).toFile.whitespaces = [] := by
  have e : (removeSpacesTree n).toFile = removeSpaces n.toFile := by
    simp [removeSpacesTree, removeSpaces, Node.toFile, Node.clearWhitespaces, tree_all_positions,
      File.mapTokens]
  refine ⟨e, ?_, ?_, ?_⟩ <;> rw [e]
  · exact (removeSpaces_spec n.toFile).1
  · exact (removeSpaces_spec n.toFile).2.2.1
  · exact (removeSpaces_spec n.toFile).2.2.2

/-- a block `f() ; -- !` whose semicolon (an `iter_flatten` carrier) holds the comment to keep -/
def sampleTree : Node :=
  .mk [] [⟨[], some 1, [], []⟩] [some ⟨[59], some 1, [], [⟨.comment, [45, 45, 33]⟩]⟩]
    [.mk [⟨[102], some 1, [], []⟩] [] [] [.mk [⟨[40], some 1, [], []⟩, ⟨[41], some 1, [], []⟩] [] [] []]]

example : (removeCommentsTree LitPat.isMatch [⟨false, false, [33]⟩] sampleTree).toFile.comments = [[45, 45, 33]]
    ∧ (removeCommentsTree LitPat.isMatch [] sampleTree).toFile.comments = []
    ∧ sampleTree.toFile.code = [[59], [102], [40], [41]] := by decide

/-! ## Part C: `append_text_comment` on the token model -/

/-- `append_text_comment` never changes the code tokens (either location, any text, any file). -/
theorem appendTextComment_code (loc : AppendLocation) (content : Bytes) (f : File) :
    (appendTextComment loc content f).code = f.code := by
  simp only [appendTextComment]
  split
  · rfl
  · cases loc
    · simp only [attachComment_code]
      exact mapTokens_code _ (by intro t; rfl) f
    · simp only [attachComment_code]

/-- Location `start`: every numbered code token is shifted by `lines().count()` of the comment. -/
theorem appendTextComment_lines (content : Bytes) (f : File) (h0 : content ≠ []) :
    (appendTextComment .start content f).codeLines
      = f.codeLines.map (Option.map (· + linesCount (commentText content))) := by
  unfold appendTextComment
  simp only [commentText_nonempty content h0, Bool.false_eq_true, ↓reduceIte]
  rw [attachComment_codeLines]
  simp only [File.codeLines, all_mapTokens]
  rw [linesOf_map _ (by intro t; rfl), List.map_map]
  rfl

/-- for a non-empty text the shift is the number of lines the comment occupies, at least one -/
theorem linesCount_commentText_pos (content : Bytes) (h0 : content ≠ []) :
    0 < linesCount (commentText content) := by
  have nonempty_pos : ∀ l : Bytes, l ≠ [] → 0 < linesCount l := by
    intro l
    induction l with
    | nil => intro h; exact absurd rfl h
    | cons c t ih =>
      intro _
      simp only [linesCount]
      split
      · omega
      · cases t with
        | nil => simp
        | cons d u => simpa using ih (by simp)
  apply nonempty_pos
  cases hl : useLongForm content
  · rw [commentText_single content h0 hl]; simp
  · rw [commentText_multi content h0 hl]; simp

/-- **append_end_lines_full** (true since the fix of F25): with location `end` no original line moves —
any text, any file. -/
theorem append_end_lines_full (content : Bytes) (f : File) :
    (appendTextComment .end content f).codeLines = f.codeLines := by
  simp only [appendTextComment]
  split
  · rfl
  · exact attachComment_codeLines _ _ _

/-- regression (F25): `p` on line 1, text `x` at the end: the token stays on line 1 -/
example : (appendTextComment .end [120] ⟨[⟨[112], some 1, [], []⟩], [], none⟩).codeLines = [some 1] := by decide
example : (appendTextComment .end [120, 10, 121] sampleFile).codeLines = sampleFile.codeLines :=
  append_end_lines_full _ _

/-- For location `start` the shift is exactly what makes room for the comment: the number of
LF in the comment plus the one line break written after it. -/
theorem append_start_shift (content : Bytes) (h0 : content ≠ []) :
    linesCount (commentText content) = countNl (commentText content) + 1 := by
  have key : ∀ (l : Bytes) (c : UInt8), c ≠ 10 → linesCount (l ++ [c]) = countNl (l ++ [c]) + 1 := by
    intro l c hc
    induction l with
    | nil => simp [linesCount, countNl, hc]
    | cons d t ih =>
      simp only [List.cons_append, linesCount, countNl]
      split
      · rw [ih]; omega
      · have : (t ++ [c]).isEmpty = false := by cases t <;> rfl
        simp only [this, Bool.false_eq_true, ↓reduceIte, ih]; omega
  cases hl : useLongForm content
  · have h10 := (useLongForm_false content hl).1
    rw [commentText_single content h0 hl]
    obtain ⟨l, c, hlc⟩ : ∃ l c, content = l ++ [c] := by
      refine ⟨content.dropLast, content.getLast h0, ?_⟩
      exact (List.dropLast_concat_getLast h0).symm
    have hc : c ≠ 10 := by
      intro hc; apply h10; rw [hlc, hc]; simp
    have : (45 :: 45 :: content : Bytes) = (45 :: 45 :: l) ++ [c] := by rw [hlc]; simp
    rw [this]; exact key _ c hc
  · rw [commentText_multi content h0 hl]
    have e : ∀ k, (45 :: 45 :: 91 :: (List.replicate k 61 ++ 91 :: 10 :: (content ++ 10 :: closer k)) : Bytes)
        = (45 :: 45 :: 91 :: (List.replicate k 61 ++ 91 :: 10 :: (content ++ 10 :: 93 :: List.replicate k 61))) ++ [93] := by
      intro k; simp [closer]
    rw [e]; exact key _ 93 (by decide)

example : (appendTextComment .start [120] sampleFile).codeLines = [some 2, some 2]
    ∧ (appendTextComment .end [120] sampleFile).codeLines = [some 1, some 1]
    ∧ (appendTextComment .end [120] sampleFile).code = sampleFile.code := by decide

end DarkluaModel.C18
