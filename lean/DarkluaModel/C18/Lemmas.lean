import DarkluaModel.C18.Lex
import DarkluaModel.C18.Model
import DarkluaModel.C18.Spec
/-! Helper lemmas for C18: the lexer loop (fuel, single steps), the comment scanners on
concatenations, the level search of `commentText`. -/
namespace DarkluaModel.C18
open Lex

/-! ### the loop -/

theorem go_fuel (f1 : Nat) : ∀ (f2 : Nat) (st : List Bool) (line : Nat) (s : Bytes),
    s.length ≤ f1 → s.length ≤ f2 → go f1 st line s = go f2 st line s := by
  induction f1 with
  | zero =>
    intro f2 st line s h1 _
    have : s = [] := List.eq_nil_of_length_eq_zero (by omega)
    subst this
    cases f2 <;> simp [go]
  | succ n ih =>
    intro f2 st line s h1 h2
    cases s with
    | nil => cases f2 <;> simp [go]
    | cons c t =>
      cases f2 with
      | zero => simp at h2
      | succ m =>
        simp only [List.length_cons] at h1 h2
        have hl : (t.drop (scan st c t).extra).length ≤ t.length := by simp
        have e := ih m (scan st c t).stack (line + countNl (c :: t.take (scan st c t).extra))
          (t.drop (scan st c t).extra) (by omega) (by omega)
        simp only [go]
        rw [e]

theorem go_eq_lexFrom' (f : Nat) (st : List Bool) (line : Nat) (s : Bytes) (h : s.length ≤ f) :
    go f st line s = go s.length st line s :=
  go_fuel f s.length st line s h (Nat.le_refl _)

theorem go_eq_lexFrom (f : Nat) (line : Nat) (s : Bytes) (h : s.length ≤ f) :
    go f [] line s = lexFrom line s := go_eq_lexFrom' f [] line s h

theorem go_comment {f : Nat} {st st' : List Bool} {line : Nat} {c : UInt8} {t : Bytes} {n : Nat}
    (h : scan st c t = ⟨.comment, n, st'⟩) :
    go (f + 1) st line (c :: t)
      = .com ⟨c :: t.take n, line⟩ :: go f st' (line + countNl (c :: t.take n)) (t.drop n) := by
  simp [go, h]

theorem go_ws {f : Nat} {st st' : List Bool} {line : Nat} {c : UInt8} {t : Bytes}
    (h : scan st c t = ⟨.ws, 0, st'⟩) :
    go (f + 1) st line (c :: t) = go f st' (line + countNl [c]) t := by
  simp [go, h]

theorem go_bad {f : Nat} {st st' : List Bool} {line : Nat} {c : UInt8} {t : Bytes} {n : Nat}
    (h : scan st c t = ⟨.bad, n, st'⟩) :
    go (f + 1) st line (c :: t) = [.err (c :: t) line] := by
  simp [go, h]

/-- a newline in front of `s` is skipped and counts one line -/
theorem lexFrom_nl (line : Nat) (s : Bytes) : lexFrom line (10 :: s) = lexFrom (line + 1) s := by
  have h : scan [] 10 s = ⟨.ws, 0, []⟩ := by simp [scan, isSpace]
  simp only [lexFrom, List.length_cons]
  rw [go_ws h]
  simp [countNl]

/-! ### line comments -/

theorem lineLen_append_nl (x s : Bytes) (h10 : 10 ∉ x) (h13 : 13 ∉ x) :
    lineLen (x ++ 10 :: s) = x.length := by
  induction x with
  | nil => simp [lineLen]
  | cons c t ih =>
    simp only [List.mem_cons, not_or] at h10 h13
    have h1 : ¬ c = 10 := fun h => h10.1 h.symm
    have h2 : ¬ c = 13 := fun h => h13.1 h.symm
    simp [lineLen, h1, h2, ih h10.2 h13.2]

theorem lineLen_self (x : Bytes) (h10 : 10 ∉ x) (h13 : 13 ∉ x) : lineLen x = x.length := by
  induction x with
  | nil => simp [lineLen]
  | cons c t ih =>
    simp only [List.mem_cons, not_or] at h10 h13
    have h1 : ¬ c = 10 := fun h => h10.1 h.symm
    have h2 : ¬ c = 13 := fun h => h13.1 h.symm
    simp [lineLen, h1, h2, ih h10.2 h13.2]

theorem lineLen_le (x : Bytes) : lineLen x ≤ x.length := by
  induction x with
  | nil => simp [lineLen]
  | cons c t ih => simp only [lineLen]; split <;> simp <;> omega

/-- the line stops at the first CR -/
theorem lineLen_cr (x y : Bytes) : lineLen (x ++ 13 :: y) ≤ x.length := by
  induction x with
  | nil => simp [lineLen]
  | cons c t ih => simp only [List.cons_append, lineLen]; split <;> simp <;> omega

/-! ### long-bracket openers -/

theorem countEq_append_ne (x s : Bytes) (c : UInt8) (hc : c ≠ 61) :
    countEq (x ++ c :: s) = countEq x := by
  induction x with
  | nil => simp [countEq, hc]
  | cons d t ih => simp only [List.cons_append, countEq, ih]

theorem countEq_le (x : Bytes) : countEq x ≤ x.length := by
  induction x with
  | nil => simp [countEq]
  | cons d t ih => simp only [countEq]; split <;> simp <;> omega

theorem countEq_replicate (k : Nat) (c : UInt8) (s : Bytes) (hc : c ≠ 61) :
    countEq (List.replicate k 61 ++ c :: s) = k := by
  induction k with
  | zero => simp [countEq, hc]
  | succ n ih => simp [List.replicate_succ, countEq, ih]

theorem longOpen_append_nl (x s : Bytes) (h : longOpen? x = none) :
    longOpen? (x ++ 10 :: s) = none := by
  cases x with
  | nil => simp [longOpen?]
  | cons c t =>
    by_cases hc : c = 91
    · subst hc
      simp only [longOpen?, List.cons_append] at h ⊢
      rw [countEq_append_ne t s 10 (by decide)]
      have hle := countEq_le t
      rw [List.drop_append_of_le_length hle]
      generalize hd : t.drop (countEq t) = d at h
      cases d with
      | nil => simp
      | cons e r =>
        by_cases he : e = 91
        · subst he; simp at h
        · simp only [List.cons_append]
          split
          · next heq => simp at heq; exact absurd heq.1 he
          · rfl
    · simp only [List.cons_append]
      unfold longOpen?
      split
      · next heq => simp at heq; exact absurd heq.1 hc
      · rfl

theorem longOpen_opener (k : Nat) (s : Bytes) :
    longOpen? (91 :: (List.replicate k 61 ++ 91 :: s)) = some k := by
  simp only [longOpen?]
  rw [countEq_replicate k 91 s (by decide)]
  simp

/-! ### closers -/

theorem closeComment_eq_closer (k : Nat) : closeComment k = closer k := rfl

theorem closer_length (k : Nat) : (closer k).length = k + 2 := by simp [closer]

theorem nl_not_mem_closer (k : Nat) : (10 : UInt8) ∉ closer k := by
  simp [closer, List.mem_replicate]

/-- a prefix that contains no `b` cannot reach beyond a `b` -/
theorem isPrefixOf_append_sep (p y z : Bytes) (b : UInt8) (hb : b ∉ p)
    (h : p.isPrefixOf (y ++ b :: z) = true) : p.isPrefixOf y = true := by
  induction p generalizing y with
  | nil => simp
  | cons a p ih =>
    simp only [List.mem_cons, not_or] at hb
    cases y with
    | nil =>
      simp only [List.nil_append, List.isPrefixOf, Bool.and_eq_true, beq_iff_eq] at h
      exact absurd h.1.symm hb.1
    | cons c y =>
      simp only [List.cons_append, List.isPrefixOf, Bool.and_eq_true, beq_iff_eq] at h ⊢
      exact ⟨h.1, ih y hb.2 h.2⟩

theorem isPrefixOf_append_self (p r : Bytes) : p.isPrefixOf (p ++ r) = true := by
  induction p with
  | nil => simp
  | cons a p ih => simp [ih]

/-- The search for the closer, on `x ++ "\n" ++ closer ++ r` where `x` does not contain the closer:
it is found exactly at the appended one (no occurrence inside `x`, none straddling the newline). -/
theorem findCloser_append (k : Nat) (x r : Bytes) (h : containsSub (closer k) x = false) :
    findCloser k (x ++ 10 :: (closer k ++ r)) = some (x.length + 1 + (k + 2)) := by
  induction x with
  | nil =>
    have h1 : (closer k).isPrefixOf (10 :: (closer k ++ r)) = false := by
      simp [closer, List.isPrefixOf]
    have h2 : findCloser k (closer k ++ r) = some (k + 2) := by
      have : closer k ++ r = 93 :: (List.replicate k 61 ++ 93 :: r) := by simp [closer]
      rw [this]
      simp only [findCloser]
      rw [← this, isPrefixOf_append_self]
      simp
    simp only [List.nil_append, findCloser, h1, h2]
    simp
    omega
  | cons c t ih =>
    simp only [containsSub, Bool.or_eq_false_iff] at h
    have hp : (closer k).isPrefixOf (c :: t ++ 10 :: (closer k ++ r)) = false := by
      cases hq : (closer k).isPrefixOf (c :: t ++ 10 :: (closer k ++ r)) with
      | false => rfl
      | true =>
        have := isPrefixOf_append_sep (closer k) (c :: t) (closer k ++ r) 10 (nl_not_mem_closer k) hq
        rw [h.1] at this
        exact absurd this (by simp)
    simp only [List.cons_append] at hp ⊢
    simp only [findCloser, hp, ih h.2]
    simp
    omega

/-! ### the level search of `commentText` -/

theorem containsSub_length (n : Bytes) : ∀ h : Bytes, containsSub n h = true → n.length ≤ h.length := by
  have pre : ∀ (n h : Bytes), n.isPrefixOf h = true → n.length ≤ h.length := by
    intro n
    induction n with
    | nil => simp
    | cons a n ih =>
      intro h hp
      cases h with
      | nil => simp [List.isPrefixOf] at hp
      | cons c h =>
        simp only [List.isPrefixOf, Bool.and_eq_true] at hp
        have := ih h hp.2
        simp
        omega
  intro h
  induction h with
  | nil => intro hc; exact pre n [] hc
  | cons c t ih =>
    intro hc
    simp only [containsSub, Bool.or_eq_true] at hc
    cases hc with
    | inl hp => exact pre n (c :: t) hp
    | inr hr => have := ih hr; simp; omega

/-- `containsSub` is a search at every position: if it fails, no suffix starts with the needle -/
theorem containsSub_false_drop (n h : Bytes) (hc : containsSub n h = false) (i : Nat) :
    n.isPrefixOf (h.drop i) = false := by
  induction h generalizing i with
  | nil => simpa [containsSub] using hc
  | cons c t ih =>
    simp only [containsSub, Bool.or_eq_false_iff] at hc
    cases i with
    | zero => simpa using hc.1
    | succ j => simpa using ih hc.2 j

/-- The level search stops at a level whose closer does not occur in the content
(given fuel ≥ what `commentText` supplies). -/
theorem findLevel_spec (fuel k : Nat) (content : Bytes) (hf : content.length + 1 ≤ k + fuel) :
    containsSub (closeComment (findLevel fuel k content)) content = false := by
  induction fuel generalizing k with
  | zero =>
    simp only [findLevel]
    cases hc : containsSub (closeComment k) content with
    | false => rfl
    | true =>
      have := containsSub_length _ _ hc
      simp [closeComment] at this
      omega
  | succ n ih =>
    simp only [findLevel]
    cases hc : containsSub (closeComment k) content with
    | false => simpa using hc
    | true => simp; exact ih (k + 1) (by omega)

/-- … and every lower level from the start of the search does occur (the level is the least one). -/
theorem findLevel_least (fuel k : Nat) (content : Bytes) :
    ∀ j, k ≤ j → j < findLevel fuel k content → containsSub (closeComment j) content = true := by
  induction fuel generalizing k with
  | zero => intro j h1 h2; simp only [findLevel] at h2; omega
  | succ n ih =>
    intro j h1 h2
    simp only [findLevel] at h2
    cases hc : containsSub (closeComment k) content with
    | false => simp [hc] at h2; omega
    | true =>
      simp [hc] at h2
      by_cases hj : j = k
      · subst hj; exact hc
      · exact ih (k + 1) j (by omega) h2

/-! ### counting lines -/

theorem countNl_append (a b : Bytes) : countNl (a ++ b) = countNl a + countNl b := by
  induction a with
  | nil => simp [countNl]
  | cons c t ih => simp only [List.cons_append, countNl, ih]; omega

/-! ### moved from Thm.lean: scanning a whole comment, the token model -/

/-- generic step: a comment lexeme `c :: body` at the head is emitted and lexing continues behind it -/
theorem lexFrom_comment (c : UInt8) (body rest : Bytes) (line : Nat)
    (h : scan [] c (body ++ rest) = ⟨.comment, body.length, []⟩) :
    lexFrom line (c :: body ++ rest)
      = .com ⟨c :: body, line⟩ :: lexFrom (line + countNl (c :: body)) rest := by
  simp only [lexFrom, List.cons_append, List.length_cons]
  rw [go_comment h]
  simp only [List.take_left', List.drop_left']
  rw [go_eq_lexFrom' _ [] _ rest (by simp)]

theorem dropWhile_eq_drop_countEq (t : Bytes) : t.dropWhile (· == 61) = t.drop (countEq t) := by
  induction t with
  | nil => rfl
  | cons c r ih =>
    by_cases hc : c = 61
    · subst hc; simp [List.dropWhile_cons, countEq, ih]
    · simp [List.dropWhile_cons, countEq, hc]

/-- the model's `starts_with_long_bracket` is the reference lexer's "a long bracket opens here" -/
theorem startsWithLongBracket_eq (t : Bytes) : startsWithLongBracket t = (longOpen? t).isSome := by
  cases t with
  | nil => rfl
  | cons c r =>
    by_cases hc : c = 91
    · subst hc
      simp only [startsWithLongBracket, longOpen?, dropWhile_eq_drop_countEq]
      cases h : r.drop (countEq r) with
      | nil => simp
      | cons d u =>
        by_cases hd : d = 91
        · subst hd; simp
        · simp only [List.head?_cons]
          have : (some d == some (91 : UInt8)) = false := by simp [hd]
          rw [this]
          split
          · next heq => simp at heq; exact absurd heq.1 hd
          · rfl
    · unfold startsWithLongBracket longOpen?
      split
      · next heq => simp at heq; exact absurd heq.1 hc
      · split
        · next heq => simp at heq; exact absurd heq.1 hc
        · rfl

theorem useLongForm_false (text : Bytes) (h : useLongForm text = false) :
    10 ∉ text ∧ 13 ∉ text ∧ longOpen? text = none := by
  simp only [useLongForm, Bool.or_eq_false_iff, startsWithLongBracket_eq] at h
  refine ⟨by simpa using h.1.1, by simpa using h.1.2, by simpa using h.2⟩

theorem commentText_single (text : Bytes) (h0 : text ≠ []) (hl : useLongForm text = false) :
    commentText text = 45 :: 45 :: text := by
  simp [commentText, h0, hl]

theorem commentText_multi (text : Bytes) (h0 : text ≠ []) (hl : useLongForm text = true) :
    commentText text = 45 :: 45 :: 91 :: (List.replicate (findLevel (text.length + 1) 0 text) 61
      ++ 91 :: 10 :: (text ++ 10 :: closer (findLevel (text.length + 1) 0 text))) := by
  simp [commentText, h0, hl, closeComment_eq_closer]

/-- Single-line branch, any continuation `rest` that is empty or starts with a line break. -/
theorem single_line_scan (text rest : Bytes) (h13 : 13 ∉ text) (h10 : 10 ∉ text)
    (ho : longOpen? text = none) (hr : rest = [] ∨ ∃ s, rest = 10 :: s) :
    scan [] 45 ((45 :: text) ++ rest) = ⟨.comment, (45 :: text).length, []⟩ := by
  have hlo : longOpen? (text ++ rest) = none := by
    rcases hr with rfl | ⟨s, rfl⟩
    · simpa using ho
    · exact longOpen_append_nl text s ho
  have hll : lineLen (text ++ rest) = text.length := by
    rcases hr with rfl | ⟨s, rfl⟩
    · simpa using lineLen_self text h10 h13
    · exact lineLen_append_nl text s h10 h13
  simp [scan, isSpace, scanComment, hlo, hll]
  omega

/-- Multi-line branch: the opener is recognised with level `k`, the first closer of level `k` is the
appended one. Needs only that `closer k` does not occur in the text. -/
theorem multi_line_scan (k : Nat) (text rest : Bytes) (hk : containsSub (closer k) text = false) :
    scan [] 45 ((45 :: 91 :: (List.replicate k 61 ++ 91 :: 10 :: (text ++ 10 :: closer k))) ++ rest)
      = ⟨.comment, (45 :: 91 :: (List.replicate k 61 ++ 91 :: 10 :: (text ++ 10 :: closer k))).length, []⟩ := by
  have hk' : containsSub (closer k) (10 :: text) = false := by
    have : (closer k).isPrefixOf (10 :: text) = false := rfl
    simp only [containsSub, hk, this, Bool.or_false]
  have hfc := findCloser_append k (10 :: text) rest hk'
  have hlo := longOpen_opener k (10 :: (text ++ 10 :: (closer k ++ rest)))
  have hd : List.drop (k + 2) (91 :: (List.replicate k 61 ++ 91 :: 10 :: (text ++ 10 :: (closer k ++ rest))))
      = 10 :: text ++ 10 :: (closer k ++ rest) := by
    have e : (91 :: (List.replicate k 61 ++ 91 :: 10 :: (text ++ 10 :: (closer k ++ rest))) : Bytes)
        = (91 :: (List.replicate k 61 ++ [91])) ++ (10 :: text ++ 10 :: (closer k ++ rest)) := by simp
    rw [e]
    exact List.drop_left' (by simp)
  simp only [scan, isSpace, List.cons_append, List.append_assoc, List.head?_cons, List.drop_one,
    List.tail_cons, scanComment]
  simp only [List.cons_append] at hlo hfc hd
  simp [hlo, hd, hfc, closer_length]
  omega

/-- all three per-token operations of token.rs are "retain the trivia satisfying `q`" -/
def Token.filterTrivia (q : Trivia → Bool) (t : Token) : Token :=
  { t with leading := t.leading.filter q, trailing := t.trailing.filter q }

theorem clearComments_eq (t : Token) :
    t.clearComments = Token.filterTrivia (fun x => x.kind != .comment) t := rfl
theorem clearWhitespaces_eq (t : Token) :
    t.clearWhitespaces = Token.filterTrivia (fun x => x.kind != .whitespace) t := rfl
theorem filterComments_eq (keep : Trivia → Bool) (t : Token) :
    t.filterComments keep = Token.filterTrivia (fun x => x.kind != .comment || keep x) t := rfl

/-- the trivia of kind-selector `sel`, in writing order -/
def selectTrivia (sel : Trivia → Bool) (l : List Token) : List Trivia :=
  l.flatMap fun t => t.leading.filter sel ++ t.trailing.filter sel

theorem all_mapTokens (g : Token → Token) (f : File) : (f.mapTokens g).all = f.all.map g := by
  cases hf : f.final <;> simp [File.all, File.mapTokens, hf]

theorem comments_eq (f : File) :
    f.comments = (selectTrivia (·.kind == .comment) f.all).map (·.content) := rfl
theorem whitespaces_eq (f : File) :
    f.whitespaces = (selectTrivia (·.kind == .whitespace) f.all).map (·.content) := rfl

theorem selectTrivia_filterTrivia (sel q : Trivia → Bool) (l : List Token) :
    selectTrivia sel (l.map (Token.filterTrivia q)) = (selectTrivia sel l).filter q := by
  have key : ∀ l : List Trivia, (l.filter q).filter sel = (l.filter sel).filter q := by
    intro l
    rw [List.filter_filter, List.filter_filter]
    apply List.filter_congr
    intro x _
    exact Bool.and_comm _ _
  induction l with
  | nil => rfl
  | cons t r ih =>
    simp only [selectTrivia, List.map_cons, List.flatMap_cons, List.filter_append] at ih ⊢
    rw [ih]
    simp only [Token.filterTrivia, key]

theorem mem_selectTrivia (sel : Trivia → Bool) (l : List Token) :
    ∀ x ∈ selectTrivia sel l, sel x = true := by
  intro x hx
  simp only [selectTrivia, List.mem_flatMap, List.mem_append, List.mem_filter] at hx
  obtain ⟨_, _, h | h⟩ := hx <;> exact h.2

theorem codeOf_map (g : Token → Token) (hg : ∀ t, (g t).content = t.content) (l : List Token) :
    ((l.map g).map (·.content)) = l.map (·.content) := by
  rw [List.map_map]
  apply List.map_congr_left
  intro t _
  exact hg t

theorem linesOf_map (g : Token → Token) (hg : ∀ t, (g t).content = t.content) (l : List Token) :
    ((l.map g).filter (fun t => !t.content.isEmpty)).map (·.line)
      = (l.filter (fun t => !t.content.isEmpty)).map (fun t => (g t).line) := by
  induction l with
  | nil => rfl
  | cons t r ih =>
    simp only [List.map_cons, List.filter_cons, hg t]
    split <;> simp [ih]

theorem mapTokens_code (g : Token → Token) (hg : ∀ t, (g t).content = t.content) (f : File) :
    (f.mapTokens g).code = f.code := by
  simp only [File.code, all_mapTokens, codeOf_map g hg]

theorem mapTokens_codeLines (g : Token → Token)
    (hg : ∀ t, (g t).content = t.content) (hl : ∀ t, (g t).line = t.line) (f : File) :
    (f.mapTokens g).codeLines = f.codeLines := by
  simp only [File.codeLines, all_mapTokens, linesOf_map g hg, hl]

/-- comments kept by `filter_comments` with a filter that looks at the content only -/
theorem filterComments_comments (p : Bytes → Bool) (f : File) :
    (f.mapTokens (Token.filterComments fun x => p x.content)).comments = f.comments.filter p := by
  have e : (Token.filterComments fun x => p x.content)
      = Token.filterTrivia (fun x => x.kind != .comment || p x.content) := by
    funext t; rfl
  rw [comments_eq, comments_eq, all_mapTokens, e, selectTrivia_filterTrivia, List.filter_map]
  congr 1
  apply List.filter_congr
  intro x hx
  have : x.kind = .comment := by simpa using mem_selectTrivia _ _ x hx
  simp [this]

theorem clearComments_comments (f : File) : (f.mapTokens Token.clearComments).comments = [] := by
  have e : Token.clearComments = Token.filterTrivia (fun x => x.kind != .comment) := by
    funext t; rfl
  rw [comments_eq, all_mapTokens, e, selectTrivia_filterTrivia]
  have : (selectTrivia (·.kind == .comment) f.all).filter (fun x => x.kind != .comment) = [] := by
    rw [List.filter_eq_nil_iff]
    intro x hx
    have : x.kind = .comment := by simpa using mem_selectTrivia _ _ x hx
    simp [this]
  rw [this]; rfl

/-- retaining trivia by a predicate that holds for every trivia of the selected kind keeps them all -/
theorem selected_kept (sel q : Trivia → Bool) (hq : ∀ x, sel x = true → q x = true) (f : File) :
    selectTrivia sel (f.mapTokens (Token.filterTrivia q)).all = selectTrivia sel f.all := by
  rw [all_mapTokens, selectTrivia_filterTrivia, List.filter_eq_self]
  intro x hx
  exact hq x (mem_selectTrivia _ _ x hx)

theorem appendComment_content (loc : AppendLocation) (c : Bytes) (t : Token) :
    (appendComment loc c t).content = t.content := by
  cases loc <;> simp only [appendComment, Token.insertLeadingTrivia, Token.pushTrailingTrivia]
    <;> (repeat' split) <;> rfl

theorem appendComment_line (loc : AppendLocation) (c : Bytes) (t : Token) :
    (appendComment loc c t).line = t.line := by
  cases loc <;> simp only [appendComment, Token.insertLeadingTrivia, Token.pushTrailingTrivia]
    <;> (repeat' split) <;> rfl

/-- a token-list transformation that maps each token to itself or to its image under a
content/line-preserving `g` preserves contents and lines -/
theorem mapHead_content (g : Token → Token) (hg : ∀ t, (g t).content = t.content) (l : List Token) :
    (mapHead g l).map (·.content) = l.map (·.content) := by
  cases l <;> simp [mapHead, hg]

theorem mapLast_content (g : Token → Token) (hg : ∀ t, (g t).content = t.content) (l : List Token) :
    (mapLast g l).map (·.content) = l.map (·.content) := by
  induction l with
  | nil => rfl
  | cons t r ih =>
    cases r with
    | nil => simp [mapLast, hg]
    | cons u r' => simp only [mapLast, List.map_cons] at ih ⊢; rw [ih]

theorem mapHead_line (g : Token → Token) (hg : ∀ t, (g t).content = t.content)
    (hl : ∀ t, (g t).line = t.line) (l : List Token) :
    ((mapHead g l).filter (fun t => !t.content.isEmpty)).map (·.line)
      = (l.filter (fun t => !t.content.isEmpty)).map (·.line) := by
  cases l with
  | nil => rfl
  | cons t r =>
    simp only [mapHead, List.filter_cons, hg t]
    split <;> simp [hl]

theorem mapLast_line (g : Token → Token) (hg : ∀ t, (g t).content = t.content)
    (hl : ∀ t, (g t).line = t.line) (l : List Token) :
    ((mapLast g l).filter (fun t => !t.content.isEmpty)).map (·.line)
      = (l.filter (fun t => !t.content.isEmpty)).map (·.line) := by
  induction l with
  | nil => rfl
  | cons t r ih =>
    cases r with
    | nil =>
      simp only [mapLast, List.filter_cons, hg t]
      split <;> simp [hl]
    | cons u r' =>
      simp only [mapLast] at ih ⊢
      rw [List.filter_cons, List.filter_cons (x := t)]
      split <;> simp [ih]

theorem attachComment_code (loc : AppendLocation) (text : Bytes) (g : File) :
    (attachComment loc text g).code = g.code := by
  unfold attachComment
  cases hg : g.tokens with
  | nil =>
    cases hf : g.final <;>
      simp [File.code, File.all, hg, hf, appendComment_content, emptyToken]
  | cons t r =>
    cases loc
    · simp only [File.code, File.all, List.map_append]
      rw [mapHead_content _ (appendComment_content _ _), hg]
    · simp only [File.code, File.all, List.map_append]
      rw [mapLast_content _ (appendComment_content _ _), hg]

theorem attachComment_codeLines (loc : AppendLocation) (text : Bytes) (g : File) :
    (attachComment loc text g).codeLines = g.codeLines := by
  unfold attachComment
  cases hg : g.tokens with
  | nil =>
    cases hf : g.final with
    | none => simp [File.codeLines, File.all, hg, hf, appendComment_content, emptyToken]
    | some x =>
      simp only [File.codeLines, File.all, hg, hf, List.nil_append, Option.toList_some, Option.getD_some,
        List.filter_append, List.map_append, List.filter_cons, List.filter_nil, appendComment_content]
      split <;> simp [appendComment_line]
  | cons t r =>
    cases loc
    · simp only [File.codeLines, File.all, List.filter_append, List.map_append]
      rw [mapHead_line _ (appendComment_content _ _) (appendComment_line _ _), hg]
    · simp only [File.codeLines, File.all, List.filter_append, List.map_append]
      rw [mapLast_line _ (appendComment_content _ _) (appendComment_line _ _), hg]

theorem commentText_nonempty (content : Bytes) (h0 : content ≠ []) :
    (commentText content).isEmpty = false := by
  cases hl : useLongForm content
  · rw [commentText_single content h0 hl]; rfl
  · rw [commentText_multi content h0 hl]; rfl

/-! ### the tree of token carriers -/

theorem filterMap_id_map_option (g : Token → Token) (f : List (Option Token)) :
    (f.map (Option.map g)).filterMap id = (f.filterMap id).map g := by
  induction f with
  | nil => rfl
  | cons x r ih => cases x <;> simp [ih]

theorem mapSections_tokens (g : Token → Token) :
    (∀ n : Node, (n.mapSections g g g).tokens = n.tokens.map g)
    ∧ (∀ l : List Node, Node.tokensList (Node.mapSectionsList g g g l) = (Node.tokensList l).map g) := by
  have key : ∀ n : Node, (n.mapSections g g g).tokens = n.tokens.map g := by
    intro n
    induction n using Node.rec
      (motive_2 := fun l => Node.tokensList (Node.mapSectionsList g g g l) = (Node.tokensList l).map g) with
    | mk t i f c ih =>
      simp only [Node.mapSections, Node.tokens, List.map_append, filterMap_id_map_option, ih]
    | nil => rfl
    | cons n r ihn ihr =>
      simp only [Node.mapSectionsList, Node.tokensList, List.map_append, ihn, ihr]
  refine ⟨key, ?_⟩
  intro l
  induction l with
  | nil => rfl
  | cons n r ih => simp only [Node.mapSectionsList, Node.tokensList, List.map_append, key n, ih]

end DarkluaModel.C18
