import DarkluaModel.Util.Sexp
import DarkluaModel.C18.Lex
import DarkluaModel.C18.Model
import DarkluaModel.C18.Spec
import DarkluaModel.C18.Carriers
/-!
Line-protocol handlers for property C18.

* `c18.lex <src>`                          → `ok|err <items>` — the reference lexer (Lex.lean) on `src`;
                                             items in source order, comma separated (or `-`):
                                             `T:kind:hex:line` code token, `C:hex:line` comment, `E:line` error
* `c18.comment_text <text>`                → `<hex commentText> <linesCount>`          (Model.commentText)
* `c18.long_form <text>`                   → `true|false|empty`   (which branch of `text()` the model takes)
* `c18.level <text>`                       → the level `findLevel` picks for the long form, or `-`
* `c18.append_safe <text> <src>`           → `true|false`   (the statement `AppendSafeAt text src 1`, decided by running the lexer)
* `c18.remove_comments <src> <pat>*`       → `code=… comments=… lines=… after=n` of `removeComments LitPat.isMatch pats (toFile src)`
* `c18.remove_spaces <src>`                → same for `removeSpaces`
* `c18.append <start|end> <text> <src>`    → same for `appendTextComment`
* `c18.seq <src> <rule>*`                → same for a pipeline; rule = `S` (remove_spaces) or `C[+pat]*` (remove_comments)
* `c18.carriers`                           → the carrier list of Carriers.lean: `Struct:section:field,…`
* `c18.file <src>`                         → same for the unchanged file
  `pat` = two flag digits (anchored at start, anchored at end) followed by the hex literal, e.g. `10x2d2d21`.
All byte strings are hex (`x…`). Ill-formed requests answer `bad-request`; a source the reference lexer
rejects answers `lex-error` for the model ops.
-/
namespace DarkluaModel.C18
open Lex

def kindName : Kind → String
  | .name => "name" | .keyword => "keyword" | .number => "number" | .string => "string"
  | .longString => "longString" | .interpSimple => "interpSimple" | .interpBegin => "interpBegin"
  | .interpMid => "interpMid" | .interpEnd => "interpEnd" | .punct => "punct"

def joinOrDash (xs : List String) : String :=
  if xs.isEmpty then "-" else ",".intercalate xs

/-- items in source order: `T:kind:hex:line`, `C:hex:line`; a final `E:line` marks a lexical error -/
def showItems (items : List Item) : String :=
  (if okOf items then "ok " else "err ")
    ++ joinOrDash (items.map fun
        | .tok t => "T:" ++ kindName t.kind ++ ":" ++ bytesToHex t.bytes ++ ":" ++ toString t.line
        | .com c => "C:" ++ bytesToHex c.bytes ++ ":" ++ toString c.line
        | .err _ line => "E:" ++ toString line)

/-- Build the token model of a lexed file. A comment is trailing trivia of the previous token when no
line break separates them (full_moon's rule), otherwise leading trivia of the next token; what is left
at the end is leading trivia of the final (end-of-file) token. Whitespace trivia are not rebuilt. -/
def toFileAux : List Item → List Token → List Trivia → Option Nat → Option File
  | [], acc, pending, cur =>
    -- a semicolon that ends the file's last statement is a block-level token (`after`)
    match acc with
    | semi :: acc' =>
      if semi.content = [59] ∧ !acc'.isEmpty then some ⟨acc'.reverse, [semi], some ⟨[], cur, pending, []⟩⟩
      else some ⟨acc.reverse, [], some ⟨[], cur, pending, []⟩⟩
    | [] => some ⟨[], [], some ⟨[], cur, pending, []⟩⟩
  | .err _ _ :: _, _, _, _ => none
  | .tok t :: r, acc, pending, _ =>
    toFileAux r (⟨t.bytes, some t.line, pending, []⟩ :: acc) [] (some (t.line + countNl t.bytes))
  | .com c :: r, acc, pending, cur =>
    match acc, pending, decide (cur = some c.line) with
    | last :: acc', [], true =>
      toFileAux r ({ last with trailing := last.trailing ++ [⟨.comment, c.bytes⟩] } :: acc') []
        (some (c.line + countNl c.bytes))
    | _, _, _ => toFileAux r acc (pending ++ [⟨.comment, c.bytes⟩]) none

def toFile (src : Bytes) : Option File := toFileAux (lexItems src) [] [] none

def showFile (f : File) : String :=
  "code=" ++ joinOrDash (f.code.map bytesToHex)
    ++ " comments=" ++ joinOrDash (f.comments.map bytesToHex)
    ++ " lines=" ++ joinOrDash (f.codeLines.map fun
        | some n => toString n
        | none => "_")
    ++ " after=" ++ toString (f.after.filter fun t => !t.content.isEmpty).length

def parsePat (s : String) : Option LitPat :=
  match s.toList with
  | a :: e :: rest =>
    match hexToBytes? (String.ofList rest) with
    | some lit =>
      if (a = '0' ∨ a = '1') ∧ (e = '0' ∨ e = '1') then some ⟨a = '1', e = '1', lit⟩ else none
    | none => none
  | _ => none

def withFile (src : String) (k : File → String) : String :=
  match hexToBytes? src with
  | none => "bad-request"
  | some bytes =>
    match toFile bytes with
    | none => "lex-error"
    | some f => k f

def handle (op : String) (args : List String) : String :=
  match op, args with
  | "lex", [src] =>
    match hexToBytes? src with
    | some b => showItems (lexItems b)
    | none => "bad-request"
  | "comment_text", [text] =>
    match hexToBytes? text with
    | some t => bytesToHex (commentText t) ++ " " ++ toString (linesCount (commentText t))
    | none => "bad-request"
  | "long_form", [text] =>
    match hexToBytes? text with
    | some t => if t.isEmpty then "empty" else if useLongForm t then "true" else "false"
    | none => "bad-request"
  | "level", [text] =>
    -- the level the model's level search picks for the long form (`-`: the text does not take the long form)
    match hexToBytes? text with
    | some t =>
      if t.isEmpty || !useLongForm t then "-" else toString (findLevel (t.length + 1) 0 t)
    | none => "bad-request"
  | "append_safe", [text, src] =>
    match hexToBytes? text, hexToBytes? src with
    | some t, some s =>
      if decide (AppendSafeAt t s 1) then "true" else "false"
    | _, _ => "bad-request"
  | "file", [src] => withFile src showFile
  | "remove_spaces", [src] => withFile src fun f => showFile (removeSpaces f)
  | "remove_comments", src :: pats =>
    match pats.mapM parsePat with
    | some ps => withFile src fun f => showFile (removeComments LitPat.isMatch ps f)
    | none => "bad-request"
  | "carriers", [] =>
    ",".intercalate (carriers.map fun (s, sec, f) => s ++ ":" ++ sec.name ++ ":" ++ f)
  | "seq", src :: rules =>
    -- a pipeline: each rule is `S` (remove_spaces) or `C` followed by `+pat` for every except pattern
    let step (acc : Option (File → File)) (r : String) : Option (File → File) :=
      match acc, r.splitOn "+" with
      | some k, ["S"] => some (removeSpaces ∘ k)
      | some k, "C" :: pats =>
        match pats.mapM parsePat with
        | some ps => some (removeComments LitPat.isMatch ps ∘ k)
        | none => none
      | _, _ => none
    match rules.foldl step (some id) with
    | some k => withFile src fun f => showFile (k f)
    | none => "bad-request"
  | "append", [loc, text, src] =>
    match hexToBytes? text with
    | none => "bad-request"
    | some t =>
      if loc == "start" then withFile src fun f => showFile (appendTextComment .start t f)
      else if loc == "end" then withFile src fun f => showFile (appendTextComment .end t f)
      else "bad-request"
  | _, _ => "unknown-op " ++ op

end DarkluaModel.C18
