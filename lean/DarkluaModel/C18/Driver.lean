import DarkluaModel.Util.Sexp
/-! Line-protocol handlers for property C18 (stub: nothing modelled yet). -/
namespace DarkluaModel.C18

def handle (op : String) (_args : List String) : String :=
  "unknown-op " ++ op

end DarkluaModel.C18
