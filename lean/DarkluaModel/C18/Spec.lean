import DarkluaModel.C18.Lex
import DarkluaModel.C18.Model
/-! The statement of `append_safe` and its hypothesis, shared by `Thm.lean` (which proves things about
them) and `Driver.lean` (which evaluates them for the harness). -/
namespace DarkluaModel.C18
open Lex

/-- Lexing `comment ++ "\n" ++ s` from line `line` gives the comment, then what `s` gives on its own
(from the line after the comment). Items carry kind, bytes and line, so this fixes the code-token
stream, the comment list and all line numbers. -/
def AppendSafeAt (text s : Bytes) (line : Nat) : Prop :=
  lexFrom line (commentText text ++ 10 :: s)
    = .com ⟨commentText text, line⟩ :: lexFrom (line + countNl (commentText text) + 1) s

instance (text s : Bytes) (line : Nat) : Decidable (AppendSafeAt text s line) := by
  unfold AppendSafeAt; infer_instance

end DarkluaModel.C18
