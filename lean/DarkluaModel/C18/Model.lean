/-
Model of the Rust code behind property C18 (import-free).

* `commentText`            — src/rules/append_text_comment.rs: `AppendTextComment::text` (the `.map(|content| …)` closure)
* `linesCount`             — `str::lines().count()` as used by `AppendTextComment::process` for `ShiftTokenLine`
* `Trivia`, `Token`        — src/nodes/token.rs
* `clearComments`, `clearWhitespaces`, `filterComments`, `shiftTokenLine`,
  `insertLeadingTrivia`, `pushTrailingTrivia` — src/nodes/token.rs, same names in snake case
* `File`                   — the tokens of a parsed block in writing order plus the block's `final_token`
* `removeComments`         — src/rules/remove_comments.rs: `RemoveComments::flawless_process`
* `removeSpaces`           — src/rules/remove_spaces.rs: `RemoveSpaces::flawless_process`
* `appendTextComment`      — src/rules/append_text_comment.rs: `process` + `AppendLocation::append_comment`
                             + src/nodes/block.rs `mutate_first_token` / `mutate_last_token`

The model mirrors the code as it is (after the fix of F20/F21: the long-comment form is also used for a
text containing CR or starting with a long-bracket opener), and, after the fix of F25, the line shift applied for location `start` only.
-/
namespace DarkluaModel.C18

abbrev Bytes := List UInt8

/-! ### append_text_comment: the comment text -/

/-- Rust `haystack.contains(needle)` for `&str` needles: byte-wise substring search. -/
def containsSub (needle : Bytes) : Bytes → Bool
  | [] => needle.isPrefixOf []
  | c :: t => needle.isPrefixOf (c :: t) || containsSub needle t

/-- `format!("]{}]", "=".repeat(equal_count))` -/
def closeComment (equalCount : Nat) : Bytes := 93 :: (List.replicate equalCount 61 ++ [93])

/-- The `loop { … equal_count += 1 }` of `text()`: first `equal_count ≥ k` whose closer does not occur
in `content`. Fuel: the loop is entered with `content.length + 1` (see `findLevel_spec`). -/
def findLevel : Nat → Nat → Bytes → Nat
  | 0, k, _ => k
  | fuel + 1, k, content =>
    if !containsSub (closeComment k) content then k else findLevel fuel (k + 1) content

/-- `starts_with_long_bracket`: `[` `=`* `[` at the start of the text -/
def startsWithLongBracket : Bytes → Bool
  | 91 :: rest => (rest.dropWhile (· == 61)).head? == some 91
  | _ => false

/-- the branch condition of `text()`: `content.contains(['\n', '\r']) || starts_with_long_bracket(&content)` -/
def useLongForm (content : Bytes) : Bool :=
  content.contains 10 || content.contains 13 || startsWithLongBracket content

/-- `AppendTextComment::text`: what is stored as the content of the comment trivia. -/
def commentText (content : Bytes) : Bytes :=
  if content.isEmpty then []
  else if useLongForm content then
    let k := findLevel (content.length + 1) 0 content
    -- format!("--[{}[\n{}\n{}", "=".repeat(equal_count), content, close_comment)
    [45, 45, 91] ++ List.replicate k 61 ++ [91, 10] ++ content ++ [10] ++ closeComment k
  else
    -- format!("--{}", content)
    [45, 45] ++ content

/-- `str::lines().count()`: lines are terminated by LF (a final line without LF counts if non-empty;
a CR before the LF is stripped, which does not change the count). -/
def linesCount : Bytes → Nat
  | [] => 0
  | c :: t => if c = 10 then 1 + linesCount t else if t.isEmpty then 1 else linesCount t

/-! ### src/nodes/token.rs -/

inductive TriviaKind where
  | comment | whitespace
  deriving Repr, DecidableEq, Inhabited

structure Trivia where
  kind : TriviaKind
  content : Bytes
  deriving Repr, DecidableEq, Inhabited

structure Token where
  content : Bytes
  line : Option Nat
  leading : List Trivia
  trailing : List Trivia
  deriving Repr, DecidableEq, Inhabited

/-- `Token::clear_comments` -/
def Token.clearComments (t : Token) : Token :=
  { t with leading := t.leading.filter (fun x => x.kind != .comment),
           trailing := t.trailing.filter (fun x => x.kind != .comment) }

/-- `Token::clear_whitespaces` -/
def Token.clearWhitespaces (t : Token) : Token :=
  { t with leading := t.leading.filter (fun x => x.kind != .whitespace),
           trailing := t.trailing.filter (fun x => x.kind != .whitespace) }

/-- `Token::filter_comments(filter)`: retain a trivia iff it is not a comment or `filter` holds -/
def Token.filterComments (keep : Trivia → Bool) (t : Token) : Token :=
  { t with leading := t.leading.filter (fun x => x.kind != .comment || keep x),
           trailing := t.trailing.filter (fun x => x.kind != .comment || keep x) }

/-- `Token::shift_token_line(amount)` with `amount ≥ 0` (the only use by `append_text_comment`) -/
def Token.shiftTokenLine (amount : Nat) (t : Token) : Token :=
  { t with line := t.line.map (· + amount) }

/-- `Token::insert_leading_trivia(index, trivia)` -/
def Token.insertLeadingTrivia (index : Nat) (x : Trivia) (t : Token) : Token :=
  if index > t.leading.length then { t with leading := t.leading ++ [x] }
  else { t with leading := t.leading.take index ++ x :: t.leading.drop index }

/-- `Token::push_trailing_trivia` -/
def Token.pushTrailingTrivia (x : Trivia) (t : Token) : Token :=
  { t with trailing := t.trailing ++ [x] }

/-! ### a parsed file as the generator sees it -/

/-- Tokens of the block's statements in writing order (`tokens`: up to and including the token
`mutate_last_token` returns), the block-level tokens written after them (`after`: the semicolon
that follows the last statement, kept in `BlockTokens`), then the block's `final_token` (which
carries the comments that follow the last statement). `final = none`: no such token yet. -/
structure File where
  tokens : List Token
  after : List Token
  final : Option Token
  deriving Repr, DecidableEq, Inhabited

def File.all (f : File) : List Token := f.tokens ++ f.after ++ f.final.toList

/-- the code of the file: every non-empty token content, in order (the generator writes nothing
for a token with empty content, e.g. the end-of-file token) -/
def File.code (f : File) : List Bytes := (f.all.map (·.content)).filter (fun c => !c.isEmpty)

def Token.trivia (t : Token) : List Trivia := t.leading ++ t.trailing

/-- all comment contents in writing order (leading trivia are written before the token, trailing after) -/
def File.comments (f : File) : List Bytes :=
  (f.all.flatMap fun t => t.leading.filter (·.kind == .comment)
      ++ t.trailing.filter (·.kind == .comment)).map (·.content)

def File.whitespaces (f : File) : List Bytes :=
  (f.all.flatMap fun t => t.leading.filter (·.kind == .whitespace)
      ++ t.trailing.filter (·.kind == .whitespace)).map (·.content)

/-- the line numbers of the code tokens -/
def File.codeLines (f : File) : List (Option Nat) :=
  (f.all.filter (fun t => !t.content.isEmpty)).map (·.line)

def File.mapTokens (g : Token → Token) (f : File) : File :=
  { tokens := f.tokens.map g, after := f.after.map g, final := f.final.map g }

/-! ### the three rules -/

/-- `content.strip_suffix('\r').unwrap_or(content)` in `FilterCommentProcessor::ignore_trivia`: the text
of a line comment of a CRLF file carries the CR; patterns are matched without it -/
def stripCr (content : Bytes) : Bytes :=
  if content.getLast? = some 13 then content.dropLast else content

/-- `RemoveComments::flawless_process`. `isMatch pattern content` stands for `Regex::is_match`. -/
def removeComments {Pat : Type} (isMatch : Pat → Bytes → Bool) (except : List Pat) (f : File) : File :=
  if except.isEmpty then f.mapTokens Token.clearComments
  else f.mapTokens (Token.filterComments fun x => except.any fun p => isMatch p (stripCr x.content))

/-- `RemoveSpaces::flawless_process` -/
def removeSpaces (f : File) : File := f.mapTokens Token.clearWhitespaces

inductive AppendLocation where
  | start | «end»
  deriving Repr, DecidableEq, Inhabited

/-- `AppendLocation::append_comment` -/
def appendComment (loc : AppendLocation) (comment : Bytes) (t : Token) : Token :=
  match loc with
  | .start =>
    (t.insertLeadingTrivia 0 ⟨.comment, comment⟩).insertLeadingTrivia 1 ⟨.whitespace, [10]⟩
  | .end => t.pushTrailingTrivia ⟨.comment, comment⟩

/-- `Block::set_default_tokens`: `Token::from_content("")` -/
def emptyToken : Token := ⟨[], none, [], []⟩

def mapHead (g : Token → Token) : List Token → List Token
  | [] => []
  | t :: r => g t :: r

def mapLast (g : Token → Token) : List Token → List Token
  | [] => []
  | [t] => [g t]
  | t :: r => t :: mapLast g r

/-- `mutate_first_token` / `mutate_last_token` followed by `append_comment`: the comment goes to the
first / last token of the statements; when the block has no statement, to the block's
`final_token` (created by `set_default_tokens` if missing). -/
def attachComment (loc : AppendLocation) (text : Bytes) (f : File) : File :=
  match f.tokens with
  | [] => { f with final := some (appendComment loc text (f.final.getD emptyToken)) }
  | _ :: _ =>
    match loc with
    | .start => { f with tokens := mapHead (appendComment loc text) f.tokens }
    | .end => { f with tokens := mapLast (appendComment loc text) f.tokens }

/-- `AppendTextComment::process`: nothing for an empty text; for location `start` shift every token by
`text.lines().count()` and attach the comment to the first token; for `end` attach it to the last
token (no shift: nothing moves). -/
def appendTextComment (loc : AppendLocation) (content : Bytes) (f : File) : File :=
  let text := commentText content
  if text.isEmpty then f
  else
    match loc with
    | .start => attachComment .start text (f.mapTokens (Token.shiftTokenLine (linesCount text)))
    | .end => attachComment .end text f

/-! ### the AST as `impl_token_fns!` sees it (src/nodes/mod.rs)

A node has token-bearing fields in three macro sections — `target` (plain fields), `iter`
(`Option`/`Vec` fields), `iter_flatten` (`Vec<Option<Token>>`, only `BlockTokens.semicolons`) — and
fields that are nodes themselves, on which the same generated method is called (`children`).
The generated methods `clear_comments`, `clear_whitespaces`, `filter_comments` apply one per-token
operation in each section; `mapSections` keeps the three sections apart so that "the same operation
in every section" is a statement and not a definition. -/

inductive Node where
  | mk (target : List Token) (iter : List Token) (iterFlatten : List (Option Token))
       (children : List Node)
  deriving Inhabited

mutual
/-- every token position of the node, section by section, then the children -/
def Node.tokens : Node → List Token
  | .mk t i f c => t ++ i ++ f.filterMap id ++ Node.tokensList c
def Node.tokensList : List Node → List Token
  | [] => []
  | n :: r => n.tokens ++ Node.tokensList r
end

mutual
/-- the shape of every method `impl_token_fns!` generates: `gt` on the `target` fields, `gi` in the
`iter` loops, `gf` in the `iter_flatten` loops, the same method on node-valued fields -/
def Node.mapSections (gt gi gf : Token → Token) : Node → Node
  | .mk t i f c => .mk (t.map gt) (i.map gi) (f.map (Option.map gf)) (Node.mapSectionsList gt gi gf c)
def Node.mapSectionsList (gt gi gf : Token → Token) : List Node → List Node
  | [] => []
  | n :: r => n.mapSections gt gi gf :: Node.mapSectionsList gt gi gf r
end

/-- `impl_token_fns!`: `clear_comments` -/
def Node.clearComments : Node → Node :=
  Node.mapSections Token.clearComments Token.clearComments Token.clearComments
/-- `impl_token_fns!`: `clear_whitespaces` -/
def Node.clearWhitespaces : Node → Node :=
  Node.mapSections Token.clearWhitespaces Token.clearWhitespaces Token.clearWhitespaces
/-- `impl_token_fns!`: `filter_comments(filter)` -/
def Node.filterComments (keep : Trivia → Bool) : Node → Node :=
  Node.mapSections (Token.filterComments keep) (Token.filterComments keep) (Token.filterComments keep)

/-- `RemoveComments::flawless_process` on the tree (the visitor reaches every node: assumption A1) -/
def removeCommentsTree {Pat : Type} (isMatch : Pat → Bytes → Bool) (except : List Pat) (n : Node) : Node :=
  if except.isEmpty then n.clearComments
  else n.filterComments fun x => except.any fun p => isMatch p (stripCr x.content)

/-- `RemoveSpaces::flawless_process` on the tree -/
def removeSpacesTree (n : Node) : Node := n.clearWhitespaces

/-- the token model of a tree: its token positions in traversal order -/
def Node.toFile (n : Node) : File := ⟨n.tokens, [], none⟩

/-! ### literal patterns: the sub-language of `except` regexes the driver evaluates itself -/

/-- `^lit`, `lit$`, `^lit$`, `lit` with `lit` free of regex metacharacters -/
structure LitPat where
  anchoredStart : Bool
  anchoredEnd : Bool
  lit : Bytes
  deriving Repr, DecidableEq, Inhabited

def isSuffixOfB (p s : Bytes) : Bool := p.reverse.isPrefixOf s.reverse

def LitPat.isMatch (p : LitPat) (s : Bytes) : Bool :=
  match p.anchoredStart, p.anchoredEnd with
  | true, true => s == p.lit
  | true, false => p.lit.isPrefixOf s
  | false, true => isSuffixOfB p.lit s
  | false, false => containsSub p.lit s

end DarkluaModel.C18
