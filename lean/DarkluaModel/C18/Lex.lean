/-
An independent maximal-munch lexer for Lua 5.1 / Luau source text (reference artefact).

It is written from the language definitions (Lua 5.1 manual §2.1, `llex.c`; Luau `Lexer.cpp`),
not from darklua or full_moon.  It is a total function: the main loop `go` takes fuel, and
`lexFrom`/`lex` supply fuel = input length (every step consumes at least one byte, see
`go_fuel_irrelevant` in `Lemmas.lean`).

Shape (chosen so that facts about concatenations are provable):
* every lexeme is recognised by a *scanner* that looks at the bytes after the first one and
  returns how many further bytes belong to the lexeme (`Scan.extra`); the loop then splits the
  input with `take`/`drop`.  Scanners are separate structural recursions with their own lemmas.
* whitespace is consumed one byte per step (it is dropped from the output anyway).
* the output is one interleaved list of `Item`s (code tokens, comments, at most one final error);
  `tokens`, `comments`, `ok` are projections of it.

Conventions:
* bytes are `UInt8`; the input is any byte list (no UTF-8 assumption).  Bytes ≥ 0x80 are only
  legal inside strings and comments.
* a line comment ends before the first `\n` or `\r` (Lua 5.1 `currIsNewline`, Luau `readCommentBody`).
* line numbers: the line of a lexeme is `start line + number of '\n' bytes before it`
  (the Luau / darklua convention: only LF counts).
* quoted strings: token boundaries only (escape *validity* is not checked): `\` followed by any
  byte is skipped as a pair, `\` CR LF as a triple, `\z` skips the following whitespace including
  line breaks; an unescaped LF/CR or end of input inside a quoted string is an error.
* interpolated strings follow Luau: a brace stack decides whether `}` resumes a string section.
  Token sequence: `interpSimple` (`` `abc` ``) or `interpBegin` (`` `abc{ ``) … `interpMid`
  (`}abc{`) … `interpEnd` (`` }abc` ``), with ordinary tokens (and comments) in between.
  `\u{` inside a section does not open an expression; `{{` is an error.
* numbers follow the Lua 5.1 / Luau "number-like pattern" (`read_numeral` / `readNumber`): maximal
  munch of digits, `.`, `_`, one optional exponent marker with sign, then alphanumerics.  `validNumber`
  tells whether the lexeme is a well-formed Luau literal (decimal, hex, binary, underscores, exponent).
* operators: all of Lua 5.1 plus Luau's `//` `::` `->` `+=` `-=` `*=` `/=` `//=` `%=` `^=` `..=` `?` `&` `|` `@`;
  a lone `~` is returned as punctuation (as Luau's lexer does).
-/
namespace DarkluaModel.C18.Lex

abbrev Bytes := List UInt8

/-! ### byte classes -/

def isDigit (c : UInt8) : Bool := 48 ≤ c && c ≤ 57
def isAlpha (c : UInt8) : Bool := (65 ≤ c && c ≤ 90) || (97 ≤ c && c ≤ 122) || c = 95
def isAlnum (c : UInt8) : Bool := isAlpha c || isDigit c
def isHex (c : UInt8) : Bool := isDigit c || (65 ≤ c && c ≤ 70) || (97 ≤ c && c ≤ 102)
/-- space, `\t`, `\n`, `\v`, `\f`, `\r` -/
def isSpace (c : UInt8) : Bool := c = 32 || (9 ≤ c && c ≤ 13)

/-- number of LF bytes -/
def countNl : Bytes → Nat
  | [] => 0
  | c :: t => (if c = 10 then 1 else 0) + countNl t

/-! ### output -/

inductive Kind where
  | name | keyword | number | string | longString
  | interpSimple | interpBegin | interpMid | interpEnd
  | punct
  deriving Repr, BEq, DecidableEq, Inhabited

structure Token where
  kind : Kind
  bytes : Bytes
  line : Nat
  deriving Repr, BEq, DecidableEq, Inhabited

structure Comment where
  bytes : Bytes
  line : Nat
  deriving Repr, BEq, DecidableEq, Inhabited

inductive Item where
  | tok (t : Token)
  | com (c : Comment)
  /-- lexical error: the unconsumed input from the offending lexeme on; always the last item -/
  | err (rest : Bytes) (line : Nat)
  deriving Repr, BEq, DecidableEq, Inhabited

/-! ### scanners (each returns a length; none of them looks at the line or the brace stack) -/

/-- bytes before the first LF / CR -/
def lineLen : Bytes → Nat
  | [] => 0
  | c :: t => if c = 10 ∨ c = 13 then 0 else lineLen t + 1

/-- number of leading `=` -/
def countEq : Bytes → Nat
  | [] => 0
  | c :: t => if c = 61 then countEq t + 1 else 0

/-- `s` = `[` `=`^k `[` …  ⇒ `some k` (the opener is `k + 2` bytes long) -/
def longOpen? : Bytes → Option Nat
  | 91 :: t => match t.drop (countEq t) with
    | 91 :: _ => some (countEq t)
    | _ => none
  | _ => none

/-- `]` `=`^k `]` -/
def closer (k : Nat) : Bytes := 93 :: (List.replicate k 61 ++ [93])

/-- index just past the first occurrence of `closer k` -/
def findCloser (k : Nat) : Bytes → Option Nat
  | [] => none
  | c :: t =>
    if (closer k).isPrefixOf (c :: t) then some (k + 2)
    else (findCloser k t).map (· + 1)

/-- Length of a long bracket `[=*[ … ]=*]` at the head of `s` (Lua 5.1 `read_long_string`). -/
def longBracketLen? (s : Bytes) : Option Nat :=
  match longOpen? s with
  | none => none
  | some k => (findCloser k (s.drop (k + 2))).map (· + (k + 2))

/-- Quoted string body after the opening quote `q`: length up to and including the closing quote.
`z` = inside the whitespace run that follows `\z`. -/
def strLen (q : UInt8) : Bool → Bytes → Option Nat
  | _, [] => none
  | z, c :: t =>
    if z && isSpace c then (strLen q true t).map (· + 1)
    else if c = q then some 1
    else if c = 10 ∨ c = 13 then none
    else if c = 92 then
      match t with
      | [] => none
      | 13 :: 10 :: t' => (strLen q false t').map (· + 3)
      | 122 :: t' => (strLen q true t').map (· + 2)
      | _ :: t' => (strLen q false t').map (· + 2)
    else (strLen q false t).map (· + 1)

/-- Interpolated-string section after a backtick or a resuming `}`: length up to and including
the terminating backtick (`false`) or `{` (`true`). -/
def interpLen (z : Bool) : Bytes → Option (Nat × Bool)
  | [] => none
  | c :: t =>
    if z && isSpace c then (interpLen true t).map fun (n, b) => (n + 1, b)
    else if c = 96 then some (1, false)
    else if c = 123 then
      match t with
      | 123 :: _ => none
      | _ => some (1, true)
    else if c = 10 ∨ c = 13 then none
    else if c = 92 then
      match t with
      | [] => none
      | 117 :: 123 :: t' => (interpLen false t').map fun (n, b) => (n + 3, b)
      | 13 :: 10 :: t' => (interpLen false t').map fun (n, b) => (n + 3, b)
      | 122 :: t' => (interpLen true t').map fun (n, b) => (n + 2, b)
      | _ :: t' => (interpLen false t').map fun (n, b) => (n + 2, b)
    else (interpLen false t).map fun (n, b) => (n + 1, b)

/-- length of the maximal prefix satisfying `p` -/
def spanLen (p : UInt8 → Bool) : Bytes → Nat
  | [] => 0
  | c :: t => if p c then spanLen p t + 1 else 0

/-- Number-like pattern after the first byte (which is a digit, or `.` followed by a digit). -/
def numLen (t : Bytes) : Nat :=
  let a := spanLen (fun c => isDigit c || c = 46 || c = 95) t
  let r := t.drop a
  let e := match r with
    | c :: r' => if c = 101 ∨ c = 69 then
        (match r' with
         | d :: _ => if d = 43 ∨ d = 45 then 2 else 1
         | [] => 1)
      else 0
    | [] => 0
  a + e + spanLen (fun c => isAlnum c) (r.drop e)

/-- the 21 reserved words of Lua 5.1 (Luau's `continue`, `type`, `export`, `typeof` are contextual: names);
written as byte literals so that the lexer reduces in the kernel (`decide`) -/
def keywords : List Bytes :=
  [[97, 110, 100],   -- and
   [98, 114, 101, 97, 107],   -- break
   [100, 111],   -- do
   [101, 108, 115, 101],   -- else
   [101, 108, 115, 101, 105, 102],   -- elseif
   [101, 110, 100],   -- end
   [102, 97, 108, 115, 101],   -- false
   [102, 111, 114],   -- for
   [102, 117, 110, 99, 116, 105, 111, 110],   -- function
   [105, 102],   -- if
   [105, 110],   -- in
   [108, 111, 99, 97, 108],   -- local
   [110, 105, 108],   -- nil
   [110, 111, 116],   -- not
   [111, 114],   -- or
   [114, 101, 112, 101, 97, 116],   -- repeat
   [114, 101, 116, 117, 114, 110],   -- return
   [116, 104, 101, 110],   -- then
   [116, 114, 117, 101],   -- true
   [117, 110, 116, 105, 108],   -- until
   [119, 104, 105, 108, 101]]   -- while

/-- Operators / punctuation at the head `c :: t` (maximal munch): number of *further* bytes, or `none`. -/
def punctExtra (c : UInt8) (t : Bytes) : Option Nat :=
  let nextIs (b : UInt8) : Bool := match t with | d :: _ => d = b | [] => false
  let next2Is (b : UInt8) : Bool := match t with | _ :: d :: _ => d = b | _ => false
  if c = 46 then            -- . .. ... ..=
    if nextIs 46 then (if next2Is 46 ∨ next2Is 61 then some 2 else some 1) else some 0
  else if c = 61 ∨ c = 126 ∨ c = 60 ∨ c = 62 then   -- = == ~ ~= < <= > >=
    if nextIs 61 then some 1 else some 0
  else if c = 58 then       -- : ::
    if nextIs 58 then some 1 else some 0
  else if c = 45 then       -- - -= ->   (`--` is a comment, handled before)
    if nextIs 61 ∨ nextIs 62 then some 1 else some 0
  else if c = 43 ∨ c = 42 ∨ c = 37 ∨ c = 94 then    -- + += * *= % %= ^ ^=
    if nextIs 61 then some 1 else some 0
  else if c = 47 then       -- / /= // //=
    if nextIs 47 then (if next2Is 61 then some 2 else some 1)
    else if nextIs 61 then some 1 else some 0
  else if c = 40 ∨ c = 41 ∨ c = 123 ∨ c = 125 ∨ c = 91 ∨ c = 93 ∨ c = 59 ∨ c = 44 ∨ c = 35
       ∨ c = 63 ∨ c = 38 ∨ c = 124 ∨ c = 64 then some 0   -- ( ) { } [ ] ; , # ? & | @
  else none

/-! ### one step -/

inductive Class where
  | ws | comment | tok (k : Kind) | bad
  deriving Repr, BEq, DecidableEq, Inhabited

/-- what the lexeme at the head is, how many bytes follow its first byte, and the brace stack after it -/
structure Scan where
  cls : Class
  extra : Nat
  stack : List Bool
  deriving Repr, BEq, DecidableEq, Inhabited

/-- Comment starting with `-` `-`; `t` is what follows the two dashes. `extra` counts from the first dash. -/
def scanComment (st : List Bool) (t : Bytes) : Scan :=
  match longOpen? t with
  | some k =>
    match findCloser k (t.drop (k + 2)) with
    | some n => ⟨.comment, 1 + (k + 2) + n, st⟩
    | none => ⟨.bad, 0, st⟩          -- unfinished long comment
  | none => ⟨.comment, 1 + lineLen t, st⟩

/-- an interpolated-string section whose first byte (backtick or `}`) has been consumed -/
def scanInterp (st : List Bool) (resumed : Bool) (t : Bytes) : Scan :=
  match interpLen false t with
  | none => ⟨.bad, 0, st⟩
  | some (n, true) => ⟨.tok (if resumed then .interpMid else .interpBegin), n, true :: st⟩
  | some (n, false) => ⟨.tok (if resumed then .interpEnd else .interpSimple), n, st⟩

/-- Classify the lexeme at the head of `c :: t` under brace stack `st`
(`true` on the stack = this brace level was opened by an interpolated-string section). -/
def scan (st : List Bool) (c : UInt8) (t : Bytes) : Scan :=
  if isSpace c then ⟨.ws, 0, st⟩
  else if c = 45 ∧ t.head? = some 45 then scanComment st (t.drop 1)
  else if isAlpha c then
    let n := spanLen isAlnum t
    ⟨.tok (if keywords.contains (c :: t.take n) then .keyword else .name), n, st⟩
  else if isDigit c ∨ (c = 46 ∧ (t.head?.map isDigit) = some true) then ⟨.tok .number, numLen t, st⟩
  else if c = 34 ∨ c = 39 then
    match strLen c false t with
    | some n => ⟨.tok .string, n, st⟩
    | none => ⟨.bad, 0, st⟩
  else if c = 96 then scanInterp st false t
  else if c = 91 ∧ (t.head? = some 91 ∨ t.head? = some 61) then
    match longBracketLen? (c :: t) with
    | some n => ⟨.tok .longString, n - 1, st⟩
    | none => ⟨.bad, 0, st⟩          -- `[=` without second `[`, or unfinished long string
  else if c = 123 then ⟨.tok .punct, 0, false :: st⟩
  else if c = 125 then
    match st with
    | true :: st' => scanInterp st' true t
    | _ :: st' => ⟨.tok .punct, 0, st'⟩
    | [] => ⟨.tok .punct, 0, []⟩
  else
    match punctExtra c t with
    | some n => ⟨.tok .punct, n, st⟩
    | none => ⟨.bad, 0, st⟩

/-! ### the loop -/

/-- `go fuel stack line input`: items of `input`, whose first byte is on line `line`. -/
def go : Nat → List Bool → Nat → Bytes → List Item
  | 0, _, _, _ => []
  | _ + 1, _, _, [] => []
  | fuel + 1, st, line, c :: t =>
    let s := scan st c t
    let lexeme := c :: t.take s.extra
    let rest := t.drop s.extra
    let line' := line + countNl lexeme
    match s.cls with
    | .ws => go fuel s.stack line' rest
    | .comment => .com ⟨lexeme, line⟩ :: go fuel s.stack line' rest
    | .tok k => .tok ⟨k, lexeme, line⟩ :: go fuel s.stack line' rest
    | .bad => [.err (c :: t) line]

/-- items of `s` when its first byte is on line `line` (fuel = input length) -/
def lexFrom (line : Nat) (s : Bytes) : List Item := go s.length [] line s

/-- items of a whole file (first line is 1) -/
def lexItems (s : Bytes) : List Item := lexFrom 1 s

def tokensOf : List Item → List Token
  | [] => []
  | .tok t :: r => t :: tokensOf r
  | _ :: r => tokensOf r

def commentsOf : List Item → List Comment
  | [] => []
  | .com c :: r => c :: commentsOf r
  | _ :: r => commentsOf r

def okOf : List Item → Bool
  | [] => true
  | .err _ _ :: _ => false
  | _ :: r => okOf r

structure LexResult where
  tokens : List Token
  comments : List Comment
  /-- no lexical error (and, at end of input, no interpolated string left open is NOT checked here) -/
  ok : Bool
  deriving Repr, BEq, DecidableEq

/-- The reference lexer: code tokens (kind, bytes, line), comments (bytes, line), error flag. -/
def lex (s : Bytes) : LexResult :=
  let items := lexItems s
  ⟨tokensOf items, commentsOf items, okOf items⟩

/-! ### well-formedness of number lexemes (Luau literal grammar) -/

private def digitsUs (p : UInt8 → Bool) (s : Bytes) : Bool :=
  s.all (fun c => p c || c = 95) && s.any p

/-- decimal: digits/underscores with at most one `.`, at least one digit, optional exponent
`[eE][+-]?` followed by digits/underscores with at least one digit -/
def validDecimal (s : Bytes) : Bool :=
  let mant := s.takeWhile (fun c => !(c = 101 || c = 69))
  let ex := s.dropWhile (fun c => !(c = 101 || c = 69))
  let mantOk := mant.all (fun c => isDigit c || c = 95 || c = 46) && mant.any isDigit
    && (mant.filter (· = 46)).length ≤ 1
  let exOk := match ex with
    | [] => true
    | _ :: r =>
      let r := match r with
        | d :: r' => if d = 43 ∨ d = 45 then r' else d :: r'
        | [] => []
      digitsUs isDigit r
  mantOk && exOk

def validNumber (s : Bytes) : Bool :=
  match s with
  | 48 :: x :: r =>
    if x = 120 ∨ x = 88 then digitsUs isHex r
    else if x = 98 ∨ x = 66 then digitsUs (fun c => c = 48 || c = 49) r
    else validDecimal s
  | _ => validDecimal s

end DarkluaModel.C18.Lex
