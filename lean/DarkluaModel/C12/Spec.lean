import DarkluaModel.C12.Model
/-!
# C12 reference predicates (independent of the model's `isCharBoundary` / `strGet`)

`InRange code x`: every reference position of `x` denotes a byte range of `code` that lies
inside `code` and starts and ends on a UTF-8 character boundary — stated from the definition
of UTF-8 (a boundary is the end of the text or a byte that is not `0b10xxxxxx`), not from the
Rust implementation of `str::is_char_boundary`.
-/
namespace DarkluaModel.C12

/-- `p` is a character boundary of `code`: the start or the end of the text, or a byte not of
the form `0b10xxxxxx` (two top bits `10`, i.e. `b / 64 = 2`). (A `str` never starts with a
continuation byte, so the start is listed on its own rather than derived.) -/
def Boundary (code : List UInt8) (p : Nat) : Prop :=
  p = 0 ∨ p = code.length ∨ ∃ b, code[p]? = some b ∧ b.toNat / 64 ≠ 2

def Position.InRange (code : List UInt8) : Position → Prop
  | .lineNumberReference start stop _ =>
    start ≤ stop ∧ stop ≤ code.length ∧ Boundary code start ∧ Boundary code stop
  | .lineNumber _ _ => True
  | .any _ => True

def Trivia.InRange (code : List UInt8) (t : Trivia) : Prop := t.position.InRange code

def Token.InRange (code : List UInt8) (t : Token) : Prop :=
  t.position.InRange code ∧ (∀ tr ∈ t.leading, tr.InRange code) ∧ (∀ tr ∈ t.trailing, tr.InRange code)

def Tree.InRange (code : List UInt8) (t : Tree) : Prop := ∀ tok ∈ t.tokens, tok.InRange code

/-- the bytes of `code` from `start` (inclusive) to `stop` (exclusive) -/
def slice (code : List UInt8) (start stop : Nat) : List UInt8 :=
  (List.range (stop - start)).filterMap fun i => code[start + i]?

end DarkluaModel.C12
