import DarkluaModel.Util.Sexp
import DarkluaModel.C12.Model
/-!
Line-protocol handlers for property C12.

Wire format (S-expressions; byte strings are `x<hex>`):
```
pos    ::= (ref <start> <end> <line>) | (ln <bytes> <line>) | (any <bytes>)
trivia ::= (c <pos>) | (w <pos>)
token  ::= (tok <pos> (<trivia>*) (<trivia>*))
tree   ::= (node (<token>*) (<tree>*))
```
Requests (`c12.<op> args…`):
* `read <code> <token>`          → `none` | `(some (<bytes>*))`     — `Token.readAll`
* `readtree <code> <tree>`       → `none` | `(some ((<bytes>*)*))`  — `Tree.readAll`
* `inrange <code> <token>`       → `true` | `false`                 — `readAll ≠ none` (= `InRange`, `read_defined_iff`)
* `op <name> <arg>* <token>`     → `<token>` | `none`               — the token operations
* `replace <code> <tree>`        → `none` | `(some <tree>)`         — the rule
* `shift <amount> <tree>`        → `<tree>`
* `hasref <tree>`                → `true` | `false`
* `boundary <code> <index>`      → `true` | `false`
* `dense <span> <denseop>*`      → `none` | `(some <bytes> <lastPushLength> <currentLineLength> <inv>)`
Ill-formed requests answer `bad-request`.
-/
namespace DarkluaModel.C12

open DarkluaModel

def bytes? (s : Sexp) : Option (List UInt8) := s.atom?.bind hexToBytes?

def posOf : Sexp → Option Position
  | .list [.atom "ref", s, e, l] => do
    pure (.lineNumberReference (← s.nat?) (← e.nat?) (← l.nat?))
  | .list [.atom "ln", c, l] => do pure (.lineNumber (← bytes? c) (← l.nat?))
  | .list [.atom "any", c] => do pure (.any (← bytes? c))
  | _ => none

def triviaOf : Sexp → Option Trivia
  | .list [.atom "c", p] => do pure { position := ← posOf p, kind := .comment }
  | .list [.atom "w", p] => do pure { position := ← posOf p, kind := .whitespace }
  | _ => none

def tokenOf : Sexp → Option Token
  | .list [.atom "tok", p, .list l, .list r] => do
    pure { position := ← posOf p, leading := ← l.mapM triviaOf, trailing := ← r.mapM triviaOf }
  | _ => none

partial def treeOf : Sexp → Option Tree
  | .list [.atom "node", .list toks, .list kids] => do
    pure (.node (← toks.mapM tokenOf) (← kids.mapM treeOf))
  | _ => none

def natS (n : Nat) : Sexp := .atom (toString n)

def posTo : Position → Sexp
  | .lineNumberReference s e l => .list [.atom "ref", natS s, natS e, natS l]
  | .lineNumber c l => .list [.atom "ln", .atom (bytesToHex c), natS l]
  | .any c => .list [.atom "any", .atom (bytesToHex c)]

def triviaTo (t : Trivia) : Sexp :=
  .list [.atom (match t.kind with | .comment => "c" | .whitespace => "w"), posTo t.position]

def tokenTo (t : Token) : Sexp :=
  .list [.atom "tok", posTo t.position, .list (t.leading.map triviaTo), .list (t.trailing.map triviaTo)]

partial def treeTo : Tree → Sexp
  | .node toks kids => .list [.atom "node", .list (toks.map tokenTo), .list (kids.map treeTo)]

def bytesListTo (bs : List (List UInt8)) : Sexp := .list (bs.map fun b => .atom (bytesToHex b))

def boolS (b : Bool) : String := if b then "true" else "false"

def denseOpOf : Sexp → Option DenseOp
  | .list [.atom "pushStr", c, ns] => do pure (.pushStr (← bytes? c) (← ns.bool?))
  | .list [.atom "pushChar", c, ns] => do
    let n ← c.nat?
    if n < 256 then pure (.pushChar (UInt8.ofNat n) (← ns.bool?)) else none
  | .list [.atom "mergeChar", c] => do
    let n ← c.nat?
    if n < 256 then pure (.mergeChar (UInt8.ofNat n)) else none
  | .list [.atom "pushStrAndBreakIf", c, p] => do pure (.pushStrAndBreakIf (← bytes? c) (← p.bool?))
  | .list [.atom "pushCharAndBreakIf", c, p] => do
    let n ← c.nat?
    if n < 256 then pure (.pushCharAndBreakIf (UInt8.ofNat n) (← p.bool?)) else none
  | _ => none

def joinArgs (args : List String) : String := " ".intercalate args

/-- the token operations, by name -/
def applyOp (name : String) (args : List String) (t : Token) : Option (Option Token) :=
  match name, args with
  | "replace_with_content", [c] => (hexToBytes? c).map fun c => some (t.replaceWithContent c)
  | "shift_token_line", [a] => a.toInt?.map fun a => some (t.shiftTokenLine a)
  | "clear_comments", [] => some (some t.clearComments)
  | "clear_whitespaces", [] => some (some t.clearWhitespaces)
  | "filter_comments_keep_none", [] => some (some (t.filterComments fun _ => false))
  | "filter_comments_keep_all", [] => some (some (t.filterComments fun _ => true))
  | "filter_comments_keep_content", [] => some (some (t.filterComments fun tr => tr.tryRead.isSome))
  | "drain_leading_trivia", [] => some (some t.drainLeadingTrivia)
  | "drain_trailing_trivia", [] => some (some t.drainTrailingTrivia)
  | "replace_referenced_tokens", [c] => (hexToBytes? c).map fun c => t.replaceReferencedTokens c
  | _, _ => none

def handle (op : String) (args : List String) : String :=
  let bad := "bad-request"
  match op, args with
  | "read", code :: rest =>
    match hexToBytes? code, (Sexp.parse (joinArgs rest)).bind tokenOf with
    | some code, some t =>
      match t.readAll code with
      | some bs => toString (Sexp.list [.atom "some", bytesListTo bs])
      | none => "none"
    | _, _ => bad
  | "readtree", code :: rest =>
    match hexToBytes? code, (Sexp.parse (joinArgs rest)).bind treeOf with
    | some code, some t =>
      match t.readAll code with
      | some bs => toString (Sexp.list [.atom "some", .list (bs.map bytesListTo)])
      | none => "none"
    | _, _ => bad
  | "inrange", code :: rest =>
    match hexToBytes? code, (Sexp.parse (joinArgs rest)).bind tokenOf with
    | some code, some t => boolS (t.readAll code).isSome
    | _, _ => bad
  | "boundary", [code, idx] =>
    match hexToBytes? code, idx.toNat? with
    | some code, some i => boolS (isCharBoundary code i)
    | _, _ => bad
  | "op", name :: rest =>
    -- the token is the last S-expression: everything from the first "(" on
    let pre := rest.takeWhile fun a => !a.startsWith "("
    let tokArgs := rest.dropWhile fun a => !a.startsWith "("
    match (Sexp.parse (joinArgs tokArgs)).bind tokenOf with
    | some t =>
      match name, pre with
      | "push_leading_trivia", _ | "push_trailing_trivia", _ | "insert_leading_trivia", _ => bad
      | _, _ =>
        match applyOp name pre t with
        | some (some t') => toString (tokenTo t')
        | some none => "none"
        | none => bad
    | none => bad
  | "optrivia", name :: idx :: rest =>
    -- `optrivia <push_leading_trivia|push_trailing_trivia|insert_leading_trivia> <index> (<trivia> <token>)`
    match idx.toNat?, Sexp.parse (joinArgs rest) with
    | some i, some (.list [tr, tok]) =>
      match triviaOf tr, tokenOf tok with
      | some tr, some t =>
        match name with
        | "push_leading_trivia" => toString (tokenTo (t.pushLeadingTrivia tr))
        | "push_trailing_trivia" => toString (tokenTo (t.pushTrailingTrivia tr))
        | "insert_leading_trivia" => toString (tokenTo (t.insertLeadingTrivia i tr))
        | _ => bad
      | _, _ => bad
    | _, _ => bad
  | "replace", code :: rest =>
    match hexToBytes? code, (Sexp.parse (joinArgs rest)).bind treeOf with
    | some code, some t =>
      match t.replaceReferencedTokens code with
      | some t' => toString (Sexp.list [.atom "some", treeTo t'])
      | none => "none"
    | _, _ => bad
  | "shift", amount :: rest =>
    match amount.toInt?, (Sexp.parse (joinArgs rest)).bind treeOf with
    | some a, some t => toString (treeTo (t.shiftTokenLine a))
    | _, _ => bad
  | "hasref", rest =>
    match (Sexp.parse (joinArgs rest)).bind treeOf with
    | some t => boolS t.hasReference
    | none => bad
  | "dense", span :: rest =>
    match span.toNat?, (Sexp.parse ("(" ++ joinArgs rest ++ ")")).bind Sexp.list? with
    | some span, some ops =>
      match ops.mapM denseOpOf with
      | some ops =>
        if ops.all DenseOp.wellFormed then
          match (Dense.new span).run ops with
          | some g => toString (Sexp.list [.atom "some", .atom (bytesToHex g.output), natS g.lastPushLength,
              natS g.currentLineLength, .atom (boolS g.inv)])
          | none => "none"
        else "ill-formed-op"
      | none => bad
    | _, _ => bad
  | "separators", [n, c] =>
    match n.toNat?, c.toNat? with
    | some n, some c =>
      toString (Sexp.list ((separators n c).map fun
        | .token i => Sexp.list [.atom "token", natS i]
        | .symbol => .atom "symbol"
        | .nothing => .atom "nothing"))
    | _, _ => bad
  | _, _ => "unknown-op " ++ op

end DarkluaModel.C12
