import DarkluaModel.Util.Sexp
/-! Line-protocol handlers for property C12 (stub: nothing modelled yet). -/
namespace DarkluaModel.C12

def handle (op : String) (_args : List String) : String :=
  "unknown-op " ++ op

end DarkluaModel.C12
