/-!
# C12 model: tokens, trivia, positions, `read`, the token operations, `replace_referenced_tokens`
and the bookkeeping arithmetic of the dense / readable generators.

Import-free (core only). Mirrors, as they are:

* `/repo/src/nodes/token.rs` — `Position`, `TriviaKind`, `Trivia`, `Token` and their methods;
* `core::str::get(start..end)` / `str::is_char_boundary` (the only way `Token::read` can fail);
* `/repo/src/rules/replace_referenced_tokens.rs`, `/repo/src/rules/shift_token_line.rs`
  lifted to a rose tree of tokens (`Tree`): the rules visit every node and apply the token
  operation to every token the node owns;
* `/repo/src/generator/dense.rs`, `/repo/src/generator/readable.rs` — the column bookkeeping
  (`current_line_length`, `last_push_length`, `column_span`, `current_indentation`).

`Option` results: `none` means "the Rust code panics here".
-/
namespace DarkluaModel.C12

/-- `usize::MAX` on the 64-bit targets darklua is built for. -/
def usizeMax : Nat := 2 ^ 64 - 1

/-! ## Positions, trivia, tokens (`src/nodes/token.rs`) -/

/-- `enum Position` — `content` is a `Cow<'static, str>`, here its UTF-8 bytes. -/
inductive Position where
  | lineNumberReference (start : Nat) (stop : Nat) (lineNumber : Nat)
  | lineNumber (content : List UInt8) (lineNumber : Nat)
  | any (content : List UInt8)
  deriving Repr, DecidableEq, Inhabited

/-- `enum TriviaKind` -/
inductive TriviaKind where
  | comment
  | whitespace
  deriving Repr, DecidableEq, Inhabited

/-- `struct Trivia` -/
structure Trivia where
  position : Position
  kind : TriviaKind
  deriving Repr, DecidableEq, Inhabited

/-- `struct Token` -/
structure Token where
  position : Position
  leading : List Trivia
  trailing : List Trivia
  deriving Repr, DecidableEq, Inhabited

/-! ## `str::is_char_boundary`, `str::get(start..end)` (Rust core library) -/

/-- A UTF-8 continuation byte `0b10xxxxxx`. Rust: `(b as i8) < -0x40`. -/
def isContinuation (b : UInt8) : Bool := 128 ≤ b.toNat && b.toNat < 192

/-- `str::is_char_boundary`, as implemented in core:
```
if index == 0 { return true; }
if index >= self.len() { index == self.len() } else { self.as_bytes()[index].is_utf8_char_boundary() }
``` -/
def isCharBoundary (code : List UInt8) (index : Nat) : Bool :=
  if index = 0 then true
  else if index ≥ code.length then index == code.length
  else
    match code[index]? with
    | some b => !isContinuation b
    | none => false

/-- `str::get(start..end)`: `None` unless `start <= end` and both are char boundaries. -/
def strGet (code : List UInt8) (start stop : Nat) : Option (List UInt8) :=
  if start ≤ stop && isCharBoundary code start && isCharBoundary code stop then
    some ((code.drop start).take (stop - start))
  else none

/-! ## Reading (`Token::read`, `Trivia::read`) -/

/-- Shared body of `Token::read` and `Trivia::read`: `none` = the `expect` / `panic!` fires. -/
def Position.read (code : List UInt8) : Position → Option (List UInt8)
  | .lineNumberReference start stop _ => strGet code start stop
  | .lineNumber content _ => some content
  | .any content => some content

/-- `Trivia::read` -/
def Trivia.read (code : List UInt8) (t : Trivia) : Option (List UInt8) := t.position.read code

/-- `Token::read` (the token's own content only) -/
def Token.read (code : List UInt8) (t : Token) : Option (List UInt8) := t.position.read code

/-- `Trivia::try_read` -/
def Trivia.tryRead (t : Trivia) : Option (List UInt8) :=
  match t.position with
  | .lineNumberReference _ _ _ => none
  | .lineNumber content _ => some content
  | .any content => some content

/-- `Token::get_line_number` / `Trivia::get_line_number` -/
def Position.getLineNumber : Position → Option Nat
  | .lineNumberReference _ _ l => some l
  | .lineNumber _ l => some l
  | .any _ => none

/-- all reads, `none` as soon as one of them would panic -/
def readTrivias (code : List UInt8) : List Trivia → Option (List (List UInt8))
  | [] => some []
  | t :: ts =>
    match t.read code, readTrivias code ts with
    | some b, some bs => some (b :: bs)
    | _, _ => none

/-- What `TokenBasedLuaGenerator::write_token_options` reads for one token, in order: every
leading trivia, the token, every trailing trivia. `none` = one of the reads panics. -/
def Token.readAll (code : List UInt8) (t : Token) : Option (List (List UInt8)) :=
  match readTrivias code t.leading, t.read code, readTrivias code t.trailing with
  | some l, some c, some r => some (l ++ [c] ++ r)
  | _, _, _ => none

/-! ## Constructors and operations of `Token` -/

/-- `Token::new_with_line` -/
def Token.newWithLine (start stop line : Nat) : Token :=
  { position := .lineNumberReference start stop line, leading := [], trailing := [] }

/-- `Token::from_content` -/
def Token.fromContent (content : List UInt8) : Token :=
  { position := .any content, leading := [], trailing := [] }

/-- `Token::from_position` -/
def Token.fromPosition (p : Position) : Token :=
  { position := p, leading := [], trailing := [] }

/-- `TriviaKind::at` -/
def TriviaKind.at (k : TriviaKind) (start stop line : Nat) : Trivia :=
  { position := .lineNumberReference start stop line, kind := k }

/-- `TriviaKind::with_content` -/
def TriviaKind.withContent (k : TriviaKind) (content : List UInt8) : Trivia :=
  { position := .any content, kind := k }

/-- `Token::push_leading_trivia` / `with_leading_trivia` -/
def Token.pushLeadingTrivia (t : Token) (tr : Trivia) : Token :=
  { t with leading := t.leading ++ [tr] }

/-- `Token::push_trailing_trivia` / `with_trailing_trivia` -/
def Token.pushTrailingTrivia (t : Token) (tr : Trivia) : Token :=
  { t with trailing := t.trailing ++ [tr] }

/-- `Vec::insert(index, x)` for `index <= len` -/
def insertAt {α : Type} (xs : List α) (index : Nat) (x : α) : List α :=
  xs.take index ++ x :: xs.drop index

/-- `Token::insert_leading_trivia`: pushes when `index > len`, else `Vec::insert` (no panic). -/
def Token.insertLeadingTrivia (t : Token) (index : Nat) (tr : Trivia) : Token :=
  if index > t.leading.length then { t with leading := t.leading ++ [tr] }
  else { t with leading := insertAt t.leading index tr }

/-- `Token::drain_leading_trivia` (fully consumed) -/
def Token.drainLeadingTrivia (t : Token) : Token := { t with leading := [] }

/-- `Token::drain_trailing_trivia` (fully consumed) -/
def Token.drainTrailingTrivia (t : Token) : Token := { t with trailing := [] }

/-- `Token::replace_with_content` -/
def Token.replaceWithContent (t : Token) (content : List UInt8) : Token :=
  { t with position :=
      match t.position with
      | .lineNumber _ l => .lineNumber content l
      | .lineNumberReference _ _ l => .lineNumber content l
      | .any _ => .any content }

/-- `Token::clear_comments` -/
def Token.clearComments (t : Token) : Token :=
  { t with leading := t.leading.filter (fun tr => tr.kind != .comment),
           trailing := t.trailing.filter (fun tr => tr.kind != .comment) }

/-- `Token::clear_whitespaces` -/
def Token.clearWhitespaces (t : Token) : Token :=
  { t with leading := t.leading.filter (fun tr => tr.kind != .whitespace),
           trailing := t.trailing.filter (fun tr => tr.kind != .whitespace) }

/-- `Token::filter_comments` -/
def Token.filterComments (t : Token) (keep : Trivia → Bool) : Token :=
  { t with leading := t.leading.filter (fun tr => tr.kind != .comment || keep tr),
           trailing := t.trailing.filter (fun tr => tr.kind != .comment || keep tr) }

/-- `usize::saturating_add_signed` -/
def saturatingAddSigned (n : Nat) (amount : Int) : Nat :=
  let r : Int := (n : Int) + amount
  if r < 0 then 0 else if r > (usizeMax : Int) then usizeMax else r.toNat

/-- `Token::shift_token_line`: only the token's own position moves (trivia lines are untouched). -/
def Token.shiftTokenLine (t : Token) (amount : Int) : Token :=
  { t with position :=
      match t.position with
      | .lineNumberReference s e l => .lineNumberReference s e (saturatingAddSigned l amount)
      | .lineNumber c l => .lineNumber c (saturatingAddSigned l amount)
      | .any c => .any c }

/-- body of the `if let Position::LineNumberReference` blocks of `Token::replace_referenced_tokens`;
`none` = `.expect("unable to extract code from position")` fires -/
def Position.replaceReferenced (code : List UInt8) : Position → Option Position
  | .lineNumberReference start stop l =>
    match strGet code start stop with
    | some content => some (.lineNumber content l)
    | none => none
  | p => some p

def replaceTrivias (code : List UInt8) : List Trivia → Option (List Trivia)
  | [] => some []
  | t :: ts =>
    match t.position.replaceReferenced code, replaceTrivias code ts with
    | some p, some ts' => some ({ t with position := p } :: ts')
    | _, _ => none

/-- `Token::replace_referenced_tokens` -/
def Token.replaceReferencedTokens (code : List UInt8) (t : Token) : Option Token :=
  match t.position.replaceReferenced code, replaceTrivias code t.leading,
        replaceTrivias code t.trailing with
  | some p, some l, some r => some { position := p, leading := l, trailing := r }
  | _, _, _ => none

/-! ## Trees of tokens; the two rules -/

/-- An AST seen as what the token rules see: every node owns some tokens and has children.
(`Block` owns semicolons / last-statement tokens / the final token, a call owns its
parentheses and commas, …; `DefaultVisitor` reaches every node.) -/
inductive Tree where
  | node (tokens : List Token) (children : List Tree)
  deriving Repr, Inhabited

def replaceTokens (code : List UInt8) : List Token → Option (List Token)
  | [] => some []
  | t :: ts =>
    match t.replaceReferencedTokens code, replaceTokens code ts with
    | some t', some ts' => some (t' :: ts')
    | _, _ => none

mutual
/-- The rule `replace_referenced_tokens` (`ReplaceReferencedTokens::flawless_process`):
`DefaultVisitor` walks the tree, `node.replace_referenced_tokens(code)` handles each owned token. -/
def Tree.replaceReferencedTokens (code : List UInt8) : Tree → Option Tree
  | .node toks kids =>
    match replaceTokens code toks, replaceForest code kids with
    | some toks', some kids' => some (.node toks' kids')
    | _, _ => none
def replaceForest (code : List UInt8) : List Tree → Option (List Tree)
  | [] => some []
  | t :: ts =>
    match t.replaceReferencedTokens code, replaceForest code ts with
    | some t', some ts' => some (t' :: ts')
    | _, _ => none
end

mutual
/-- The rule `shift_token_line` (`ShiftTokenLineProcessor`) -/
def Tree.shiftTokenLine (amount : Int) : Tree → Tree
  | .node toks kids => .node (toks.map (·.shiftTokenLine amount)) (shiftForest amount kids)
def shiftForest (amount : Int) : List Tree → List Tree
  | [] => []
  | t :: ts => t.shiftTokenLine amount :: shiftForest amount ts
end

mutual
/-- every token of the tree in visiting order -/
def Tree.tokens : Tree → List Token
  | .node toks kids => toks ++ forestTokens kids
def forestTokens : List Tree → List Token
  | [] => []
  | t :: ts => t.tokens ++ forestTokens ts
end

/-- reads of a token list; `none` as soon as one read panics -/
def readTokens (code : List UInt8) : List Token → Option (List (List (List UInt8)))
  | [] => some []
  | t :: ts =>
    match t.readAll code, readTokens code ts with
    | some r, some rs => some (r :: rs)
    | _, _ => none

/-- everything the token-based generator reads from `code` when it writes the tree -/
def Tree.readAll (code : List UInt8) (t : Tree) : Option (List (List (List UInt8))) :=
  readTokens code t.tokens

/-! ## Decidable range predicates (what the driver answers) -/

/-- no reference position -/
def Position.isReference : Position → Bool
  | .lineNumberReference _ _ _ => true
  | _ => false

def Token.hasReference (t : Token) : Bool :=
  t.position.isReference || t.leading.any (·.position.isReference)
    || t.trailing.any (·.position.isReference)

def Tree.hasReference (t : Tree) : Bool := t.tokens.any Token.hasReference

/-! ## Generators' column bookkeeping (`src/generator/dense.rs`; same primitives in `readable.rs`)

`DenseLuaGenerator { column_span, current_line_length, output, last_push_length }`. The only
arithmetic that can trap (debug builds / `overflow-checks`) is the `usize` subtraction in
```
fn get_last_push_str(&self) -> &str {
    self.output.get((self.output.len() - self.last_push_length)..).unwrap_or("")
}
```
reached from `merge_char` (when the character does not fit), `push_str_and_break_if` and
`push_char_and_break_if`. `output` is modelled as its UTF-8 bytes; `needs_space(next)` and the
`predicate` closures only decide between a space and a new line, so their results are carried
by the instruction (`ns`, `pred`) — the theorems quantify over them.
-/

/-- state of `DenseLuaGenerator` -/
structure Dense where
  columnSpan : Nat
  currentLineLength : Nat
  output : List UInt8
  lastPushLength : Nat
  deriving Repr, DecidableEq, Inhabited

/-- `DenseLuaGenerator::new` -/
def Dense.new (columnSpan : Nat) : Dense :=
  { columnSpan := columnSpan, currentLineLength := 0, output := [], lastPushLength := 0 }

/-- `push_new_line` -/
def Dense.pushNewLine (g : Dense) : Dense :=
  { g with output := g.output ++ [10], currentLineLength := 0 }

/-- `push_space` -/
def Dense.pushSpace (g : Dense) : Dense :=
  { g with output := g.output ++ [32], currentLineLength := g.currentLineLength + 1 }

/-- `fits_on_current_line` -/
def Dense.fitsOnCurrentLine (g : Dense) (length : Nat) : Bool :=
  g.currentLineLength + length ≤ g.columnSpan

/-- `raw_push_str` -/
def Dense.rawPushStr (g : Dense) (content : List UInt8) : Dense :=
  { g with output := g.output ++ content, lastPushLength := content.length,
           currentLineLength := g.currentLineLength + content.length }

/-- `raw_push_char` (also the tail of `push_char`): `last_push_length = 1` whatever the char -/
def Dense.rawPushChar (g : Dense) (c : UInt8) : Dense :=
  { g with output := g.output ++ [c], lastPushLength := 1,
           currentLineLength := g.currentLineLength + 1 }

/-- `push_space_if_needed(next_character, pushed_length)`, `ns = self.needs_space(next_character)` -/
def Dense.pushSpaceIfNeeded (g : Dense) (ns : Bool) (pushedLength : Nat) : Dense :=
  if g.currentLineLength ≥ g.columnSpan then g.pushNewLine
  else
    let total := g.currentLineLength + pushedLength
    if ns then (if total + 1 > g.columnSpan then g.pushNewLine else g.pushSpace)
    else if total > g.columnSpan then g.pushNewLine
    else g

/-- `get_last_push_str`: `none` = `attempt to subtract with overflow`; `str::get(from..)` gives
`None` (→ `""`) when `from` is not a char boundary. -/
def Dense.getLastPushStr (g : Dense) : Option (List UInt8) :=
  if g.lastPushLength ≤ g.output.length then
    let start := g.output.length - g.lastPushLength
    if isCharBoundary g.output start then some (g.output.drop start) else some []
  else none

/-- `String::pop` on bytes: drop the trailing continuation bytes and one more byte. -/
def popChar (out : List UInt8) : List UInt8 :=
  ((out.reverse.dropWhile isContinuation).drop 1).reverse

def popChars : Nat → List UInt8 → List UInt8
  | 0, out => out
  | n + 1, out => popChars n (popChar out)

/-- the `while let Some(' ') = last_char` loop of `merge_char` followed by the push-back -/
def dropTrailingSpaces (out : List UInt8) : List UInt8 :=
  (out.reverse.dropWhile (· == 32)).reverse

/-- the primitive writes of the dense generator, as an instruction stream -/
inductive DenseOp where
  /-- `push_str(content)` with `ns = needs_space(first char)` -/
  | pushStr (content : List UInt8) (ns : Bool)
  /-- `push_char(c)` -/
  | pushChar (c : UInt8) (ns : Bool)
  /-- `merge_char(c)` -/
  | mergeChar (c : UInt8)
  /-- `push_str_and_break_if(content, predicate)`, `pred = predicate(get_last_push_str())` -/
  | pushStrAndBreakIf (content : List UInt8) (pred : Bool)
  /-- `push_char_and_break_if(c, predicate)` -/
  | pushCharAndBreakIf (c : UInt8) (pred : Bool)
  deriving Repr, DecidableEq, Inhabited

/-- one primitive; `none` = the subtraction in `get_last_push_str` traps -/
def Dense.step (g : Dense) : DenseOp → Option Dense
  | .pushStr content ns =>
    match content with
    | [] => some g
    | _ :: _ => some ((g.pushSpaceIfNeeded ns content.length).rawPushStr content)
  | .pushChar c ns => some ((g.pushSpaceIfNeeded ns 1).rawPushChar c)
  | .mergeChar c =>
    if g.fitsOnCurrentLine 1 then some (g.rawPushChar c)
    else
      match g.getLastPushStr with
      | none => none
      | some lastPushContent =>
        let out := dropTrailingSpaces (popChars g.lastPushLength g.output)
        some { g with output := out ++ [10] ++ lastPushContent ++ [c],
                      lastPushLength := g.lastPushLength + 1,
                      currentLineLength := g.lastPushLength + 1 }
  | .pushStrAndBreakIf content pred =>
    match g.getLastPushStr with
    | none => none
    | some _ =>
      let g1 :=
        if pred then (if g.fitsOnCurrentLine (1 + content.length) then g.pushSpace else g.pushNewLine)
        else if !g.fitsOnCurrentLine content.length then g.pushNewLine
        else g
      some (g1.rawPushStr content)
  | .pushCharAndBreakIf c pred =>
    match g.getLastPushStr with
    | none => none
    | some _ =>
      let g1 :=
        if pred then (if g.fitsOnCurrentLine 2 then g.pushSpace else g.pushNewLine)
        else if !g.fitsOnCurrentLine 1 then g.pushNewLine
        else g
      some (g1.rawPushChar c)

def Dense.run (g : Dense) : List DenseOp → Option Dense
  | [] => some g
  | op :: ops =>
    match g.step op with
    | some g' => g'.run ops
    | none => none

/-- a `&str` is empty or starts with a non-continuation byte -/
def strStartOk : List UInt8 → Bool
  | [] => true
  | b :: _ => !isContinuation b

/-- what the call sites guarantee about an instruction: pushed strings are `&str` (they do not
start with a continuation byte) and pushed characters are the ASCII literals of the source. -/
def DenseOp.wellFormed : DenseOp → Bool
  | .pushStr content _ => strStartOk content
  | .pushChar c _ => c.toNat < 128
  | .mergeChar c => c.toNat < 128
  | .pushStrAndBreakIf content _ => strStartOk content
  | .pushCharAndBreakIf c _ => c.toNat < 128

/-- The invariant behind `get_last_push_str`: the last push is a suffix of the output that
starts on a char boundary, the column never exceeds the output length, and the output (a
`String`) does not start with a continuation byte. -/
def Dense.inv (g : Dense) : Bool :=
  g.lastPushLength ≤ g.output.length
    && isCharBoundary g.output (g.output.length - g.lastPushLength)
    && g.currentLineLength ≤ g.output.length
    && strStartOk g.output

/-! `ReadableLuaGenerator { column_span, indentation, current_line_length, current_indentation, output, … }`:
```
fn push_indentation(&mut self) { self.current_indentation += 1; }
fn pop_indentation(&mut self) { self.current_indentation -= 1; }
fn write_indentation(&mut self) { let indentation = " ".repeat(self.indentation * self.current_indentation); … }
```
`pop_indentation` is a plain `usize` subtraction: it traps when `current_indentation` is 0.
Every `pop_indentation()` in `readable.rs` is preceded, in the same function, by a
`push_indentation()` with only balanced calls in between. The model is the instruction stream
of a *bracketed* writer: `scope ops` = push, run `ops`, pop.
-/

/-- bracketed instruction stream of the readable generator's indentation counter -/
inductive IndentOp where
  /-- anything that does not touch `current_indentation` -/
  | write
  /-- `push_indentation(); <ops>; pop_indentation()` -/
  | scope (body : List IndentOp)
  deriving Repr, Inhabited

mutual
/-- run the counter; `none` = `attempt to subtract with overflow` in `pop_indentation` -/
def IndentOp.run (depth : Nat) : IndentOp → Option Nat
  | .write => some depth
  | .scope body =>
    match runIndent (depth + 1) body with
    | some d => if d = 0 then none else some (d - 1)
    | none => none
def runIndent (depth : Nat) : List IndentOp → Option Nat
  | [] => some depth
  | op :: ops =>
    match op.run depth with
    | some d => runIndent d ops
    | none => none
end

/-! ## `write_*_with_tokens` separators: `last_index = len.saturating_sub(1)`, `tokens.commas.get(i)`

Token-based generator, e.g. `write_return_with_tokens`: for element `i < last_index` it uses
`commas.get(i)` and falls back to `write_symbol(",")` — never an index. The model returns which
separator (a stored token or the fallback symbol) is written after each element. -/

inductive Sep where
  | token (i : Nat)
  | symbol
  | nothing
  deriving Repr, DecidableEq, Inhabited

/-- separators written for `n` elements when `commas` tokens are stored -/
def separators (n commas : Nat) : List Sep :=
  (List.range n).map fun i =>
    if i < n - 1 then (if i < commas then Sep.token i else Sep.symbol) else Sep.nothing

end DarkluaModel.C12
