import DarkluaModel.C12.Spec
namespace DarkluaModel.C12

theorem isContinuation_iff (b : UInt8) : isContinuation b = true ↔ b.toNat / 64 = 2 := by
  simp only [isContinuation, Bool.and_eq_true, decide_eq_true_eq]
  omega

theorem isCharBoundary_iff (code : List UInt8) (p : Nat) :
    isCharBoundary code p = true ↔ Boundary code p := by
  unfold isCharBoundary Boundary
  by_cases h0 : p = 0
  · simp [h0]
  · simp only [h0, if_false, false_or]
    by_cases hge : p ≥ code.length
    · simp only [hge, if_true, beq_iff_eq]
      constructor
      · intro h; exact Or.inl h
      · rintro (h | ⟨b, hb, _⟩)
        · exact h
        · have := List.getElem?_eq_none (l := code) (i := p) hge
          rw [this] at hb; cases hb
    · simp only [hge, if_false]
      have hlt : p < code.length := by omega
      rw [List.getElem?_eq_getElem hlt]
      simp only [Bool.not_eq_true', Option.some.injEq, exists_eq_left']
      constructor
      · intro h; right
        intro h2; have := (isContinuation_iff _).2 h2; rw [this] at h; cases h
      · rintro (h | h)
        · omega
        · cases hc : isContinuation code[p] with
          | false => rfl
          | true => exact absurd ((isContinuation_iff _).1 hc) h

end DarkluaModel.C12

namespace DarkluaModel.C12

theorem Boundary.le_length {code : List UInt8} {p : Nat} (h : Boundary code p) : p ≤ code.length := by
  rcases h with h | h | ⟨b, hb, _⟩
  · omega
  · omega
  · have := (List.getElem?_eq_some_iff.1 hb).1; omega

theorem strGet_isSome_iff (code : List UInt8) (s e : Nat) :
    (strGet code s e).isSome = true ↔ (s ≤ e ∧ e ≤ code.length ∧ Boundary code s ∧ Boundary code e) := by
  unfold strGet
  constructor
  · intro h
    split at h
    · rename_i hc
      simp only [Bool.and_eq_true, decide_eq_true_eq] at hc
      obtain ⟨⟨h1, h2⟩, h3⟩ := hc
      have b2 := (isCharBoundary_iff _ _).1 h2
      have b3 := (isCharBoundary_iff _ _).1 h3
      exact ⟨h1, b3.le_length, b2, b3⟩
    · cases h
  · rintro ⟨h1, _, h2, h3⟩
    have := (isCharBoundary_iff _ _).2 h2
    have := (isCharBoundary_iff _ _).2 h3
    simp [*]

theorem strGet_eq_some {code : List UInt8} {s e : Nat} {bs : List UInt8}
    (h : strGet code s e = some bs) : bs = (code.drop s).take (e - s) := by
  unfold strGet at h
  split at h
  · cases h; rfl
  · cases h

theorem Position.read_isSome_iff (code : List UInt8) (p : Position) :
    (p.read code).isSome = true ↔ p.InRange code := by
  cases p with
  | lineNumberReference s e l => exact strGet_isSome_iff code s e
  | lineNumber c l => simp [Position.read, Position.InRange]
  | any c => simp [Position.read, Position.InRange]

theorem readTrivias_isSome_iff (code : List UInt8) (ts : List Trivia) :
    (readTrivias code ts).isSome = true ↔ ∀ tr ∈ ts, tr.InRange code := by
  induction ts with
  | nil => simp [readTrivias]
  | cons t ts ih =>
    have ht := Position.read_isSome_iff code t.position
    simp only [readTrivias, Trivia.read, List.mem_cons, forall_eq_or_imp, Trivia.InRange] at *
    cases h1 : t.position.read code <;> cases h2 : readTrivias code ts <;> simp_all

theorem Token.readAll_isSome_iff (code : List UInt8) (t : Token) :
    (t.readAll code).isSome = true ↔ t.InRange code := by
  have h1 := Position.read_isSome_iff code t.position
  have h2 := readTrivias_isSome_iff code t.leading
  have h3 := readTrivias_isSome_iff code t.trailing
  unfold Token.readAll Token.read Token.InRange
  cases h4 : readTrivias code t.leading <;> cases h5 : t.position.read code <;>
    cases h6 : readTrivias code t.trailing <;> simp_all

theorem readTokens_isSome_iff (code : List UInt8) (ts : List Token) :
    (readTokens code ts).isSome = true ↔ ∀ t ∈ ts, t.InRange code := by
  induction ts with
  | nil => simp [readTokens]
  | cons t ts ih =>
    have ht := Token.readAll_isSome_iff code t
    simp only [readTokens, List.mem_cons, forall_eq_or_imp] at *
    cases h1 : t.readAll code <;> cases h2 : readTokens code ts <;> simp_all

/-! ### positions without references -/

theorem Position.inRange_of_not_reference {p : Position} (h : p.isReference = false)
    (code : List UInt8) : p.InRange code := by
  cases p <;> simp_all [Position.isReference, Position.InRange]

theorem Position.read_of_not_reference {p : Position} (h : p.isReference = false)
    (code code' : List UInt8) : p.read code = p.read code' := by
  cases p <;> simp_all [Position.isReference, Position.read]

/-! ### `replace_referenced` on a position -/

theorem Position.replaceReferenced_isSome_iff (code : List UInt8) (p : Position) :
    (p.replaceReferenced code).isSome = true ↔ p.InRange code := by
  cases p with
  | lineNumberReference s e l =>
    have := strGet_isSome_iff code s e
    simp only [Position.replaceReferenced, Position.InRange]
    cases h : strGet code s e <;> simp_all
  | lineNumber c l => simp [Position.replaceReferenced, Position.InRange]
  | any c => simp [Position.replaceReferenced, Position.InRange]

theorem Position.replaceReferenced_spec {code : List UInt8} {p p' : Position}
    (h : p.replaceReferenced code = some p') :
    p'.isReference = false ∧ (∀ code', p'.read code' = p.read code) ∧
      p'.getLineNumber = p.getLineNumber := by
  cases p with
  | lineNumberReference s e l =>
    simp only [Position.replaceReferenced] at h
    cases hg : strGet code s e with
    | none => simp [hg] at h
    | some c =>
      simp [hg] at h; subst h
      simp [Position.isReference, Position.read, hg, Position.getLineNumber]
  | lineNumber c l =>
    simp [Position.replaceReferenced] at h; subst h
    simp [Position.isReference, Position.read]
  | any c =>
    simp [Position.replaceReferenced] at h; subst h
    simp [Position.isReference, Position.read]

theorem replaceTrivias_isSome_iff (code : List UInt8) (ts : List Trivia) :
    (replaceTrivias code ts).isSome = true ↔ ∀ tr ∈ ts, tr.InRange code := by
  induction ts with
  | nil => simp [replaceTrivias]
  | cons t ts ih =>
    have ht := Position.replaceReferenced_isSome_iff code t.position
    simp only [replaceTrivias, List.mem_cons, forall_eq_or_imp, Trivia.InRange] at *
    cases h1 : t.position.replaceReferenced code <;> cases h2 : replaceTrivias code ts <;> simp_all

theorem replaceTrivias_spec {code : List UInt8} {ts ts' : List Trivia}
    (h : replaceTrivias code ts = some ts') :
    (∀ tr ∈ ts', tr.position.isReference = false) ∧
      (∀ code', readTrivias code' ts' = readTrivias code ts) ∧
      ts'.map (·.kind) = ts.map (·.kind) := by
  induction ts generalizing ts' with
  | nil => simp [replaceTrivias] at h; subst h; simp [readTrivias]
  | cons t ts ih =>
    simp only [replaceTrivias] at h
    cases h1 : t.position.replaceReferenced code with
    | none => simp [h1] at h
    | some p =>
      cases h2 : replaceTrivias code ts with
      | none => simp [h1, h2] at h
      | some rest =>
        simp [h1, h2] at h; subst h
        obtain ⟨a, b, c⟩ := Position.replaceReferenced_spec h1
        obtain ⟨a', b', c'⟩ := ih h2
        refine ⟨?_, ?_, ?_⟩
        · intro tr htr
          simp only [List.mem_cons] at htr
          rcases htr with rfl | htr
          · exact a
          · exact a' tr htr
        · intro code'
          simp only [readTrivias, Trivia.read, b code', b' code']
        · simp [c']

end DarkluaModel.C12

namespace DarkluaModel.C12

theorem Token.replaceReferencedTokens_isSome_iff (code : List UInt8) (t : Token) :
    (t.replaceReferencedTokens code).isSome = true ↔ t.InRange code := by
  have h1 := Position.replaceReferenced_isSome_iff code t.position
  have h2 := replaceTrivias_isSome_iff code t.leading
  have h3 := replaceTrivias_isSome_iff code t.trailing
  unfold Token.replaceReferencedTokens Token.InRange
  cases h4 : t.position.replaceReferenced code <;> cases h5 : replaceTrivias code t.leading <;>
    cases h6 : replaceTrivias code t.trailing <;> simp_all

theorem any_false_of_forall {α : Type} {l : List α} {p : α → Bool} (h : ∀ x ∈ l, p x = false) :
    l.any p = false := by
  induction l with
  | nil => rfl
  | cons x xs ih =>
    simp only [List.any_cons, Bool.or_eq_false_iff]
    exact ⟨h x (by simp), ih (fun y hy => h y (by simp [hy]))⟩

theorem Token.replaceReferencedTokens_spec {code : List UInt8} {t t' : Token}
    (h : t.replaceReferencedTokens code = some t') :
    t'.hasReference = false ∧ (∀ code', t'.readAll code' = t.readAll code) := by
  unfold Token.replaceReferencedTokens at h
  cases h4 : t.position.replaceReferenced code with
  | none => simp [h4] at h
  | some p =>
    cases h5 : replaceTrivias code t.leading with
    | none => simp [h4, h5] at h
    | some l =>
      cases h6 : replaceTrivias code t.trailing with
      | none => simp [h4, h5, h6] at h
      | some r =>
        simp [h4, h5, h6] at h; subst h
        obtain ⟨a, b, _⟩ := Position.replaceReferenced_spec h4
        obtain ⟨la, lb, _⟩ := replaceTrivias_spec h5
        obtain ⟨ra, rb, _⟩ := replaceTrivias_spec h6
        refine ⟨?_, ?_⟩
        · simp only [Token.hasReference, a, Bool.false_or, Bool.or_eq_false_iff]
          exact ⟨any_false_of_forall la, any_false_of_forall ra⟩
        · intro code'
          simp only [Token.readAll, Token.read, b code', lb code', rb code']

theorem Token.inRange_of_not_hasReference {t : Token} (h : t.hasReference = false)
    (code : List UInt8) : t.InRange code := by
  simp only [Token.hasReference, Bool.or_eq_false_iff, List.any_eq_false] at h
  obtain ⟨⟨h1, h2⟩, h3⟩ := h
  refine ⟨Position.inRange_of_not_reference h1 code, ?_, ?_⟩
  · intro tr htr
    exact Position.inRange_of_not_reference (by simpa using h2 tr htr) code
  · intro tr htr
    exact Position.inRange_of_not_reference (by simpa using h3 tr htr) code

theorem replaceTokens_isSome_iff (code : List UInt8) (ts : List Token) :
    (replaceTokens code ts).isSome = true ↔ ∀ t ∈ ts, t.InRange code := by
  induction ts with
  | nil => simp [replaceTokens]
  | cons t ts ih =>
    have ht := Token.replaceReferencedTokens_isSome_iff code t
    simp only [replaceTokens, List.mem_cons, forall_eq_or_imp] at *
    cases h1 : t.replaceReferencedTokens code <;> cases h2 : replaceTokens code ts <;> simp_all

theorem replaceTokens_spec {code : List UInt8} {ts ts' : List Token}
    (h : replaceTokens code ts = some ts') :
    (∀ t ∈ ts', t.hasReference = false) ∧ (∀ code', readTokens code' ts' = readTokens code ts) := by
  induction ts generalizing ts' with
  | nil => simp [replaceTokens] at h; subst h; simp [readTokens]
  | cons t ts ih =>
    simp only [replaceTokens] at h
    cases h1 : t.replaceReferencedTokens code with
    | none => simp [h1] at h
    | some p =>
      cases h2 : replaceTokens code ts with
      | none => simp [h1, h2] at h
      | some rest =>
        simp [h1, h2] at h; subst h
        obtain ⟨a, b⟩ := Token.replaceReferencedTokens_spec h1
        obtain ⟨a', b'⟩ := ih h2
        refine ⟨?_, ?_⟩
        · intro tr htr
          simp only [List.mem_cons] at htr
          rcases htr with rfl | htr
          · exact a
          · exact a' tr htr
        · intro code'
          simp only [readTokens, b code', b' code']

theorem readTokens_append (code : List UInt8) (xs ys : List Token) :
    readTokens code (xs ++ ys) =
      match readTokens code xs, readTokens code ys with
      | some a, some b => some (a ++ b)
      | _, _ => none := by
  induction xs with
  | nil => simp [readTokens]; cases readTokens code ys <;> rfl
  | cons x xs ih =>
    simp only [List.cons_append, readTokens, ih]
    cases x.readAll code <;> cases readTokens code xs <;> cases readTokens code ys <;> rfl

/-! ### the rule on trees -/

mutual
theorem Tree.replace_spec (code : List UInt8) :
    ∀ (t t' : Tree), t.replaceReferencedTokens code = some t' →
      (∀ tok ∈ t'.tokens, tok.hasReference = false) ∧
      (∀ code', readTokens code' t'.tokens = readTokens code t.tokens)
  | .node toks kids, t', h => by
    rw [Tree.replaceReferencedTokens] at h
    cases h1 : replaceTokens code toks with
    | none => rw [h1] at h; cases h
    | some toks' =>
      cases h2 : replaceForest code kids with
      | none => rw [h1, h2] at h; cases h
      | some kids' =>
        rw [h1, h2] at h
        cases h
        obtain ⟨a, b⟩ := replaceTokens_spec h1
        obtain ⟨a', b'⟩ := forest_replace_spec code kids kids' h2
        refine ⟨?_, ?_⟩
        · intro tok htok
          rw [Tree.tokens, List.mem_append] at htok
          rcases htok with h | h
          · exact a tok h
          · exact a' tok h
        · intro code'
          rw [Tree.tokens, Tree.tokens, readTokens_append, readTokens_append, b code', b' code']
theorem forest_replace_spec (code : List UInt8) :
    ∀ (ts ts' : List Tree), replaceForest code ts = some ts' →
      (∀ tok ∈ forestTokens ts', tok.hasReference = false) ∧
      (∀ code', readTokens code' (forestTokens ts') = readTokens code (forestTokens ts))
  | [], ts', h => by
    rw [replaceForest] at h; cases h
    refine ⟨?_, fun _ => rfl⟩
    intro tok h
    rw [forestTokens] at h
    cases h
  | t :: ts, ts', h => by
    rw [replaceForest] at h
    cases h1 : t.replaceReferencedTokens code with
    | none => rw [h1] at h; cases h
    | some t1 =>
      cases h2 : replaceForest code ts with
      | none => rw [h1, h2] at h; cases h
      | some ts1 =>
        rw [h1, h2] at h
        cases h
        obtain ⟨a, b⟩ := Tree.replace_spec code t t1 h1
        obtain ⟨a', b'⟩ := forest_replace_spec code ts ts1 h2
        refine ⟨?_, ?_⟩
        · intro tok htok
          rw [forestTokens, List.mem_append] at htok
          rcases htok with h | h
          · exact a tok h
          · exact a' tok h
        · intro code'
          rw [forestTokens, forestTokens, readTokens_append, readTokens_append, b code', b' code']
end

mutual
theorem Tree.replace_isSome_iff (code : List UInt8) :
    ∀ (t : Tree), (t.replaceReferencedTokens code).isSome = true ↔ ∀ tok ∈ t.tokens, tok.InRange code
  | .node toks kids => by
    have h1 := replaceTokens_isSome_iff code toks
    have h2 := forest_replace_isSome_iff code kids
    rw [Tree.replaceReferencedTokens, Tree.tokens]
    cases h3 : replaceTokens code toks <;> cases h4 : replaceForest code kids <;>
      simp_all [List.mem_append, or_imp, forall_and]
theorem forest_replace_isSome_iff (code : List UInt8) :
    ∀ (ts : List Tree), (replaceForest code ts).isSome = true ↔ ∀ tok ∈ forestTokens ts, tok.InRange code
  | [] => by simp [replaceForest, forestTokens]
  | t :: ts => by
    have h1 := Tree.replace_isSome_iff code t
    have h2 := forest_replace_isSome_iff code ts
    rw [replaceForest, forestTokens]
    cases h3 : t.replaceReferencedTokens code <;> cases h4 : replaceForest code ts <;>
      simp_all [List.mem_append, or_imp, forall_and]
end

end DarkluaModel.C12

/-! ### dense generator bookkeeping -/
namespace DarkluaModel.C12

/-- column never exceeds the output length; the output starts like a `str` -/
def Dense.colOk (g : Dense) : Prop := g.currentLineLength ≤ g.output.length ∧ strStartOk g.output = true

theorem Dense.inv_iff (g : Dense) : g.inv = true ↔
    (g.lastPushLength ≤ g.output.length ∧
      isCharBoundary g.output (g.output.length - g.lastPushLength) = true ∧ g.colOk) := by
  simp [Dense.inv, Dense.colOk, and_assoc]

theorem strStartOk_append {out : List UInt8} (h : strStartOk out = true) (content : List UInt8)
    (hc : strStartOk content = true) : strStartOk (out ++ content) = true := by
  cases out with
  | nil => simpa using hc
  | cons b bs => simpa [strStartOk] using h

theorem strStartOk_of_prefix {p out : List UInt8} (hp : p <+: out) (h : strStartOk out = true) :
    strStartOk p = true := by
  obtain ⟨t, rfl⟩ := hp
  cases p with
  | nil => rfl
  | cons b bs => simpa [strStartOk] using h

theorem strStartOk_ascii {c : UInt8} (hc : c.toNat < 128) : strStartOk [c] = true := by
  simp only [strStartOk, isContinuation, Bool.not_eq_true', Bool.and_eq_false_iff,
    decide_eq_false_iff_not]
  omega

theorem popChar_prefix (out : List UInt8) : popChar out <+: out := by
  unfold popChar
  have h1 := List.dropWhile_suffix (l := out.reverse) isContinuation
  have h2 := List.drop_suffix 1 (List.dropWhile isContinuation out.reverse)
  have := List.reverse_prefix.2 (h2.trans h1)
  simpa using this

theorem popChars_prefix (n : Nat) (out : List UInt8) : popChars n out <+: out := by
  induction n generalizing out with
  | zero => exact List.prefix_refl _
  | succ n ih => exact (ih (popChar out)).trans (popChar_prefix out)

theorem dropTrailingSpaces_prefix (out : List UInt8) : dropTrailingSpaces out <+: out := by
  unfold dropTrailingSpaces
  have h1 := List.dropWhile_suffix (l := out.reverse) (· == 32)
  have := List.reverse_prefix.2 h1
  simpa using this

theorem Dense.colOk_pushNewLine {g : Dense} (h : g.colOk) : g.pushNewLine.colOk := by
  refine ⟨by simp [Dense.pushNewLine], ?_⟩
  exact strStartOk_append h.2 [10] (by decide)

theorem Dense.colOk_pushSpace {g : Dense} (h : g.colOk) : g.pushSpace.colOk := by
  refine ⟨?_, strStartOk_append h.2 [32] (by decide)⟩
  have := h.1
  simp only [Dense.pushSpace, List.length_append, List.length_cons, List.length_nil] at *
  omega

theorem Dense.colOk_pushSpaceIfNeeded {g : Dense} (h : g.colOk) (ns : Bool) (n : Nat) :
    (g.pushSpaceIfNeeded ns n).colOk := by
  unfold Dense.pushSpaceIfNeeded
  split
  · exact Dense.colOk_pushNewLine h
  · simp only
    split
    · split
      · exact Dense.colOk_pushNewLine h
      · exact Dense.colOk_pushSpace h
    · split
      · exact Dense.colOk_pushNewLine h
      · exact h

theorem isCharBoundary_append_at_length (out content : List UInt8)
    (h : strStartOk content = true) :
    isCharBoundary (out ++ content) out.length = true := by
  unfold isCharBoundary
  by_cases h0 : out.length = 0
  · simp [h0]
  · simp only [h0, if_false]
    cases content with
    | nil => simp
    | cons b bs =>
      have : ¬ (out.length ≥ (out ++ b :: bs).length) := by simp
      simp only [this, if_false]
      simp only [List.getElem?_append_right (Nat.le_refl _), Nat.sub_self, List.getElem?_cons_zero]
      simpa [strStartOk] using h

theorem Dense.inv_rawPushStr {g : Dense} (h : g.colOk) (content : List UInt8)
    (hw : strStartOk content = true) :
    (g.rawPushStr content).inv = true := by
  rw [Dense.inv_iff]
  obtain ⟨h1, h2⟩ := h
  simp only [Dense.rawPushStr, Dense.colOk, List.length_append] at *
  refine ⟨by omega, ?_, by omega, strStartOk_append h2 _ hw⟩
  have : g.output.length + content.length - content.length = g.output.length := by omega
  rw [this]
  exact isCharBoundary_append_at_length _ _ hw

theorem Dense.inv_rawPushChar {g : Dense} (h : g.colOk) (c : UInt8) (hc : c.toNat < 128) :
    (g.rawPushChar c).inv = true := by
  have := Dense.inv_rawPushStr h [c] (strStartOk_ascii hc)
  simpa [Dense.rawPushStr, Dense.rawPushChar] using this

theorem Dense.getLastPushStr_of_inv {g : Dense} (h : g.inv = true) :
    g.getLastPushStr = some (g.output.drop (g.output.length - g.lastPushLength)) := by
  obtain ⟨h1, h2, _⟩ := (Dense.inv_iff g).1 h
  simp [Dense.getLastPushStr, h1, h2]

/-- the last push of a state satisfying `inv` starts like a `str` -/
theorem Dense.lastPush_startOk {g : Dense} (h : g.inv = true) :
    strStartOk (g.output.drop (g.output.length - g.lastPushLength)) = true := by
  obtain ⟨h1, h2, _, h4⟩ := (Dense.inv_iff g).1 h
  cases hd : List.drop (g.output.length - g.lastPushLength) g.output with
  | nil => rfl
  | cons b bs =>
    have hlt : g.output.length - g.lastPushLength < g.output.length := by
      have := congrArg List.length hd
      simp only [List.length_drop, List.length_cons] at this
      omega
    have hb : g.output[g.output.length - g.lastPushLength]? = some b := by
      have := List.getElem?_drop (xs := g.output) (i := g.output.length - g.lastPushLength) (j := 0)
      rw [hd] at this
      simpa using this.symm
    by_cases h0 : g.output.length - g.lastPushLength = 0
    · rw [h0] at hb
      cases ho : g.output with
      | nil => rw [ho] at hb; cases hb
      | cons b' bs' =>
        rw [ho] at hb h4
        simp only [List.getElem?_cons_zero, Option.some.injEq] at hb
        subst hb
        simpa [strStartOk] using h4
    · unfold isCharBoundary at h2
      simp only [h0, if_false] at h2
      have : ¬ (g.output.length - g.lastPushLength ≥ g.output.length) := by omega
      simp only [this, if_false, hb] at h2
      simpa [strStartOk] using h2

theorem Dense.step_inv {g : Dense} (h : g.inv = true) (op : DenseOp) (hw : op.wellFormed = true) :
    ∃ g', g.step op = some g' ∧ g'.inv = true := by
  obtain ⟨h1, h2, h3⟩ := (Dense.inv_iff g).1 h
  cases op with
  | pushStr content ns =>
    cases content with
    | nil => exact ⟨g, rfl, h⟩
    | cons b bs =>
      exact ⟨_, rfl, Dense.inv_rawPushStr (Dense.colOk_pushSpaceIfNeeded h3 _ _) _ hw⟩
  | pushChar c ns =>
    refine ⟨_, rfl, Dense.inv_rawPushChar (Dense.colOk_pushSpaceIfNeeded h3 _ _) c ?_⟩
    simpa [DenseOp.wellFormed] using hw
  | mergeChar c =>
    have hc : c.toNat < 128 := by simpa [DenseOp.wellFormed] using hw
    simp only [Dense.step]
    split
    · exact ⟨_, rfl, Dense.inv_rawPushChar h3 c hc⟩
    · rw [Dense.getLastPushStr_of_inv h]
      refine ⟨_, rfl, ?_⟩
      have hpre : dropTrailingSpaces (popChars g.lastPushLength g.output) <+: g.output :=
        (dropTrailingSpaces_prefix _).trans (popChars_prefix _ _)
      have hstart := strStartOk_of_prefix hpre h3.2
      have hlast := Dense.lastPush_startOk h
      generalize dropTrailingSpaces (popChars g.lastPushLength g.output) = out at hstart
      generalize hl : List.drop (g.output.length - g.lastPushLength) g.output = last at hlast
      have hll : last.length = g.lastPushLength := by
        rw [← hl, List.length_drop]; omega
      rw [Dense.inv_iff]
      simp only [Dense.colOk, List.length_append, List.length_cons, List.length_nil]
      have hs1 : strStartOk (last ++ [c]) = true := by
        cases last with
        | nil => exact strStartOk_ascii hc
        | cons b bs => simpa [strStartOk] using hlast
      have hassoc : out ++ [10] ++ last ++ [c] = (out ++ [10]) ++ (last ++ [c]) := by simp
      refine ⟨by omega, ?_, by omega, ?_⟩
      · rw [hassoc]
        have hl2 : out.length + (0 + 1) + last.length + (0 + 1) - (g.lastPushLength + 1)
            = (out ++ [10]).length := by
          simp only [List.length_append, List.length_cons, List.length_nil]; omega
        rw [hl2]
        exact isCharBoundary_append_at_length _ _ hs1
      · rw [hassoc]
        exact strStartOk_append (strStartOk_append hstart [10] (by decide)) _ hs1
  | pushStrAndBreakIf content pred =>
    simp only [Dense.step]
    rw [Dense.getLastPushStr_of_inv h]
    refine ⟨_, rfl, Dense.inv_rawPushStr ?_ _ hw⟩
    split
    · split
      · exact Dense.colOk_pushSpace h3
      · exact Dense.colOk_pushNewLine h3
    · split
      · exact Dense.colOk_pushNewLine h3
      · exact h3
  | pushCharAndBreakIf c pred =>
    have hc : c.toNat < 128 := by simpa [DenseOp.wellFormed] using hw
    simp only [Dense.step]
    rw [Dense.getLastPushStr_of_inv h]
    refine ⟨_, rfl, Dense.inv_rawPushChar ?_ c hc⟩
    split
    · split
      · exact Dense.colOk_pushSpace h3
      · exact Dense.colOk_pushNewLine h3
    · split
      · exact Dense.colOk_pushNewLine h3
      · exact h3

theorem Dense.run_inv {g : Dense} (h : g.inv = true) (ops : List DenseOp)
    (hw : ∀ op ∈ ops, op.wellFormed = true) :
    ∃ g', g.run ops = some g' ∧ g'.inv = true := by
  induction ops generalizing g with
  | nil => exact ⟨g, rfl, h⟩
  | cons op ops ih =>
    obtain ⟨g1, hs, hi⟩ := Dense.step_inv h op (hw op (by simp))
    obtain ⟨g2, hr, hi2⟩ := ih hi (fun o ho => hw o (by simp [ho]))
    exact ⟨g2, by simp [Dense.run, hs, hr], hi2⟩

end DarkluaModel.C12
