import DarkluaModel.C12.Lemmas
/-!
# C12 — theorems

What is proved (for all inputs, no size bound): the *logical* preconditions of darklua's
documented panics.

* `read_total`, `read_defined_iff`, `read_eq_slice` — `Token::read` / `Trivia::read` are defined
  exactly on in-range tokens, and return the referenced slice;
* `token_ops_preserve_range` — every token operation keeps a token in range;
* `replace_referenced_defined_iff`, `replace_referenced_clears`,
  `replace_referenced_preserves_text`, `bundle_obligation` — the rule bundling relies on;
* `moved_tree_can_panic` — why that rule is needed (the obligation is not vacuous);
* `shift_token_line_preserves` — the other rule bundling applies;
* `dense_no_underflow` — `get_last_push_str`'s `usize` subtraction never traps (any `column_span`);
* `indentation_balanced` — `pop_indentation`'s `usize` subtraction never traps;
* `separators_total` — separator tokens are looked up with `get`, never indexed out of range.

What is *not* proved here: panic / hang freedom of the Rust runtime (parser dependency, the 32
rules, the generators' full control flow). That part of C12 is explored by the harness.
-/
namespace DarkluaModel.C12

/-! ## reading -/

/-- `Token::read`, `Trivia::read` and everything `write_token` reads are defined on in-range tokens. -/
theorem read_total (code : List UInt8) (t : Token) (h : t.InRange code) :
    t.read code ≠ none ∧ t.readAll code ≠ none ∧
      (∀ tr ∈ t.leading, tr.read code ≠ none) ∧ (∀ tr ∈ t.trailing, tr.read code ≠ none) := by
  have hall := (Token.readAll_isSome_iff code t).2 h
  obtain ⟨h1, h2, h3⟩ := h
  refine ⟨?_, ?_, ?_, ?_⟩
  · have : (t.read code).isSome = true := (Position.read_isSome_iff code t.position).2 h1
    intro hn; rw [hn] at this; cases this
  · intro hn; rw [hn] at hall; cases hall
  · intro tr htr hn
    have : (tr.read code).isSome = true := (Position.read_isSome_iff code tr.position).2 (h2 tr htr)
    rw [hn] at this; cases this
  · intro tr htr hn
    have : (tr.read code).isSome = true := (Position.read_isSome_iff code tr.position).2 (h3 tr htr)
    rw [hn] at this; cases this

/-- "return true" -/
def returnTrue : List UInt8 := [114, 101, 116, 117, 114, 110, 32, 116, 114, 117, 101]

example : (Token.newWithLine 7 11 1).InRange returnTrue := by
  refine ⟨⟨by decide, by decide, Or.inr (Or.inr ⟨116, by decide, by decide⟩), Or.inr (Or.inl (by decide))⟩, ?_, ?_⟩ <;>
    intro tr h <;> cases h

/-- … and only there: the panic fires exactly when some position is out of range. -/
theorem read_defined_iff (code : List UInt8) (t : Token) :
    t.readAll code ≠ none ↔ t.InRange code := by
  rw [← Token.readAll_isSome_iff]
  cases t.readAll code <;> simp

/-- "é" is bytes c3 a9: position 1 is inside the character, the read panics. -/
example : (Token.newWithLine 0 1 1).readAll [0xc3, 0xa9] = none := by decide
example : (Token.newWithLine 0 2 1).readAll [0xc3, 0xa9] = some [[0xc3, 0xa9]] := by decide

/-- a defined read of a reference returns exactly the bytes `start..stop` of the code -/
theorem read_eq_slice (code : List UInt8) (s e l : Nat) (lead trail : List Trivia) (bs : List UInt8)
    (h : (Token.mk (.lineNumberReference s e l) lead trail).read code = some bs) :
    bs = (code.drop s).take (e - s) ∧ bs.length = e - s := by
  have hs : strGet code s e = some bs := h
  have hr := (strGet_isSome_iff code s e).1 (by rw [hs]; rfl)
  have := strGet_eq_some hs
  subst this
  refine ⟨rfl, ?_⟩
  simp only [List.length_take, List.length_drop]
  omega

example : (Token.newWithLine 7 11 1).read returnTrue = some [116, 114, 117, 101] := by
  decide

/-! ## token operations -/

theorem filter_inRange {code : List UInt8} {ts : List Trivia} (p : Trivia → Bool)
    (h : ∀ tr ∈ ts, tr.InRange code) : ∀ tr ∈ ts.filter p, tr.InRange code :=
  fun tr htr => h tr (List.mem_filter.1 htr).1

/-- Every operation of `Token` keeps an in-range token in range (inserted trivia being in range). -/
theorem token_ops_preserve_range (code : List UInt8) (t : Token) (h : t.InRange code) :
    (∀ content, (t.replaceWithContent content).InRange code) ∧
    (∀ amount, (t.shiftTokenLine amount).InRange code) ∧
    t.clearComments.InRange code ∧
    t.clearWhitespaces.InRange code ∧
    (∀ keep, (t.filterComments keep).InRange code) ∧
    (∀ tr, tr.InRange code → (t.pushLeadingTrivia tr).InRange code) ∧
    (∀ tr, tr.InRange code → (t.pushTrailingTrivia tr).InRange code) ∧
    (∀ i tr, tr.InRange code → (t.insertLeadingTrivia i tr).InRange code) ∧
    t.drainLeadingTrivia.InRange code ∧
    t.drainTrailingTrivia.InRange code ∧
    (∀ t', t.replaceReferencedTokens code = some t' → t'.InRange code) := by
  obtain ⟨h1, h2, h3⟩ := h
  refine ⟨?_, ?_, ?_, ?_, ?_, ?_, ?_, ?_, ?_, ?_, ?_⟩
  · intro content
    refine ⟨?_, h2, h3⟩
    simp only [Token.replaceWithContent]
    cases t.position <;> trivial
  · intro amount
    refine ⟨?_, h2, h3⟩
    simp only [Token.shiftTokenLine]
    cases hp : t.position with
    | lineNumberReference s e l => rw [hp] at h1; exact h1
    | lineNumber c l => trivial
    | any c => trivial
  · exact ⟨h1, filter_inRange _ h2, filter_inRange _ h3⟩
  · exact ⟨h1, filter_inRange _ h2, filter_inRange _ h3⟩
  · intro keep; exact ⟨h1, filter_inRange _ h2, filter_inRange _ h3⟩
  · intro tr htr
    refine ⟨h1, ?_, h3⟩
    intro x hx
    simp only [Token.pushLeadingTrivia, List.mem_append, List.mem_singleton] at hx
    rcases hx with hx | rfl
    · exact h2 x hx
    · exact htr
  · intro tr htr
    refine ⟨h1, h2, ?_⟩
    intro x hx
    simp only [Token.pushTrailingTrivia, List.mem_append, List.mem_singleton] at hx
    rcases hx with hx | rfl
    · exact h3 x hx
    · exact htr
  · intro i tr htr
    unfold Token.insertLeadingTrivia
    split
    · refine ⟨h1, ?_, h3⟩
      intro x hx
      simp only [List.mem_append, List.mem_singleton] at hx
      rcases hx with hx | rfl
      · exact h2 x hx
      · exact htr
    · refine ⟨h1, ?_, h3⟩
      intro x hx
      simp only [insertAt, List.mem_append, List.mem_cons] at hx
      rcases hx with hx | rfl | hx
      · exact h2 x (List.mem_of_mem_take hx)
      · exact htr
      · exact h2 x (List.mem_of_mem_drop hx)
  · refine ⟨h1, ?_, h3⟩
    intro x hx
    cases hx
  · refine ⟨h1, h2, ?_⟩
    intro x hx
    cases hx
  · intro t' ht'
    exact Token.inRange_of_not_hasReference (Token.replaceReferencedTokens_spec ht').1 code

/-- a token with a comment and a whitespace, both references into the code `--hi\nx`, is in range -/
example : (Token.mk (.lineNumberReference 5 6 1) [TriviaKind.comment.at 0 4 1, TriviaKind.whitespace.at 4 5 1] []).InRange
    [45, 45, 104, 105, 10, 120] :=
  (read_defined_iff _ _).1 (by decide)

/-! ## the rule `replace_referenced_tokens` -/

/-- the rule panics exactly when some token of the tree is out of range for the given code -/
theorem replace_referenced_defined_iff (code : List UInt8) (t : Tree) :
    t.replaceReferencedTokens code ≠ none ↔ t.InRange code := by
  rw [Tree.InRange, ← Tree.replace_isSome_iff]
  cases t.replaceReferencedTokens code <;> simp

/-- After the rule, the tree has no reference position; hence it is in range for EVERY code and
the token-based generator can read it against any text — the obligation bundling relies on. -/
theorem replace_referenced_clears (code : List UInt8) (t t' : Tree)
    (h : t.replaceReferencedTokens code = some t') :
    t'.hasReference = false ∧ (∀ code', t'.InRange code') ∧ (∀ code', t'.readAll code' ≠ none) := by
  obtain ⟨a, _⟩ := Tree.replace_spec code t t' h
  have hr : ∀ code', t'.InRange code' :=
    fun code' tok htok => Token.inRange_of_not_hasReference (a tok htok) code'
  refine ⟨any_false_of_forall a, hr, ?_⟩
  intro code' hn
  have := (readTokens_isSome_iff code' t'.tokens).2 (hr code')
  rw [Tree.readAll] at hn; rw [hn] at this; cases this

/-- Reading every token of the result under ANY code gives what reading the original tree under
the original code gave (the text is preserved, token by token, trivia included). -/
theorem replace_referenced_preserves_text (code : List UInt8) (t t' : Tree)
    (h : t.replaceReferencedTokens code = some t') (code' : List UInt8) :
    t'.readAll code' = t.readAll code :=
  (Tree.replace_spec code t t' h).2 code'

/-- a two-level tree whose tokens and trivia reference "local é = 1" (é = c3 a9) -/
def exampleCode : List UInt8 := [108, 111, 99, 97, 108, 32, 0xc3, 0xa9, 32, 61, 32, 49]
def exampleTree : Tree :=
  .node [Token.mk (.lineNumberReference 0 5 1) [] [TriviaKind.whitespace.at 5 6 1]]
    [.node [Token.mk (.lineNumberReference 6 8 1) [] [], Token.fromContent [61]] [],
     .node [Token.mk (.lineNumber [49] 1) [TriviaKind.whitespace.withContent [32]] []] []]

example : exampleTree.hasReference = true := by decide
example : (exampleTree.replaceReferencedTokens exampleCode).isSome = true := by decide
example : ((exampleTree.replaceReferencedTokens exampleCode).map (·.readAll [])) =
    some (exampleTree.readAll exampleCode) := by decide
example : exampleTree.readAll exampleCode =
    some [[[108, 111, 99, 97, 108], [32]], [[0xc3, 0xa9]], [[61]], [[32], [49]]] := by decide

/-- Why the rule is needed: a tree that is in range for its own code can make the generator
panic once it is read against another text (here: the empty text; `local éé = 1` happens to
work; in `loc é = 1` the range 0..5 ends inside the two-byte `é`). -/
theorem moved_tree_can_panic :
    exampleTree.InRange exampleCode ∧ exampleTree.readAll [] = none ∧
      exampleTree.readAll [108, 111, 99, 97, 108, 32, 0xc3, 0xa9, 0xc3, 0xa9, 32, 61, 32, 49] ≠ none ∧
      exampleTree.readAll [108, 111, 99, 32, 0xc3, 0xa9, 32, 61, 32, 49] = none := by
  refine ⟨?_, by decide, by decide, by decide⟩
  rw [← replace_referenced_defined_iff]
  decide

/-- Bundling: the entry tree stays in range for the entry's code, a required module's tree
(processed by the rule under ITS code) is in range for the entry's code, and so is the bundle
that owns both — whatever new content-tokens (`toks`, without references) the bundler adds. -/
theorem bundle_obligation (entryCode moduleCode : List UInt8) (entry module module' : Tree)
    (toks : List Token) (he : entry.InRange entryCode)
    (hm : module.replaceReferencedTokens moduleCode = some module')
    (ht : ∀ tok ∈ toks, tok.hasReference = false) :
    (Tree.node toks [module', entry]).InRange entryCode ∧
      (Tree.node toks [module', entry]).readAll entryCode ≠ none := by
  have hin : (Tree.node toks [module', entry]).InRange entryCode := by
    intro tok htok
    simp only [Tree.tokens, forestTokens, List.append_nil, List.mem_append] at htok
    rcases htok with h | h | h
    · exact Token.inRange_of_not_hasReference (ht tok h) entryCode
    · exact (replace_referenced_clears moduleCode module module' hm).2.1 entryCode tok h
    · exact he tok h
  refine ⟨hin, ?_⟩
  intro hn
  have := (readTokens_isSome_iff entryCode _).2 hin
  rw [Tree.readAll] at hn; rw [hn] at this; cases this

example : ∃ m', exampleTree.replaceReferencedTokens exampleCode = some m' ∧
    (Tree.node [Token.fromContent [59]] [m', .node [Token.newWithLine 0 1 1] []]).readAll [120] ≠ none := by
  refine ⟨_, rfl, by decide⟩

/-! ## the rule `shift_token_line` -/

theorem Token.shift_readAll (code : List UInt8) (amount : Int) (t : Token) :
    (t.shiftTokenLine amount).readAll code = t.readAll code := by
  simp only [Token.readAll, Token.read, Token.shiftTokenLine]
  cases t.position <;> rfl

theorem shift_map_readTokens (code : List UInt8) (amount : Int) (ts : List Token) :
    readTokens code (ts.map (·.shiftTokenLine amount)) = readTokens code ts := by
  induction ts with
  | nil => rfl
  | cons t ts ih => simp only [List.map_cons, readTokens, Token.shift_readAll, ih]

mutual
theorem Tree.shift_readTokens (code : List UInt8) (amount : Int) :
    ∀ t : Tree, readTokens code (t.shiftTokenLine amount).tokens = readTokens code t.tokens
  | .node toks kids => by
    rw [Tree.shiftTokenLine, Tree.tokens, Tree.tokens, readTokens_append, readTokens_append,
      shift_map_readTokens, forest_shift_readTokens code amount kids]
theorem forest_shift_readTokens (code : List UInt8) (amount : Int) :
    ∀ ts : List Tree, readTokens code (forestTokens (shiftForest amount ts)) = readTokens code (forestTokens ts)
  | [] => by rw [shiftForest]
  | t :: ts => by
    rw [shiftForest, forestTokens, forestTokens, readTokens_append, readTokens_append,
      Tree.shift_readTokens code amount t, forest_shift_readTokens code amount ts]
end

/-- Shifting line numbers (any amount, saturating) changes no text and keeps the tree in range. -/
theorem shift_token_line_preserves (code : List UInt8) (amount : Int) (t : Tree) :
    (t.shiftTokenLine amount).readAll code = t.readAll code ∧
      (t.InRange code → (t.shiftTokenLine amount).InRange code) := by
  have h := Tree.shift_readTokens code amount t
  refine ⟨h, ?_⟩
  intro hin
  have := (readTokens_isSome_iff code t.tokens).2 hin
  rw [← h] at this
  exact (readTokens_isSome_iff code _).1 this

example : (exampleTree.shiftTokenLine (-5)).readAll exampleCode = exampleTree.readAll exampleCode := by
  decide

/-- `saturating_add_signed` stays a `usize` -/
theorem saturatingAddSigned_le (n : Nat) (a : Int) :
    saturatingAddSigned n a ≤ usizeMax := by
  unfold saturatingAddSigned
  simp only
  split
  · omega
  · split
    · omega
    · omega

example : saturatingAddSigned 3 (-5) = 0 ∧ saturatingAddSigned usizeMax 1 = usizeMax := by decide

/-! ## generators' bookkeeping -/

/-- Dense generator: for ANY `column_span` (0 and 1 included) and any stream of the writer
primitives whose strings are `&str`s and whose characters are ASCII, the `usize` subtraction in
`get_last_push_str` never traps, and the invariant (last push = aligned suffix, column ≤ output
length) holds at the end. -/
theorem dense_no_underflow (columnSpan : Nat) (ops : List DenseOp)
    (hw : ∀ op ∈ ops, op.wellFormed = true) :
    ∃ g, (Dense.new columnSpan).run ops = some g ∧ g.inv = true :=
  Dense.run_inv (by simp [Dense.new, Dense.inv, isCharBoundary, strStartOk]) ops hw

/-- span 0: `f` `(` does not fit → the `merge_char` slow path runs (pops "é=f", re-pushes it) -/
example : ((Dense.new 0).run [.pushStr [0xc3, 0xa9] false, .pushChar 61 false,
      .pushStr [102] false, .mergeChar 40, .pushStrAndBreakIf [45, 49] true, .pushCharAndBreakIf 41 false]).map
    (fun g => (g.output, g.lastPushLength, g.currentLineLength)) =
    some ([10, 0xc3, 0xa9, 10, 61, 10, 10, 102, 40, 10, 45, 49, 10, 41], 1, 1) := by decide

/-- the invariant is what guards the subtraction: a state that violates it traps -/
example : (Dense.mk 0 0 [40] 2).step (.mergeChar 40) = none := by decide

mutual
theorem IndentOp.run_eq (depth : Nat) : ∀ op : IndentOp, op.run depth = some depth
  | .write => rfl
  | .scope body => by
    rw [IndentOp.run, runIndent_eq (depth + 1) body]
    simp
theorem runIndent_eq (depth : Nat) : ∀ ops : List IndentOp, runIndent depth ops = some depth
  | [] => rfl
  | op :: ops => by
    rw [runIndent, IndentOp.run_eq depth op]
    exact runIndent_eq depth ops
end

/-- Readable generator: `pop_indentation` (`current_indentation -= 1`) never traps because every
pop closes a push of the same function; the counter returns to its starting value. -/
theorem indentation_balanced (depth : Nat) (ops : List IndentOp) : runIndent depth ops = some depth :=
  runIndent_eq depth ops

example : runIndent 0 [.write, .scope [.scope [.write], .write], .scope []] = some 0 := by decide

/-- Token-based generator separators: element `i` gets a stored token only when `i < commas`
(that is `commas.get(i)` is `Some`), the fallback symbol otherwise, nothing after the last. -/
theorem separators_total (n commas : Nat) :
    (separators n commas).length = n ∧
      ∀ i, Sep.token i ∈ separators n commas → i < commas ∧ i + 1 < n := by
  refine ⟨by simp [separators], ?_⟩
  intro i hi
  simp only [separators, List.mem_map, List.mem_range] at hi
  obtain ⟨j, hj, he⟩ := hi
  split at he
  · split at he
    · cases he; omega
    · cases he
  · cases he

example : separators 3 1 = [Sep.token 0, Sep.symbol, Sep.nothing] := by decide

end DarkluaModel.C12
