import DarkluaModel.Util.Sexp
/-! Line-protocol handlers for property C09 (stub: nothing modelled yet). -/
namespace DarkluaModel.C09

def handle (op : String) (_args : List String) : String :=
  "unknown-op " ++ op

end DarkluaModel.C09
