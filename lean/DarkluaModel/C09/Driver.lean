import DarkluaModel.Util.Sexp
import DarkluaModel.C09.Model
import DarkluaModel.C09.Spec
/-! Line-protocol handlers for property C09.

Event stream = one token, events separated by `;`, empty stream `.`:
`+` push, `-` pop, `i:<n>` insert, `S` insert_self, `l:<n>` insert_local, `f:<n>`
insert_local_function, `u:<n>` process_variable_expression, `t:<n>` process_type_field.
Name list = comma separated, `-` when empty. -/
namespace DarkluaModel.C09

def isNameChar (c : Char) : Bool := c.isAlphanum || c == '_'

def parseName? (s : String) : Option Name :=
  let cs := s.toList
  if cs.isEmpty || !cs.all isNameChar then none else some cs

def parseEvent? (s : String) : Option Event :=
  match s.toList with
  | ['+'] => some .push
  | ['-'] => some .pop
  | ['S'] => some .insertSelf
  | k :: ':' :: rest =>
    if rest.isEmpty || !rest.all isNameChar then none
    else if k == 'i' then some (.insert rest)
    else if k == 'l' then some (.insertLocal rest)
    else if k == 'f' then some (.insertLocalFunction rest)
    else if k == 'u' then some (.use rest)
    else if k == 't' then some (.useType rest)
    else none
  | _ => none

def parseEvents? (s : String) : Option (List Event) :=
  if s == "." then some [] else (s.splitOn ";").mapM parseEvent?

def parseNames? (s : String) : Option (List Name) :=
  if s == "-" then some [] else (s.splitOn ",").mapM parseName?

def parseBool01? (s : String) : Option Bool :=
  if s == "0" then some false else if s == "1" then some true else none

def showEvent : Event → String
  | .push => "+"
  | .pop => "-"
  | .insertSelf => "S"
  | .insert x => "i:" ++ String.ofList x
  | .insertLocal x => "l:" ++ String.ofList x
  | .insertLocalFunction x => "f:" ++ String.ofList x
  | .use x => "u:" ++ String.ofList x
  | .useType x => "t:" ++ String.ofList x

def showEvents (es : List Event) : String :=
  if es.isEmpty then "." else ";".intercalate (es.map showEvent)

/-- sorted, deduplicated (the Rust side holds a `HashSet`) -/
def showNameSet (ns : List Name) : String :=
  let strs := (ns.map String.ofList).toArray.qsort (· < ·) |>.toList
  let dedup := strs.foldr (fun s acc => match acc with
    | t :: _ => if s == t then acc else s :: acc
    | [] => [s]) []
  if dedup.isEmpty then "-" else ",".intercalate dedup

def showResolve (rs : List (Option Nat)) : String :=
  if rs.isEmpty then "." else
    ",".intercalate (rs.map fun r => match r with | some i => toString i | none => "g")

def parseConfig? (incl detect globals : String) : Option Config :=
  match parseBool01? incl, parseBool01? detect, parseNames? globals with
  | some i, some d, some g => some { globals := g, includeFunctions := i, detectGlobals := d }
  | _, _, _ => none

def handle (op : String) (args : List String) : String :=
  match op, args with
  | "rename", [incl, detect, globals, events] =>
    match parseConfig? incl detect globals, parseEvents? events with
    | some cfg, some es => showEvents (renameRule cfg es)
    | _, _ => "bad-args"
  | "hself", [incl, detect, globals, events] =>
    match parseConfig? incl detect globals, parseEvents? events with
    | some cfg, some es => toString (selfNotGenerated cfg.includeFunctions (renameRule cfg es))
    | _, _ => "bad-args"
  | "resolve", [events] =>
    match parseEvents? events with
    | some es => showResolve (resolve es)
    | none => "bad-args"
  | "globals", [events] =>
    match parseEvents? events with
    | some es => showNameSet (collectGlobals es)
    | none => "bad-args"
  | "specglobals", [events] =>
    match parseEvents? events with
    | some es => showNameSet (globalUses es)
    | none => "bad-args"
  | "wellbracketed", [events] =>
    match parseEvents? events with
    | some es => toString (wellBracketed es)
    | none => "bad-args"
  | "nth", [n] =>
    match n.toNat? with
    | some k => if k > 100000000 then "bad-args" else String.ofList (permNth k)
    | none => "bad-args"
  | _, _ => "bad-args"

end DarkluaModel.C09
