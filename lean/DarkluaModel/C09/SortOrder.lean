import DarkluaModel.C09.Lemmas
/-!
C09: the re-sort in `RenameProcessor::pop` makes the reuse pool independent of the (arbitrary)
iteration order of `HashMap::into_values`: on names over the generated alphabet
`sort_identifiers` is a total order, so the sorted pool is a function of the *set* of names.
-/
namespace DarkluaModel.C09

theorem sortChar_alpha : ∀ a b : Fin 63, sortChar (alphaChar a) (alphaChar b) = compare a.val b.val := by
  decide +kernel

/-- lexicographic comparison of index lists, a proper prefix first -/
def lexCmp : List Nat → List Nat → Ordering
  | [], [] => .eq
  | [], _ :: _ => .lt
  | _ :: _, [] => .gt
  | a :: as, b :: bs =>
    match compare a b with
    | .lt => .lt
    | .gt => .gt
    | .eq => lexCmp as bs

theorem sortIdentifiers_alpha (p q : List (Fin 63)) :
    sortIdentifiers (p.map alphaChar) (q.map alphaChar) = lexCmp (p.map (·.val)) (q.map (·.val)) := by
  induction p generalizing q with
  | nil => cases q <;> rfl
  | cons a as ih =>
    cases q with
    | nil => rfl
    | cons b bs =>
      simp only [List.map_cons, sortIdentifiers, lexCmp, sortChar_alpha]
      cases compare a.val b.val <;> simp [ih]

theorem lexCmp_eq : ∀ {a b : List Nat}, lexCmp a b = .eq → a = b := by
  intro a
  induction a with
  | nil => intro b h; cases b with
    | nil => rfl
    | cons _ _ => simp [lexCmp] at h
  | cons x xs ih =>
    intro b h
    cases b with
    | nil => simp [lexCmp] at h
    | cons y ys =>
      simp only [lexCmp] at h
      rcases Nat.lt_trichotomy x y with hxy | hxy | hxy
      · rw [Nat.compare_eq_lt.mpr hxy] at h; simp at h
      · subst hxy
        rw [Nat.compare_eq_eq.mpr rfl] at h
        rw [ih h]
      · rw [Nat.compare_eq_gt.mpr hxy] at h; simp at h

theorem lexCmp_swap : ∀ (a b : List Nat), lexCmp a b = (lexCmp b a).swap := by
  intro a
  induction a with
  | nil => intro b; cases b <;> rfl
  | cons x xs ih =>
    intro b
    cases b with
    | nil => rfl
    | cons y ys =>
      simp only [lexCmp]
      rcases Nat.lt_trichotomy x y with hxy | hxy | hxy
      · rw [Nat.compare_eq_lt.mpr hxy, Nat.compare_eq_gt.mpr hxy]; rfl
      · subst hxy
        rw [Nat.compare_eq_eq.mpr rfl]
        exact ih ys
      · rw [Nat.compare_eq_gt.mpr hxy, Nat.compare_eq_lt.mpr hxy]; rfl

/-- `a ≥ b` and `b ≥ c` give `a ≥ c` -/
theorem lexCmp_ge_trans : ∀ {a b c : List Nat}, lexCmp a b ≠ .lt → lexCmp b c ≠ .lt → lexCmp a c ≠ .lt := by
  intro a
  induction a with
  | nil =>
    intro b c h1 h2
    cases b with
    | nil => exact h2
    | cons _ _ => simp [lexCmp] at h1
  | cons x xs ih =>
    intro b c h1 h2
    cases b with
    | nil =>
      cases c with
      | nil => simp [lexCmp]
      | cons _ _ => simp [lexCmp] at h2
    | cons y ys =>
      cases c with
      | nil => simp [lexCmp]
      | cons z zs =>
        simp only [lexCmp] at h1 h2 ⊢
        rcases Nat.lt_trichotomy x y with hxy | hxy | hxy
        · rw [Nat.compare_eq_lt.mpr hxy] at h1; simp at h1
        · subst hxy
          rw [Nat.compare_eq_eq.mpr rfl] at h1
          rcases Nat.lt_trichotomy x z with hxz | hxz | hxz
          · rw [Nat.compare_eq_lt.mpr hxz] at h2; simp at h2
          · subst hxz
            rw [Nat.compare_eq_eq.mpr rfl] at h2 ⊢
            exact ih h1 h2
          · rw [Nat.compare_eq_gt.mpr hxz]; simp
        · rcases Nat.lt_trichotomy y z with hyz | hyz | hyz
          · rw [Nat.compare_eq_lt.mpr hyz] at h2; simp at h2
          · subst hyz
            rw [Nat.compare_eq_gt.mpr hxy]; simp
          · rw [Nat.compare_eq_gt.mpr (Nat.lt_trans hyz hxy)]; simp

/-- a name over the generated alphabet -/
def Alpha (n : Name) : Prop := ∃ p : List (Fin 63), n = p.map alphaChar

theorem alpha_display (p : Digits) : Alpha (display p) := ⟨p.reverse, rfl⟩

/-- "may stand before" in the sorted pool: not smaller, both over the alphabet -/
def Ge (a b : Name) : Prop := sortIdentifiers a b ≠ .lt ∧ Alpha a ∧ Alpha b

theorem Ge.trans {a b c : Name} (h1 : Ge a b) (h2 : Ge b c) : Ge a c := by
  obtain ⟨h1, ⟨p, rfl⟩, ⟨q, rfl⟩⟩ := h1
  obtain ⟨h2, _, ⟨r, rfl⟩⟩ := h2
  refine ⟨?_, ⟨p, rfl⟩, ⟨r, rfl⟩⟩
  rw [sortIdentifiers_alpha] at h1 h2 ⊢
  exact lexCmp_ge_trans h1 h2

theorem map_val_injective : ∀ {p q : List (Fin 63)}, p.map (·.val) = q.map (·.val) → p = q := by
  intro p
  induction p with
  | nil => intro q h; cases q <;> simp_all
  | cons a as ih =>
    intro q h
    cases q with
    | nil => simp at h
    | cons b bs =>
      simp only [List.map_cons, List.cons.injEq] at h
      rw [Fin.ext h.1, ih h.2]

theorem Ge.antisymm {a b : Name} (h1 : Ge a b) (h2 : Ge b a) : a = b := by
  obtain ⟨h1, ⟨p, rfl⟩, ⟨q, rfl⟩⟩ := h1
  obtain ⟨h2, _, _⟩ := h2
  rw [sortIdentifiers_alpha] at h1 h2
  rw [lexCmp_swap] at h2
  have : lexCmp (p.map (·.val)) (q.map (·.val)) = .eq := by
    cases h : lexCmp (p.map (·.val)) (q.map (·.val)) <;> simp_all [Ordering.swap]
  rw [map_val_injective (lexCmp_eq this)]

theorem mem_insertDesc {x y : Name} {l : List Name} : y ∈ insertDesc x l ↔ y = x ∨ y ∈ l := by
  induction l with
  | nil => simp [insertDesc]
  | cons z zs ih =>
    unfold insertDesc
    split <;> simp [ih] <;> grind

theorem insertDesc_sorted (x : Name) (hx : Alpha x) : ∀ (l : List Name), (∀ z ∈ l, Alpha z) →
    l.Pairwise Ge → (insertDesc x l).Pairwise Ge := by
  intro l
  induction l with
  | nil => intro _ _; simp [insertDesc]
  | cons y ys ih =>
    intro hal hp
    have hy : Alpha y := hal y (by simp)
    rw [List.pairwise_cons] at hp
    unfold insertDesc
    split
    · rename_i hgt
      rw [List.pairwise_cons]
      refine ⟨?_, ih (fun z hz => hal z (List.mem_cons_of_mem _ hz)) hp.2⟩
      intro z hz
      rcases mem_insertDesc.mp hz with rfl | hz
      · refine ⟨?_, hy, hx⟩
        simp only [beq_iff_eq] at hgt
        rw [hgt]; simp
      · exact hp.1 z hz
    · rename_i hgt
      have hxy : Ge x y := by
        refine ⟨?_, hx, hy⟩
        obtain ⟨p, rfl⟩ := hx
        obtain ⟨q, rfl⟩ := hy
        rw [sortIdentifiers_alpha] at hgt ⊢
        rw [lexCmp_swap]
        intro hc
        apply hgt
        cases h : lexCmp (q.map (·.val)) (p.map (·.val)) <;> simp_all [Ordering.swap]
      rw [List.pairwise_cons]
      refine ⟨?_, List.pairwise_cons.mpr hp⟩
      intro z hz
      rcases List.mem_cons.mp hz with rfl | hz
      · exact hxy
      · exact hxy.trans (hp.1 z hz)

theorem mem_sortDesc {y : Name} {l : List Name} : y ∈ sortDesc l ↔ y ∈ l := by
  induction l with
  | nil => simp [sortDesc]
  | cons x xs ih => simp [sortDesc, mem_insertDesc, ih]

theorem sortDesc_sorted : ∀ (l : List Name), (∀ z ∈ l, Alpha z) → (sortDesc l).Pairwise Ge := by
  intro l
  induction l with
  | nil => intro _; simp [sortDesc]
  | cons x xs ih =>
    intro hal
    exact insertDesc_sorted x (hal x (by simp)) _
      (fun z hz => hal z (List.mem_cons_of_mem _ (mem_sortDesc.mp hz)))
      (ih (fun z hz => hal z (List.mem_cons_of_mem _ hz)))

end DarkluaModel.C09
