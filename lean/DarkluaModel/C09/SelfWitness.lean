import DarkluaModel.C09.Globals
/-!
C09: the family of streams on which `self` used to be captured (finding F09a, fixed).

`function t:m() local x … local x  return self end` with enough `local x`: before the fix the
permutator reached the string `self`, a local was renamed `self` inside the method, and the
`self` that follows referred to that local instead of the implicit parameter.  Kept as a
regression family: `Thm.lean` shows the fixed model handles every member.
-/
namespace DarkluaModel.C09

def xName : Name := ['x']

/-- `push; insert_self; insert_local x (N times); use self` -/
def selfWitness (N : Nat) : List Event :=
  .push :: .insertSelf :: (List.replicate N (.insertLocal xName) ++ [.use selfName])

def witnessCfg : Config := ⟨[], false, true⟩

/-! ### the resolver on such streams -/

def declL (r : RState) : List Name → RState
  | [] => r
  | g :: gs => declL (r.declare g) gs

theorem declL_append (r : RState) (a b : List Name) : declL r (a ++ b) = declL (declL r a) b := by
  induction a generalizing r with
  | nil => rfl
  | cons g gs ih => simp [declL, ih]

theorem declL_next (r : RState) (gs : List Name) : (declL r gs).next = r.next + gs.length := by
  induction gs generalizing r with
  | nil => rfl
  | cons g gs ih =>
    have : (r.declare g).next = r.next + 1 := by unfold RState.declare; split <;> rfl
    simp [declL, ih, this]; omega

theorem resolveFrom_locals (r : RState) (gs : List Name) (rest : List Event) :
    resolveFrom r (gs.map .insertLocal ++ rest) = resolveFrom (declL r gs) rest := by
  induction gs generalizing r with
  | nil => rfl
  | cons g gs ih =>
    simp only [List.map_cons, List.cons_append, resolveFrom, useName, declL]
    exact ih _

theorem globalUsesFrom_locals (r : RState) (gs : List Name) (rest : List Event) :
    globalUsesFrom r (gs.map .insertLocal ++ rest) = globalUsesFrom (declL r gs) rest := by
  induction gs generalizing r with
  | nil => rfl
  | cons g gs ih =>
    simp only [List.map_cons, List.cons_append, globalUsesFrom, useName, declL]
    exact ih _

theorem lookup_declare_same (r : RState) (g : Name) : lookupStack (r.declare g).stack g = some r.next := by
  unfold RState.declare
  split <;> simp [lookupStack, lookupScope]

theorem lookup_declare_other (r : RState) (g y : Name) (h : g ≠ y) (hs : r.stack ≠ []) :
    lookupStack (r.declare g).stack y = lookupStack r.stack y := by
  unfold RState.declare
  split
  · rename_i sc rest hr
    have hb : (g == y) = false := beq_false_of_ne h
    simp [lookupStack, lookupScope, List.find?_cons, hb, hr]
  · rename_i hr; exact absurd hr hs

theorem declare_stack_ne (r : RState) (g : Name) : (r.declare g).stack ≠ [] := by
  unfold RState.declare; split <;> simp

theorem lookup_declL_other (r : RState) (gs : List Name) (y : Name) (h : ∀ g ∈ gs, g ≠ y)
    (hs : r.stack ≠ []) : lookupStack (declL r gs).stack y = lookupStack r.stack y := by
  induction gs generalizing r with
  | nil => rfl
  | cons g gs ih =>
    simp only [declL]
    rw [ih _ (fun g' hg' => h g' (List.mem_cons_of_mem _ hg')) (declare_stack_ne r g)]
    exact lookup_declare_other r g y (h g (by simp)) hs

theorem xName_ne_self : xName ≠ selfName := by decide

/-- resolver state inside the method, before the locals -/
def rMethod : RState := ⟨[[(selfName, 0)]], 1⟩

theorem rMethod_eq : rstep (rstep RState.empty .push) .insertSelf = rMethod := rfl

theorem replicate_locals (N : Nat) :
    List.replicate N (Event.insertLocal xName) = (List.replicate N xName).map .insertLocal := by
  simp

theorem resolve_selfWitness (N : Nat) : resolve (selfWitness N) = [some 0] := by
  unfold resolve selfWitness
  simp only [resolveFrom, useName, rMethod_eq]
  rw [replicate_locals, resolveFrom_locals]
  simp only [resolveFrom, useName]
  rw [lookup_declL_other rMethod _ selfName
    (fun g hg => by rw [List.eq_of_mem_replicate hg]; exact xName_ne_self) (by simp [rMethod])]
  rfl

theorem globalUses_selfWitness (N : Nat) : globalUses (selfWitness N) = [] := by
  unfold globalUses selfWitness
  simp only [globalUsesFrom, useName, rMethod_eq]
  rw [replicate_locals, globalUsesFrom_locals]
  simp only [globalUsesFrom, useName]
  rw [lookup_declL_other rMethod _ selfName
    (fun g hg => by rw [List.eq_of_mem_replicate hg]; exact xName_ne_self) (by simp [rMethod])]
  rfl

theorem functionNames_selfWitness (N : Nat) : functionNames (selfWitness N) = [] := by
  unfold selfWitness
  simp only [functionNames]
  induction N with
  | zero => rfl
  | succ N ih => simpa [List.replicate_succ, functionNames] using ih

theorem avoidList_selfWitness (N : Nat) : avoidList witnessCfg (selfWitness N) = [] := by
  have h := collectGlobalsFrom_eq (selfWitness N) [] RState.empty trivial
  have h' : collectGlobals (selfWitness N) = globalUses (selfWitness N) := h
  simp [avoidList, witnessCfg, functionNames_selfWitness, h', globalUses_selfWitness]

end DarkluaModel.C09
