import DarkluaModel.C09.Lemmas
/-! The simulation invariant of C09: the processor's dictionaries, the resolver state on the
input stream and the resolver state on the output stream are three projections of one joint
stack of declaration records. -/
namespace DarkluaModel.C09

/-- one live declaration: its real name, the name written in the output, the `reuse` flag of
its dictionary entry and its ordinal -/
structure Triple where
  real : Name
  obf : Name
  reuse : Bool
  idx : Nat

def Triple.entry (t : Triple) : Entry := ⟨t.real, t.obf, t.reuse⟩

abbrev JScope := List Triple

def projBy (f : Triple → Name) (J : List JScope) : List RScope :=
  J.map fun sc => sc.map fun t => (f t, t.idx)

def projIn (J : List JScope) : List RScope := projBy (·.real) J
def projOut (J : List JScope) : List RScope := projBy (·.obf) J

def jdeclare (J : List JScope) (t : Triple) : List JScope :=
  match J with
  | sc :: rest => (t :: sc) :: rest
  | [] => [[t]]

theorem flatten_jdeclare (J : List JScope) (t : Triple) : (jdeclare J t).flatten = t :: J.flatten := by
  cases J <;> simp [jdeclare]

theorem projBy_jdeclare (f : Triple → Name) (J : List JScope) (t : Triple) (n : Nat) (h : t.idx = n) :
    (RState.declare ⟨projBy f J, n⟩ (f t)) = ⟨projBy f (jdeclare J t), n + 1⟩ := by
  cases J <;> simp [jdeclare, projBy, RState.declare, h]

def genNames (F : List Triple) : List Name := (F.filter (·.reuse)).map (·.obf)

theorem genNames_append (a b : List Triple) : genNames (a ++ b) = genNames a ++ genNames b := by
  simp [genNames]

theorem genNames_cons (t : Triple) (F : List Triple) :
    genNames (t :: F) = if t.reuse then t.obf :: genNames F else genNames F := by
  unfold genNames
  by_cases h : t.reuse <;> simp [h]

/-! ### lookups through the joint stack -/

theorem lookupStack_projBy (f : Triple → Name) (J : List JScope) (x : Name) :
    lookupStack (projBy f J) x = (J.flatten.find? (fun t => f t == x)).map (·.idx) := by
  induction J with
  | nil => simp [projBy, lookupStack]
  | cons sc rest ih =>
    have ih' : lookupStack (List.map (fun sc => List.map (fun t => (f t, t.idx)) sc) rest) x
        = (rest.flatten.find? (fun t => f t == x)).map (·.idx) := ih
    simp only [projBy, List.map_cons, lookupStack, lookupScope, List.flatten_cons, List.find?_append,
      List.find?_map]
    rw [ih']
    cases h : sc.find? ((fun p => p.1 == x) ∘ fun t => (f t, t.idx)) with
    | none =>
      have h' : sc.find? (fun t => f t == x) = none := h
      simp [h']
    | some t =>
      have h' : sc.find? (fun t => f t == x) = some t := h
      simp [h']

def DictRel (d : Dict) (sc : JScope) : Prop :=
  (∀ x, d.get? x = (sc.find? (fun t => t.real == x)).map Triple.entry) ∧ d.Sublist (sc.map Triple.entry)

def StackRel : List Dict → List JScope → Prop
  | [], [] => True
  | d :: ds, sc :: scs => DictRel d sc ∧ StackRel ds scs
  | _, _ => False

theorem getObf_eq : ∀ {st : List Dict} {J : List JScope}, StackRel st J → ∀ x,
    getObfuscatedName st x = (J.flatten.find? (fun t => t.real == x)).map (·.obf) := by
  intro st
  induction st with
  | nil =>
    intro J h x
    cases J with
    | nil => simp [getObfuscatedName]
    | cons _ _ => exact absurd h (by simp [StackRel])
  | cons d ds ih =>
    intro J h x
    cases J with
    | nil => exact absurd h (by simp [StackRel])
    | cons sc scs =>
      obtain ⟨h1, h2⟩ := h
      simp only [getObfuscatedName, List.flatten_cons, List.find?_append]
      rw [h1.1 x, ih h2 x]
      cases sc.find? (fun t => t.real == x) <;> simp [Triple.entry]

theorem find?_filter_ne (d : Dict) (k x : Name) (h : x ≠ k) :
    (d.filter (fun o => o.real != k)).find? (fun o => o.real == x) = d.find? (fun o => o.real == x) := by
  induction d with
  | nil => rfl
  | cons e es ih =>
    by_cases hk : e.real = k
    · have hx : (e.real == x) = false := by
        apply beq_false_of_ne
        intro he; exact h (he ▸ hk)
      have hk' : (e.real != k) = false := by simp [hk]
      rw [List.filter_cons, List.find?_cons, hx, hk']
      exact ih
    · have hk' : (e.real != k) = true := by simp [hk]
      rw [List.filter_cons, hk']
      simp only [if_true, List.find?_cons]
      rw [ih]

theorem DictRel.insert {d : Dict} {sc : JScope} (h : DictRel d sc) (t : Triple) :
    DictRel (d.insert t.entry) (t :: sc) := by
  constructor
  · intro x
    by_cases hx : t.real = x
    · simp [Dict.insert, Dict.get?, Triple.entry, hx]
    · have hx' : x ≠ t.real := fun he => hx he.symm
      have := h.1 x
      simp only [Dict.get?] at this
      have hb : (t.real == x) = false := beq_false_of_ne hx
      show ((⟨t.real, t.obf, t.reuse⟩ : Entry) :: d.filter (fun o => o.real != t.real)).find? (fun o => o.real == x) = _
      rw [List.find?_cons]
      simp only [hb]
      rw [find?_filter_ne d t.real x hx', this, List.find?_cons]
      simp only [hb]
  · simp only [Dict.insert, List.map_cons]
    exact List.Sublist.cons_cons _ (List.Sublist.trans List.filter_sublist h.2)

theorem DictRel.single (t : Triple) : DictRel [t.entry] [t] := by
  constructor
  · intro x
    by_cases hx : t.real = x <;> simp [Dict.get?, Triple.entry, hx]
  · simp

theorem StackRel.add {s : State} {J : List JScope} (h : StackRel s.stack J) (t : Triple) :
    StackRel (s.add t.real t.obf t.reuse).stack (jdeclare J t) := by
  unfold State.add
  cases hs : s.stack with
  | nil =>
    rw [hs] at h
    cases J with
    | nil => exact ⟨DictRel.single t, trivial⟩
    | cons _ _ => exact absurd h (by simp [StackRel])
  | cons d ds =>
    rw [hs] at h
    cases J with
    | nil => exact absurd h (by simp [StackRel])
    | cons sc scs => exact ⟨h.1.insert t, h.2⟩

theorem genNames_eq_freed_map (sc : JScope) : freed (sc.map Triple.entry) = genNames sc := by
  induction sc with
  | nil => rfl
  | cons t ts ih =>
    unfold freed genNames at *
    by_cases h : t.reuse <;> simp [Triple.entry, h, List.filter_cons] <;> simpa using ih

theorem freed_sublist {d : Dict} {sc : JScope} (h : DictRel d sc) : (freed d).Sublist (genNames sc) := by
  rw [← genNames_eq_freed_map]
  exact (h.2.filter _).map _

/-! ### the sort is a permutation -/

theorem insertDesc_perm (x : Name) (l : List Name) : (insertDesc x l).Perm (x :: l) := by
  induction l with
  | nil => simp [insertDesc]
  | cons y ys ih =>
    unfold insertDesc
    split
    · exact ((ih.cons y).trans (List.Perm.swap x y ys))
    · exact List.Perm.refl _

theorem sortDesc_perm (l : List Name) : (sortDesc l).Perm l := by
  induction l with
  | nil => exact List.Perm.refl _
  | cons x xs ih => exact (insertDesc_perm x _).trans (ih.cons x)

/-! ### the invariant -/

structure Good (S : Name → Prop) (A : List Name) (s : State) (J : List JScope) : Prop where
  rel : StackRel s.stack J
  nodup : (genNames J.flatten ++ s.pool).Nodup
  gen : ∀ n ∈ genNames J.flatten ++ s.pool, Old s.perm n ∧ n ∉ A ∧ S n
  kept : ∀ t ∈ J.flatten, t.reuse = false → t.obf = t.real ∧ (t.real ∈ A ∨ t.real = selfName)
  avoid : ∀ n ∈ A, n ∈ s.avoid

theorem Good.push {S A s J} (h : Good S A s J) : Good S A { s with stack := [] :: s.stack } ([] :: J) := by
  refine ⟨⟨⟨fun x => by simp [Dict.get?], by simp⟩, h.rel⟩, ?_, ?_, ?_, h.avoid⟩
  · simpa using h.nodup
  · simpa using h.gen
  · simpa using h.kept

theorem Good.pop {S A s J} (h : Good S A s J) : Good S A s.pop J.tail := by
  unfold State.pop
  cases hs : s.stack with
  | nil =>
    have hr := h.rel
    rw [hs] at hr
    cases J with
    | nil => simpa using h
    | cons _ _ => exact absurd hr (by simp [StackRel])
  | cons d ds =>
    have hr := h.rel
    rw [hs] at hr
    cases J with
    | nil => exact absurd hr (by simp [StackRel])
    | cons sc scs =>
      have hsub := freed_sublist hr.1
      have hperm := sortDesc_perm (s.pool ++ freed d)
      have hnd := h.nodup
      have hgen := h.gen
      simp only [List.flatten_cons, genNames_append] at hnd hgen
      have hnd2 : ((freed d ++ genNames scs.flatten) ++ s.pool).Nodup :=
        List.Nodup.sublist ((hsub.append (List.Sublist.refl _)).append (List.Sublist.refl _)) hnd
      have hmem : ∀ n, n ∈ freed d → n ∈ genNames sc := fun n hn => hsub.subset hn
      refine ⟨hr.2, ?_, ?_, ?_, h.avoid⟩
      · simp only [List.tail_cons]
        have hp : (genNames scs.flatten ++ sortDesc (s.pool ++ freed d)).Perm
            ((freed d ++ genNames scs.flatten) ++ s.pool) := by
          refine (List.Perm.append_left _ hperm).trans ?_
          rw [← List.append_assoc]
          refine List.Perm.trans List.perm_append_comm ?_
          rw [List.append_assoc]
        exact hp.nodup_iff.mpr hnd2
      · intro n hn
        simp only [List.tail_cons, List.mem_append] at hn
        apply hgen
        rcases hn with hn | hn
        · simp [hn]
        · have := hperm.mem_iff.mp hn
          simp only [List.mem_append] at this
          rcases this with h1 | h1
          · simp [h1]
          · simp [hmem n h1]
      · intro t ht
        apply h.kept
        simp only [List.tail_cons] at ht
        simp [ht]

end DarkluaModel.C09
