import DarkluaModel.C09.Lemmas
/-! C09: `CollectGlobalsProcessor` computes exactly the global uses of the reference resolver. -/
namespace DarkluaModel.C09

def CgRel : List (List Name) → List RScope → Prop
  | [], [] => True
  | c :: cs, r :: rs => (∀ x, x ∈ c ↔ (lookupScope r x).isSome = true) ∧ CgRel cs rs
  | _, _ => False

theorem lookupScope_cons (y : Name) (i : Nat) (r : RScope) (x : Name) :
    lookupScope ((y, i) :: r) x = if y == x then some i else lookupScope r x := by
  unfold lookupScope
  rw [List.find?_cons]
  by_cases h : y == x <;> simp [h]

theorem cgDeclared_iff : ∀ {sc : List (List Name)} {st : List RScope}, CgRel sc st → ∀ x,
    cgDeclared sc x = (lookupStack st x).isSome := by
  intro sc
  induction sc with
  | nil =>
    intro st h x
    cases st with
    | nil => simp [cgDeclared, lookupStack]
    | cons _ _ => exact absurd h (by simp [CgRel])
  | cons c cs ih =>
    intro st h x
    cases st with
    | nil => exact absurd h (by simp [CgRel])
    | cons r rs =>
      obtain ⟨h1, h2⟩ := h
      have ih' := ih h2 x
      unfold cgDeclared at ih' ⊢
      simp only [List.any_cons, lookupStack, ih']
      cases hl : lookupScope r x with
      | none =>
        have : ¬ x ∈ c := by rw [h1 x, hl]; simp
        simp [this]
      | some i =>
        have : x ∈ c := by rw [h1 x, hl]; simp
        simp [this]

theorem CgRel.declare {sc : List (List Name)} {r : RState} (h : CgRel sc r.stack) (x : Name) :
    CgRel (cgAdd sc x) (r.declare x).stack := by
  unfold cgAdd RState.declare
  cases hs : sc with
  | nil =>
    rw [hs] at h
    cases hr : r.stack with
    | nil =>
      refine ⟨fun y => ?_, trivial⟩
      simp only [lookupScope_cons, List.mem_singleton]
      by_cases hy : x = y
      · simp [hy]
      · have : ¬ y = x := fun he => hy he.symm
        simp [hy, this, lookupScope]
    | cons _ _ => rw [hr] at h; exact absurd h (by simp [CgRel])
  | cons c cs =>
    rw [hs] at h
    cases hr : r.stack with
    | nil => rw [hr] at h; exact absurd h (by simp [CgRel])
    | cons rs rss =>
      rw [hr] at h
      refine ⟨fun y => ?_, h.2⟩
      have h1 := h.1 y
      simp only [lookupScope_cons]
      by_cases hy : x = y
      · subst hy
        by_cases hc : c.contains x
        · simp only [hc, if_true]
          simp at hc
          simp [hc]
        · simp at hc
          simp [hc]
      · have hyb : (x == y) = false := beq_false_of_ne hy
        have : ¬ y = x := fun he => hy he.symm
        by_cases hc : c.contains x
        · simp only [hc, if_true, hyb]
          exact h1
        · simp only [hc, hyb]
          simp [this, h1]

theorem CgRel.tail {sc : List (List Name)} {st : List RScope} (h : CgRel sc st) : CgRel sc.tail st.tail := by
  cases sc with
  | nil => cases st with
    | nil => exact h
    | cons _ _ => exact absurd h (by simp [CgRel])
  | cons _ _ => cases st with
    | nil => exact absurd h (by simp [CgRel])
    | cons _ _ => exact h.2

theorem collectGlobalsFrom_eq : ∀ (es : List Event) (sc : List (List Name)) (r : RState),
    CgRel sc r.stack → collectGlobalsFrom sc es = globalUsesFrom r es := by
  intro es
  induction es with
  | nil => intro sc r _; rfl
  | cons e es ih =>
    intro sc r h
    cases e with
    | push =>
      simp only [collectGlobalsFrom, globalUsesFrom, useName]
      exact ih _ _ ⟨fun x => by simp [lookupScope], h⟩
    | pop =>
      simp only [collectGlobalsFrom, globalUsesFrom, useName]
      exact ih _ _ h.tail
    | insert x =>
      simp only [collectGlobalsFrom, globalUsesFrom, useName]
      exact ih _ _ (h.declare x)
    | insertSelf =>
      simp only [collectGlobalsFrom, globalUsesFrom, useName]
      exact ih _ _ (h.declare selfName)
    | insertLocal x =>
      simp only [collectGlobalsFrom, globalUsesFrom, useName]
      exact ih _ _ (h.declare x)
    | insertLocalFunction f =>
      simp only [collectGlobalsFrom, globalUsesFrom, useName]
      exact ih _ _ (h.declare f)
    | use x =>
      have hd := cgDeclared_iff h x
      have ih' := ih sc (rstep r (.use x)) h
      simp only [collectGlobalsFrom, globalUsesFrom, useName, hd]
      cases lookupStack r.stack x <;> simp [ih']
    | useType x =>
      have hd := cgDeclared_iff h x
      have ih' := ih sc (rstep r (.useType x)) h
      simp only [collectGlobalsFrom, globalUsesFrom, useName, hd]
      cases lookupStack r.stack x <;> simp [ih']

end DarkluaModel.C09
