import DarkluaModel.C09.Inv
/-! C09: every processor step preserves the invariant; the key lookup lemma; the simulation. -/
namespace DarkluaModel.C09

/-! ### `generate_identifier` -/

theorem filter_not_mem {avoid : List Name} {n : Name} (h : filterIdentifier avoid n = true) :
    n ∉ avoid := by
  unfold filterIdentifier at h
  simp only [Bool.and_eq_true, Bool.not_eq_true', List.contains_eq_mem, decide_eq_false_iff_not] at h
  exact h.1

theorem generate_spec {S A s J} (h : Good S A s J) :
    (generateIdentifier s).2.stack = s.stack ∧ (generateIdentifier s).2.avoid = s.avoid ∧
    (generateIdentifier s).2.incl = s.incl ∧
    permVal s.perm ≤ permVal (generateIdentifier s).2.perm ∧
    Old (generateIdentifier s).2.perm (generateIdentifier s).1 ∧
    (generateIdentifier s).1 ∉ A ∧
    ((generateIdentifier s).1 :: (genNames J.flatten ++ (generateIdentifier s).2.pool)).Nodup ∧
    (∀ n ∈ (generateIdentifier s).2.pool, n ∈ s.pool) := by
  unfold generateIdentifier
  cases hp : s.pool.getLast? with
  | some g =>
    have hne : s.pool ≠ [] := by intro he; simp [he] at hp
    have hsplit : s.pool.dropLast ++ [g] = s.pool := by
      have := List.dropLast_concat_getLast hne
      rw [List.getLast?_eq_some_getLast hne] at hp
      injection hp with hp
      rw [← hp]; exact this
    have hmem : g ∈ s.pool := List.mem_of_getLast? hp
    have hg := h.gen g (by simp [hmem])
    refine ⟨rfl, rfl, rfl, Nat.le_refl _, hg.1, hg.2.1, ?_, ?_⟩
    · have hnd := h.nodup
      rw [← hsplit, ← List.append_assoc] at hnd
      have : ((genNames J.flatten ++ s.pool.dropLast) ++ [g]).Perm
          (g :: (genNames J.flatten ++ s.pool.dropLast)) := List.perm_append_comm
      exact this.nodup_iff.mp hnd
    · intro n hn
      exact (List.dropLast_sublist _).subset hn
  | none =>
    obtain ⟨q, hq1, hq2, hq3, _⟩ := generateFresh_spec s.perm s.avoid
    simp only [hq1]
    have hinc := permVal_incr q
    refine ⟨trivial, trivial, trivial, by omega, ⟨q, by omega, rfl⟩, ?_, ?_, fun n hn => hn⟩
    · intro hA
      exact filter_not_mem hq3 (h.avoid _ hA)
    · rw [List.nodup_cons]
      refine ⟨?_, h.nodup⟩
      intro hmem
      exact (h.gen _ hmem).1.ne_display hq2 rfl

/-! ### declaration steps -/

theorem Good.replace {S A s J} (h : Good S A s J) (x : Name) (n : Nat)
    (hself : S (replaceIdentifier s x).1) :
    Good S A (replaceIdentifier s x).2 (jdeclare J ⟨x, (replaceIdentifier s x).1, true, n⟩) := by
  obtain ⟨h1, h2, _, h4, h5, h6, h7, h8⟩ := generate_spec h
  unfold replaceIdentifier at hself ⊢
  simp only at hself ⊢
  generalize generateIdentifier s = r at *
  obtain ⟨g, s1⟩ := r
  simp only at *
  refine ⟨?_, ?_, ?_, ?_, ?_⟩
  · exact StackRel.add (s := s1) (by rw [h1]; exact h.rel) ⟨x, g, true, n⟩
  · simp only [flatten_jdeclare, genNames_cons, if_true]
    have : (s1.add x g true).pool = s1.pool := by unfold State.add; split <;> rfl
    rw [this]; exact h7
  · have hpool : (s1.add x g true).pool = s1.pool := by unfold State.add; split <;> rfl
    have hperm : (s1.add x g true).perm = s1.perm := by unfold State.add; split <;> rfl
    simp only [flatten_jdeclare, genNames_cons, if_true, hpool, hperm]
    intro m hm
    simp only [List.cons_append, List.mem_cons, List.mem_append] at hm
    rcases hm with hm | hm | hm
    · subst hm; exact ⟨h5, h6, hself⟩
    · have := h.gen m (by simp [hm])
      exact ⟨this.1.mono h4, this.2⟩
    · have := h.gen m (by simp [h8 m hm])
      exact ⟨this.1.mono h4, this.2⟩
  · intro t ht
    simp only [flatten_jdeclare, List.mem_cons] at ht
    rcases ht with ht | ht
    · subst ht; intro hc; simp at hc
    · exact h.kept t ht
  · have : (s1.add x g true).avoid = s1.avoid := by unfold State.add; split <;> rfl
    rw [this, h2]; exact h.avoid

theorem Good.addKept {S A s J} (h : Good S A s J) (x : Name) (n : Nat) (hx : x ∈ A ∨ x = selfName) :
    Good S A (s.add x x false) (jdeclare J ⟨x, x, false, n⟩) := by
  have hpool : (s.add x x false).pool = s.pool := by unfold State.add; split <;> rfl
  have hperm : (s.add x x false).perm = s.perm := by unfold State.add; split <;> rfl
  have havoid : (s.add x x false).avoid = s.avoid := by unfold State.add; split <;> rfl
  refine ⟨StackRel.add h.rel ⟨x, x, false, n⟩, ?_, ?_, ?_, ?_⟩
  · simp only [flatten_jdeclare, genNames_cons, hpool]
    simpa using h.nodup
  · simp only [flatten_jdeclare, genNames_cons, hpool, hperm]
    simpa using h.gen
  · intro t ht
    simp only [flatten_jdeclare, List.mem_cons] at ht
    rcases ht with ht | ht
    · subst ht; intro _; exact ⟨rfl, hx⟩
    · exact h.kept t ht
  · rw [havoid]; exact h.avoid

theorem Good.lookupUse {S A s J} (h : Good S A s J) (x : Name) : Good S A (lookupUse s x).2 J := by
  unfold DarkluaModel.C09.lookupUse
  split
  · exact h
  · split
    · exact h
    · exact ⟨h.rel, h.nodup, h.gen, h.kept, fun n hn => List.mem_cons_of_mem _ (h.avoid n hn)⟩

/-! ### the key lemma: lookups commute -/

/-- conditions on the flat list of live declarations, innermost/latest first -/
structure FlatOk (A : List Name) (F : List Triple) : Prop where
  nodup : (genNames F).Nodup
  gen : ∀ t ∈ F, t.reuse = true → t.obf ∉ A ∧ t.obf ≠ selfName
  kept : ∀ t ∈ F, t.reuse = false → t.obf = t.real ∧ (t.real ∈ A ∨ t.real = selfName)

theorem FlatOk.tail {A t F} (h : FlatOk A (t :: F)) : FlatOk A F := by
  refine ⟨?_, fun u hu => h.gen u (List.mem_cons_of_mem _ hu),
    fun u hu => h.kept u (List.mem_cons_of_mem _ hu)⟩
  have := h.nodup
  rw [genNames_cons] at this
  split at this
  · exact (List.nodup_cons.mp this).2
  · exact this

theorem mem_genNames {F : List Triple} {t : Triple} (ht : t ∈ F) (hr : t.reuse = true) :
    t.obf ∈ genNames F := by
  unfold genNames
  simp only [List.mem_map, List.mem_filter]
  exact ⟨t, ⟨ht, hr⟩, rfl⟩

/-- a bound use: the first declaration carrying the real name is also the first declaration
carrying its output name -/
theorem find_obf_of_find_real {A : List Name} : ∀ {F : List Triple}, FlatOk A F → ∀ {x : Name} {t : Triple},
    F.find? (fun u => u.real == x) = some t → F.find? (fun u => u.obf == t.obf) = some t := by
  intro F
  induction F with
  | nil => intro _ x t h; simp at h
  | cons t0 F ih =>
    intro hok x t h
    rw [List.find?_cons] at h
    by_cases h0 : t0.real = x
    · simp only [h0, beq_self_eq_true] at h
      injection h with h
      subst h
      simp
    · have hb : (t0.real == x) = false := beq_false_of_ne h0
      simp only [hb] at h
      have iht := ih hok.tail h
      have htF : t ∈ F := List.mem_of_find?_eq_some h
      have htx : t.real = x := by simpa using List.find?_some h
      have hne : t0.obf ≠ t.obf := by
        intro he
        cases hr0 : t0.reuse <;> cases hr : t.reuse
        · -- both kept
          have a := (hok.kept t0 (by simp) hr0).1
          have b := (hok.kept t (List.mem_cons_of_mem _ htF) hr).1
          apply h0
          rw [← a, he, b, htx]
        · -- t0 kept, t generated
          have a := hok.kept t0 (by simp) hr0
          have b := hok.gen t (List.mem_cons_of_mem _ htF) hr
          rcases a.2 with a2 | a2
          · apply b.1; rw [← he, a.1]; exact a2
          · apply b.2; rw [← he, a.1]; exact a2
        · -- t0 generated, t kept
          have a := hok.gen t0 (by simp) hr0
          have b := hok.kept t (List.mem_cons_of_mem _ htF) hr
          rcases b.2 with b2 | b2
          · apply a.1; rw [he, b.1]; exact b2
          · apply a.2; rw [he, b.1]; exact b2
        · -- both generated
          have hnd := hok.nodup
          rw [genNames_cons] at hnd
          simp only [hr0, if_true] at hnd
          have := (List.nodup_cons.mp hnd).1
          apply this
          rw [he]
          exact mem_genNames htF hr
      rw [List.find?_cons]
      have hb2 : (t0.obf == t.obf) = false := beq_false_of_ne hne
      simp only [hb2]
      exact iht

/-- a global use: no declaration carries that name in the output either -/
theorem find_obf_none {A : List Name} {F : List Triple} (hok : FlatOk A F) {x : Name} (hx : x ∈ A)
    (h : F.find? (fun u => u.real == x) = none) : F.find? (fun u => u.obf == x) = none := by
  rw [List.find?_eq_none] at h ⊢
  intro t ht
  have hreal := h t ht
  simp only [beq_iff_eq] at hreal ⊢
  intro he
  cases hr : t.reuse
  · exact hreal ((hok.kept t ht hr).1 ▸ he)
  · exact (hok.gen t ht hr).1 (he ▸ hx)

theorem Good.flatOk {A s J} (h : Good (· ≠ selfName) A s J) : FlatOk A J.flatten := by
  refine ⟨(List.nodup_append.mp h.nodup).1, ?_, h.kept⟩
  intro t ht hr
  exact (h.gen t.obf (by simp [mem_genNames ht hr])).2

end DarkluaModel.C09
