import DarkluaModel.C09.Sim
/-! C09: the simulation theorem over whole event streams. -/
namespace DarkluaModel.C09

/-- the names generated at an output event satisfy `S` -/
def GenOk (S : Name → Prop) (incl : Bool) : Event → Prop
  | .insert x => S x
  | .insertLocal x => S x
  | .insertLocalFunction f => incl = true → S f
  | _ => True

/-- joint stack after one event -/
def jstep (J : List JScope) (s : State) (n : Nat) : Event → List JScope
  | .push => [] :: J
  | .pop => J.tail
  | .insert x => jdeclare J ⟨x, (replaceIdentifier s x).1, true, n⟩
  | .insertSelf => jdeclare J ⟨selfName, selfName, false, n⟩
  | .insertLocal x => jdeclare J ⟨x, (replaceIdentifier s x).1, true, n⟩
  | .insertLocalFunction f =>
    if s.incl then jdeclare J ⟨f, (replaceIdentifier s f).1, true, n⟩
    else jdeclare J ⟨f, f, false, n⟩
  | .use _ => J
  | .useType _ => J

def nstep (n : Nat) (e : Event) : Nat :=
  match declName e with
  | some _ => n + 1
  | none => n

theorem good_step {S A s J} (h : Good S A s J) (e : Event) (n : Nat)
    (hfn : ∀ f, e = .insertLocalFunction f → s.incl = false → f ∈ A)
    (hS : GenOk S s.incl (step s e).1) : Good S A (step s e).2 (jstep J s n e) := by
  cases e with
  | push => exact h.push
  | pop => exact h.pop
  | insert x => exact h.replace x n hS
  | insertSelf => exact h.addKept selfName n (Or.inr rfl)
  | insertLocal x => exact h.replace x n hS
  | insertLocalFunction f =>
    simp only [step, jstep] at hS ⊢
    cases hi : s.incl with
    | true =>
      simp only [hi, if_true] at hS ⊢
      exact h.replace f n (hS rfl)
    | false =>
      simp only [hi] at hS ⊢
      exact h.addKept f n (Or.inl (hfn f rfl hi))
  | use x => exact h.lookupUse x
  | useType x => exact h.lookupUse x

theorem projBy_tail (f : Triple → Name) (J : List JScope) : (projBy f J).tail = projBy f J.tail := by
  cases J <;> simp [projBy]

theorem rstep_projBy_decl (f : Triple → Name) (J : List JScope) (t : Triple) (n : Nat) (e : Event)
    (hne1 : e ≠ .push) (hne2 : e ≠ .pop) (hd : declName e = some (f t)) (hi : t.idx = n) :
    rstep ⟨projBy f J, n⟩ e = ⟨projBy f (jdeclare J t), n + 1⟩ := by
  have : rstep ⟨projBy f J, n⟩ e = RState.declare ⟨projBy f J, n⟩ (f t) := by
    cases e <;> simp_all [rstep, declName]
  rw [this, projBy_jdeclare f J t n hi]

theorem rstep_in (J : List JScope) (s : State) (n : Nat) (e : Event) :
    rstep ⟨projIn J, n⟩ e = ⟨projIn (jstep J s n e), nstep n e⟩ := by
  unfold projIn
  cases e with
  | push => simp [rstep, jstep, nstep, declName, projBy]
  | pop => simp [rstep, jstep, nstep, declName, projBy_tail]
  | insert x => exact rstep_projBy_decl _ J _ n _ (by simp) (by simp) rfl rfl
  | insertSelf => exact rstep_projBy_decl _ J _ n _ (by simp) (by simp) rfl rfl
  | insertLocal x => exact rstep_projBy_decl _ J _ n _ (by simp) (by simp) rfl rfl
  | insertLocalFunction f =>
    simp only [jstep]
    split
    · exact rstep_projBy_decl _ J _ n _ (by simp) (by simp) rfl rfl
    · exact rstep_projBy_decl _ J _ n _ (by simp) (by simp) rfl rfl
  | use x => simp [rstep, jstep, nstep, declName]
  | useType x => simp [rstep, jstep, nstep, declName]

theorem rstep_out (J : List JScope) (s : State) (n : Nat) (e : Event) :
    rstep ⟨projOut J, n⟩ (step s e).1 = ⟨projOut (jstep J s n e), nstep n e⟩ := by
  unfold projOut
  cases e with
  | push => simp [rstep, jstep, nstep, declName, projBy, step]
  | pop => simp [rstep, jstep, nstep, declName, projBy_tail, step]
  | insert x => exact rstep_projBy_decl _ J _ n _ (by simp [step]) (by simp [step]) rfl rfl
  | insertSelf => exact rstep_projBy_decl _ J _ n _ (by simp [step]) (by simp [step]) rfl rfl
  | insertLocal x => exact rstep_projBy_decl _ J _ n _ (by simp [step]) (by simp [step]) rfl rfl
  | insertLocalFunction f =>
    simp only [jstep, step]
    split
    · exact rstep_projBy_decl _ J _ n _ (by simp) (by simp) rfl rfl
    · exact rstep_projBy_decl _ J _ n _ (by simp) (by simp) rfl rfl
  | use x => simp [rstep, jstep, nstep, declName, step]
  | useType x => simp [rstep, jstep, nstep, declName, step]

theorem step_incl (s : State) (e : Event) : (step s e).2.incl = s.incl := by
  have hadd : ∀ (s : State) a b c, (s.add a b c).incl = s.incl := by
    intro s a b c; unfold State.add; split <;> rfl
  have hgen : ∀ s : State, (generateIdentifier s).2.incl = s.incl := by
    intro s; unfold generateIdentifier; split <;> rfl
  have hrep : ∀ (s : State) x, (replaceIdentifier s x).2.incl = s.incl := by
    intro s x; unfold replaceIdentifier; simp only [hadd, hgen]
  have hlook : ∀ (s : State) x, (lookupUse s x).2.incl = s.incl := by
    intro s x; unfold lookupUse; split
    · rfl
    · split <;> rfl
  cases e with
  | push => rfl
  | pop => simp only [step]; unfold State.pop; split <;> rfl
  | insert x => exact hrep s x
  | insertSelf => exact hadd s _ _ _
  | insertLocal x => exact hrep s x
  | insertLocalFunction f =>
    simp only [step]
    split
    · exact hrep s f
    · exact hadd s _ _ _
  | use x => exact hlook s x
  | useType x => exact hlook s x

theorem useName_step_none (s : State) (e : Event) (h : useName e = none) :
    useName (step s e).1 = none := by
  cases e with
  | insertLocalFunction f => simp only [step]; split <;> rfl
  | use x => simp [useName] at h
  | useType x => simp [useName] at h
  | _ => rfl

/-- lookups commute: the output name of a use resolves, in the output, to the declaration the
real name resolves to in the input -/
theorem use_commute {A s J} (h : Good (· ≠ selfName) A s J) (x : Name)
    (hgl : lookupStack (projIn J) x = none → x ∈ A) :
    lookupStack (projOut J) (lookupUse s x).1 = lookupStack (projIn J) x ∧
    (lookupStack (projIn J) x = none → (lookupUse s x).1 = x) := by
  unfold projIn projOut at *
  rw [lookupStack_projBy] at hgl ⊢
  rw [lookupStack_projBy]
  have hob := getObf_eq h.rel x
  unfold lookupUse
  cases hfind : J.flatten.find? (fun t => t.real == x) with
  | none =>
    rw [hfind] at hob hgl
    simp only [Option.map_none] at hob hgl
    rw [hob]
    simp only [Option.map_none, forall_const]
    have := find_obf_none h.flatOk (hgl trivial) hfind
    simp [this]
  | some t =>
    rw [hfind] at hob
    simp only [Option.map_some] at hob
    rw [hob]
    simp only [Option.map_some]
    have := find_obf_of_find_real h.flatOk hfind
    simp [this]

/-- **Simulation.**  From related states, the resolver run on the renamed stream and the
resolver run on the original stream give the same binding list and the same global names. -/
theorem sim (A : List Name) : ∀ (es : List Event) (s : State) (J : List JScope) (n : Nat),
    Good (· ≠ selfName) A s J →
    (s.incl = false → ∀ f ∈ functionNames es, f ∈ A) →
    (∀ x ∈ globalUsesFrom ⟨projIn J, n⟩ es, x ∈ A) →
    (∀ o ∈ run s es, GenOk (· ≠ selfName) s.incl o) →
    resolveFrom ⟨projOut J, n⟩ (run s es) = resolveFrom ⟨projIn J, n⟩ es ∧
    globalUsesFrom ⟨projOut J, n⟩ (run s es) = globalUsesFrom ⟨projIn J, n⟩ es := by
  intro es
  induction es with
  | nil => intro s J n _ _ _ _; simp [run, resolveFrom, globalUsesFrom]
  | cons e es ih =>
    intro s J n hgood hfn hgl hS
    have hS0 : GenOk (· ≠ selfName) s.incl (step s e).1 := hS _ (by simp [run])
    have hfn0 : ∀ f, e = .insertLocalFunction f → s.incl = false → f ∈ A := by
      intro f he hi; subst he; exact hfn hi f (by simp [functionNames])
    have hgood' := good_step hgood e n hfn0 hS0
    have hfn' : (step s e).2.incl = false → ∀ f ∈ functionNames es, f ∈ A := by
      rw [step_incl]
      intro hi f hf
      apply hfn hi
      cases e <;> simp [functionNames, hf]
    have hS' : ∀ o ∈ run (step s e).2 es, GenOk (· ≠ selfName) (step s e).2.incl o := by
      rw [step_incl]
      intro o ho
      exact hS o (by simp [run, ho])
    have hin := rstep_in J s n e
    have hout := rstep_out J s n e
    -- split on whether `e` is a use
    cases hu : useName e with
    | none =>
      have hu' : useName (step s e).1 = none := useName_step_none s e hu
      have hgl' : ∀ x ∈ globalUsesFrom ⟨projIn (jstep J s n e), nstep n e⟩ es, x ∈ A := by
        intro x hx
        apply hgl
        simp only [globalUsesFrom, hu, hin]
        exact hx
      have := ih (step s e).2 (jstep J s n e) (nstep n e) hgood' hfn' hgl' hS'
      simp only [run, resolveFrom, globalUsesFrom, hu, hu', hin, hout]
      exact this
    | some x =>
      have hx : (e = .use x ∨ e = .useType x) := by
        cases e <;> simp_all [useName]
      have hu' : useName (step s e).1 = some (lookupUse s x).1 := by
        rcases hx with hx | hx <;> subst hx <;> rfl
      have hgl0 : lookupStack (projIn J) x = none → x ∈ A := by
        intro hnone
        apply hgl
        simp only [globalUsesFrom, hu, hnone]
        simp
      obtain ⟨hc1, hc2⟩ := use_commute hgood x hgl0
      have hgl' : ∀ y ∈ globalUsesFrom ⟨projIn (jstep J s n e), nstep n e⟩ es, y ∈ A := by
        intro y hy
        apply hgl
        simp only [globalUsesFrom, hu, hin]
        cases lookupStack (projIn J) x <;> simp [hy]
      have := ih (step s e).2 (jstep J s n e) (nstep n e) hgood' hfn' hgl' hS'
      simp only [run, resolveFrom, globalUsesFrom, hu, hu', hin, hout, hc1]
      refine ⟨by rw [this.1], ?_⟩
      cases hl : lookupStack (projIn J) x with
      | none => simp only [hc2 hl, this.2]
      | some i => simp only [this.2]

/-- the invariant holds after any stream (no hypothesis on `self`) -/
theorem good_run {S : Name → Prop} (A : List Name) : ∀ (es : List Event) (s : State) (J : List JScope) (n : Nat),
    Good S A s J →
    (s.incl = false → ∀ f ∈ functionNames es, f ∈ A) →
    (∀ o ∈ run s es, GenOk S s.incl o) →
    ∃ J', Good S A (runState s es) J' := by
  intro es
  induction es with
  | nil => intro s J n h _ _; exact ⟨J, h⟩
  | cons e es ih =>
    intro s J n hgood hfn hS
    have hS0 : GenOk S s.incl (step s e).1 := hS _ (by simp [run])
    have hfn0 : ∀ f, e = .insertLocalFunction f → s.incl = false → f ∈ A := by
      intro f he hi; subst he; exact hfn hi f (by simp [functionNames])
    have hgood' := good_step hgood e n hfn0 hS0
    have hfn' : (step s e).2.incl = false → ∀ f ∈ functionNames es, f ∈ A := by
      rw [step_incl]
      intro hi f hf
      apply hfn hi
      cases e <;> simp [functionNames, hf]
    have hS' : ∀ o ∈ run (step s e).2 es, GenOk S (step s e).2.incl o := by
      rw [step_incl]
      intro o ho
      exact hS o (by simp [run, ho])
    exact ih (step s e).2 (jstep J s n e) (nstep n e) hgood' hfn' hS'

theorem GenOk.trivial (incl : Bool) (o : Event) : GenOk (fun _ => True) incl o := by
  cases o <;> simp [GenOk]

theorem replace_fst (s : State) (x : Name) : (replaceIdentifier s x).1 = (generateIdentifier s).1 := rfl

/-- no generated name is in the protected set `A` -/
theorem gen_not_avoided (A : List Name) : ∀ (es : List Event) (s : State) (J : List JScope) (n : Nat),
    Good (fun _ => True) A s J →
    (s.incl = false → ∀ f ∈ functionNames es, f ∈ A) →
    ∀ o ∈ run s es, GenOk (· ∉ A) s.incl o := by
  intro es
  induction es with
  | nil => intro s J n _ _ o ho; simp [run] at ho
  | cons e es ih =>
    intro s J n hgood hfn o ho
    simp only [run, List.mem_cons] at ho
    rcases ho with ho | ho
    · subst ho
      have hg := (generate_spec hgood).2.2.2.2.2.1
      cases e with
      | insert x => exact hg
      | insertLocal x => exact hg
      | insertLocalFunction f =>
        simp only [step]
        split
        · intro _; exact hg
        · rename_i hi; intro hc; exact absurd hc hi
      | _ => simp [step, GenOk]
    · have hfn0 : ∀ f, e = .insertLocalFunction f → s.incl = false → f ∈ A := by
        intro f he hi; subst he; exact hfn hi f (by simp [functionNames])
      have hgood' := good_step hgood e n hfn0 (GenOk.trivial _ _)
      have hfn' : (step s e).2.incl = false → ∀ f ∈ functionNames es, f ∈ A := by
        rw [step_incl]
        intro hi f hf
        apply hfn hi
        cases e <;> simp [functionNames, hf]
      have := ih (step s e).2 (jstep J s n e) (nstep n e) hgood' hfn' o ho
      rw [step_incl] at this
      exact this

theorem Good.init (S : Name → Prop) (avoid : List Name) (incl : Bool) :
    Good S (avoid ++ keywords ++ [selfName]) (State.init avoid incl) [] := by
  refine ⟨trivial, ?_, ?_, ?_, fun n hn => hn⟩
  · simp [State.init, genNames]
  · simp [State.init, genNames]
  · simp

/-- generated names of the live dictionaries -/
def liveGenerated (st : List Dict) : List Name := st.flatMap freed

theorem liveGenerated_sublist : ∀ {st : List Dict} {J : List JScope}, StackRel st J →
    (liveGenerated st).Sublist (genNames J.flatten) := by
  intro st
  induction st with
  | nil =>
    intro J h
    cases J with
    | nil => simp [liveGenerated]
    | cons _ _ => exact absurd h (by simp [StackRel])
  | cons d ds ih =>
    intro J h
    cases J with
    | nil => exact absurd h (by simp [StackRel])
    | cons sc scs =>
      simp only [liveGenerated, List.flatMap_cons, List.flatten_cons, genNames_append]
      exact (freed_sublist h.1).append (ih h.2)

end DarkluaModel.C09
