import DarkluaModel.C09.Model
/-!
# C09 — reference resolver (independent of the rename model)

Lexical scoping of an event stream, as in the Lua manual §3.5: a name occurrence refers to the
innermost enclosing live declaration of that name — in the same block the latest one — and to a
global variable when there is none.  Declarations are numbered in stream order
(`DeclIndex` = ordinal among the declaration events).  Only the `Event` type is shared with the
model.
-/
namespace DarkluaModel.C09

/-- one block: its declarations, latest first -/
abbrev RScope := List (Name × Nat)

structure RState where
  /-- open blocks, innermost first -/
  stack : List RScope
  /-- ordinal of the next declaration -/
  next : Nat
  deriving Repr

/-- the name an event declares -/
def declName : Event → Option Name
  | .insert x => some x
  | .insertSelf => some selfName
  | .insertLocal x => some x
  | .insertLocalFunction f => some f
  | _ => none

/-- the name an event uses -/
def useName : Event → Option Name
  | .use x => some x
  | .useType x => some x
  | _ => none

def lookupScope (sc : RScope) (x : Name) : Option Nat :=
  match sc.find? (fun p => p.1 == x) with
  | some p => some p.2
  | none => none

/-- innermost live declaration of `x` -/
def lookupStack : List RScope → Name → Option Nat
  | [], _ => none
  | sc :: rest, x =>
    match lookupScope sc x with
    | some i => some i
    | none => lookupStack rest x

/-- declare `x` in the innermost block (a declaration outside any block opens one; such streams
are never produced by `ScopeVisitor`) -/
def RState.declare (r : RState) (x : Name) : RState :=
  match r.stack with
  | sc :: rest => { stack := ((x, r.next) :: sc) :: rest, next := r.next + 1 }
  | [] => { stack := [[(x, r.next)]], next := r.next + 1 }

def rstep (r : RState) (e : Event) : RState :=
  match e with
  | .push => { r with stack := [] :: r.stack }
  | .pop => { r with stack := r.stack.tail }
  | e =>
    match declName e with
    | some x => r.declare x
    | none => r

/-- for every use event, in order: `some i` = bound to declaration `i`, `none` = global -/
def resolveFrom (r : RState) : List Event → List (Option Nat)
  | [] => []
  | e :: es =>
    match useName e with
    | some x => lookupStack r.stack x :: resolveFrom (rstep r e) es
    | none => resolveFrom (rstep r e) es

def RState.empty : RState := { stack := [], next := 0 }

/-- the binding graph of a stream -/
def resolve (es : List Event) : List (Option Nat) := resolveFrom RState.empty es

/-- the names of the uses that are global, in order -/
def globalUsesFrom (r : RState) : List Event → List Name
  | [] => []
  | e :: es =>
    match useName e with
    | some x =>
      match lookupStack r.stack x with
      | none => x :: globalUsesFrom (rstep r e) es
      | some _ => globalUsesFrom (rstep r e) es
    | none => globalUsesFrom (rstep r e) es

def globalUses (es : List Event) : List Name := globalUsesFrom RState.empty es

/-- names erased: the shape of a stream -/
def Event.kind : Event → Nat
  | .push => 0 | .pop => 1 | .insert _ => 2 | .insertSelf => 3 | .insertLocal _ => 4
  | .insertLocalFunction _ => 5 | .use _ => 6 | .useType _ => 7

/-- `push`/`pop` balanced and never popping below the start depth -/
def wellBracketedFrom : Nat → List Event → Bool
  | d, [] => d == 0
  | d, .push :: es => wellBracketedFrom (d + 1) es
  | 0, .pop :: _ => false
  | d + 1, .pop :: es => wellBracketedFrom d es
  | 0, _ :: _ => false  -- declarations and uses only inside a block
  | d + 1, _ :: es => wellBracketedFrom (d + 1) es

def wellBracketed (es : List Event) : Bool := wellBracketedFrom 0 es

end DarkluaModel.C09
