import DarkluaModel.C09.Main
import DarkluaModel.C09.Globals
import DarkluaModel.C09.SelfWitness
import DarkluaModel.C09.SortOrder
/-!
# C09 — theorems: renaming variables never changes which binding a name refers to

All statements are about the model functions the driver executes (`renameRule`, `run`, `step`,
`generateFresh`, `permNth`, `collectGlobals`) and the reference resolver of `Spec.lean`
(`resolve`, `globalUses`).  They hold for **every** event stream (no bound, not even
well-bracketedness: the resolver treats an unmatched `pop` / a declaration outside any block the
way `RenameProcessor` does, and `ScopeVisitor` never produces such streams).
-/
namespace DarkluaModel.C09

/-! ## Permutator -/

/-- `identifier_permutator()` never returns the same string twice. -/
theorem permutator_injective (i j : Nat) (h : permNth i = permNth j) : i = j := by
  have := display_injective h
  have h2 := congrArg permVal this
  rw [permVal_permState, permVal_permState] at h2
  omega

example : permNth 0 = ['a'] ∧ permNth 62 = ['9'] ∧ permNth 63 = ['a', 'a'] ∧ permNth 64 = ['a', 'b'] := by
  decide

/-- `generate_identifier` terminates: from every permutator state and for every (finite) avoid
set the retry loop stops, at the **first** string at or after the current position that
`filter_identifier` accepts; the fuel of the model (`fuelBound`) is never exhausted. -/
theorem permutator_eventually_valid (p : Digits) (avoid : List Name) :
    ∃ q, generateFresh p avoid = (display q, incr q) ∧ permVal p ≤ permVal q ∧
      filterIdentifier avoid (display q) = true ∧
      ∀ r, permVal p ≤ permVal r → permVal r < permVal q →
        filterIdentifier avoid (display r) = false :=
  generateFresh_spec p avoid

example : (generateFresh permStart (['a'] :: ['b'] :: keywords)).1 = ['c'] := by decide

/-- `is_valid_identifier` of `process/utils/mod.rs` on ASCII names -/
def isValidIdentifier (n : Name) : Bool :=
  !n.isEmpty
    && (match n with | c :: _ => !c.isDigit | [] => true)
    && n.all (fun c => c.isAlpha || c == '_' || c.isDigit)
    && !keywords.contains n

theorem alphaChar_nameChar : ∀ d : Fin 63,
    ((alphaChar d).isAlpha || alphaChar d == '_' || (alphaChar d).isDigit) = true := by decide

/-- every string the retry loop accepts is a valid identifier (the avoid set of
`RenameProcessor::new` always contains the keywords) -/
theorem generated_is_valid_identifier (avoid : List Name) (q : Digits) (hq : q ≠ [])
    (hk : ∀ k ∈ keywords, k ∈ avoid) (hf : filterIdentifier avoid (display q) = true) :
    isValidIdentifier (display q) = true := by
  have hne : display q ≠ [] := by
    intro he; apply hq
    have := congrArg List.length he
    rw [display_length] at this
    exact List.eq_nil_of_length_eq_zero this
  have hnk : display q ∉ keywords := fun hc => filter_not_mem hf (hk _ hc)
  have hall : (display q).all (fun c => c.isAlpha || c == '_' || c.isDigit) = true := by
    simp only [display, List.all_eq_true, List.mem_map, List.mem_reverse]
    rintro c ⟨d, _, rfl⟩
    exact alphaChar_nameChar d
  unfold filterIdentifier at hf
  unfold isValidIdentifier
  cases hd : display q with
  | nil => exact absurd hd hne
  | cons c cs =>
    rw [hd] at hf hall hnk
    simp only [Bool.and_eq_true, Bool.not_eq_true'] at hf
    simp [hf.2, hall, hnk]

example : isValidIdentifier (display [0, 0]) = true := by decide

/-! ## The pre-pass -/

/-- `CollectGlobalsProcessor` returns exactly the names the reference resolver maps to
"global", in order of occurrence. -/
theorem collect_globals_complete (es : List Event) : collectGlobals es = globalUses es :=
  collectGlobalsFrom_eq es [] RState.empty trivial

example : collectGlobals [.push, .use ['g'], .insertLocal ['x'], .use ['x'], .pop, .use ['x']]
    = [['g'], ['x']] := by decide

/-! ## Invariant -/

/-- the protected names: configured globals, kept local-function names, collected globals,
keywords and `self` (the initial `avoid_identifier` of `RenameProcessor::new`) -/
def protectedNames (cfg : Config) (es : List Event) : List Name :=
  avoidList cfg es ++ keywords ++ [selfName]

/-- **Invariant**, after any stream: the generated names held by the live dictionaries and the
reuse pool are pairwise distinct (so the pool holds only dead names and no two live generated
names coincide); each of them was produced by the permutator strictly before its current
position (so a fresh name differs from all of them) and is not protected; entries with
`reuse = false` keep their name; the protected names stay in `avoid_identifier`. -/
theorem rename_inv (cfg : Config) (es : List Event) :
    let s := renameRuleState cfg es
    (liveGenerated s.stack ++ s.pool).Nodup ∧
    (∀ n ∈ liveGenerated s.stack ++ s.pool,
        n ∉ protectedNames cfg es ∧ ∃ q, permVal q < permVal s.perm ∧ n = display q) ∧
    (∀ n ∈ protectedNames cfg es, n ∈ s.avoid) := by
  intro s
  have hfn : (State.init (avoidList cfg es) cfg.includeFunctions).incl = false →
      ∀ f ∈ functionNames es, f ∈ protectedNames cfg es := by
    intro hi f hf
    have hi' : cfg.includeFunctions = false := hi
    simp [protectedNames, avoidList, hi', hf]
  obtain ⟨J, hJ⟩ := good_run (S := fun _ => True) (protectedNames cfg es) es
    (State.init (avoidList cfg es) cfg.includeFunctions) [] 0 (Good.init _ _ _) hfn
    (fun o _ => GenOk.trivial _ o)
  have hJ' : Good (fun _ => True) (protectedNames cfg es) s J := hJ
  have hsub : (liveGenerated s.stack ++ s.pool).Sublist (genNames J.flatten ++ s.pool) :=
    (liveGenerated_sublist hJ'.rel).append (List.Sublist.refl _)
  refine ⟨hsub.nodup hJ'.nodup, ?_, hJ'.avoid⟩
  intro n hn
  have := hJ'.gen n (hsub.subset hn)
  exact ⟨this.2.1, this.1⟩

example : (renameRuleState ⟨[], false, true⟩
    [.push, .push, .insertLocal ['x'], .insertLocal ['y'], .pop, .insertLocal ['z']]).pool = [['b']] := by
  decide

/-- On names over the generated alphabet the re-sort of `pop` yields a list that depends only on
the *set* of names: any two orders in which `HashMap::into_values` may hand back the freed names
give the same pool. -/
theorem sortDesc_order_independent (l₁ l₂ : List Name) (h : l₁.Perm l₂) (ha : ∀ z ∈ l₁, Alpha z) :
    sortDesc l₁ = sortDesc l₂ := by
  have ha2 : ∀ z ∈ l₂, Alpha z := fun z hz => ha z (h.mem_iff.mpr hz)
  exact List.Perm.eq_of_pairwise (le := Ge) (fun a b _ _ h1 h2 => h1.antisymm h2)
    (sortDesc_sorted l₁ ha) (sortDesc_sorted l₂ ha2)
    ((sortDesc_perm l₁).trans (h.trans (sortDesc_perm l₂).symm))

/-- In every reachable state, `pop` computes the same pool whatever the iteration order of the
dropped dictionary (the model iterates in insertion order; `HashMap` in an arbitrary one). -/
theorem pop_order_independent (cfg : Config) (es : List Event) (d : Dict) (rest : List Dict)
    (hst : (renameRuleState cfg es).stack = d :: rest) (vs : List Name) (hv : vs.Perm (freed d)) :
    sortDesc ((renameRuleState cfg es).pool ++ vs) = (renameRuleState cfg es).pop.pool := by
  have hinv := (rename_inv cfg es).2.1
  have hpop : (renameRuleState cfg es).pop.pool
      = sortDesc ((renameRuleState cfg es).pool ++ freed d) := by
    unfold State.pop; rw [hst]
  rw [hpop]
  apply sortDesc_order_independent _ _ (List.Perm.append_left _ hv)
  intro z hz
  have hz' : z ∈ liveGenerated (renameRuleState cfg es).stack ++ (renameRuleState cfg es).pool := by
    rcases List.mem_append.mp hz with h | h
    · exact List.mem_append.mpr (Or.inr h)
    · refine List.mem_append.mpr (Or.inl ?_)
      rw [hst]
      simp only [liveGenerated, List.flatMap_cons, List.mem_append]
      exact Or.inl (hv.mem_iff.mp h)
  obtain ⟨_, q, _, rfl⟩ := hinv z hz'
  exact alpha_display q

example : sortDesc [['a'], ['_'], ['B'], ['a', 'a'], ['0', 'x']] = [['0', 'x'], ['_'], ['B'], ['a', 'a'], ['a']] := by
  decide

/-- No new name is a keyword, a listed global, a kept local-function name or a global the file
uses: every name written at a renamed declaration is outside `protectedNames`. -/
theorem rename_generated_not_protected (cfg : Config) (es : List Event) :
    ∀ o ∈ renameRule cfg es, GenOk (· ∉ protectedNames cfg es) cfg.includeFunctions o := by
  have hfn : (State.init (avoidList cfg es) cfg.includeFunctions).incl = false →
      ∀ f ∈ functionNames es, f ∈ protectedNames cfg es := by
    intro hi f hf
    have hi' : cfg.includeFunctions = false := hi
    simp [protectedNames, avoidList, hi', hf]
  exact gen_not_avoided (protectedNames cfg es) es
    (State.init (avoidList cfg es) cfg.includeFunctions) [] 0 (Good.init _ _ _) hfn

/-- with global detection on, the globals of the file are protected -/
theorem globals_protected (cfg : Config) (es : List Event) (hd : cfg.detectGlobals = true) :
    ∀ x ∈ globalUses es, x ∈ protectedNames cfg es := by
  intro x hx
  simp [protectedNames, avoidList, hd, collect_globals_complete, hx]

/-! ## Shape: only names at renamed sites change -/

theorem step_kind (s : State) (e : Event) : (step s e).1.kind = e.kind := by
  cases e with
  | insertLocalFunction f => simp only [step]; split <;> rfl
  | _ => rfl

/-- The output stream has the shape of the input stream; `insert_self` stays `insert_self`
(the implicit `self` is untouched) and, without `include_functions`, local function names
are unchanged. -/
theorem rename_shape (cfg : Config) (es : List Event) :
    (renameRule cfg es).map Event.kind = es.map Event.kind := by
  unfold renameRule
  generalize State.init (avoidList cfg es) cfg.includeFunctions = s
  induction es generalizing s with
  | nil => rfl
  | cons e es ih => simp only [run, List.map_cons, step_kind, ih]

theorem run_kept (s : State) (es : List Event) (k : Nat) (e : Event) (he : es[k]? = some e)
    (hk : e = .insertSelf ∨ e = .push ∨ e = .pop ∨ (s.incl = false ∧ ∃ f, e = .insertLocalFunction f)) :
    (run s es)[k]? = some e := by
  induction es generalizing s k with
  | nil => simp at he
  | cons e0 es ih =>
    cases k with
    | zero =>
      simp only [List.getElem?_cons_zero, Option.some.injEq] at he
      subst he
      simp only [run, List.getElem?_cons_zero, Option.some.injEq]
      rcases hk with h | h | h | ⟨hi, f, h⟩
      · subst h; simp [step]
      · subst h; simp [step]
      · subst h; simp [step]
      · subst h; simp [step, hi]
    | succ k =>
      simp only [List.getElem?_cons_succ] at he
      simp only [run, List.getElem?_cons_succ]
      exact ih _ _ he (by rw [step_incl]; exact hk)

/-- events that are not renamed are reproduced verbatim at the same position -/
theorem rename_kept (cfg : Config) (es : List Event) (k : Nat) (e : Event) (he : es[k]? = some e)
    (hk : e = .insertSelf ∨ e = .push ∨ e = .pop ∨
      (cfg.includeFunctions = false ∧ ∃ f, e = .insertLocalFunction f)) :
    (renameRule cfg es)[k]? = some e :=
  run_kept _ es k e he hk

/-! ## Headline -/

/-- what the pre-pass provides: global detection is on, or every global the stream uses is a
configured global -/
def HGlobals (cfg : Config) (es : List Event) : Bool :=
  cfg.detectGlobals || (globalUses es).all (fun x => cfg.globals.contains x)

/-- the name `self` is not generated on this run (`self` is the 4 771 500-th string of the
permutator; before the fix of F09a the code did not exclude it and this was a hypothesis) -/
def Hself (cfg : Config) (es : List Event) : Bool :=
  selfNotGenerated cfg.includeFunctions (renameRule cfg es)

theorem genOk_of_selfNotGenerated {incl : Bool} {out : List Event}
    (h : selfNotGenerated incl out = true) : ∀ o ∈ out, GenOk (· ≠ selfName) incl o := by
  intro o ho
  unfold selfNotGenerated at h
  rw [List.all_eq_true] at h
  have := h o ho
  cases o <;> simp_all [GenOk]
  rename_i f
  intro hi
  rcases this with h | h
  · simp [hi] at h
  · exact h

/-- the simulation instantiated at the rule, still carrying the hypothesis that `self` is not
generated (discharged below: `self_never_generated`) -/
theorem rename_preserves_binding_of_hself (cfg : Config) (es : List Event)
    (hg : HGlobals cfg es = true) (hs : Hself cfg es = true) :
    resolve (renameRule cfg es) = resolve es ∧ globalUses (renameRule cfg es) = globalUses es := by
  have hfn : (State.init (avoidList cfg es) cfg.includeFunctions).incl = false →
      ∀ f ∈ functionNames es, f ∈ protectedNames cfg es := by
    intro hi f hf
    have hi' : cfg.includeFunctions = false := hi
    simp [protectedNames, avoidList, hi', hf]
  have hgl : ∀ x ∈ globalUsesFrom ⟨projIn [], 0⟩ es, x ∈ protectedNames cfg es := by
    intro x hx
    have hx' : x ∈ globalUses es := hx
    unfold HGlobals at hg
    rw [Bool.or_eq_true] at hg
    rcases hg with hg | hg
    · exact globals_protected cfg es hg x hx'
    · rw [List.all_eq_true] at hg
      have := hg x hx'
      simp only [List.contains_eq_mem, decide_eq_true_eq] at this
      simp [protectedNames, avoidList, this]
  exact sim (protectedNames cfg es) es (State.init (avoidList cfg es) cfg.includeFunctions) [] 0
    (Good.init _ _ _) hfn hgl (genOk_of_selfNotGenerated hs)

/-- `self` is protected, hence never generated: the former hypothesis `Hself` holds on every run
(fix of F09a: `RenameProcessor::new` puts `self` into `avoid_identifier`). -/
theorem self_never_generated (cfg : Config) (es : List Event) : Hself cfg es = true := by
  have h : selfName ∈ protectedNames cfg es := by simp [protectedNames]
  unfold Hself selfNotGenerated
  rw [List.all_eq_true]
  intro o ho
  have := rename_generated_not_protected cfg es o ho
  cases o with
  | insert x =>
    simp only [GenOk] at this
    simp only [bne_iff_ne, ne_eq]
    intro he; exact this (he ▸ h)
  | insertLocal x =>
    simp only [GenOk] at this
    simp only [bne_iff_ne, ne_eq]
    intro he; exact this (he ▸ h)
  | insertLocalFunction f =>
    simp only [GenOk] at this
    cases hi : cfg.includeFunctions with
    | false => simp
    | true =>
      simp only [Bool.not_true, Bool.false_or, bne_iff_ne, ne_eq]
      intro he; exact this hi (he ▸ h)
  | _ => rfl

/-- **Renaming preserves the binding graph** (full strength since the fix of F09a).  For every
event stream and every configuration inside `HGlobals`: each use refers, in the output, to the
same declaration (or is global, exactly as before), and the global uses keep their names. -/
theorem rename_preserves_binding (cfg : Config) (es : List Event) (hg : HGlobals cfg es = true) :
    resolve (renameRule cfg es) = resolve es ∧ globalUses (renameRule cfg es) = globalUses es :=
  rename_preserves_binding_of_hself cfg es hg (self_never_generated cfg es)

/-- regression for F09a: every member of the former witness family
`function t:m() local x … (N times) return self end` keeps its binding graph — `self` still
refers to the implicit parameter (declaration 0), for every `N`. -/
theorem rename_self_witness_fixed (N : Nat) :
    resolve (renameRule witnessCfg (selfWitness N)) = [some 0] := by
  rw [(rename_preserves_binding witnessCfg (selfWitness N) rfl).1, resolve_selfWitness]

example : resolve (renameRule witnessCfg (selfWitness 70)) = [some 0] ∧
    (renameRule witnessCfg (selfWitness 70)).getLast? = some (.use selfName) := by
  decide +kernel

/-- non-vacuity: shadowing, a closure-like nested scope, reuse after a scope closes, a global
named like the first generated name, a method with implicit `self` -/
def sampleStream : List Event :=
  [.push, .insertLocal ['x'], .push, .insertLocal ['x'], .use ['x'], .use ['a'], .pop,
   .use ['x'], .use ['t'], .push, .insertSelf, .insert ['p'], .push, .use ['s','e','l','f'],
   .use ['p'], .use ['x'], .pop, .pop, .insertLocalFunction ['f'], .push, .push, .use ['f'],
   .pop, .pop, .pop]

example : HGlobals ⟨[], false, true⟩ sampleStream = true ∧ Hself ⟨[], false, true⟩ sampleStream = true ∧
    resolve sampleStream = [some 1, none, some 0, none, some 2, some 3, some 0, some 4] ∧
    renameRule ⟨[], false, true⟩ sampleStream ≠ sampleStream := by decide

end DarkluaModel.C09
