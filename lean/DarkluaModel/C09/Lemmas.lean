import DarkluaModel.C09.Model
import DarkluaModel.C09.Spec
/-! Helper lemmas for C09 (core only). -/
namespace DarkluaModel.C09

/-! ### Permutator -/

theorem permVal_incr (p : Digits) : permVal (incr p) = permVal p + 1 := by
  induction p with
  | nil => simp [incr, permVal]
  | cons d ds ih =>
    unfold incr
    split
    · simp [permVal]; omega
    · have := d.isLt
      simp [permVal, ih]; omega

theorem permVal_injective : ∀ {p q : Digits}, permVal p = permVal q → p = q := by
  intro p
  induction p with
  | nil =>
    intro q h
    cases q with
    | nil => rfl
    | cons e es => simp [permVal] at h; omega
  | cons d ds ih =>
    intro q h
    cases q with
    | nil => simp [permVal] at h
    | cons e es =>
      simp only [permVal] at h
      have hd := d.isLt
      have he := e.isLt
      have h1 : d.val = e.val := by omega
      have h2 : permVal ds = permVal es := by omega
      rw [ih h2, Fin.ext h1]

theorem permVal_permState (n : Nat) : permVal (permState n) = n + 1 := by
  induction n with
  | zero => simp [permState, permStart, permVal]
  | succ n ih => simp [permState, permVal_incr, ih]

/-- index of a character in the alphabet -/
def alphaIdx (c : Char) : Nat := alphabet.idxOf c

theorem alphaIdx_alphaChar : ∀ d : Fin 63, alphaIdx (alphaChar d) = d.val := by decide

theorem alphaChar_injective {a b : Fin 63} (h : alphaChar a = alphaChar b) : a = b := by
  apply Fin.ext
  rw [← alphaIdx_alphaChar a, ← alphaIdx_alphaChar b, h]

theorem map_alphaChar_injective : ∀ {p q : Digits}, p.map alphaChar = q.map alphaChar → p = q := by
  intro p
  induction p with
  | nil => intro q h; cases q <;> simp_all
  | cons d ds ih =>
    intro q h
    cases q with
    | nil => simp at h
    | cons e es =>
      simp only [List.map_cons, List.cons.injEq] at h
      rw [alphaChar_injective h.1, ih h.2]

theorem display_injective {p q : Digits} (h : display p = display q) : p = q := by
  unfold display at h
  have := map_alphaChar_injective h
  simpa using this

theorem display_length (p : Digits) : (display p).length = p.length := by simp [display]

/-- the name was produced by the permutator before state `p` -/
def Old (p : Digits) (n : Name) : Prop := ∃ q, permVal q < permVal p ∧ n = display q

theorem Old.mono {p p' : Digits} {n : Name} (h : Old p n) (hp : permVal p ≤ permVal p') : Old p' n := by
  obtain ⟨q, hq, rfl⟩ := h
  exact ⟨q, by omega, rfl⟩

theorem Old.ne_display {p q : Digits} {n : Name} (h : Old p n) (hq : permVal p ≤ permVal q) :
    n ≠ display q := by
  obtain ⟨r, hr, rfl⟩ := h
  intro he
  have := display_injective he
  subst this
  omega

/-! ### `generate_identifier` terminates -/

def lo (L : Nat) : Nat := permVal (List.replicate L (0 : Fin 63))

theorem lo_succ (L : Nat) : lo (L + 1) = 1 + 63 * lo L := by
  simp [lo, List.replicate_succ, permVal]

theorem lo_mono {a b : Nat} (h : a ≤ b) : lo a ≤ lo b := by
  induction b with
  | zero => have : a = 0 := by omega
            subst this; exact Nat.le_refl _
  | succ b ih =>
    by_cases hab : a = b + 1
    · subst hab; exact Nat.le_refl _
    · have := ih (by omega)
      rw [lo_succ]; omega

theorem permVal_le_of_length (p : Digits) : permVal p ≤ 63 * lo p.length := by
  induction p with
  | nil => simp [permVal, lo]
  | cons d ds ih =>
    have := d.isLt
    simp only [permVal, List.length_cons, lo_succ]
    omega

theorem permVal_lt_lo {p : Digits} {m : Nat} (h : p.length < m) : permVal p < lo m := by
  have h1 := permVal_le_of_length p
  have h2 : lo (p.length + 1) ≤ lo m := lo_mono (by omega)
  rw [lo_succ] at h2
  omega

theorem alphaChar_zero : alphaChar (0 : Fin 63) = 'a' := by decide

theorem display_replicate (m : Nat) : display (List.replicate m (0 : Fin 63)) = List.replicate m 'a' := by
  simp [display, alphaChar_zero]

theorem not_mem_of_maxLen_lt {avoid : List Name} {n : Name} (h : maxLen avoid < n.length) :
    n ∉ avoid := by
  induction avoid with
  | nil => simp
  | cons a as ih =>
    simp only [maxLen] at h
    simp only [List.mem_cons, not_or]
    constructor
    · intro he; subst he; omega
    · exact ih (by omega)

theorem filter_target (avoid : List Name) (m : Nat) (h : maxLen avoid < m) :
    filterIdentifier avoid (display (List.replicate m (0 : Fin 63))) = true := by
  rw [display_replicate]
  have hn : List.replicate m 'a' ∉ avoid := not_mem_of_maxLen_lt (by simpa using h)
  cases m with
  | zero => omega
  | succ m =>
    have hd : ('a' : Char).isDigit = false := by decide
    simp only [filterIdentifier, List.contains_eq_mem, List.replicate_succ, hd] at hn ⊢
    simp [hn]

/-- the retry loop, given a later accepted state within the fuel, stops at the **first**
accepted state at or after `p` -/
theorem generateLoop_spec (avoid : List Name) (t : Digits)
    (ht : filterIdentifier avoid (display t) = true) :
    ∀ (fuel : Nat) (p : Digits), permVal p ≤ permVal t → permVal t - permVal p < fuel →
      ∃ q, generateLoop fuel p avoid = (display q, incr q) ∧ permVal p ≤ permVal q ∧
        permVal q ≤ permVal t ∧ filterIdentifier avoid (display q) = true ∧
        ∀ r, permVal p ≤ permVal r → permVal r < permVal q →
          filterIdentifier avoid (display r) = false := by
  intro fuel
  induction fuel with
  | zero => intro p _ h; omega
  | succ fuel ih =>
    intro p hle hlt
    unfold generateLoop
    by_cases hf : filterIdentifier avoid (display p) = true
    · simp only [hf, if_true]
      exact ⟨p, rfl, Nat.le_refl _, hle, hf, fun r h1 h2 => by omega⟩
    · simp only [hf]
      have hne : permVal p ≠ permVal t := by
        intro he
        have := permVal_injective he
        subst this
        exact hf ht
      have hinc := permVal_incr p
      obtain ⟨q, h1, h2, h3, h4, h5⟩ := ih (incr p) (by omega) (by omega)
      refine ⟨q, ?_, by omega, h3, h4, ?_⟩
      · simpa using h1
      · intro r hr1 hr2
        by_cases hrp : permVal r = permVal p
        · have := permVal_injective hrp
          subst this
          simpa using hf
        · exact h5 r (by omega) hr2

theorem generateFresh_spec (p : Digits) (avoid : List Name) :
    ∃ q, generateFresh p avoid = (display q, incr q) ∧ permVal p ≤ permVal q ∧
      filterIdentifier avoid (display q) = true ∧
      ∀ r, permVal p ≤ permVal r → permVal r < permVal q →
        filterIdentifier avoid (display r) = false := by
  obtain ⟨m, hm⟩ : ∃ m, m = max p.length (maxLen avoid) + 1 := ⟨_, rfl⟩
  have ht := filter_target avoid m (by omega)
  have hlt : permVal p < permVal (List.replicate m (0 : Fin 63)) := permVal_lt_lo (m := m) (by omega)
  obtain ⟨q, h1, h2, _, h4, h5⟩ :=
    generateLoop_spec avoid (List.replicate m (0 : Fin 63)) ht (fuelBound p avoid) p (by omega)
      (by unfold fuelBound; rw [← hm]; omega)
  exact ⟨q, h1, h2, h4, h5⟩

end DarkluaModel.C09
