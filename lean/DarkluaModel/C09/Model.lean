/-!
# C09 — model of darklua's `rename_variables` rule

Rust sources mirrored here (all under `/repo/src`):

* `process/scope_visitor.rs`  — `ScopeVisitor` turns a program into a sequence of calls on a
  `NodeProcessor + Scope`.  `RenameProcessor` overrides exactly eight of them; that sequence is
  the **event stream** (`Event`).
* `rules/rename_variables/rename_processor.rs` — `RenameProcessor` (`step`, `run`).
* `process/utils/permutator.rs`, `process/utils/mod.rs` — `identifier_permutator`, `KEYWORDS`.
* `process/processors/collect_globals.rs` — `CollectGlobalsProcessor` (`collectGlobals`).
* `rules/rename_variables/function_names.rs` — `CollectFunctionNames` (`functionNames`).
* `rules/rename_variables/mod.rs` — `RenameVariables::flawless_process` (`renameRule`).

Core only (no Std/Mathlib import needed).
-/
namespace DarkluaModel.C09

/-- identifiers are character lists (string literals do not reduce in the kernel) -/
abbrev Name := List Char

/-- What `RenameProcessor` reacts to (`impl Scope` + `impl NodeProcessor`), in the order
`ScopeVisitor` issues the calls. -/
inductive Event where
  /-- `Scope::push` -/
  | push
  /-- `Scope::pop` -/
  | pop
  /-- `Scope::insert` (function parameters, for-loop variables) -/
  | insert (x : Name)
  /-- `Scope::insert_self` (function statement with a method name) -/
  | insertSelf
  /-- `Scope::insert_local` (each variable of a `local` statement, after its values) -/
  | insertLocal (x : Name)
  /-- `Scope::insert_local_function` -/
  | insertLocalFunction (f : Name)
  /-- `NodeProcessor::process_variable_expression` (identifier expression, assignment
  target, root of a function statement name) -/
  | use (x : Name)
  /-- `NodeProcessor::process_type_field` (namespace identifier of `namespace.Type`) -/
  | useType (x : Name)
  deriving DecidableEq, Repr, Inhabited

/-! ## Permutator (`process/utils/permutator.rs`, `identifier_permutator`) -/

/-- `identifier_permutator`: the character set, in producer order. -/
def alphabet : List Char :=
  ['a','b','c','d','e','f','g','h','i','j','k','l','m','n','o','p','q','r','s','t','u','v','w','x','y','z',
   'A','B','C','D','E','F','G','H','I','J','K','L','M','N','O','P','Q','R','S','T','U','V','W','X','Y','Z',
   '_','0','1','2','3','4','5','6','7','8','9']

/-- State of `Permutator`: the string that the next call of `next()` returns, as alphabet
indices, **last character first**.  (Rust keeps `root` + a stack of char iterators; the
iterator positions are exactly these indices.) -/
abbrev Digits := List (Fin 63)

def alphaChar (d : Fin 63) : Char := alphabet.getD d.val 'a'

/-- the string a permutator state stands for -/
def display (p : Digits) : Name := p.reverse.map alphaChar

/-- `Permutator::next` advances: last character to the next one of the set; when exhausted, carry
into the root; when the root is exhausted the length grows by one (all `a`). -/
def incr : Digits → Digits
  | [] => [0]
  | d :: ds => if h : d.val + 1 < 63 then ⟨d.val + 1, h⟩ :: ds else (0 : Fin 63) :: incr ds

/-- `Permutator::new`: the first string returned is `"a"`. -/
def permStart : Digits := [0]

/-- state after `n` calls of `next()` -/
def permState : Nat → Digits
  | 0 => permStart
  | n + 1 => incr (permState n)

/-- the `n`-th string (0-based) returned by `identifier_permutator()` -/
def permNth (n : Nat) : Name := display (permState n)

/-- position of a state in the enumeration (bijective base 63), `permVal permStart = 1` -/
def permVal : Digits → Nat
  | [] => 0
  | d :: ds => d.val + 1 + 63 * permVal ds

/-! ## `process/utils/mod.rs` -/

/-- `KEYWORDS` -/
def keywords : List Name :=
  [['a','n','d'], ['b','r','e','a','k'], ['d','o'], ['e','l','s','e'], ['e','l','s','e','i','f'],
   ['e','n','d'], ['f','a','l','s','e'], ['f','o','r'], ['f','u','n','c','t','i','o','n'], ['i','f'],
   ['i','n'], ['l','o','c','a','l'], ['n','i','l'], ['n','o','t'], ['o','r'],
   ['r','e','p','e','a','t'], ['r','e','t','u','r','n'], ['t','h','e','n'], ['t','r','u','e'],
   ['u','n','t','i','l'], ['w','h','i','l','e']]

def selfName : Name := ['s','e','l','f']

/-! ## `RenameProcessor` -/

/-- value of `real_to_obfuscated` dictionaries: `real ↦ (obfuscated, reuse)` -/
structure Entry where
  real : Name
  obf : Name
  reuse : Bool
  deriving DecidableEq, Repr

/-- one `HashMap<String, (String, bool)>` (keys unique; newest first) -/
abbrev Dict := List Entry

/-- `HashMap::insert` (replaces the entry of an existing key) -/
def Dict.insert (d : Dict) (e : Entry) : Dict := e :: d.filter (fun o => o.real != e.real)

/-- `HashMap::get` -/
def Dict.get? (d : Dict) (x : Name) : Option Entry := d.find? (fun o => o.real == x)

structure State where
  /-- `real_to_obfuscated`, **innermost (last pushed) first** -/
  stack : List Dict
  /-- `permutator` -/
  perm : Digits
  /-- `avoid_identifier` -/
  avoid : List Name
  /-- `reuse_identifiers` in `Vec` order (`pop()` takes the last) -/
  pool : List Name
  /-- `include_functions` -/
  incl : Bool
  deriving Repr

/-- `RenameProcessor::new`: the given names, `KEYWORDS`, and (fix of F09a) `self` -/
def State.init (avoid : List Name) (incl : Bool) : State :=
  { stack := [], perm := permStart, avoid := avoid ++ keywords ++ [selfName], pool := [],
    incl := incl }

/-- `RenameProcessor::add` -/
def State.add (s : State) (real obf : Name) (reuse : Bool) : State :=
  match s.stack with
  | d :: rest => { s with stack := d.insert ⟨real, obf, reuse⟩ :: rest }
  | [] => { s with stack := [[⟨real, obf, reuse⟩]] }

/-- `RenameProcessor::get_obfuscated_name` -/
def getObfuscatedName : List Dict → Name → Option Name
  | [], _ => none
  | d :: rest, x =>
    match d.get? x with
    | some e => some e.obf
    | none => getObfuscatedName rest x

/-- `RenameProcessor::filter_identifier` -/
def filterIdentifier (avoid : List Name) (identifier : Name) : Bool :=
  !avoid.contains identifier && !(match identifier with | c :: _ => c.isDigit | [] => false)

/-- longest name of a list -/
def maxLen : List Name → Nat
  | [] => 0
  | n :: ns => max n.length (maxLen ns)

/-- enough iterations for the retry loop of `generate_identifier`: the distance from `p` to the
string `aa…a` that is longer than `p` and than every avoided name (theorem
`permutator_eventually_valid`) -/
def fuelBound (p : Digits) (avoid : List Name) : Nat :=
  permVal (List.replicate (max p.length (maxLen avoid) + 1) (0 : Fin 63)) - permVal p + 1

/-- the retry loop of `RenameProcessor::generate_identifier` (`permutator.next()` until
`filter_identifier` accepts); the `0` case is never reached from `generateFresh` -/
def generateLoop : Nat → Digits → List Name → Name × Digits
  | 0, p, _ => (display p, incr p)
  | fuel + 1, p, avoid =>
    if filterIdentifier avoid (display p) then (display p, incr p)
    else generateLoop fuel (incr p) avoid

def generateFresh (p : Digits) (avoid : List Name) : Name × Digits :=
  generateLoop (fuelBound p avoid) p avoid

/-- `RenameProcessor::generate_identifier` -/
def generateIdentifier (s : State) : Name × State :=
  match s.pool.getLast? with
  | some identifier => (identifier, { s with pool := s.pool.dropLast })
  | none =>
    let r := generateFresh s.perm s.avoid
    (r.1, { s with perm := r.2 })

/-- `RenameProcessor::replace_identifier`: returns the new name written into the AST -/
def replaceIdentifier (s : State) (original : Name) : Name × State :=
  let r := generateIdentifier s
  (r.1, r.2.add original r.1 true)

/-- `sort_char` (on the generated alphabet `is_lowercase`/`is_uppercase` are the ASCII tests) -/
def sortChar (a b : Char) : Ordering :=
  if a = b then .eq
  else if (a.isDigit && b.isDigit) || (a.isLower && b.isLower) || (a.isUpper && b.isUpper) then
    compare a b
  else if a.isDigit then .gt
  else if b.isDigit then .lt
  else if a = '_' then .gt
  else if b = '_' then .lt
  else if a.isLower then .lt
  else if b.isLower then .gt
  else .eq

/-- `sort_identifiers` -/
def sortIdentifiers : Name → Name → Ordering
  | [], [] => .eq
  | [], _ :: _ => .lt
  | _ :: _, [] => .gt
  | a :: as, b :: bs =>
    match sortChar a b with
    | .lt => .lt
    | .gt => .gt
    | .eq => sortIdentifiers as bs

/-- stable insertion into a list sorted by `sort_identifiers(a, b).reverse()` -/
def insertDesc (x : Name) : List Name → List Name
  | [] => [x]
  | y :: ys =>
    -- `x` stood before `y`; it moves behind `y` only when the reversed comparison puts `y`
    -- strictly first: `sort_identifiers(y, x).reverse() == Less`
    if sortIdentifiers y x == .gt then y :: insertDesc x ys else x :: y :: ys

/-- `reuse_identifiers.sort_by(|a, b| sort_identifiers(a, b).reverse())` (stable) -/
def sortDesc : List Name → List Name
  | [] => []
  | x :: xs => insertDesc x (sortDesc xs)

/-- the names a dropped dictionary gives back (`filter_map(|(name, reuse)| reuse.then_some(name))`) -/
def freed (d : Dict) : List Name := (d.filter (·.reuse)).map (·.obf)

/-- `impl Scope for RenameProcessor: pop` -/
def State.pop (s : State) : State :=
  match s.stack with
  | d :: rest => { s with stack := rest, pool := sortDesc (s.pool ++ freed d) }
  | [] => s

/-- `process_variable_expression` / `process_type_field`: the name written back and the state -/
def lookupUse (s : State) (x : Name) : Name × State :=
  match getObfuscatedName s.stack x with
  | some o => (o, s)
  | none => (x, if s.avoid.contains x then s else { s with avoid := x :: s.avoid })

/-- one call on the processor: the event as it reads afterwards in the AST, and the new state -/
def step (s : State) : Event → Event × State
  | .push => (.push, { s with stack := [] :: s.stack })
  | .pop => (.pop, s.pop)
  | .insert x => let r := replaceIdentifier s x; (.insert r.1, r.2)
  | .insertSelf => (.insertSelf, s.add selfName selfName false)
  | .insertLocal x => let r := replaceIdentifier s x; (.insertLocal r.1, r.2)
  | .insertLocalFunction f =>
    if s.incl then let r := replaceIdentifier s f; (.insertLocalFunction r.1, r.2)
    else (.insertLocalFunction f, s.add f f false)
  | .use x => let r := lookupUse s x; (.use r.1, r.2)
  | .useType x => let r := lookupUse s x; (.useType r.1, r.2)

/-- the renamed event stream -/
def run (s : State) : List Event → List Event
  | [] => []
  | e :: es => (step s e).1 :: run (step s e).2 es

/-- the processor state after a stream -/
def runState (s : State) : List Event → State
  | [] => s
  | e :: es => runState (step s e).2 es

/-! ## Pre-passes and the rule -/

/-- `CollectFunctionNames` driven by `DefaultVisitor`: every local function statement, i.e. every
`insert_local_function` call of `ScopeVisitor` -/
def functionNames : List Event → List Name
  | [] => []
  | .insertLocalFunction f :: es => f :: functionNames es
  | _ :: es => functionNames es

/-- `CollectGlobalsProcessor` state: `scopes` (innermost first) -/
def cgAdd (scopes : List (List Name)) (x : Name) : List (List Name) :=
  match scopes with
  | [] => [[x]]
  | sc :: rest => (if sc.contains x then sc else x :: sc) :: rest

/-- `CollectGlobalsProcessor::is_declared` -/
def cgDeclared (scopes : List (List Name)) (x : Name) : Bool := scopes.any (·.contains x)

/-- `CollectGlobalsProcessor` over the event stream; result = `globals` (a set: order irrelevant) -/
def collectGlobalsFrom (scopes : List (List Name)) : List Event → List Name
  | [] => []
  | .push :: es => collectGlobalsFrom ([] :: scopes) es
  | .pop :: es => collectGlobalsFrom scopes.tail es
  | .insert x :: es => collectGlobalsFrom (cgAdd scopes x) es
  | .insertSelf :: es => collectGlobalsFrom (cgAdd scopes selfName) es
  | .insertLocal x :: es => collectGlobalsFrom (cgAdd scopes x) es
  | .insertLocalFunction f :: es => collectGlobalsFrom (cgAdd scopes f) es
  | .use x :: es =>
    if cgDeclared scopes x then collectGlobalsFrom scopes es else x :: collectGlobalsFrom scopes es
  | .useType x :: es =>
    if cgDeclared scopes x then collectGlobalsFrom scopes es else x :: collectGlobalsFrom scopes es

def collectGlobals (es : List Event) : List Name := collectGlobalsFrom [] es

/-- `RenameVariables` -/
structure Config where
  globals : List Name
  includeFunctions : Bool
  detectGlobals : Bool
  deriving Repr

/-- the iterator handed to `RenameProcessor::new` in `flawless_process` -/
def avoidList (cfg : Config) (es : List Event) : List Name :=
  cfg.globals
    ++ (if cfg.includeFunctions then [] else functionNames es)
    ++ (if cfg.detectGlobals then collectGlobals es else [])

/-- `RenameVariables::flawless_process` on the event stream of the block -/
def renameRule (cfg : Config) (es : List Event) : List Event :=
  run (State.init (avoidList cfg es) cfg.includeFunctions) es

/-- final processor state of the rule (for the invariant theorem) -/
def renameRuleState (cfg : Config) (es : List Event) : State :=
  runState (State.init (avoidList cfg es) cfg.includeFunctions) es

/-- the name `self` is never *generated* on this run (every generated name is written into an
`insert`/`insert_local`/`insert_local_function` site).  Since the fix of F09a this holds on
every run (`Thm.self_never_generated`). -/
def selfNotGenerated (incl : Bool) (out : List Event) : Bool :=
  out.all fun e =>
    match e with
    | .insert x => x != selfName
    | .insertLocal x => x != selfName
    | .insertLocalFunction f => !incl || f != selfName
    | _ => true

end DarkluaModel.C09
