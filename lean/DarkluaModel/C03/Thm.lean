import DarkluaModel.C03.Lemmas
/-!
C03 — retain_lines with no rules reproduces the source byte for byte.

The theorems are about `run`/`step`/`ops` of `Model.lean`, the functions the driver executes on
the traces of the real generator.
-/
namespace DarkluaModel.C03

/-- Full-strength statement: replaying any token tiling of `s` writes exactly `s`. -/
def replay_identity_full : Prop :=
  ∀ (s : List UInt8) (ts : List Tok), Tiling s ts → (run init (ops ts)).out = s

/-- The tokens of `return t[u[1]]` (finding F7). -/
def f7Tokens : List Tok :=
  [ ⟨[], [114, 101, 116, 117, 114, 110], some 1, true, [⟨false, [32]⟩]⟩,   -- `return` + " "
    ⟨[], [116], some 1, true, []⟩,    -- t
    ⟨[], [91], some 1, true, []⟩,     -- [
    ⟨[], [117], some 1, true, []⟩,    -- u
    ⟨[], [91], some 1, true, []⟩,     -- [
    ⟨[], [49], some 1, true, []⟩,     -- 1
    ⟨[], [93], some 1, true, []⟩,     -- ]
    ⟨[], [93], some 1, true, []⟩,     -- ]
    ⟨[], [], some 1, true, []⟩ ]      -- end of file

def f7Source : List UInt8 := [114, 101, 116, 117, 114, 110, 32, 116, 91, 117, 91, 49, 93, 93]

theorem f7_tiling : Tiling f7Source f7Tokens := ⟨by decide, by decide, by decide⟩

/-- The model writes `return t[u[1] ]` (a space between the two closing brackets). -/
theorem f7_output : (run init (ops f7Tokens)).out =
    [114, 101, 116, 117, 114, 110, 32, 116, 91, 117, 91, 49, 93, 32, 93] := by decide

/-- The full statement is false of the code as it is: `needs_space` is applied to original
tokens too. -/
theorem replay_identity_full_false : ¬ replay_identity_full := by
  intro h
  have := h f7Source f7Tokens f7_tiling
  rw [f7_output] at this
  exact absurd this (by decide)

/-- Partial theorem: inside H₃ the replay of a tiling is the source, byte for byte; no space,
no padding newline and no `uncomment` newline is inserted, and the line counter ends at the
number of lines of the source. No bound on the size of `s` or `ts`. -/
theorem replay_identity_partial (s : List UInt8) (ts : List Tok) (ht : Tiling s ts) (h : H3 ts) :
    (run init (ops ts)).out = s ∧ (run init (ops ts)).spaces = 0 ∧ (run init (ops ts)).pads = 0 ∧
    (run init (ops ts)).uncomments = 0 ∧ (run init (ops ts)).line = countNewLines s + 1 := by
  have hp := ops_isPiece ts
  have hl := run_pieces_lines (ops ts) init hp init_inv ht.lines ht.comments
  have he := run_pieces_exact (ops ts) init hp init_inv ht.lines ht.comments h
  have hinv := run_inv (ops ts) init init_inv
  have hout : (run init (ops ts)).out = s := by
    rw [State.out, he.1, ← ht.cover]; simp [init]
  refine ⟨hout, he.2, hl.1, hl.2.1, ?_⟩
  unfold Inv at hinv
  rw [hinv, ← hout, State.out, cnl_reverse]

example : Tiling [120, 61, 49, 10] [⟨[], [120], some 1, true, []⟩, ⟨[], [61], some 1, true, []⟩,
    ⟨[], [49], some 1, true, [⟨false, [10]⟩]⟩, ⟨[], [], some 2, true, []⟩] ∧
    H3 [⟨[], [120], some 1, true, []⟩, ⟨[], [61], some 1, true, []⟩,
    ⟨[], [49], some 1, true, [⟨false, [10]⟩]⟩, ⟨[], [], some 2, true, []⟩] :=
  ⟨⟨by decide, by decide, by decide⟩, by decide⟩

/-- On *every* tiling (H₃ or not) the writer inserts no newline of its own: no line padding,
no `uncomment`; the output has exactly the newlines of the source (so line numbers are kept
even where F7 inserts a space). -/
theorem tiling_no_inserted_newline (s : List UInt8) (ts : List Tok) (ht : Tiling s ts) :
    (run init (ops ts)).pads = 0 ∧ (run init (ops ts)).uncomments = 0 ∧
    countNewLines (run init (ops ts)).out = countNewLines s := by
  have hl := run_pieces_lines (ops ts) init (ops_isPiece ts) init_inv ht.lines ht.comments
  refine ⟨hl.1, hl.2.1, ?_⟩
  rw [State.out, cnl_reverse, hl.2.2, ht.cover]
  show countNewLines [] + _ = _
  simp [cnl_nil]

example : Tiling f7Source f7Tokens ∧ ¬ H3 f7Tokens := ⟨f7_tiling, by decide⟩

end DarkluaModel.C03
