import DarkluaModel.C03.Lemmas
/-!
C03 — retain_lines with no rules reproduces the source byte for byte.

The theorems are about `run`/`step`/`ops` of `Model.lean`, the functions the driver executes on
the traces of the real generator.
-/
namespace DarkluaModel.C03

/-- Full-strength statement: replaying any token tiling of `s` writes exactly `s`. -/
def replay_identity_full : Prop :=
  ∀ (s : List UInt8) (ts : List Tok), Tiling s ts → (run init (ops ts)).out = s

/-- The tokens of `return t[1 --[[c]]]` (finding F7c), as the parser records them: every
content refers to its byte range of the source. -/
def f7cTokens : List Tok :=
  [ ⟨[], [114, 101, 116, 117, 114, 110], some 1, true, [⟨false, [32]⟩], some (0, 6)⟩,   -- `return` + " "
    ⟨[], [116], some 1, true, [], some (7, 8)⟩,    -- t
    ⟨[], [91], some 1, true, [], some (8, 9)⟩,     -- [
    ⟨[], [49], some 1, true, [⟨false, [32]⟩, ⟨true, [45, 45, 91, 91, 99, 93, 93]⟩], some (9, 10)⟩,  -- 1 + " --[[c]]"
    ⟨[], [93], some 1, true, [], some (18, 19)⟩,   -- ]
    ⟨[], [], some 1, true, [], some (19, 19)⟩ ]    -- end of file

def f7cSource : List UInt8 :=
  [114, 101, 116, 117, 114, 110, 32, 116, 91, 49, 32, 45, 45, 91, 91, 99, 93, 93, 93]

theorem f7c_tiling : Tiling f7cSource f7cTokens := ⟨by decide, by decide, by decide⟩

/-- The model writes `return t[1 --[[c]] ]` (a space between the comment and the bracket). -/
theorem f7c_output : (run init (ops f7cTokens)).out =
    [114, 101, 116, 117, 114, 110, 32, 116, 91, 49, 32, 45, 45, 91, 91, 99, 93, 93, 32, 93] := by decide

/-- The full statement is still false of the code: `needs_space` looks at the last character
written, also when it is the end of an original comment directly followed, in the source, by
the token (finding F7c; an existing snapshot test of the repository records this spacing, so the
repair of F7 was limited to token-after-token adjacency). -/
theorem replay_identity_full_false : ¬ replay_identity_full := by
  intro h
  have := h f7cSource f7cTokens f7c_tiling
  rw [f7c_output] at this
  exact absurd this (by decide)

/-- The tokens of `return t[u[1]]` (finding F7, fixed by /repo 'needs_space between original
adjacent tokens'): regression. -/
def f7Tokens : List Tok :=
  [ ⟨[], [114, 101, 116, 117, 114, 110], some 1, true, [⟨false, [32]⟩], some (0, 6)⟩,
    ⟨[], [116], some 1, true, [], some (7, 8)⟩,    -- t
    ⟨[], [91], some 1, true, [], some (8, 9)⟩,     -- [
    ⟨[], [117], some 1, true, [], some (9, 10)⟩,   -- u
    ⟨[], [91], some 1, true, [], some (10, 11)⟩,   -- [
    ⟨[], [49], some 1, true, [], some (11, 12)⟩,   -- 1
    ⟨[], [93], some 1, true, [], some (12, 13)⟩,   -- ]
    ⟨[], [93], some 1, true, [], some (13, 14)⟩,   -- ]
    ⟨[], [], some 1, true, [], some (14, 14)⟩ ]    -- end of file

def f7Source : List UInt8 := [114, 101, 116, 117, 114, 110, 32, 116, 91, 117, 91, 49, 93, 93]

/-- regression (F7): the two closing brackets are adjacent original tokens; no space any more -/
example : Tiling f7Source f7Tokens ∧ H3 f7Tokens ∧ (run init (ops f7Tokens)).out = f7Source :=
  ⟨⟨by decide, by decide, by decide⟩, by decide, by decide⟩

/-- regression (F7b): `return 1 ..2` — `..` and `2` are adjacent original tokens -/
example : (run init (ops [
    ⟨[], [114, 101, 116, 117, 114, 110], some 1, true, [⟨false, [32]⟩], some (0, 6)⟩,
    ⟨[], [49], some 1, true, [⟨false, [32]⟩], some (7, 8)⟩,
    ⟨[], [46, 46], some 1, true, [], some (9, 11)⟩,
    ⟨[], [50], some 1, true, [], some (11, 12)⟩])).out =
    [114, 101, 116, 117, 114, 110, 32, 49, 32, 46, 46, 50] := by decide

/-- the same tokens without their source ranges (as after `replace_referenced_tokens`, or
created by a rule): the space rule still applies — `t[u[1] ]` -/
example : (run init (ops (f7Tokens.map fun t => { t with ref := none }))).out =
    [114, 101, 116, 117, 114, 110, 32, 116, 91, 117, 91, 49, 93, 32, 93] := by decide

/-- Partial theorem: inside H₃ — which now only excludes a space-checked content that does NOT
directly follow, in the original code, the original token written just before it and with
which the space rule fires (in a tiling of parsed tokens: a content right after a comment ending
in `]`, or tokens that lost their source range) — the replay of a tiling is the source, byte for byte; no space,
no padding newline and no `uncomment` newline is inserted, and the line counter ends at the
number of lines of the source. No bound on the size of `s` or `ts`. -/
theorem replay_identity_partial (s : List UInt8) (ts : List Tok) (ht : Tiling s ts) (h : H3 ts) :
    (run init (ops ts)).out = s ∧ (run init (ops ts)).spaces = 0 ∧ (run init (ops ts)).pads = 0 ∧
    (run init (ops ts)).uncomments = 0 ∧ (run init (ops ts)).line = countNewLines s + 1 := by
  have hp := ops_isPiece ts
  have hl := run_pieces_lines (ops ts) init hp init_inv ht.lines ht.comments
  have he := run_pieces_exact (ops ts) init hp init_inv ht.lines ht.comments h
  have hinv := run_inv (ops ts) init init_inv
  have hout : (run init (ops ts)).out = s := by
    rw [State.out, he.1, ← ht.cover]; simp [init]
  refine ⟨hout, he.2, hl.1, hl.2.1, ?_⟩
  unfold Inv at hinv
  rw [hinv, ← hout, State.out, cnl_reverse]

example : Tiling [120, 61, 49, 10] [⟨[], [120], some 1, true, [], none⟩, ⟨[], [61], some 1, true, [], none⟩,
    ⟨[], [49], some 1, true, [⟨false, [10]⟩], none⟩, ⟨[], [], some 2, true, [], none⟩] ∧
    H3 [⟨[], [120], some 1, true, [], none⟩, ⟨[], [61], some 1, true, [], none⟩,
    ⟨[], [49], some 1, true, [⟨false, [10]⟩], none⟩, ⟨[], [], some 2, true, [], none⟩] :=
  ⟨⟨by decide, by decide, by decide⟩, by decide⟩

/-- On *every* tiling (H₃ or not) the writer inserts no newline of its own: no line padding,
no `uncomment`; the output has exactly the newlines of the source (so line numbers are kept
even where F7 inserts a space). -/
theorem tiling_no_inserted_newline (s : List UInt8) (ts : List Tok) (ht : Tiling s ts) :
    (run init (ops ts)).pads = 0 ∧ (run init (ops ts)).uncomments = 0 ∧
    countNewLines (run init (ops ts)).out = countNewLines s := by
  have hl := run_pieces_lines (ops ts) init (ops_isPiece ts) init_inv ht.lines ht.comments
  refine ⟨hl.1, hl.2.1, ?_⟩
  rw [State.out, cnl_reverse, hl.2.2, ht.cover]
  show countNewLines [] + _ = _
  simp [cnl_nil]

example : Tiling f7cSource f7cTokens ∧ ¬ H3 f7cTokens := ⟨f7c_tiling, by decide⟩

/-- regression (C18 F29 / C12-F7, fixed by /repo 'space between `-` and a comment'): a `-` token
whose whitespace was removed, followed by the comment `--c`, is written `- --c`, not `---c`. -/
example : (run init [.token [97] (some 1) true none, .token [45] (some 1) true none,
    .trivia true [45, 45, 99]]).out = [97, 45, 32, 45, 45, 99] := by decide

/-- regression (C12-F11, fixed by /repo 'separator after a number ending with a dot'): `5.`
followed by the identifier `e` (whitespace removed) is written `5. e`, not `5.e`. -/
example : (run init [.token [53, 46] (some 1) true none, .token [101] (some 1) true none]).out =
    [53, 46, 32, 101] := by decide

end DarkluaModel.C03
