/-
C03 / C04 — model of the writer state machine of darklua's token-based generator
(`/repo/src/generator/token_based.rs`, `TokenBasedLuaGenerator`), mirrored as it is.

Text is `List UInt8` (the UTF-8 bytes of the Rust `&str`). Two places of the Rust code look at
`char`s instead of bytes; both are reproduced exactly on bytes for valid UTF-8:
* `needs_space` looks at the last `char` of the output and the first `char` of the content and
  `should_break_with_space` only fires on ASCII pairs; the last byte of a non-ASCII char is a
  continuation byte (0x80..0xBF), its first byte is ≥ 0xC0, so comparing the last/first *byte*
  gives the same answer;
* `is_single_line_comment` uses a `char` index in a byte range (see `isSingleLineComment`).

The output is kept reversed (`rout`) so that appending is linear; `State.out` is the text.
`pads`, `uncomments`, `spaces` are ghost counters (the Rust struct has none): they count the
line-padding newlines, the `uncomment` newlines and the inserted spaces; the hook traces one
event for each, so the harness compares them too.
-/
namespace DarkluaModel.C03

/-- `generator/utils.rs: count_new_lines` -/
def countNewLines (bs : List UInt8) : Nat := bs.count 10

def isDigit (c : UInt8) : Bool := 48 ≤ c && c ≤ 57
def isUpper (c : UInt8) : Bool := 65 ≤ c && c ≤ 90
def isLower (c : UInt8) : Bool := 97 ≤ c && c ≤ 122

/-- `generator/utils.rs: should_break_with_space(ending_character, next_character)` on bytes. -/
def shouldBreakWithSpace (e n : UInt8) : Bool :=
  if isDigit e then isDigit n || isUpper n || isLower n || n == 95 || n == 46
  else if isUpper e || isLower e || e == 95 then isDigit n || isUpper n || isLower n || n == 95
  else if e == 62 then n == 61          -- '>' '='
  else if e == 45 then n == 45          -- '-' '-'
  else if e == 91 then n == 91          -- '[' '['
  else if e == 93 then n == 93          -- ']' ']'
  else if e == 46 then n == 46 || isDigit n   -- '.' then '.' or digit
  else false

/-- UTF-8 continuation byte (`0b10xxxxxx`): not a `char` boundary. -/
def isContinuation (b : UInt8) : Bool := 128 ≤ b && b < 192

/-- `token_based.rs: is_single_line_comment(content)` (after the fix of C18/F27: the byte range is
`3..3 + k`, and a range that is not on a char boundary means "not a long comment").
Rust: multi-line iff `content.starts_with("--[")` and the first `'['` found by
`content.chars().skip(3).enumerate()` has *char* index `k` such that
`content.get(3..3 + k)` (a *byte* range) is `Some` and consists of `=` only.
`get(3..3 + k)` is `None` when `3 + k` is not a char boundary (→ `unwrap_or(false)`). -/
def isSingleLineComment (c : List UInt8) : Bool :=
  match c with
  | 45 :: 45 :: 91 :: rest =>
    let pre := rest.takeWhile (· != 91)
    if pre.length == rest.length then true      -- no second '[': single line
    else
      let k := pre.countP (fun b => !isContinuation b)   -- char index of that '['
      match rest[k]? with
      | none => true
      | some b =>
        if isContinuation b then true
        else !((rest.take k).all (· == 61))
  | _ => true

structure State where
  /-- the output text, reversed -/
  rout : List UInt8 := []
  /-- `current_line` -/
  line : Nat := 1
  /-- `currently_commenting` -/
  commenting : Bool := false
  pads : Nat := 0
  uncomments : Nat := 0
  spaces : Nat := 0
  /-- `last_reference_end`: where the last token written ends in the original code, when its
  content was read from the original code and nothing else has been written since -/
  lastEnd : Option Nat := none
  /-- `last_number_dot`: the last thing written is a number token that ends with a dot (`5.`) -/
  numDot : Bool := false
  deriving Repr, DecidableEq

/-- `output` -/
def State.out (s : State) : List UInt8 := s.rout.reverse

/-- `TokenBasedLuaGenerator::new` -/
def init : State := {}

/-- `push_str` -/
def pushStr (s : State) (t : List UInt8) : State :=
  { s with rout := t.reverse ++ s.rout, line := s.line + countNewLines t, lastEnd := none,
           numDot := false }

/-- The space rule of the token-based generator: `should_break_with_space` on the last character
written, and — a number written `5.` followed by a letter, digit or `_` would read as one
malformed number — always after a number token that ends with a dot. -/
def spaceRule (last : Option UInt8) (numDot : Bool) (next : UInt8) : Bool :=
  (numDot && (isDigit next || isUpper next || isLower next || next == 95)) ||
  match last with
  | some e => shouldBreakWithSpace e next
  | none => false

/-- `needs_space(next_character)` -/
def needsSpace (s : State) (next : UInt8) : Bool := spaceRule s.rout.head? s.numDot next

/-- `content.ends_with('.') && content.starts_with(|c| c.is_ascii_digit())` -/
def endsNumberDot (content : List UInt8) : Bool :=
  content.getLast? == some 46 && (match content.head? with | some c => isDigit c | none => false)

/-- `uncomment` -/
def uncomment (s : State) : State :=
  { s with rout := 10 :: s.rout, line := s.line + 1, commenting := false,
           uncomments := s.uncomments + 1, lastEnd := none, numDot := false }

/-- `output.push(' ')` after a positive `needs_space` -/
def pushSpace (s : State) : State :=
  { s with rout := 32 :: s.rout, spaces := s.spaces + 1, lastEnd := none, numDot := false }

/-- `write_trivia` (`comment = true` for `TriviaKind::Comment`) -/
def writeTrivia (s : State) (comment : Bool) (content : List UInt8) : State :=
  let isLine := comment && isSingleLineComment content
  let isMulti := comment && !isLine
  let s0 := if isMulti && s.commenting then uncomment s else s
  -- a `-` token directly followed by `--` would start the comment one character early
  let s1 := if comment && !s0.commenting && s0.rout.head? == some 45 then pushSpace s0 else s0
  let s2 := pushStr s1 content
  if comment then
    if isLine then { s2 with commenting := true } else s2
  else if s2.commenting && content.contains 10 then { s2 with commenting := false }
  else s2

/-- `while line_number > self.current_line { output.push('\n'); current_line += 1 }` in closed
form: `n - line` newlines. -/
def pad (s : State) (n : Nat) : State :=
  { s with rout := List.replicate (n - s.line) 10 ++ s.rout, line := s.line + (n - s.line),
           pads := s.pads + (n - s.line),
           lastEnd := if n - s.line = 0 then s.lastEnd else none,
           numDot := if n - s.line = 0 then s.numDot else false }

/-- `follows_original`: the token is read from the original code (`ref = some (start, end)`) and
starts exactly where the last written token ended in the original code. -/
def followsOriginal (lastEnd : Option Nat) (ref : Option (Nat × Nat)) : Bool :=
  match ref with
  | some (a, _) => lastEnd == some a
  | none => false

/-- The part of `write_token_options` between the leading trivia and `push_str(content)`, for
a non-empty content: `uncomment` if commenting, pad up to the recorded line, space check. -/
def prepToken (s : State) (content : List UInt8) (line : Option Nat) (spaceCheck : Bool)
    (ref : Option (Nat × Nat)) : State :=
  let s1 := if s.commenting then uncomment s else s
  let s2 := match line with
    | some n => pad s1 n
    | none => s1
  match content.head? with
  | some c => if spaceCheck && !followsOriginal s2.lastEnd ref && needsSpace s2 c then pushSpace s2 else s2
  | none => s2

/-- `write_token_options` without the trivia loops (`if !content.is_empty() { … }`). -/
def writeTokenContent (s : State) (content : List UInt8) (line : Option Nat) (spaceCheck : Bool)
    (ref : Option (Nat × Nat)) : State :=
  if content.isEmpty then s
  else { pushStr (prepToken s content line spaceCheck ref) content with
           lastEnd := ref.map (·.2), numDot := endsNumberDot content }

/-- `write_symbol` (`spaceCheck = true`) / `write_symbol_without_space_check` (`false`).
`write_symbol("")` panics in Rust when not commenting (`expect("symbol cannot be empty")`);
the model leaves the state unchanged there. -/
def writeSymbol (s : State) (sym : List UInt8) (spaceCheck : Bool) : State :=
  if s.commenting then pushStr (uncomment s) sym
  else
    match sym.head? with
    | some c => if spaceCheck && needsSpace s c then pushStr (pushSpace s) sym else pushStr s sym
    | none => if spaceCheck then s else pushStr s sym

/-- The primitive operations the hook traces. -/
inductive Op where
  /-- `write_trivia` -/
  | trivia (comment : Bool) (text : List UInt8)
  /-- the content part of `write_token_options`; `line = get_line_number()` -/
  | token (text : List UInt8) (line : Option Nat) (spaceCheck : Bool) (ref : Option (Nat × Nat))
  /-- `write_symbol` / `write_symbol_without_space_check` -/
  | symbol (text : List UInt8) (spaceCheck : Bool)
  /-- a direct `self.push_str(..)` (variadic / generic type packs) -/
  | rawPush (text : List UInt8)
  /-- the direct `self.output.push(' ')` of `write_string_value_segment_with_tokens` -/
  | rawSpace
  deriving Repr, DecidableEq

def step (s : State) : Op → State
  | .trivia c t => writeTrivia s c t
  | .token t l sc r => writeTokenContent s t l sc r
  | .symbol t sc => writeSymbol s t sc
  | .rawPush t => pushStr s t
  | .rawSpace => pushSpace s

def run (s : State) : List Op → State
  | [] => s
  | op :: rest => run (step s op) rest

/-! ### Tokens (`nodes/token.rs`) and the op sequence `write_token_options` performs -/

structure Trivia where
  comment : Bool
  text : List UInt8
  deriving Repr, DecidableEq

structure Tok where
  leading : List Trivia
  content : List UInt8
  line : Option Nat
  spaceCheck : Bool
  trailing : List Trivia
  /-- `Position::LineNumberReference { start, end, .. }`: the byte range of the original code -/
  ref : Option (Nat × Nat) := none
  deriving Repr, DecidableEq

def Trivia.op (v : Trivia) : Op := .trivia v.comment v.text

/-- `write_token_options(token, space_check)` -/
def Tok.ops (t : Tok) : List Op :=
  t.leading.map Trivia.op ++ (.token t.content t.line t.spaceCheck t.ref :: t.trailing.map Trivia.op)

def ops : List Tok → List Op
  | [] => []
  | t :: ts => t.ops ++ ops ts

/-! ### Decidable hypotheses of the theorems (checked by the driver on every real trace) -/

def Op.text : Op → List UInt8
  | .trivia _ t => t
  | .token t _ _ _ => t
  | .symbol t _ => t
  | .rawPush t => t
  | .rawSpace => [32]

def texts : List Op → List UInt8
  | [] => []
  | op :: rest => op.text ++ texts rest

/-- Only `write_trivia` / token-content operations (what a list of tokens produces). -/
def Op.isPiece : Op → Bool
  | .trivia _ _ => true
  | .token _ _ _ _ => true
  | _ => false

/-- Would this operation call `uncomment` when `currently_commenting = p`? -/
def Op.fires (p : Bool) : Op → Bool
  | .trivia true text => p && !isSingleLineComment text
  | .trivia false _ => false
  | .token text _ _ _ => p && !text.isEmpty
  | .symbol _ _ => p
  | .rawPush _ => false
  | .rawSpace => false

/-- `currently_commenting` after the operation, given its value `p` before. -/
def Op.pendingAfter (p : Bool) : Op → Bool
  | .trivia true text => isSingleLineComment text
  | .trivia false text => p && !text.contains 10
  | .token text _ _ _ => if text.isEmpty then p else false
  | .symbol _ _ => false
  | .rawPush _ => p
  | .rawSpace => p

/-- `current_line` after the operation, given `current_line = cur` and
`currently_commenting = p` before: the pure line arithmetic of the writer (no bytes). -/
def Op.lineAfter (cur : Nat) (p : Bool) : Op → Nat
  | .trivia c text => (if Op.fires p (.trivia c text) then cur + 1 else cur) + countNewLines text
  | .token text line _ _ =>
    if text.isEmpty then cur
    else
      let cur1 := if p then cur + 1 else cur
      (match line with
        | some n => cur1 + (n - cur1)
        | none => cur1) + countNewLines text
  | .symbol text _ => if p then cur + 1 + countNewLines text else cur + countNewLines text
  | .rawPush text => cur + countNewLines text
  | .rawSpace => cur

/-- A non-empty line-bearing content records the line it starts on: one plus the number of
newlines of the text before it (`nl` = newlines so far). -/
def Op.lineOk (nl : Nat) : Op → Bool
  | .token text (some n) _ _ => text.isEmpty || n == nl + 1
  | _ => true

def linesOk (nl : Nat) : List Op → Bool
  | [] => true
  | op :: rest => op.lineOk nl && linesOk (nl + countNewLines op.text) rest

/-- Lexical discipline of line comments: after a trivia the generator classifies as a line
comment, a whitespace trivia containing a newline comes before any non-empty content or
multi-line comment — i.e. `uncomment` never fires (`pending` = a line comment is still open). -/
def commentsOk (pending : Bool) : List Op → Bool
  | [] => true
  | op :: rest => !op.fires pending && commentsOk (op.pendingAfter pending) rest

def lastOf (last : Option UInt8) (t : List UInt8) : Option UInt8 :=
  match t.reverse with
  | [] => last
  | b :: _ => some b

/-- `last_reference_end` after the operation, given its value before. -/
def Op.endAfter (lastEnd : Option Nat) : Op → Option Nat
  | .token text _ _ ref => if text.isEmpty then lastEnd else ref.map (·.2)
  | _ => none

/-- `last_number_dot` after the operation, given its value before. -/
def Op.numDotAfter (numDot : Bool) : Op → Bool
  | .token text _ _ _ => if text.isEmpty then numDot else endsNumberDot text
  | _ => false

/-- The space rule does not fire between the text written so far (`last` = its last byte,
`numDot` = it ends with a number token `5.`) and this space-checked content — or the content
directly follows, in the original code, the original token written just before (`lastEnd`), in
which case the rule is not consulted; and a comment never directly follows a `-`. -/
def Op.h3ok (last : Option UInt8) (lastEnd : Option Nat) (numDot : Bool) : Op → Bool
  | .trivia true _ => last != some 45     -- (lexically forced)
  | .token text _ true ref =>
    followsOriginal lastEnd ref ||
    match text.head? with
    | some c => !spaceRule last numDot c
    | none => true
  | _ => true

/-- H₃ -/
def h3 (last : Option UInt8) (lastEnd : Option Nat) (numDot : Bool) : List Op → Bool
  | [] => true
  | op :: rest =>
    op.h3ok last lastEnd numDot &&
      h3 (lastOf last op.text) (op.endAfter lastEnd) (op.numDotAfter numDot) rest

/-! ### C04: static line accounting -/

/-- A non-empty line-bearing content finds `current_line` (after a possible `uncomment`) at or
before its recorded line. -/
def Op.budget (cur : Nat) (p : Bool) : Op → Bool
  | .token text (some n) _ _ => text.isEmpty || decide ((if p then cur + 1 else cur) ≤ n)
  | _ => true

/-- Static line budget of an op sequence from `current_line = cur`, `currently_commenting = p`. -/
def budgetOk (cur : Nat) (p : Bool) : List Op → Bool
  | [] => true
  | op :: rest => op.budget cur p && budgetOk (op.lineAfter cur p) (op.pendingAfter p) rest

/-- The syntactic sufficient condition of DESIGN §7 C04 (`monotone`): line-bearing contents
come in non-decreasing line order (`lo` = the least line the next one may have, counting the
newlines inside the previous one), and every other written piece contains no newline; a line
comment open since the last content (`bump`) costs one more line, because the next content (or
symbol, or multi-line comment) is preceded by the `uncomment` newline. -/
def monotone (lo : Nat) (bump : Bool) : List Op → Bool
  | [] => true
  | .trivia true text :: rest =>
    countNewLines text == 0 &&
      monotone (if bump && !isSingleLineComment text then lo + 1 else lo) (isSingleLineComment text) rest
  | .trivia false text :: rest => countNewLines text == 0 && monotone lo bump rest
  | .token text line _ _ :: rest =>
    if text.isEmpty then monotone lo bump rest
    else
      match line with
      | some n =>
        decide ((if bump then lo + 1 else lo) ≤ n) && monotone (n + countNewLines text) false rest
      | none => countNewLines text == 0 && monotone (if bump then lo + 1 else lo) false rest
  | .symbol text _ :: rest =>
    countNewLines text == 0 && monotone (if bump then lo + 1 else lo) false rest
  | .rawPush text :: rest => countNewLines text == 0 && monotone lo bump rest
  | .rawSpace :: rest => monotone lo bump rest

/-! ### C04: `Token::clear_whitespaces` / `clear_comments` (what `remove_spaces` / `remove_comments` apply to every token) -/

/-- `nodes/token.rs: Token::clear_whitespaces` -/
def Tok.clearWhitespaces (t : Tok) : Tok :=
  { t with leading := t.leading.filter (·.comment), trailing := t.trailing.filter (·.comment) }

/-- `nodes/token.rs: Token::clear_comments` -/
def Tok.clearComments (t : Tok) : Tok :=
  { t with leading := t.leading.filter (!·.comment), trailing := t.trailing.filter (!·.comment) }

/-- `current_line` / `currently_commenting` after a whole op sequence (line arithmetic only). -/
def lineAfterAll (cur : Nat) (p : Bool) : List Op → Nat
  | [] => cur
  | op :: rest => lineAfterAll (op.lineAfter cur p) (op.pendingAfter p) rest

def pendingAfterAll (p : Bool) : List Op → Bool
  | [] => p
  | op :: rest => pendingAfterAll (op.pendingAfter p) rest

/-! ### C04: `shift_token_line` (`nodes/token.rs: Token::shift_token_line`) -/

/-- `line_number.saturating_add_signed(amount)` for `amount ≥ 0` (what `append_text_comment` and
the bundler use; saturation at `usize::MAX` not modelled). -/
def shiftLine (amount : Nat) (n : Nat) : Nat := n + amount

def Op.shift (amount : Nat) : Op → Op
  | .token t (some n) sc r => .token t (some (shiftLine amount n)) sc r
  | op => op

def shiftOps (amount : Nat) (l : List Op) : List Op := l.map (Op.shift amount)

def Tok.shift (amount : Nat) (t : Tok) : Tok :=
  { t with line := t.line.map (shiftLine amount) }

/-- `rules/append_text_comment.rs` at `start`: the comment text and a newline whitespace are
inserted before the first token's leading trivia (`insert_leading_trivia(0, …)`, `(1, …)`). -/
def startComment (text : List UInt8) : List Op := [.trivia true text, .trivia false [10]]

/-- The shift `append_text_comment` applies: `text.lines().count()` of the comment text, which
for the texts the rule builds (`--…` without newline, or `--[=*[\n…\n]=*]`, never ending in a
newline) is the number of newlines plus one. -/
def commentShift (text : List UInt8) : Nat := countNewLines text + 1

/-! ### C03: token tilings -/

/-- `ts` is a *token tiling* of the source text `s`: the leading ‖ content ‖ trailing texts of
the tokens, in order, are exactly `s`; every non-empty line-bearing content records the line it
starts on; line comments are terminated by a newline whitespace trivia. -/
structure Tiling (s : List UInt8) (ts : List Tok) : Prop where
  cover : texts (ops ts) = s
  lines : linesOk 0 (ops ts) = true
  comments : commentsOk false (ops ts) = true

/-- H₃: nowhere does a space-checked content follow text with which the space rule fires,
unless it is an original token directly following, in the original code, the original token
written just before it. -/
def H3 (ts : List Tok) : Prop := h3 none none false (ops ts) = true

instance (ts : List Tok) : Decidable (H3 ts) := by unfold H3; infer_instance

end DarkluaModel.C03
