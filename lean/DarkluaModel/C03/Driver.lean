import DarkluaModel.Util.Sexp
import DarkluaModel.C03.Model
/-!
Line-protocol handlers for property C03 (and the shared trace decoding used by C04).

A writer trace is a sequence of items, one per argument:
  `B0` / `B1`          `write_token_options(token, space_check)` begins
  `Tc:<hex>` `Tw:<hex>` `write_trivia` of a comment / whitespace
  `K<line|->[@<s>-<e>]:<hex>` the token's content, recorded line (`-` = none) and source range
  `E`                  `write_token_options` ends
  `S0:<hex>` `S1:<hex>` `write_symbol_without_space_check` / `write_symbol`
  `P:<hex>`            direct `push_str`
  `R`                  direct `output.push(' ')`
Inside `B … E`: trivia before `K` are leading, after `K` trailing.

Operations:
  `c03.replay <item>*`        → `ok <out-hex> <line> <commenting> <pads> <uncomments> <spaces>`
  `c03.tiling <src-hex> <item>*` → `ok <all-tokens> <cover> <lines> <comments> <h3>` (each 0/1)
  `c03.brk <a> <b>`           → `0`/`1`  (`shouldBreakWithSpace` on two byte values)
  `c03.slc <hex>`             → `0`/`1`  (`isSingleLineComment`)
-/
namespace DarkluaModel.C03

inductive Item where
  | tok (t : Tok)
  | op (o : Op)

def Item.ops : Item → List Op
  | .tok t => t.ops
  | .op o => [o]

def flatten : List Item → List Op
  | [] => []
  | i :: rest => i.ops ++ flatten rest

def Item.tok? : Item → Option Tok
  | .tok t => some t
  | .op _ => none

private def splitColon (s : String) : Option (String × String) :=
  match s.splitOn ":" with
  | [a, b] => some (a, b)
  | _ => none

private def parseLine (s : String) : Option (Option Nat) :=
  if s == "-" then some none else s.toNat?.map some

private def bit (c : Char) : Option Bool :=
  if c == '0' then some false else if c == '1' then some true else none

/-- Decoder state: `cur = some (spaceCheck, leading, content?, trailing)` while inside `B … E`. -/
structure Dec where
  items : List Item := []      -- reversed
  cur : Option (Bool × List Trivia × Option (List UInt8 × Option Nat × Option (Nat × Nat)) × List Trivia) := none

def decodeStep (d : Dec) (arg : String) : Option Dec :=
  match arg.toList with
  | ['B', b] =>
    match d.cur, bit b with
    | none, some sc => some { d with cur := some (sc, [], none, []) }
    | _, _ => none
  | ['E'] =>
    match d.cur with
    | some (sc, lead, some (content, line, ref), trail) =>
      some { items := .tok { leading := lead.reverse, content := content, line := line,
                             spaceCheck := sc, trailing := trail.reverse, ref := ref } :: d.items, cur := none }
    | _ => none
  | ['R'] =>
    match d.cur with
    | none => some { d with items := .op .rawSpace :: d.items }
    | some _ => none
  | 'T' :: k :: ':' :: _ =>
    match splitColon arg with
    | some (_, h) =>
      match hexToBytes? h, (if k == 'c' then some true else if k == 'w' then some false else none) with
      | some bs, some c =>
        match d.cur with
        | none => some { d with items := .op (.trivia c bs) :: d.items }
        | some (sc, lead, none, trail) => some { d with cur := some (sc, ⟨c, bs⟩ :: lead, none, trail) }
        | some (sc, lead, some k, trail) => some { d with cur := some (sc, lead, some k, ⟨c, bs⟩ :: trail) }
      | _, _ => none
    | none => none
  | 'K' :: _ =>
    match splitColon arg with
    | some (l, h) =>
      -- `K<line|->` or `K<line|->@<start>-<end>` (the content refers to that range of the source)
      let (linePart, ref?) : String × Option (Option (Nat × Nat)) :=
        match (l.drop 1).toString.splitOn "@" with
        | [a] => (a, some none)
        | [a, r] =>
          match r.splitOn "-" with
          | [x, y] =>
            match x.toNat?, y.toNat? with
            | some x, some y => (a, some (some (x, y)))
            | _, _ => (a, none)
          | _ => (a, none)
        | _ => ("", none)
      match parseLine linePart, hexToBytes? h, d.cur, ref? with
      | some line, some bs, some (sc, lead, none, trail), some ref =>
        some { d with cur := some (sc, lead, some (bs, line, ref), trail) }
      | _, _, _, _ => none
    | none => none
  | 'S' :: b :: ':' :: _ =>
    match splitColon arg, bit b, d.cur with
    | some (_, h), some sc, none =>
      (hexToBytes? h).map fun bs => { d with items := .op (.symbol bs sc) :: d.items }
    | _, _, _ => none
  | 'P' :: ':' :: _ =>
    match splitColon arg, d.cur with
    | some (_, h), none =>
      (hexToBytes? h).map fun bs => { d with items := .op (.rawPush bs) :: d.items }
    | _, _ => none
  | _ => none

def decode (args : List String) : Option (List Item) :=
  match args.foldlM decodeStep ({} : Dec) with
  | some d => if d.cur.isNone then some d.items.reverse else none
  | none => none

def b01 (b : Bool) : String := if b then "1" else "0"

def allToks : List Item → Option (List Tok)
  | [] => some []
  | .tok t :: rest => (allToks rest).map (t :: ·)
  | .op _ :: _ => none

def handle (op : String) (args : List String) : String :=
  match op, args with
  | "replay", items =>
    match decode items with
    | none => "bad-args"
    | some is =>
      let r := run init (flatten is)
      s!"ok {bytesToHex r.out} {r.line} {b01 r.commenting} {r.pads} {r.uncomments} {r.spaces}"
  | "tiling", src :: items =>
    match hexToBytes? src, decode items with
    | some s, some is =>
      match allToks is with
      | none =>
        let l := flatten is
        s!"ok 0 {b01 (texts l == s)} {b01 (linesOk 0 l)} {b01 (commentsOk false l)} {b01 (h3 none none false l)}"
      | some ts =>
        let l := ops ts
        s!"ok 1 {b01 (texts l == s)} {b01 (linesOk 0 l)} {b01 (commentsOk false l)} {b01 (h3 none none false l)}"
    | _, _ => "bad-args"
  | "brk", [a, b] =>
    match a.toNat?, b.toNat? with
    | some x, some y =>
      if x < 256 ∧ y < 256 then b01 (shouldBreakWithSpace (UInt8.ofNat x) (UInt8.ofNat y)) else "bad-args"
    | _, _ => "bad-args"
  | "slc", [h] =>
    match hexToBytes? h with
    | some bs => b01 (isSingleLineComment bs)
    | none => "bad-args"
  | _, _ => "unknown-op " ++ op

end DarkluaModel.C03
