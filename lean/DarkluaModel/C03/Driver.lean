import DarkluaModel.Util.Sexp
/-! Line-protocol handlers for property C03 (stub: nothing modelled yet). -/
namespace DarkluaModel.C03

def handle (op : String) (_args : List String) : String :=
  "unknown-op " ++ op

end DarkluaModel.C03
