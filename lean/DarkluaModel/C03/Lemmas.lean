import DarkluaModel.C03.Model
/-! Helper lemmas about the writer state machine (shared by C03 and C04). -/
namespace DarkluaModel.C03

theorem cnl_append (a b : List UInt8) : countNewLines (a ++ b) = countNewLines a + countNewLines b := by
  simp [countNewLines]

theorem cnl_reverse (a : List UInt8) : countNewLines a.reverse = countNewLines a := by
  simp [countNewLines]

theorem cnl_nil : countNewLines [] = 0 := rfl

theorem cnl_cons_nl (a : List UInt8) : countNewLines (10 :: a) = countNewLines a + 1 := by
  simp [countNewLines]

theorem cnl_cons_sp (a : List UInt8) : countNewLines (32 :: a) = countNewLines a := by
  simp [countNewLines]

theorem cnl_of_head_none {t : List UInt8} (h : t.head? = none) : countNewLines t = 0 := by
  cases t <;> simp_all [countNewLines]

theorem cnl_replicate (k : Nat) : countNewLines (List.replicate k 10) = k := by
  simp [countNewLines]

/-! ### unconditional facts about one step -/

theorem step_commenting (st : State) (op : Op) :
    (step st op).commenting = op.pendingAfter st.commenting := by
  cases op with
  | trivia c t =>
    cases c <;> simp only [step, writeTrivia, Op.pendingAfter, pushStr, uncomment, pushSpace] <;>
      (repeat' split) <;> simp_all
  | token t l sc r =>
    simp only [step, writeTokenContent, Op.pendingAfter, prepToken, pushStr, uncomment, pad, pushSpace]
    (repeat' split) <;> simp_all
  | symbol t sc =>
    simp only [step, writeSymbol, Op.pendingAfter, pushStr, uncomment, pushSpace]
    (repeat' split) <;> simp_all
  | rawPush t => simp [step, pushStr, Op.pendingAfter]
  | rawSpace => simp [step, pushSpace, Op.pendingAfter]

theorem step_line (st : State) (op : Op) :
    (step st op).line = op.lineAfter st.line st.commenting := by
  cases op with
  | trivia c t =>
    cases c <;> simp only [step, writeTrivia, Op.lineAfter, Op.fires, pushStr, uncomment, pushSpace] <;>
      (repeat' split) <;> simp_all
  | token t l sc r =>
    simp only [step, writeTokenContent, Op.lineAfter, prepToken, pushStr, uncomment, pad, pushSpace]
    (repeat' split) <;> simp_all
  | symbol t sc =>
    simp only [step, writeSymbol, Op.lineAfter, pushStr, uncomment, pushSpace]
    (repeat' split) <;> simp_all [cnl_nil]
  | rawPush t => simp [step, pushStr, Op.lineAfter]
  | rawSpace => simp [step, pushSpace, Op.lineAfter]


/-- `current_line` is one plus the number of newlines written so far. -/
def Inv (st : State) : Prop := st.line = countNewLines st.rout + 1

theorem init_inv : Inv init := by simp [Inv, init, countNewLines]

theorem step_inv (st : State) (op : Op) (h : Inv st) : Inv (step st op) := by
  unfold Inv at *
  cases op with
  | trivia c t =>
    cases c <;> simp only [step, writeTrivia, pushStr, uncomment, pushSpace] <;>
      (repeat' split) <;> simp_all [cnl_append, cnl_reverse, cnl_cons_nl, cnl_cons_sp] <;> omega
  | token t l sc r =>
    simp only [step, writeTokenContent, prepToken, pushStr, uncomment, pad, pushSpace]
    (repeat' split) <;> simp_all [cnl_append, cnl_reverse, cnl_cons_nl, cnl_cons_sp, cnl_replicate] <;> omega
  | symbol t sc =>
    simp only [step, writeSymbol, pushStr, uncomment, pushSpace]
    (repeat' split) <;>
      simp_all [cnl_append, cnl_reverse, cnl_cons_nl, cnl_cons_sp, List.head?_eq_none_iff, cnl_nil] <;> omega
  | rawPush t => simp_all [step, pushStr, cnl_append, cnl_reverse]; omega
  | rawSpace => simp_all [step, pushSpace, cnl_cons_sp]

theorem run_inv (l : List Op) : ∀ st, Inv st → Inv (run st l) := by
  induction l with
  | nil => intro st h; exact h
  | cons op rest ih => intro st h; exact ih _ (step_inv st op h)

theorem suf_app {r x : List UInt8} (a : List UInt8) (h : r <:+ x) : r <:+ a ++ x :=
  List.IsSuffix.trans h (List.suffix_append a x)

theorem suf_cons {r x : List UInt8} (a : UInt8) (h : r <:+ x) : r <:+ a :: x :=
  List.IsSuffix.trans h (List.suffix_cons a x)

/-- Nothing already written is ever changed: the old (reversed) output is a suffix of the new
one, i.e. the old output text is a prefix of the new output text. -/
theorem step_rout (st : State) (op : Op) : st.rout <:+ (step st op).rout := by
  cases op with
  | trivia c t =>
    cases c <;> simp only [step, writeTrivia, pushStr, uncomment, pushSpace] <;> (repeat' split) <;>
      repeat (first | exact List.suffix_refl _ | apply suf_app | apply suf_cons)
  | token t l sc r =>
    simp only [step, writeTokenContent, prepToken, pushStr, uncomment, pad, pushSpace]
    (repeat' split) <;>
      repeat (first | exact List.suffix_refl _ | apply suf_app | apply suf_cons)
  | symbol t sc =>
    simp only [step, writeSymbol, pushStr, uncomment, pushSpace]
    (repeat' split) <;>
      repeat (first | exact List.suffix_refl _ | apply suf_app | apply suf_cons)
  | rawPush t => exact List.suffix_append _ _
  | rawSpace => exact List.suffix_cons _ _

theorem run_rout (l : List Op) : ∀ st, st.rout <:+ (run st l).rout := by
  induction l with
  | nil => intro st; exact List.suffix_refl _
  | cons op rest ih => intro st; exact List.IsSuffix.trans (step_rout st op) (ih _)

theorem run_append (a b : List Op) : ∀ st, run st (a ++ b) = run (run st a) b := by
  induction a with
  | nil => intro st; rfl
  | cons op rest ih => intro st; exact ih _


/-! ### C03: one piece inside the hypotheses -/

theorem pad_self (st : State) (n : Nat) (h : n ≤ st.line) : pad st n = st := by
  have : n - st.line = 0 := by omega
  simp [pad, this]

theorem step_piece_lines (st : State) (op : Op) (hp : op.isPiece = true) (hinv : Inv st)
    (hf : op.fires st.commenting = false) (hl : op.lineOk (countNewLines st.rout) = true) :
    (step st op).pads = st.pads ∧ (step st op).uncomments = st.uncomments ∧
    countNewLines (step st op).rout = countNewLines st.rout + countNewLines op.text := by
  unfold Inv at hinv
  cases op with
  | trivia c t =>
    cases c <;> simp only [step, writeTrivia, pushStr, uncomment, pushSpace, Op.text] <;>
      (repeat' split) <;> simp_all [Op.fires, cnl_append, cnl_reverse, cnl_cons_sp] <;> omega
  | token t l sc r =>
    by_cases ht : t.isEmpty = true
    · have : t = [] := by simpa using ht
      subst this
      simp [step, writeTokenContent, Op.text, cnl_nil]
    · have hc : st.commenting = false := by simpa [Op.fires, ht] using hf
      cases l with
      | none =>
        simp only [step, writeTokenContent, prepToken, hc, Op.text]
        (repeat' split) <;> simp_all [pushStr, pushSpace, cnl_append, cnl_reverse, cnl_cons_sp] <;> omega
      | some n =>
        have hn : n ≤ st.line := by
          simp [Op.lineOk, ht] at hl; omega
        simp only [step, writeTokenContent, prepToken, hc, Op.text]
        rw [show (if false = true then uncomment st else st) = st from rfl, pad_self st n hn]
        (repeat' split) <;> simp_all [pushStr, pushSpace, cnl_append, cnl_reverse, cnl_cons_sp] <;> omega
  | symbol t sc => simp [Op.isPiece] at hp
  | rawPush t => simp [Op.isPiece] at hp
  | rawSpace => simp [Op.isPiece] at hp

theorem step_piece_exact (st : State) (op : Op) (hp : op.isPiece = true) (hinv : Inv st)
    (hf : op.fires st.commenting = false) (hl : op.lineOk (countNewLines st.rout) = true)
    (hs : op.h3ok st.rout.head? st.lastEnd st.numDot = true) :
    (step st op).rout = op.text.reverse ++ st.rout ∧ (step st op).spaces = st.spaces ∧
    (step st op).lastEnd = op.endAfter st.lastEnd ∧ (step st op).numDot = op.numDotAfter st.numDot := by
  unfold Inv at hinv
  cases op with
  | trivia c t =>
    cases c <;> simp only [step, writeTrivia, pushStr, uncomment, pushSpace, Op.text, Op.endAfter,
      Op.numDotAfter] <;>
      (repeat' split) <;> simp_all [Op.fires, Op.h3ok]
  | token t l sc r =>
    by_cases ht : t.isEmpty = true
    · have : t = [] := by simpa using ht
      subst this
      simp [step, writeTokenContent, Op.text, Op.endAfter, Op.numDotAfter]
    · have hc : st.commenting = false := by simpa [Op.fires, ht] using hf
      have hnospace : ∀ c, t.head? = some c →
          (sc && !followsOriginal st.lastEnd r && needsSpace st c) = false := by
        intro c hc'
        cases sc with
        | false => rfl
        | true =>
          simp only [Op.h3ok, hc', Bool.or_eq_true] at hs
          rcases hs with hs | hs
          · simp [hs]
          · have : needsSpace st c = false := by simpa [needsSpace] using hs
            simp [this]
      cases l with
      | none =>
        simp only [step, writeTokenContent, prepToken, hc, Op.text, Op.endAfter, Op.numDotAfter]
        (repeat' split) <;> simp_all [pushStr, pushSpace]
      | some n =>
        have hn : n ≤ st.line := by
          simp [Op.lineOk, ht] at hl; omega
        simp only [step, writeTokenContent, prepToken, hc, Op.text, Op.endAfter, Op.numDotAfter]
        rw [show (if false = true then uncomment st else st) = st from rfl, pad_self st n hn]
        (repeat' split) <;> simp_all [pushStr, pushSpace]
  | symbol t sc => simp [Op.isPiece] at hp
  | rawPush t => simp [Op.isPiece] at hp
  | rawSpace => simp [Op.isPiece] at hp


theorem head_lastOf (t r : List UInt8) : (t.reverse ++ r).head? = lastOf r.head? t := by
  unfold lastOf
  cases t.reverse <;> simp

theorem texts_append (a b : List Op) : texts (a ++ b) = texts a ++ texts b := by
  induction a with
  | nil => rfl
  | cons op rest ih => simp [texts, ih]

theorem run_pieces_lines : ∀ (l : List Op) (st : State), (∀ op ∈ l, op.isPiece = true) → Inv st →
    linesOk (countNewLines st.rout) l = true → commentsOk st.commenting l = true →
    (run st l).pads = st.pads ∧ (run st l).uncomments = st.uncomments ∧
    countNewLines (run st l).rout = countNewLines st.rout + countNewLines (texts l) := by
  intro l
  induction l with
  | nil => intro st _ _ _ _; simp [run, texts, cnl_nil]
  | cons op rest ih =>
    intro st hp hinv hl hc
    simp only [linesOk, commentsOk, Bool.and_eq_true, Bool.not_eq_true'] at hl hc
    have h1 := step_piece_lines st op (hp op (by simp)) hinv hc.1 hl.1
    have h2 := ih (step st op) (fun o ho => hp o (by simp [ho])) (step_inv st op hinv)
      (by rw [h1.2.2]; exact hl.2) (by rw [step_commenting]; exact hc.2)
    simp only [run, texts, cnl_append]
    refine ⟨by rw [h2.1, h1.1], by rw [h2.2.1, h1.2.1], ?_⟩
    rw [h2.2.2, h1.2.2]; omega

theorem run_pieces_exact : ∀ (l : List Op) (st : State), (∀ op ∈ l, op.isPiece = true) → Inv st →
    linesOk (countNewLines st.rout) l = true → commentsOk st.commenting l = true →
    h3 st.rout.head? st.lastEnd st.numDot l = true →
    (run st l).rout = (texts l).reverse ++ st.rout ∧ (run st l).spaces = st.spaces := by
  intro l
  induction l with
  | nil => intro st _ _ _ _ _; simp [run, texts]
  | cons op rest ih =>
    intro st hp hinv hl hc hs
    simp only [linesOk, commentsOk, h3, Bool.and_eq_true, Bool.not_eq_true'] at hl hc hs
    have h0 := step_piece_lines st op (hp op (by simp)) hinv hc.1 hl.1
    have h1 := step_piece_exact st op (hp op (by simp)) hinv hc.1 hl.1 hs.1
    have h2 := ih (step st op) (fun o ho => hp o (by simp [ho])) (step_inv st op hinv)
      (by rw [h0.2.2]; exact hl.2) (by rw [step_commenting]; exact hc.2)
      (by rw [h1.1, h1.2.2.1, h1.2.2.2, head_lastOf]; exact hs.2)
    simp only [run, texts]
    refine ⟨?_, by rw [h2.2, h1.2.1]⟩
    rw [h2.1, h1.1]; simp

theorem tok_ops_isPiece (t : Tok) : ∀ op ∈ t.ops, op.isPiece = true := by
  intro op h
  simp only [Tok.ops, List.mem_append, List.mem_cons, List.mem_map] at h
  rcases h with ⟨v, _, rfl⟩ | rfl | ⟨v, _, rfl⟩ <;> rfl

theorem ops_isPiece (ts : List Tok) : ∀ op ∈ ops ts, op.isPiece = true := by
  induction ts with
  | nil => intro op h; simp [ops] at h
  | cons t rest ih =>
    intro op h
    simp only [ops, List.mem_append] at h
    rcases h with h | h
    · exact tok_ops_isPiece t op h
    · exact ih op h

end DarkluaModel.C03
