import DarkluaModel.C02.Spec
namespace DarkluaModel.C02
set_option maxRecDepth 100000 in
theorem b1 :
    ∀ a : Fin 128, ∀ b : Fin 128,
      lexFuse a.val b.val = true →
        shouldBreakWithSpace a.val b.val = true ∨ inPairs neverJuxtaposed a.val b.val = true := by
  decide +kernel
end DarkluaModel.C02
