import DarkluaModel.C02.Lemmas
namespace DarkluaModel.C02

def wrapIf (b : Bool) (e : E) : E := if b then .paren e else e

/-- the printer's parenthesis decisions as a tree transform: `printE e = flat (addParens e)` -/
def addParens : E → E
  | .atom k => .atom k
  | .negnum k => .negnum k
  | .paren e => .paren (addParens e)
  | .ifexp c a b => .ifexp (addParens c) (addParens a) (addParens b)
  | .cast e t => .cast (wrapIf (castNeedsParentheses e) (addParens e)) t
  | .un u x => .un u (wrapIf (unaryNeedsParentheses x) (addParens x))
  | .bin o l r =>
    .bin o (wrapIf (leftNeedsParentheses o l) (addParens l)) (wrapIf (rightNeedsParentheses o r) (addParens r))

theorem flat_wrapIf (b : Bool) (e : E) :
    flat (wrapIf b e) = if b then [.lp] ++ flat e ++ [.rp] else flat e := by
  cases b <;> simp [wrapIf, flat]

theorem printE_eq_flat (e : E) : printE e = flat (addParens e) := by
  induction e with
  | atom k => rfl
  | negnum k => rfl
  | paren e ih => simp [printE, addParens, flat, ih]
  | ifexp c a b ihc iha ihb => simp [printE, addParens, flat, ihc, iha, ihb]
  | cast e t ih => simp [printE, addParens, flat, flat_wrapIf, ih]
  | un u x ih => simp [printE, addParens, flat, flat_wrapIf, ih]
  | bin o l r ihl ihr => simp [printE, addParens, flat, flat_wrapIf, ihl, ihr]

theorem strip_norm_reify_wrapIf (b : Bool) (e : E) :
    strip (norm (reify (wrapIf b e))) = strip (norm (reify e)) := by
  cases b <;> simp [wrapIf, reify, norm, strip]

theorem norm_reify_addParens (e : E) : norm (reify (addParens e)) = norm (reify e) := by
  induction e with
  | atom k => rfl
  | negnum k => rfl
  | paren e ih => simp [addParens, reify, norm, ih]
  | ifexp c a b ihc iha ihb => simp [addParens, reify, norm, ihc, iha, ihb]
  | cast e t ih => simp [addParens, reify, norm, strip_norm_reify_wrapIf, ih]
  | un u x ih => simp [addParens, reify, norm, strip_norm_reify_wrapIf, ih]
  | bin o l r ihl ihr => simp [addParens, reify, norm, strip_norm_reify_wrapIf, ihl, ihr]

/-! table facts linking darklua's decisions to the reference priorities (each by `decide`) -/

theorem T1 : ∀ o ∈ BinOp.all, ∀ q ∈ BinOp.all,
    (if o.isLeftAssociative then o.precedes q else !(q.precedes o)) = false →
      leftPrio o ≤ leftPrio q ∧ leftPrio o ≤ min (rightPrio q) unaryPrio := by decide
theorem T2 : ∀ o ∈ BinOp.all, ∀ q ∈ BinOp.all,
    (if o.isRightAssociative then o.precedes q else !(q.precedes o)) = false →
      rightPrio o ≤ rightPrio q ∧ rightPrio o < leftPrio q := by decide
theorem T3 (o : BinOp) : o.precedesUnaryExpression = false → leftPrio o ≤ unaryPrio := by
  cases o <;> decide
theorem T3' (o : BinOp) : (o == .pow) = false → leftPrio o ≤ unaryPrio := by
  cases o <;> decide
theorem T5 (q : BinOp) : q.precedesUnaryExpression = true → unaryPrio < leftPrio q ∧ unaryPrio ≤ rightPrio q := by
  cases q <;> decide
theorem leftPrio_le (o : BinOp) : leftPrio o ≤ 100 := by cases o <;> decide
theorem rightPrio_lt (o : BinOp) : rightPrio o < 100 := by cases o <;> decide

def lpTop : E → Nat
  | .bin o _ _ => leftPrio o
  | _ => 100

theorem leftNeeds_bin_false {o q : BinOp} {l r : E} (h : leftNeedsParentheses o (.bin q l r) = false) :
    leftPrio o ≤ leftPrio q ∧ leftPrio o ≤ min (rightPrio q) unaryPrio := by
  apply T1 o (BinOp.mem_all o) q (BinOp.mem_all q)
  simp only [leftNeedsParentheses, Bool.or_eq_false_iff] at h
  exact h.1.1

theorem rightNeeds_bin_false {o q : BinOp} {l r : E} (h : rightNeedsParentheses o (.bin q l r) = false) :
    rightPrio o ≤ rightPrio q ∧ rightPrio o < leftPrio q :=
  T2 o (BinOp.mem_all o) q (BinOp.mem_all q) (by simpa [rightNeedsParentheses] using h)

theorem lprio_wrapIf (b : Bool) (e : E) : lprio (wrapIf b e) = if b then 100 else lprio e := by
  cases b <;> simp [wrapIf, lprio]
theorem rprio_wrapIf (b : Bool) (e : E) : rprio (wrapIf b e) = if b then 100 else rprio e := by
  cases b <;> simp [wrapIf, rprio]
theorem WP_wrapIf (b : Bool) (e : E) : WP (wrapIf b e) = WP e := by
  cases b <;> simp [wrapIf, WP]

theorem lprio_addParens (e : E) : lprio (addParens e) = lpTop e := by
  induction e with
  | bin o l r ihl _ =>
    simp only [addParens, lprio, lpTop, lprio_wrapIf]
    have := leftPrio_le o
    cases hn : leftNeedsParentheses o l with
    | true => simp; omega
    | false =>
      simp only [Bool.false_eq_true, if_false, ihl]
      cases l with
      | bin q l' r' => have := (leftNeeds_bin_false hn).1; simp only [lpTop]; omega
      | _ => simp only [lpTop]; omega
  | _ => simp [addParens, lprio, lpTop]

def rfloor : E → Nat
  | .bin q _ _ => min (rightPrio q) unaryPrio
  | .un _ _ | .negnum _ => unaryPrio
  | .ifexp _ _ _ => 0
  | _ => 100

theorem rprio_addParens (e : E) : endsWithIfExpression e = false → rfloor e ≤ rprio (addParens e) := by
  induction e with
  | atom k => intro _; simp [addParens, rprio, rfloor]
  | negnum k => intro _; simp [addParens, rprio, rfloor]
  | paren e _ => intro _; simp [addParens, rprio, rfloor]
  | cast e t _ => intro _; simp [addParens, rprio, rfloor]
  | ifexp c a b _ _ _ => intro h; simp [endsWithIfExpression] at h
  | un u x ih =>
    intro h
    simp only [endsWithIfExpression] at h
    simp only [addParens, rprio, rfloor, rprio_wrapIf]
    have hu8 : unaryPrio = 8 := rfl
    cases hn : unaryNeedsParentheses x with
    | true => simp [unaryPrio]
    | false =>
      simp only [Bool.false_eq_true, if_false]
      have := ih h
      cases x with
      | bin q l r =>
        have hq : q.precedesUnaryExpression = true := by simpa [unaryNeedsParentheses] using hn
        have := T5 q hq
        simp only [rfloor] at *; omega
      | ifexp c a b => simp [endsWithIfExpression] at h
      | _ => simp only [rfloor] at *; omega
  | bin q l r _ ihr =>
    intro h
    simp only [endsWithIfExpression] at h
    simp only [addParens, rprio, rfloor, rprio_wrapIf]
    have := rightPrio_lt q
    cases hn : rightNeedsParentheses q r with
    | true => simp; omega
    | false =>
      simp only [Bool.false_eq_true, if_false]
      have := ihr h
      cases r with
      | bin q' l' r' => have := (rightNeeds_bin_false hn).1; simp only [rfloor] at *; omega
      | ifexp c a b => simp [endsWithIfExpression] at h
      | _ => simp only [rfloor] at *; omega

theorem WP_addParens (e : E) : H2 e = true → WP (addParens e) = true := by
  induction e with
  | atom k => intro _; rfl
  | negnum k => intro _; rfl
  | paren e ih => intro h; simpa [addParens, WP] using ih (by simpa [H2] using h)
  | ifexp c a b ihc iha ihb =>
    intro h
    have h' : (H2 c = true ∧ H2 a = true) ∧ H2 b = true := by simpa [H2] using h
    simp [addParens, WP, ihc h'.1.1, iha h'.1.2, ihb h'.2]
  | cast e t ih =>
    intro h
    have h' : H2 e = true ∧ isNegnum e = false := by simpa [H2] using h
    have := ih h'.1
    simp only [addParens, WP, WP_wrapIf, this, Bool.true_and]
    cases e <;> simp_all [castNeedsParentheses, wrapIf, isSimple, addParens, isNegnum]
  | un u x ih =>
    intro h
    have := ih (by simpa [H2] using h)
    simp only [addParens, WP, WP_wrapIf, this, Bool.true_and, lprio_wrapIf, decide_eq_true_eq]
    cases hn : unaryNeedsParentheses x with
    | true => simp [unaryPrio]
    | false =>
      simp only [Bool.false_eq_true, if_false, lprio_addParens]
      cases x with
      | bin q l r =>
        have hq : q.precedesUnaryExpression = true := by simpa [unaryNeedsParentheses] using hn
        simpa [lpTop] using (T5 q hq).1
      | _ => simp [lpTop, unaryPrio]
  | bin o l r ihl ihr =>
    intro h
    have h' : (H2 l = true ∧ H2 r = true) ∧ ((o == .pow) = false ∨ isNegnum l = false) := by
      simpa [H2, and_assoc] using h
    have hl := ihl h'.1.1
    have hr := ihr h'.1.2
    simp only [addParens, WP, WP_wrapIf, hl, hr, Bool.true_and, lprio_wrapIf, rprio_wrapIf,
      Bool.and_eq_true, decide_eq_true_eq]
    have := leftPrio_le o
    have := rightPrio_lt o
    constructor
    · cases hn : leftNeedsParentheses o l with
      | true => simp; omega
      | false =>
        simp only [Bool.false_eq_true, if_false]
        have hif : endsWithIfExpression l = false := by
          simp only [leftNeedsParentheses, Bool.or_eq_false_iff] at hn
          exact hn.1.2
        have := rprio_addParens l hif
        cases l with
        | bin q l' r' => have := (leftNeeds_bin_false hn).2; simp only [rfloor] at *; omega
        | un u x =>
          have : o.precedesUnaryExpression = false := by
            simp only [leftNeedsParentheses, Bool.or_eq_false_iff] at hn
            exact hn.1.1
          have := T3 o this
          simp only [rfloor] at *; omega
        | negnum k =>
          have : (o == .pow) = false := by simpa [isNegnum] using h'.2
          have := T3' o this
          simp only [rfloor] at *; omega
        | ifexp c a b => simp [endsWithIfExpression] at hif
        | _ => simp only [rfloor] at *; omega
    · cases hn : rightNeedsParentheses o r with
      | true => simp; omega
      | false =>
        simp only [Bool.false_eq_true, if_false, lprio_addParens]
        cases r with
        | bin q l' r' => have := (rightNeeds_bin_false hn).2; simpa [lpTop] using this
        | _ => simp only [lpTop]; omega

end DarkluaModel.C02
