import DarkluaModel.C02.Lemmas
namespace DarkluaModel.C02

/-- how strongly the written form resists an operator arriving from the right: the smallest
right priority on its (unparenthesised) right edge. -/
def rprio : E → Nat
  | .atom _ | .paren _ | .cast _ _ => 100
  | .negnum _ => unaryPrio
  | .ifexp _ _ _ => 0
  | .un _ x => min unaryPrio (rprio x)
  | .bin o _ r => min (rightPrio o) (rprio r)

/-- the smallest left priority on the (unparenthesised) left edge: `sub limit` reads the whole
expression only if `limit < lprio`. -/
def lprio : E → Nat
  | .bin o l _ => min (leftPrio o) (lprio l)
  | _ => 100

def isSimple : E → Bool
  | .atom _ | .paren _ => true
  | _ => false

/-- "well parenthesised for the reference grammar": every operand can stand where it is. Defined
with the reference priorities only. -/
def WP : E → Bool
  | .atom _ | .negnum _ => true
  | .paren e => WP e
  | .ifexp c a b => WP c && WP a && WP b
  | .cast e _ => WP e && isSimple e
  | .un _ x => WP x && decide (unaryPrio < lprio x)
  | .bin o l r => WP l && WP r && decide (leftPrio o ≤ rprio l) && decide (rightPrio o < lprio r)

def headLeft : List Tok → Nat
  | t :: _ => match binOfTok t with
    | some o => leftPrio o
    | none => 0
  | [] => 0

def noCast : List Tok → Bool
  | .dcolon :: _ => false
  | _ => true

theorem castSuffix_noCast (e : E) {r : List Tok} (h : noCast r = true) : castSuffix e r = some (e, r) := by
  cases r with
  | nil => rfl
  | cons t ts => cases t <;> simp_all [noCast, castSuffix]

theorem loopEv_of_headLeft {limit : Nat} (e : E) {rest : List Tok} (h : headLeft rest ≤ limit) :
    LoopEv limit e rest (e, rest) := by
  cases rest with
  | nil => exact loopEv_nil limit e
  | cons t ts =>
    apply loopEv_stop
    intro o ho
    simpa [headLeft, ho] using h

theorem binOfTok_tokOfBin (o : BinOp) : binOfTok (tokOfBin o) = some o := by cases o <;> rfl
theorem unOfTok_tokOfUn (u : UnOp) : unOfTok (tokOfUn u) = some u := by cases u <;> rfl
theorem noCast_tokOfBin (o : BinOp) (ts : List Tok) : noCast (tokOfBin o :: ts) = true := by cases o <;> rfl
theorem leftPrio_pos (o : BinOp) : 0 < leftPrio o := by cases o <;> decide
theorem lprio_pos (t : E) : 0 < lprio t := by
  induction t with
  | bin o l r ihl _ => simp only [lprio]; have := leftPrio_pos o; omega
  | _ => simp [lprio]

/-- Main lemma: reading the tokens of a well-parenthesised tree `t` followed by `rest` at
`limit` is the same as having read `t` and continuing the operator loop on `rest`. -/
theorem sub_flat : (t : E) → WP t = true → ∀ (limit : Nat) (rest : List Tok) (out : E × List Tok),
    limit < lprio t → headLeft rest ≤ rprio t → noCast rest = true →
    LoopEv limit (reify t) rest out → SubEv limit (flat t ++ rest) out
  | .atom k, _, limit, rest, out, _, _, hc, hk => by
    simp only [flat, List.cons_append, List.nil_append]
    exact subEv_simple rfl (simpleEv_atom (castSuffix_noCast _ hc)) hk
  | .negnum k, _, limit, rest, out, _, hr, hc, hk => by
    simp only [flat, List.cons_append, List.nil_append]
    refine subEv_unary (u := .neg) rfl ?_ hk
    exact subEv_simple rfl (simpleEv_atom (castSuffix_noCast _ hc))
      (loopEv_of_headLeft _ (by simpa [rprio] using hr))
  | .paren e, hw, limit, rest, out, _, _, hc, hk => by
    have hw' : WP e = true := by simpa [WP] using hw
    have ih := sub_flat e hw' 0 (.rp :: rest) (reify e, .rp :: rest) (lprio_pos e)
      (by simp [headLeft, binOfTok]) rfl (loopEv_stop (by simp [binOfTok]))
    have : flat (.paren e) ++ rest = .lp :: (flat e ++ .rp :: rest) := by simp [flat]
    rw [this]
    exact subEv_simple rfl (simpleEv_paren ih (castSuffix_noCast _ hc)) hk
  | .ifexp c a b, hw, limit, rest, out, _, hr, hc, hk => by
    have hw' : WP c = true ∧ WP a = true ∧ WP b = true := by simpa [WP, and_assoc] using hw
    have h0 : headLeft rest = 0 := by simpa [rprio] using hr
    have : flat (.ifexp c a b) ++ rest = .kif :: (flat c ++ .kthen :: (flat a ++ .kelse :: (flat b ++ rest))) := by
      simp [flat]
    rw [this]
    have ihc := sub_flat c hw'.1 0 (.kthen :: (flat a ++ .kelse :: (flat b ++ rest))) (reify c, _) (lprio_pos c)
      (by simp [headLeft, binOfTok]) rfl (loopEv_stop (by simp [binOfTok]))
    have iha := sub_flat a hw'.2.1 0 (.kelse :: (flat b ++ rest)) (reify a, _) (lprio_pos a)
      (by simp [headLeft, binOfTok]) rfl (loopEv_stop (by simp [binOfTok]))
    have ihb := sub_flat b hw'.2.2 0 rest (reify b, rest) (lprio_pos b)
      (by omega) hc (loopEv_of_headLeft _ (by omega))
    exact subEv_simple rfl (simpleEv_if ihc iha ihb) hk
  | .cast (.atom k) t, _, limit, rest, out, _, _, _, hk => by
    simp only [flat, List.cons_append, List.nil_append]
    exact subEv_simple rfl (simpleEv_atom rfl) hk
  | .cast (.paren e) t, hw, limit, rest, out, _, _, _, hk => by
    have hw' : WP e = true := by simpa [WP, isSimple] using hw
    have ih := sub_flat e hw' 0 (.rp :: .dcolon :: .tname t :: rest) (reify e, _) (lprio_pos e)
      (by simp [headLeft, binOfTok]) rfl (loopEv_stop (by simp [binOfTok]))
    have : flat (.cast (.paren e) t) ++ rest = .lp :: (flat e ++ .rp :: .dcolon :: .tname t :: rest) := by
      simp [flat]
    rw [this]
    exact subEv_simple rfl (simpleEv_paren ih rfl) hk
  | .cast (.negnum _) _, hw, _, _, _, _, _, _, _ => by simp [WP, isSimple] at hw
  | .cast (.ifexp _ _ _) _, hw, _, _, _, _, _, _, _ => by simp [WP, isSimple] at hw
  | .cast (.cast _ _) _, hw, _, _, _, _, _, _, _ => by simp [WP, isSimple] at hw
  | .cast (.un _ _) _, hw, _, _, _, _, _, _, _ => by simp [WP, isSimple] at hw
  | .cast (.bin _ _ _) _, hw, _, _, _, _, _, _, _ => by simp [WP, isSimple] at hw
  | .un u x, hw, limit, rest, out, _, hr, hc, hk => by
    have hw' : WP x = true ∧ unaryPrio < lprio x := by simpa [WP] using hw
    have hr' : headLeft rest ≤ unaryPrio ∧ headLeft rest ≤ rprio x := by
      simp only [rprio] at hr; omega
    have ih := sub_flat x hw'.1 unaryPrio rest (reify x, rest) hw'.2 hr'.2 hc
      (loopEv_of_headLeft _ hr'.1)
    simp only [flat, List.cons_append]
    exact subEv_unary (unOfTok_tokOfUn u) ih hk
  | .bin o l r, hw, limit, rest, out, hl, hr, hc, hk => by
    have hw' : (WP l = true ∧ WP r = true) ∧ leftPrio o ≤ rprio l ∧ rightPrio o < lprio r := by
      simpa [WP, and_assoc] using hw
    have hl' : limit < leftPrio o ∧ limit < lprio l := by simp only [lprio] at hl; omega
    have hr' : headLeft rest ≤ rightPrio o ∧ headLeft rest ≤ rprio r := by
      simp only [rprio] at hr; omega
    have ihr := sub_flat r hw'.1.2 (rightPrio o) rest (reify r, rest) hw'.2.2 hr'.2 hc
      (loopEv_of_headLeft _ hr'.1)
    have : flat (.bin o l r) ++ rest = flat l ++ (tokOfBin o :: (flat r ++ rest)) := by simp [flat]
    rw [this]
    refine sub_flat l hw'.1.1 limit _ out hl'.2 ?_ (noCast_tokOfBin o _) ?_
    · simp [headLeft, binOfTok_tokOfBin, hw'.2.1]
    · exact loopEv_step (binOfTok_tokOfBin o) hl'.1 ihr hk

end DarkluaModel.C02
#print axioms DarkluaModel.C02.sub_flat
