import DarkluaModel.C02.Spec
namespace DarkluaModel.C02

def SubEv (limit : Nat) (ts : List Tok) (out : E × List Tok) : Prop :=
  ∃ F, ∀ f, F ≤ f → sub f limit ts = some out
def LoopEv (limit : Nat) (e : E) (ts : List Tok) (out : E × List Tok) : Prop :=
  ∃ F, ∀ f, F ≤ f → loop f limit e ts = some out
def SimpleEv (ts : List Tok) (out : E × List Tok) : Prop :=
  ∃ F, ∀ f, F ≤ f → simple f ts = some out

theorem loopEv_nil (limit : Nat) (e : E) : LoopEv limit e [] (e, []) := by
  refine ⟨1, fun f hf => ?_⟩
  obtain ⟨f', rfl⟩ : ∃ f', f = f' + 1 := ⟨f - 1, by omega⟩
  simp [loop]

theorem loopEv_stop {limit : Nat} {e : E} {t : Tok} {ts : List Tok}
    (h : ∀ o, binOfTok t = some o → leftPrio o ≤ limit) : LoopEv limit e (t :: ts) (e, t :: ts) := by
  refine ⟨1, fun f hf => ?_⟩
  obtain ⟨f', rfl⟩ : ∃ f', f = f' + 1 := ⟨f - 1, by omega⟩
  rw [loop]
  cases hb : binOfTok t with
  | none => simp
  | some o =>
    have := h o hb
    have : ¬ limit < leftPrio o := by omega
    simp [this]

theorem loopEv_step {limit : Nat} {e r : E} {t : Tok} {ts rest : List Tok} {o : BinOp} {out}
    (hb : binOfTok t = some o) (hl : limit < leftPrio o)
    (hs : SubEv (rightPrio o) ts (r, rest)) (hk : LoopEv limit (.bin o e r) rest out) :
    LoopEv limit e (t :: ts) out := by
  obtain ⟨F1, h1⟩ := hs
  obtain ⟨F2, h2⟩ := hk
  refine ⟨max F1 F2 + 1, fun f hf => ?_⟩
  obtain ⟨f', rfl⟩ : ∃ f', f = f' + 1 := ⟨f - 1, by omega⟩
  rw [loop]
  simp only [hb, hl, if_true]
  rw [h1 f' (by omega)]
  exact h2 f' (by omega)

theorem subEv_unary {limit : Nat} {e : E} {t : Tok} {ts r : List Tok} {u : UnOp} {out}
    (hu : unOfTok t = some u) (hs : SubEv unaryPrio ts (e, r)) (hk : LoopEv limit (.un u e) r out) :
    SubEv limit (t :: ts) out := by
  obtain ⟨F1, h1⟩ := hs
  obtain ⟨F2, h2⟩ := hk
  refine ⟨max F1 F2 + 1, fun f hf => ?_⟩
  obtain ⟨f', rfl⟩ : ∃ f', f = f' + 1 := ⟨f - 1, by omega⟩
  rw [sub]
  simp only [hu]
  rw [h1 f' (by omega)]
  exact h2 f' (by omega)

theorem subEv_simple {limit : Nat} {e : E} {t : Tok} {ts r : List Tok} {out}
    (hu : unOfTok t = none) (hs : SimpleEv (t :: ts) (e, r)) (hk : LoopEv limit e r out) :
    SubEv limit (t :: ts) out := by
  obtain ⟨F1, h1⟩ := hs
  obtain ⟨F2, h2⟩ := hk
  refine ⟨max F1 F2 + 1, fun f hf => ?_⟩
  obtain ⟨f', rfl⟩ : ∃ f', f = f' + 1 := ⟨f - 1, by omega⟩
  rw [sub]
  simp only [hu]
  rw [h1 f' (by omega)]
  exact h2 f' (by omega)

theorem simpleEv_atom {k : Nat} {r : List Tok} {out} (h : castSuffix (.atom k) r = some out) :
    SimpleEv (.atom k :: r) out := by
  refine ⟨1, fun f hf => ?_⟩
  obtain ⟨f', rfl⟩ : ∃ f', f = f' + 1 := ⟨f - 1, by omega⟩
  rw [simple]; exact h

theorem simpleEv_paren {e : E} {r r' : List Tok} {out}
    (hs : SubEv 0 r (e, .rp :: r')) (h : castSuffix (.paren e) r' = some out) :
    SimpleEv (.lp :: r) out := by
  obtain ⟨F1, h1⟩ := hs
  refine ⟨F1 + 1, fun f hf => ?_⟩
  obtain ⟨f', rfl⟩ : ∃ f', f = f' + 1 := ⟨f - 1, by omega⟩
  rw [simple]
  rw [h1 f' (by omega)]
  exact h

theorem simpleEv_if {c a b : E} {r r1 r2 r3 : List Tok}
    (hc : SubEv 0 r (c, .kthen :: r1)) (ha : SubEv 0 r1 (a, .kelse :: r2)) (hb : SubEv 0 r2 (b, r3)) :
    SimpleEv (.kif :: r) (.ifexp c a b, r3) := by
  obtain ⟨F1, h1⟩ := hc
  obtain ⟨F2, h2⟩ := ha
  obtain ⟨F3, h3⟩ := hb
  refine ⟨max F1 (max F2 F3) + 1, fun f hf => ?_⟩
  obtain ⟨f', rfl⟩ : ∃ f', f = f' + 1 := ⟨f - 1, by omega⟩
  rw [simple]
  simp only [h1 f' (by omega), h2 f' (by omega), h3 f' (by omega)]

end DarkluaModel.C02
