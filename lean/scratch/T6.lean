import DarkluaModel.C02.Writer
namespace DarkluaModel.C02

def isWs (c : Nat) : Bool := c == SP || c == NL
def eraseWs (l : List Nat) : List Nat := l.filter fun c => !isWs c

/-- what an operation writes besides separators -/
def content : Op → List Nat
  | .pushStr s | .rawPushStr s | .pushStrAndBreakIf s => s
  | .pushChar c | .mergeChar c | .rawPushChar c | .pushCharAndBreakIf c => [c]
  | _ => []

/-- the condition under which darklua intends a separator before the content -/
def mustBreak (w : W) : Op → Bool
  | .pushStr (c :: _) => needsSpace w c
  | .pushChar c => needsSpace w c
  | .pushSpaceIfNeeded c _ => needsSpace w c
  | .pushStrAndBreakIf s => breakPredicate s (lastPushStr w)
  | .pushCharAndBreakIf c => breakPredicate [c] (lastPushStr w)
  | _ => false

def Op.isMerge : Op → Bool
  | .mergeChar _ => true
  | _ => false

theorem eraseWs_append (a b : List Nat) : eraseWs (a ++ b) = eraseWs a ++ eraseWs b := by
  simp [eraseWs]
theorem eraseWs_reverse (a : List Nat) : eraseWs a.reverse = (eraseWs a).reverse := by
  simp [eraseWs, List.filter_reverse]
theorem eraseWs_replicate_sp (n : Nat) : eraseWs (List.replicate n SP) = [] := by
  simp [eraseWs, isWs]
theorem eraseWs_dropWhile_sp (l : List Nat) : eraseWs (l.dropWhile (· == SP)) = eraseWs l := by
  induction l with
  | nil => rfl
  | cons a t ih =>
    rw [List.dropWhile_cons]
    by_cases h : (a == SP) = true
    · have ha : a = SP := by simpa using h
      subst ha
      simpa [eraseWs, isWs] using ih
    · simp [h]

/-- a break step only adds whitespace on top of the output and leaves `rout` otherwise alone -/
structure AddsWs (w w' : W) : Prop where
  sep : ∃ s, w'.rout = s ++ w.rout ∧ ∀ c ∈ s, isWs c = true

theorem addsWs_refl (w : W) : AddsWs w w := ⟨⟨[], rfl, by simp⟩⟩
theorem addsWs_trans {a b c : W} (h1 : AddsWs a b) (h2 : AddsWs b c) : AddsWs a c := by
  obtain ⟨s1, e1, w1⟩ := h1.sep
  obtain ⟨s2, e2, w2⟩ := h2.sep
  refine ⟨⟨s2 ++ s1, by rw [e2, e1, List.append_assoc], ?_⟩⟩
  intro c hc
  rcases List.mem_append.mp hc with h | h
  · exact w2 c h
  · exact w1 c h

theorem addsWs_newLine (w : W) : AddsWs w (pushNewLine w) := ⟨⟨[NL], rfl, by simp [isWs]⟩⟩
theorem addsWs_space (w : W) : AddsWs w (pushSpace w) := ⟨⟨[SP], rfl, by simp [isWs]⟩⟩
theorem addsWs_indentation (w : W) : AddsWs w (writeIndentation w) :=
  ⟨⟨(List.replicate (4 * w.indent) SP).reverse, rfl, by simp [isWs]⟩⟩
theorem addsWs_indentIf (w : W) : AddsWs w (indentIfLineStart w) := by
  unfold indentIfLineStart; split
  · exact addsWs_indentation w
  · exact addsWs_refl w

theorem addsWs_newLineIfNeeded (w : W) (n : Nat) : AddsWs w (pushNewLineIfNeeded w n) := by
  unfold pushNewLineIfNeeded
  refine addsWs_trans (addsWs_indentIf w) ?_
  simp only []
  split
  · split
    · exact addsWs_newLine _
    · split
      · exact addsWs_newLine _
      · exact addsWs_refl _
  · exact addsWs_refl _

theorem addsWs_spaceIfNeeded (w : W) (c n : Nat) : AddsWs w (pushSpaceIfNeeded w c n) := by
  unfold pushSpaceIfNeeded
  refine addsWs_trans (addsWs_indentIf w) ?_
  simp only []
  split
  · split
    · exact addsWs_newLine _
    · split
      · split
        · exact addsWs_newLine _
        · exact addsWs_space _
      · split
        · exact addsWs_newLine _
        · exact addsWs_refl _
  · split
    · exact addsWs_space _
    · exact addsWs_refl _


/-- whitespace was added, and at least one character of it -/
def AddsWsNE (w w' : W) : Prop := ∃ s, w'.rout = s ++ w.rout ∧ (∀ c ∈ s, isWs c = true) ∧ s ≠ []

theorem addsWsNE_then {a b c : W} (h1 : AddsWsNE a b) (h2 : AddsWs b c) : AddsWsNE a c := by
  obtain ⟨s1, e1, w1, n1⟩ := h1
  obtain ⟨s2, e2, w2⟩ := h2.sep
  refine ⟨s2 ++ s1, by rw [e2, e1, List.append_assoc], ?_, by simp [n1]⟩
  intro c hc
  rcases List.mem_append.mp hc with h | h
  · exact w2 c h
  · exact w1 c h

theorem addsWsNE_newLine (w : W) : AddsWsNE w (pushNewLine w) := ⟨[NL], rfl, by simp [isWs], by simp⟩
theorem addsWsNE_space (w : W) : AddsWsNE w (pushSpace w) := ⟨[SP], rfl, by simp [isWs], by simp⟩

/-- `push_space_if_needed` after the indentation prologue -/
def psinCore (w : W) (next n : Nat) : W :=
  if canAddNewLine w then
    if w.lineLen ≥ w.span then pushNewLine w
    else
      let total := w.lineLen + n
      if needsSpace w next then
        if total + 1 > w.span then pushNewLine w else pushSpace w
      else if total > w.span then pushNewLine w
      else w
  else if needsSpace w next then pushSpace w
  else w

theorem pushSpaceIfNeeded_eq (w : W) (c n : Nat) :
    pushSpaceIfNeeded w c n = psinCore (indentIfLineStart w) c n := rfl

theorem addsWs_psinCore (w : W) (c n : Nat) : AddsWs w (psinCore w c n) := by
  unfold psinCore
  split
  · split
    · exact addsWs_newLine _
    · simp only []
      split
      · split
        · exact addsWs_newLine _
        · exact addsWs_space _
      · split
        · exact addsWs_newLine _
        · exact addsWs_refl _
  · split
    · exact addsWs_space _
    · exact addsWs_refl _

theorem addsWsNE_psinCore (w : W) (c n : Nat) (h : needsSpace w c = true) : AddsWsNE w (psinCore w c n) := by
  unfold psinCore
  simp only [h, if_true]
  repeat' split
  all_goals first | exact addsWsNE_newLine _ | exact addsWsNE_space _

/-- `push_space_if_needed` writes at least one whitespace character whenever
`should_break_with_space (last written char) next` holds — for every column span (0 and 1
included), indentation level and `can_add_new_line` stack. -/
theorem spaceIfNeeded_separates (w : W) (c n : Nat) (h : needsSpace w c = true) :
    AddsWsNE w (pushSpaceIfNeeded w c n) := by
  rw [pushSpaceIfNeeded_eq]
  unfold indentIfLineStart
  split
  · -- indentation written: 4 * indent > 0 spaces
    rename_i hc
    have hi : w.indent ≠ 0 := by
      simp only [Bool.and_eq_true, bne_iff_ne] at hc; exact hc.2
    have : AddsWsNE w (writeIndentation w) := by
      refine ⟨(List.replicate (4 * w.indent) SP).reverse, rfl, by simp [isWs], ?_⟩
      intro he
      have := congrArg List.length he
      simp at this
      omega
    exact addsWsNE_then this (addsWs_psinCore _ c n)
  · exact addsWsNE_psinCore w c n h


theorem AddsWs.toSep {w w' : W} (h : AddsWs w w') (hb : Bool) (hne : hb = true → AddsWsNE w w') :
    ∃ sep, w'.rout = sep ++ w.rout ∧ (∀ c ∈ sep, isWs c = true) ∧ (hb = true → sep ≠ []) := by
  cases hb with
  | false => obtain ⟨s, e, ws⟩ := h.sep; exact ⟨s, e, ws, by simp⟩
  | true => obtain ⟨s, e, ws, ne⟩ := hne rfl; exact ⟨s, e, ws, fun _ => ne⟩

theorem breakIf_sep (w : W) (p : Bool) (n : Nat) :
    let w' := if p then (if fits w (1 + n) then pushSpace w else pushNewLine w)
              else if !fits w n then pushNewLine w else w
    ∃ sep, w'.rout = sep ++ w.rout ∧ (∀ c ∈ sep, isWs c = true) ∧ (p = true → sep ≠ []) := by
  intro w'
  cases p with
  | true =>
    simp only [w', if_true]
    split
    · exact ⟨[SP], rfl, by simp [isWs], by simp⟩
    · exact ⟨[NL], rfl, by simp [isWs], by simp⟩
  | false =>
    simp only [w', Bool.false_eq_true, if_false]
    split
    · exact ⟨[NL], rfl, by simp [isWs], by simp⟩
    · exact ⟨[], rfl, by simp, by simp⟩

/-- Every operation except `merge_char` appends `separator ++ content` to the output, where the
separator consists of spaces/newlines only and is non-empty whenever darklua's criterion for
that operation asks for a break. -/
theorem step_appends (w : W) (op : Op) (hm : op.isMerge = false) :
    ∃ sep, (step w op).rout = (content op).reverse ++ (sep ++ w.rout) ∧ (∀ c ∈ sep, isWs c = true) ∧
      (mustBreak w op = true → sep ≠ []) := by
  cases op with
  | mergeChar c => simp [Op.isMerge] at hm
  | pushStr s =>
    cases s with
    | nil => exact ⟨[], by simp [step, pushStr, content], by simp, by simp [mustBreak]⟩
    | cons c t =>
      obtain ⟨sep, e, ws, ne⟩ := (addsWs_spaceIfNeeded w c (c :: t).length).toSep (needsSpace w c)
        (spaceIfNeeded_separates w c _)
      simp only [List.length_cons] at e
      exact ⟨sep, by simp [step, pushStr, rawPushStr, content, e], ws, by simpa [mustBreak] using ne⟩
  | pushChar c =>
    obtain ⟨sep, e, ws, ne⟩ := (addsWs_spaceIfNeeded w c 1).toSep (needsSpace w c)
      (spaceIfNeeded_separates w c _)
    exact ⟨sep, by simp [step, pushChar, content, e], ws, by simpa [mustBreak] using ne⟩
  | pushNewLineIfNeeded n =>
    obtain ⟨sep, e, ws⟩ := (addsWs_newLineIfNeeded w n).sep
    exact ⟨sep, by simp [step, content, e], ws, by simp [mustBreak]⟩
  | pushSpaceIfNeeded c n =>
    obtain ⟨sep, e, ws, ne⟩ := (addsWs_spaceIfNeeded w c n).toSep (needsSpace w c)
      (spaceIfNeeded_separates w c _)
    exact ⟨sep, by simp [step, content, e], ws, by simpa [mustBreak] using ne⟩
  | pushNewLine => exact ⟨[NL], by simp [step, content, pushNewLine], by simp [isWs], by simp⟩
  | pushSpace => exact ⟨[SP], by simp [step, content, pushSpace], by simp [isWs], by simp⟩
  | rawPushStr s => exact ⟨[], by simp [step, content, rawPushStr], by simp, by simp [mustBreak]⟩
  | rawPushChar c => exact ⟨[], by simp [step, content, rawPushChar], by simp, by simp [mustBreak]⟩
  | pushStrAndBreakIf s =>
    obtain ⟨sep, e, ws, ne⟩ := breakIf_sep w (breakPredicate s (lastPushStr w)) s.length
    refine ⟨sep, ?_, ws, by simpa [mustBreak] using ne⟩
    simp only [step, pushStrAndBreakIf, rawPushStr, content]
    rw [e]
  | pushCharAndBreakIf c =>
    obtain ⟨sep, e, ws, ne⟩ := breakIf_sep w (breakPredicate [c] (lastPushStr w)) 1
    refine ⟨sep, ?_, ws, by simpa [mustBreak] using ne⟩
    simp only [step, pushCharAndBreakIf, rawPushChar, content]
    simp only [show (1 : Nat) + 1 = 2 from rfl] at e
    rw [e]; simp
  | pushCanAddNewLine b => exact ⟨[], by simp [step, content], by simp, by simp [mustBreak]⟩
  | popCanAddNewLine => exact ⟨[], by simp [step, content], by simp, by simp [mustBreak]⟩
  | pushIndentation => exact ⟨[], by simp [step, content], by simp, by simp [mustBreak]⟩
  | popIndentation => exact ⟨[], by simp [step, content], by simp, by simp [mustBreak]⟩
  | writeIndentation =>
    obtain ⟨sep, e, ws⟩ := (addsWs_indentation w).sep
    exact ⟨sep, by simp [step, content, e], ws, by simp [mustBreak]⟩


theorem eraseWs_allWs {s : List Nat} (h : ∀ c ∈ s, isWs c = true) : eraseWs s = [] := by
  simp only [eraseWs, List.filter_eq_nil_iff]
  intro c hc; simp [h c hc]

theorem step_erase (w : W) (op : Op) :
    eraseWs (step w op).rout = eraseWs (content op).reverse ++ eraseWs w.rout := by
  cases hm : op.isMerge with
  | false =>
    obtain ⟨sep, e, ws, _⟩ := step_appends w op hm
    rw [e, eraseWs_append, eraseWs_append, eraseWs_allWs ws, List.nil_append]
  | true =>
    cases op with
    | mergeChar c =>
      simp only [step, mergeChar, content]
      split
      · simp only [rawPushChar, List.reverse_cons, List.reverse_nil, List.nil_append]
        exact eraseWs_append [c] w.rout
      · have h1 : eraseWs (c :: (List.take w.lastPush w.rout ++
            NL :: List.dropWhile (fun x => x == SP) (List.drop w.lastPush w.rout)))
            = eraseWs [c] ++ (eraseWs (List.take w.lastPush w.rout) ++
                eraseWs (List.dropWhile (fun x => x == SP) (List.drop w.lastPush w.rout))) := by
          have hnl : eraseWs [NL] = [] := by decide
          show eraseWs ([c] ++ (List.take w.lastPush w.rout ++
            ([NL] ++ List.dropWhile (fun x => x == SP) (List.drop w.lastPush w.rout)))) = _
          rw [eraseWs_append, eraseWs_append, eraseWs_append, hnl, List.nil_append]
        simp only [List.reverse_cons, List.reverse_nil, List.nil_append]
        rw [h1, eraseWs_dropWhile_sp, ← eraseWs_append, List.take_append_drop]
    | _ => simp [Op.isMerge] at hm

/-- Nothing but spaces and newlines is ever added besides the contents, nothing is lost,
duplicated or reordered — `merge_char` included, for every column span. -/
theorem run_erase (w : W) (ops : List Op) :
    eraseWs (run w ops).output = eraseWs w.output ++ eraseWs (ops.flatMap content) := by
  induction ops generalizing w with
  | nil => simp [run, eraseWs]
  | cons op rest ih =>
    have h := step_erase w op
    simp only [run, List.foldl_cons] at ih ⊢
    rw [ih (step w op)]
    simp only [W.output, eraseWs_reverse, h, List.reverse_append, List.reverse_reverse,
      List.flatMap_cons, eraseWs_append, List.append_assoc]

/-- each operation of the sequence appends `separator ++ content`, with a whitespace-only
separator that is non-empty whenever the break criterion of that operation holds -/
def Separated (w : W) : List Op → Prop
  | [] => True
  | op :: rest =>
    (∃ sep, (step w op).output = w.output ++ sep ++ content op ∧ (∀ c ∈ sep, isWs c = true) ∧
      (mustBreak w op = true → sep ≠ [])) ∧ Separated (step w op) rest

theorem run_separated (w : W) (ops : List Op) (h : ∀ op ∈ ops, op.isMerge = false) : Separated w ops := by
  induction ops generalizing w with
  | nil => trivial
  | cons op rest ih =>
    refine ⟨?_, ih _ (fun o ho => h o (List.mem_cons_of_mem _ ho))⟩
    obtain ⟨sep, e, ws, ne⟩ := step_appends w op (h op List.mem_cons_self)
    refine ⟨sep.reverse, ?_, by simpa using ws, by simpa using ne⟩
    simp [W.output, e]

end DarkluaModel.C02
