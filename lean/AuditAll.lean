-- Global audit (lead's tool, `lake env lean AuditAll.lean`): no constant of the development depends on `sorryAx`
-- or on an axiom outside {propext, Classical.choice, Quot.sound}. The per-property audits (Audit/Cxx.lean, generated
-- by ./check) cover the theorems of Cxx/Thm.lean; this one covers every declaration, shared layers included.
import Lean
import DarkluaModel.C01.Thm
import DarkluaModel.C02.Thm
import DarkluaModel.C03.Thm
import DarkluaModel.C04.Thm
import DarkluaModel.C05.Thm
import DarkluaModel.C06.Thm
import DarkluaModel.C07.Thm
import DarkluaModel.C08.Thm
import DarkluaModel.C09.Thm
import DarkluaModel.C10.Thm
import DarkluaModel.C11.Thm
import DarkluaModel.C12.Thm
import DarkluaModel.C13.Thm
import DarkluaModel.C14.Thm
import DarkluaModel.C15.Thm
import DarkluaModel.C16.Thm
import DarkluaModel.C17.Thm
import DarkluaModel.C18.Thm
import DarkluaModel.C19.Thm
import DarkluaModel.C20.Thm
import DarkluaModel.Shared.VisitorSoundHeapU
import DarkluaModel.Shared.VisitorSoundHeapV
import DarkluaModel.Shared.VisitorSoundCompose
open Lean Elab Command

private def allowed : List Name := [`propext, `Classical.choice, `Quot.sound]

run_cmd do
  let env ← getEnv
  let mods := env.header.moduleNames
  let mut bad : Array (Name × Name) := #[]
  let mut n : Nat := 0
  -- direct axiom use per constant (transitivity follows because every constant of our modules is scanned)
  for (c, ci) in env.constants.toList do
    let some idx := env.getModuleIdxFor? c | continue
    let modName := mods[idx.toNat]!
    unless (`DarkluaModel).isPrefixOf modName do continue
    n := n + 1
    let used := (ci.type.getUsedConstants ++ (ci.value?.map (·.getUsedConstants)).getD #[])
    for u in used do
      match env.find? u with
      | some (.axiomInfo _) => unless allowed.contains u do bad := bad.push (c, u)
      | _ => pure ()
    if let .axiomInfo _ := ci then bad := bad.push (c, c)
  logInfo m!"audited {n} constants of DarkluaModel.*: {bad.size} uses of axioms outside propext/Classical.choice/Quot.sound"
  for (c, u) in bad do logError m!"{c} uses {u}"
