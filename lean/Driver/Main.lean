import DarkluaModel.Shared.Driver
import DarkluaModel.C01.Driver
import DarkluaModel.C02.Driver
import DarkluaModel.C03.Driver
import DarkluaModel.C04.Driver
import DarkluaModel.C05.Driver
import DarkluaModel.C06.Driver
import DarkluaModel.C07.Driver
import DarkluaModel.C08.Driver
import DarkluaModel.C09.Driver
import DarkluaModel.C10.Driver
import DarkluaModel.C11.Driver
import DarkluaModel.C12.Driver
import DarkluaModel.C13.Driver
import DarkluaModel.C14.Driver
import DarkluaModel.C15.Driver
import DarkluaModel.C16.Driver
import DarkluaModel.C17.Driver
import DarkluaModel.C18.Driver
import DarkluaModel.C19.Driver
import DarkluaModel.C20.Driver
import DarkluaModel.Shared.AstSexp
/-!
Line-protocol driver. One request per line: `<prop>.<op> <arg>*` (space separated; byte
strings are hex, trees are S-expressions without spaces inside atoms). One answer line per
request. Imports only `Model`/`Driver` files, which are core-only, so this links as an exe.
-/
open DarkluaModel

/-- `ast.echo <block sexp>` / `ast.echoexpr <expr sexp>`: parse with the shared AST codec and print
it back (`error` when the reader rejects it). Used by `dlv astcheck` to tie the Rust codec
(`harness/src/astsexp.rs`) to the Lean one (`Shared/AstSexp.lean`). -/
def astHandle (op : String) (args : List String) : String :=
  let text := " ".intercalate args
  match op with
  | "echo" =>
    match Block.parse? text with
    | some b => b.toSexp.toString
    | none => "error"
  | "echoexpr" =>
    match Expr.parse? text with
    | some e => e.toSexp.toString
    | none => "error"
  | _ => "unknown-op " ++ op

def dispatch (line : String) : String :=
  match line.trimAscii.toString.splitOn " " with
  | [] => "bad-request"
  | head :: args =>
    match head.splitOn "." with
    | [prop, op] =>
      match prop with
      | "c01" => C01.handle op args
      | "c02" => C02.handle op args
      | "c03" => C03.handle op args
      | "c04" => C04.handle op args
      | "c05" => C05.handle op args
      | "c06" => C06.handle op args
      | "c07" => C07.handle op args
      | "c08" => C08.handle op args
      | "c09" => C09.handle op args
      | "c10" => C10.handle op args
      | "c11" => C11.handle op args
      | "c12" => C12.handle op args
      | "c13" => C13.handle op args
      | "c14" => C14.handle op args
      | "c15" => C15.handle op args
      | "c16" => C16.handle op args
      | "c17" => C17.handle op args
      | "c18" => C18.handle op args
      | "c19" => C19.handle op args
      | "c20" => C20.handle op args
      | "sem" => Shared.handle op args
      | "ast" => astHandle op args
      | "ping" => "pong"
      | _ => "unknown-prop " ++ prop
    | _ => if head == "ping" then "pong" else "bad-request"

partial def loop (hin : IO.FS.Stream) (hout : IO.FS.Stream) : IO Unit := do
  let line ← hin.getLine
  if line.isEmpty then return ()
  hout.putStrLn (dispatch line)
  hout.flush
  loop hin hout

def main : IO Unit := do
  loop (← IO.getStdin) (← IO.getStdout)
