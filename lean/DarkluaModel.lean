-- Root of the `DarkluaModel` library: models (import-free) and theorems.
import DarkluaModel.Util.Sexp
