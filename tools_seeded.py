#!/usr/bin/env python3
"""Lead's tool: run the registered quick check of each seeded change's property against /repo ITSELF with the
change applied (git -C /repo apply …; ./check …; git -C /repo checkout -- .), and record the outcome in
seeded/<id>/final.json. Only run when no other agent builds against /repo. Usage:
  tools_seeded.py [--tier quick|thorough] [--only ID ...] [--also C01,C08]
"""
import argparse, glob, json, os, re, subprocess, sys, time
ROOT = os.path.dirname(os.path.abspath(__file__))

def sh(cmd, cwd=ROOT, timeout=None):
    p = subprocess.run(cmd, cwd=cwd, stdout=subprocess.PIPE, stderr=subprocess.STDOUT, text=True, timeout=timeout)
    return p.returncode, p.stdout

def main():
    ap = argparse.ArgumentParser()
    ap.add_argument('--tier', default='quick')
    ap.add_argument('--only', nargs='*')
    a = ap.parse_args()
    rc, out = sh(['git', 'status', '--porcelain', '--untracked-files=no'], '/repo')
    if out.strip():
        print('/repo is not clean:', out); sys.exit(2)
    head = sh(['git', 'rev-parse', '--short', 'HEAD'], '/repo')[1].strip()
    results = []
    for d in sorted(glob.glob(os.path.join(ROOT, 'seeded', '*'))):
        sid = os.path.basename(d)
        if a.only and sid not in a.only:
            continue
        meta = json.load(open(os.path.join(d, 'meta.json')))
        prop = meta.get('property') or sid.split('-')[0]
        patch = os.path.join(d, 'patch.diff')
        rc, out = sh(['git', 'apply', '--check', patch], '/repo')
        rec = {'id': sid, 'property': prop, 'repo_head': head, 'tier': a.tier, 'at': time.strftime('%Y-%m-%dT%H:%M:%SZ', time.gmtime())}
        if rc != 0:
            rec.update({'applies': False, 'apply_error': out.strip()[:400]})
            print(f'{sid}: patch does not apply on {head}')
        else:
            sh(['git', 'apply', patch], '/repo')
            try:
                t0 = time.time()
                rc, out = sh([os.path.join(ROOT, 'check'), prop, '--tier', a.tier], ROOT, timeout=3600)
                viol = [l for l in out.splitlines() if l.startswith('VIOLATION')]
                with_input = [l for l in viol if not l.endswith('no-failing-input-found')]
                summary = [l for l in out.splitlines() if l.startswith('check ')]
                rec.update({'applies': True, 'exit': rc, 'violation_lines': len(viol), 'with_failing_input': len(with_input),
                            'detected': rc == 1 and len(viol) > 0, 'failing_input_found': len(with_input) > 0,
                            'summary': summary[-1] if summary else '', 'wall_s': round(time.time() - t0, 1),
                            'sample': viol[:3]})
                # keep one replay as illustration
                if with_input:
                    m = re.search(r'replay=(\S+)', with_input[0])
                    if m and os.path.exists(os.path.join(ROOT, m.group(1))):
                        rep = json.load(open(os.path.join(ROOT, m.group(1))))
                        rec['replay_excerpt'] = {'kind': rep.get('kind'), 'check': rep.get('check'), 'what': str(rep.get('what'))[:300],
                                                 'input': json.dumps(rep.get('input'))[:600]}
                print(f"{sid}: exit={rc} violations={len(viol)} with_input={len(with_input)} {rec['summary']}")
            finally:
                sh(['git', 'checkout', '--', '.'], '/repo')
                sh(['git', 'checkout', '--', 'evidence/' + prop + '.json'], ROOT)
                sh(['rm', '-rf', os.path.join(ROOT, 'replays', prop)], ROOT)
        json.dump(rec, open(os.path.join(d, 'final.json'), 'w'), indent=1)
        results.append(rec)
    rc, out = sh(['git', 'status', '--porcelain', '--untracked-files=no'], '/repo')
    print('repo clean after run:', not out.strip())
    det = sum(1 for r in results if r.get('detected'))
    print(f'{det}/{len(results)} detected at tier {a.tier}; not applying: {[r["id"] for r in results if not r.get("applies")]}; missed: {[r["id"] for r in results if r.get("applies") and not r.get("detected")]}')

if __name__ == '__main__':
    main()
