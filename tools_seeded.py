#!/usr/bin/env python3
"""Lead's tool: run the registered quick check of each seeded change's property against /repo ITSELF with the
change applied (git -C /repo apply …; ./check …; git -C /repo checkout -- .), and record the outcome in
seeded/<id>/final.json. Only run when no other agent builds against /repo. Usage:
  tools_seeded.py [--tier quick|thorough] [--only ID ...] [--also C01,C08]
"""
import argparse, glob, json, os, re, subprocess, sys, time
ROOT = os.path.dirname(os.path.abspath(__file__))

def sh(cmd, cwd=ROOT, timeout=None):
    p = subprocess.run(cmd, cwd=cwd, stdout=subprocess.PIPE, stderr=subprocess.STDOUT, text=True, timeout=timeout)
    return p.returncode, p.stdout

def run_one(d, a, head, repo, env_extra, mode, out_name='final.json'):
    sid = os.path.basename(d)
    meta = json.load(open(os.path.join(d, 'meta.json')))
    prop = meta.get('property') or sid.split('-')[0]
    patch = os.path.join(d, 'patch.diff')
    rc, out = sh(['git', 'apply', '--check', patch], repo)
    rec = {'id': sid, 'property': prop, 'repo_head': head, 'tier': a.tier, 'mode': mode, 'at': time.strftime('%Y-%m-%dT%H:%M:%SZ', time.gmtime())}
    if rc != 0:
        rec.update({'applies': False, 'apply_error': out.strip()[:400]})
        print(f'{sid}: patch does not apply on {head}', flush=True)
    else:
        sh(['git', 'apply', patch], repo)
        try:
            t0 = time.time()
            env = dict(os.environ); env.update(env_extra)
            p = subprocess.run([os.path.join(ROOT, 'check'), prop, '--tier', a.tier], cwd=ROOT, env=env, stdout=subprocess.PIPE, stderr=subprocess.STDOUT, text=True, timeout=5400)
            rc, out = p.returncode, p.stdout
            viol = [l for l in out.splitlines() if l.startswith('VIOLATION')]
            with_input = [l for l in viol if not l.endswith('no-failing-input-found')]
            summary = [l for l in out.splitlines() if l.startswith('check ')]
            rec.update({'applies': True, 'exit': rc, 'violation_lines': len(viol), 'with_failing_input': len(with_input),
                        'detected': rc == 1 and len(viol) > 0, 'failing_input_found': len(with_input) > 0,
                        'summary': summary[-1] if summary else '', 'wall_s': round(time.time() - t0, 1), 'sample': viol[:3]})
            if with_input:
                m = re.search(r'replay=(\S+)', with_input[0])
                if m and os.path.exists(os.path.join(ROOT, m.group(1))):
                    rep = json.load(open(os.path.join(ROOT, m.group(1))))
                    rec['replay_excerpt'] = {'kind': rep.get('kind'), 'check': rep.get('check'), 'what': str(rep.get('what'))[:300], 'input': json.dumps(rep.get('input'))[:600]}
            print(f"{sid}: exit={rc} violations={len(viol)} with_input={len(with_input)} {rec['summary']}", flush=True)
        finally:
            sh(['git', 'checkout', '--', '.'], repo)
            sh(['rm', '-rf', os.path.join(ROOT, 'replays', prop)], ROOT)
    json.dump(rec, open(os.path.join(d, out_name), 'w'), indent=1)
    return rec

def scratch_mode(a):
    import threading, queue
    head = sh(['git', 'rev-parse', '--short', 'HEAD'], '/repo')[1].strip()
    byprop = {}
    for d in sorted(glob.glob(os.path.join(ROOT, 'seeded', '*'))):
        sid = os.path.basename(d)
        if a.only and sid not in a.only: continue
        byprop.setdefault(sid.split('-')[0], []).append(d)
    q = queue.Queue()
    for p in sorted(byprop): q.put(p)
    results = []
    def worker(k):
        base = f'/tmp/final/w{k}'; repo = base + '/repo'
        sh(['rm', '-rf', base]); os.makedirs(base)
        sh(['git', 'worktree', 'prune'], '/repo')
        rc, out = sh(['git', 'worktree', 'add', '--detach', repo, 'HEAD'], '/repo')
        if rc != 0: print('worktree failed', out); return
        while True:
            try: p = q.get_nowait()
            except queue.Empty: break
            for d in byprop[p]:
                try: results.append(run_one(d, a, head, repo, {'VERIF_REPO': repo}, 'scratch-worktree of /repo HEAD (VERIF_REPO)'))
                except Exception as e: print('ERROR', d, e, flush=True)
        sh(['git', 'worktree', 'remove', '--force', repo], '/repo'); sh(['rm', '-rf', base])
    ts = [threading.Thread(target=worker, args=(k,)) for k in range(a.scratch)]
    [t.start() for t in ts]; [t.join() for t in ts]
    sh(['git', 'checkout', '--', 'evidence'], ROOT)
    det = sum(1 for r in results if r.get('detected')); inp = sum(1 for r in results if r.get('failing_input_found'))
    print(f'{det}/{len(results)} detected at tier {a.tier} ({inp} with a failing input); not applying: {[r["id"] for r in results if not r.get("applies")]}; missed: {[r["id"] for r in results if r.get("applies") and not r.get("detected")]}; no failing input: {[r["id"] for r in results if r.get("detected") and not r.get("failing_input_found")]}')

def main():
    ap = argparse.ArgumentParser()
    ap.add_argument('--tier', default='quick')
    ap.add_argument('--only', nargs='*')
    ap.add_argument('--scratch', type=int, default=0, help='N parallel workers, each on its own scratch worktree of /repo HEAD (VERIF_REPO); one property per worker at a time')
    ap.add_argument('--one-per-property', action='store_true', help='/repo-itself mode: only the last seeded id of each property')
    a = ap.parse_args()
    if a.scratch:
        return scratch_mode(a)
    rc, out = sh(['git', 'status', '--porcelain', '--untracked-files=no'], '/repo')
    if out.strip():
        print('/repo is not clean:', out); sys.exit(2)
    head = sh(['git', 'rev-parse', '--short', 'HEAD'], '/repo')[1].strip()
    dirs = sorted(glob.glob(os.path.join(ROOT, 'seeded', '*')))
    if a.only:
        dirs = [d for d in dirs if os.path.basename(d) in a.only]
    if a.one_per_property:
        last = {}
        for d in dirs: last[os.path.basename(d).split('-')[0]] = d
        dirs = sorted(last.values())
    results = []
    for d in dirs:
        prop = os.path.basename(d).split('-')[0]
        results.append(run_one(d, a, head, '/repo', {}, 'repo-itself (git -C /repo apply / check / checkout)', out_name='final_repo.json'))
        sh(['git', 'checkout', '--', 'evidence/' + prop + '.json'], ROOT)
    rc, out = sh(['git', 'status', '--porcelain', '--untracked-files=no'], '/repo')
    print('repo clean after run:', not out.strip())
    det = sum(1 for r in results if r.get('detected'))
    print(f'{det}/{len(results)} detected at tier {a.tier}; not applying: {[r["id"] for r in results if not r.get("applies")]}; missed: {[r["id"] for r in results if r.get("applies") and not r.get("detected")]}')

if __name__ == '__main__':
    main()
