#!/usr/bin/env python3
"""Normalises ids in known_findings.json: ids beyond DESIGN's original F1..F24 become <property>-<id> (builders numbered independently)."""
import json, re
p = '/verif/known_findings.json'
d = json.load(open(p))
for e in d:
    m = re.fullmatch(r'F(\d+)', e['id'])
    if m and int(m.group(1)) > 24:
        e['id'] = f"{e['property']}-{e['id']}"
d.sort(key=lambda e: (e['property'], e['id']))
json.dump(d, open(p, 'w'), indent=1)
print([(e['id'], e['status']) for e in d])
