#!/usr/bin/env python3
"""Regenerates the generated appendices of DESIGN.md (between the GENERATED markers) from claims.json,
meta/*.json, known_findings.json, seeded/*/meta.json and the Lean sources. Run by hand; never by a check."""
import json, os, re, glob
ROOT = os.path.dirname(os.path.abspath(__file__))
props = [json.loads(l) for l in open(os.path.join(ROOT, "properties.jsonl"))]
claims = json.load(open(os.path.join(ROOT, "claims.json")))
findings = json.load(open(os.path.join(ROOT, "known_findings.json")))

def esc(s, n=None):
    s = str(s).replace("|", "\\|").replace("\n", " ")
    return s if n is None or len(s) <= n else s[: n - 1] + "…"

out = []
out.append("## Appendix E — per property, as built (generated from claims.json and meta/*.json)\n")
for p in props:
    pid = p["id"]
    c = claims.get(pid, {})
    meta_path = os.path.join(ROOT, "meta", pid + ".json")
    meta = json.load(open(meta_path)) if os.path.exists(meta_path) else {}
    thm = os.path.join(ROOT, "lean", "DarkluaModel", pid, "Thm.lean")
    n_thm = n_ex = 0
    if os.path.exists(thm):
        txt = open(thm).read()
        n_thm = len(re.findall(r"^\s*theorem\s", txt, re.M))
        n_ex = len(re.findall(r"^\s*example\b", txt, re.M))
    out.append(f"### {pid} {p['title']}\n")
    out.append(f"*Claim.* {c.get('text', '(not claimed)')}\n")
    out.append(f"*Trusted / assumed.* {c.get('note', '')}\n")
    out.append(f"*Theorems.* `lean/DarkluaModel/{pid}/Thm.lean`: {n_thm} theorems, {n_ex} non-vacuity examples. "
               f"Known findings: {', '.join(e['id'] for e in findings if e['property'] == pid and e.get('status') != 'fixed') or 'none'}."
               f" Fixed: {', '.join(e['id'] for e in findings if e['property'] == pid and e.get('status') == 'fixed') or 'none'}.\n")
    st = meta.get("statements", {})
    if st:
        out.append("| theorem | meaning |\n|---|---|")
        for k, v in st.items():
            out.append(f"| `{k.split('.')[-1]}` | {esc(v, 400)} |")
        out.append("")
    mt = meta.get("mutation_tests")
    if mt:
        n = len(mt) if isinstance(mt, list) else len(mt.keys())
        out.append(f"*Builder's own mutation tests:* {n} recorded in meta/{pid}.json.\n")

out.append("## Appendix F — genuine defects of the unchanged tree (generated from known_findings.json)\n")
out.append("Ids are scoped by property. `known` = recorded, replayed on every run as KNOWN-FINDING; `fixed` = repaired by a `fix:` commit in /repo (suppresses nothing).\n")
out.append("| property | id | status | site | witness | what fails |\n|---|---|---|---|---|---|")
for e in sorted(findings, key=lambda e: (e["property"], e["id"])):
    out.append(f"| {e['property']} | {e['id']} | {e.get('status','known')}{(' ' + e['commit']) if e.get('commit') else ''} | {esc(e.get('site',''), 90)} | {esc(json.dumps(e.get('witness')), 140)} | {esc(e.get('expected_wrong',''), 220)} |")
out.append("")

out.append("## Appendix G — seeded changes and which checks catch them (generated from seeded/*/meta.json)\n")
out.append("`final` = the registered quick check of the property run with the patch applied in the last pass of `tools_seeded.py` over ALL recorded changes: `scratch` = on a scratch worktree of /repo HEAD through `VERIF_REPO` (parallel pass, every id); `/repo itself` = `git -C /repo apply` / `./check` / `git -C /repo checkout -- .` (one id per property, and every id in the first final pass at 40 changes). `first` = at first confirmation, before any strengthening. Rounds: m1,m2 = round 1; m3,m4 = round 2; m5,m6 = round 3 (seeders were told which sites earlier rounds used).\n")
out.append("| id | breaks | site | needs to manifest | first confirmation: detected by | final pass (quick) |\n|---|---|---|---|---|---|")
def fin_str(fin, label):
    if not fin: return ''
    if not fin.get('applies', True): return f"{label}: patch does not apply on {fin.get('repo_head')}"
    return (f"{label} @{fin.get('repo_head')}: {'DETECTED' if fin.get('detected') else 'missed'}, {fin.get('violation_lines')} VIOLATION lines, {fin.get('with_failing_input')} with a failing input")
for d in sorted(glob.glob(os.path.join(ROOT, "seeded", "*", "meta.json"))):
    m = json.load(open(d))
    det = m.get("detected_by", {})
    dd = os.path.dirname(d)
    fin = json.load(open(os.path.join(dd, 'final.json'))) if os.path.exists(os.path.join(dd, 'final.json')) else {}
    finr = json.load(open(os.path.join(dd, 'final_repo.json'))) if os.path.exists(os.path.join(dd, 'final_repo.json')) else {}
    label = 'scratch' if 'scratch' in str(fin.get('mode', '')) else '/repo itself'
    fin_s = '; '.join(x for x in [fin_str(fin, label), fin_str(finr, '/repo itself')] if x) or 'not run'
    first = m.get('detected_by_first_confirmation', det)
    first_s = "; ".join(f"{k}: {esc(v, 90)}" for k, v in first.items()) if isinstance(first, dict) else esc(first, 300)
    out.append(f"| {m.get('id')} | {esc(m.get('breaks',''), 160)} | {esc(m.get('site',''), 110)} | {esc(m.get('needs_to_manifest',''), 200)} | {first_s} | {fin_s} |")
out.append("")

text = "\n".join(out)
path = os.path.join(ROOT, "DESIGN.md")
doc = open(path).read()
a, b = "<!-- GENERATED:BEGIN -->", "<!-- GENERATED:END -->"
if a in doc and b in doc:
    doc = doc[: doc.index(a) + len(a)] + "\n" + text + "\n" + doc[doc.index(b):]
else:
    doc = doc.rstrip() + "\n\n" + a + "\n" + text + "\n" + b + "\n"
open(path, "w").write(doc)
print("DESIGN.md appendices regenerated:", len(text), "bytes")
